"""Run Kani harnesses against the real crate in a scratch copy of /repo (DESIGN.md §3.1)."""
import os
import re
import shutil
import subprocess
import tempfile
import time

VERIF = os.path.dirname(os.path.dirname(os.path.abspath(__file__)))
HARNESS_DIR = os.path.join(VERIF, 'kani', 'harness')


class Scratch:
    """A scratch copy of the repository (without target/ and .git/), removed on close()."""

    def __init__(self, repo):
        self.repo = repo
        self.dir = tempfile.mkdtemp(prefix='dashu_verif_')
        subprocess.run(['rsync', '-a', '--exclude', 'target', '--exclude', '.git', repo.rstrip('/') + '/',
                        self.dir + '/'], check=True)
        os.makedirs(os.path.join(self.dir, '.cargo'), exist_ok=True)
        with open(os.path.join(self.dir, '.cargo', 'config.toml'), 'a') as f:
            f.write('\n[net]\noffline = true\n')
        self.injected = []

    def inject(self, rel_file, harness_file, modname, extra_cfg=None):
        """Append one line to rel_file that mounts the harness file as a child module.
        extra_cfg: additional cfg predicate (e.g. `not(feature = "std")`) for harness files that only compile in
        one feature configuration."""
        path = os.path.join(self.dir, rel_file)
        cfg = 'any(kani, dashu_verif_replay)'
        if extra_cfg:
            cfg = 'all(%s, %s)' % (cfg, extra_cfg)
        line = '\n#[cfg(%s)] #[path = "%s"] mod %s;\n' % (
            cfg, os.path.join(HARNESS_DIR, harness_file), modname)
        with open(path, 'a') as f:
            f.write(line)
        self.injected.append((rel_file, harness_file))
        # module path of the injected child module inside its crate
        parts = rel_file.split('/')
        i = parts.index('src')
        mods = parts[i + 1:]
        mods[-1] = mods[-1][:-3]
        if mods[-1] in ('mod', 'lib'):
            mods = mods[:-1]
        return '::'.join(mods + [modname])

    def close(self):
        shutil.rmtree(self.dir, ignore_errors=True)


def run_kani(scratch, package, harnesses, rustflags='--cfg force_bits="64"', timeout=1800, jobs=8,
             extra_args=(), harness_timeout=None, features=None, no_default_features=False, cbmc_args=()):
    """Run the named harnesses (exact names) of one package. Returns dict name -> result."""
    cmd = ['cargo', 'kani', '-p', package, '--exact', '--output-format', 'terse', '-j', str(jobs),
           '-Z', 'function-contracts', '-Z', 'stubbing', '-Z', 'unstable-options']
    if harness_timeout:
        cmd += ['--harness-timeout', '%ds' % harness_timeout]
    if no_default_features:
        cmd += ['--no-default-features']
    if features:
        cmd += ['--features', features]
    cmd += list(extra_args)
    for h in harnesses:
        cmd += ['--harness', h]
    if cbmc_args:
        cmd += ['--cbmc-args'] + list(cbmc_args)      # must be last on the command line
    env = dict(os.environ)
    env['CARGO_NET_OFFLINE'] = 'true'
    env['RUSTFLAGS'] = rustflags
    env['CARGO_TARGET_DIR'] = os.path.join(scratch.dir, 'target')
    t0 = time.time()
    # own process group: on timeout only OUR cargo/kani/cbmc processes are killed
    proc = subprocess.Popen(cmd, cwd=scratch.dir, env=env, stdout=subprocess.PIPE, stderr=subprocess.STDOUT,
                            text=True, start_new_session=True)
    try:
        out, _ = proc.communicate(timeout=timeout)
        rc = proc.returncode
    except subprocess.TimeoutExpired:
        import signal
        try:
            os.killpg(proc.pid, signal.SIGKILL)
        except OSError:
            pass
        out, _ = proc.communicate()
        out = out or ''
        rc = -9
    wall = time.time() - t0
    res = parse_kani_output(out, harnesses)
    return {'cmd': ' '.join(cmd), 'rustflags': rustflags, 'wall_s': wall, 'returncode': rc, 'raw': out,
            'harnesses': res}


def _parse_section(full, sec):
    r = {'full_name': full, 'status': 'unknown', 'failed_checks': [], 'checks': 0, 'cover_sat': 0,
         'cover_total': 0, 'time_s': None}
    m2 = re.search(r'VERIFICATION:- (SUCCESSFUL|FAILED)', sec)
    if re.search(r'CBMC timed out', sec):
        r['status'] = 'timeout'      # Kani prints VERIFICATION:- FAILED for a harness timeout too
    elif re.search(r'CBMC appears to have run out of memory', sec):
        r['status'] = 'oom'
    elif m2:
        r['status'] = 'success' if m2.group(1) == 'SUCCESSFUL' else 'failed'
    elif re.search(r'timed out|Timeout', sec):
        r['status'] = 'timeout'
    elif re.search(r'out of memory|SIGKILL|signal: 9', sec):
        r['status'] = 'oom'
    m3 = re.search(r'\*\* (\d+) of (\d+) failed', sec)
    if m3:
        r['checks'] = int(m3.group(2))
        r['n_failed'] = int(m3.group(1))
    m4 = re.search(r'\*\* (\d+) of (\d+) cover properties satisfied', sec)
    if m4:
        r['cover_sat'], r['cover_total'] = int(m4.group(1)), int(m4.group(2))
    m5 = re.search(r'Verification Time: ([0-9.]+)s', sec)
    if m5:
        r['time_s'] = float(m5.group(1))
    for fm in re.finditer(r'Failed Checks: (.*)\n\s*File: "([^"]*)", line (\d+), in (\S+)', sec):
        r['failed_checks'].append({'desc': fm.group(1), 'file': fm.group(2), 'line': int(fm.group(3)),
                                   'in': fm.group(4)})
    if any('unwinding assertion' in f['desc'] for f in r['failed_checks']):
        r['unwind_failed'] = True
    pb = re.search(r'Concrete playback unit test for `[^`]*`:\s*```\s*(.*?)```', sec, re.S)
    if pb:
        vals = []
        for vm in re.finditer(r'vec!\[([0-9, ]*)\]', pb.group(1)):
            vals.append([int(x) for x in vm.group(1).replace(' ', '').split(',') if x])
        r['playback'] = vals
        r['playback_test'] = pb.group(1)
    r['log'] = sec[-6000:]
    return r


def parse_kani_output(out, wanted):
    """Split the (terse, -j) log into per-harness sections using the `Thread N:` prefixes."""
    res = {}
    cur = {}          # thread id -> harness full name
    blocks = {}       # harness full name -> text
    active = None
    for line in out.split('\n'):
        m = re.match(r'^(?:Thread (\d+): )?Checking harness (\S+?)\.\.\.', line)
        if m:
            tid = m.group(1) or '0'
            cur[tid] = m.group(2)
            blocks.setdefault(m.group(2), '')
            active = m.group(2) if m.group(1) is None else None
            continue
        m = re.match(r'^Thread (\d+): ?(.*)$', line)
        if m:
            active = cur.get(m.group(1))
            if active is not None:
                blocks[active] += m.group(2) + '\n'
            continue
        if re.match(r'^(Manual Harness Summary|Complete - |Verification failed for|Summary:)', line):
            active = None
        if active is not None:
            blocks[active] += line + '\n'
    for full, sec in blocks.items():
        res[full] = _parse_section(full, sec)
    m = re.search(r'Complete - (\d+) successfully verified harnesses, (\d+) failures, (\d+) total', out)
    for w in wanted:
        if w not in res:
            res[w] = {'full_name': w, 'status': 'missing', 'failed_checks': [], 'checks': 0, 'cover_sat': 0,
                      'cover_total': 0, 'time_s': None, 'log': out[-3000:]}
    return res
