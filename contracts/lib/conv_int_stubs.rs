// ---- conv_int_stubs.rs: integer/src/repr.rs `TypedReprRef` / `Repr`, `UBig`, `IBig` as seen from
// integer/src/convert.rs.  Values are mathematical integers v().  EVERY external_body contract below is a TRUSTED
// ASSUMPTION about dashu-int; each was read off the real function (file named at the stub).
use core::ops::{Shr, Mul};
use vstd::std_specs::ops::*;

pub type Word = @W@;
pub type DoubleWord = @D@;
pub open spec fn dword_bits() -> nat { 2 * @BITS@ }

/// integer/src/repr.rs `pub enum TypedReprRef<'a>` -- transcription of the two-variant enum
#[derive(Clone, Copy)]
pub enum TypedReprRef<'a> {
    RefSmall(DoubleWord),
    RefLarge(&'a [Word]),
}
pub use TypedReprRef::*;
#[verifier::external_body]
pub struct Repr { _p: u8 }
pub uninterp spec fn repr_of(i: int) -> Repr;
impl Repr { pub uninterp spec fn v(&self) -> int; }
/// value of a little-endian word sequence (abstract here: the kernels' `val` of lib/prelude.rs)
pub uninterp spec fn wval(s: Seq<Word>) -> int;
impl<'a> TypedReprRef<'a> {
    pub open spec fn v(&self) -> int {
        match *self { TypedReprRef::RefSmall(d) => d as int, TypedReprRef::RefLarge(w) => wval(w@) }
    }
    /// representation invariant of repr.rs: the heap form is used only for values that do not fit a double word
    /// (>= 3 words, top word non-zero)
    pub open spec fn wf(&self) -> bool {
        match *self { TypedReprRef::RefSmall(d) => true, TypedReprRef::RefLarge(w) => wval(w@) >= pow2(dword_bits()) }
    }
}
/// every integer is the value of some Repr (memory limits ignored)
pub broadcast axiom fn ax_repr_of(i: int) ensures (#[trigger] repr_of(i)).v() == i;
pub broadcast group conv_int_axioms { ax_repr_of }

/// primitive::PrimitiveUnsigned (integer/src/primitive.rs), only what try_to_unsigned needs: the range of the type
pub trait PrimitiveUnsigned: Sized {
    spec fn umax() -> int;
    spec fn as_int(&self) -> int;
}
impl PrimitiveUnsigned for u32 {
    open spec fn umax() -> int { u32::MAX as int }
    open spec fn as_int(&self) -> int { *self as int }
}
impl PrimitiveUnsigned for u64 {
    open spec fn umax() -> int { u64::MAX as int }
    open spec fn as_int(&self) -> int { *self as int }
}

impl Repr {
    /// repr.rs `Repr::as_typed`: the magnitude view; `unreachable!()` for a negative value
    #[verifier::external_body]
    pub fn as_typed(&self) -> (r: TypedReprRef<'_>)
        requires self.v() >= 0
        ensures r.v() == self.v(), r.wf()
    { unimplemented!() }
}
impl<'a> TypedReprRef<'a> {
    /// bits.rs `TypedReprRef::bit_len`: 0 for zero, otherwise the k with 2^(k-1) <= v < 2^k
    #[verifier::external_body]
    pub fn bit_len(self) -> (r: usize)
        requires self.wf()
        ensures self.v() == 0 ==> r == 0,
            self.v() > 0 ==> r >= 1 && pow2((r - 1) as nat) <= self.v() < pow2(r as nat)
    { unimplemented!() }
    /// bits.rs `TypedReprRef::are_low_bits_nonzero`: "Check if low n-bits are not all zeros"
    #[verifier::external_body]
    pub fn are_low_bits_nonzero(self, n: usize) -> (r: bool)
        requires self.wf()
        ensures r == (self.v() % (pow2(n as nat) as int) != 0)
    { unimplemented!() }
    /// convert.rs `TypedReprRef::try_to_unsigned`: Ok(v) iff the value fits T, else Err(OutOfBounds)
    #[verifier::external_body]
    pub fn try_to_unsigned<T: PrimitiveUnsigned>(self) -> (r: Result<T, ConversionError>)
        requires self.wf()
        ensures self.v() <= T::umax() ==> (r is Ok && r->Ok_0.as_int() == self.v()),
            self.v() > T::umax() ==> r is Err
    { unimplemented!() }
}
/// shift_ops.rs `impl Shr<usize> for TypedReprRef`: floor division by 2^rhs, returned as a (non-negative) Repr
impl<'a> Shr<usize> for TypedReprRef<'a> {
    type Output = Repr;
    #[verifier::external_body]
    fn shr(self, rhs: usize) -> Repr { unimplemented!() }
}
impl<'a> ShrSpecImpl<usize> for TypedReprRef<'a> {
    open spec fn obeys_shr_spec() -> bool { true }
    open spec fn shr_req(self, rhs: usize) -> bool { self.wf() }
    open spec fn shr_spec(self, rhs: usize) -> Repr { repr_of(self.v() / (pow2(rhs as nat) as int)) }
}

/// convert.rs `mod repr` `to_f32_small` / `to_f64_small` (double-word integer -> float through `as` casts, which
/// Verus cannot model).  TRUSTED here, PROVED elsewhere: the Kani group int_convert_small proves exactly this
/// statement about the real functions over all DoubleWord values (kind 'complete').
#[verifier::external_body]
pub fn to_f32_small(dword: DoubleWord) -> (r: Approximation<f32, Sign>)
    ensures ap32_ok(r, false, dword as int, 1)
{ unimplemented!() }
#[verifier::external_body]
pub fn to_f64_small(dword: DoubleWord) -> (r: Approximation<f64, Sign>)
    ensures ap64_ok(r, false, dword as int, 1)
{ unimplemented!() }

// ---- UBig / IBig (ubig.rs, ibig.rs): views onto the magnitude
#[verifier::external_body]
pub struct UBig { _p: u8 }
#[verifier::external_body]
pub struct IBig { _p: u8 }
impl UBig {
    pub uninterp spec fn v(&self) -> int;
    /// ubig.rs `UBig::repr`: the (unsigned) value itself
    #[verifier::external_body]
    pub fn repr(&self) -> (r: TypedReprRef<'_>) ensures r.wf(), r.v() == self.v() { unimplemented!() }
}
impl IBig {
    pub uninterp spec fn v(&self) -> int;
    /// ibig.rs `IBig::as_sign_repr` = repr.rs `Repr::as_sign_typed`: sign and magnitude; zero is stored as +0
    #[verifier::external_body]
    pub fn as_sign_repr(&self) -> (r: (Sign, TypedReprRef<'_>))
        ensures r.1.wf(), r.1.v() == absi(self.v()), r.0 == (if self.v() < 0 { Sign::Negative } else { Sign::Positive })
    { unimplemented!() }
}

// ---- base/src/sign.rs: `impl Mul<Sign> for Sign` (`impl Mul<f32/f64> for Sign`: conv_sign_float.rs)
pub open spec fn sign_mul(a: Sign, b: Sign) -> Sign { if a == b { Sign::Positive } else { Sign::Negative } }
impl Mul<Sign> for Sign {
    type Output = Sign;
    #[verifier::external_body]
    fn mul(self, rhs: Sign) -> Sign { unimplemented!() }
}
impl MulSpecImpl<Sign> for Sign {
    open spec fn obeys_mul_spec() -> bool { true }
    open spec fn mul_req(self, rhs: Sign) -> bool { true }
    open spec fn mul_spec(self, rhs: Sign) -> Sign { sign_mul(self, rhs) }
}
