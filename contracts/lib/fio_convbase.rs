// ---- fio_convbase.rs: vocabulary, lemmas and stubs for the integer-only shortcuts of float/src/convert.rs
// `Context::convert_base` and float/src/utils.rs `ilog_exact`.
// Needs round_prelude.rs, round_int_stubs.rs, round_float_repr.rs (ipow, same_value, Repr, Context, Repr::new).

// ---- "n is a power of base": the exponent, by definition (mathematics, not the loop of ilog_exact) ----------------
pub open spec fn is_pow_of(n: int, base: int, k: nat) -> bool { k >= 1 && ipow(base, k) == n }
/// the k >= 1 with base^k == n, or 0 if there is none
pub open spec fn ilog_spec(n: int, base: int) -> nat {
    if exists|k: nat| is_pow_of(n, base, k) { choose|k: nat| is_pow_of(n, base, k) } else { 0 }
}

pub proof fn lemma_ipow_strict(b: int, x: nat, y: nat)
    requires b >= 2, x < y
    ensures ipow(b, x) < ipow(b, y)
    decreases y
{
    lemma_ipow_pos(b, x);
    if y == x + 1 {
        let p = ipow(b, x);
        assert(ipow(b, y) == b * ipow(b, (y - 1) as nat));
        assert(b * p > p) by (nonlinear_arith) requires b >= 2, p >= 1;
    } else {
        lemma_ipow_strict(b, x, (y - 1) as nat);
        let p = ipow(b, (y - 1) as nat);
        lemma_ipow_pos(b, (y - 1) as nat);
        assert(ipow(b, y) == b * p);
        assert(b * p > p) by (nonlinear_arith) requires b >= 2, p >= 1;
    }
}
pub proof fn lemma_ipow_mono(b: int, x: nat, y: nat)
    requires b >= 2, x <= y
    ensures ipow(b, x) <= ipow(b, y)
{
    if x < y { lemma_ipow_strict(b, x, y); }
}
/// a power has exactly one exponent
pub proof fn lemma_ilog_spec_is(n: int, base: int, k: nat)
    requires base >= 2, is_pow_of(n, base, k)
    ensures ilog_spec(n, base) == k
{
    let c = choose|c: nat| is_pow_of(n, base, c);
    assert(is_pow_of(n, base, c));
    if c < k { lemma_ipow_strict(base, c, k); }
    if k < c { lemma_ipow_strict(base, k, c); }
}
/// strictly between two consecutive powers (or below the base): not a power
pub proof fn lemma_ilog_spec_none(n: int, base: int, e: nat)
    requires base >= 2, e >= 1, ipow(base, (e - 1) as nat) < n, n < ipow(base, e)
    ensures ilog_spec(n, base) == 0
{
    assert forall|k: nat| !is_pow_of(n, base, k) by {
        if k >= 1 {
            if k <= e - 1 { lemma_ipow_mono(base, k, (e - 1) as nat); } else { lemma_ipow_mono(base, e, k); }
        }
    }
}
pub proof fn lemma_ilog_spec_small(n: int, base: int)
    requires base >= 2, n < base
    ensures ilog_spec(n, base) == 0
{
    assert forall|k: nat| !is_pow_of(n, base, k) by {
        if k >= 1 {
            lemma_ipow_mono(base, 1, k);
            assert(ipow(base, 1) == base) by { reveal_with_fuel(ipow, 2); }
        }
    }
}
pub proof fn lemma_ipow_2_64()
    ensures ipow(2, 64) == 0x1_0000_0000_0000_0000
{
    assert(ipow(2, 64) == 0x1_0000_0000_0000_0000) by (compute);
}
/// base^e <= Word::MAX with base >= 2 leaves e < 64
pub proof fn lemma_exp_small(b: int, e: nat)
    requires b >= 2, ipow(b, e) <= u64::MAX
    ensures e < 64
{
    if e >= 64 {
        lemma_ipow_ge2(b, e);
        lemma_ipow_mono(2, 64, e);
        lemma_ipow_2_64();
    }
}
pub proof fn lemma_ipow_ge2(b: int, e: nat)
    requires b >= 2
    ensures ipow(b, e) >= ipow(2, e)
    decreases e
{
    if e > 0 {
        lemma_ipow_ge2(b, (e - 1) as nat);
        lemma_ipow_pos(2, (e - 1) as nat);
        let (p, q) = (ipow(b, (e - 1) as nat), ipow(2, (e - 1) as nat));
        assert(b * p >= 2 * q) by (nonlinear_arith) requires b >= 2, p >= q, q >= 1;
    }
}
/// (b^k)^d == b^(k*d)
pub proof fn lemma_ipow_mul(b: int, k: nat, d: nat)
    ensures ipow(ipow(b, k), d) == ipow(b, k * d)
    decreases d
{
    if d == 0 {
        assert(k * d == 0);
    } else {
        lemma_ipow_mul(b, k, (d - 1) as nat);
        let kd1 = k * ((d - 1) as nat);
        assert(k * d == k + kd1) by (nonlinear_arith) requires d >= 1, kd1 == k * ((d - 1) as nat);
        lemma_ipow_add(b, k, kd1);
    }
}

// ---- "the same number in another base" (C08: sig * B^e == s1 * NewB^e1) for NewB a power of B or conversely ----------
/// nb == b: same_value; nb == b^k: s1 * b^(k*e1) == sig * b^e; b == nb^k: s1 * nb^e1 == sig * nb^(k*e)
pub open spec fn xsame(b: int, nb: int, sig: int, e: int, s1: int, e1: int) -> bool {
    if nb == b { same_value(b, s1, e1, sig, e) }
    else if nb > b { same_value(b, s1, ilog_spec(nb, b) * e1, sig, e) }
    else { same_value(nb, s1, e1, sig, e * ilog_spec(b, nb)) }
}
/// documented normal form of Repr: a non-zero significand is not divisible by the base
pub open spec fn sig_normal(b: int, s: int) -> bool { s == 0 || s % b != 0 }
pub open spec fn repr_inf<const B: Word>(r: Repr<B>) -> bool { r.significand.v() == 0 && r.exponent != 0 }
/// what `repr_round` (and the `Repr::new` in front of it) needs of its operand: the rounded exponent must be
/// representable, and -- resource limit: exponent overflow is a documented panic (C16), not modelled -- the digit
/// position of the split must have a bit position within usize (`pos_room`, lib/round_float_repr.rs)
pub open spec fn exp_in_range(b: int, s1: int, e1: int) -> bool {
    e1 + ndigits(b, s1) <= isize::MAX && ndigits(b, s1) <= isize::MAX && pos_room(ndigits(b, s1) as int)
}

/// re-basing lemma for the shortcut "NewB is a power of B": (s1, e1) in base nb = b^k denotes S * nb^E where
/// S = sig * b^rem and e = k*E + rem  ==>  (s1, k*e1) in base b denotes sig * b^e
pub proof fn lemma_rebase_up(b: int, nb: int, k: nat, sig: int, e: int, rem: int, bigs: int, bige: int, s1: int, e1: int)
    requires b >= 2, k >= 1, nb == ipow(b, k), 0 <= rem, e == bige * k + rem, bigs == sig * ipow(b, rem as nat),
        same_value(nb, s1, e1, bigs, bige),
    ensures same_value(b, s1, k * e1, sig, e)
{
    let pr = ipow(b, rem as nat);
    lemma_ipow_pos(b, rem as nat);
    if e1 <= bige {
        // s1 == bigs * nb^(bige - e1)
        let d = (bige - e1) as nat;
        lemma_ipow_mul(b, k, d);
        let kd = k * d;
        let pk = ipow(b, kd);
        assert(kd == bige * k - k * e1) by (nonlinear_arith) requires kd == k * d, d == bige - e1;
        lemma_ipow_add(b, rem as nat, kd);
        assert(s1 == sig * (pr * pk)) by (nonlinear_arith) requires s1 == bigs * pk, bigs == sig * pr;
        assert(k * e1 <= e);
        assert((e - k * e1) as nat == rem as nat + kd);
    } else {
        // bigs == s1 * nb^(e1 - bige)
        let d = (e1 - bige) as nat;
        lemma_ipow_mul(b, k, d);
        let kd = k * d;
        let pk = ipow(b, kd);
        assert(kd == k * e1 - bige * k) by (nonlinear_arith) requires kd == k * d, d == e1 - bige;
        assert(kd >= k) by (nonlinear_arith) requires kd == k * d, d >= 1, k >= 1;
        if k * e1 <= e {
            // kd <= rem
            let t = (rem - kd) as nat;
            lemma_ipow_add(b, t, kd);
            lemma_ipow_pos(b, kd);
            let pt = ipow(b, t);
            assert(pr == pt * pk);
            assert(sig * (pt * pk) == s1 * pk);
            assert((sig * pt) * pk == sig * (pt * pk)) by (nonlinear_arith);
            assert(sig * pt == s1) by (nonlinear_arith) requires (sig * pt) * pk == s1 * pk, pk >= 1;
            assert((e - k * e1) as nat == t);
        } else {
            let t = (kd - rem) as nat;
            lemma_ipow_add(b, t, rem as nat);
            let pt = ipow(b, t);
            assert(pk == pt * pr);
            assert(sig * pr == s1 * (pt * pr));
            assert((s1 * pt) * pr == s1 * (pt * pr)) by (nonlinear_arith);
            assert(sig == s1 * pt) by (nonlinear_arith) requires sig * pr == (s1 * pt) * pr, pr >= 1;
            assert((k * e1 - e) as nat == t);
        }
    }
}
/// a zero significand of the normalised operand means the number is zero
pub proof fn lemma_same_value_zero(b: int, s1: int, e1: int, s2: int, e2: int)
    requires b >= 2, same_value(b, s1, e1, s2, e2), s1 == 0
    ensures s2 == 0
{
    if e1 <= e2 {
        let p = ipow(b, (e2 - e1) as nat);
        lemma_ipow_pos(b, (e2 - e1) as nat);
        assert(s2 == 0) by (nonlinear_arith) requires 0 == s2 * p, p >= 1;
    } else {
        let p = ipow(b, (e1 - e2) as nat);
        assert(0 * p == 0);
    }
}
pub proof fn lemma_same_value_refl(b: int, s: int, e: int)
    ensures same_value(b, s, e, s, e)
{
    assert(ipow(b, 0) == 1);
    assert(s * 1 == s);
}

// ---- TRUSTED stubs ----------------------------------------------------------------------------------------------------
/// `Word::pow` (core): the mathematical power when it fits; overflow panics (debug) / wraps (release): precondition
pub assume_specification [u64::pow] (b: u64, e: u32) -> (r: u64)
    requires ipow(b as int, e as nat) <= u64::MAX as int,
    ensures r as int == ipow(b as int, e as nat);

/// dashu_base::DivRemEuclid for isize (base/src/ring/div_rem.rs impl_div_rem_ops_prim!): Euclidean division of machine
/// integers, `self == q * rhs + r`, `0 <= r < |rhs|`; rhs == 0 and isize::MIN / -1 panic.  Stated for rhs > 0 (the only use).
pub trait DivRemEuclid<Rhs = Self> {
    type OutputDiv;
    type OutputRem;
    spec fn div_rem_euclid_req(self, rhs: Rhs) -> bool;
    spec fn div_rem_euclid_post(self, rhs: Rhs, r: (Self::OutputDiv, Self::OutputRem)) -> bool;
    fn div_rem_euclid(self, rhs: Rhs) -> (r: (Self::OutputDiv, Self::OutputRem))
        requires self.div_rem_euclid_req(rhs) ensures self.div_rem_euclid_post(rhs, r);
}
impl DivRemEuclid<isize> for isize {
    type OutputDiv = isize;
    type OutputRem = isize;
    open spec fn div_rem_euclid_req(self, rhs: isize) -> bool { rhs > 0 }
    open spec fn div_rem_euclid_post(self, rhs: isize, r: (isize, isize)) -> bool {
        self as int == (r.0 as int) * (rhs as int) + r.1 as int && 0 <= r.1 < rhs
    }
    #[verifier::external_body]
    fn div_rem_euclid(self, rhs: isize) -> (r: (isize, isize)) { unimplemented!() }
}
/// `impl Mul<Word> for IBig` (integer/src/mul_ops.rs, primitive operand forms): the exact product
impl Mul<Word> for IBig {
    type Output = IBig;
    #[verifier::external_body]
    fn mul(self, rhs: Word) -> IBig { unimplemented!() }
}
impl MulSpecImpl<Word> for IBig {
    open spec fn obeys_mul_spec() -> bool { true }
    open spec fn mul_req(self, rhs: Word) -> bool { true }
    open spec fn mul_spec(self, rhs: Word) -> IBig { ibig_of(self.v() * (rhs as int)) }
}
/// a non-zero ilog_spec is the exponent
pub proof fn lemma_ilog_pow(n: int, base: int)
    requires ilog_spec(n, base) >= 1
    ensures ipow(base, ilog_spec(n, base)) == n
{
    if exists|k: nat| is_pow_of(n, base, k) {
        let c = choose|c: nat| is_pow_of(n, base, c);
        assert(is_pow_of(n, base, c));
    }
}
pub open spec fn rd_val0<T, E>(r: Approximation<T, E>) -> T { match r { Approximation::Exact(v) => v, Approximation::Inexact(v, _) => v } }

// ---- the contract of `Context::convert_base` on its integer-only shortcuts (C08) --------------------------------------
pub open spec fn cb_pre<const B: Word, const NewB: Word>(precision: usize, repr: Repr<B>) -> bool {
    let (sig, e) = (repr.significand.v(), repr.exponent as int);
    &&& B >= 2 && NewB >= 2
    // documented normal form of the operand (Repr invariant)
    &&& sig_normal(B as int, sig)
    // `ilog_exact` must not overflow a word: true for bases below 2^32 (see its contract)
    &&& (if NewB > B { (NewB as int - 1) * (B as int) } else { (B as int - 1) * (NewB as int) }) <= Word::MAX
    // THE CONTRACT COVERS THE INTEGER-ONLY SHORTCUTS: same base, an infinity, NewB a power of B, B a power of NewB
    // (the general path -- ln / exp at doubled precision -- is cut off by rule D20 and proved unreachable)
    &&& (NewB == B || repr_inf(repr) || (NewB > B && ilog_spec(NewB as int, B as int) > 1)
            || (NewB < B && ilog_spec(B as int, NewB as int) > 1))
    // exponent range: isize overflow of the new exponent is outside this contract
    &&& ((!repr_inf(repr) && NewB == B) ==> exp_in_range(B as int, sig, e))
    &&& ((!repr_inf(repr) && NewB < B) ==> isize::MIN <= e * ilog_spec(B as int, NewB as int) <= isize::MAX)
    &&& ((!repr_inf(repr) && NewB < B) ==> forall|s1: int, e1: int|
            #[trigger] same_value(NewB as int, s1, e1, sig, e * ilog_spec(B as int, NewB as int))
            ==> exp_in_range(NewB as int, s1, e1))
    &&& ((!repr_inf(repr) && NewB > B) ==> forall|s1: int, e1: int|
            #[trigger] same_value(B as int, s1, ilog_spec(NewB as int, B as int) * e1, sig, e)
            ==> exp_in_range(NewB as int, s1, e1))
}
pub open spec fn cb_post<R: Round, const B: Word, const NewB: Word>(precision: usize, repr: Repr<B>, ret: Rounded<Repr<NewB>>) -> bool {
    let (sig, e) = (repr.significand.v(), repr.exponent as int);
    // infinities stay the same infinity
    &&& (repr_inf(repr) ==> rd_val0(ret).significand.v() == 0 && rd_val0(ret).exponent == repr.exponent)
    // C08: the exact value re-expressed in the new base (s1 * NewB^e1 == sig * B^e), then ONE correct rounding to the
    // target precision under the mode R with a truthful flag
    &&& (!repr_inf(repr) ==> exists|s1: int, e1: int| #[trigger] xsame(B as int, NewB as int, sig, e, s1, e1)
            && round_once(R::md(), NewB as int, precision, s1, e1, ret))
    // an Exact result is in normal form
    &&& ((!repr_inf(repr) && ret is Exact) ==> sig_normal(NewB as int, rd_val0(ret).significand.v()))
}
