// ---- pow_api_lemmas.rs: factor-2 removal and sign parity of UBig::pow / IBig::pow (needs shift_bv.rs, pow_lemmas.rs) --

pub proof fn lemma_ipow_distrib(a: int, b: int, e: int)
    ensures ipow(a * b, e) == ipow(a, e) * ipow(b, e),
    decreases e
{
    if e > 0 {
        lemma_ipow_distrib(a, b, e - 1);
        let x = ipow(a, e - 1); let y = ipow(b, e - 1);
        assert((a * b) * (x * y) == (a * x) * (b * y)) by (nonlinear_arith);
    } else {
        assert(1 * 1 == 1);
    }
}

pub proof fn lemma_ipow_nonneg(a: int, e: int)
    requires a >= 0,
    ensures ipow(a, e) >= 0,
    decreases e
{
    if e > 0 {
        lemma_ipow_nonneg(a, e - 1);
        let x = ipow(a, e - 1);
        assert(a * x >= 0) by (nonlinear_arith) requires a >= 0, x >= 0;
    }
}

/// (-a)^e == a^e for even e, -(a^e) for odd e
pub proof fn lemma_ipow_neg(a: int, e: int)
    requires e >= 0,
    ensures ipow(-a, e) == (if e % 2 == 1 { -ipow(a, e) } else { ipow(a, e) }),
    decreases e
{
    if e > 0 {
        lemma_ipow_neg(a, e - 1);
        let x = ipow(a, e - 1);
        assert((-a) * x == -(a * x)) by (nonlinear_arith);
        assert((-a) * (-x) == a * x) by (nonlinear_arith);
    }
}

/// B^n == 2^(BITS*n)
pub proof fn lemma_pw_pow2(n: int)
    requires n >= 0,
    ensures pw(n) == pow2(@BITS@ * n),
    decreases n
{
    if n > 0 {
        lemma_pw_pow2(n - 1);
        lemma_sh_pow2_bits();
        lemma_sh_pow2_add(@BITS@, @BITS@ * (n - 1));
    }
}

/// v = m * 2^t (t >= 1), v < B^n, 2*n*e within the allocation limit:
/// the shifted power is the power, the exponent product cannot overflow
pub proof fn lemma_pow_shift(v: int, t: int, e: int, n: int)
    requires v > 0, t >= 1, e >= 0, v % pow2(t) == 0, n >= 2, v < pw(n), 2 * (n * e) <= max_capacity(),
    ensures
        0 <= v / pow2(t) <= v,
        ipow(v / pow2(t), e) >= 0,
        e * t >= 0, e * t <= usize::MAX,
        ipow(v / pow2(t), e) * pow2(e * t) == ipow(v, e),
{
    let q = pow2(t);
    let m = v / q;
    lemma_sh_pow2_pos(t);
    vstd::arithmetic::div_mod::lemma_fundamental_div_mod(v, q);
    assert(v == q * m);
    vstd::arithmetic::div_mod::lemma_div_pos_is_pos(v, q);
    assert(m >= 1) by (nonlinear_arith) requires v == q * m, v > 0, m >= 0;
    assert(m <= v) by (nonlinear_arith) requires v == q * m, q >= 1, m >= 0;
    lemma_ipow_nonneg(m, e);
    assert(q * m == m * q) by (nonlinear_arith);
    lemma_ipow_distrib(m, q, e);
    lemma_pow2_ipow(t);
    lemma_ipow_mul(2, t, e);
    assert(t * e == e * t) by (nonlinear_arith);
    lemma_pow2_ipow(e * t);
    // bound: 2^t <= v < 2^(BITS*n)  ==>  t < BITS*n
    lemma_pw_pow2(n);
    assert(q <= v) by (nonlinear_arith) requires v == q * m, m >= 1, q >= 1;
    if t >= @BITS@ * n { lemma_sh_pow2_mono(@BITS@ * n, t); }
    assert(e * t >= 0) by (nonlinear_arith) requires e >= 0, t >= 0;
    assert(e * t <= @BITS@ * (n * e)) by (nonlinear_arith) requires e >= 0, 0 <= t <= @BITS@ * n;
}

/// a well-formed magnitude below B^n has at most n words
pub proof fn lemma_nwords_le(x: TypedReprRef, n: int)
    requires x.wf(), n >= 2, x.v() < pw(n),
    ensures x.nwords() <= n,
{
    match x {
        TypedReprRef::RefSmall(d) => {}
        TypedReprRef::RefLarge(w) => {
            if w@.len() > n {
                lemma_normalized_lower(w@);
                lemma_pw_mono(n, w@.len() as int - 1);
            }
        }
    }
}
