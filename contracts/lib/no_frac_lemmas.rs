// ---- no_frac_lemmas.rs: magnitude enclosures by powers of two, as fractions (no division): the arithmetic behind the
// bit-length shortcuts of the NumOrd impls against f32 / f64 (float, rational and integer crates).  Pure lemmas, nothing trusted.
// Needs `ipw` (lib/no_float_stubs.rs or lib/no_ipw.rs), rabs, cmp_int, vstd pow2.
pub mod no_frac_lemmas {
use super::*;
use vstd::arithmetic::power2::*;
use core::cmp::Ordering;

/// 2^k as a fraction tn(k) / td(k), k any integer
pub open spec fn tn(k: int) -> int { if k >= 0 { pow2(k as nat) as int } else { 1 } }
pub open spec fn td(k: int) -> int { if k < 0 { pow2((-k) as nat) as int } else { 1 } }
/// b^e as a fraction pn / pd
pub open spec fn pn(b: int, e: int) -> int { if e >= 0 { ipw(b, e as nat) } else { 1 } }
pub open spec fn pd(b: int, e: int) -> int { if e < 0 { ipw(b, (-e) as nat) } else { 1 } }

pub proof fn lemma_q2_add(a: nat, b: nat)
    ensures pow2(a + b) == pow2(a) * pow2(b), pow2(a) >= 1, pow2(b) >= 1,
{
    lemma_pow2_adds(a, b);
    lemma_pow2_pos(a);
    lemma_pow2_pos(b);
}
pub proof fn lemma_q2_mono(a: nat, b: nat)
    requires a <= b,
    ensures pow2(a) <= pow2(b), pow2(a) >= 1,
{
    lemma_pow2_pos(a);
    if a < b { lemma_pow2_strictly_increases(a, b); }
}
pub proof fn lemma_tntd_pos(k: int)
    ensures tn(k) >= 1, td(k) >= 1,
{
    if k >= 0 { lemma_pow2_pos(k as nat); } else { lemma_pow2_pos((-k) as nat); }
}

/// X >= 2^al, 0 < Y <= 2^be  ==>  X / Y >= 2^(al - be)
pub proof fn lemma_frac_ge(x: int, y: int, al: nat, be: nat)
    requires x >= pow2(al), 0 < y <= pow2(be),
    ensures x * td(al - be) >= tn(al - be) * y,
{
    let k = al - be;
    if k >= 0 {
        lemma_q2_add(k as nat, be);
        let (p, q) = (pow2(k as nat) as int, pow2(be) as int);
        assert(p * y <= p * q) by (nonlinear_arith) requires p >= 1, y <= q;
        assert(x * 1 == x);
    } else {
        lemma_q2_add((-k) as nat, al);
        let (p, q) = (pow2((-k) as nat) as int, pow2(al) as int);
        assert(x * p >= q * p) by (nonlinear_arith) requires p >= 1, x >= q;
        assert(1 * y == y);
    }
}
/// 0 <= X < 2^al, Y >= 2^be  ==>  X / Y < 2^(al - be)
pub proof fn lemma_frac_lt(x: int, y: int, al: nat, be: nat)
    requires 0 <= x < pow2(al), y >= pow2(be),
    ensures x * td(al - be) < tn(al - be) * y,
{
    let k = al - be;
    lemma_pow2_pos(be);
    if k >= 0 {
        lemma_q2_add(k as nat, be);
        let (p, q) = (pow2(k as nat) as int, pow2(be) as int);
        assert(p * y >= p * q) by (nonlinear_arith) requires p >= 1, y >= q;
        assert(x * 1 == x);
    } else {
        lemma_q2_add((-k) as nat, al);
        let (p, q) = (pow2((-k) as nat) as int, pow2(al) as int);
        assert(x * p < q * p) by (nonlinear_arith) requires p >= 1, x < q;
        assert(1 * y == y);
    }
}
/// j <= k  ==>  2^j <= 2^k  (as fractions)
pub proof fn lemma_t_mono(j: int, k: int)
    requires j <= k,
    ensures tn(j) * td(k) <= tn(k) * td(j),
{
    lemma_tntd_pos(j); lemma_tntd_pos(k);
    if j >= 0 {
        lemma_q2_mono(j as nat, k as nat);
        assert(tn(j) * 1 == tn(j) && tn(k) * 1 == tn(k));
    } else if k >= 0 {
        let (p, q) = (tn(k), td(j));
        assert(1 * 1 <= p * q) by (nonlinear_arith) requires p >= 1, q >= 1;
    } else {
        lemma_q2_mono((-k) as nat, (-j) as nat);
        assert(1 * td(k) == td(k) && 1 * td(j) == td(j));
    }
}

/// a/b >= 2^k1, k1 >= k2, c/d < 2^k2  ==>  a/b > c/d     (a d > c b)
pub proof fn lemma_chain_gt(a: int, b: int, c: int, d: int, k1: int, k2: int)
    requires a >= 0, b >= 1, c >= 0, d >= 1, k1 >= k2,
        a * td(k1) >= tn(k1) * b,
        c * td(k2) < tn(k2) * d,
    ensures a * d > c * b,
{
    lemma_t_mono(k2, k1);
    lemma_tntd_pos(k1); lemma_tntd_pos(k2);
    let (n1, d1, n2, d2) = (tn(k1), td(k1), tn(k2), td(k2));
    // c d2 < n2 d  and  n2 d1 <= n1 d2   ==>   c d1 < n1 d
    assert(c * d1 < n1 * d) by {
        assert((c * d2) * d1 < (n2 * d) * d1) by (nonlinear_arith) requires c * d2 < n2 * d, d1 >= 1;
        assert((n2 * d1) * d <= (n1 * d2) * d) by (nonlinear_arith) requires n2 * d1 <= n1 * d2, d >= 1;
        assert((n2 * d) * d1 == (n2 * d1) * d) by (nonlinear_arith);
        assert((c * d2) * d1 == (c * d1) * d2) by (nonlinear_arith);
        assert((n1 * d2) * d == (n1 * d) * d2) by (nonlinear_arith);
        let (u, v) = (c * d1, n1 * d);
        assert(u < v) by (nonlinear_arith) requires u * d2 < v * d2, d2 >= 1;
    }
    // a d1 >= n1 b  ==>  a d1 d >= n1 b d > c d1 b
    assert((a * d1) * d >= (n1 * b) * d) by (nonlinear_arith) requires a * d1 >= n1 * b, d >= 1;
    assert((n1 * d) * b > (c * d1) * b) by (nonlinear_arith) requires c * d1 < n1 * d, b >= 1;
    assert((n1 * b) * d == (n1 * d) * b) by (nonlinear_arith);
    assert((a * d1) * d == (a * d) * d1) by (nonlinear_arith);
    assert((c * d1) * b == (c * b) * d1) by (nonlinear_arith);
    let (u, v) = (a * d, c * b);
    assert(u > v) by (nonlinear_arith) requires u * d1 > v * d1, d1 >= 1;
}
/// a/b < 2^k1, k1 <= k2, c/d >= 2^k2  ==>  a/b < c/d
pub proof fn lemma_chain_lt(a: int, b: int, c: int, d: int, k1: int, k2: int)
    requires a >= 0, b >= 1, c >= 0, d >= 1, k1 <= k2,
        a * td(k1) < tn(k1) * b,
        c * td(k2) >= tn(k2) * d,
    ensures a * d < c * b,
{
    lemma_chain_gt(c, d, a, b, k2, k1);
}

/// 2^(t-1) <= b < 2^t  ==>  2^((t-1) e) <= b^e <= 2^(t e)
pub proof fn lemma_ipw_encl(b: int, t: int, e: nat)
    requires t >= 1, pow2((t - 1) as nat) <= b < pow2(t as nat),
    ensures pow2(((t - 1) * e) as nat) <= ipw(b, e) <= pow2((t * e) as nat), (t - 1) * e >= 0, t * e >= 0,
{
    assert((t - 1) * e >= 0 && t * e >= 0) by (nonlinear_arith) requires t >= 1, e >= 0;
    lemma_pow2_pos((t - 1) as nat);
    lemma_ipw2((t - 1) as nat); lemma_ipw2(t as nat);
    lemma_ipw_mono(ipw(2, (t - 1) as nat), b, e);
    lemma_ipw_mono(b, ipw(2, t as nat), e);
    lemma_ipw_pot((t - 1) as nat, e); lemma_ipw_pot(t as nat, e);
    assert(e * (t - 1) == (t - 1) * e && e * t == t * e) by (nonlinear_arith);
    lemma_ipw2((e * (t - 1)) as nat); lemma_ipw2((e * t) as nat);
}

/// magnitude enclosure of s * b^e by bit lengths: sb = bit length of |s| (s != 0), t = bit length of b:
///   e >= 0:  2^(sb - 1 + (t-1) e) <= |s| b^e < 2^(sb + t e)
///   e <  0:  2^(sb - 1 + t e)     <= |s| / b^-e < 2^(sb + (t-1) e)
/// as fractions |s| pn / pd
pub proof fn lemma_float_encl(s: int, sb: int, b: int, t: int, e: int)
    requires s != 0, sb >= 1, pow2((sb - 1) as nat) <= rabs(s) < pow2(sb as nat),
        t >= 1, pow2((t - 1) as nat) <= b < pow2(t as nat),
    ensures
        e >= 0 ==> (rabs(s) * pn(b, e)) * td(sb - 1 + (t - 1) * e) >= tn(sb - 1 + (t - 1) * e) * pd(b, e)
            && (rabs(s) * pn(b, e)) * td(sb + t * e) < tn(sb + t * e) * pd(b, e),
        e < 0 ==> (rabs(s) * pn(b, e)) * td(sb - 1 + t * e) >= tn(sb - 1 + t * e) * pd(b, e)
            && (rabs(s) * pn(b, e)) * td(sb + (t - 1) * e) < tn(sb + (t - 1) * e) * pd(b, e),
        pn(b, e) >= 1, pd(b, e) >= 1,
{
    let a = rabs(s);
    let ae: nat = (if e >= 0 { e } else { -e }) as nat;
    lemma_ipw_encl(b, t, ae);
    lemma_pow2_pos((t - 1) as nat);
    lemma_ipw_pos(b, ae);
    let p = ipw(b, ae);
    let (lo, hi) = (((t - 1) * ae) as nat, (t * ae) as nat);
    assert(pow2(0) == 1) by { lemma2_to64(); }
    if e >= 0 {
        // a p >= 2^(sb-1) 2^lo,  a p < 2^sb 2^hi
        lemma_q2_add((sb - 1) as nat, lo);
        lemma_q2_add(sb as nat, hi);
        let (x1, x2, y1, y2) = (pow2((sb - 1) as nat) as int, pow2(sb as nat) as int, pow2(lo) as int, pow2(hi) as int);
        assert(a * p >= x1 * y1) by (nonlinear_arith) requires a >= x1, p >= y1, x1 >= 1, y1 >= 1;
        assert(a * p < x2 * y2) by (nonlinear_arith) requires 0 <= a < x2, 1 <= p <= y2;
        lemma_frac_ge(a * p, 1, ((sb - 1) + lo) as nat, 0);
        lemma_frac_lt(a * p, 1, (sb + hi) as nat, 0);
    } else {
        assert(a * 1 == a);
        assert((t - 1) * e == -((t - 1) * ae) && t * e == -(t * ae)) by (nonlinear_arith) requires ae == -e;
        lemma_frac_ge(a, p, (sb - 1) as nat, hi);
        lemma_frac_lt(a, p, sb as nat, lo);
    }
}

/// magnitude enclosure of a primitive float m * 2^ex, mb = bit length of |m| (m != 0):  2^(mb-1+ex) <= |m| 2^ex < 2^(mb+ex)
pub proof fn lemma_prim_encl(m: int, mb: int, ex: int)
    requires m != 0, mb >= 1, pow2((mb - 1) as nat) <= rabs(m) < pow2(mb as nat),
    ensures (rabs(m) * tn(ex)) * td(mb - 1 + ex) >= tn(mb - 1 + ex) * td(ex),
        (rabs(m) * tn(ex)) * td(mb + ex) < tn(mb + ex) * td(ex),
        tn(ex) >= 1, td(ex) >= 1,
{
    let a = rabs(m);
    lemma_tntd_pos(ex);
    assert(pow2(0) == 1) by { lemma2_to64(); }
    if ex >= 0 {
        lemma_q2_add((mb - 1) as nat, ex as nat);
        lemma_q2_add(mb as nat, ex as nat);
        let (x1, x2, y) = (pow2((mb - 1) as nat) as int, pow2(mb as nat) as int, pow2(ex as nat) as int);
        assert(a * y >= x1 * y) by (nonlinear_arith) requires a >= x1, y >= 1;
        assert(a * y < x2 * y) by (nonlinear_arith) requires a < x2, y >= 1;
        lemma_frac_ge(a * y, 1, (mb - 1 + ex) as nat, 0);
        lemma_frac_lt(a * y, 1, (mb + ex) as nat, 0);
    } else {
        assert(a * 1 == a);
        lemma_frac_ge(a, pow2((-ex) as nat) as int, (mb - 1) as nat, (-ex) as nat);
        lemma_frac_lt(a, pow2((-ex) as nat) as int, mb as nat, (-ex) as nat);
    }
}

/// magnitude comparison of two numbers of the same sign (sg = +1 / -1) turned into the signed comparison
pub proof fn lemma_signed_cmp(x: int, y: int, neg: bool)
    requires neg ==> x <= 0 && y <= 0, !neg ==> x >= 0 && y >= 0,
    ensures rabs(x) > rabs(y) ==> cmp_int(x, y) == (if neg { Ordering::Less } else { Ordering::Greater }),
        rabs(x) < rabs(y) ==> cmp_int(x, y) == (if neg { Ordering::Greater } else { Ordering::Less }),
{}
} // mod no_frac_lemmas
pub use no_frac_lemmas::*;
