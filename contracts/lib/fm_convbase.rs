// ---- fm_convbase.rs: what `FBig::with_base` / `to_decimal` / `to_binary` / `with_rounding` (float/src/convert.rs) need
// beyond fio_convbase.rs.  Needs round_prelude.rs, round_int_stubs.rs, round_float_repr.rs, conv_fbig_stubs.rs, fio_convbase.rs.

// ---- specification (C08 / the documentation of with_base)
/// q is THE precision with_base must choose for a source precision p: 0 (unlimited) for 0, otherwise the largest q with
/// nb^q <= b^p, i.e. nb^q <= b^p < nb^(q+1)
pub open spec fn fm_wb_prec(b: int, nb: int, p: nat, q: nat) -> bool {
    if p == 0 { q == 0 } else { ipow(nb, q) <= ipow(b, p) && ipow(b, p) < ipow(nb, q + 1) }
}
/// the precision is determined by that statement
pub proof fn lemma_fm_wb_prec_unique(b: int, nb: int, p: nat, q1: nat, q2: nat)
    requires nb >= 2, fm_wb_prec(b, nb, p, q1), fm_wb_prec(b, nb, p, q2)
    ensures q1 == q2
{
    if p != 0 {
        if q1 < q2 { lemma_ipow_mono(nb, q1 + 1, q2); }
        if q2 < q1 { lemma_ipow_mono(nb, q2 + 1, q1); }
    }
}

// ---- TRUSTED stubs
impl<const B: Word> Repr<B> {
    /// float/src/repr.rs `pub const BASE: UBig = UBig::from_word(B);`
    #[verifier::external_body]
    pub const BASE: UBig = UBig { _p: 0 };
}
pub broadcast axiom fn fm_ax_repr_base<const B: Word>() ensures #[trigger] Repr::<B>::BASE.v() == B as int;

/// Lowering rule D10b: `(limit.log2_bounds().0 / NewB.log2_bounds().1) as usize` (f32 arithmetic, not modelled).
/// ASSUMED about that float expression -- the code's own comment "the estimate is a lower bound": a lower bound of
/// log2(limit) divided by an upper bound of log2(NewB), truncated, never exceeds log_NewB(limit), i.e.
/// NewB^estimate <= limit.  Nothing is assumed about how CLOSE it is: the exact loop decides that.
#[verifier::external_body]
pub fn __f32_est0(limit: &UBig, newb: &Word) -> (r: usize)
    requires limit.v() >= 1, *newb >= 2
    ensures ipow(*newb as int, r as nat) <= limit.v()
{ unimplemented!() }

// ---- lemmas
pub proof fn lemma_fm_ipow_base_mono(a: int, c: int, e: nat)
    requires 1 <= a <= c
    ensures ipow(a, e) <= ipow(c, e)
    decreases e
{
    if e > 0 {
        lemma_fm_ipow_base_mono(a, c, (e - 1) as nat);
        lemma_ipow_pos(a, (e - 1) as nat);
        let (x, y) = (ipow(a, (e - 1) as nat), ipow(c, (e - 1) as nat));
        assert(a * x <= c * y) by (nonlinear_arith) requires 1 <= a <= c, 1 <= x <= y;
    }
}
/// nb^k <= b^p with b a machine word: k <= 64 p  (keeps `precision + 1` inside usize)
pub proof fn lemma_fm_prec_bound(b: int, nb: int, p: nat, k: nat)
    requires 2 <= b < 0x1_0000_0000_0000_0000, nb >= 2, ipow(nb, k) <= ipow(b, p)
    ensures k <= 64 * p
{
    lemma_ipow_ge2(nb, k);
    lemma_ipow_2_64();
    lemma_fm_ipow_base_mono(b, ipow(2, 64), p);
    lemma_ipow_mul(2, 64, p);
    if k > 64 * p { lemma_ipow_strict(2, 64 * p, k); }
}
