// ---- farey_stubs.rs: what rational/src/simplify.rs (Farey neighbours, simplest_in) needs beyond lib/bigstub.rs.
// Include after lib/ratio_lemmas.rs, lib/bigstub.rs, lib/ratio_types.rs, lib/ratio2_stubs.rs.
// Every external_body item is a TRUSTED ASSUMPTION that states what the real method does on the mathematical values;
// the RBig-level operators restate the contracts PROVED for the same code in units ratio_ops / ratio_int_ops / ratio_cmp.
pub mod farey_stubs {
use super::*;
use vstd::std_specs::ops::*;
use vstd::std_specs::cmp::{OrdSpecImpl, PartialOrdSpecImpl, PartialEqSpecImpl};
use core::ops::{Add, Sub, Mul, Div, Neg, ShlAssign};
use core::cmp::Ordering;

// TRUSTED (integer/src/add_ops.rs): &IBig + &IBig, &UBig + &UBig, UBig + UBig are exact
impl<'a, 'b> AddSpecImpl<&'b IBig> for &'a IBig {
    open spec fn obeys_add_spec() -> bool { true }
    open spec fn add_req(self, rhs: &'b IBig) -> bool { true }
    open spec fn add_spec(self, rhs: &'b IBig) -> IBig { ibig_of(self.v() + rhs.v()) }
}
impl<'a, 'b> Add<&'b IBig> for &'a IBig { type Output = IBig;
    #[verifier::external_body]
    fn add(self, rhs: &'b IBig) -> IBig { unimplemented!() }
}
impl<'a, 'b> AddSpecImpl<&'b UBig> for &'a UBig {
    open spec fn obeys_add_spec() -> bool { true }
    open spec fn add_req(self, rhs: &'b UBig) -> bool { true }
    open spec fn add_spec(self, rhs: &'b UBig) -> UBig { ubig_of(self.v() + rhs.v()) }
}
impl<'a, 'b> Add<&'b UBig> for &'a UBig { type Output = UBig;
    #[verifier::external_body]
    fn add(self, rhs: &'b UBig) -> UBig { unimplemented!() }
}

impl AddSpecImpl<UBig> for UBig {
    open spec fn obeys_add_spec() -> bool { true }
    open spec fn add_req(self, rhs: UBig) -> bool { true }
    open spec fn add_spec(self, rhs: UBig) -> UBig { ubig_of(self.v() + rhs.v()) }
}
impl Add<UBig> for UBig { type Output = UBig;
    #[verifier::external_body]
    fn add(self, rhs: UBig) -> UBig { unimplemented!() }
}

// TRUSTED (integer/src/mul_ops.rs): exact square
impl UBig {
    #[verifier::external_body]
    pub fn sqr(&self) -> (r: UBig) ensures r.v() == self.v() * self.v() { unimplemented!() }
}
// TRUSTED (derive(Clone) on the integer types / RBig): a clone has the same value
impl Clone for UBig {
    #[verifier::external_body]
    fn clone(&self) -> (r: UBig) ensures r.v() == self.v() { unimplemented!() }
}
impl Clone for IBig {
    #[verifier::external_body]
    fn clone(&self) -> (r: IBig) ensures r.v() == self.v() { unimplemented!() }
}
impl Clone for RBig {
    #[verifier::external_body]
    fn clone(&self) -> (r: RBig)
        ensures r.0.numerator.v() == self.0.numerator.v(), r.0.denominator.v() == self.0.denominator.v()
    { unimplemented!() }
}

// rational/src/cmp.rs `impl PartialOrd for Repr` = Some(repr_cmp::<false>(self, other)).  PROVED in unit ratio_cmp for
// positive denominators: the order of the cross products.  For a zero denominator the real function still returns
// (no division), but the value is not specified here (uninterpreted).
pub uninterp spec fn repr_cmp_unspecified(a: int, b: int, c: int, d: int) -> Ordering;
pub open spec fn repr_cmp_total(a: int, b: int, c: int, d: int) -> Ordering {
    if b > 0 && d > 0 { cmp_int(a * d, c * b) } else { repr_cmp_unspecified(a, b, c, d) }
}
impl PartialEqSpecImpl for Repr {
    open spec fn obeys_eq_spec() -> bool { false }
    open spec fn eq_spec(&self, other: &Repr) -> bool { true }
}
impl PartialEq for Repr { #[verifier::external_body] fn eq(&self, other: &Self) -> bool { unimplemented!() } }
impl PartialOrdSpecImpl for Repr {
    open spec fn obeys_partial_cmp_spec() -> bool { true }
    open spec fn partial_cmp_spec(&self, other: &Repr) -> Option<Ordering> {
        Some(repr_cmp_total(self.numerator.v(), self.denominator.v(), other.numerator.v(), other.denominator.v()))
    }
}
impl PartialOrd for Repr { #[verifier::external_body] fn partial_cmp(&self, other: &Self) -> Option<Ordering> { unimplemented!() } }

// dashu_base::DivRem (trait mirrored from base/src/ring/mod.rs).  TRUSTED (integer/src/div_ops.rs impl_ibig_divrem via
// forward_ibig_ubig_binop_to_repr): &IBig div_rem &UBig is the truncating division (quotient toward zero, remainder
// with the sign of the dividend); a zero divisor panics (div_rem_req).
pub trait DivRem<Rhs = Self> {
    type OutputDiv;
    type OutputRem;
    spec fn div_rem_req(self, rhs: Rhs) -> bool;
    spec fn div_rem_post(self, rhs: Rhs, r: (Self::OutputDiv, Self::OutputRem)) -> bool;
    fn div_rem(self, rhs: Rhs) -> (r: (Self::OutputDiv, Self::OutputRem))
        requires self.div_rem_req(rhs) ensures self.div_rem_post(rhs, r);
}
impl<'l, 'r> DivRem<&'r UBig> for &'l IBig {
    type OutputDiv = IBig;
    type OutputRem = IBig;
    open spec fn div_rem_req(self, rhs: &'r UBig) -> bool { rhs.v() != 0 }
    open spec fn div_rem_post(self, rhs: &'r UBig, r: (IBig, IBig)) -> bool {
        r.0.v() == tdiv(self.v(), rhs.v()) && r.1.v() == trem(self.v(), rhs.v())
    }
    #[verifier::external_body]
    fn div_rem(self, rhs: &'r UBig) -> (r: (IBig, IBig)) { unimplemented!() }
}

// ---- RBig-level operators used by next_up / next_down / nearest.  The real impls are the macro arms of
// rational/src/add.rs; the contracts below RESTATE what is PROVED for those arms in units ratio_ops
// (`impl_add_or_sub_with_rbig`: wrappers rbig_add / rbig_sub) and ratio_int_ops (`impl_addsub_int_with_rbig`: wrapper
// rbig_add_ibig, used for `IBig + RBig` through `impl Add<RBig> for IBig`): the exact value, cross-multiplied, a
// positive denominator, and canonical operands give a canonical result.  add_req/sub_req = the RBig invariant
// "denominator > 0" of both operands (with it the real arms cannot panic).
pub open spec fn rsum_post(an: int, ad: int, bn: int, bd: int, rn: int, rd: int) -> bool {
    rn * (ad * bd) == (an * bd + bn * ad) * rd && rd >= 1 && (wf_ratio(an, ad) && wf_ratio(bn, bd) ==> wf_ratio(rn, rd))
}
pub open spec fn rdiff_post(an: int, ad: int, bn: int, bd: int, rn: int, rd: int) -> bool {
    rn * (ad * bd) == (an * bd - bn * ad) * rd && rd >= 1 && (wf_ratio(an, ad) && wf_ratio(bn, bd) ==> wf_ratio(rn, rd))
}
pub open spec fn rint_post(i: int, bn: int, bd: int, rn: int, rd: int) -> bool {
    rn * bd == (bn + i * bd) * rd && rd >= 1 && (wf_ratio(bn, bd) ==> wf_ratio(rn, rd))
}
pub uninterp spec fn rbig_sum(a: RBig, b: RBig) -> RBig;
pub uninterp spec fn rbig_diff(a: RBig, b: RBig) -> RBig;
pub uninterp spec fn int_plus_rbig(i: IBig, b: RBig) -> RBig;
#[verifier::external_body]
pub broadcast proof fn ax_rbig_sum(a: RBig, b: RBig)
    requires a.0.denominator.v() > 0, b.0.denominator.v() > 0
    ensures rsum_post(a.0.numerator.v(), a.0.denominator.v(), b.0.numerator.v(), b.0.denominator.v(),
                      (#[trigger] rbig_sum(a, b)).0.numerator.v(), rbig_sum(a, b).0.denominator.v())
{}
#[verifier::external_body]
pub broadcast proof fn ax_rbig_diff(a: RBig, b: RBig)
    requires a.0.denominator.v() > 0, b.0.denominator.v() > 0
    ensures rdiff_post(a.0.numerator.v(), a.0.denominator.v(), b.0.numerator.v(), b.0.denominator.v(),
                       (#[trigger] rbig_diff(a, b)).0.numerator.v(), rbig_diff(a, b).0.denominator.v())
{}
#[verifier::external_body]
pub broadcast proof fn ax_int_plus_rbig(i: IBig, b: RBig)
    requires b.0.denominator.v() > 0
    ensures rint_post(i.v(), b.0.numerator.v(), b.0.denominator.v(),
                      (#[trigger] int_plus_rbig(i, b)).0.numerator.v(), int_plus_rbig(i, b).0.denominator.v())
{}
impl AddSpecImpl<RBig> for RBig {
    open spec fn obeys_add_spec() -> bool { true }
    open spec fn add_req(self, rhs: RBig) -> bool { self.0.denominator.v() > 0 && rhs.0.denominator.v() > 0 }
    open spec fn add_spec(self, rhs: RBig) -> RBig { rbig_sum(self, rhs) }
}
impl Add<RBig> for RBig { type Output = RBig;
    #[verifier::external_body]
    fn add(self, rhs: RBig) -> RBig { unimplemented!() }
}
impl<'a, 'b> AddSpecImpl<&'b RBig> for &'a RBig {
    open spec fn obeys_add_spec() -> bool { true }
    open spec fn add_req(self, rhs: &'b RBig) -> bool { self.0.denominator.v() > 0 && rhs.0.denominator.v() > 0 }
    open spec fn add_spec(self, rhs: &'b RBig) -> RBig { rbig_sum(*self, *rhs) }
}
impl<'a, 'b> Add<&'b RBig> for &'a RBig { type Output = RBig;
    #[verifier::external_body]
    fn add(self, rhs: &'b RBig) -> RBig { unimplemented!() }
}
impl SubSpecImpl<RBig> for RBig {
    open spec fn obeys_sub_spec() -> bool { true }
    open spec fn sub_req(self, rhs: RBig) -> bool { self.0.denominator.v() > 0 && rhs.0.denominator.v() > 0 }
    open spec fn sub_spec(self, rhs: RBig) -> RBig { rbig_diff(self, rhs) }
}
impl Sub<RBig> for RBig { type Output = RBig;
    #[verifier::external_body]
    fn sub(self, rhs: RBig) -> RBig { unimplemented!() }
}
impl AddSpecImpl<RBig> for IBig {
    open spec fn obeys_add_spec() -> bool { true }
    open spec fn add_req(self, rhs: RBig) -> bool { rhs.0.denominator.v() > 0 }
    open spec fn add_spec(self, rhs: RBig) -> RBig { int_plus_rbig(self, rhs) }
}
impl Add<RBig> for IBig { type Output = RBig;
    #[verifier::external_body]
    fn add(self, rhs: RBig) -> RBig { unimplemented!() }
}

// TRUSTED (integer/src/shift_ops.rs `impl ShlAssign<usize> for UBig`): exact multiplication by 2^rhs
impl ShlAssign<usize> for UBig {
    #[verifier::external_body]
    fn shl_assign(&mut self, rhs: usize) { unimplemented!() }
}
impl ShlAssignSpecImpl<usize> for UBig {
    open spec fn obeys_shl_assign_spec() -> bool { true }
    open spec fn shl_assign_req(&self, rhs: usize) -> bool { true }
    open spec fn shl_assign_spec(&self, rhs: usize) -> &UBig { &ubig_of(self.v() * pow2(rhs as nat) as int) }
}

// dashu_base::Approximation (base/src/approx.rs) -- transcription of the two-variant enum
pub enum Approximation<T, E> { Exact(T), Inexact(T, E) }

} // mod farey_stubs
pub use farey_stubs::*;
