// ---- fm_float_spec.rs: value-level reading of C03 for the FBig-level division forms (unit float_fm_methods).
// Needs farith_repr_stubs.rs (rd_val0) and farith_div_lemmas.rs (div_post).  Nothing trusted here.

/// `r` is the VALUE (flag dropped by `Approximation::value`) of a result that satisfies the C03 statement for division
pub open spec fn fm_div_val_of<const B: Word>(m: Mode, b: int, p: nat, N: int, D: int, e0: int, r: Repr<B>) -> bool {
    exists|rr: Rounded<Repr<B>>| #[trigger] rd_val0(rr) == r && div_post(m, b, p, N, D, e0, rr)
}
