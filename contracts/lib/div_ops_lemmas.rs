// ---- vocabulary + lemmas for integer/src/div_ops.rs `mod repr` and integer/src/div/mod.rs glue ---------------

/// the property's sentence for unsigned operands: a == q*b + r with 0 <= r < b
pub open spec fn is_div_rem(a: int, b: int, q: int, r: int) -> bool { a == q * b + r && 0 <= r < b }
pub open spec fn is_quotient(a: int, b: int, q: int) -> bool { exists|r: int| #[trigger] is_div_rem(a, b, q, r) }
pub open spec fn is_remainder(a: int, b: int, r: int) -> bool { exists|q: int| #[trigger] is_div_rem(a, b, q, r) }

/// the machine `/` and `%` (on non-negative operands) are such a pair
pub proof fn lemma_dor_divmod(a: int, b: int)
    requires a >= 0, b > 0,
    ensures is_div_rem(a, b, a / b, a % b), is_quotient(a, b, a / b), is_remainder(a, b, a % b),
{
    vstd::arithmetic::div_mod::lemma_fundamental_div_mod(a, b);
    vstd::arithmetic::div_mod::lemma_mod_bound(a, b);
    assert(b * (a / b) == (a / b) * b) by (nonlinear_arith);
    assert(is_div_rem(a, b, a / b, a % b));
}

/// normalize: shifting left by the leading zeros of the top word loses nothing and sets the top bit
///   vold = low + top·P1, top·p < B = p·c, top·p >= B/2;  vnew + carry·(B·P1) == vold·p, carry < p
pub proof fn lemma_dg_normalize(vold: int, low: int, top: int, p: int, c: int, p1: int, carry: int, vnew: int,
    nlow: int, ntop: int)
    requires
        vold == low + top * p1, 0 <= low < p1, p >= 1, c >= 1, p * c == B(), top >= 0,
        top * p < B(), top * p >= @HALFB@,
        vnew + carry * (B() * p1) == vold * p, 0 <= carry,
        vnew == nlow + ntop * p1, 0 <= nlow < p1, 0 <= ntop < B(),
    ensures carry == 0, ntop >= @HALFB@,
{
    // top < c, so (top + 1)·p <= B and vold·p < B·P1
    assert(top < c) by (nonlinear_arith) requires top * p < p * c, p >= 1;
    assert((top + 1) * p <= B()) by (nonlinear_arith) requires top + 1 <= c, p * c == B(), p >= 1;
    assert(vold * p == low * p + (top * p) * p1) by (nonlinear_arith) requires vold == low + top * p1;
    assert(low * p < p1 * p) by (nonlinear_arith) requires low < p1, p >= 1;
    assert(p1 * p + (top * p) * p1 == ((top + 1) * p) * p1) by (nonlinear_arith);
    assert(((top + 1) * p) * p1 <= B() * p1) by (nonlinear_arith) requires (top + 1) * p <= B(), p1 >= 1;
    assert(vnew >= 0) by (nonlinear_arith) requires vnew == nlow + ntop * p1, nlow >= 0, ntop >= 0, p1 >= 1;
    assert(carry == 0) by (nonlinear_arith)
        requires vnew + carry * (B() * p1) < B() * p1, vnew >= 0, carry >= 0, B() * p1 >= 1;
    // the new top word
    assert(low * p >= 0) by (nonlinear_arith) requires low >= 0, p >= 1;
    assert((top * p) * p1 >= @HALFB@ * p1) by (nonlinear_arith) requires top * p >= @HALFB@, p1 >= 1;
    assert(ntop >= @HALFB@) by (nonlinear_arith)
        requires nlow + ntop * p1 >= @HALFB@ * p1, nlow < p1, p1 >= 1;
}

/// the two top words of a normalized number form a normalized double word
pub proof fn lemma_dg_top_dword(lo: int, hi: int)
    requires 0 <= lo < B(), @HALFB@ <= hi < B(),
    ensures lo + hi * B() >= @HALFB@ * B(), lo + hi * B() < B() * B(),
{
    assert(hi * B() >= @HALFB@ * B()) by (nonlinear_arith) requires hi >= @HALFB@;
    assert(hi * B() <= (B() - 1) * B()) by (nonlinear_arith) requires hi <= B() - 1;
    assert((B() - 1) * B() == B() * B() - B()) by (nonlinear_arith);
}

/// the bits shifted out of the dividend (carry < 2^shift <= B/2) leave a quotient word that fits:
/// carry·B^n + T < R·B  for a normalized R (2R >= B^n)
pub proof fn lemma_dg_carry_fits(carry: int, t: int, bn: int, r: int, p: int)
    requires 0 <= carry < p, 2 * p <= B(), 0 <= t < bn, 2 * r >= bn,
    ensures carry * bn + t < r * B(),
{
    assert(carry * bn + bn == (carry + 1) * bn) by (nonlinear_arith);
    assert((carry + 1) * bn <= p * bn) by (nonlinear_arith) requires carry + 1 <= p, bn >= 0;
    assert(2 * (p * bn) <= B() * bn) by (nonlinear_arith) requires 2 * p <= B(), bn >= 0;
    assert(B() * bn <= B() * (2 * r)) by (nonlinear_arith) requires bn <= 2 * r;
    assert(B() * (2 * r) == 2 * (r * B())) by (nonlinear_arith);
}

/// div_rem_unshifted_in_place on values:  V = carry·B^len + val(s1);  s1 = low + B^(len-n)·T1;
/// carry·B^n + T1 = q0·R + T2;  s2 = low + B^(len-n)·T2;  val(s2) = (Q + ov·B^(len-n))·R + rem
pub proof fn lemma_dg_unshifted(v: int, carry: int, vs1: int, low: int, t1: int, vs2: int, t2: int, q0: int, r: int,
    q: int, ov: int, rem: int, pk: int, pn: int, plen: int)
    requires
        vs1 + carry * plen == v, plen == pk * pn,
        vs1 == low + pk * t1, vs2 == low + pk * t2,
        carry * pn + t1 == q0 * r + t2,
        vs2 == (q + ov * pk) * r + rem,
    ensures v == (q + (q0 + ov) * pk) * r + rem,
{
    assert(pk * (carry * pn + t1) == carry * (pk * pn) + pk * t1) by (nonlinear_arith);
    assert(pk * (q0 * r + t2) == (q0 * pk) * r + pk * t2) by (nonlinear_arith);
    assert((q + ov * pk) * r == q * r + (ov * pk) * r) by (nonlinear_arith);
    assert((q + (q0 + ov) * pk) * r == q * r + (q0 * pk) * r + (ov * pk) * r) by (nonlinear_arith);
}

/// undo the normalization shift: a·p == q·(b·p) + rs with rs < b·p  ==>  p | rs  and  (q, rs/p) divides a by b
pub proof fn lemma_dg_unshift_rem(a: int, b: int, q: int, rs: int, p: int)
    requires p >= 1, a * p == q * (b * p) + rs, 0 <= rs < b * p,
    ensures rs % p == 0, is_div_rem(a, b, q, rs / p), is_quotient(a, b, q), is_remainder(a, b, rs / p),
{
    let r = a - q * b;
    assert(r * p == a * p - q * (b * p)) by (nonlinear_arith) requires r == a - q * b;
    assert(rs == r * p);
    vstd::arithmetic::div_mod::lemma_mod_multiples_basic(r, p);
    vstd::arithmetic::div_mod::lemma_div_multiples_vanish(r, p);
    assert(r * p == p * r) by (nonlinear_arith);
    assert(r >= 0) by (nonlinear_arith) requires r * p >= 0, p >= 1;
    assert(r < b) by (nonlinear_arith) requires r * p < b * p, p >= 1;
    assert(is_div_rem(a, b, q, r));
}
