// ---- fm_fbig_clone.rs: TRUSTED stub of float/src/fbig.rs `impl<R: Round, const B: Word> Clone for FBig<R, B>`:
// `Self { repr: self.repr.clone(), context: self.context }` (clone_from likewise): same significand, exponent, context.
// Needs conv_fbig_stubs.rs (struct FBig).
impl<R: Round, const B: Word> Clone for FBig<R, B> {
    #[verifier::external_body]
    fn clone(&self) -> (r: Self)
        ensures r.repr.significand.v() == self.repr.significand.v(), r.repr.exponent == self.repr.exponent, r.context == self.context
    { unimplemented!() }
}
