// ---- gcdo_numhash_stubs.rs: what float/src/third_party/num_order.rs `NumHash for Repr<B>` needs beyond lib/ratio_lemmas.rs +
// lib/bigstub.rs (include after them).  Every external_body / assume_specification / external_body axiom is TRUSTED.
pub mod gcdo_numhash_stubs {
use super::*;
use vstd::std_specs::ops::*;
use vstd::arithmetic::div_mod::*;
use core::ops::{Rem, Mul};

pub type Word = u64;

/// float/src/repr.rs:26 `pub struct Repr<const BASE: Word> { pub(crate) significand: IBig, pub(crate) exponent: isize }`
/// (mirrored; value = significand * B^exponent)
pub struct Repr<const B: Word> { pub significand: IBig, pub exponent: isize }

/// the Mersenne prime 2^127 - 1 = i128::MAX used by the num-order crate
pub open spec fn m127() -> int { 0x7fff_ffff_ffff_ffff_ffff_ffff_ffff_ffff }
/// b^e
pub open spec fn hpw(b: int, e: nat) -> int decreases e { if e == 0 { 1 } else { b * hpw(b, (e - 1) as nat) } }
/// truncated remainder (sign of the dividend)
pub open spec fn trem(a: int, m: int) -> int { if a >= 0 { a % m } else { -((-a) % m) } }

// integer/src/div_ops.rs `impl Rem<i128> for &IBig` (C02: truncated division, the remainder has the sign of the dividend)
impl<'a> RemSpecImpl<i128> for &'a IBig {
    open spec fn obeys_rem_spec() -> bool { true }
    open spec fn rem_req(self, rhs: i128) -> bool { rhs > 0 }
    open spec fn rem_spec(self, rhs: i128) -> i128 { trem(self.v(), rhs as int) as i128 }
}
impl<'a> Rem<i128> for &'a IBig { type Output = i128;
    #[verifier::external_body]
    fn rem(self, rhs: i128) -> i128 { unimplemented!() }
}
pub assume_specification [i128::unsigned_abs] (x: i128) -> (r: u128) ensures r as int == rabs(x as int);

// num_modular 0.6.5 `FixedMersenneInt<127, 1>` = ReducedInt<u128, FixedMersenne128<127, 1>> (src/reduced.rs, src/mersenne.rs):
// an element of Z/(2^127 - 1); NOT verified here, documented meaning ASSUMED:
//   new(n, &m) "Convert n into the modulo ring (i.e. n % m)", convert(n) the same for the ring of self, residue() the
//   representative in [0, m), `*` the ring product, pow(&e) the e-th power, inv() the multiplicative inverse -- which
//   exists for every non-zero element BECAUSE 2^127 - 1 IS PRIME (trusted), `None` only for zero.
#[verifier::external_body]
#[derive(Clone, Copy)]
pub struct FixedMersenneInt<const P: u8, const K: u128> { _p: u8 }
impl<const P: u8, const K: u128> FixedMersenneInt<P, K> {
    pub uninterp spec fn r(&self) -> int;
    #[verifier::external_body]
    pub fn new(n: u128, m: &u128) -> (s: Self)
        requires *m as int == m127(),
        ensures s.r() == (n as int) % m127(),
    { unimplemented!() }
    #[verifier::external_body]
    pub fn convert(&self, n: u128) -> (s: Self) ensures s.r() == (n as int) % m127() { unimplemented!() }
    #[verifier::external_body]
    pub fn residue(&self) -> (s: u128) ensures s as int == self.r() { unimplemented!() }
    #[verifier::external_body]
    pub fn pow(self, exp: &u128) -> (s: Self) ensures s.r() == hpw(self.r(), *exp as nat) % m127() { unimplemented!() }
    #[verifier::external_body]
    pub fn inv(self) -> (s: Option<Self>)
        ensures self.r() != 0 ==> s.is_some() && (s.unwrap().r() * self.r()) % m127() == 1,
    { unimplemented!() }
}
#[verifier::external_body]
pub broadcast proof fn ax_mint_range<const P: u8, const K: u128>(x: FixedMersenneInt<P, K>)
    ensures 0 <= #[trigger] x.r() < m127(),
{}
impl<const P: u8, const K: u128> MulSpecImpl<FixedMersenneInt<P, K>> for FixedMersenneInt<P, K> {
    open spec fn obeys_mul_spec() -> bool { false }
    open spec fn mul_req(self, rhs: FixedMersenneInt<P, K>) -> bool { true }
    uninterp spec fn mul_spec(self, rhs: FixedMersenneInt<P, K>) -> FixedMersenneInt<P, K>;
}
impl<const P: u8, const K: u128> Mul<FixedMersenneInt<P, K>> for FixedMersenneInt<P, K> { type Output = FixedMersenneInt<P, K>;
    #[verifier::external_body]
    fn mul(self, rhs: FixedMersenneInt<P, K>) -> (s: FixedMersenneInt<P, K>)
        ensures s.r() == (self.r() * rhs.r()) % m127(),
    { unimplemented!() }
}
/// 2^127 - 1 is prime: a power of a number in (0, M) is not a multiple of M  (TRUSTED number theory)
#[verifier::external_body]
pub proof fn ax_m127_pow_nonzero(b: int, k: nat)
    requires 0 < b < m127(),
    ensures hpw(b, k) % m127() != 0,
{}

// num_modular `impl ModularAbs<usize> for isize` (src/prim.rs:412): `self % m` accepting negative numbers (Euclidean);
// `-self` overflows for isize::MIN (panic in debug builds): precondition
pub trait ModularAbs<M> {
    spec fn absm_req(self) -> bool;
    spec fn absm_spec(self, m: &M) -> M;
    fn absm(self, m: &M) -> (r: M) requires self.absm_req() ensures r == self.absm_spec(m);
}
impl ModularAbs<usize> for isize {
    open spec fn absm_req(self) -> bool { self > isize::MIN }
    open spec fn absm_spec(self, m: &usize) -> usize { ((self as int) % (*m as int)) as usize }
    #[verifier::external_body]
    fn absm(self, m: &usize) -> (r: usize) { unimplemented!() }
}

// num_order::NumHash for i128 (num-order 1.2.0 src/hash.rs:31): feeds the hasher the number itself when it lies strictly
// between -M127 and M127 (the three values outside are mapped to 0 / -1).  `fed(before, after)` = the i128 written.
pub uninterp spec fn fed<H>(before: H, after: H) -> int;
pub trait NumHash {
    spec fn hash_val(&self) -> int;
    fn num_hash<H: core::hash::Hasher>(&self, state: &mut H)
        ensures fed(*old(state), *final(state)) == self.hash_val();
}
impl NumHash for i128 {
    open spec fn hash_val(&self) -> int {
        if -m127() < *self as int && (*self as int) < m127() { *self as int } else if *self as int == -m127() - 1 { -1 } else { 0 }
    }
    #[verifier::external_body]
    fn num_hash<H: core::hash::Hasher>(&self, state: &mut H) { unimplemented!() }
}

// ---- the property's sentence (C14): the hash of s * b^e is num-order's hash of that rational number:
//   sgn(s) * ((|s| * b^e) mod M)  for e >= 0,   sgn(s) * (|s| * (b^-e)^-1 mod M)  for e < 0  (stated without the inverse)
pub open spec fn float_hash_ok(s: int, b: int, e: int, h: int) -> bool {
    let ha = if s < 0 { -h } else { h };
    &&& 0 <= ha < m127()
    &&& (e >= 0 ==> ha == (rabs(s) * hpw(b, e as nat)) % m127())
    &&& (e < 0 ==> (ha * hpw(b, (-e) as nat)) % m127() == rabs(s) % m127())
}

// ---- lemmas ---------------------------------------------------------------------------------------------------------
pub proof fn lemma_hpw_add(b: int, x: nat, y: nat)
    ensures hpw(b, x + y) == hpw(b, x) * hpw(b, y),
    decreases x
{
    if x > 0 {
        lemma_hpw_add(b, (x - 1) as nat, y);
        assert(hpw(b, x + y) == b * hpw(b, ((x - 1) as nat) + y));
        assert(b * (hpw(b, (x - 1) as nat) * hpw(b, y)) == (b * hpw(b, (x - 1) as nat)) * hpw(b, y)) by (nonlinear_arith);
    } else {
        assert(1 * hpw(b, y) == hpw(b, y));
    }
}
pub proof fn lemma_hpw_pos(b: int, e: nat)
    requires b >= 1,
    ensures hpw(b, e) >= 1,
    decreases e
{
    if e > 0 {
        lemma_hpw_pos(b, (e - 1) as nat);
        assert(b * hpw(b, (e - 1) as nat) >= 1) by (nonlinear_arith) requires b >= 1, hpw(b, (e - 1) as nat) >= 1;
    }
}
/// (1 << k) == 2^k on u128 for k < 128
pub proof fn lemma_one_shl_u128(k: u32)
    requires k < 128,
    ensures (1u128 << k) as int == hpw(2, k as nat),
    decreases k
{
    if k == 0 {
        assert(1u128 << 0u32 == 1u128) by (bit_vector);
    } else {
        let t = (k - 1) as u32;
        lemma_one_shl_u128(t);
        assert(1u128 << k == 2u128 * (1u128 << t) && (1u128 << t) <= (u128::MAX >> 1u32)) by (bit_vector)
            requires 0 < k < 128, t == k - 1;
    }
}
/// 2^127 == M + 1
pub proof fn lemma_two_127()
    ensures hpw(2, 127) == m127() + 1,
{
    lemma_one_shl_u128(127);
    assert(1u128 << 127u32 == 0x8000_0000_0000_0000_0000_0000_0000_0000u128) by (bit_vector);
}
/// 2^(127 j) == 1 (mod M)
pub proof fn lemma_two_127j(j: nat)
    ensures hpw(2, 127 * j) % m127() == 1,
    decreases j
{
    if j == 0 {
        assert(127 * 0 == 0);
        assert(hpw(2, 0) == 1);
        lemma_small_mod(1, m127() as nat);
    } else {
        lemma_two_127j((j - 1) as nat);
        lemma_two_127();
        assert(127 * j == 127 + 127 * (j - 1)) by (nonlinear_arith) requires j >= 1;
        lemma_hpw_add(2, 127, (127 * (j - 1)) as nat);
        let a = hpw(2, 127);
        let c = hpw(2, (127 * (j - 1)) as nat);
        lemma_mul_mod_noop_general(a, c, m127());
        // a % M == 1 (a == M + 1), c % M == 1
        lemma_mod_multiples_vanish(1, 1, m127());
        assert(a % m127() == 1);
        assert((1int * 1int) % m127() == 1) by { lemma_small_mod(1, m127() as nat); }
    }
}
/// e == 127*j + k (Euclidean), e >= 0:  x * 2^k == x * 2^e  (mod M)
pub proof fn lemma_pow2_reduce_pos(x: int, e: int, k: int)
    requires e >= 0, k == e % 127,
    ensures (x * hpw(2, k as nat)) % m127() == (x * hpw(2, e as nat)) % m127(),
{
    let j = e / 127;
    lemma_fundamental_div_mod(e, 127);
    lemma_two_127j(j as nat);
    lemma_hpw_add(2, (127 * j) as nat, k as nat);
    let a = hpw(2, (127 * j) as nat);
    let c = hpw(2, k as nat);
    // x * 2^e == (x * c) * a;  a == 1 (mod M)
    assert(x * (a * c) == (x * c) * a) by (nonlinear_arith);
    lemma_mul_mod_noop_general(x * c, a, m127());
    assert(((x * c) * 1) == x * c);
    lemma_mod_twice(x * c, m127());
}
/// e < 0, k == e mod 127 (Euclidean):  2^k * 2^(-e) == 1 (mod M)
pub proof fn lemma_pow2_reduce_neg(e: int, k: int)
    requires e < 0, k == e % 127,
    ensures (hpw(2, k as nat) * hpw(2, (-e) as nat)) % m127() == 1,
{
    let j = e / 127;
    lemma_fundamental_div_mod(e, 127);
    // e == 127*j + k, 0 <= k < 127, so j < 0 and -e + k == 127 * (-j)
    assert(j < 0) by (nonlinear_arith) requires e == 127 * j + k, e < 0, 0 <= k;
    lemma_hpw_add(2, k as nat, (-e) as nat);
    assert(k + (-e) == 127 * (-j)) by (nonlinear_arith) requires e == 127 * j + k;
    lemma_two_127j((-j) as nat);
}
/// ((a % M) * (p % M)) % M == (a * p) % M
pub proof fn lemma_mulmod(a: int, p: int)
    ensures ((a % m127()) * (p % m127())) % m127() == (a * p) % m127(),
{
    lemma_mul_mod_noop_general(a, p, m127());
}
/// r == ((a % M) * x) % M and (x * (p % M)) % M == 1  ==>  (r * p) % M == a % M
pub proof fn lemma_inv_back(a: int, x: int, p: int, r: int)
    requires r == ((a % m127()) * x) % m127(), (x * (p % m127())) % m127() == 1,
    ensures (r * p) % m127() == a % m127(),
{
    let m = m127();
    let am = a % m;
    // r * p == ((am * x) % m) * p  ==  am * (x * p)  (mod m)
    lemma_mul_mod_noop_general(am * x, p, m);
    assert((am * x) * p == am * (x * p)) by (nonlinear_arith);
    lemma_mul_mod_noop_general(x, p, m);
    // (x * p) % m == (x%m * p%m) % m;  and (x * (p%m)) % m == 1 ==> (x * p) % m == 1
    lemma_mul_mod_noop_right(x, p, m);
    lemma_mul_mod_noop_right(am, x * p, m);
    assert((am * 1) == am);
    lemma_mod_twice(a, m);
}
} // mod gcdo_numhash_stubs
pub use gcdo_numhash_stubs::*;

/// the truncated remainder of s by M: its magnitude is |s| mod M, it is negative only for negative s
pub proof fn lemma_mod_abs_t(s: int)
    ensures rabs(trem(s, m127())) == rabs(s) % m127(), trem(s, m127()) < 0 ==> s < 0,
        -m127() < trem(s, m127()) < m127(),
        s < 0 && trem(s, m127()) >= 0 ==> rabs(s) % m127() == 0,
{
    vstd::arithmetic::div_mod::lemma_mod_bound(rabs(s), m127());
}
pub proof fn lemma_hpw_mono2(x: nat, y: nat)
    requires x <= y,
    ensures hpw(2, x) <= hpw(2, y), hpw(2, x) >= 1,
    decreases y
{
    lemma_hpw_pos(2, x);
    if x < y {
        lemma_hpw_mono2(x, (y - 1) as nat);
        lemma_hpw_pos(2, (y - 1) as nat);
    }
}
