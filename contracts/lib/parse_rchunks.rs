// ---- parse_rchunks.rs: helper of engine rule D1e (`let G = X.rchunks(N); .. G.len() .. for P in G.rev() {..}`).
// The exec functions below are VERIFIED in the including unit against the stated meaning.  TRUSTED (as for rule D1): that
// this meaning is the definition of core::slice::RChunks (library/core/src/slice/iter.rs):
//   rchunks(n)          panics for n == 0; the chunks are counted from the END of the slice
//   len()               `let n = v.len() / chunk_size; let rem = v.len() % chunk_size; if rem > 0 { n + 1 } else { n }`
//   rev() / next_back() `let remainder = v.len() % chunk_size; let chunksz = if remainder != 0 { remainder } else
//                        { chunk_size }; let (fst, snd) = v.split_at(chunksz); v = snd; Some(fst)`
//                       i.e. the items of `.rev()` are consecutive pieces from the FRONT: the first has `len % n` elements
//                       (n if that is zero), every further one exactly n.
pub struct __RChunks<'a, T> { pub v: &'a [T], pub n: usize }

pub mod rchunks_spec {
    use super::*;
    /// number of items
    pub open spec fn rc_count(len: int, n: int) -> int { if len % n > 0 { len / n + 1 } else { len / n } }
    /// length of the item at the front
    pub open spec fn rc_first(len: int, n: int) -> int { if len % n != 0 { len % n } else { n } }
    /// start of the k-th item counted from the front (== end of the (k-1)-th); rc_end(count) == len
    pub open spec fn rc_end(len: int, n: int, k: int) -> int { if k <= 0 { 0 } else { rc_first(len, n) + (k - 1) * n } }

    /// the pieces tile the slice: 0 = end(0) < end(1) < .. < end(count) = len, pieces of at most n elements, all but the
    /// first of exactly n
    pub proof fn lemma_rc_tiling(len: int, n: int, k: int)
        requires len >= 0, n >= 1, 0 <= k < rc_count(len, n),
        ensures 0 <= rc_end(len, n, k) < rc_end(len, n, k + 1) <= len,
            rc_end(len, n, k + 1) - rc_end(len, n, k) <= n,
            k >= 1 ==> rc_end(len, n, k + 1) - rc_end(len, n, k) == n,
            rc_end(len, n, k + 1) == len <==> k + 1 == rc_count(len, n),
            rc_count(len, n) <= len,
    {
        let (q, r) = (len / n, len % n);
        vstd::arithmetic::div_mod::lemma_fundamental_div_mod(len, n);
        vstd::arithmetic::div_mod::lemma_div_pos_is_pos(len, n);
        assert(0 <= r < n) by { vstd::arithmetic::div_mod::lemma_mod_bound(len, n); }
        assert(len == n * q + r);
        let c = rc_count(len, n);
        // len == first + (c - 1) * n
        assert(n * q == q * n) by (nonlinear_arith);
        if r > 0 { assert(c == q + 1); } else { assert(c == q); assert((q - 1) * n == q * n - n) by (nonlinear_arith); }
        assert(rc_first(len, n) + (c - 1) * n == len);
        assert((k - 1) * n + n == k * n) by (nonlinear_arith);
        assert(k * n <= (c - 1) * n) by (nonlinear_arith) requires k <= c - 1, n >= 1;
        assert(k + 1 < c ==> k * n + n <= (c - 1) * n) by (nonlinear_arith) requires n >= 1;
        assert(q <= n * q) by (nonlinear_arith) requires q >= 0, n >= 1;
    }
    /// a non-empty slice has at least one piece; never more pieces than elements
    pub proof fn lemma_rc_nonempty(len: int, n: int)
        requires len >= 1, n >= 1,
        ensures 1 <= rc_count(len, n) <= len, len % n > 0 ==> len / n < len,
    {
        let (q, r) = (len / n, len % n);
        vstd::arithmetic::div_mod::lemma_fundamental_div_mod(len, n);
        vstd::arithmetic::div_mod::lemma_div_pos_is_pos(len, n);
        assert(0 <= r < n) by { vstd::arithmetic::div_mod::lemma_mod_bound(len, n); }
        assert(q <= n * q) by (nonlinear_arith) requires q >= 0, n >= 1;
        if q == 0 { assert(n * q == 0) by (nonlinear_arith) requires q == 0; }
    }
    pub proof fn lemma_rc_empty(n: int)
        requires n >= 1,
        ensures rc_count(0, n) == 0,
    {
        vstd::arithmetic::div_mod::lemma_small_mod(0, n as nat);
        vstd::arithmetic::div_mod::lemma_div_basics(n);
    }
}
pub use rchunks_spec::*;

pub fn __rchunks<'a, T>(v: &'a [T], n: usize) -> (r: __RChunks<'a, T>)
    requires n != 0,                // core: `assert!(chunk_size != 0, "chunk size must be non-zero")`
    ensures r.v == v, r.n == n,
{
    __RChunks { v, n }
}

impl<'a, T> __RChunks<'a, T> {
    pub open spec fn spec_len(&self) -> usize { rc_count(self.v@.len() as int, self.n as int) as usize }

    #[verifier::when_used_as_spec(spec_len)]
    pub fn len(&self) -> (r: usize)
        requires self.n != 0,
        ensures r as int == rc_count(self.v@.len() as int, self.n as int), r == self.spec_len(),
    {
        proof { if self.v@.len() >= 1 { lemma_rc_nonempty(self.v@.len() as int, self.n as int); } else { lemma_rc_empty(self.n as int); } }
        let n = self.v.len() / self.n;
        let rem = self.v.len() % self.n;
        if rem > 0 { n + 1 } else { n }
    }

    /// the k-th item of the iterator itself (RChunks::next: `let chunksz = min(v.len(), chunk_size);
    /// let (fst, snd) = v.split_at(v.len() - chunksz); v = fst; Some(snd)`): pieces of n elements from the END, the last
    /// one is what is left at the front
    pub fn __from_back(&self, k: usize) -> (r: &'a [T])
        requires self.n != 0, (k as int) < rc_count(self.v@.len() as int, self.n as int),
        ensures r@ == self.v@.subrange(
            rc_end(self.v@.len() as int, self.n as int, rc_count(self.v@.len() as int, self.n as int) - 1 - k),
            rc_end(self.v@.len() as int, self.n as int, rc_count(self.v@.len() as int, self.n as int) - k)),
    {
        let cnt = self.len();
        self.__from_front(cnt - 1 - k)
    }

    /// the k-th item of `.rev()`
    pub fn __from_front(&self, k: usize) -> (r: &'a [T])
        requires self.n != 0, (k as int) < rc_count(self.v@.len() as int, self.n as int),
        ensures r@ == self.v@.subrange(rc_end(self.v@.len() as int, self.n as int, k as int),
                                      rc_end(self.v@.len() as int, self.n as int, k as int + 1)),
    {
        proof { lemma_rc_tiling(self.v@.len() as int, self.n as int, k as int); }
        let remainder = self.v.len() % self.n;
        let chunksz = if remainder != 0 { remainder } else { self.n };
        if k == 0 {
            &self.v[..chunksz]
        } else {
            proof {
                assert((k as int - 1) * self.n + self.n == k as int * self.n) by (nonlinear_arith);
                assert((k as int - 1) * self.n >= 0) by (nonlinear_arith) requires k >= 1, self.n >= 1;
            }
            let lo = chunksz + (k - 1) * self.n;
            &self.v[lo..lo + self.n]
        }
    }
}
