// ---- mp_prim1_stubs.rs: TRUSTED stubs for unit int_modpow_single (modular/pow.rs `mod single`).  Word = @W@. --------------
// Needs lib/prelude.rs.  Same vocabulary names (p_ok / p_res / p_m) as the sibling file for the other instance of the
// macro `impl_mod_pow_for_primitive!`, so that the four annotated copies are shared.
//  * ConstSingleDivisor(pub PreMulInv2by1): div_const.rs:28-31; PreMulInv2by1 stands for num_modular::PreMulInv2by1<Word> (EXTERNAL crate), seen as a
//    `Reducer` over STORED numbers  x = residue << shift  below  m << shift:   sqr / mul return the stored product reduced
//    (num_modular Reducer contract, ASSUMED; bounded-checked for one modulus by the Kani group int_modpow).
//  * ReducedWord(pub Word): modular/repr.rs:36-43 (Copy); `one(ring)` is VERIFIED against its real body in the unit (annotated copy
//    annot/integer/modpow/prim1_one.rs) over the accessors `shift()` / `normalized_divisor()` stubbed below.

#[verifier::external_body]
pub struct PreMulInv2by1 { _p: u8 }
impl PreMulInv2by1 {
    /// the modulus the ring was built for
    pub uninterp spec fn m(&self) -> int;
    /// its normalisation shift
    pub uninterp spec fn sh(&self) -> int;
    /// normalised: m << sh fits the stored type
    pub open spec fn wf(&self) -> bool { self.m() >= 1 && 0 <= self.sh() < @BITS@ && self.m() * pow2(self.sh()) < pow2(@BITS@ as int) }
    pub open spec fn ok(&self, x: Word) -> bool {
        (x as int) % pow2(self.sh()) == 0 && (x as int) < self.m() * pow2(self.sh())
    }
    pub open spec fn res(&self, x: Word) -> int { (x as int) / pow2(self.sh()) }

    /// num_modular::Reducer::sqr
    #[verifier::external_body]
    pub fn sqr(&self, target: Word) -> (r: Word)
        requires self.wf(), self.ok(target),
        ensures self.ok(r), self.res(r) == (self.res(target) * self.res(target)) % self.m(),
    { unimplemented!() }
    /// num_modular::Reducer::mul
    #[verifier::external_body]
    pub fn mul(&self, lhs: &Word, rhs: &Word) -> (r: Word)
        requires self.wf(), self.ok(*lhs), self.ok(*rhs),
        ensures self.ok(r), self.res(r) == (self.res(*lhs) * self.res(*rhs)) % self.m(),
    { unimplemented!() }
}

pub struct ConstSingleDivisor(pub PreMulInv2by1);
#[derive(Clone, Copy)]
pub struct ReducedWord(pub Word);

pub open spec fn p_m(ring: &ConstSingleDivisor) -> int { ring.0.m() }
pub open spec fn p_wf(ring: &ConstSingleDivisor) -> bool { ring.0.wf() }
pub open spec fn p_ok(ring: &ConstSingleDivisor, x: ReducedWord) -> bool { ring.0.ok(x.0) }
pub open spec fn p_res(ring: &ConstSingleDivisor, x: ReducedWord) -> int { ring.0.res(x.0) }

impl ConstSingleDivisor {
    // div_const.rs `pub const fn shift(&self) -> u32 { self.0.shift() }`, `normalized_divisor(&self) { self.0.divisor() }`
    // (num_modular accessors of the pre-computed divisor: TRUSTED)
    #[verifier::external_body]
    pub fn shift(&self) -> (r: u32)
        requires p_wf(self),
        ensures r as int == self.0.sh(),
    { unimplemented!() }
    #[verifier::external_body]
    pub fn normalized_divisor(&self) -> (r: Word)
        requires p_wf(self),
        ensures r as int == self.0.m() * pow2(self.0.sh()),
    { unimplemented!() }
}

/// a valid stored element has its residue in [0, m)
pub proof fn lemma_p_res_range(ring: &ConstSingleDivisor, x: ReducedWord)
    requires p_wf(ring), p_ok(ring, x),
    ensures 0 <= p_res(ring, x) < p_m(ring),
{
    let p = pow2(ring.0.sh());
    let m = ring.0.m();
    let xv = x.0 as int;
    lemma_sh_pow2_pos(ring.0.sh());
    vstd::arithmetic::div_mod::lemma_fundamental_div_mod(xv, p);
    let q = xv / p;
    assert(0 <= q < m) by (nonlinear_arith) requires xv == p * q, 0 <= xv < m * p, p >= 1;
}
