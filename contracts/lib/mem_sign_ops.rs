// ---- mem_sign_ops.rs: the Sign operators of lib/mulalg_stubs.rs (verbatim copy of its first part: the real three-line
// bodies of base/src/sign.rs, VERIFIED against sign_neg / sign_mul) WITHOUT the opaque Memory stub of that file, which the
// int_memsize_* units replace by the capacity-tracking lib/mem_model.rs.  Needs lib/prelude.rs + lib/sign.rs.
use core::ops::{Mul, Neg, MulAssign};
use vstd::std_specs::ops::*;

pub open spec fn sign_mul(a: Sign, b: Sign) -> Sign { if a == b { Sign::Positive } else { Sign::Negative } }
pub open spec fn sign_neg(a: Sign) -> Sign { match a { Sign::Positive => Sign::Negative, Sign::Negative => Sign::Positive } }

// base/src/sign.rs:161 `impl Neg for Sign`, :173 `impl Mul<Sign> for Sign`, :209 `impl MulAssign<Sign> for Sign`:
// the bodies below are the real bodies (three-line matches), VERIFIED here against sign_neg / sign_mul
// (trusted: that they are transcribed faithfully from dashu-base).
impl NegSpecImpl for Sign {
    open spec fn obeys_neg_spec() -> bool { true }
    open spec fn neg_req(self) -> bool { true }
    open spec fn neg_spec(self) -> Sign { sign_neg(self) }
}
impl Neg for Sign { type Output = Sign;
    fn neg(self) -> Sign {
        match self { Sign::Positive => Sign::Negative, Sign::Negative => Sign::Positive }
    }
}
impl MulSpecImpl<Sign> for Sign {
    open spec fn obeys_mul_spec() -> bool { true }
    open spec fn mul_req(self, rhs: Sign) -> bool { true }
    open spec fn mul_spec(self, rhs: Sign) -> Sign { sign_mul(self, rhs) }
}
impl Mul<Sign> for Sign { type Output = Sign;
    fn mul(self, rhs: Sign) -> Sign {
        match (self, rhs) {
            (Sign::Positive, Sign::Positive) => Sign::Positive,
            (Sign::Positive, Sign::Negative) => Sign::Negative,
            (Sign::Negative, Sign::Positive) => Sign::Negative,
            (Sign::Negative, Sign::Negative) => Sign::Positive,
        }
    }
}
impl MulAssignSpecImpl<Sign> for Sign {
    open spec fn obeys_mul_assign_spec() -> bool { true }
    open spec fn mul_assign_req(&self, rhs: Sign) -> bool { true }
    open spec fn mul_assign_spec(&self, rhs: Sign) -> &Sign { &sign_mul(*self, rhs) }
}
impl MulAssign<Sign> for Sign {
    fn mul_assign(&mut self, rhs: Sign) { *self = *self * rhs; }
}

