// ---- no_numord_trait.rs: the traits num_order::NumOrd and dashu_base::AbsOrd<Rhs> as seen by FORWARDING impls
// (`self.repr.num_cmp(other)`, `other.num_partial_cmp(self).map(..)`).  The trait carries its contract through spec functions;
// every impl given in a unit template forwards to the hoisted, VERIFIED copy of the real impl method (one-line bodies checked
// by Verus), so nothing is trusted except the default method `num_cmp` of the num-order crate (src/lib.rs:93:
// `self.num_partial_cmp(other).unwrap()`, "panics if either of the numeric values contains NaN") where an impl does not
// override it (then given as external_body with exactly this contract).
pub mod no_numord_trait {
use super::*;
use core::cmp::Ordering;
pub trait NumOrd<Rhs> {
    spec fn npc_req(&self, other: &Rhs) -> bool;
    spec fn npc_spec(&self, other: &Rhs) -> Option<Ordering>;
    fn num_partial_cmp(&self, other: &Rhs) -> (r: Option<Ordering>)
        requires self.npc_req(other),
        ensures r == self.npc_spec(other);
    fn num_cmp(&self, other: &Rhs) -> (r: Ordering)
        requires self.npc_req(other), self.npc_spec(other).is_some(),
        ensures Some(r) == self.npc_spec(other);
}
/// dashu_base::AbsOrd<Rhs> for receivers whose comparison has a precondition (the rational Repr: denominator >= 1); the
/// bigstub trait `AbsOrd` has none.  Method name as in the real trait, so `self.0.abs_cmp(other)` resolves to it.
pub trait AbsOrdQ<Rhs> {
    spec fn ac_req(&self, other: &Rhs) -> bool;
    spec fn ac_spec(&self, other: &Rhs) -> Ordering;
    fn abs_cmp(&self, other: &Rhs) -> (r: Ordering)
        requires self.ac_req(other),
        ensures r == self.ac_spec(other);
}
pub open spec fn opt_rev(o: Option<Ordering>) -> Option<Ordering> {
    match o {
        Some(Ordering::Less) => Some(Ordering::Greater),
        Some(Ordering::Greater) => Some(Ordering::Less),
        Some(Ordering::Equal) => Some(Ordering::Equal),
        None => None,
    }
}
} // mod no_numord_trait
pub use no_numord_trait::*;
