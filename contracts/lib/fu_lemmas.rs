// ---- fu_lemmas.rs: arithmetic of float/src/utils.rs `shr_ref`, `shr_digits`, `shl_digits(_in_place)`, `digit_len`.
// Needs round_prelude.rs, round_int_stubs.rs, df_float_utils.rs (lemma_du_*), fu_stubs.rs (fu_tq, fu_tr, fu_tshr) and the
// word-level vocabulary inside `pub mod wl`.  No trusted item in this file.

/// the quotient truncated towards zero and its remainder satisfy the truncating-division sentence (positive divisor)
pub proof fn lemma_fu_tq(a: int, d: int)
    requires d > 0
    ensures is_trunc_divrem(a, d, fu_tq(a, d), fu_tr(a, d))
{
    if a >= 0 {
        lemma_du_trunc_signed(Sign::Positive, a, d);
    } else {
        lemma_du_trunc_signed(Sign::Negative, -a, d);
    }
}
/// the magnitude shift is the truncating division by 2^s
pub proof fn lemma_fu_tshr(v: int, s: nat)
    ensures fu_tshr(v, s) == fu_tq(v, ipow(2, s)), ipow(2, s) > 0,
        is_trunc_divrem(v, ipow(2, s), fu_tshr(v, s), fu_tr(v, ipow(2, s)))
{
    lemma_ipow_pos(2, s);
    lemma_fu_tq(v, ipow(2, s));
}
/// base 10: first the magnitude shift by p bits, then the truncating division by 5^p
pub proof fn lemma_fu_shr10(v: int, p: nat)
    ensures ipow(5, p) > 0,
        is_trunc_divrem(v, ipow(10, p), fu_tq(fu_tshr(v, p), ipow(5, p)),
            fu_tr(fu_tshr(v, p), ipow(5, p)) * ipow(2, p) + fu_tr(v, ipow(2, p)))
{
    lemma_ipow_pos(5, p);
    lemma_fu_tshr(v, p);
    let q1 = fu_tshr(v, p);
    lemma_fu_tq(q1, ipow(5, p));
    lemma_du_split10(v, p, q1, fu_tr(v, ipow(2, p)), fu_tq(q1, ipow(5, p)), fu_tr(q1, ipow(5, p)));
}
/// base 10: v * 5^p * 2^p == v * 10^p
pub proof fn lemma_fu_shl10(v: int, p: nat)
    ensures (v * ipow(5, p)) * ipow(2, p) == v * ipow(10, p)
{
    lemma_du_ipow_prod(5, 2, p);
    assert(5 * 2 == 10);
    let (f, t) = (ipow(5, p), ipow(2, p));
    assert((v * f) * t == v * (f * t)) by (nonlinear_arith);
}
/// the words of the magnitude from index min(s / 64, len) on, shifted right by s % 64 bits, are the magnitude / 2^s
pub proof fn lemma_fu_shr_words(words: Seq<Word>, s: nat, k: int)
    requires k == (if s / 64 <= words.len() { (s / 64) as int } else { words.len() as int })
    ensures 0 <= k <= words.len(),
        wl::val(words.subrange(k, words.len() as int)) / ipow(2, s % 64) == wl::val(words) / ipow(2, s),
        wl::val(words) >= 0,
{
    let len = words.len() as int;
    wl::lemma_valn_bound(words, len);
    lemma_ipow_pos(2, s % 64);
    lemma_ipow_pos(2, s);
    if s / 64 >= len {
        // everything is shifted out
        lemma_du_small(words, s);
        vstd::arithmetic::div_mod::lemma_basic_div(wl::val(words), ipow(2, s));
        let e = words.subrange(len, len);
        assert(e.len() == 0);
        assert(wl::val(e) == 0);
        assert(0int / ipow(2, s % 64) == 0) by (nonlinear_arith) requires ipow(2, s % 64) > 0;
    } else {
        lemma_du_split_words(words, s as int, (s / 64) as int, (s % 64) as int);
    }
}
/// sign * (A div D) for A = |v| is the magnitude shift of v
pub proof fn lemma_fu_tshr_parts(v: int, s: nat, sign: Sign, m: int)
    requires sign == (if v < 0 { Sign::Negative } else { Sign::Positive }), m == iabs(v) / ipow(2, s)
    ensures sgn_apply_u(sign, m) == fu_tshr(v, s)
{
}
/// digit_len: the floor logarithm plus one is the digit count
pub proof fn lemma_fu_ilog_ndigits(b: int, v: int, k: nat)
    requires b >= 2, fu_ilog_is(b, v, k)
    ensures ndigits(b, v) == k + 1
{
    assert(((k + 1) - 1) as nat == k);
    lemma_nd_unique(b, v, k + 1);
}
