// ---- conv_ratio_stubs.rs: what rational/src/convert.rs needs from dashu-int / dashu-base on top of bigstub.rs.
// EVERY external_body contract is a TRUSTED ASSUMPTION (file of the real function named at the stub).
// Needs bigstub.rs, conv_approx.rs, conv_float.rs.
use vstd::std_specs::convert::*;
use core::convert::{TryFrom, TryInto};
use core::ops::Shl;

// TRUSTED (core): `==` on core::cmp::Ordering (derived PartialEq) is structural equality; this Verus build has no spec
pub assume_specification [<Ordering as PartialEq>::eq] (a: &Ordering, b: &Ordering) -> (r: bool)
    ensures r == (*a == *b);

/// bit length of |v|: 0 for zero, otherwise the k with 2^(k-1) <= |v| < 2^k
pub uninterp spec fn blen(v: int) -> nat;
pub broadcast axiom fn ax_blen(v: int)
    ensures v == 0 ==> #[trigger] blen(v) == 0,
        v != 0 ==> blen(v) >= 1 && pow2((blen(v) - 1) as nat) <= absi(v) < pow2(blen(v));

impl UBig {
    /// integer/src/bits.rs `impl BitTest for UBig`
    #[verifier::external_body]
    pub fn bit_len(&self) -> (r: usize) ensures r == blen(self.v()) { unimplemented!() }
    /// integer/src/div_ops.rs `impl DivRem<&UBig> for UBig`: floor quotient and remainder; panics on a zero divisor
    #[verifier::external_body]
    pub fn div_rem(self, rhs: &UBig) -> (r: (UBig, UBig))
        requires rhs.v() != 0
        ensures r.0.v() == self.v() / rhs.v(), r.1.v() == self.v() % rhs.v()
    { unimplemented!() }
}
impl IBig {
    /// integer/src/bits.rs `impl BitTest for IBig`: bit length of the magnitude
    #[verifier::external_body]
    pub fn bit_len(&self) -> (r: usize) ensures r == blen(self.v()) { unimplemented!() }
}
impl Clone for UBig {
    #[verifier::external_body]
    fn clone(&self) -> (r: UBig) ensures r.v() == self.v() { unimplemented!() }
}
impl Clone for IBig {
    #[verifier::external_body]
    fn clone(&self) -> (r: IBig) ensures r.v() == self.v() { unimplemented!() }
}
// integer/src/shift_ops.rs: `<<` multiplies by 2^rhs (IBig: sign kept)
impl Shl<usize> for UBig { type Output = UBig;
    #[verifier::external_body]
    fn shl(self, rhs: usize) -> UBig { unimplemented!() }
}
impl ShlSpecImpl<usize> for UBig {
    open spec fn obeys_shl_spec() -> bool { true }
    open spec fn shl_req(self, rhs: usize) -> bool { true }
    open spec fn shl_spec(self, rhs: usize) -> UBig { ubig_of(self.v() * pow2(rhs as nat)) }
}
impl<'a> Shl<usize> for &'a UBig { type Output = UBig;
    #[verifier::external_body]
    fn shl(self, rhs: usize) -> UBig { unimplemented!() }
}
impl<'a> ShlSpecImpl<usize> for &'a UBig {
    open spec fn obeys_shl_spec() -> bool { true }
    open spec fn shl_req(self, rhs: usize) -> bool { true }
    open spec fn shl_spec(self, rhs: usize) -> UBig { ubig_of(self.v() * pow2(rhs as nat)) }
}
impl<'a> Shl<usize> for &'a IBig { type Output = IBig;
    #[verifier::external_body]
    fn shl(self, rhs: usize) -> IBig { unimplemented!() }
}
impl<'a> ShlSpecImpl<usize> for &'a IBig {
    open spec fn obeys_shl_spec() -> bool { true }
    open spec fn shl_req(self, rhs: usize) -> bool { true }
    open spec fn shl_spec(self, rhs: usize) -> IBig { ibig_of(self.v() * pow2(rhs as nat)) }
}
/// integer/src/convert.rs `impl TryFrom<UBig> for u32 / u64`: Ok(v) iff the value fits, else Err(OutOfBounds)
impl TryFrom<UBig> for u32 {
    type Error = ConversionError;
    #[verifier::external_body]
    fn try_from(x: UBig) -> Result<u32, ConversionError> { unimplemented!() }
}
impl TryFromSpecImpl<UBig> for u32 {
    open spec fn obeys_try_from_spec() -> bool { true }
    open spec fn try_from_spec(x: UBig) -> Result<u32, ConversionError> {
        if 0 <= x.v() <= u32::MAX { Ok(x.v() as u32) } else { Err(ConversionError::OutOfBounds) }
    }
}
impl TryFrom<UBig> for u64 {
    type Error = ConversionError;
    #[verifier::external_body]
    fn try_from(x: UBig) -> Result<u64, ConversionError> { unimplemented!() }
}
impl TryFromSpecImpl<UBig> for u64 {
    open spec fn obeys_try_from_spec() -> bool { true }
    open spec fn try_from_spec(x: UBig) -> Result<u64, ConversionError> {
        if 0 <= x.v() <= u64::MAX { Ok(x.v() as u64) } else { Err(ConversionError::OutOfBounds) }
    }
}
// base/src/sign.rs `impl Mul<i32> for Sign`, `impl Mul<i64> for Sign`: `match self { Positive => rhs, Negative => -rhs }`
pub open spec fn sgn_i32(s: Sign, x: i32) -> i32 { if s == Sign::Negative { (-x) as i32 } else { x } }
pub open spec fn sgn_i64(s: Sign, x: i64) -> i64 { if s == Sign::Negative { (-x) as i64 } else { x } }
impl Mul<i32> for Sign { type Output = i32;
    #[verifier::external_body]
    fn mul(self, rhs: i32) -> i32 { unimplemented!() }
}
impl MulSpecImpl<i32> for Sign {
    open spec fn obeys_mul_spec() -> bool { true }
    open spec fn mul_req(self, rhs: i32) -> bool { rhs > i32::MIN }
    open spec fn mul_spec(self, rhs: i32) -> i32 { sgn_i32(self, rhs) }
}
impl Mul<i64> for Sign { type Output = i64;
    #[verifier::external_body]
    fn mul(self, rhs: i64) -> i64 { unimplemented!() }
}
impl MulSpecImpl<i64> for Sign {
    open spec fn obeys_mul_spec() -> bool { true }
    open spec fn mul_req(self, rhs: i64) -> bool { rhs > i64::MIN }
    open spec fn mul_spec(self, rhs: i64) -> i64 { sgn_i64(self, rhs) }
}

// ---- specification of the KNOWN-FINDING regions of Repr::to_f32 / to_f64 (see the annotated copies)
pub open spec fn rq_shift(num: int, den: int, p: nat) -> int { blen(num) - blen(den) - (p + 1) }
pub open spec fn rq_n(num: int, den: int, p: nat) -> int { rs_num(absi(num), rq_shift(num, den, p)) }
pub open spec fn rq_d(num: int, den: int, p: nat) -> int { rs_den(den, rq_shift(num, den, p)) }
/// the double-rounding region: the integer quotient had to be rounded AND `encode` has to round it again
pub open spec fn ratio_double_rounding(f: Fmt, num: int, den: int) -> bool {
    let n = rq_n(num, den, f.p);
    let d = rq_d(num, den, f.p);
    n % d != 0 && enc_inexact(f, num < 0, rq_man(n, d), rq_shift(num, den, f.p))
}
// integer/src/shift_ops.rs: `>>` on a UBig reference is floor division by 2^rhs (not used by the unchanged code; lets
// the "optimised" comparison `r.cmp(&(&den >> 1))` type-check so that the mutant fails by verification)
impl<'a> core::ops::Shr<usize> for &'a UBig { type Output = UBig;
    #[verifier::external_body]
    fn shr(self, rhs: usize) -> UBig { unimplemented!() }
}
impl<'a> ShrSpecImpl<usize> for &'a UBig {
    open spec fn obeys_shr_spec() -> bool { true }
    open spec fn shr_req(self, rhs: usize) -> bool { true }
    open spec fn shr_spec(self, rhs: usize) -> UBig { ubig_of(self.v() / pow2(rhs as nat) as int) }
}

// ---- the closure `|man| f32::encode(sign * man as i32, shift as i16)` of Repr::to_f32 / to_f64: its postcondition is
// stated as the callee's own postcondition on the actual arguments (nothing to prove inside the closure); the lemmas
// below turn it into the readable form "o is the rounding of (-1)^[sign] * man * 2^shift"
pub open spec fn enc_args32(o: Approximation<f32, Sign>, sign: Sign, man: u32, shift: isize) -> bool {
    let m = sgn_i32(sign, man as i32);
    ap32_ok(o, m < 0, sc_num(absi(m as int), (shift as i16) as int), sc_den((shift as i16) as int))
}
pub open spec fn enc_args64(o: Approximation<f64, Sign>, sign: Sign, man: u64, shift: isize) -> bool {
    let m = sgn_i64(sign, man as i64);
    ap64_ok(o, m < 0, sc_num(absi(m as int), (shift as i16) as int), sc_den((shift as i16) as int))
}
pub proof fn lemma_enc_args32(o: Approximation<f32, Sign>, sign: Sign, man: u32, shift: isize)
    requires enc_args32(o, sign, man, shift), man <= 0x2000000, -0x8000 <= shift < 0x8000
    ensures ap32_ok(o, sign == Sign::Negative, sc_num(man as int, shift as int), sc_den(shift as int))
{
    if man == 0 {
        if shift >= 0 { assert(0 * pow2(shift as nat) == 0) by (nonlinear_arith); }
    }
}
pub proof fn lemma_enc_args64(o: Approximation<f64, Sign>, sign: Sign, man: u64, shift: isize)
    requires enc_args64(o, sign, man, shift), man <= 0x40000000000000, -0x8000 <= shift < 0x8000
    ensures ap64_ok(o, sign == Sign::Negative, sc_num(man as int, shift as int), sc_den(shift as int))
{
    if man == 0 {
        if shift >= 0 { assert(0 * pow2(shift as nat) == 0) by (nonlinear_arith); }
    }
}
