// ---- mulalg_root_lemmas.rs: Karatsuba square root (integer/src/root.rs, Zimmermann).  Needs prelude, mul_lemmas,
// mulalg_lemmas.  Notation: input A = H·P² + N1·P + N0 (P = B^k the weight of the low part), H = s1² + r1,
// r1·P + N1 = q·(2 s1) + u,  s = s1·P + q,  R = u·P + N0 − q².

/// normalized high part: H >= (P/2)²  ==>  its root s1 satisfies 2 s1 >= P; and s1 < P   (P = 2 t is even)
pub proof fn lemma_root_s1_range(h: int, s1: int, r1: int, p: int, t: int)
    requires h == s1 * s1 + r1, 0 <= r1 <= 2 * s1, 0 <= s1, p == 2 * t, h >= t * t, h < p * p, t >= 1,
    ensures 2 * s1 >= p, s1 < p,
{
    if s1 <= t - 1 {
        assert((s1 + 1) * (s1 + 1) == s1 * s1 + 2 * s1 + 1) by (nonlinear_arith);
        assert((s1 + 1) * (s1 + 1) <= t * t) by (nonlinear_arith) requires 0 <= s1 + 1 <= t;
    }
    if s1 >= p {
        assert(s1 * s1 >= p * p) by (nonlinear_arith) requires s1 >= p, p >= 1;
    }
}

/// the square-root identity of one Karatsuba step
pub proof fn lemma_root_identity(a: int, h: int, n1: int, n0: int, s1: int, r1: int, q: int, u: int, p: int, s: int)
    requires a == h * (p * p) + n1 * p + n0, h == s1 * s1 + r1, r1 * p + n1 == q * (2 * s1) + u, s == s1 * p + q,
    ensures a == s * s + (u * p + n0 - q * q),
{
    assert((s1 * p + q) * (s1 * p + q) == (s1 * s1) * (p * p) + (q * (2 * s1)) * p + q * q) by (nonlinear_arith);
    assert((s1 * s1 + r1) * (p * p) == (s1 * s1) * (p * p) + (r1 * p) * p) by (nonlinear_arith);
    assert((q * (2 * s1) + u) * p == (q * (2 * s1)) * p + u * p) by (nonlinear_arith);
    assert((r1 * p + n1) * p == (r1 * p) * p + n1 * p) by (nonlinear_arith);
}

/// the estimate q (quotient by 2 s1) is at most P
pub proof fn lemma_root_q_le(r1: int, n1: int, s1: int, q: int, u: int, p: int)
    requires r1 * p + n1 == q * (2 * s1) + u, 0 <= u, 0 <= r1 <= 2 * s1, 0 <= n1 < p, 2 * s1 >= p, p >= 1, q >= 0,
    ensures q <= p, q == p ==> r1 == 2 * s1 && u == n1,
{
    assert(r1 * p <= (2 * s1) * p) by (nonlinear_arith) requires r1 <= 2 * s1, p >= 1;
    if q >= p + 1 {
        assert(q * (2 * s1) >= (p + 1) * (2 * s1)) by (nonlinear_arith) requires q >= p + 1, s1 >= 0;
        assert((p + 1) * (2 * s1) == (2 * s1) * p + 2 * s1) by (nonlinear_arith);
    }
    if q == p {
        assert(q * (2 * s1) == (2 * s1) * p) by (nonlinear_arith) requires q == p;
        if r1 < 2 * s1 {
            assert(r1 * p <= (2 * s1 - 1) * p) by (nonlinear_arith) requires r1 <= 2 * s1 - 1, p >= 1;
            assert((2 * s1 - 1) * p == (2 * s1) * p - p) by (nonlinear_arith);
        }
    }
}

/// remainder bounds of one step: with 0 <= u < 2 s1 and 0 <= q <= P (q == P only in the case r1 == 2 s1, u == n1):
/// R = u P + n0 − q² <= 2 s, and R + 2 s − 1 >= 0 (one correction suffices), and q == P forces R < 0
pub proof fn lemma_root_rem_bounds(s1: int, q: int, u: int, n0: int, p: int, s: int)
    requires s == s1 * p + q, 0 <= u < 2 * s1, 0 <= n0 < p, 0 <= q <= p, 2 * s1 >= p, p >= 1,
        q == p ==> u < p,
    ensures u * p + n0 - q * q <= 2 * s - 2 * q, u * p + n0 - q * q + 2 * s - 1 >= 0,
        q == p ==> u * p + n0 - q * q < 0,
{
    assert(u * p <= (2 * s1 - 1) * p) by (nonlinear_arith) requires u <= 2 * s1 - 1, p >= 1;
    assert((2 * s1 - 1) * p == 2 * (s1 * p) - p) by (nonlinear_arith);
    assert(0 <= q * q) by (nonlinear_arith);
    assert(0 <= u * p) by (nonlinear_arith) requires 0 <= u, p >= 1;
    // lower bound: −q² + 2 s1 P + 2 q − 1 >= P² − (q − 1)² >= 0
    assert(2 * (s1 * p) >= p * p) by (nonlinear_arith) requires 2 * s1 >= p, p >= 1;
    assert((q - 1) * (q - 1) <= p * p) by (nonlinear_arith) requires 0 <= q <= p, p >= 1;
    assert((q - 1) * (q - 1) == q * q - 2 * q + 1) by (nonlinear_arith);
    if q == p {
        assert(u * p <= (p - 1) * p) by (nonlinear_arith) requires u <= p - 1, p >= 1;
        assert((p - 1) * p == p * p - p) by (nonlinear_arith);
    }
}

/// one correction step: (s − 1)² + (R + 2 s − 1) = s² + R
pub proof fn lemma_root_correct(s: int, r: int)
    ensures (s - 1) * (s - 1) + (r + 2 * s - 1) == s * s + r,
{
    assert((s - 1) * (s - 1) == s * s - 2 * s + 1) by (nonlinear_arith);
}

/// division by s1 of half the numerator, turned into the division of the numerator by 2 s1
pub proof fn lemma_root_double_div(n: int, r0: int, bit: int, q: int, u: int, s1: int)
    requires n == 2 * r0 + bit, r0 == q * s1 + u,
    ensures n == q * (2 * s1) + (2 * u + bit),
{
    assert(q * (2 * s1) == 2 * (q * s1)) by (nonlinear_arith);
}

/// four words
pub proof fn lemma_val4(s: Seq<Word>)
    requires s.len() == 4,
    ensures val(s) == (s[2] as int + (s[3] as int) * B()) * (B() * B()) + (s[1] as int) * B() + s[0] as int,
        val(s.subrange(0, 2)) == s[0] as int + (s[1] as int) * B(),
{
    lemma_val_split(s, 2);
    lemma_val2(s.subrange(0, 2));
    lemma_val2(s.subrange(2, 4));
    assert(pw(2) == B() * pw(1));
    assert(pw(1) == B() * pw(0));
    assert(pw(0) == 1);
    assert(s.subrange(0, 2)[0] == s[0] && s.subrange(0, 2)[1] == s[1]);
    assert(s.subrange(2, 4)[0] == s[2] && s.subrange(2, 4)[1] == s[3]);
    let h = s[2] as int + (s[3] as int) * B();
    assert(pw(2) * h == h * (B() * B())) by (nonlinear_arith) requires pw(2) == B() * B();
}

/// the carry of a remainder R = r + c·P² with 0 <= R < 2 P² and 0 <= r < P² is 0 or 1
pub proof fn lemma_root_carry01(r: int, c: int, big: int, rr: int)
    requires rr == r + c * big, 0 <= r < big, 0 <= rr < 2 * big,
    ensures c == 0 || c == 1,
{
    assert(-1 < c < 2) by (nonlinear_arith) requires -big < c * big, c * big < 2 * big, big > 0;
}

// ---- sequence-level facts for the recursive sqrt_rem ------------------------------------------------------------------

/// three-way split at k <= m
pub proof fn lemma_split_3way(a: Seq<Word>, k: int, m: int)
    requires 0 <= k <= m <= a.len(),
    ensures val(a) == val(a.subrange(0, k)) + pw(k) * val(a.subrange(k, m)) + pw(m) * val(a.subrange(m, a.len() as int)),
{
    let len = a.len() as int;
    lemma_val_split(a, m);
    let lo = a.subrange(0, m);
    lemma_val_split(lo, k);
    assert(lo.subrange(0, k) =~= a.subrange(0, k));
    assert(lo.subrange(k, m) =~= a.subrange(k, m));
}

/// a sequence of 2h words whose top word is >= B/4 has value >= t² with t = (B/2)·B^(h−1) = B^h / 2
pub proof fn lemma_root_norm_lower(s: Seq<Word>, h: int)
    requires h >= 1, s.len() == 2 * h, s[2 * h - 1] as int >= B() / 4,
    ensures pw(h) == 2 * ((B() / 2) * pw(h - 1)), val(s) >= ((B() / 2) * pw(h - 1)) * ((B() / 2) * pw(h - 1)),
        val(s) < pw(h) * pw(h), (B() / 2) * pw(h - 1) >= 1,
{
    lemma_root_consts();
    let top = s[2 * h - 1] as int;
    let lo = s.subrange(0, 2 * h - 1);
    lemma_valn_ext(s, lo, 2 * h - 1);
    assert(val(s) == val(lo) + top * pw(2 * h - 1));
    lemma_val_bound(lo);
    lemma_val_bound(s);
    lemma_pw_add(h, h);
    lemma_pw_pos(h - 1);
    lemma_pw_pos(2 * h - 1);
    assert(pw(h) == B() * pw(h - 1));
    lemma_pw_add(h - 1, h - 1);
    assert(pw(2 * h - 1) == B() * pw(2 * h - 2));
    let p1 = pw(h - 1);
    let hb = B() / 2;
    assert((hb * p1) * (hb * p1) == (hb * hb) * (p1 * p1)) by (nonlinear_arith);
    assert(top * pw(2 * h - 1) >= (B() / 4) * pw(2 * h - 1)) by (nonlinear_arith) requires top >= B() / 4, pw(2 * h - 1) >= 1;
    assert((B() / 4) * (B() * pw(2 * h - 2)) == ((B() / 4) * B()) * pw(2 * h - 2)) by (nonlinear_arith);
    assert(B() * p1 == 2 * (hb * p1)) by (nonlinear_arith) requires 2 * hb == B();
    assert(hb * p1 >= 1) by (nonlinear_arith) requires hb >= 1, p1 >= 1;
}

/// 2·val(s) >= B^len  ==>  the top word has its top bit set
pub proof fn lemma_root_top_bit(s: Seq<Word>)
    requires s.len() >= 1, 2 * val(s) >= pw(s.len() as int),
    ensures s[s.len() - 1] as int >= B() / 2,
{
    lemma_root_consts();
    let n = s.len() as int;
    let top = s[n - 1] as int;
    let lo = s.subrange(0, n - 1);
    lemma_valn_ext(s, lo, n - 1);
    assert(val(s) == val(lo) + top * pw(n - 1));
    lemma_val_bound(lo);
    assert(pw(n) == B() * pw(n - 1));
    lemma_pw_pos(n - 1);
    if top < B() / 2 {
        let p = pw(n - 1);
        assert((top + 1) * p <= (B() / 2) * p) by (nonlinear_arith) requires top + 1 <= B() / 2, p >= 1;
        assert((top + 1) * p == top * p + p) by (nonlinear_arith);
        assert(B() * p == 2 * ((B() / 2) * p)) by (nonlinear_arith) requires 2 * (B() / 2) == B();
    }
}

/// parity of a value is the parity of its lowest word
pub proof fn lemma_val_parity(s: Seq<Word>)
    requires s.len() >= 1,
    ensures val(s) % 2 == (s[0] as int) % 2,
{
    lemma_val_split(s, 1);
    lemma_val1(s.subrange(0, 1));
    assert(pw(1) == B() * pw(0));
    assert(pw(0) == 1);
    lemma_root_consts();
    let t = val(s.subrange(1, s.len() as int));
    let k = (B() / 2) * t;
    assert(B() * t == 2 * k) by (nonlinear_arith) requires 2 * (B() / 2) == B(), k == (B() / 2) * t;
    let s0 = s[0] as int;
    assert(s.subrange(0, 1)[0] == s[0]);
    assert(val(s) == s0 + 2 * k);
    lemma_parity_add_even(s0, k);
}

pub proof fn lemma_parity_add_even(x: int, k: int)
    ensures (x + 2 * k) % 2 == x % 2,
{
}

/// halving the quotient Q2 = Q + (cr + tr)·P obtained with divisor s1 (cr + tr = x + 2 qt, x = cr xor tr, qt = cr and tr):
/// with qlow = (Q + x·P) div 2:   Q2 = 2·(qlow + qt·P) + (Q mod 2)       (P even)
pub proof fn lemma_root_halve(qq: int, xi: int, qt: int, pk: int, pkh: int, qlow: int)
    requires pk == 2 * pkh, qlow == (qq + xi * pk) / 2,
    ensures qq + (xi + 2 * qt) * pk == 2 * (qlow + qt * pk) + qq % 2, 0 <= qq % 2 <= 1,
{
    let m = xi * pkh;
    assert(xi * pk == 2 * m) by (nonlinear_arith) requires pk == 2 * pkh, m == xi * pkh;
    assert((xi + 2 * qt) * pk == xi * pk + 2 * (qt * pk)) by (nonlinear_arith);
    lemma_parity_add_even(qq, m);
    assert((qq + 2 * m) / 2 == qq / 2 + m);
}

/// (H·y) div (2H) = y div 2, written for  v·(2H) + r = H·y  with 0 <= r < 2H:  v = y div 2
pub proof fn lemma_root_shr1(v: int, r: int, hh: int, y: int)
    requires v * (2 * hh) + r == hh * y, 0 <= r < 2 * hh, hh >= 1, r % hh == 0,
    ensures v == y / 2,
{
    // r = hh * t with t in {0, 1}
    let t = r / hh;
    assert(r == hh * t) by (nonlinear_arith) requires r % hh == 0, t == r / hh, hh >= 1;
    assert(0 <= t <= 1) by (nonlinear_arith) requires r == hh * t, 0 <= r < 2 * hh, hh >= 1;
    assert(v * (2 * hh) == hh * (2 * v)) by (nonlinear_arith);
    assert(hh * (2 * v) + hh * t == hh * (2 * v + t)) by (nonlinear_arith);
    assert(2 * v + t == y) by (nonlinear_arith) requires hh * (2 * v + t) == hh * y, hh >= 1;
}

/// the numerator r1·P + n1 divided by 2 s1, from the division of r1'·P + n1 by s1
///   r1 = r1' + tr·s1,   r1'·P + n1 = (Q + cr·P)·s1 + u,   Q + (cr + tr)·P = 2 q + t
pub proof fn lemma_root_numerator(r1: int, r1p: int, tr: int, cr: int, s1: int, pk: int, n1: int, qq: int, u: int,
    q: int, t: int)
    requires r1 == r1p + tr * s1, n1 + pk * r1p == (qq + cr * pk) * s1 + u, qq + (cr + tr) * pk == 2 * q + t,
    ensures r1 * pk + n1 == q * (2 * s1) + (u + t * s1),
{
    assert((r1p + tr * s1) * pk == pk * r1p + (tr * pk) * s1) by (nonlinear_arith);
    assert((qq + cr * pk) * s1 + (tr * pk) * s1 == (qq + (cr + tr) * pk) * s1) by (nonlinear_arith);
    assert((2 * q + t) * s1 == q * (2 * s1) + t * s1) by (nonlinear_arith);
}

/// q == P forces the low part of q to vanish:  (qlow + qt·P <= P, qt = 1) ==> qlow == 0; and the square of q
pub proof fn lemma_root_qsq(qlow: int, qt: int, pk: int, q: int)
    requires q == qlow + qt * pk, 0 <= qlow, 0 <= qt <= 1, q <= pk, pk >= 1,
    ensures qt == 1 ==> qlow == 0 && q * q == pk * pk, qt == 0 ==> q * q == qlow * qlow,
{
    if qt == 1 {
        assert(qt * pk == pk) by (nonlinear_arith) requires qt == 1;
    } else {
        assert(qt * pk == 0) by (nonlinear_arith) requires qt == 0;
    }
}

/// a buffer whose low m words hold x and whose other words are zero has value x
pub proof fn lemma_val_low_rest_zero(s: Seq<Word>, m: int)
    requires 0 <= m <= s.len(), forall|j: int| m <= j < s.len() ==> s[j] == 0,
    ensures val(s) == val(s.subrange(0, m)),
{
    lemma_valn_zero(s, m, s.len() as int);
    lemma_valn_ext(s, s.subrange(0, m), m);
}

/// a single word 1 at position m, zeros elsewhere: value B^m
pub proof fn lemma_val_unit(s: Seq<Word>, m: int, w: int)
    requires 0 <= m < s.len(), s[m] as int == w, forall|j: int| 0 <= j < s.len() && j != m ==> s[j] == 0,
    ensures val(s) == w * pw(m),
{
    lemma_valn_zero(s, m + 1, s.len() as int);
    lemma_valn_zero(s, 0, m);
    assert(valn(s, m + 1) == valn(s, m) + (s[m] as int) * pw(m));
}

/// the remainder in two pieces:  R = (ulow + c1·B^h)·P + n0 − q²  held as  lo' + (c1 − e − bo)·B^n
pub proof fn lemma_root_rem_repr(lo0: int, lo1: int, hi: int, n0: int, ulow: int, c1: int, e: int, bo: int, q2: int,
    pk: int, ph: int, pn: int)
    requires lo0 == n0 + pk * ulow, lo1 - bo * pn == lo0 - hi, hi + e * pn == q2, pn == pk * ph,
    ensures lo1 + (c1 - e - bo) * pn == (ulow + c1 * ph) * pk + n0 - q2,
{
    assert((ulow + c1 * ph) * pk == pk * ulow + c1 * (pk * ph)) by (nonlinear_arith);
    assert((c1 - e - bo) * pn == c1 * pn - e * pn - bo * pn) by (nonlinear_arith);
}

/// (H·y) div (2H) = y div 2
pub proof fn lemma_root_half_scaled(hh: int, y: int)
    requires hh >= 1,
    ensures (hh * y) / (2 * hh) == y / 2,
{
    let v = y / 2;
    let t = y % 2;
    assert(hh * y == v * (2 * hh) + hh * t) by (nonlinear_arith) requires y == 2 * v + t;
    assert(0 <= hh * t < 2 * hh) by (nonlinear_arith) requires 0 <= t <= 1, hh >= 1;
    let x = hh * y; let d = 2 * hh; let r = hh * t;
    assert(x / d == v) by (nonlinear_arith) requires x == v * d + r, 0 <= r < d, d >= 1;
}

pub proof fn lemma_pw_step(k: int)
    requires k >= 1,
    ensures pw(k) == B() * pw(k - 1), pw(k - 1) >= 1,
{
    lemma_pw_pos(k - 1);
}

/// the correction step on values:  R' = R + 2 s − 1 and s' = s − 1, with the carries of the in-place operations
///   b0 = val(b) before (s = b0 + qt·P), b1 + ov·B^n = b0 + qt·P·... (the carry word q_top added at weight P),
///   lo1 + kk·B^n = lo0 + 2 b1,  lo2 − bw·B^n = lo1 − 1,  b2 − bo·B^n = b1 − 1
pub proof fn lemma_root_correction(lo0: int, lo1: int, lo2: int, c3: int, kk: int, ov: int, bw: int, bo: int,
    bv1: int, bv2: int, s: int, rr: int, pn: int)
    requires rr == lo0 + c3 * pn, bv1 + ov * pn == s, lo1 + kk * pn == lo0 + 2 * bv1, lo2 - bw * pn == lo1 - 1,
        bv2 - bo * pn == bv1 - 1,
    ensures lo2 + (c3 + kk + 2 * ov - bw) * pn == rr + 2 * s - 1, bv2 + (ov - bo) * pn == s - 1,
{
    assert((c3 + kk + 2 * ov - bw) * pn == c3 * pn + kk * pn + 2 * (ov * pn) - bw * pn) by (nonlinear_arith);
    assert((ov - bo) * pn == ov * pn - bo * pn) by (nonlinear_arith);
}

/// 0 <= v + d·P < P with 0 <= v < P  ==>  d == 0
pub proof fn lemma_root_no_wrap(v: int, d: int, p: int)
    requires 0 <= v < p, 0 <= v + d * p < p,
    ensures d == 0,
{
    assert(-1 < d < 1) by (nonlinear_arith) requires -p < d * p, d * p < p, p > 0;
}

/// s = s1·P + q < B^n when s1 < B^h, q <= P  (and s >= 1 when 2 s1 >= B^h >= 2)
pub proof fn lemma_root_s_range(s1: int, q: int, pk: int, ph: int, pn: int, s: int)
    requires s == s1 * pk + q, 0 <= s1 < ph, 0 <= q <= pk, pn == pk * ph, 2 * s1 >= ph, ph >= 2, pk >= 1,
    ensures 1 <= s <= pn,
{
    assert(s1 * pk <= (ph - 1) * pk) by (nonlinear_arith) requires s1 <= ph - 1, pk >= 1;
    assert((ph - 1) * pk == pk * ph - pk) by (nonlinear_arith);
    assert(s1 * pk >= 1) by (nonlinear_arith) requires s1 >= 1, pk >= 1;
}
