// ---- leh_top_lemmas.rs: leading words of the operands of a Lehmer step (integer/src/gcd/lehmer.rs
// highest_word_normalized / highest_dword_normalized), C12.  Word = @W@.  Needs lib/prelude.rs, lib/leh_guess_lemmas.rs (leh_top).

/// integer/src/primitive.rs :: highest_dword reads the two top words through `get_unchecked` (unsafe, outside Verus' reach).
/// ASSUMED contract (same text as lib/div_simple_stubs.rs / lib/div_ops_stubs.rs); checked on the real code by the Kani harness
/// vk_int_primitive_slice_accessors (group int_primitive, slices of <= 4 words).
#[verifier::external_body]
pub fn highest_dword(words: &[Word]) -> (ret: DoubleWord)
    requires words@.len() >= 2,
    ensures ret as int == words@[words@.len() - 2] as int + (words@[words@.len() - 1] as int) * B(),
{ unimplemented!() }

/// what the callers of highest_word_normalized / highest_dword_normalized use: (X, Y) are the leading parts of (x, y)
/// at SOME common weight k (spec fn leh_top of lib/leh_guess_lemmas.rs)
pub open spec fn leh_top_ex(x: int, y: int, X: int, Y: int) -> bool {
    exists|k: int| leh_top(x, y, X, Y, k)
}

/// v == h2*m + rest (h2: the leading digits at weight m), h2 * P == lo + hi * B (hi: the top word after the normalising
/// shift by P), P * Pp == B   ==>   hi is the leading part of v at weight Pp*m
pub proof fn lemma_leh_top_part(v: int, h2: int, rest: int, m: int, P: int, Pp: int, hi: int, lo: int)
    requires v == h2 * m + rest, 0 <= rest < m, h2 * P == lo + hi * B(), 0 <= lo < B(), P * Pp == B(), P >= 1, Pp >= 1,
        hi >= 0, h2 >= 0,
    ensures hi * (Pp * m) <= v < (hi + 1) * (Pp * m),
{
    // hi*Pp <= h2 < (hi+1)*Pp
    assert(hi * B() == (hi * Pp) * P) by (nonlinear_arith) requires P * Pp == B();
    assert((hi + 1) * B() == ((hi + 1) * Pp) * P) by (nonlinear_arith) requires P * Pp == B();
    let u = hi * Pp; let w = (hi + 1) * Pp;
    assert(u <= h2) by (nonlinear_arith) requires u * P <= h2 * P, P >= 1;
    assert(h2 < w) by (nonlinear_arith) requires h2 * P < w * P, P >= 1;
    assert(u * m <= h2 * m) by (nonlinear_arith) requires u <= h2, m >= 1;
    assert((h2 + 1) * m <= w * m) by (nonlinear_arith) requires h2 + 1 <= w, m >= 1;
    assert((h2 + 1) * m == h2 * m + m) by (nonlinear_arith);
    assert(hi * (Pp * m) == u * m) by (nonlinear_arith) requires u == hi * Pp;
    assert((hi + 1) * (Pp * m) == w * m) by (nonlinear_arith) requires w == (hi + 1) * Pp;
}

/// leading digits of y cannot exceed those of x >= y (same weight)
pub proof fn lemma_leh_top_le(vx: int, vy: int, hx: int, hy: int, rx: int, ry: int, m: int)
    requires vx == hx * m + rx, vy == hy * m + ry, 0 <= rx < m, 0 <= ry < m, vy <= vx,
    ensures hy <= hx,
{
    if hy >= hx + 1 {
        assert(hy * m >= (hx + 1) * m) by (nonlinear_arith) requires hy >= hx + 1, m >= 1;
        assert((hx + 1) * m == hx * m + m) by (nonlinear_arith);
    }
}

/// the two (three) top words as leading digits:  val(s) == (s[n-2] + s[n-1]*B) * B^(n-2) + valn(s, n-2)
pub proof fn lemma_leh_val_top2(s: Seq<Word>)
    requires s.len() >= 2,
    ensures val(s) == (s[s.len() - 2] as int + (s[s.len() - 1] as int) * B()) * pw(s.len() - 2) + valn(s, s.len() - 2),
        0 <= valn(s, s.len() - 2) < pw(s.len() - 2),
{
    let n = s.len() as int;
    lemma_valn_bound(s, n - 2);
    assert(valn(s, n) == valn(s, n - 1) + (s[n - 1] as int) * pw(n - 1));
    assert(valn(s, n - 1) == valn(s, n - 2) + (s[n - 2] as int) * pw(n - 2));
    assert(pw(n - 1) == B() * pw(n - 2));
    assert((s[n - 2] as int + (s[n - 1] as int) * B()) * pw(n - 2)
        == (s[n - 2] as int) * pw(n - 2) + (s[n - 1] as int) * (B() * pw(n - 2))) by (nonlinear_arith);
}
pub proof fn lemma_leh_val_top1(s: Seq<Word>)
    requires s.len() >= 1,
    ensures val(s) == (s[s.len() - 1] as int) * pw(s.len() - 1) + valn(s, s.len() - 1),
        0 <= valn(s, s.len() - 1) < pw(s.len() - 1),
{
    lemma_valn_bound(s, s.len() - 1);
}

/// leh_top(.., X, Y, k) with x >= y gives X >= Y
pub proof fn lemma_leh_top_order(x: int, y: int, X: int, Y: int, k: int)
    requires leh_top(x, y, X, Y, k), x >= y,
    ensures X >= Y,
{
    if Y >= X + 1 { assert(Y * k >= (X + 1) * k) by (nonlinear_arith) requires Y >= X + 1, k >= 1; }
}

/// B^a <= B^b for a <= b  (own copy: lemma_pw_mono lives in two other libs)
pub proof fn lemma_leh_pw_mono(a: int, b: int)
    requires a <= b,
    ensures pw(a) <= pw(b),
    decreases b - a
{
    if a < b {
        lemma_leh_pw_mono(a, b - 1);
        lemma_pw_pos(b - 1);
        if b > 0 {
            assert(B() * pw(b - 1) >= pw(b - 1)) by (nonlinear_arith) requires pw(b - 1) >= 1, B() >= 1;
        }
    }
}

/// `<[T]>::split_last`: None for the empty slice, otherwise (last element, everything before it)   (definition in `core`, trusted;
/// same text as lib/div_word_stubs.rs)
pub assume_specification<T> [<[T]>::split_last] (s: &[T]) -> (r: Option<(&T, &[T])>)
    ensures s@.len() == 0 ==> r is None,
        s@.len() > 0 ==> r is Some && *(r.unwrap().0) == s@[s@.len() - 1] && (r.unwrap().1)@ == s@.subrange(0, s@.len() - 1);

/// three leading digits:  val(s) == (s[n-1]*B^2 + s[n-2]*B + s[n-3]) * B^(n-3) + valn(s, n-3)
pub proof fn lemma_leh_val_top3(s: Seq<Word>)
    requires s.len() >= 3,
    ensures val(s) == ((s[s.len() - 1] as int) * (B() * B()) + (s[s.len() - 3] as int + (s[s.len() - 2] as int) * B())) * pw(s.len() - 3)
            + valn(s, s.len() - 3),
        0 <= valn(s, s.len() - 3) < pw(s.len() - 3),
{
    let n = s.len() as int;
    lemma_valn_bound(s, n - 3);
    assert(valn(s, n) == valn(s, n - 1) + (s[n - 1] as int) * pw(n - 1));
    assert(valn(s, n - 1) == valn(s, n - 2) + (s[n - 2] as int) * pw(n - 2));
    assert(valn(s, n - 2) == valn(s, n - 3) + (s[n - 3] as int) * pw(n - 3));
    assert(pw(n - 1) == B() * pw(n - 2));
    assert(pw(n - 2) == B() * pw(n - 3));
    let q = pw(n - 3);
    assert(((s[n - 1] as int) * (B() * B()) + (s[n - 3] as int + (s[n - 2] as int) * B())) * q
        == (s[n - 1] as int) * (B() * (B() * q)) + (s[n - 2] as int) * (B() * q) + (s[n - 3] as int) * q) by (nonlinear_arith);
}

/// the dword variant of lemma_leh_top_part:  top3 == w0*B^2 + w12,  hi == w0*P*B + floor(w12 / Pp),  P*Pp == B
pub proof fn lemma_leh_top_part3(v: int, w0: int, w12: int, rest: int, m: int, P: int, Pp: int, hi: int)
    requires v == (w0 * (B() * B()) + w12) * m + rest, 0 <= rest < m, w0 >= 0, w12 >= 0,
        hi == w0 * P * B() + w12 / Pp, P * Pp == B(), P >= 1, Pp >= 1,
    ensures hi * (Pp * m) <= v < (hi + 1) * (Pp * m),
{
    let f = w12 / Pp; let r = w12 % Pp;
    vstd::arithmetic::div_mod::lemma_fundamental_div_mod(w12, Pp);
    vstd::arithmetic::div_mod::lemma_mod_bound(w12, Pp);
    assert(f >= 0) by { if f < 0 { assert(Pp * f <= -Pp) by (nonlinear_arith) requires f <= -1, Pp >= 1; } }
    let h3 = w0 * (B() * B()) + w12;
    // hi*Pp <= h3 < (hi+1)*Pp
    assert(hi * Pp == w0 * (B() * B()) + Pp * f) by (nonlinear_arith) requires hi == w0 * P * B() + f, P * Pp == B();
    let u = hi * Pp; let w = (hi + 1) * Pp;
    assert(w == u + Pp) by (nonlinear_arith) requires u == hi * Pp, w == (hi + 1) * Pp;
    assert(u * m <= h3 * m) by (nonlinear_arith) requires u <= h3, m >= 1;
    assert((h3 + 1) * m <= w * m) by (nonlinear_arith) requires h3 + 1 <= w, m >= 1;
    assert((h3 + 1) * m == h3 * m + m) by (nonlinear_arith);
    assert(hi * (Pp * m) == u * m) by (nonlinear_arith) requires u == hi * Pp;
    assert((hi + 1) * (Pp * m) == w * m) by (nonlinear_arith) requires w == (hi + 1) * Pp;
}

/// y0*B^2 + y12 <= x0*B^2 + x12 with double-word low parts  ==>  y0 <= x0
pub proof fn lemma_leh_top_word_le(x0: int, x12: int, y0: int, y12: int)
    requires y0 * (B() * B()) + y12 <= x0 * (B() * B()) + x12, 0 <= x12 < B() * B(), y12 >= 0,
    ensures y0 <= x0,
{
    if y0 >= x0 + 1 {
        assert(y0 * (B() * B()) >= x0 * (B() * B()) + B() * B()) by (nonlinear_arith) requires y0 >= x0 + 1;
    }
}

/// 0 <= w < P * Pp  ==>  0 <= w / Pp < P
pub proof fn lemma_leh_div_lt(w: int, P: int, Pp: int)
    requires 0 <= w < P * Pp, Pp >= 1,
    ensures 0 <= w / Pp < P,
{
    vstd::arithmetic::div_mod::lemma_fundamental_div_mod(w, Pp);
    vstd::arithmetic::div_mod::lemma_mod_bound(w, Pp);
    let f = w / Pp;
    if f < 0 { assert(Pp * f <= -Pp) by (nonlinear_arith) requires f <= -1, Pp >= 1; }
    if f >= P { assert(Pp * f >= P * Pp) by (nonlinear_arith) requires f >= P, Pp >= 1; }
}
pub proof fn lemma_leh_div_nonneg(w: int, d: int)
    requires w >= 0, d >= 1,
    ensures w / d >= 0,
{
    vstd::arithmetic::div_mod::lemma_fundamental_div_mod(w, d);
    vstd::arithmetic::div_mod::lemma_mod_bound(w, d);
    let f = w / d;
    if f < 0 { assert(d * f <= -d) by (nonlinear_arith) requires f <= -1, d >= 1; }
}
