// ---- bit-vector facts for Word = u64 -----------------------------------------------------------
pub proof fn lemma_double_word_bv(low: u64, high: u64)
    ensures ((low as u128) | ((high as u128) << 64u32)) as int == low as int + (high as int) * B(),
{
    assert(((low as u128) | ((high as u128) << 64u32)) == (low as u128) + (high as u128) * 0x1_0000_0000_0000_0000u128)
        by (bit_vector);
}

pub proof fn lemma_split_dword_bv(dw: u128)
    ensures (dw as u64) as int + ((dw >> 64u32) as u64) as int * B() == dw as int,
{
    assert((dw as u64) as u128 + ((dw >> 64u32) as u64) as u128 * 0x1_0000_0000_0000_0000u128 == dw) by (bit_vector);
}
