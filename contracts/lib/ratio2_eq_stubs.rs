// ---- ratio2_eq_stubs.rs: UBig / IBig for unit ratio_eq (`PartialEq for RBig`, `AbsEq for RBig`).  lib/bigstub.rs gives the
// UBig `==` no specification (obeys_eq_spec() == false), so this unit uses its own minimal stubs instead of bigstub:
// abstract types with value v(); TRUSTED: `==` on UBig / IBig compares the values (integer/src/repr.rs: equal values have
// equal normalised representations, C05 of the integer layer), IBig::abs_eq compares the magnitudes.
pub mod ratio2_eq_stubs {
use super::*;
use vstd::std_specs::cmp::PartialEqSpecImpl;
#[verifier::external_body]
pub struct UBig { _p: u8 }
#[verifier::external_body]
pub struct IBig { _p: u8 }
impl UBig { pub uninterp spec fn v(&self) -> int; }
impl IBig { pub uninterp spec fn v(&self) -> int; }
impl PartialEqSpecImpl for UBig {
    open spec fn obeys_eq_spec() -> bool { true }
    open spec fn eq_spec(&self, other: &UBig) -> bool { self.v() == other.v() }
}
impl PartialEq for UBig { #[verifier::external_body] fn eq(&self, other: &Self) -> bool { unimplemented!() } }
impl PartialEqSpecImpl for IBig {
    open spec fn obeys_eq_spec() -> bool { true }
    open spec fn eq_spec(&self, other: &IBig) -> bool { self.v() == other.v() }
}
impl PartialEq for IBig { #[verifier::external_body] fn eq(&self, other: &Self) -> bool { unimplemented!() } }
// dashu_base::AbsEq (trait mirrored)
pub trait AbsEq<Rhs = Self> {
    spec fn abs_eq_spec(&self, rhs: &Rhs) -> bool;
    fn abs_eq(&self, rhs: &Rhs) -> (r: bool) ensures r == self.abs_eq_spec(rhs);
}
impl AbsEq for IBig {
    open spec fn abs_eq_spec(&self, rhs: &IBig) -> bool { rabs(self.v()) == rabs(rhs.v()) }
    #[verifier::external_body]
    fn abs_eq(&self, rhs: &IBig) -> (r: bool) { unimplemented!() }
}
// rational/src/{repr,rbig}.rs data definitions (mirrored, as in lib/ratio_types.rs)
pub struct Repr { pub numerator: IBig, pub denominator: UBig }
pub struct RBig(pub Repr);
pub struct Relaxed(pub Repr);
} // mod ratio2_eq_stubs
pub use ratio2_eq_stubs::*;
