// ---- basering_gcd_lemmas.rs: number theory for the PRIMITIVE gcd algorithms of dashu-base (base/src/ring/gcd.rs), unit base_gcd (C12).
// Self-contained (mathematical integers only; no Word type, no prelude).  Nothing in this file is trusted: every lemma is proved.
//
// Vocabulary of the CONTRACTS (property C12, by divisibility):
//   br_is_gcd(g, a, b):  g >= 1, g | a, g | b, and every common divisor of a and b divides g.
// Proof device (never in a top-level postcondition): br_gcd(a, b), Euclid's recursion, with
//   lemma_br_gcd_props: br_is_gcd(br_gcd(a, b), a, b)      lemma_br_gcd_eq: br_is_gcd(g, a, b) ==> g == br_gcd(a, b)
// so that loop invariants can be EQUALITIES `br_gcd(a, b) == br_gcd(a0, b0)` (binary gcd: subtract, strip factors of two).

pub open spec fn br_is_gcd(g: int, a: int, b: int) -> bool {
    &&& g >= 1
    &&& a % g == 0
    &&& b % g == 0
    &&& forall|d: int| d >= 1 && #[trigger] (a % d) == 0 && b % d == 0 ==> g % d == 0
}

pub open spec fn br_gcd(a: nat, b: nat) -> nat
    decreases b
{
    if b == 0 { a } else { br_gcd(b, a % b) }
}

pub open spec fn br_abs(x: int) -> int { if x >= 0 { x } else { -x } }

/// n == k*d  ==>  d | n
pub proof fn lemma_br_div_intro(d: int, k: int, n: int)
    requires d >= 1, n == k * d,
    ensures n % d == 0,
{
    vstd::arithmetic::div_mod::lemma_mod_multiples_basic(k, d);
}

/// d | n  ==>  n == (n / d) * d
pub proof fn lemma_br_div_elim(d: int, n: int)
    requires d >= 1, n % d == 0,
    ensures n == (n / d) * d,
{
    vstd::arithmetic::div_mod::lemma_fundamental_div_mod(n, d);
    assert(d * (n / d) == (n / d) * d) by (nonlinear_arith);
}

/// d | x, d | y  ==>  d | q*x + y
pub proof fn lemma_br_div_comb(d: int, q: int, x: int, y: int)
    requires d >= 1, x % d == 0, y % d == 0,
    ensures (q * x + y) % d == 0,
{
    lemma_br_div_elim(d, x);
    lemma_br_div_elim(d, y);
    let xq = x / d; let yq = y / d;
    assert(q * x + y == (q * xq + yq) * d) by (nonlinear_arith) requires x == xq * d, y == yq * d;
    lemma_br_div_intro(d, q * xq + yq, q * x + y);
}

/// d | x  ==>  d | q*x
pub proof fn lemma_br_div_mul(d: int, q: int, x: int)
    requires d >= 1, x % d == 0,
    ensures (q * x) % d == 0,
{
    assert(0int % d == 0) by { lemma_br_div_intro(d, 0, 0); }
    lemma_br_div_comb(d, q, x, 0);
}

/// g | y, y >= 1  ==>  g <= y
pub proof fn lemma_br_div_le(g: int, y: int)
    requires g >= 1, y >= 1, y % g == 0,
    ensures g <= y,
{
    lemma_br_div_elim(g, y);
    let k = y / g;
    assert(k >= 1) by (nonlinear_arith) requires y == k * g, y >= 1, g >= 1;
    assert(k * g >= g) by (nonlinear_arith) requires k >= 1, g >= 1;
}

/// transitivity: e | d, d | n  ==>  e | n
pub proof fn lemma_br_div_trans(e: int, d: int, n: int)
    requires e >= 1, d >= 1, d % e == 0, n % d == 0,
    ensures n % e == 0,
{
    lemma_br_div_elim(d, n);
    lemma_br_div_mul(e, n / d, d);
}

pub proof fn lemma_br_div_self(d: int)
    requires d >= 1,
    ensures d % d == 0, 0int % d == 0,
{
    lemma_br_div_intro(d, 1, d);
    lemma_br_div_intro(d, 0, 0);
}

/// Euclid's recursion computes THE greatest common divisor
pub proof fn lemma_br_gcd_props(a: nat, b: nat)
    requires a + b > 0,
    ensures br_is_gcd(br_gcd(a, b) as int, a as int, b as int),
    decreases b,
{
    let g = br_gcd(a, b) as int;
    if b == 0 {
        lemma_br_div_self(a as int);
        assert forall|d: int| d >= 1 && #[trigger] ((a as int) % d) == 0 && (b as int) % d == 0 implies g % d == 0 by {}
    } else {
        let r = a % b;
        let q = (a as int) / (b as int);
        vstd::arithmetic::div_mod::lemma_fundamental_div_mod(a as int, b as int);
        assert((b as int) * q == q * (b as int)) by (nonlinear_arith);
        assert(a as int == q * (b as int) + (r as int));
        lemma_br_gcd_props(b, r);
        assert(br_is_gcd(g, b as int, r as int));
        lemma_br_div_comb(g, q, b as int, r as int);
        assert forall|d: int| d >= 1 && #[trigger] ((a as int) % d) == 0 && (b as int) % d == 0 implies g % d == 0 by {
            // r = a - q*b
            lemma_br_div_comb(d, -q, b as int, a as int);
            assert((-q) * (b as int) + (a as int) == r as int) by (nonlinear_arith) requires a as int == q * (b as int) + (r as int);
            assert((b as int) % d == 0 && (r as int) % d == 0);
        }
    }
}

/// the greatest common divisor (by divisibility) is unique
pub proof fn lemma_br_gcd_unique(g1: int, g2: int, a: int, b: int)
    requires br_is_gcd(g1, a, b), br_is_gcd(g2, a, b),
    ensures g1 == g2,
{
    assert(a % g1 == 0 && b % g1 == 0);
    assert(g2 % g1 == 0);
    assert(a % g2 == 0 && b % g2 == 0);
    assert(g1 % g2 == 0);
    lemma_br_div_le(g1, g2);
    lemma_br_div_le(g2, g1);
}

pub proof fn lemma_br_gcd_eq(g: int, a: int, b: int)
    requires a >= 0, b >= 0, a + b > 0, br_is_gcd(g, a, b),
    ensures g == br_gcd(a as nat, b as nat),
{
    lemma_br_gcd_props(a as nat, b as nat);
    lemma_br_gcd_unique(g, br_gcd(a as nat, b as nat) as int, a, b);
}

pub proof fn lemma_br_gcd_pos(a: int, b: int)
    requires a >= 0, b >= 0, a + b > 0,
    ensures br_gcd(a as nat, b as nat) >= 1,
        a % (br_gcd(a as nat, b as nat) as int) == 0, b % (br_gcd(a as nat, b as nat) as int) == 0,
        a >= 1 ==> br_gcd(a as nat, b as nat) <= a,
        b >= 1 ==> br_gcd(a as nat, b as nat) <= b,
{
    lemma_br_gcd_props(a as nat, b as nat);
    if a >= 1 { lemma_br_div_le(br_gcd(a as nat, b as nat) as int, a); }
    if b >= 1 { lemma_br_div_le(br_gcd(a as nat, b as nat) as int, b); }
}

pub proof fn lemma_br_is_gcd_sym(g: int, a: int, b: int)
    requires br_is_gcd(g, a, b),
    ensures br_is_gcd(g, b, a),
{
    assert forall|d: int| d >= 1 && #[trigger] (b % d) == 0 && a % d == 0 implies g % d == 0 by {
        assert(a % d == 0);
    }
}

pub proof fn lemma_br_gcd_sym(a: int, b: int)
    requires a >= 0, b >= 0, a + b > 0,
    ensures br_gcd(a as nat, b as nat) == br_gcd(b as nat, a as nat),
{
    lemma_br_gcd_props(a as nat, b as nat);
    lemma_br_is_gcd_sym(br_gcd(a as nat, b as nat) as int, a, b);
    lemma_br_gcd_eq(br_gcd(a as nat, b as nat) as int, b, a);
}

/// one division / subtraction step:  x == a - q*b >= 0  ==>  gcd(x, b) == gcd(a, b)
pub proof fn lemma_br_gcd_step(a: int, b: int, q: int, x: int)
    requires a >= 0, b >= 0, a + b > 0, x >= 0, x == a - q * b,
    ensures br_gcd(x as nat, b as nat) == br_gcd(a as nat, b as nat),
{
    let g = br_gcd(a as nat, b as nat) as int;
    lemma_br_gcd_props(a as nat, b as nat);
    lemma_br_div_comb(g, -q, b, a);
    assert((-q) * b + a == x) by (nonlinear_arith) requires x == a - q * b;
    assert forall|d: int| d >= 1 && #[trigger] (x % d) == 0 && b % d == 0 implies g % d == 0 by {
        lemma_br_div_comb(d, q, b, x);
        assert(q * b + x == a);
        assert(a % d == 0);
    }
    if x + b == 0 {
        assert(q * b == 0) by (nonlinear_arith) requires b == 0;
        assert(false);
    }
    lemma_br_gcd_eq(g, x, b);
}

/// an odd d that divides 2x divides x
pub proof fn lemma_br_odd_div_2x(d: int, x: int)
    requires d >= 1, d % 2 == 1, (2 * x) % d == 0,
    ensures x % d == 0,
{
    lemma_br_div_elim(d, 2 * x);
    let m = (2 * x) / d;
    let e = d / 2;
    assert(d == 2 * e + 1);
    let mp = x - e * m;
    assert(m == 2 * mp) by (nonlinear_arith) requires 2 * x == m * d, d == 2 * e + 1, mp == x - e * m;
    assert(x == mp * d) by (nonlinear_arith) requires 2 * x == m * d, m == 2 * mp;
    lemma_br_div_intro(d, mp, x);
}

/// a divisor of an odd number is odd
pub proof fn lemma_br_div_of_odd(d: int, b: int)
    requires d >= 1, b % 2 == 1, b % d == 0,
    ensures d % 2 == 1,
{
    lemma_br_div_elim(d, b);
    let k = b / d;
    if d % 2 == 0 {
        let e = d / 2;
        assert(b == 2 * (k * e)) by (nonlinear_arith) requires b == k * d, d == 2 * e;
        assert(false);
    }
}

/// a factor two of one operand is irrelevant when the other operand is odd
pub proof fn lemma_br_gcd_strip2(x: int, b: int)
    requires x >= 0, b >= 1, b % 2 == 1,
    ensures br_gcd((2 * x) as nat, b as nat) == br_gcd(x as nat, b as nat),
{
    let g = br_gcd(x as nat, b as nat) as int;
    lemma_br_gcd_props(x as nat, b as nat);
    lemma_br_div_mul(g, 2, x);
    assert forall|d: int| d >= 1 && #[trigger] ((2 * x) % d) == 0 && b % d == 0 implies g % d == 0 by {
        lemma_br_div_of_odd(d, b);
        lemma_br_odd_div_2x(d, x);
        assert(x % d == 0);
    }
    lemma_br_gcd_eq(g, 2 * x, b);
}

/// ... iterated: gcd(x * 2^k, b) == gcd(x, b) for odd b
pub proof fn lemma_br_gcd_strip_pow2(x: int, k: nat, b: int)
    requires x >= 0, b >= 1, b % 2 == 1,
    ensures x * pow2(k) >= 0, br_gcd((x * pow2(k)) as nat, b as nat) == br_gcd(x as nat, b as nat),
    decreases k,
{
    vstd::arithmetic::power2::lemma_pow2_pos(k);
    assert(x * pow2(k) >= 0) by (nonlinear_arith) requires x >= 0, pow2(k) > 0;
    if k == 0 {
        vstd::arithmetic::power2::lemma2_to64();
        assert(x * 1 == x);
    } else {
        vstd::arithmetic::power2::lemma_pow2_unfold(k);
        vstd::arithmetic::power2::lemma_pow2_pos((k - 1) as nat);
        let y = x * pow2((k - 1) as nat);
        assert(y >= 0) by (nonlinear_arith) requires x >= 0, pow2((k - 1) as nat) > 0, y == x * pow2((k - 1) as nat);
        assert(x * pow2(k) == 2 * y) by (nonlinear_arith) requires pow2(k) == 2 * pow2((k - 1) as nat), y == x * pow2((k - 1) as nat);
        lemma_br_gcd_strip_pow2(x, (k - 1) as nat, b);
        lemma_br_gcd_strip2(y, b);
    }
}

/// a common factor two:  gcd(2x, 2y) == 2 gcd(x, y)
pub proof fn lemma_br_gcd_scale2(x: int, y: int)
    requires x >= 0, y >= 0, x + y > 0,
    ensures br_gcd((2 * x) as nat, (2 * y) as nat) == 2 * br_gcd(x as nat, y as nat),
{
    let g = br_gcd(x as nat, y as nat) as int;
    lemma_br_gcd_props(x as nat, y as nat);
    lemma_br_div_elim(g, x);
    lemma_br_div_elim(g, y);
    let xq = x / g; let yq = y / g;
    assert(2 * x == xq * (2 * g)) by (nonlinear_arith) requires x == xq * g;
    assert(2 * y == yq * (2 * g)) by (nonlinear_arith) requires y == yq * g;
    lemma_br_div_intro(2 * g, xq, 2 * x);
    lemma_br_div_intro(2 * g, yq, 2 * y);
    assert forall|d: int| d >= 1 && #[trigger] ((2 * x) % d) == 0 && (2 * y) % d == 0 implies (2 * g) % d == 0 by {
        if d % 2 == 1 {
            lemma_br_odd_div_2x(d, x);
            lemma_br_odd_div_2x(d, y);
            assert(x % d == 0 && y % d == 0);
            assert(g % d == 0);
            lemma_br_div_mul(d, 2, g);
        } else {
            let e = d / 2;
            assert(d == 2 * e && e >= 1);
            lemma_br_div_elim(d, 2 * x);
            lemma_br_div_elim(d, 2 * y);
            let kx = (2 * x) / d; let ky = (2 * y) / d;
            assert(x == kx * e) by (nonlinear_arith) requires 2 * x == kx * d, d == 2 * e;
            assert(y == ky * e) by (nonlinear_arith) requires 2 * y == ky * d, d == 2 * e;
            lemma_br_div_intro(e, kx, x);
            lemma_br_div_intro(e, ky, y);
            assert(x % e == 0 && y % e == 0);
            assert(g % e == 0);
            lemma_br_div_elim(e, g);
            let kg = g / e;
            assert(2 * g == kg * d) by (nonlinear_arith) requires g == kg * e, d == 2 * e;
            lemma_br_div_intro(d, kg, 2 * g);
        }
    }
    lemma_br_gcd_eq(2 * g, 2 * x, 2 * y);
}

/// ... iterated: gcd(x * 2^k, y * 2^k) == gcd(x, y) * 2^k
pub proof fn lemma_br_gcd_scale_pow2(x: int, y: int, k: nat)
    requires x >= 0, y >= 0, x + y > 0,
    ensures x * pow2(k) >= 0, y * pow2(k) >= 0,
        br_gcd((x * pow2(k)) as nat, (y * pow2(k)) as nat) == br_gcd(x as nat, y as nat) * pow2(k),
    decreases k,
{
    vstd::arithmetic::power2::lemma_pow2_pos(k);
    assert(x * pow2(k) >= 0 && y * pow2(k) >= 0) by (nonlinear_arith) requires x >= 0, y >= 0, pow2(k) > 0;
    if k == 0 {
        vstd::arithmetic::power2::lemma2_to64();
        assert(x * 1 == x && y * 1 == y);
        assert(br_gcd(x as nat, y as nat) * 1 == br_gcd(x as nat, y as nat));
    } else {
        vstd::arithmetic::power2::lemma_pow2_unfold(k);
        vstd::arithmetic::power2::lemma_pow2_pos((k - 1) as nat);
        let p = pow2((k - 1) as nat) as int;
        let xx = x * p; let yy = y * p;
        assert(xx >= 0 && yy >= 0 && xx + yy > 0) by (nonlinear_arith) requires x >= 0, y >= 0, x + y > 0, p > 0, xx == x * p, yy == y * p;
        assert(x * pow2(k) == 2 * xx && y * pow2(k) == 2 * yy) by (nonlinear_arith)
            requires pow2(k) == 2 * p, xx == x * p, yy == y * p;
        lemma_br_gcd_scale_pow2(x, y, (k - 1) as nat);
        lemma_br_gcd_scale2(xx, yy);
        let g = br_gcd(x as nat, y as nat) as int;
        assert(2 * (g * p) == g * pow2(k)) by (nonlinear_arith) requires pow2(k) == 2 * p;
    }
}

/// a | b  ==>  gcd(a, b) == a
pub proof fn lemma_br_gcd_divides(a: int, b: int)
    requires a >= 1, b >= 0, b % a == 0,
    ensures br_gcd(a as nat, b as nat) == a, br_gcd(b as nat, a as nat) == a,
{
    lemma_br_div_self(a);
    assert forall|d: int| d >= 1 && #[trigger] (a % d) == 0 && b % d == 0 implies a % d == 0 by {}
    lemma_br_gcd_eq(a, a, b);
    lemma_br_gcd_sym(a, b);
}

/// the gcd of two numbers with their powers of two split off:
///   a == ao * 2^i, b == bo * 2^j (ao, bo odd), s == min(i, j)  ==>  gcd(a, b) == gcd(ao, bo) * 2^s
pub proof fn lemma_br_gcd_split_pow2(a: int, b: int, ao: int, bo: int, i: nat, j: nat, s: nat)
    requires ao >= 1, bo >= 1, ao % 2 == 1, bo % 2 == 1, a == ao * pow2(i), b == bo * pow2(j),
        s == (if i <= j { i } else { j }),
    ensures a >= 1, b >= 1, br_gcd(a as nat, b as nat) == br_gcd(ao as nat, bo as nat) * pow2(s),
{
    vstd::arithmetic::power2::lemma_pow2_pos(i);
    vstd::arithmetic::power2::lemma_pow2_pos(j);
    assert(a >= 1) by (nonlinear_arith) requires a == ao * pow2(i), ao >= 1, pow2(i) >= 1;
    assert(b >= 1) by (nonlinear_arith) requires b == bo * pow2(j), bo >= 1, pow2(j) >= 1;
    if i <= j {
        let m = (j - i) as nat;
        vstd::arithmetic::power2::lemma_pow2_adds(m, i);
        vstd::arithmetic::power2::lemma_pow2_pos(m);
        let bb = bo * pow2(m);
        assert(b == bb * pow2(i)) by (nonlinear_arith) requires b == bo * pow2(j), pow2(j) == pow2(m) * pow2(i), bb == bo * pow2(m);
        assert(bb >= 1) by (nonlinear_arith) requires bb == bo * pow2(m), bo >= 1, pow2(m) >= 1;
        lemma_br_gcd_scale_pow2(ao, bb, i);
        // gcd(ao, bo * 2^m) == gcd(ao, bo)
        lemma_br_gcd_strip_pow2(bo, m, ao);
        lemma_br_gcd_sym(ao, bb);
        lemma_br_gcd_sym(ao, bo);
    } else {
        let m = (i - j) as nat;
        vstd::arithmetic::power2::lemma_pow2_adds(m, j);
        vstd::arithmetic::power2::lemma_pow2_pos(m);
        let aa = ao * pow2(m);
        assert(a == aa * pow2(j)) by (nonlinear_arith) requires a == ao * pow2(i), pow2(i) == pow2(m) * pow2(j), aa == ao * pow2(m);
        assert(aa >= 1) by (nonlinear_arith) requires aa == ao * pow2(m), ao >= 1, pow2(m) >= 1;
        lemma_br_gcd_scale_pow2(aa, bo, j);
        lemma_br_gcd_strip_pow2(ao, m, bo);
    }
}

/// Bezout: a positive common divisor that is an integer combination is THE greatest common divisor
pub proof fn lemma_br_bezout_is_gcd(g: int, a: int, b: int, s: int, t: int)
    requires g >= 1, a % g == 0, b % g == 0, s * a + t * b == g,
    ensures br_is_gcd(g, a, b),
{
    assert forall|d: int| d >= 1 && #[trigger] (a % d) == 0 && b % d == 0 implies g % d == 0 by {
        lemma_br_div_mul(d, t, b);
        lemma_br_div_comb(d, s, a, t * b);
    }
}

// ---- extended Euclid: the two Bezout rows, the determinant identities and the size of the cofactors -------------------------

/// C12 for the primitive extended gcd of x >= y >= 1 (the form `unchecked_gcd_ext` delivers): g is a positive common divisor and
/// the integer combination s*x + t*y (hence THE gcd: lemma_br_bezout_is_gcd); the cofactors are small: |s| <= y, |t| <= x, and at
/// most half of that when x > y
pub open spec fn br_ext_post(x: int, y: int, g: int, s: int, t: int) -> bool {
    &&& g >= 1
    &&& x % g == 0
    &&& y % g == 0
    &&& s * x + t * y == g
    &&& -y <= s <= y
    &&& -x <= t <= x
    &&& (x > y ==> -y <= 2 * s <= y && -x <= 2 * t <= x)
}

/// state of the Euclidean scheme in the orientation "last_s >= 0": rows (ls, lt | lr), (s, t | r) of x >= y >= 1
///   t*lr - lt*r == x,  ls*r - s*lr == y   (|t|*lr + |lt|*r == x,  |s|*lr + |ls|*r == y)
pub open spec fn br_ext_det(x: int, y: int, lr: int, r: int, ls: int, s: int, lt: int, t: int) -> bool {
    &&& ls >= 0 && s <= 0 && lt <= 0 && t >= 0
    &&& t * lr - lt * r == x
    &&& ls * r - s * lr == y
}

/// loop invariant of the Euclidean scheme (both orientations; `even` is a ghost flag)
pub open spec fn br_ext_inv(x: int, y: int, lr: int, r: int, ls: int, s: int, lt: int, t: int, even: bool) -> bool {
    &&& 1 <= r <= lr <= x
    &&& 1 <= y <= x
    &&& (x > y ==> lr > r)
    &&& ls * x + lt * y == lr
    &&& s * x + t * y == r
    &&& (even ==> br_ext_det(x, y, lr, r, ls, s, lt, t))
    &&& (!even ==> br_ext_det(x, y, lr, r, -ls, -s, -lt, -t))
}

pub proof fn lemma_br_ext_init(x: int, y: int)
    requires 1 <= y <= x,
    ensures br_ext_inv(x, y, x, y, 1, 0, 0, 1, true),
{
    assert(1 * x - 0 * y == x && 1 * y - 0 * x == y && 1 * x + 0 * y == x && 0 * x + 1 * y == y) by (nonlinear_arith);
}

/// quotient and remainder of one step (machine division): q*r <= lr, nr < r
pub proof fn lemma_br_ext_quo(lr: int, r: int)
    requires 1 <= r <= lr,
    ensures (lr / r) * r <= lr, 1 <= lr / r <= lr, lr - (lr / r) * r == lr % r, 0 <= lr % r < r,
        lr % r != 0 ==> r >= 2 && 2 * (lr / r) <= lr,
{
    let q = lr / r;
    vstd::arithmetic::div_mod::lemma_fundamental_div_mod(lr, r);
    vstd::arithmetic::div_mod::lemma_mod_bound(lr, r);
    assert(r * q == q * r) by (nonlinear_arith);
    assert(q >= 1) by (nonlinear_arith) requires q * r + lr % r == lr, lr % r < r, r <= lr, r >= 1;
    assert(q <= lr) by (nonlinear_arith) requires q * r <= lr, r >= 1, q >= 1;
    if lr % r != 0 {
        assert(2 * q <= lr) by (nonlinear_arith) requires q * r <= lr, r >= 2, q >= 1;
    }
}

/// one step in the orientation "ls >= 0": signs, determinant identities and the bounds that keep the machine arithmetic exact
pub proof fn lemma_br_ext_det_step(x: int, y: int, lr: int, r: int, ls: int, s: int, lt: int, t: int, q: int, nr: int, ns: int, nt: int)
    requires br_ext_det(x, y, lr, r, ls, s, lt, t), 1 <= r <= lr, q >= 1, nr == lr - q * r, 0 <= nr,
        ns == ls - q * s, nt == lt - q * t,
    ensures br_ext_det(x, y, r, nr, -s, -ns, -t, -nt),
        0 <= -(q * s) <= ns, ns * r <= y, 0 <= q * t <= -nt, (-nt) * r <= x,
{
    assert(q * s <= 0) by (nonlinear_arith) requires q >= 1, s <= 0;
    assert(q * t >= 0) by (nonlinear_arith) requires q >= 1, t >= 0;
    // (-nt)*r - (-t)*nr == x   and   (-s)*nr - (-ns)*r == y
    assert((-t) * nr <= 0) by (nonlinear_arith) requires t >= 0, nr >= 0;
    assert((-s) * nr >= 0) by (nonlinear_arith) requires s <= 0, nr >= 0;
    assert((-nt) * r - (-t) * nr == x) by (nonlinear_arith)
        requires nt == lt - q * t, nr == lr - q * r, t * lr - lt * r == x;
    assert((-s) * nr - (-ns) * r == y) by (nonlinear_arith)
        requires ns == ls - q * s, nr == lr - q * r, ls * r - s * lr == y;
    assert(ns * r <= y) by (nonlinear_arith) requires (-s) * nr - (-ns) * r == y, (-s) * nr >= 0;
    assert((-nt) * r <= x) by (nonlinear_arith) requires (-nt) * r - (-t) * nr == x, (-t) * nr <= 0;
}

/// one step of the invariant
pub proof fn lemma_br_ext_step(x: int, y: int, lr: int, r: int, ls: int, s: int, lt: int, t: int, even: bool, q: int, nr: int, ns: int, nt: int)
    requires br_ext_inv(x, y, lr, r, ls, s, lt, t, even), q == lr / r, nr == lr - q * r, nr != 0,
        ns == ls - q * s, nt == lt - q * t,
    ensures br_ext_inv(x, y, r, nr, s, ns, t, nt, !even),
        r >= 2, 1 <= q, 2 * q <= lr,
        -y <= 2 * (q * s) <= y, -y <= 2 * ns <= y, -x <= 2 * (q * t) <= x, -x <= 2 * nt <= x,
{
    lemma_br_ext_quo(lr, r);
    assert(ns * x + nt * y == nr) by (nonlinear_arith)
        requires ls * x + lt * y == lr, s * x + t * y == r, nr == lr - q * r, ns == ls - q * s, nt == lt - q * t;
    if even {
        lemma_br_ext_det_step(x, y, lr, r, ls, s, lt, t, q, nr, ns, nt);
        assert(2 * ns <= y) by (nonlinear_arith) requires ns * r <= y, r >= 2, ns >= 0;
        assert(2 * (-nt) <= x) by (nonlinear_arith) requires (-nt) * r <= x, r >= 2, -nt >= 0;
    } else {
        assert(q * (-s) == -(q * s) && q * (-t) == -(q * t)) by (nonlinear_arith);
        lemma_br_ext_det_step(x, y, lr, r, -ls, -s, -lt, -t, q, nr, -ns, -nt);
        assert(2 * (-ns) <= y) by (nonlinear_arith) requires (-ns) * r <= y, r >= 2, -ns >= 0;
        assert(2 * nt <= x) by (nonlinear_arith) requires nt * r <= x, r >= 2, nt >= 0;
    }
}

/// the end of the scheme (r | lr) in the orientation "ls >= 0"
pub proof fn lemma_br_ext_det_fin(x: int, y: int, lr: int, r: int, ls: int, s: int, lt: int, t: int, q: int)
    requires br_ext_det(x, y, lr, r, ls, s, lt, t), 1 <= r <= lr, lr == q * r,
    ensures x % r == 0, y % r == 0, t <= x, -s <= y, lr > r ==> 2 * t <= x && -2 * s <= y,
{
    assert(x == (t * q - lt) * r) by (nonlinear_arith) requires t * lr - lt * r == x, lr == q * r;
    assert(y == (ls - s * q) * r) by (nonlinear_arith) requires ls * r - s * lr == y, lr == q * r;
    lemma_br_div_intro(r, t * q - lt, x);
    lemma_br_div_intro(r, ls - s * q, y);
    assert(lt * r <= 0) by (nonlinear_arith) requires lt <= 0, r >= 1;
    assert(ls * r >= 0) by (nonlinear_arith) requires ls >= 0, r >= 1;
    assert((-s) * lr == -(s * lr)) by (nonlinear_arith);
    assert(t <= x) by (nonlinear_arith) requires t * lr <= x, lr >= 1, t >= 0;
    assert(-s <= y) by (nonlinear_arith) requires (-s) * lr <= y, lr >= 1, -s >= 0;
    if lr > r {
        assert(q >= 2) by (nonlinear_arith) requires lr == q * r, lr > r, r >= 1;
        assert(lr >= 2) by (nonlinear_arith) requires lr == q * r, q >= 2, r >= 1;
        assert(2 * t <= x) by (nonlinear_arith) requires t * lr <= x, lr >= 2, t >= 0;
        assert(-2 * s <= y) by (nonlinear_arith) requires (-s) * lr <= y, lr >= 2, -s >= 0;
    }
}

/// early return `(r, s, t)` when the remainder vanishes
pub proof fn lemma_br_ext_fin(x: int, y: int, lr: int, r: int, ls: int, s: int, lt: int, t: int, even: bool, q: int)
    requires br_ext_inv(x, y, lr, r, ls, s, lt, t, even), q == lr / r, lr - q * r == 0,
    ensures br_ext_post(x, y, r, s, t),
{
    if even {
        lemma_br_ext_det_fin(x, y, lr, r, ls, s, lt, t, q);
    } else {
        lemma_br_ext_det_fin(x, y, lr, r, -ls, -s, -lt, -t, q);
    }
}

/// "forward to single width": the rows (s, t | r), (ns, nt | nr) combined with the cofactors (cx, cy) of the pair (r, nr), r > nr >= 1
pub proof fn lemma_br_ext_compose(x: int, y: int, lr: int, r: int, ls: int, s: int, lt: int, t: int, even: bool,
                                  g: int, cx: int, cy: int)
    requires br_ext_inv(x, y, lr, r, ls, s, lt, t, even), lr > r, br_ext_post(lr, r, g, cx, cy),
    ensures br_ext_post(x, y, g, cx * ls + cy * s, cx * lt + cy * t),
        -y <= 2 * (cx * ls) <= y, -y <= 2 * (cy * s) <= y, -x <= 2 * (cx * lt) <= x, -x <= 2 * (cy * t) <= x,
        -y <= 2 * (cx * ls + cy * s) <= y, -x <= 2 * (cx * lt + cy * t) <= x,
{
    let bs = cx * ls + cy * s; let bt = cx * lt + cy * t;
    assert(bs * x + bt * y == g) by (nonlinear_arith)
        requires ls * x + lt * y == lr, s * x + t * y == r, cx * lr + cy * r == g, bs == cx * ls + cy * s, bt == cx * lt + cy * t;
    // g | lr, g | r  ==>  g | x, g | y  (determinant identities)
    let (als, as_, alt, at) = if even { (ls, s, lt, t) } else { (-ls, -s, -lt, -t) };
    assert(br_ext_det(x, y, lr, r, als, as_, alt, at));
    lemma_br_div_mul(g, at, lr);
    lemma_br_div_comb(g, -alt, r, at * lr);
    assert((-alt) * r + at * lr == x) by (nonlinear_arith) requires at * lr - alt * r == x;
    lemma_br_div_mul(g, als, r);
    lemma_br_div_comb(g, -as_, lr, als * r);
    assert((-as_) * lr + als * r == y) by (nonlinear_arith) requires als * r - as_ * lr == y;
    // sizes: 2|cx| <= r, 2|cy| <= lr,  |as|*lr + |als|*r == y,  |at|*lr + |alt|*r == x
    let acx = br_abs(cx); let acy = br_abs(cy);
    assert(2 * acx <= r && 2 * acy <= lr);
    let p1 = acx * als; let p2 = acy * (-as_); let p3 = acx * (-alt); let p4 = acy * at;
    assert(0 <= 2 * p1 && 2 * p1 <= r * als) by (nonlinear_arith) requires 0 <= 2 * acx <= r, als >= 0, p1 == acx * als;
    assert(0 <= 2 * p2 && 2 * p2 <= lr * (-as_)) by (nonlinear_arith) requires 0 <= 2 * acy <= lr, -as_ >= 0, p2 == acy * (-as_);
    assert(0 <= 2 * p3 && 2 * p3 <= r * (-alt)) by (nonlinear_arith) requires 0 <= 2 * acx <= r, -alt >= 0, p3 == acx * (-alt);
    assert(0 <= 2 * p4 && 2 * p4 <= lr * at) by (nonlinear_arith) requires 0 <= 2 * acy <= lr, at >= 0, p4 == acy * at;
    assert(r * als + lr * (-as_) == y) by (nonlinear_arith) requires als * r - as_ * lr == y;
    assert(r * (-alt) + lr * at == x) by (nonlinear_arith) requires at * lr - alt * r == x;
    assert(2 * p1 + 2 * p2 <= y && 2 * p3 + 2 * p4 <= x);
    // |cx * ls| == p1 etc.
    assert(br_abs(cx * ls) == p1) by (nonlinear_arith)
        requires p1 == acx * als, acx == br_abs(cx), als == ls || als == -ls, als >= 0;
    assert(br_abs(cy * s) == p2) by (nonlinear_arith)
        requires p2 == acy * (-as_), acy == br_abs(cy), as_ == s || as_ == -s, -as_ >= 0;
    assert(br_abs(cx * lt) == p3) by (nonlinear_arith)
        requires p3 == acx * (-alt), acx == br_abs(cx), alt == lt || alt == -lt, -alt >= 0;
    assert(br_abs(cy * t) == p4) by (nonlinear_arith)
        requires p4 == acy * at, acy == br_abs(cy), at == t || at == -t, at >= 0;
}

// ---- the public wrappers: common factor 2^s split off ---------------------------------------------------------------------------

/// gcd_ext: cofactors of (A, Bv) = (a0 / p, b0 / p) are cofactors of (a0, b0) for g * p
pub proof fn lemma_br_ext_lift(a0: int, b0: int, aa: int, bb: int, p: int, g: int, ca: int, cb: int)
    requires p >= 1, a0 == aa * p, b0 == bb * p, aa >= 1, bb >= 1, g >= 1, aa % g == 0, bb % g == 0, ca * aa + cb * bb == g,
    ensures g * p >= 1, a0 % (g * p) == 0, b0 % (g * p) == 0, ca * a0 + cb * b0 == g * p, g * p <= a0, g * p <= b0,
        aa <= a0, bb <= b0, (a0 > b0) == (aa > bb), (a0 >= b0) == (aa >= bb),
        br_is_gcd(g * p, a0, b0),
{
    assert(g * p >= 1) by (nonlinear_arith) requires g >= 1, p >= 1;
    lemma_br_div_elim(g, aa);
    lemma_br_div_elim(g, bb);
    let ka = aa / g; let kb = bb / g;
    assert(a0 == ka * (g * p)) by (nonlinear_arith) requires a0 == aa * p, aa == ka * g;
    assert(b0 == kb * (g * p)) by (nonlinear_arith) requires b0 == bb * p, bb == kb * g;
    lemma_br_div_intro(g * p, ka, a0);
    lemma_br_div_intro(g * p, kb, b0);
    assert(ca * a0 + cb * b0 == g * p) by (nonlinear_arith) requires a0 == aa * p, b0 == bb * p, ca * aa + cb * bb == g;
    assert(aa <= a0) by (nonlinear_arith) requires a0 == aa * p, p >= 1, aa >= 1;
    assert(bb <= b0) by (nonlinear_arith) requires b0 == bb * p, p >= 1, bb >= 1;
    assert(a0 >= 1 && b0 >= 1);
    lemma_br_div_le(g * p, a0);
    lemma_br_div_le(g * p, b0);
    assert((a0 > b0) == (aa > bb)) by (nonlinear_arith) requires a0 == aa * p, b0 == bb * p, p >= 1;
    assert((a0 >= b0) == (aa >= bb)) by (nonlinear_arith) requires a0 == aa * p, b0 == bb * p, p >= 1;
    lemma_br_bezout_is_gcd(g * p, a0, b0, ca, cb);
}

/// gcd(x, 0) == gcd(0, x) == x
pub proof fn lemma_br_is_gcd_zero(x: int)
    requires x >= 1,
    ensures br_is_gcd(x, x, 0), br_is_gcd(x, 0, x),
{
    lemma_br_div_self(x);
    assert forall|d: int| d >= 1 && #[trigger] (x % d) == 0 && 0int % d == 0 implies x % d == 0 by {}
    assert forall|d: int| d >= 1 && #[trigger] (0int % d) == 0 && x % d == 0 implies x % d == 0 by {}
}

/// gcd: the odd parts ao, bo of a0 = ao * 2^i, b0 = bo * 2^j and the common shift s = min(i, j); gg = gcd(ao, bo)
pub proof fn lemma_br_gcd_lift(a0: int, b0: int, ao: int, bo: int, i: nat, j: nat, s: nat, gg: int)
    requires ao >= 1, bo >= 1, ao % 2 == 1, bo % 2 == 1, a0 == ao * pow2(i), b0 == bo * pow2(j),
        s == (if i <= j { i } else { j }), gg == br_gcd(ao as nat, bo as nat),
    ensures a0 >= 1, b0 >= 1, gg >= 1, gg * pow2(s) <= a0, gg * pow2(s) <= b0, br_is_gcd(gg * pow2(s), a0, b0), gg <= a0, gg <= b0,
{
    vstd::arithmetic::power2::lemma_pow2_pos(s);
    assert(gg <= gg * pow2(s)) by (nonlinear_arith) requires pow2(s) >= 1, gg >= 0;
    lemma_br_gcd_split_pow2(a0, b0, ao, bo, i, j, s);
    lemma_br_gcd_pos(a0, b0);
    lemma_br_gcd_pos(ao, bo);
    lemma_br_gcd_props(a0 as nat, b0 as nat);
}

/// the division shortcut of `gcd`: r == b mod a != 0 with its power of two split off replaces b
pub proof fn lemma_br_gcd_rem_odd(a: int, b: int, r: int, ro: int, k: nat)
    requires a >= 1, b >= 1, a % 2 == 1, r == b % a, r != 0, ro >= 1, r == ro * pow2(k),
    ensures br_gcd(a as nat, ro as nat) == br_gcd(a as nat, b as nat),
        br_gcd(ro as nat, a as nat) == br_gcd(b as nat, a as nat),
{
    vstd::arithmetic::div_mod::lemma_fundamental_div_mod(b, a);
    vstd::arithmetic::div_mod::lemma_mod_bound(b, a);
    let q = b / a;
    assert(a * q == q * a) by (nonlinear_arith);
    lemma_br_gcd_step(b, a, q, r);              // gcd(r, a) == gcd(b, a)
    lemma_br_gcd_strip_pow2(ro, k, a);          // gcd(ro * 2^k, a) == gcd(ro, a)
    lemma_br_gcd_sym(ro, a);
    lemma_br_gcd_sym(b, a);
}
