// ---- basering_gcd_lemmas.rs: number theory for the PRIMITIVE gcd algorithms of dashu-base (base/src/ring/gcd.rs), unit base_gcd (C12).
// Self-contained (mathematical integers only; no Word type, no prelude).  Nothing in this file is trusted: every lemma is proved.
//
// Vocabulary of the CONTRACTS (property C12, by divisibility):
//   br_is_gcd(g, a, b):  g >= 1, g | a, g | b, and every common divisor of a and b divides g.
// Proof device (never in a top-level postcondition): br_gcd(a, b), Euclid's recursion, with
//   lemma_br_gcd_props: br_is_gcd(br_gcd(a, b), a, b)      lemma_br_gcd_eq: br_is_gcd(g, a, b) ==> g == br_gcd(a, b)
// so that loop invariants can be EQUALITIES `br_gcd(a, b) == br_gcd(a0, b0)` (binary gcd: subtract, strip factors of two).

pub open spec fn br_is_gcd(g: int, a: int, b: int) -> bool {
    &&& g >= 1
    &&& a % g == 0
    &&& b % g == 0
    &&& forall|d: int| d >= 1 && #[trigger] (a % d) == 0 && b % d == 0 ==> g % d == 0
}

pub open spec fn br_gcd(a: nat, b: nat) -> nat
    decreases b
{
    if b == 0 { a } else { br_gcd(b, a % b) }
}

pub open spec fn br_abs(x: int) -> int { if x >= 0 { x } else { -x } }

/// n == k*d  ==>  d | n
pub proof fn lemma_br_div_intro(d: int, k: int, n: int)
    requires d >= 1, n == k * d,
    ensures n % d == 0,
{
    vstd::arithmetic::div_mod::lemma_mod_multiples_basic(k, d);
}

/// d | n  ==>  n == (n / d) * d
pub proof fn lemma_br_div_elim(d: int, n: int)
    requires d >= 1, n % d == 0,
    ensures n == (n / d) * d,
{
    vstd::arithmetic::div_mod::lemma_fundamental_div_mod(n, d);
    assert(d * (n / d) == (n / d) * d) by (nonlinear_arith);
}

/// d | x, d | y  ==>  d | q*x + y
pub proof fn lemma_br_div_comb(d: int, q: int, x: int, y: int)
    requires d >= 1, x % d == 0, y % d == 0,
    ensures (q * x + y) % d == 0,
{
    lemma_br_div_elim(d, x);
    lemma_br_div_elim(d, y);
    let xq = x / d; let yq = y / d;
    assert(q * x + y == (q * xq + yq) * d) by (nonlinear_arith) requires x == xq * d, y == yq * d;
    lemma_br_div_intro(d, q * xq + yq, q * x + y);
}

/// d | x  ==>  d | q*x
pub proof fn lemma_br_div_mul(d: int, q: int, x: int)
    requires d >= 1, x % d == 0,
    ensures (q * x) % d == 0,
{
    assert(0int % d == 0) by { lemma_br_div_intro(d, 0, 0); }
    lemma_br_div_comb(d, q, x, 0);
}

/// g | y, y >= 1  ==>  g <= y
pub proof fn lemma_br_div_le(g: int, y: int)
    requires g >= 1, y >= 1, y % g == 0,
    ensures g <= y,
{
    lemma_br_div_elim(g, y);
    let k = y / g;
    assert(k >= 1) by (nonlinear_arith) requires y == k * g, y >= 1, g >= 1;
    assert(k * g >= g) by (nonlinear_arith) requires k >= 1, g >= 1;
}

/// transitivity: e | d, d | n  ==>  e | n
pub proof fn lemma_br_div_trans(e: int, d: int, n: int)
    requires e >= 1, d >= 1, d % e == 0, n % d == 0,
    ensures n % e == 0,
{
    lemma_br_div_elim(d, n);
    lemma_br_div_mul(e, n / d, d);
}

pub proof fn lemma_br_div_self(d: int)
    requires d >= 1,
    ensures d % d == 0, 0int % d == 0,
{
    lemma_br_div_intro(d, 1, d);
    lemma_br_div_intro(d, 0, 0);
}

/// Euclid's recursion computes THE greatest common divisor
pub proof fn lemma_br_gcd_props(a: nat, b: nat)
    requires a + b > 0,
    ensures br_is_gcd(br_gcd(a, b) as int, a as int, b as int),
    decreases b,
{
    let g = br_gcd(a, b) as int;
    if b == 0 {
        lemma_br_div_self(a as int);
        assert forall|d: int| d >= 1 && #[trigger] ((a as int) % d) == 0 && (b as int) % d == 0 implies g % d == 0 by {}
    } else {
        let r = a % b;
        let q = (a as int) / (b as int);
        vstd::arithmetic::div_mod::lemma_fundamental_div_mod(a as int, b as int);
        assert((b as int) * q == q * (b as int)) by (nonlinear_arith);
        assert(a as int == q * (b as int) + (r as int));
        lemma_br_gcd_props(b, r);
        assert(br_is_gcd(g, b as int, r as int));
        lemma_br_div_comb(g, q, b as int, r as int);
        assert forall|d: int| d >= 1 && #[trigger] ((a as int) % d) == 0 && (b as int) % d == 0 implies g % d == 0 by {
            // r = a - q*b
            lemma_br_div_comb(d, -q, b as int, a as int);
            assert((-q) * (b as int) + (a as int) == r as int) by (nonlinear_arith) requires a as int == q * (b as int) + (r as int);
            assert((b as int) % d == 0 && (r as int) % d == 0);
        }
    }
}

/// the greatest common divisor (by divisibility) is unique
pub proof fn lemma_br_gcd_unique(g1: int, g2: int, a: int, b: int)
    requires br_is_gcd(g1, a, b), br_is_gcd(g2, a, b),
    ensures g1 == g2,
{
    assert(a % g1 == 0 && b % g1 == 0);
    assert(g2 % g1 == 0);
    assert(a % g2 == 0 && b % g2 == 0);
    assert(g1 % g2 == 0);
    lemma_br_div_le(g1, g2);
    lemma_br_div_le(g2, g1);
}

pub proof fn lemma_br_gcd_eq(g: int, a: int, b: int)
    requires a >= 0, b >= 0, a + b > 0, br_is_gcd(g, a, b),
    ensures g == br_gcd(a as nat, b as nat),
{
    lemma_br_gcd_props(a as nat, b as nat);
    lemma_br_gcd_unique(g, br_gcd(a as nat, b as nat) as int, a, b);
}

pub proof fn lemma_br_gcd_pos(a: int, b: int)
    requires a >= 0, b >= 0, a + b > 0,
    ensures br_gcd(a as nat, b as nat) >= 1,
        a % (br_gcd(a as nat, b as nat) as int) == 0, b % (br_gcd(a as nat, b as nat) as int) == 0,
        a >= 1 ==> br_gcd(a as nat, b as nat) <= a,
        b >= 1 ==> br_gcd(a as nat, b as nat) <= b,
{
    lemma_br_gcd_props(a as nat, b as nat);
    if a >= 1 { lemma_br_div_le(br_gcd(a as nat, b as nat) as int, a); }
    if b >= 1 { lemma_br_div_le(br_gcd(a as nat, b as nat) as int, b); }
}

pub proof fn lemma_br_is_gcd_sym(g: int, a: int, b: int)
    requires br_is_gcd(g, a, b),
    ensures br_is_gcd(g, b, a),
{
    assert forall|d: int| d >= 1 && #[trigger] (b % d) == 0 && a % d == 0 implies g % d == 0 by {
        assert(a % d == 0);
    }
}

pub proof fn lemma_br_gcd_sym(a: int, b: int)
    requires a >= 0, b >= 0, a + b > 0,
    ensures br_gcd(a as nat, b as nat) == br_gcd(b as nat, a as nat),
{
    lemma_br_gcd_props(a as nat, b as nat);
    lemma_br_is_gcd_sym(br_gcd(a as nat, b as nat) as int, a, b);
    lemma_br_gcd_eq(br_gcd(a as nat, b as nat) as int, b, a);
}

/// one division / subtraction step:  x == a - q*b >= 0  ==>  gcd(x, b) == gcd(a, b)
pub proof fn lemma_br_gcd_step(a: int, b: int, q: int, x: int)
    requires a >= 0, b >= 0, a + b > 0, x >= 0, x == a - q * b,
    ensures br_gcd(x as nat, b as nat) == br_gcd(a as nat, b as nat),
{
    let g = br_gcd(a as nat, b as nat) as int;
    lemma_br_gcd_props(a as nat, b as nat);
    lemma_br_div_comb(g, -q, b, a);
    assert((-q) * b + a == x) by (nonlinear_arith) requires x == a - q * b;
    assert forall|d: int| d >= 1 && #[trigger] (x % d) == 0 && b % d == 0 implies g % d == 0 by {
        lemma_br_div_comb(d, q, b, x);
        assert(q * b + x == a);
        assert(a % d == 0);
    }
    if x + b == 0 {
        assert(q * b == 0) by (nonlinear_arith) requires b == 0;
        assert(false);
    }
    lemma_br_gcd_eq(g, x, b);
}

/// an odd d that divides 2x divides x
pub proof fn lemma_br_odd_div_2x(d: int, x: int)
    requires d >= 1, d % 2 == 1, (2 * x) % d == 0,
    ensures x % d == 0,
{
    lemma_br_div_elim(d, 2 * x);
    let m = (2 * x) / d;
    let e = d / 2;
    assert(d == 2 * e + 1);
    let mp = x - e * m;
    assert(m == 2 * mp) by (nonlinear_arith) requires 2 * x == m * d, d == 2 * e + 1, mp == x - e * m;
    assert(x == mp * d) by (nonlinear_arith) requires 2 * x == m * d, m == 2 * mp;
    lemma_br_div_intro(d, mp, x);
}

/// a divisor of an odd number is odd
pub proof fn lemma_br_div_of_odd(d: int, b: int)
    requires d >= 1, b % 2 == 1, b % d == 0,
    ensures d % 2 == 1,
{
    lemma_br_div_elim(d, b);
    let k = b / d;
    if d % 2 == 0 {
        let e = d / 2;
        assert(b == 2 * (k * e)) by (nonlinear_arith) requires b == k * d, d == 2 * e;
        assert(false);
    }
}

/// a factor two of one operand is irrelevant when the other operand is odd
pub proof fn lemma_br_gcd_strip2(x: int, b: int)
    requires x >= 0, b >= 1, b % 2 == 1,
    ensures br_gcd((2 * x) as nat, b as nat) == br_gcd(x as nat, b as nat),
{
    let g = br_gcd(x as nat, b as nat) as int;
    lemma_br_gcd_props(x as nat, b as nat);
    lemma_br_div_mul(g, 2, x);
    assert forall|d: int| d >= 1 && #[trigger] ((2 * x) % d) == 0 && b % d == 0 implies g % d == 0 by {
        lemma_br_div_of_odd(d, b);
        lemma_br_odd_div_2x(d, x);
        assert(x % d == 0);
    }
    lemma_br_gcd_eq(g, 2 * x, b);
}

/// ... iterated: gcd(x * 2^k, b) == gcd(x, b) for odd b
pub proof fn lemma_br_gcd_strip_pow2(x: int, k: nat, b: int)
    requires x >= 0, b >= 1, b % 2 == 1,
    ensures x * pow2(k) >= 0, br_gcd((x * pow2(k)) as nat, b as nat) == br_gcd(x as nat, b as nat),
    decreases k,
{
    vstd::arithmetic::power2::lemma_pow2_pos(k);
    assert(x * pow2(k) >= 0) by (nonlinear_arith) requires x >= 0, pow2(k) > 0;
    if k == 0 {
        vstd::arithmetic::power2::lemma2_to64();
        assert(x * 1 == x);
    } else {
        vstd::arithmetic::power2::lemma_pow2_unfold(k);
        vstd::arithmetic::power2::lemma_pow2_pos((k - 1) as nat);
        let y = x * pow2((k - 1) as nat);
        assert(y >= 0) by (nonlinear_arith) requires x >= 0, pow2((k - 1) as nat) > 0, y == x * pow2((k - 1) as nat);
        assert(x * pow2(k) == 2 * y) by (nonlinear_arith) requires pow2(k) == 2 * pow2((k - 1) as nat), y == x * pow2((k - 1) as nat);
        lemma_br_gcd_strip_pow2(x, (k - 1) as nat, b);
        lemma_br_gcd_strip2(y, b);
    }
}

/// a common factor two:  gcd(2x, 2y) == 2 gcd(x, y)
pub proof fn lemma_br_gcd_scale2(x: int, y: int)
    requires x >= 0, y >= 0, x + y > 0,
    ensures br_gcd((2 * x) as nat, (2 * y) as nat) == 2 * br_gcd(x as nat, y as nat),
{
    let g = br_gcd(x as nat, y as nat) as int;
    lemma_br_gcd_props(x as nat, y as nat);
    lemma_br_div_elim(g, x);
    lemma_br_div_elim(g, y);
    let xq = x / g; let yq = y / g;
    assert(2 * x == xq * (2 * g)) by (nonlinear_arith) requires x == xq * g;
    assert(2 * y == yq * (2 * g)) by (nonlinear_arith) requires y == yq * g;
    lemma_br_div_intro(2 * g, xq, 2 * x);
    lemma_br_div_intro(2 * g, yq, 2 * y);
    assert forall|d: int| d >= 1 && #[trigger] ((2 * x) % d) == 0 && (2 * y) % d == 0 implies (2 * g) % d == 0 by {
        if d % 2 == 1 {
            lemma_br_odd_div_2x(d, x);
            lemma_br_odd_div_2x(d, y);
            assert(x % d == 0 && y % d == 0);
            assert(g % d == 0);
            lemma_br_div_mul(d, 2, g);
        } else {
            let e = d / 2;
            assert(d == 2 * e && e >= 1);
            lemma_br_div_elim(d, 2 * x);
            lemma_br_div_elim(d, 2 * y);
            let kx = (2 * x) / d; let ky = (2 * y) / d;
            assert(x == kx * e) by (nonlinear_arith) requires 2 * x == kx * d, d == 2 * e;
            assert(y == ky * e) by (nonlinear_arith) requires 2 * y == ky * d, d == 2 * e;
            lemma_br_div_intro(e, kx, x);
            lemma_br_div_intro(e, ky, y);
            assert(x % e == 0 && y % e == 0);
            assert(g % e == 0);
            lemma_br_div_elim(e, g);
            let kg = g / e;
            assert(2 * g == kg * d) by (nonlinear_arith) requires g == kg * e, d == 2 * e;
            lemma_br_div_intro(d, kg, 2 * g);
        }
    }
    lemma_br_gcd_eq(2 * g, 2 * x, 2 * y);
}

/// ... iterated: gcd(x * 2^k, y * 2^k) == gcd(x, y) * 2^k
pub proof fn lemma_br_gcd_scale_pow2(x: int, y: int, k: nat)
    requires x >= 0, y >= 0, x + y > 0,
    ensures x * pow2(k) >= 0, y * pow2(k) >= 0,
        br_gcd((x * pow2(k)) as nat, (y * pow2(k)) as nat) == br_gcd(x as nat, y as nat) * pow2(k),
    decreases k,
{
    vstd::arithmetic::power2::lemma_pow2_pos(k);
    assert(x * pow2(k) >= 0 && y * pow2(k) >= 0) by (nonlinear_arith) requires x >= 0, y >= 0, pow2(k) > 0;
    if k == 0 {
        vstd::arithmetic::power2::lemma2_to64();
        assert(x * 1 == x && y * 1 == y);
        assert(br_gcd(x as nat, y as nat) * 1 == br_gcd(x as nat, y as nat));
    } else {
        vstd::arithmetic::power2::lemma_pow2_unfold(k);
        vstd::arithmetic::power2::lemma_pow2_pos((k - 1) as nat);
        let p = pow2((k - 1) as nat) as int;
        let xx = x * p; let yy = y * p;
        assert(xx >= 0 && yy >= 0 && xx + yy > 0) by (nonlinear_arith) requires x >= 0, y >= 0, x + y > 0, p > 0, xx == x * p, yy == y * p;
        assert(x * pow2(k) == 2 * xx && y * pow2(k) == 2 * yy) by (nonlinear_arith)
            requires pow2(k) == 2 * p, xx == x * p, yy == y * p;
        lemma_br_gcd_scale_pow2(x, y, (k - 1) as nat);
        lemma_br_gcd_scale2(xx, yy);
        let g = br_gcd(x as nat, y as nat) as int;
        assert(2 * (g * p) == g * pow2(k)) by (nonlinear_arith) requires pow2(k) == 2 * p;
    }
}

/// a | b  ==>  gcd(a, b) == a
pub proof fn lemma_br_gcd_divides(a: int, b: int)
    requires a >= 1, b >= 0, b % a == 0,
    ensures br_gcd(a as nat, b as nat) == a, br_gcd(b as nat, a as nat) == a,
{
    lemma_br_div_self(a);
    assert forall|d: int| d >= 1 && #[trigger] (a % d) == 0 && b % d == 0 implies a % d == 0 by {}
    lemma_br_gcd_eq(a, a, b);
    lemma_br_gcd_sym(a, b);
}

/// the gcd of two numbers with their powers of two split off:
///   a == ao * 2^i, b == bo * 2^j (ao, bo odd), s == min(i, j)  ==>  gcd(a, b) == gcd(ao, bo) * 2^s
pub proof fn lemma_br_gcd_split_pow2(a: int, b: int, ao: int, bo: int, i: nat, j: nat, s: nat)
    requires ao >= 1, bo >= 1, ao % 2 == 1, bo % 2 == 1, a == ao * pow2(i), b == bo * pow2(j),
        s == (if i <= j { i } else { j }),
    ensures a >= 1, b >= 1, br_gcd(a as nat, b as nat) == br_gcd(ao as nat, bo as nat) * pow2(s),
{
    vstd::arithmetic::power2::lemma_pow2_pos(i);
    vstd::arithmetic::power2::lemma_pow2_pos(j);
    assert(a >= 1) by (nonlinear_arith) requires a == ao * pow2(i), ao >= 1, pow2(i) >= 1;
    assert(b >= 1) by (nonlinear_arith) requires b == bo * pow2(j), bo >= 1, pow2(j) >= 1;
    if i <= j {
        let m = (j - i) as nat;
        vstd::arithmetic::power2::lemma_pow2_adds(m, i);
        vstd::arithmetic::power2::lemma_pow2_pos(m);
        let bb = bo * pow2(m);
        assert(b == bb * pow2(i)) by (nonlinear_arith) requires b == bo * pow2(j), pow2(j) == pow2(m) * pow2(i), bb == bo * pow2(m);
        assert(bb >= 1) by (nonlinear_arith) requires bb == bo * pow2(m), bo >= 1, pow2(m) >= 1;
        lemma_br_gcd_scale_pow2(ao, bb, i);
        // gcd(ao, bo * 2^m) == gcd(ao, bo)
        lemma_br_gcd_strip_pow2(bo, m, ao);
        lemma_br_gcd_sym(ao, bb);
        lemma_br_gcd_sym(ao, bo);
    } else {
        let m = (i - j) as nat;
        vstd::arithmetic::power2::lemma_pow2_adds(m, j);
        vstd::arithmetic::power2::lemma_pow2_pos(m);
        let aa = ao * pow2(m);
        assert(a == aa * pow2(j)) by (nonlinear_arith) requires a == ao * pow2(i), pow2(i) == pow2(m) * pow2(j), aa == ao * pow2(m);
        assert(aa >= 1) by (nonlinear_arith) requires aa == ao * pow2(m), ao >= 1, pow2(m) >= 1;
        lemma_br_gcd_scale_pow2(aa, bo, j);
        lemma_br_gcd_strip_pow2(ao, m, bo);
    }
}

/// Bezout: a positive common divisor that is an integer combination is THE greatest common divisor
pub proof fn lemma_br_bezout_is_gcd(g: int, a: int, b: int, s: int, t: int)
    requires g >= 1, a % g == 0, b % g == 0, s * a + t * b == g,
    ensures br_is_gcd(g, a, b),
{
    assert forall|d: int| d >= 1 && #[trigger] (a % d) == 0 && b % d == 0 implies g % d == 0 by {
        lemma_br_div_mul(d, t, b);
        lemma_br_div_comb(d, s, a, t * b);
    }
}
