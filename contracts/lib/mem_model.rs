// ---- mem_model.rs: CAPACITY-TRACKING model of integer/src/memory.rs (units int_memsize_*).  Needs lib/prelude.rs and
// lib/mem_layout_@BITS@.rs (size / alignment of Word).  Word = @W@.
//
// Unlike lib/mulalg_stubs.rs / mul_glue_stubs.rs / div_post_spec.rs / mod2_mem.rs / gcdo_ops_stubs.rs (where the scratch
// area is opaque and `allocate_slice_*` always succeeds) every chunk of memory here carries its two ADDRESSES, and the
// allocation methods REQUIRE that the request fits: this is exactly the condition under which the real
// `try_find_memory_for_slice` (memory.rs:183) returns `Some`, i.e. under which `allocate_slice_initialize` does not panic
// with "internal error: not enough memory allocated".
//
// TRUSTED (raw-pointer code, cannot be seen by Verus; backed by the Kani group int_memsize_model on the real memory.rs):
//   Memory { start, end }                      two addresses, start <= end  (memory.rs:14)
//   try_find_memory_for_slice::<T>(n)          padding = (-start) mod align_of::<T>();  slice_start = start + padding;
//                                              slice_end = slice_start + n * size_of::<T>();  Some iff slice_end <= end
//                                              (every step `checked_*`: an overflow means slice_end > usize::MAX >= end)
//   allocate_slice_initialize                  panics iff None; returns (slice of n elements, Memory { slice_end, end });
//                                              `self` is not modified
//   MemoryAllocation::new(layout)              start = layout.align() if size == 0, else alloc(layout) which is aligned to
//                                              layout.align() (GlobalAlloc contract); panics (documented: "try to allocate
//                                              too much memory" / "out of memory") instead of returning otherwise
//   MemoryAllocation::memory()                 Memory { start, start + layout.size() }
//   zero_layout / array_layout / add_layout / max_layout  =  Layout::from_size_align(0, 1) / Layout::array::<T>(n) /
//                                              a.extend(b).0 / from_size_align(max sizes, max aligns)  (core::alloc::Layout);
//                                              each PANICS ("try to allocate too much memory") instead of returning when the
//                                              size overflows isize: the contracts below speak about normal returns.
use vstd::layout::*;

// ------------------------------------------------------------------------------------------------------- Layout
/// core::alloc::Layout: a (size, align) pair
#[verifier::external_body]
pub struct Layout { _p: u8 }
impl Layout {
    pub uninterp spec fn sz(&self) -> nat;
    pub uninterp spec fn al(&self) -> nat;
}
impl Clone for Layout {
    #[verifier::external_body]
    fn clone(&self) -> (r: Layout) ensures r == *self { unimplemented!() }
}
impl Copy for Layout {}

pub mod memory {
    use super::*;
    pub use super::Memory;
    pub use super::MemoryAllocation;
    /// memory.rs:200
    #[verifier::external_body]
    pub fn zero_layout() -> (r: Layout)
        ensures r.sz() == 0, r.al() == 1,
    { unimplemented!() }
    /// memory.rs:204 `Layout::array::<T>(n)` (panics when n * size_of::<T>() exceeds isize::MAX)
    #[verifier::external_body]
    pub fn array_layout<T>(n: usize) -> (r: Layout)
        ensures r.sz() == n * size_of::<T>(), r.al() == align_of::<T>(), r.sz() <= isize::MAX,
    { unimplemented!() }
    /// memory.rs:208 `a.extend(b)`: b placed after a at the next multiple of b's alignment
    #[verifier::external_body]
    pub fn add_layout(a: Layout, b: Layout) -> (r: Layout)
        ensures r.sz() == align_up(a.sz(), b.al()) + b.sz(), r.al() == (if a.al() >= b.al() { a.al() } else { b.al() }),
            r.sz() <= isize::MAX,
    { unimplemented!() }
    /// memory.rs:213
    #[verifier::external_body]
    pub fn max_layout(a: Layout, b: Layout) -> (r: Layout)
        ensures r.sz() == (if a.sz() >= b.sz() { a.sz() } else { b.sz() }),
            r.al() == (if a.al() >= b.al() { a.al() } else { b.al() }), r.sz() <= isize::MAX,
    { unimplemented!() }
}

// ------------------------------------------------------------------------------------------------------- allocation
#[verifier::external_body]
pub struct MemoryAllocation { _p: u8 }
impl MemoryAllocation {
    pub uninterp spec fn start(&self) -> nat;
    pub uninterp spec fn size(&self) -> nat;
    pub uninterp spec fn al(&self) -> nat;
    /// memory.rs:35
    #[verifier::external_body]
    pub fn new(layout: Layout) -> (r: MemoryAllocation)
        ensures r.size() == layout.sz(), r.al() == layout.al(), r.al() > 0 ==> r.start() % r.al() == 0,
            r.start() + r.size() <= usize::MAX,
    { unimplemented!() }
    /// memory.rs:55
    #[verifier::external_body]
    pub fn memory(&mut self) -> (m: Memory<'_>)
        ensures m.start() == old(self).start(), m.end() == old(self).start() + old(self).size(),
            final(self).start() == old(self).start(), final(self).size() == old(self).size(),
            final(self).al() == old(self).al(),
    { unimplemented!() }
}

// ------------------------------------------------------------------------------------------------------- chunk
#[verifier::external_body]
pub struct Memory<'a> { _p: &'a u8 }

/// the request `n` elements of type T fits into [start, end)   (memory.rs:183 try_find_memory_for_slice is `Some`)
pub open spec fn mem_fits<T>(start: nat, end: nat, n: nat) -> bool {
    align_up(start, align_of::<T>()) + n * size_of::<T>() <= end
}
/// start of the chunk that remains after the request
pub open spec fn mem_rest<T>(start: nat, n: nat) -> nat {
    align_up(start, align_of::<T>()) + n * size_of::<T>()
}

impl Memory<'_> {
    pub uninterp spec fn start(&self) -> nat;
    pub uninterp spec fn end(&self) -> nat;
    /// number of whole Words that can still be handed out (negative: not even an empty Word slice fits, because the
    /// aligned start lies behind the end; this happens for the chunk of `zero_layout()`, whose start is the address 1)
    pub open spec fn capw(&self) -> int {
        (self.end() as int - align_up(self.start(), wbytes()) as int) / (wbytes() as int)
    }
    /// memory.rs:79
    #[verifier::external_body]
    pub fn allocate_slice_fill<T: Copy>(&mut self, n: usize, val: T) -> (r: (&mut [T], Memory<'_>))
        requires mem_fits::<T>(old(self).start(), old(self).end(), n as nat),
        ensures r.0@.len() == n, forall|i: int| 0 <= i < n ==> r.0@[i] == val,
            r.1.start() == mem_rest::<T>(old(self).start(), n as nat), r.1.end() == old(self).end(),
            final(self).start() == old(self).start(), final(self).end() == old(self).end(),
    { unimplemented!() }
    /// memory.rs:99
    #[verifier::external_body]
    pub fn allocate_slice_copy<T: Copy>(&mut self, source: &[T]) -> (r: (&mut [T], Memory<'_>))
        requires mem_fits::<T>(old(self).start(), old(self).end(), source@.len()),
        ensures r.0@ == source@,
            r.1.start() == mem_rest::<T>(old(self).start(), source@.len()), r.1.end() == old(self).end(),
            final(self).start() == old(self).start(), final(self).end() == old(self).end(),
    { unimplemented!() }
    /// memory.rs:119 (its own `assert!(n >= source.len())` is the first precondition)
    #[verifier::external_body]
    pub fn allocate_slice_copy_fill<T: Copy>(&mut self, n: usize, source: &[T], val: T) -> (r: (&mut [T], Memory<'_>))
        requires n >= source@.len(), mem_fits::<T>(old(self).start(), old(self).end(), n as nat),
        ensures r.0@.len() == n,
            forall|i: int| 0 <= i < source@.len() ==> r.0@[i] == source@[i],
            forall|i: int| source@.len() <= i < n ==> r.0@[i] == val,
            r.1.start() == mem_rest::<T>(old(self).start(), n as nat), r.1.end() == old(self).end(),
            final(self).start() == old(self).start(), final(self).end() == old(self).end(),
    { unimplemented!() }
}

// ------------------------------------------------------------------------------------------------------- derived (PROVED)
/// `k` Words are available (k <= 0: nothing is asked for)
pub open spec fn mem_ok(m: Memory, k: int) -> bool { k <= 0 || m.capw() >= k }
/// the chunk is the same region
pub open spec fn mem_same(a: Memory, b: Memory) -> bool { a.start() == b.start() && a.end() == b.end() }

/// word-level view of one allocation of n Words from the chunk [s, e): it fits iff n <= capw, and the rest has capw - n
pub proof fn lemma_mem_take(s: nat, e: nat, n: nat)
    requires n as int <= (e as int - align_up(s, wbytes()) as int) / (wbytes() as int),
    ensures mem_fits::<Word>(s, e, n),
        (e as int - align_up(mem_rest::<Word>(s, n), wbytes()) as int) / (wbytes() as int)
            == (e as int - align_up(s, wbytes()) as int) / (wbytes() as int) - n,
{
    lemma_word_layout();
    lemma_take_arith(s as int, e as int, n as int);
}

/// a fresh allocation whose layout is aligned to a multiple of the Word size offers exactly size / wbytes Words
pub proof fn lemma_mem_fresh(s: nat, size: nat, al: nat)
    requires al > 0, al % wbytes() == 0, s % al == 0,
    ensures ((s + size) as int - align_up(s, wbytes()) as int) / (wbytes() as int) == size as int / (wbytes() as int),
{
    lemma_fresh_arith(s as int, al as int);
}
