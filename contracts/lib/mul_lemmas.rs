// ---- lemmas for integer/src/math.rs (mul_add_*) and integer/src/mul/{mod,simple}.rs -------------

/// product of two words fits a double word with room for two more words:
/// a·b + 2·(B−1) <= B² − 1
pub proof fn lemma_mul_word_bound(a: int, b: int)
    requires 0 <= a < B(), 0 <= b < B(),
    ensures 0 <= a * b, a * b + 2 * (B() - 1) <= B() * B() - 1,
{
    let m = B() - 1;
    assert(0 <= a * b) by (nonlinear_arith) requires 0 <= a, 0 <= b;
    assert(a * b <= m * m) by (nonlinear_arith) requires 0 <= a <= m, 0 <= b <= m;
    assert(m * m + 2 * m == (m + 1) * (m + 1) - 1) by (nonlinear_arith);
}

/// (x0 + x1·b)(y0 + y1·b) expanded
pub proof fn lemma_dword_product(x0: int, x1: int, y0: int, y1: int, b: int)
    ensures (x0 + x1 * b) * (y0 + y1 * b) == x0 * y0 + (x1 * y0 + x0 * y1) * b + (x1 * y1) * (b * b),
{
    let y = y0 + y1 * b;
    let x1b = x1 * b;
    let y1b = y1 * b;
    assert((x0 + x1b) * y == x0 * y + x1b * y) by (nonlinear_arith);
    assert(x0 * (y0 + y1b) == x0 * y0 + x0 * y1b) by (nonlinear_arith);
    assert(x1b * (y0 + y1b) == x1b * y0 + x1b * y1b) by (nonlinear_arith);
    assert(x0 * (y1 * b) == (x0 * y1) * b) by (nonlinear_arith);
    assert((x1 * b) * y0 == (x1 * y0) * b) by (nonlinear_arith);
    assert((x1 * b) * (y1 * b) == (x1 * y1) * (b * b)) by (nonlinear_arith);
    assert((x1 * y0 + x0 * y1) * b == (x1 * y0) * b + (x0 * y1) * b) by (nonlinear_arith);
}

/// the four partial products of mul_add_carry_dword, with the products named so that the
/// combination step is linear in everything but the weight b
pub proof fn lemma_dword_combine(p00: int, p10: int, p01: int, p11: int, ic0: int, ic1: int,
    z0: int, c0: int, z1a: int, c1a: int, z1: int, c1b: int, z2: int, z3: int, b: int)
    requires
        z0 + c0 * b == p00 + ic0,
        z1a + c1a * b == p10 + c0,
        z1 + c1b * b == p01 + z1a + ic1,
        z2 + z3 * b == p11 + c1a + c1b,
    ensures (z0 + z1 * b) + (z2 + z3 * b) * (b * b) == p00 + (p10 + p01) * b + p11 * (b * b) + (ic0 + ic1 * b),
{
    // row 1 and 2 times b, row 3 times b²
    assert((z1a + c1a * b) * b == z1a * b + c1a * (b * b)) by (nonlinear_arith);
    assert((p10 + c0) * b == p10 * b + c0 * b) by (nonlinear_arith);
    assert((z1 + c1b * b) * b == z1 * b + c1b * (b * b)) by (nonlinear_arith);
    assert((p01 + z1a + ic1) * b == p01 * b + z1a * b + ic1 * b) by (nonlinear_arith);
    assert((p11 + c1a + c1b) * (b * b) == p11 * (b * b) + c1a * (b * b) + c1b * (b * b)) by (nonlinear_arith);
    assert((p10 + p01) * b == p10 * b + p01 * b) by (nonlinear_arith);
}

pub proof fn lemma_mul_dword_schoolbook(x0: int, x1: int, y0: int, y1: int, ic0: int, ic1: int,
    z0: int, c0: int, z1a: int, c1a: int, z1: int, c1b: int, z2: int, z3: int, b: int)
    requires
        z0 + c0 * b == x0 * y0 + ic0,
        z1a + c1a * b == x1 * y0 + c0,
        z1 + c1b * b == x0 * y1 + z1a + ic1,
        z2 + z3 * b == x1 * y1 + c1a + c1b,
    ensures (z0 + z1 * b) + (z2 + z3 * b) * (b * b) == (x0 + x1 * b) * (y0 + y1 * b) + (ic0 + ic1 * b),
{
    lemma_dword_product(x0, x1, y0, y1, b);
    lemma_dword_combine(x0 * y0, x1 * y0, x0 * y1, x1 * y1, ic0, ic1, z0, c0, z1a, c1a, z1, c1b, z2, z3, b);
}

// ---- one column of a word-by-vector product ------------------------------------------------------

/// words·r + c:   (V0 + c·p == O0·r + c0)  and  lo + hi·B == a·r + c
///            ==> (V0 + lo·p) + hi·(B·p) == (O0 + a·p)·r + c0
pub proof fn lemma_mul_col(v0: int, o0: int, lo: int, hi: int, a: int, r: int, c: int, c0: int, p: int)
    requires v0 + c * p == o0 * r + c0, lo + hi * B() == a * r + c,
    ensures (v0 + lo * p) + hi * (B() * p) == (o0 + a * p) * r + c0,
{
    assert((lo + hi * B()) * p == lo * p + hi * (B() * p)) by (nonlinear_arith);
    assert((a * r + c) * p == (a * p) * r + c * p) by (nonlinear_arith);
    assert((o0 + a * p) * r == o0 * r + (a * p) * r) by (nonlinear_arith);
}

/// words + m·rhs:  (V0 + c·p == O0 + m·R0)  and  lo + hi·B == m·b + a + c
///            ==>  (V0 + lo·p) + hi·(B·p) == (O0 + a·p) + m·(R0 + b·p)
pub proof fn lemma_addmul_col(v0: int, o0: int, r0: int, lo: int, hi: int, m: int, b: int, a: int, c: int, p: int)
    requires v0 + c * p == o0 + m * r0, lo + hi * B() == m * b + a + c,
    ensures (v0 + lo * p) + hi * (B() * p) == (o0 + a * p) + m * (r0 + b * p),
{
    assert((lo + hi * B()) * p == lo * p + hi * (B() * p)) by (nonlinear_arith);
    assert((m * b + a + c) * p == m * (b * p) + a * p + c * p) by (nonlinear_arith);
    assert(m * (r0 + b * p) == m * r0 + m * (b * p)) by (nonlinear_arith);
}

/// words − m·rhs with borrow k = MAX − cpm (cpm: carry_plus_max):
///   (V0 − k·p == O0 − m·R0)  and  lo + hi·B == a + (MAX − k) + MAX·B − MAX − m·b,   k' = MAX − hi
///   ==> (V0 + lo·p) − k'·(B·p) == (O0 + a·p) − m·(R0 + b·p)
pub proof fn lemma_submul_col(v0: int, o0: int, r0: int, lo: int, hi: int, m: int, b: int, a: int, k: int, k1: int, p: int)
    requires v0 - k * p == o0 - m * r0, lo + hi * B() == a + ((B() - 1) - k) + (B() - 1) * B() - (B() - 1) - m * b,
        k1 == (B() - 1) - hi,
    ensures (v0 + lo * p) - k1 * (B() * p) == (o0 + a * p) - m * (r0 + b * p),
{
    // lo − k1·B == a − k − m·b
    assert(lo - k1 * B() == a - k - m * b) by (nonlinear_arith)
        requires lo + hi * B() == a + ((B() - 1) - k) + (B() - 1) * B() - (B() - 1) - m * b, k1 == (B() - 1) - hi;
    assert((lo - k1 * B()) * p == lo * p - k1 * (B() * p)) by (nonlinear_arith);
    assert((a - k - m * b) * p == a * p - k * p - m * (b * p)) by (nonlinear_arith);
    assert(m * (r0 + b * p) == m * r0 + m * (b * p)) by (nonlinear_arith);
}

/// no intermediate of  a + cpm + (MAX·B − MAX) − m·b  leaves the DoubleWord range
pub proof fn lemma_submul_range(a: int, cpm: int, m: int, b: int)
    requires 0 <= a < B(), 0 <= cpm < B(), 0 <= m < B(), 0 <= b < B(),
    ensures 0 <= m * b, m * b <= (B() - 1) * B() - (B() - 1),
        a + cpm + ((B() - 1) * B() - (B() - 1)) <= B() * B() - 1,
{
    lemma_mul_word_bound(m, b);
    let x = B() - 1;
    assert(x * B() - x == x * x) by (nonlinear_arith) requires x == B() - 1;
    assert(m * b <= x * x) by (nonlinear_arith) requires 0 <= m <= x, 0 <= b <= x;
    assert(x * B() + x == B() * B() - 1) by (nonlinear_arith) requires x == B() - 1;
}

// ---- generic facts -------------------------------------------------------------------------------

/// value of a window s[k..k+n) seen as its own slice
pub proof fn lemma_valn_window(s: Seq<Word>, k: int, n: int)
    requires 0 <= k, 0 <= n, k + n <= s.len(),
    ensures valn(s, k + n) == valn(s, k) + pw(k) * val(s.subrange(k, k + n)),
{
    lemma_valn_split(s, k, k + n);
    lemma_valn_ext(s.subrange(k, s.len() as int), s.subrange(k, k + n), n);
}

/// low part absorbed x with word carry c (weight q), c added into the high part with carry cout (weight p)
pub proof fn lemma_addmul_hi(lo1: int, lo0: int, x: int, c: int, hi1: int, hi0: int, cout: int, q: int, p: int)
    requires lo1 + c * q == lo0 + x, hi1 + cout * p == hi0 + c,
    ensures (lo1 + q * hi1) + cout * (q * p) == (lo0 + q * hi0) + x,
{
    assert(q * (hi1 + cout * p) == q * hi1 + cout * (q * p)) by (nonlinear_arith);
    assert(q * (hi0 + c) == q * hi0 + c * q) by (nonlinear_arith);
}

// ---- rows of the schoolbook product (mul/simple.rs) -----------------------------------------------

/// row i of c ±= a·b: the window c[i..i+n) is updated (c0 -> c1), then the word c[i+n] (c1 -> c2)
pub proof fn lemma_mul_row_frame(c0: Seq<Word>, c1: Seq<Word>, c2: Seq<Word>, i: int, n: int)
    requires 0 <= i, 0 <= n, i + n < c0.len(), c1.len() == c0.len(), c2.len() == c0.len(),
        forall|j: int| 0 <= j < i ==> c1[j] == c0[j],
        forall|j: int| 0 <= j < i + n ==> c2[j] == c1[j],
    ensures
        valn(c0, n + i) == valn(c0, i) + pw(i) * val(c0.subrange(i, i + n)),
        valn(c2, n + i) == valn(c0, i) + pw(i) * val(c1.subrange(i, i + n)),
        valn(c2, n + i + 1) == valn(c2, n + i) + (c2[n + i] as int) * pw(n + i),
        pw(n + i) == pw(i) * pw(n),
        pw(n + i + 1) == B() * pw(n + i),
{
    lemma_valn_window(c0, i, n);
    lemma_valn_window(c2, i, n);
    assert(c2.subrange(i, i + n) =~= c1.subrange(i, i + n));
    lemma_valn_ext(c2, c0, i);
    lemma_pw_add(i, n);
}

/// algebra of one row of c += a·b
///   x0 = valn(c0,n+i), x2 = valn(c2,n+i), l0 = valn(c0,i), w0/w1 = window before/after, o = valn(old,n+i),
///   t = c0[n+i] = old[n+i], s = c2[n+i], cw = carry word of the row, k0/k1 = carry bit before/after
pub proof fn lemma_addmul_row(x0: int, x2: int, l0: int, w0: int, w1: int, o: int, t: int, s: int, cw: int,
    k0: int, k1: int, a: int, bi: int, m: int, p: int, q: int)
    requires x0 == l0 + p * w0, x2 == l0 + p * w1, w1 + cw * q == w0 + m * a,
        s + k1 * B() == t + cw + k0, x0 + k0 * (p * q) == o + a * bi,
    ensures (x2 + s * (p * q)) + k1 * (B() * (p * q)) == (o + t * (p * q)) + a * (bi + m * p),
{
    assert(p * (w1 + cw * q) == p * w1 + cw * (p * q)) by (nonlinear_arith);
    assert(p * (w0 + m * a) == p * w0 + a * (m * p)) by (nonlinear_arith);
    assert((s + k1 * B()) * (p * q) == s * (p * q) + k1 * (B() * (p * q))) by (nonlinear_arith);
    assert((t + cw + k0) * (p * q) == t * (p * q) + cw * (p * q) + k0 * (p * q)) by (nonlinear_arith);
    assert(a * (bi + m * p) == a * bi + a * (m * p)) by (nonlinear_arith);
}

/// algebra of one row of c −= a·b
pub proof fn lemma_submul_row(x0: int, x2: int, l0: int, w0: int, w1: int, o: int, t: int, s: int, cw: int,
    k0: int, k1: int, a: int, bi: int, m: int, p: int, q: int)
    requires x0 == l0 + p * w0, x2 == l0 + p * w1, w1 - cw * q == w0 - m * a,
        s - k1 * B() == t - cw - k0, x0 - k0 * (p * q) == o - a * bi,
    ensures (x2 + s * (p * q)) - k1 * (B() * (p * q)) == (o + t * (p * q)) - a * (bi + m * p),
{
    assert(p * (w1 - cw * q) == p * w1 - cw * (p * q)) by (nonlinear_arith);
    assert(p * (w0 - m * a) == p * w0 - a * (m * p)) by (nonlinear_arith);
    assert((s - k1 * B()) * (p * q) == s * (p * q) - k1 * (B() * (p * q))) by (nonlinear_arith);
    assert((t - cw - k0) * (p * q) == t * (p * q) - cw * (p * q) - k0 * (p * q)) by (nonlinear_arith);
    assert(a * (bi + m * p) == a * bi + a * (m * p)) by (nonlinear_arith);
}

/// row i of c += a·b on sequences: re-establishes the loop invariant of add_mul_chunk for i + 1
pub proof fn lemma_addmul_row_seq(c0: Seq<Word>, c1: Seq<Word>, c2: Seq<Word>, o: Seq<Word>, a: Seq<Word>,
    b: Seq<Word>, i: int, cw: int, k0: int, k1: int)
    requires 0 <= i < b.len(), c0.len() == a.len() + b.len(), c1.len() == c0.len(), c2.len() == c0.len(),
        o.len() == c0.len(),
        forall|j: int| 0 <= j < i ==> c1[j] == c0[j],
        forall|j: int| 0 <= j < i + a.len() ==> c2[j] == c1[j],
        c1[a.len() + i] == c0[a.len() + i], c0[a.len() + i] == o[a.len() + i],
        val(c1.subrange(i, i + a.len())) + cw * pw(a.len() as int)
            == val(c0.subrange(i, i + a.len())) + (b[i] as int) * val(a),
        c2[a.len() + i] as int + k1 * B() == c1[a.len() + i] as int + cw + k0,
        valn(c0, a.len() + i) + k0 * pw(a.len() + i) == valn(o, a.len() + i) + val(a) * valn(b, i),
    ensures
        valn(c2, a.len() + i + 1) + k1 * pw(a.len() + i + 1) == valn(o, a.len() + i + 1) + val(a) * valn(b, i + 1),
{
    let n = a.len() as int;
    lemma_mul_row_frame(c0, c1, c2, i, n);
    assert(valn(o, n + i + 1) == valn(o, n + i) + (o[n + i] as int) * pw(n + i));
    assert(valn(b, i + 1) == valn(b, i) + (b[i] as int) * pw(i));
    lemma_addmul_row(valn(c0, n + i), valn(c2, n + i), valn(c0, i), val(c0.subrange(i, i + n)),
        val(c1.subrange(i, i + n)), valn(o, n + i), c0[n + i] as int, c2[n + i] as int, cw, k0, k1,
        val(a), valn(b, i), b[i] as int, pw(i), pw(n));
}

/// row i of c −= a·b on sequences
pub proof fn lemma_submul_row_seq(c0: Seq<Word>, c1: Seq<Word>, c2: Seq<Word>, o: Seq<Word>, a: Seq<Word>,
    b: Seq<Word>, i: int, cw: int, k0: int, k1: int)
    requires 0 <= i < b.len(), c0.len() == a.len() + b.len(), c1.len() == c0.len(), c2.len() == c0.len(),
        o.len() == c0.len(),
        forall|j: int| 0 <= j < i ==> c1[j] == c0[j],
        forall|j: int| 0 <= j < i + a.len() ==> c2[j] == c1[j],
        c1[a.len() + i] == c0[a.len() + i], c0[a.len() + i] == o[a.len() + i],
        val(c1.subrange(i, i + a.len())) - cw * pw(a.len() as int)
            == val(c0.subrange(i, i + a.len())) - (b[i] as int) * val(a),
        c2[a.len() + i] as int - k1 * B() == c1[a.len() + i] as int - cw - k0,
        valn(c0, a.len() + i) - k0 * pw(a.len() + i) == valn(o, a.len() + i) - val(a) * valn(b, i),
    ensures
        valn(c2, a.len() + i + 1) - k1 * pw(a.len() + i + 1) == valn(o, a.len() + i + 1) - val(a) * valn(b, i + 1),
{
    let n = a.len() as int;
    lemma_mul_row_frame(c0, c1, c2, i, n);
    assert(valn(o, n + i + 1) == valn(o, n + i) + (o[n + i] as int) * pw(n + i));
    assert(valn(b, i + 1) == valn(b, i) + (b[i] as int) * pw(i));
    lemma_submul_row(valn(c0, n + i), valn(c2, n + i), valn(c0, i), val(c0.subrange(i, i + n)),
        val(c1.subrange(i, i + n)), valn(o, n + i), c0[n + i] as int, c2[n + i] as int, cw, k0, k1,
        val(a), valn(b, i), b[i] as int, pw(i), pw(n));
}
