// ---- conv_sign_float.rs: base/src/sign.rs `impl Mul<f32> for Sign`, `impl Mul<f64> for Sign`
// (`match self { Positive => rhs, Negative => -rhs }`).  TRUSTED: IEEE negation flips the sign bit and nothing else.
// Needs `Sign`, conv_float.rs, `use core::ops::Mul; use vstd::std_specs::ops::*;`.
pub uninterp spec fn f32_neg(x: f32) -> f32;
pub uninterp spec fn f64_neg(x: f64) -> f64;
pub broadcast axiom fn ax_f32_neg(x: f32)
    ensures fields32(#[trigger] f32_neg(x)) == (Fields { sbit: !fields32(x).sbit, eb: fields32(x).eb, frac: fields32(x).frac });
pub broadcast axiom fn ax_f64_neg(x: f64)
    ensures fields64(#[trigger] f64_neg(x)) == (Fields { sbit: !fields64(x).sbit, eb: fields64(x).eb, frac: fields64(x).frac });
impl Mul<f32> for Sign {
    type Output = f32;
    #[verifier::external_body]
    fn mul(self, rhs: f32) -> f32 { unimplemented!() }
}
impl MulSpecImpl<f32> for Sign {
    open spec fn obeys_mul_spec() -> bool { true }
    open spec fn mul_req(self, rhs: f32) -> bool { true }
    open spec fn mul_spec(self, rhs: f32) -> f32 { if self == Sign::Negative { f32_neg(rhs) } else { rhs } }
}
impl Mul<f64> for Sign {
    type Output = f64;
    #[verifier::external_body]
    fn mul(self, rhs: f64) -> f64 { unimplemented!() }
}
impl MulSpecImpl<f64> for Sign {
    open spec fn obeys_mul_spec() -> bool { true }
    open spec fn mul_req(self, rhs: f64) -> bool { true }
    open spec fn mul_spec(self, rhs: f64) -> f64 { if self == Sign::Negative { f64_neg(rhs) } else { rhs } }
}
