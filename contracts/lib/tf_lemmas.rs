// ---- tf_lemmas.rs: specification and lemmas of unit ratio_to_fbig (rational/src/third_party/dashu_float.rs
// `Repr::to_float`: a rational rounded ONCE to a float of `precision` digits, C06).  Nothing trusted here.
// Needs round_prelude.rs, round_int_stubs.rs, round_float_repr.rs, conv_fbig_stubs.rs, farith_lemmas.rs.

/// base/src/approx.rs `Approximation::value` as a spec function (used by the contract of `Approximation::map`)
pub open spec fn rd_val0<T, E>(r: Approximation<T, E>) -> T { match r { Approximation::Exact(v) => v, Approximation::Inexact(v, _) => v } }

pub open spec fn is_half(m: Mode) -> bool { match m { Mode::HalfEven => true, Mode::HalfAway => true, _ => false } }
pub open spec fn sgn3i(a: int) -> int { if a < 0 { -1 } else if a == 0 { 0 } else { 1 } }

// ------------------------------------------------------------------------------------------------------------------
// C06 for rational -> float.  The exact value is x = N / D (D > 0).  For nat s, k the number x / b^(k - s) is the fraction
//     X / Dn   with   X = N * b^s,  Dn = D * b^k.
// (s, k, mm) witnesses "ret is x rounded once to p digits" when
//   * b^(p-1) <= |X / Dn| < b^p : b^(k - s) is the unit in the last place of x at precision p (this fixes k - s),
//   * mm is THE rounding of X / Dn to an integer under the mode (lib/round_prelude.rs round_def: error < 1 unit on the
//     side the mode prescribes, <= 1/2 unit with the mode's tie rule for the Half modes),
//   * the returned float is mm * b^(k - s)   (|mm| <= b^p: p digits, or exactly b^p after a carry),
//   * the flag tells the truth: Exact means the float equals x; Inexact(adj) means it differs and adj = mm - trunc(X / Dn).
pub open spec fn ratio_round_wit<const B: Word>(m: Mode, b: int, p: nat, N: int, D: int, s: nat, k: nat, mm: int, ret: Rounded<Repr<B>>) -> bool {
    let X = N * ipow(b, s);
    let Dn = D * ipow(b, k);
    let r = rd_val(ret);
    &&& ipow(b, (p - 1) as nat) * Dn <= iabs(X) && iabs(X) < ipow(b, p) * Dn
    &&& round_def(m, X, Dn, mm)
    &&& same_value(b, r.significand.v(), r.exponent as int, mm, k - s)
    &&& match ret {
            Approximation::Exact(_) => mm * Dn == X,
            Approximation::Inexact(_, adj) => mm * Dn != X && round_def(Mode::Zero, X, Dn, mm - adj_int(adj)),
        }
}
pub open spec fn ratio_round_once<const B: Word>(m: Mode, b: int, p: nat, N: int, D: int, ret: Rounded<Repr<B>>) -> bool {
    if N == 0 {
        ret matches Approximation::Exact(r) && r.significand.v() == 0 && r.exponent == 0
    } else {
        exists|s: nat, k: nat, mm: int| #[trigger] ratio_round_wit(m, b, p, N, D, s, k, mm, ret)
    }
}
/// N / D == mant * b^(k - s) with |mant| < b^p: the rational is a float of at most p digits
pub open spec fn tf_repr_wit(b: int, p: nat, N: int, D: int, mant: int, s: nat, k: nat) -> bool {
    iabs(mant) < ipow(b, p) && N * ipow(b, s) == mant * (D * ipow(b, k))
}
pub open spec fn ratio_representable(b: int, p: nat, N: int, D: int) -> bool {
    exists|mant: int, s: nat, k: nat| #[trigger] tf_repr_wit(b, p, N, D, mant, s, k)
}

/// precondition of `Repr::to_float` (and of the two forwarding methods)
pub open spec fn tf_to_float_req(m: Mode, B: Word, precision: usize, N: int, D: int) -> bool {
    &&& B >= 2
    &&& precision > 0                                    // `assert!(precision > 0)`: panics otherwise
    &&& D > 0                                            // type invariant of the rational Repr (denominator is never zero)
    // KNOWN FINDING (genuine defect of the repaired code, reproduced natively): for an ODD base and the modes
    // HalfEven / HalfAway the sticky digit does not preserve the comparison with 1/2 (1/2 = 0.hhh.. with h = (B-1)/2):
    // RBig 127/26 .to_float::<HalfAway, 3>(1) returns 1*3^1, correct is 2*3^1.  Excluded until /repo is repaired.
    &&& (B % 2 == 0 || !is_half(m))
    // machine ranges (overflow of usize / isize is outside this contract)
    &&& precision < 0x1000_0000_0000_0000
    &&& ndigits(B as int, N) < 0x1000_0000_0000_0000
    &&& ndigits(B as int, D) < 0x1000_0000_0000_0000
}

/// a result of `Repr::new` inside `repr_round`: zero is (0, 0), otherwise the last digit is non-zero
pub open spec fn tf_inexact_normalized<const B: Word>(b: int, ret: Rounded<Repr<B>>) -> bool {
    ret matches Approximation::Inexact(r, _) ==>
        (r.significand.v() == 0 ==> r.exponent == 0) && (r.significand.v() != 0 ==> r.significand.v() % b != 0)
}
/// the float of an integer: zero is (0, 0), otherwise the exponent is not negative
pub open spec fn tf_int_repr<const B: Word>(r: Repr<B>) -> bool {
    (r.significand.v() == 0 ==> r.exponent == 0) && (r.significand.v() != 0 ==> r.exponent >= 0)
}
pub open spec fn tf_sh<const B: Word>(a: Repr<B>, c: Repr<B>, t: int) -> bool {
    c.significand.v() == a.significand.v() && (a.significand.v() == 0 ==> c.exponent == a.exponent)
        && (a.significand.v() != 0 ==> c.exponent == a.exponent - t)
}
/// ret is ret1 with the exponent lowered by t (zero untouched), same flag
pub open spec fn tf_shifted<const B: Word>(ret1: Rounded<Repr<B>>, ret: Rounded<Repr<B>>, t: int) -> bool {
    match (ret1, ret) {
        (Approximation::Exact(a), Approximation::Exact(c)) => tf_sh(a, c, t),
        (Approximation::Inexact(a, e1), Approximation::Inexact(c, e2)) => e1 == e2 && tf_sh(a, c, t),
        _ => false,
    }
}

// ------------------------------------------------------------------------------------------------------------------
// small arithmetic facts

pub proof fn lemma_tf_abs_mul(x: int, y: int)
    ensures iabs(x * y) == iabs(x) * iabs(y)
{
    let (ax, ay, xy) = (iabs(x), iabs(y), x * y);
    assert(iabs(xy) == ax * ay) by (nonlinear_arith)
        requires xy == x * y, ax == (if x < 0 { -x } else { x }), ay == (if y < 0 { -y } else { y });
}
/// floor logarithm k of |v| gives k + 1 digits
pub proof fn lemma_tf_ilog_digits(b: int, v: int, k: nat)
    requires b >= 2, ipow(b, k) <= iabs(v), iabs(v) < ipow(b, k + 1)
    ensures ndigits(b, v) == k + 1
{
    assert(((k + 1) - 1) as nat == k);
    lemma_ndigits_unique(b, v, k + 1);
}
/// truncating division by a positive divisor: quotient and remainder do not have opposite signs, |n| = |q| d + |r|
pub proof fn lemma_tf_sign(n: int, d: int, q: int, r: int)
    requires d > 0, is_trunc_divrem(n, d, q, r)
    ensures q == 0 || r == 0 || ((q > 0) == (r > 0)),
        q != 0 ==> ((q > 0) == (n > 0)),
        iabs(n) == iabs(q) * d + iabs(r),
{
    let qd = q * d;
    assert(q >= 1 ==> qd >= d) by (nonlinear_arith) requires qd == q * d, d > 0;
    assert(q <= -1 ==> qd <= -d) by (nonlinear_arith) requires qd == q * d, d > 0;
    assert(q == 0 ==> qd == 0) by (nonlinear_arith) requires qd == q * d;
    lemma_tf_abs_mul(q, d);
}

/// scaling numerator and denominator by c > 0 does not change the rounding
pub proof fn lemma_tf_round_scale(m: Mode, X: int, D: int, c: int, r: int)
    requires D > 0, c > 0, round_def(m, X, D, r)
    ensures round_def(m, X * c, D * c, r), (r * D == X) == (r * (D * c) == X * c)
{
    let R = r * D;
    let (X2, D2) = (X * c, D * c);
    let R2 = r * D2;
    assert(R2 == R * c) by (nonlinear_arith) requires R2 == r * D2, D2 == D * c, R == r * D;
    let e = R - X;
    let e2 = R2 - X2;
    assert(e2 == e * c) by (nonlinear_arith) requires e2 == R2 - X2, R2 == R * c, X2 == X * c, e == R - X;
    assert(-D2 < e2 && e2 < D2) by (nonlinear_arith) requires e2 == e * c, D2 == D * c, -D < e, e < D, c > 0;
    assert((e == 0) == (e2 == 0)) by (nonlinear_arith) requires e2 == e * c, c > 0;
    assert((e > 0) == (e2 > 0)) by (nonlinear_arith) requires e2 == e * c, c > 0;
    assert((X > 0) == (X2 > 0) && (X < 0) == (X2 < 0)) by (nonlinear_arith) requires X2 == X * c, c > 0;
    assert((R > 0) == (R2 > 0) && (R < 0) == (R2 < 0)) by (nonlinear_arith) requires R2 == R * c, c > 0;
    let (a, a2) = (iabs(e), iabs(e2));
    assert(a2 == a * c) by (nonlinear_arith) requires e2 == e * c, c > 0, a == (if e < 0 { -e } else { e }), a2 == (if e2 < 0 { -e2 } else { e2 });
    assert((2 * a <= D) == (2 * a2 <= D2) && (2 * a == D) == (2 * a2 == D2)) by (nonlinear_arith)
        requires a2 == a * c, D2 == D * c, c > 0;
}

// ------------------------------------------------------------------------------------------------------------------
// THE KEY LEMMA: a sticky digit below a guard digit preserves the rounding decision.
//
// q0 = trunc(x') and r != 0 the remainder of an exact value x' = q0 + r/D.  The code forms the integer q = q0*b + sgn(r)
// (one more digit: "sticky") and rounds q / (b*U) where U is a positive power of b (the rounding position is at least
// two digits above the sticky digit).  Claim: the integer mm and the flag adj obtained for q / (b*U) are the rounding and
// the flag of the exact x' / U = (q0*D + r) / (D*U)  --  for the directional modes in every base, for the Half modes in an
// EVEN base (in an odd base 1/2 = 0.hhh.., h = (b-1)/2, and a guard digit h followed by a sticky 1 is taken for "below
// 1/2" whatever r/D is).

/// for the four directional modes the decision does not depend on the comparison with 1/2
pub proof fn lemma_tf_mode_dir(m: Mode, i: int, s: Sign, o1: Ordering, o2: Ordering, adj: Rounding)
    requires !is_half(m)
    ensures mode_ok(m, i, s, o1, adj) == mode_ok(m, i, s, o2, adj)
{
}

pub proof fn lemma_tf_sticky(m: Mode, b: int, D: int, q0: int, r: int, U: int, mm: int, adj: Rounding)
    requires b >= 2, D >= 1, U >= 1, U % b == 0, b % 2 == 0 || !is_half(m),
        r != 0, -D < r, r < D, q0 == 0 || ((q0 > 0) == (r > 0)),
        round_def(m, q0 * b + sgn3i(r), b * U, mm),
        round_def(Mode::Zero, q0 * b + sgn3i(r), b * U, mm - adj_int(adj)),
    ensures
        round_def(m, q0 * D + r, D * U, mm),
        round_def(Mode::Zero, q0 * D + r, D * U, mm - adj_int(adj)),
        mm * (D * U) != q0 * D + r,
{
    let sg = sgn3i(r);
    // q0 == i*U + l, truncating
    let a = iabs(q0);
    let ai = a / U;
    let al = a % U;
    vstd::arithmetic::div_mod::lemma_fundamental_div_mod(a, U);
    vstd::arithmetic::div_mod::lemma_mod_bound(a, U);
    vstd::arithmetic::div_mod::lemma_div_pos_is_pos(a, U);
    let i = if q0 < 0 { -ai } else { ai };
    let l = if q0 < 0 { -al } else { al };
    let aiU = ai * U;
    assert(aiU == U * ai) by (nonlinear_arith) requires aiU == ai * U;
    let iU = i * U;
    assert(iU == (if q0 < 0 { -aiU } else { aiU })) by (nonlinear_arith) requires iU == i * U, aiU == ai * U, i == (if q0 < 0 { -ai } else { ai });
    assert(q0 == iU + l);
    assert(iabs(l) == al && 0 <= al && al < U);
    assert(aiU >= 0) by (nonlinear_arith) requires aiU == ai * U, ai >= 0, U >= 1;
    // the two remainders at the rounding position
    let (d1, d2) = (b * U, D * U);
    let (n1, n2) = (l * b + sg, l * D + r);
    let (q, X) = (q0 * b + sg, q0 * D + r);
    let (id1, id2) = (i * d1, i * d2);
    assert(q == id1 + n1) by (nonlinear_arith) requires q == q0 * b + sg, q0 == iU + l, iU == i * U, id1 == i * d1, d1 == b * U, n1 == l * b + sg;
    assert(X == id2 + n2) by (nonlinear_arith) requires X == q0 * D + r, q0 == iU + l, iU == i * U, id2 == i * d2, d2 == D * U, n2 == l * D + r;
    let (alb, alD) = (al * b, al * D);
    assert(alb >= 0 && alD >= 0) by (nonlinear_arith) requires alb == al * b, alD == al * D, al >= 0, b >= 2, D >= 1;
    let (lb, lD) = (l * b, l * D);
    assert(lb == (if q0 < 0 { -alb } else { alb }) && lD == (if q0 < 0 { -alD } else { alD })) by (nonlinear_arith)
        requires lb == l * b, lD == l * D, alb == al * b, alD == al * D, l == (if q0 < 0 { -al } else { al });
    // l, sg, r have the same sign (l may be zero)
    assert(q0 == 0 ==> al == 0 && ai == 0) by {
        if q0 == 0 { vstd::arithmetic::div_mod::lemma_small_mod(0, U as nat); vstd::arithmetic::div_mod::lemma_div_by_multiple(0, U); }
    }
    assert(iabs(n1) == alb + 1);
    assert(iabs(n2) == alD + iabs(r));
    assert(alb + b <= d1) by (nonlinear_arith) requires alb == al * b, d1 == b * U, al + 1 <= U, b >= 2;
    assert(alD + D <= d2) by (nonlinear_arith) requires alD == al * D, d2 == D * U, al + 1 <= U, D >= 1;
    assert(n1 != 0 && n2 != 0 && iabs(n1) < d1 && iabs(n2) < d2);
    assert(sign_of(n1) == sign_of(n2));
    assert(d1 >= 1 && d2 >= 1) by (nonlinear_arith) requires d1 == b * U, d2 == D * U, b >= 2, D >= 1, U >= 1;
    assert(i >= 0 ==> id1 >= 0 && id2 >= 0) by (nonlinear_arith) requires id1 == i * d1, id2 == i * d2, d1 >= 1, d2 >= 1;
    assert(i <= 0 ==> id1 <= 0 && id2 <= 0) by (nonlinear_arith) requires id1 == i * d1, id2 == i * d2, d1 >= 1, d2 >= 1;
    assert(q0 > 0 ==> i >= 0);
    assert(q0 < 0 ==> i <= 0);
    assert(q0 == 0 ==> i == 0);
    assert(is_trunc_divrem(q, d1, i, n1));
    assert(is_trunc_divrem(X, d2, i, n2));
    // the flag names the truncated quotient i in both settings
    lemma_trunc_unique(q, d1, i, n1, mm - adj_int(adj));
    assert(mm == i + adj_int(adj));
    lemma_divrem_facts(X, d2, i, n2);
    lemma_inexact(X, d2, i, n2, adj);
    // same class (sign, comparison with 1/2) of the two remainders
    lemma_mode_rep(m, i, n1, d1, adj);
    lemma_mode_rep(m, i, n2, d2, adj);
    let (c1, c2) = (int_cmp(2 * iabs(n1), d1), int_cmp(2 * iabs(n2), d2));
    if is_half(m) {
        // U is even: U = b * (U / b), b = 2 * (b / 2)
        let (ub, bh) = (U / b, b / 2);
        vstd::arithmetic::div_mod::lemma_fundamental_div_mod(U, b);
        vstd::arithmetic::div_mod::lemma_fundamental_div_mod(b, 2);
        let w = bh * ub;
        assert(U == 2 * w) by (nonlinear_arith) requires U == b * ub, b == 2 * bh, w == bh * ub;
        if 2 * al >= U {
            assert(2 * alb >= d1) by (nonlinear_arith) requires alb == al * b, d1 == b * U, 2 * al >= U, b >= 2;
            assert(2 * alD >= d2) by (nonlinear_arith) requires alD == al * D, d2 == D * U, 2 * al >= U, D >= 1;
            assert(c1 == Ordering::Greater && c2 == Ordering::Greater);
        } else {
            assert(2 * al + 2 <= U);
            assert(2 * alb + 2 * b <= d1) by (nonlinear_arith) requires alb == al * b, d1 == b * U, 2 * al + 2 <= U, b >= 2;
            assert(2 * alD + 2 * D <= d2) by (nonlinear_arith) requires alD == al * D, d2 == D * U, 2 * al + 2 <= U, D >= 1;
            assert(c1 == Ordering::Less && c2 == Ordering::Less);
        }
    } else {
        lemma_tf_mode_dir(m, i, sign_of(n1), c1, c2, adj);
    }
    assert(round_def(m, X, d2, i + adj_int(adj)));
}

// ------------------------------------------------------------------------------------------------------------------
// convert_int

pub proof fn lemma_tf_convert_int<const B: Word>(m: Mode, b: int, p: usize, n: int, s0: int, e0: int, ret: Rounded<Repr<B>>)
    requires b >= 2, norm_of(b, n, 0, s0, e0), s0 == 0 ==> e0 == 0,
        round_once(m, b, p, s0, e0, ret), tf_inexact_normalized(b, ret),
    ensures round_val(m, b, p, n, 0, ret), tf_int_repr(rd_val(ret)),
{
    broadcast use ax_ndigits;
    lemma_norm_of(b, n, 0, s0, e0);
    match ret {
        Approximation::Exact(r) => {}
        Approximation::Inexact(r, adj) => {
            let shift = (ndigits(b, s0) - p) as nat;
            let mm = choose|mm: int| #[trigger] round_witness(m, b, s0, shift, mm, adj)
                && same_value(b, r.significand.v(), r.exponent as int, mm, e0 + shift);
            if r.significand.v() != 0 {
                assert(norm_of(b, mm, e0 + shift, r.significand.v(), r.exponent as int));
                lemma_norm_of(b, mm, e0 + shift, r.significand.v(), r.exponent as int);
            }
        }
    }
}

// ------------------------------------------------------------------------------------------------------------------
// to_float

pub proof fn lemma_tf_zero(b: int, p: nat, D: int)
    requires b >= 2
    ensures ratio_representable(b, p, 0, D)
{
    lemma_ipow_pos(b, p);
    assert(tf_repr_wit(b, p, 0, D, 0, 0, 0));
}

/// size and sign of the quotient the code computes: b^nn <= |N| < b^(nn+1), b^dd <= D < b^(dd+1), nn + s >= p + dd + 1
pub proof fn lemma_tf_quot(b: int, p: nat, N: int, D: int, nn: nat, dd: nat, s: nat, q0: int, r: int)
    requires b >= 2, D > 0,
        ipow(b, nn) <= iabs(N), iabs(N) < ipow(b, nn + 1), D < ipow(b, dd + 1),
        nn + s >= p + dd + 1,
        is_trunc_divrem(N * ipow(b, s), D, q0, r),
    ensures iabs(q0) >= ipow(b, p), ndigits(b, q0 * b + sgn3i(r)) <= nn + s + 2,
{
    let bs = ipow(b, s);
    lemma_ipow_pos(b, s);
    let Ns = N * bs;
    lemma_tf_abs_mul(N, bs);
    lemma_tf_sign(Ns, D, q0, r);
    let (aN, a0, ar) = (iabs(N), iabs(q0), iabs(r));
    let aNs = aN * bs;
    assert(iabs(Ns) == aNs);
    // lower bound
    let (Ln, P, H) = (ipow(b, nn), ipow(b, p), ipow(b, dd + 1));
    lemma_ipow_pos(b, p);
    lemma_ipow_add(b, nn, s);
    lemma_ipow_add(b, p, dd + 1);
    lemma_ipow_mono(b, p + (dd + 1), nn + s);
    assert(aNs >= Ln * bs) by (nonlinear_arith) requires aNs == aN * bs, aN >= Ln, bs >= 1;
    let a0D = a0 * D;
    if a0 < P {
        assert(a0D + D <= P * D) by (nonlinear_arith) requires a0D == a0 * D, a0 + 1 <= P, D > 0;
        assert(P * D < P * H) by (nonlinear_arith) requires D < H, P >= 1;
    }
    // upper bound
    let Hn = ipow(b, nn + 1);
    lemma_ipow_add(b, nn + 1, s);
    assert(aNs < Hn * bs) by (nonlinear_arith) requires aNs == aN * bs, aN < Hn, bs >= 1;
    let T = ipow(b, nn + 1 + s);
    assert(a0 <= a0D) by (nonlinear_arith) requires a0D == a0 * D, a0 >= 0, D >= 1;
    assert(a0 + 1 <= T);
    let Q = q0 * b + sgn3i(r);
    let q0b = q0 * b;
    lemma_tf_abs_mul(q0, b);
    let a0b = a0 * b;
    assert(iabs(Q) <= a0b + 1);
    assert(a0b + b <= T * b) by (nonlinear_arith) requires a0b == a0 * b, a0 + 1 <= T, b >= 2;
    assert(ipow(b, nn + s + 2) == b * ipow(b, (nn + s + 2 - 1) as nat));
    assert((nn + s + 2 - 1) as nat == nn + 1 + s);
    assert(T * b == b * T) by (nonlinear_arith);
    lemma_ndigits_le(b, Q, nn + s + 2);
}

/// the integer with a sticky digit +-1 is not divisible by the base
pub proof fn lemma_tf_sticky_normalized(b: int, q0: int, sg: int)
    requires b >= 2, sg == 1 || sg == -1
    ensures (q0 * b + sg) % b != 0
{
    let q = q0 * b + sg;
    if q % b == 0 {
        let t = q / b;
        vstd::arithmetic::div_mod::lemma_fundamental_div_mod(q, b);
        let d = t - q0;
        let bd = b * d;
        assert(bd == sg) by (nonlinear_arith) requires q == b * t, q == q0 * b + sg, d == t - q0, bd == b * d;
        assert(false) by (nonlinear_arith) requires bd == b * d, b >= 2, bd == 1 || bd == -1;
    }
}

/// remainder != 0: the sticky integer q0*b +- 1 was rounded (always Inexact: it has at least p + 2 digits)
pub proof fn lemma_tf_case_sticky<const B: Word>(m: Mode, b: int, pu: usize, N: int, D: int, s: nat, q0: int, r: int,
        ret1: Rounded<Repr<B>>, ret: Rounded<Repr<B>>) -> (w: (nat, int))
    requires b >= 2, pu >= 1, D > 0, b % 2 == 0 || !is_half(m),
        is_trunc_divrem(N * ipow(b, s), D, q0, r), iabs(q0) >= ipow(b, pu as nat), r != 0,
        round_once(m, b, pu, q0 * b + sgn3i(r), 0, ret1),
        tf_shifted(ret1, ret, (s + 1) as int),
    ensures ratio_round_wit(m, b, pu as nat, N, D, s, w.0, w.1, ret), ret is Inexact,
{
    broadcast use ax_ndigits;
    let p = pu as nat;
    let X = N * ipow(b, s);
    lemma_tf_sign(X, D, q0, r);
    let sg = sgn3i(r);
    let q = q0 * b + sg;
    let (a0, ar) = (iabs(q0), iabs(r));
    let P = ipow(b, p);
    lemma_ipow_pos(b, p);
    lemma_tf_abs_mul(q0, b);
    let a0b = a0 * b;
    assert(a0b >= 0) by (nonlinear_arith) requires a0b == a0 * b, a0 >= 0, b >= 2;
    let q0b = q0 * b;
    assert((q0 > 0 ==> q0b > 0) && (q0 < 0 ==> q0b < 0)) by (nonlinear_arith) requires q0b == q0 * b, b >= 2;
    assert(iabs(q) == a0b + 1);
    assert(ipow(b, p + 1) == b * ipow(b, ((p + 1) - 1) as nat));
    assert(((p + 1) - 1) as nat == p);
    assert(a0b >= b * P) by (nonlinear_arith) requires a0b == a0 * b, a0 >= P, b >= 2;
    lemma_ndigits_gt(b, q, p + 1);
    let nd = ndigits(b, q);
    match ret1 {
        Approximation::Exact(r1) => { assert(false); (0, 0) }
        Approximation::Inexact(r1, adj) => {
            let shift1 = (nd - p) as nat;
            let mm = choose|mm: int| #[trigger] round_witness(m, b, q, shift1, mm, adj)
                && same_value(b, r1.significand.v(), r1.exponent as int, mm, 0 + shift1 as int);
            let k = (shift1 - 1) as nat;
            let U = ipow(b, k);
            lemma_ipow_pos(b, k);
            assert(ipow(b, shift1) == b * ipow(b, (shift1 - 1) as nat));
            lemma_shift_divisible(b, 1, k);
            assert(1 * U == U);
            lemma_tf_sticky(m, b, D, q0, r, U, mm, adj);
            assert(q0 * D + r == X);
            let Dn = D * U;
            // window
            let (L, H, Pm) = (ipow(b, (p + k - 1) as nat), ipow(b, p + k), ipow(b, (p - 1) as nat));
            assert((nd - 1) as nat == p + k);
            assert(ipow(b, nd) == b * ipow(b, (nd - 1) as nat));
            assert(ipow(b, p + k) == b * ipow(b, ((p + k) - 1) as nat));
            assert(L <= a0) by (nonlinear_arith) requires b * L <= a0b + 1, a0b == a0 * b, b >= 2;
            assert(a0 + 1 <= H) by (nonlinear_arith) requires a0b + 1 < b * H, a0b == a0 * b, b >= 2;
            lemma_ipow_add(b, (p - 1) as nat, k);
            lemma_ipow_add(b, p, k);
            assert(((p - 1) as nat + k) as nat == (p + k - 1) as nat);
            let a0D = a0 * D;
            assert(Pm * Dn <= a0D) by (nonlinear_arith) requires L == Pm * U, Dn == D * U, L <= a0, a0D == a0 * D, D > 0;
            assert(a0D + D <= P * Dn) by (nonlinear_arith) requires H == P * U, Dn == D * U, a0 + 1 <= H, a0D == a0 * D, D > 0;
            // value
            match ret {
                Approximation::Exact(_) => { assert(false); }
                Approximation::Inexact(r2, adj2) => {
                    lemma_same_value_top(b, r1.significand.v(), r1.exponent as int, mm, shift1 as int);
                    if r1.significand.v() == 0 {
                        assert(same_value(b, r2.significand.v(), r2.exponent as int, mm, k - s));
                    } else {
                        assert(same_value(b, r2.significand.v(), r2.exponent as int, mm, k - s));
                    }
                }
            }
            assert(ratio_round_wit(m, b, p, N, D, s, k, mm, ret));
            (k, mm)
        }
    }
}

pub proof fn lemma_tf_ipow1(b: int)
    ensures ipow(b, 1) == b, ipow(b, 0) == 1
{
    assert(ipow(b, 1) == b * ipow(b, 0));
}

/// moving the exponent of both representations by the same amount keeps `same_value`
pub proof fn lemma_tf_same_value_move(b: int, s1: int, e1: int, s2: int, e2: int, t: int)
    requires same_value(b, s1, e1, s2, e2)
    ensures same_value(b, s1, e1 - t, s2, e2 - t)
{
    assert((e2 - t) - (e1 - t) == e2 - e1);
    assert((e1 - t) - (e2 - t) == e1 - e2);
}

/// the float (ret1) of the sticky / exact integer, moved down by t = s + 1 digits: value part of the witness
pub proof fn lemma_tf_value<const B: Word>(b: int, r1: Repr<B>, r2: Repr<B>, mm: int, e: int, t: int)
    requires b >= 2, same_value(b, r1.significand.v(), r1.exponent as int, mm, e), tf_sh(r1, r2, t)
    ensures same_value(b, r2.significand.v(), r2.exponent as int, mm, e - t)
{
    lemma_same_value_top(b, r1.significand.v(), r1.exponent as int, mm, e);
    if r1.significand.v() != 0 {
        lemma_tf_same_value_move(b, r1.significand.v(), r1.exponent as int, mm, e, t);
    } else {
        assert(mm == 0);
        let (e1, e2) = (r2.exponent as int, e - t);
        if e1 <= e2 { assert(0 * ipow(b, (e2 - e1) as nat) == 0); } else { assert(0 * ipow(b, (e1 - e2) as nat) == 0); }
    }
}

/// a zero significand only represents zero
pub proof fn lemma_tf_zero_sig<const B: Word>(b: int, r: Repr<B>)
    requires b >= 2
    ensures forall|mm: int, e: int| #[trigger] same_value(b, r.significand.v(), r.exponent as int, mm, e) && r.significand.v() == 0 ==> mm == 0
{
    assert forall|mm: int, e: int| #[trigger] same_value(b, r.significand.v(), r.exponent as int, mm, e) && r.significand.v() == 0 implies mm == 0 by {
        lemma_same_value_top(b, r.significand.v(), r.exponent as int, mm, e);
    }
}

/// remainder == 0: the quotient itself (with a zero appended) went through convert_int
pub proof fn lemma_tf_case_div<const B: Word>(m: Mode, b: int, pu: usize, N: int, D: int, s: nat, q0: int, s0: int, e0: int,
        ret1: Rounded<Repr<B>>, ret: Rounded<Repr<B>>) -> (w: (nat, nat, int))
    requires b >= 2, pu >= 1, D > 0, N * ipow(b, s) == q0 * D, q0 != 0,
        norm_of(b, q0 * b, 0, s0, e0), round_once(m, b, pu, s0, e0, ret1),
        tf_shifted(ret1, ret, (s + 1) as int),
    ensures ratio_round_wit(m, b, pu as nat, N, D, w.0, w.1, w.2, ret),
{
    broadcast use ax_ndigits;
    let p = pu as nat;
    let q = q0 * b;
    assert(q != 0) by (nonlinear_arith) requires q == q0 * b, q0 != 0, b >= 2;
    lemma_norm_of(b, q, 0, s0, e0);
    let k0 = e0 as nat;
    let E0 = ipow(b, k0);
    lemma_ipow_pos(b, k0);
    lemma_tf_ipow1(b);
    assert(q == s0 * E0) by { if e0 <= 0 { assert(s0 == q * ipow(b, 0)); assert(s0 * 1 == s0); } }
    let bs = ipow(b, s);
    lemma_ipow_pos(b, s);
    let c = D * E0;
    assert(c > 0) by (nonlinear_arith) requires c == D * E0, D > 0, E0 >= 1;
    let (P, Pm) = (ipow(b, p), ipow(b, (p - 1) as nat));
    lemma_ipow_pos(b, p);
    lemma_ipow_pos(b, (p - 1) as nat);
    let nd0 = ndigits(b, s0);
    match ret1 {
        Approximation::Exact(r1) => {
            let t = (p - nd0) as nat;
            let T = ipow(b, t);
            lemma_ipow_pos(b, t);
            let mm = s0 * T;
            lemma_ndigits_shift(b, s0, t);
            assert(ndigits(b, mm) == p);
            let s2 = s + 1 + t;
            let bT = b * T;
            assert(ipow(b, 1 + t) == b * ipow(b, ((1 + t) - 1) as nat));
            assert(((1 + t) - 1) as nat == t);
            lemma_ipow_add(b, s, 1 + t);
            assert(s + (1 + t) == s2);
            let X2 = N * ipow(b, s2);
            let Xs = N * bs;
            assert(X2 == Xs * bT) by (nonlinear_arith) requires X2 == N * (bs * bT), Xs == N * bs;
            let DT = D * T;
            assert(Xs * bT == q * DT) by (nonlinear_arith) requires Xs == q0 * D, bT == b * T, q == q0 * b, DT == D * T;
            assert(q * DT == mm * c) by (nonlinear_arith) requires q == s0 * E0, DT == D * T, mm == s0 * T, c == D * E0;
            lemma_round_exact(m, mm, c);
            lemma_tf_abs_mul(mm, c);
            let am = iabs(mm);
            assert(Pm * c <= am * c && am * c < P * c) by (nonlinear_arith) requires Pm <= am, am < P, c > 0;
            match ret {
                Approximation::Exact(r2) => {
                    let (e1, e2) = (r2.exponent as int, k0 - s2);
                    assert(e1 == e0 - (s + 1));
                    if t == 0 { assert(mm * ipow(b, 0) == s0); } else { assert((e1 - e2) as nat == t); }
                    assert(same_value(b, r2.significand.v(), e1, mm, e2));
                }
                Approximation::Inexact(_, _) => { assert(false); }
            }
            assert(ratio_round_wit(m, b, p, N, D, s2, k0, mm, ret));
            (s2, k0, mm)
        }
        Approximation::Inexact(r1, adj) => {
            let shift1 = (nd0 - p) as nat;
            let mm = choose|mm: int| #[trigger] round_witness(m, b, s0, shift1, mm, adj)
                && same_value(b, r1.significand.v(), r1.exponent as int, mm, e0 + shift1);
            let u = ipow(b, shift1);
            lemma_ipow_pos(b, shift1);
            let (s2, k2) = (s + 1, k0 + shift1);
            lemma_ipow_add(b, s, 1);
            lemma_ipow_add(b, k0, shift1);
            let X2 = N * ipow(b, s2);
            let Dn2 = D * ipow(b, k2);
            let Xs = N * bs;
            assert(X2 == Xs * b) by (nonlinear_arith) requires X2 == N * (bs * b), Xs == N * bs;
            assert(Xs * b == s0 * c) by (nonlinear_arith) requires Xs == q0 * D, q == q0 * b, q == s0 * E0, c == D * E0;
            assert(Dn2 == u * c) by (nonlinear_arith) requires Dn2 == D * (E0 * u), c == D * E0;
            lemma_tf_round_scale(m, s0, u, c, mm);
            lemma_tf_round_scale(Mode::Zero, s0, u, c, mm - adj_int(adj));
            // window
            lemma_ipow_add(b, (p - 1) as nat, shift1);
            lemma_ipow_add(b, p, shift1);
            assert(((p - 1) as nat + shift1) as nat == (nd0 - 1) as nat);
            assert(p + shift1 == nd0);
            lemma_tf_abs_mul(s0, c);
            let a0 = iabs(s0);
            let (Pmu, Pu) = (Pm * u, P * u);
            assert(Pm * (u * c) <= a0 * c && a0 * c < P * (u * c)) by (nonlinear_arith)
                requires Pmu == Pm * u, Pu == P * u, Pmu <= a0, a0 < Pu, c > 0;
            match ret {
                Approximation::Exact(_) => { assert(false); }
                Approximation::Inexact(r2, adj2) => {
                    lemma_tf_value(b, r1, r2, mm, e0 + shift1, (s + 1) as int);
                    assert(e0 + shift1 - (s + 1) == k2 - s2);
                }
            }
            assert(ratio_round_wit(m, b, p, N, D, s2, k2, mm, ret));
            (s2, k2, mm)
        }
    }
}

/// N b2s == mant D b2k  and  b2k bs == be b2s bk   ==>   N bs == (mant be) (D bk)
pub proof fn lemma_tf_iff_ge(N: int, D: int, bs: int, bk: int, b2s: int, b2k: int, be: int, mant: int)
    requires b2s >= 1, N * b2s == mant * (D * b2k), b2k * bs == be * (b2s * bk)
    ensures N * bs == (mant * be) * (D * bk)
{
    let (X, Y) = (N * bs, (mant * be) * (D * bk));
    let N2 = N * b2s;
    let l1 = N2 * bs;
    assert(X * b2s == l1) by (nonlinear_arith) requires X == N * bs, N2 == N * b2s, l1 == N2 * bs;
    let mD = mant * D;
    let z = b2k * bs;
    assert(l1 == mD * z) by (nonlinear_arith) requires l1 == N2 * bs, N2 == mant * (D * b2k), mD == mant * D, z == b2k * bs;
    let z2 = b2s * bk;
    assert(mD * z == Y * b2s) by (nonlinear_arith) requires z == be * z2, z2 == b2s * bk, mD == mant * D, Y == (mant * be) * (D * bk);
    assert(X == Y) by (nonlinear_arith) requires X * b2s == Y * b2s, b2s >= 1;
}
/// a float of at most p digits whose unit is coarser than the window allows: contradiction
pub proof fn lemma_tf_iff_lt(aX: int, am: int, D: int, bs: int, bk: int, b2s: int, b2k: int, bf: int, P: int, Pm: int, b: int)
    requires b >= 2, D > 0, bs >= 1, bk >= 1, b2s >= 1, b2k >= 1, bf >= b, Pm >= 1, P == b * Pm, 0 <= am, am < P,
        aX * b2s == am * (D * b2k * bs), b2s * bk == bf * (b2k * bs), Pm * (D * bk) <= aX,
    ensures false
{
    let z = b2k * bs;
    let W = D * b2k * bs;
    assert(W == D * z) by (nonlinear_arith) requires W == D * b2k * bs, z == b2k * bs;
    assert(z >= 1) by (nonlinear_arith) requires z == b2k * bs, b2k >= 1, bs >= 1;
    assert(W > 0) by (nonlinear_arith) requires W == D * z, D > 0, z >= 1;
    let lhs = aX * b2s;
    assert(lhs < P * W) by (nonlinear_arith) requires lhs == am * W, am < P, W > 0;
    let L = Pm * (D * bk);
    let Lb = L * b2s;
    assert(lhs >= Lb) by (nonlinear_arith) requires lhs == aX * b2s, Lb == L * b2s, aX >= L, b2s >= 1;
    let z2 = b2s * bk;
    let PmD = Pm * D;
    assert(Lb == PmD * z2) by (nonlinear_arith) requires Lb == L * b2s, L == Pm * (D * bk), z2 == b2s * bk, PmD == Pm * D;
    let Pf = Pm * bf;
    assert(PmD * z2 == Pf * W) by (nonlinear_arith) requires z2 == bf * z, W == D * z, PmD == Pm * D, Pf == Pm * bf;
    assert(Pf >= P) by (nonlinear_arith) requires Pf == Pm * bf, P == b * Pm, bf >= b, Pm >= 1;
    assert(Pf * W >= P * W) by (nonlinear_arith) requires Pf >= P, W > 0;
}

/// the flag of a witnessed rounding: Exact iff the rational is a float of at most p digits
pub proof fn lemma_tf_exact_iff<const B: Word>(m: Mode, b: int, p: nat, N: int, D: int, s: nat, k: nat, mm: int, ret: Rounded<Repr<B>>)
    requires b >= 2, p >= 1, D > 0, ratio_round_wit(m, b, p, N, D, s, k, mm, ret)
    ensures (ret is Exact) == ratio_representable(b, p, N, D)
{
    let (bs, bk) = (ipow(b, s), ipow(b, k));
    lemma_ipow_pos(b, s);
    lemma_ipow_pos(b, k);
    let X = N * bs;
    let Dn = D * bk;
    assert(Dn > 0) by (nonlinear_arith) requires Dn == D * bk, D > 0, bk >= 1;
    let (P, Pm) = (ipow(b, p), ipow(b, (p - 1) as nat));
    lemma_ipow_pos(b, p);
    lemma_ipow_pos(b, (p - 1) as nat);
    assert(P == b * Pm);
    match ret {
        Approximation::Exact(_) => {
            lemma_tf_abs_mul(mm, Dn);
            let am = iabs(mm);
            assert(am < P) by (nonlinear_arith) requires am * Dn < P * Dn, Dn > 0;
            assert(tf_repr_wit(b, p, N, D, mm, s, k));
        }
        Approximation::Inexact(_, adj) => {
            if ratio_representable(b, p, N, D) {
                let (mant, s2, k2) = choose|mant: int, s2: nat, k2: nat| #[trigger] tf_repr_wit(b, p, N, D, mant, s2, k2);
                let (b2s, b2k) = (ipow(b, s2), ipow(b, k2));
                lemma_ipow_pos(b, s2);
                lemma_ipow_pos(b, k2);
                lemma_ipow_add(b, k2, s);
                lemma_ipow_add(b, s2, k);
                if k2 + s >= s2 + k {
                    let e = (k2 + s - s2 - k) as nat;
                    let be = ipow(b, e);
                    lemma_ipow_add(b, e, s2 + k);
                    assert(e + (s2 + k) == k2 + s);
                    lemma_tf_iff_ge(N, D, bs, bk, b2s, b2k, be, mant);
                    let t = mant * be;
                    lemma_round_exact(m, t, Dn);
                    lemma_round_def_unique(m, X, Dn, mm, t);
                    assert(false);
                } else {
                    let f = (s2 + k - k2 - s) as nat;
                    let bf = ipow(b, f);
                    lemma_ipow_add(b, f, k2 + s);
                    assert(f + (k2 + s) == s2 + k);
                    lemma_ipow_mono(b, 1, f);
                    lemma_tf_ipow1(b);
                    let W = D * b2k * bs;
                    lemma_tf_abs_mul(X, b2s);
                    lemma_tf_abs_mul(mant, W);
                    let N2 = N * b2s;
                    assert(X * b2s == mant * W) by (nonlinear_arith) requires X == N * bs, N2 == N * b2s, N2 == mant * (D * b2k), W == D * b2k * bs;
                    assert(W >= 0) by (nonlinear_arith) requires W == D * b2k * bs, D > 0, b2k >= 1, bs >= 1;
                    lemma_tf_iff_lt(iabs(X), iabs(mant), D, bs, bk, b2s, b2k, bf, P, Pm, b);
                }
            }
        }
    }
}

/// assembly: what `convert_int` returned for the sticky integer, moved down by s + 1 digits, is the rational rounded once
pub proof fn lemma_tf_post<const B: Word>(m: Mode, b: int, pu: usize, N: int, D: int, s: nat, q0: int, r: int, ret: Rounded<Repr<B>>)
    requires b >= 2, pu >= 1, D > 0, N != 0, b % 2 == 0 || !is_half(m),
        is_trunc_divrem(N * ipow(b, s), D, q0, r), iabs(q0) >= ipow(b, pu as nat),
        exists|ret1: Rounded<Repr<B>>| #[trigger] round_val(m, b, pu, q0 * b + sgn3i(r), 0, ret1) && tf_shifted(ret1, ret, (s + 1) as int),
    ensures ratio_round_once(m, b, pu as nat, N, D, ret),
        (ret is Exact) == ratio_representable(b, pu as nat, N, D),
{
    let p = pu as nat;
    let q = q0 * b + sgn3i(r);
    let ret1 = choose|ret1: Rounded<Repr<B>>| #[trigger] round_val(m, b, pu, q, 0, ret1) && tf_shifted(ret1, ret, (s + 1) as int);
    let (s0, e0) = choose|s0: int, e0: int| #[trigger] norm_of(b, q, 0, s0, e0) && round_once(m, b, pu, s0, e0, ret1);
    lemma_ipow_pos(b, p);
    if r != 0 {
        lemma_tf_sticky_normalized(b, q0, sgn3i(r));
        lemma_norm_of(b, q, 0, s0, e0);
        assert(norm_of(b, q, 0, s0, e0));
        assert(q != 0) by { if q == 0 { assert(0int % b == 0) by (nonlinear_arith) requires b >= 2; } }
        assert(s0 != 0);
        assert(e0 >= 0);
        if e0 > 0 { lemma_shift_divisible(b, s0, e0 as nat); assert(q == s0 * ipow(b, e0 as nat)); assert(false); }
        lemma_tf_ipow1(b);
        assert(e0 == 0);
        assert(s0 == q * ipow(b, 0));
        assert(s0 == q && e0 == 0);
        let w = lemma_tf_case_sticky(m, b, pu, N, D, s, q0, r, ret1, ret);
        lemma_tf_exact_iff(m, b, p, N, D, s, w.0, w.1, ret);
    } else {
        let w = lemma_tf_case_div(m, b, pu, N, D, s, q0, s0, e0, ret1, ret);
        lemma_tf_exact_iff(m, b, p, N, D, w.0, w.1, w.2, ret);
    }
}
