// ---- tf_lemmas.rs: specification and lemmas of unit ratio_to_fbig (rational/src/third_party/dashu_float.rs
// `Repr::to_float`: a rational rounded ONCE to a float of `precision` digits, C06).  Nothing trusted here.
// Needs round_prelude.rs, round_int_stubs.rs, round_float_repr.rs, conv_fbig_stubs.rs, farith_lemmas.rs.

/// base/src/approx.rs `Approximation::value` as a spec function (used by the contract of `Approximation::map`)
pub open spec fn rd_val0<T, E>(r: Approximation<T, E>) -> T { match r { Approximation::Exact(v) => v, Approximation::Inexact(v, _) => v } }

/// base/src/approx.rs `Approximation::and_then` as a spec function: the second value; the second flag wins, an exact
/// second stage keeps the first flag
pub open spec fn and_then_spec<T, U, E>(s: Approximation<T, E>, o: Approximation<U, E>) -> Approximation<U, E> {
    match s {
        Approximation::Exact(_) => o,
        Approximation::Inexact(_, e) => match o {
            Approximation::Exact(v2) => Approximation::Inexact(v2, e),
            Approximation::Inexact(v2, e2) => Approximation::Inexact(v2, e2),
        },
    }
}

// ------------------------------------------------------------------------------------------------------------------
// C06 for rational -> float.  The exact value is x = N / D (D > 0).  For nat s, k the number x / b^(k - s) is the fraction
//     X / Dn   with   X = N * b^s,  Dn = D * b^k.
// (s, k, mm) witnesses "ret is x rounded once to p digits" when
//   * b^(p-1) <= |X / Dn| < b^p : b^(k - s) is the unit in the last place of x at precision p (this fixes k - s),
//   * mm is THE rounding of X / Dn to an integer under the mode (lib/round_prelude.rs round_def: error < 1 unit on the
//     side the mode prescribes, <= 1/2 unit with the mode's tie rule for the Half modes),
//   * the returned float is mm * b^(k - s)   (|mm| <= b^p: p digits, or exactly b^p after a carry),
//   * the flag tells the truth: Exact means the float equals x; Inexact(adj) means it differs and adj = mm - trunc(X / Dn).
pub open spec fn ratio_round_wit<const B: Word>(m: Mode, b: int, p: nat, N: int, D: int, s: nat, k: nat, mm: int, ret: Rounded<Repr<B>>) -> bool {
    let X = N * ipow(b, s);
    let Dn = D * ipow(b, k);
    let r = rd_val(ret);
    &&& ipow(b, (p - 1) as nat) * Dn <= iabs(X) && iabs(X) < ipow(b, p) * Dn
    &&& round_def(m, X, Dn, mm)
    &&& same_value(b, r.significand.v(), r.exponent as int, mm, k - s)
    &&& match ret {
            Approximation::Exact(_) => mm * Dn == X,
            Approximation::Inexact(_, adj) => mm * Dn != X && round_def(Mode::Zero, X, Dn, mm - adj_int(adj)),
        }
}
pub open spec fn ratio_round_once<const B: Word>(m: Mode, b: int, p: nat, N: int, D: int, ret: Rounded<Repr<B>>) -> bool {
    if N == 0 {
        ret matches Approximation::Exact(r) && r.significand.v() == 0 && r.exponent == 0
    } else {
        exists|s: nat, k: nat, mm: int| #[trigger] ratio_round_wit(m, b, p, N, D, s, k, mm, ret)
    }
}
/// N / D == mant * b^(k - s) with |mant| < b^p: the rational is a float of at most p digits
pub open spec fn tf_repr_wit(b: int, p: nat, N: int, D: int, mant: int, s: nat, k: nat) -> bool {
    iabs(mant) < ipow(b, p) && N * ipow(b, s) == mant * (D * ipow(b, k))
}
pub open spec fn ratio_representable(b: int, p: nat, N: int, D: int) -> bool {
    exists|mant: int, s: nat, k: nat| #[trigger] tf_repr_wit(b, p, N, D, mant, s, k)
}

/// precondition of `Repr::to_float` (and of the two forwarding methods)
pub open spec fn tf_to_float_req(B: Word, precision: usize, N: int, D: int) -> bool {
    &&& B >= 2
    &&& precision > 0                                    // `assert!(precision > 0)`: panics otherwise
    &&& D > 0                                            // type invariant of the rational Repr (denominator is never zero)
    // resource limits: overflow of usize / isize (digit counts, exponents) is a documented panic (C16), not modelled
    &&& precision < 0x0100_0000_0000_0000
    &&& ndigits(B as int, N) < 0x0100_0000_0000_0000
    &&& ndigits(B as int, D) < 0x0100_0000_0000_0000
}

/// contract of `Context::convert_int` (ctx = *self, p = its precision): ONE correct rounding of the integer n = n * B^0
/// to p digits (0 = unlimited), Exact iff n has at most p significant digits, truthful flag (lib/farith_lemmas.rs
/// round_val); an exact result is the normalized integer itself: zero is (0, 0), otherwise 0 <= exponent <= digits of n
pub open spec fn tf_conv_post<R: Round, const B: Word>(m: Mode, b: int, n: int, ctx: Context<R>, o: Rounded<FBig<R, B>>) -> bool {
    &&& round_val(m, b, ctx.precision, n, 0, map_repr(o))
    &&& rd_val(o).context == ctx
    &&& (o is Exact ==> tf_int_repr(rd_val(o).repr) && rd_val(o).repr.exponent <= ndigits(b, n))
}
/// the single rounding decision of to_float: `rounded` is hi (remainder r2 == 0) or hi + adj with the mode's rounding
pub open spec fn tf_rounded(m: Mode, X: int, Dn: int, hi: int, r2: int, rounded: Rounded<IBig>) -> bool {
    match rounded {
        Approximation::Exact(n) => r2 == 0 && n.v() == hi,
        Approximation::Inexact(n, adj) => r2 != 0 && n.v() == hi + adj_int(adj) && round_def(m, X, Dn, hi + adj_int(adj)),
    }
}
/// the float of an integer: zero is (0, 0), otherwise the exponent is not negative
pub open spec fn tf_int_repr<const B: Word>(r: Repr<B>) -> bool {
    (r.significand.v() == 0 ==> r.exponent == 0) && (r.significand.v() != 0 ==> r.exponent >= 0)
}
pub open spec fn tf_sh<const B: Word>(a: Repr<B>, c: Repr<B>, t: int) -> bool {
    c.significand.v() == a.significand.v() && (a.significand.v() == 0 ==> c.exponent == a.exponent)
        && (a.significand.v() != 0 ==> c.exponent == a.exponent - t)
}
/// ret is ret1 with the exponent lowered by t (zero untouched), same flag
pub open spec fn tf_shifted<const B: Word>(ret1: Rounded<Repr<B>>, ret: Rounded<Repr<B>>, t: int) -> bool {
    match (ret1, ret) {
        (Approximation::Exact(a), Approximation::Exact(c)) => tf_sh(a, c, t),
        (Approximation::Inexact(a, e1), Approximation::Inexact(c, e2)) => e1 == e2 && tf_sh(a, c, t),
        _ => false,
    }
}

// ------------------------------------------------------------------------------------------------------------------
// small arithmetic facts

pub proof fn lemma_tf_abs_mul(x: int, y: int)
    ensures iabs(x * y) == iabs(x) * iabs(y)
{
    let (ax, ay, xy) = (iabs(x), iabs(y), x * y);
    assert(iabs(xy) == ax * ay) by (nonlinear_arith)
        requires xy == x * y, ax == (if x < 0 { -x } else { x }), ay == (if y < 0 { -y } else { y });
}
/// floor logarithm k of |v| gives k + 1 digits
pub proof fn lemma_tf_ilog_digits(b: int, v: int, k: nat)
    requires b >= 2, ipow(b, k) <= iabs(v), iabs(v) < ipow(b, k + 1)
    ensures ndigits(b, v) == k + 1
{
    assert(((k + 1) - 1) as nat == k);
    lemma_ndigits_unique(b, v, k + 1);
}
/// truncating division by a positive divisor: quotient and remainder do not have opposite signs, |n| = |q| d + |r|
pub proof fn lemma_tf_sign(n: int, d: int, q: int, r: int)
    requires d > 0, is_trunc_divrem(n, d, q, r)
    ensures q == 0 || r == 0 || ((q > 0) == (r > 0)),
        q != 0 ==> ((q > 0) == (n > 0)),
        iabs(n) == iabs(q) * d + iabs(r),
{
    let qd = q * d;
    assert(q >= 1 ==> qd >= d) by (nonlinear_arith) requires qd == q * d, d > 0;
    assert(q <= -1 ==> qd <= -d) by (nonlinear_arith) requires qd == q * d, d > 0;
    assert(q == 0 ==> qd == 0) by (nonlinear_arith) requires qd == q * d;
    lemma_tf_abs_mul(q, d);
}

// ------------------------------------------------------------------------------------------------------------------
// convert_int

/// (s0, e0) = `Repr::new(n, 0)`, ret = `repr_round` of it
pub proof fn lemma_tf_convert_int<const B: Word>(m: Mode, b: int, p: usize, n: int, s0: int, e0: int, ret: Rounded<Repr<B>>)
    requires b >= 2, norm_of(b, n, 0, s0, e0), n == 0 ==> e0 == 0,
        round_once(m, b, p, s0, e0, ret),
    ensures round_val(m, b, p, n, 0, ret),
        ret is Exact ==> tf_int_repr(rd_val(ret)) && rd_val(ret).exponent <= ndigits(b, n),
{
    broadcast use ax_ndigits;
    lemma_norm_of(b, n, 0, s0, e0);
}
/// pos_room (64 * digits <= usize::MAX) passes from an integer to its normalized significand, and gives the exponent room
pub proof fn lemma_tf_conv_room(b: int, n: int, s0: int, e0: int)
    requires b >= 2, norm_of(b, n, 0, s0, e0), n == 0 ==> e0 == 0, pos_room(ndigits(b, n) as int)
    ensures pos_room(ndigits(b, s0) as int), e0 + ndigits(b, s0) <= isize::MAX, ndigits(b, s0) <= isize::MAX,
        !(s0 == 0 && e0 != 0),
{
    broadcast use ax_ndigits;
    lemma_norm_of(b, n, 0, s0, e0);
}

// ------------------------------------------------------------------------------------------------------------------
// to_float

/// numerator zero: every single rounding of 0 is Exact (0, 0); 0 is representable
pub proof fn lemma_tf_zero<const B: Word>(m: Mode, b: int, pu: usize, D: int)
    requires b >= 2
    ensures ratio_representable(b, pu as nat, 0, D),
        forall|rr: Rounded<Repr<B>>| #[trigger] round_once(m, b, pu, 0, 0, rr) ==> rr is Exact && ratio_round_once(m, b, pu as nat, 0, D, rr),
{
    broadcast use ax_ndigits;
    lemma_ipow_pos(b, pu as nat);
    assert(tf_repr_wit(b, pu as nat, 0, D, 0, 0, 0));
}

pub proof fn lemma_tf_ipow1(b: int)
    ensures ipow(b, 1) == b, ipow(b, 0) == 1
{
    assert(ipow(b, 1) == b * ipow(b, 0));
}

/// moving the exponent of both representations by the same amount keeps `same_value`
pub proof fn lemma_tf_same_value_move(b: int, s1: int, e1: int, s2: int, e2: int, t: int)
    requires same_value(b, s1, e1, s2, e2)
    ensures same_value(b, s1, e1 - t, s2, e2 - t)
{
    assert((e2 - t) - (e1 - t) == e2 - e1);
    assert((e1 - t) - (e2 - t) == e1 - e2);
}

/// the float (ret1) of the sticky / exact integer, moved down by t = s + 1 digits: value part of the witness
pub proof fn lemma_tf_value<const B: Word>(b: int, r1: Repr<B>, r2: Repr<B>, mm: int, e: int, t: int)
    requires b >= 2, same_value(b, r1.significand.v(), r1.exponent as int, mm, e), tf_sh(r1, r2, t)
    ensures same_value(b, r2.significand.v(), r2.exponent as int, mm, e - t)
{
    lemma_same_value_top(b, r1.significand.v(), r1.exponent as int, mm, e);
    if r1.significand.v() != 0 {
        lemma_tf_same_value_move(b, r1.significand.v(), r1.exponent as int, mm, e, t);
    } else {
        assert(mm == 0);
        let (e1, e2) = (r2.exponent as int, e - t);
        if e1 <= e2 { assert(0 * ipow(b, (e2 - e1) as nat) == 0); } else { assert(0 * ipow(b, (e1 - e2) as nat) == 0); }
    }
}

/// N b2s == mant D b2k  and  b2k bs == be b2s bk   ==>   N bs == (mant be) (D bk)
pub proof fn lemma_tf_iff_ge(N: int, D: int, bs: int, bk: int, b2s: int, b2k: int, be: int, mant: int)
    requires b2s >= 1, N * b2s == mant * (D * b2k), b2k * bs == be * (b2s * bk)
    ensures N * bs == (mant * be) * (D * bk)
{
    let (X, Y) = (N * bs, (mant * be) * (D * bk));
    let N2 = N * b2s;
    let l1 = N2 * bs;
    assert(X * b2s == l1) by (nonlinear_arith) requires X == N * bs, N2 == N * b2s, l1 == N2 * bs;
    let mD = mant * D;
    let z = b2k * bs;
    assert(l1 == mD * z) by (nonlinear_arith) requires l1 == N2 * bs, N2 == mant * (D * b2k), mD == mant * D, z == b2k * bs;
    let z2 = b2s * bk;
    assert(mD * z == Y * b2s) by (nonlinear_arith) requires z == be * z2, z2 == b2s * bk, mD == mant * D, Y == (mant * be) * (D * bk);
    assert(X == Y) by (nonlinear_arith) requires X * b2s == Y * b2s, b2s >= 1;
}
/// a float of at most p digits whose unit is coarser than the window allows: contradiction
pub proof fn lemma_tf_iff_lt(aX: int, am: int, D: int, bs: int, bk: int, b2s: int, b2k: int, bf: int, P: int, Pm: int, b: int)
    requires b >= 2, D > 0, bs >= 1, bk >= 1, b2s >= 1, b2k >= 1, bf >= b, Pm >= 1, P == b * Pm, 0 <= am, am < P,
        aX * b2s == am * (D * b2k * bs), b2s * bk == bf * (b2k * bs), Pm * (D * bk) <= aX,
    ensures false
{
    let z = b2k * bs;
    let W = D * b2k * bs;
    assert(W == D * z) by (nonlinear_arith) requires W == D * b2k * bs, z == b2k * bs;
    assert(z >= 1) by (nonlinear_arith) requires z == b2k * bs, b2k >= 1, bs >= 1;
    assert(W > 0) by (nonlinear_arith) requires W == D * z, D > 0, z >= 1;
    let lhs = aX * b2s;
    assert(lhs < P * W) by (nonlinear_arith) requires lhs == am * W, am < P, W > 0;
    let L = Pm * (D * bk);
    let Lb = L * b2s;
    assert(lhs >= Lb) by (nonlinear_arith) requires lhs == aX * b2s, Lb == L * b2s, aX >= L, b2s >= 1;
    let z2 = b2s * bk;
    let PmD = Pm * D;
    assert(Lb == PmD * z2) by (nonlinear_arith) requires Lb == L * b2s, L == Pm * (D * bk), z2 == b2s * bk, PmD == Pm * D;
    let Pf = Pm * bf;
    assert(PmD * z2 == Pf * W) by (nonlinear_arith) requires z2 == bf * z, W == D * z, PmD == Pm * D, Pf == Pm * bf;
    assert(Pf >= P) by (nonlinear_arith) requires Pf == Pm * bf, P == b * Pm, bf >= b, Pm >= 1;
    assert(Pf * W >= P * W) by (nonlinear_arith) requires Pf >= P, W > 0;
}

/// the flag of a witnessed rounding: Exact iff the rational is a float of at most p digits
pub proof fn lemma_tf_exact_iff<const B: Word>(m: Mode, b: int, p: nat, N: int, D: int, s: nat, k: nat, mm: int, ret: Rounded<Repr<B>>)
    requires b >= 2, p >= 1, D > 0, ratio_round_wit(m, b, p, N, D, s, k, mm, ret)
    ensures (ret is Exact) == ratio_representable(b, p, N, D)
{
    let (bs, bk) = (ipow(b, s), ipow(b, k));
    lemma_ipow_pos(b, s);
    lemma_ipow_pos(b, k);
    let X = N * bs;
    let Dn = D * bk;
    assert(Dn > 0) by (nonlinear_arith) requires Dn == D * bk, D > 0, bk >= 1;
    let (P, Pm) = (ipow(b, p), ipow(b, (p - 1) as nat));
    lemma_ipow_pos(b, p);
    lemma_ipow_pos(b, (p - 1) as nat);
    assert(P == b * Pm);
    match ret {
        Approximation::Exact(_) => {
            lemma_tf_abs_mul(mm, Dn);
            let am = iabs(mm);
            assert(am < P) by (nonlinear_arith) requires am * Dn < P * Dn, Dn > 0;
            assert(tf_repr_wit(b, p, N, D, mm, s, k));
        }
        Approximation::Inexact(_, adj) => {
            if ratio_representable(b, p, N, D) {
                let (mant, s2, k2) = choose|mant: int, s2: nat, k2: nat| #[trigger] tf_repr_wit(b, p, N, D, mant, s2, k2);
                let (b2s, b2k) = (ipow(b, s2), ipow(b, k2));
                lemma_ipow_pos(b, s2);
                lemma_ipow_pos(b, k2);
                lemma_ipow_add(b, k2, s);
                lemma_ipow_add(b, s2, k);
                if k2 + s >= s2 + k {
                    let e = (k2 + s - s2 - k) as nat;
                    let be = ipow(b, e);
                    lemma_ipow_add(b, e, s2 + k);
                    assert(e + (s2 + k) == k2 + s);
                    lemma_tf_iff_ge(N, D, bs, bk, b2s, b2k, be, mant);
                    let t = mant * be;
                    lemma_round_exact(m, t, Dn);
                    lemma_round_def_unique(m, X, Dn, mm, t);
                    assert(false);
                } else {
                    let f = (s2 + k - k2 - s) as nat;
                    let bf = ipow(b, f);
                    lemma_ipow_add(b, f, k2 + s);
                    assert(f + (k2 + s) == s2 + k);
                    lemma_ipow_mono(b, 1, f);
                    lemma_tf_ipow1(b);
                    let W = D * b2k * bs;
                    lemma_tf_abs_mul(X, b2s);
                    lemma_tf_abs_mul(mant, W);
                    let N2 = N * b2s;
                    assert(X * b2s == mant * W) by (nonlinear_arith) requires X == N * bs, N2 == N * b2s, N2 == mant * (D * b2k), W == D * b2k * bs;
                    assert(W >= 0) by (nonlinear_arith) requires W == D * b2k * bs, D > 0, b2k >= 1, bs >= 1;
                    lemma_tf_iff_lt(iabs(X), iabs(mant), D, bs, bk, b2s, b2k, bf, P, Pm, b);
                }
            }
        }
    }
}


/// a floor logarithm k of |v| means k + 1 digits (quantified form for a logarithm that has no name in the code)
pub proof fn lemma_tf_ilog_nd(b: int, v: int)
    requires b >= 2
    ensures forall|k: nat| #[trigger] tf_ilog_is(b, v, k) ==> ndigits(b, v) == k + 1,
{
    assert forall|k: nat| #[trigger] tf_ilog_is(b, v, k) implies ndigits(b, v) == k + 1 by {
        lemma_tf_ilog_digits(b, v, k);
    }
}

/// size of the quotient the code computes: b^nn <= |N| < b^(nn+1), b^dd <= D < b^(dd+1), nn + s >= p + dd:
/// the quotient of N b^s by D has at least p digits (and not more than nn + s + 1)
pub proof fn lemma_tf_quot(b: int, p: nat, N: int, D: int, nn: nat, dd: nat, s: nat, q0: int, r: int)
    requires b >= 2, p >= 1, D > 0,
        ipow(b, nn) <= iabs(N), iabs(N) < ipow(b, nn + 1), D < ipow(b, dd + 1),
        nn + s >= p + dd,
        is_trunc_divrem(N * ipow(b, s), D, q0, r),
    ensures iabs(q0) >= ipow(b, (p - 1) as nat), q0 != 0, ndigits(b, q0) >= p, ndigits(b, q0) <= nn + s + 1,
{
    let bs = ipow(b, s);
    lemma_ipow_pos(b, s);
    let Ns = N * bs;
    lemma_tf_abs_mul(N, bs);
    lemma_tf_sign(Ns, D, q0, r);
    let (aN, a0, ar) = (iabs(N), iabs(q0), iabs(r));
    let aNs = aN * bs;
    assert(iabs(Ns) == aNs);
    // lower bound: |N b^s| >= b^(nn+s) >= b^(p-1+dd+1) = b^(p-1) b^(dd+1) > b^(p-1) D
    let (Ln, Pm, H) = (ipow(b, nn), ipow(b, (p - 1) as nat), ipow(b, dd + 1));
    lemma_ipow_pos(b, (p - 1) as nat);
    lemma_ipow_add(b, nn, s);
    lemma_ipow_add(b, (p - 1) as nat, dd + 1);
    assert(((p - 1) as nat + (dd + 1)) as nat == p + dd);
    lemma_ipow_mono(b, p + dd, nn + s);
    assert(aNs >= Ln * bs) by (nonlinear_arith) requires aNs == aN * bs, aN >= Ln, bs >= 1;
    let a0D = a0 * D;
    if a0 < Pm {
        assert(a0D + D <= Pm * D) by (nonlinear_arith) requires a0D == a0 * D, a0 + 1 <= Pm, D > 0;
        assert(Pm * D < Pm * H) by (nonlinear_arith) requires D < H, Pm >= 1;
    }
    lemma_ndigits_gt(b, q0, (p - 1) as nat);
    // upper bound: |q0| <= |q0| D <= |N b^s| < b^(nn+1+s)
    let Hn = ipow(b, nn + 1);
    lemma_ipow_add(b, nn + 1, s);
    assert(aNs < Hn * bs) by (nonlinear_arith) requires aNs == aN * bs, aN < Hn, bs >= 1;
    assert(a0 <= a0D) by (nonlinear_arith) requires a0D == a0 * D, a0 >= 0, D >= 1;
    lemma_ndigits_le(b, q0, nn + 1 + s);
}

/// the digits of the quotient beyond the precision move into the remainder:
/// X = q D + r, q = hi b^ex + lo (both truncating), q has p + ex digits  ==>  X = hi (D b^ex) + (lo D + r) truncating,
/// and hi has exactly p digits
pub proof fn lemma_tf_split(b: int, p: nat, X: int, D: int, q: int, r: int, ex: nat, hi: int, lo: int)
    requires b >= 2, p >= 1, D > 0, q != 0, is_trunc_divrem(X, D, q, r), ndigits(b, q) == p + ex,
        is_trunc_divrem(q, ipow(b, ex), hi, lo),
    ensures is_trunc_divrem(X, D * ipow(b, ex), hi, lo * D + r), D * ipow(b, ex) > 0,
        ipow(b, (p - 1) as nat) <= iabs(hi), iabs(hi) < ipow(b, p),
{
    broadcast use ax_ndigits;
    let u = ipow(b, ex);
    lemma_ipow_pos(b, ex);
    let Dn = D * u;
    let r2 = lo * D + r;
    assert(Dn > 0 && Dn >= D) by (nonlinear_arith) requires Dn == D * u, D > 0, u >= 1;
    lemma_tf_sign(X, D, q, r);
    lemma_tf_sign(q, u, hi, lo);
    let (ah, al, ar, aq) = (iabs(hi), iabs(lo), iabs(r), iabs(q));
    // X == hi Dn + r2
    let (hu, hDn, loD) = (hi * u, hi * Dn, lo * D);
    assert(X == hDn + r2) by (nonlinear_arith) requires X == q * D + r, q == hu + lo, hu == hi * u, hDn == hi * Dn, Dn == D * u, r2 == loD + r, loD == lo * D;
    // lo D has the sign of lo
    lemma_tf_abs_mul(lo, D);
    let alD = al * D;
    assert((lo > 0 ==> loD > 0) && (lo < 0 ==> loD < 0) && (lo == 0 ==> loD == 0)) by (nonlinear_arith) requires loD == lo * D, D > 0;
    assert(alD + D <= Dn) by (nonlinear_arith) requires alD == al * D, Dn == D * u, al + 1 <= u, D > 0;
    assert(iabs(r2) == alD + ar);
    assert(iabs(r2) < Dn);
    assert(r2 == 0 || ((r2 > 0) == (X > 0)));
    // hi has p digits
    let (Pm, P) = (ipow(b, (p - 1) as nat), ipow(b, p));
    lemma_ipow_add(b, (p - 1) as nat, ex);
    lemma_ipow_add(b, p, ex);
    assert(((p - 1) as nat + ex) as nat == ((p + ex) - 1) as nat);
    let ahu = ah * u;
    assert(aq == ahu + al);
    if ah < Pm {
        assert(ahu + u <= Pm * u) by (nonlinear_arith) requires ahu == ah * u, ah + 1 <= Pm, u >= 1;
    }
    if ah >= P {
        assert(ahu >= P * u) by (nonlinear_arith) requires ahu == ah * u, ah >= P, u >= 1;
    }
}

/// an integer of at most p digits, or +-b^p, is converted exactly by `convert_int` at precision p
pub proof fn lemma_tf_conv_exact<const B: Word>(m: Mode, b: int, pu: usize, mm: int)
    requires b >= 2, pu >= 1, iabs(mm) <= ipow(b, pu as nat)
    ensures forall|ret1: Rounded<Repr<B>>| #[trigger] round_val(m, b, pu, mm, 0, ret1) ==> ret1 is Exact,
        ndigits(b, mm) <= pu + 1,
{
    broadcast use ax_ndigits;
    let p = pu as nat;
    let P = ipow(b, p);
    lemma_ipow_pos(b, p);
    lemma_ipow_strict(b, p, p + 1);
    lemma_ndigits_le(b, mm, p + 1);
    assert forall|ret1: Rounded<Repr<B>>| #[trigger] round_val(m, b, pu, mm, 0, ret1) implies ret1 is Exact by {
        let (s0, e0) = choose|s0: int, e0: int| #[trigger] norm_of(b, mm, 0, s0, e0) && round_once(m, b, pu, s0, e0, ret1);
        lemma_norm_of(b, mm, 0, s0, e0);
        if iabs(mm) < P {
            lemma_ndigits_le(b, mm, p);
        } else {
            // mm == +-b^p: p + 1 digits, but divisible by b: the normalized significand is shorter
            assert(((p + 1) - 1) as nat == p);
            lemma_ndigits_unique(b, mm, p + 1);
            let sg: int = if mm < 0 { -1 } else { 1 };
            assert(sg * P == (if mm < 0 { -P } else { P })) by (nonlinear_arith) requires sg == (if mm < 0 { -1int } else { 1int });
            assert(mm == sg * P);
            lemma_shift_divisible(b, sg, p);
            lemma_tf_ipow1(b);
            if e0 <= 0 { assert(s0 == mm * ipow(b, 0)); assert(s0 == mm); assert(false); }
        }
        assert(ndigits(b, s0) <= p);
    }
}

/// assembly: hi (+ adj) went through `convert_int` (exact) and `>> (s - k)`: the rational rounded once
pub proof fn lemma_tf_post<const B: Word>(m: Mode, b: int, pu: usize, N: int, D: int, s: nat, k: nat, hi: int, r2: int,
        rounded: Rounded<IBig>, ret: Rounded<Repr<B>>)
    requires b >= 2, pu >= 1, D > 0, N != 0,
        is_trunc_divrem(N * ipow(b, s), D * ipow(b, k), hi, r2), D * ipow(b, k) > 0,
        ipow(b, (pu - 1) as nat) <= iabs(hi), iabs(hi) < ipow(b, pu as nat),
        tf_rounded(m, N * ipow(b, s), D * ipow(b, k), hi, r2, rounded),
        exists|ret1: Rounded<Repr<B>>| #[trigger] round_val(m, b, pu, rd_val0(rounded).v(), 0, ret1)
            && tf_shifted(and_then_spec(rounded, ret1), ret, s - k),
    ensures ratio_round_once(m, b, pu as nat, N, D, ret),
        (ret is Exact) == ratio_representable(b, pu as nat, N, D),
{
    let p = pu as nat;
    let (X, Dn) = (N * ipow(b, s), D * ipow(b, k));
    let mm = rd_val0(rounded).v();
    let ret1 = choose|ret1: Rounded<Repr<B>>| #[trigger] round_val(m, b, pu, mm, 0, ret1) && tf_shifted(and_then_spec(rounded, ret1), ret, s - k);
    let (Pm, P) = (ipow(b, (p - 1) as nat), ipow(b, p));
    lemma_ipow_pos(b, (p - 1) as nat);
    lemma_tf_conv_exact::<B>(m, b, pu, mm);
    let (s0, e0) = choose|s0: int, e0: int| #[trigger] norm_of(b, mm, 0, s0, e0) && round_once(m, b, pu, s0, e0, ret1);
    // the decision
    lemma_tf_sign(X, Dn, hi, r2);
    lemma_divrem_facts(X, Dn, hi, r2);
    let ah = iabs(hi);
    let ahD = ah * Dn;
    assert(Pm * Dn <= ahD) by (nonlinear_arith) requires ahD == ah * Dn, Pm <= ah, Dn > 0;
    assert(ahD + Dn <= P * Dn) by (nonlinear_arith) requires ahD == ah * Dn, ah + 1 <= P, Dn > 0;
    match rounded {
        Approximation::Exact(_) => { lemma_round_exact(m, hi, Dn); }
        Approximation::Inexact(_, adj) => { lemma_inexact(X, Dn, hi, r2, adj); }
    }
    // the value
    match (ret1, ret) {
        (Approximation::Exact(r1), Approximation::Exact(r2_)) => { lemma_tf_value(b, r1, r2_, mm, 0, s - k); }
        (Approximation::Exact(r1), Approximation::Inexact(r2_, _)) => { lemma_tf_value(b, r1, r2_, mm, 0, s - k); }
        _ => { assert(false); }
    }
    assert(0 - (s - k) == k - s);
    assert(ratio_round_wit(m, b, p, N, D, s, k, mm, ret));
    lemma_tf_exact_iff(m, b, p, N, D, s, k, mm, ret);
}

// ------------------------------------------------------------------------------------------------------------------
// Sanity of the specification: `ratio_round_once` determines the value and the flag (at most one answer is accepted, so
// any other float -- e.g. the double-rounded results of the earlier versions of to_float -- is rejected).

/// the flag of a rounded value: None = Exact
pub open spec fn tf_flag<T>(r: Rounded<T>) -> Option<Rounding> {
    match r { Approximation::Exact(_) => None, Approximation::Inexact(_, a) => Some(a) }
}
/// scaling numerator and denominator by c > 0 does not change the rounding
pub proof fn lemma_tf_round_scale(m: Mode, X: int, D: int, c: int, r: int)
    requires D > 0, c > 0, round_def(m, X, D, r)
    ensures round_def(m, X * c, D * c, r), (r * D == X) == (r * (D * c) == X * c)
{
    let R = r * D;
    let (X2, D2) = (X * c, D * c);
    let R2 = r * D2;
    assert(R2 == R * c) by (nonlinear_arith) requires R2 == r * D2, D2 == D * c, R == r * D;
    let e = R - X;
    let e2 = R2 - X2;
    assert(e2 == e * c) by (nonlinear_arith) requires e2 == R2 - X2, R2 == R * c, X2 == X * c, e == R - X;
    assert(-D2 < e2 && e2 < D2) by (nonlinear_arith) requires e2 == e * c, D2 == D * c, -D < e, e < D, c > 0;
    assert((e == 0) == (e2 == 0)) by (nonlinear_arith) requires e2 == e * c, c > 0;
    assert((e > 0) == (e2 > 0)) by (nonlinear_arith) requires e2 == e * c, c > 0;
    assert((X > 0) == (X2 > 0) && (X < 0) == (X2 < 0)) by (nonlinear_arith) requires X2 == X * c, c > 0;
    assert((R > 0) == (R2 > 0) && (R < 0) == (R2 < 0)) by (nonlinear_arith) requires R2 == R * c, c > 0;
    let (a, a2) = (iabs(e), iabs(e2));
    assert(a2 == a * c) by (nonlinear_arith) requires e2 == e * c, c > 0, a == (if e < 0 { -e } else { e }), a2 == (if e2 < 0 { -e2 } else { e2 });
    assert((2 * a <= D) == (2 * a2 <= D2) && (2 * a == D) == (2 * a2 == D2)) by (nonlinear_arith)
        requires a2 == a * c, D2 == D * c, c > 0;
}
/// two p-digit windows around the same number cannot be a factor b^f, f >= 1, apart
pub proof fn lemma_tf_window_lt(b: int, aN: int, D: int, A1: int, K1: int, A2: int, K2: int, F: int, P: int, Pm: int)
    requires b >= 2, D > 0, A1 >= 1, K1 >= 1, A2 >= 1, K2 >= 1, F >= b, Pm >= 1, P == b * Pm, aN >= 0,
        Pm * (D * K1) <= aN * A1, aN * A2 < P * (D * K2), K1 * A2 == F * (K2 * A1),
    ensures false
{
    let z = K2 * A1;
    let W = D * z;
    assert(z >= 1) by (nonlinear_arith) requires z == K2 * A1, K2 >= 1, A1 >= 1;
    assert(W > 0) by (nonlinear_arith) requires W == D * z, D > 0, z >= 1;
    let mid = aN * A1 * A2;
    let lhs = Pm * (D * K1);
    let l2 = lhs * A2;
    assert(l2 <= mid) by (nonlinear_arith) requires l2 == lhs * A2, lhs <= aN * A1, mid == aN * A1 * A2, A2 >= 1;
    let PmD = Pm * D;
    let z1 = K1 * A2;
    assert(l2 == PmD * z1) by (nonlinear_arith) requires l2 == lhs * A2, lhs == Pm * (D * K1), PmD == Pm * D, z1 == K1 * A2;
    let Pf = Pm * F;
    assert(PmD * z1 == Pf * W) by (nonlinear_arith) requires z1 == F * z, W == D * z, PmD == Pm * D, Pf == Pm * F;
    let rhs = P * (D * K2);
    let r2 = rhs * A1;
    let t = aN * A2;
    assert(mid == t * A1) by (nonlinear_arith) requires mid == aN * A1 * A2, t == aN * A2;
    assert(t * A1 < r2) by (nonlinear_arith) requires t < rhs, r2 == rhs * A1, A1 >= 1;
    assert(r2 == P * W) by (nonlinear_arith) requires r2 == rhs * A1, rhs == P * (D * K2), W == D * z, z == K2 * A1;
    assert(Pf >= P) by (nonlinear_arith) requires Pf == Pm * F, P == b * Pm, F >= b, Pm >= 1;
    assert(Pf * W >= P * W) by (nonlinear_arith) requires Pf >= P, W > 0;
}
/// two representations that equal the same third one are equal
pub proof fn lemma_tf_same_value_trans(b: int, s1: int, e1: int, s2: int, e2: int, mm: int, e: int)
    requires b >= 2, same_value(b, s1, e1, mm, e), same_value(b, s2, e2, mm, e)
    ensures same_value(b, s1, e1, s2, e2)
{
    // scale everything to the smallest exponent
    let lo = if e1 <= e2 { if e1 <= e { e1 } else { e } } else { if e2 <= e { e2 } else { e } };
    let (d1, d2, d) = ((e1 - lo) as nat, (e2 - lo) as nat, (e - lo) as nat);
    let (p1, p2, pm) = (ipow(b, d1), ipow(b, d2), ipow(b, d));
    lemma_ipow_pos(b, d1); lemma_ipow_pos(b, d2); lemma_ipow_pos(b, d);
    // s1 * p1 == mm * pm
    if e1 <= e {
        let g = (e - e1) as nat;
        lemma_ipow_add(b, g, d1);
        assert(g + d1 == d);
        let pg = ipow(b, g);
        assert(s1 * p1 == mm * pm) by (nonlinear_arith) requires s1 == mm * pg, pm == pg * p1;
    } else {
        let g = (e1 - e) as nat;
        lemma_ipow_add(b, g, d);
        assert(g + d == d1);
        let pg = ipow(b, g);
        assert(s1 * p1 == mm * pm) by (nonlinear_arith) requires mm == s1 * pg, p1 == pg * pm;
    }
    if e2 <= e {
        let g = (e - e2) as nat;
        lemma_ipow_add(b, g, d2);
        assert(g + d2 == d);
        let pg = ipow(b, g);
        assert(s2 * p2 == mm * pm) by (nonlinear_arith) requires s2 == mm * pg, pm == pg * p2;
    } else {
        let g = (e2 - e) as nat;
        lemma_ipow_add(b, g, d);
        assert(g + d == d2);
        let pg = ipow(b, g);
        assert(s2 * p2 == mm * pm) by (nonlinear_arith) requires mm == s2 * pg, p2 == pg * pm;
    }
    // s1 * p1 == s2 * p2, and p1 / p2 differ by b^|e1 - e2|
    if e1 <= e2 {
        let g = (e2 - e1) as nat;
        lemma_ipow_add(b, g, d1);
        assert(g + d1 == d2);
        let pg = ipow(b, g);
        let x = s2 * pg;
        assert(s1 * p1 == x * p1) by (nonlinear_arith) requires s1 * p1 == s2 * p2, p2 == pg * p1, x == s2 * pg;
        assert(s1 == x) by (nonlinear_arith) requires s1 * p1 == x * p1, p1 >= 1;
    } else {
        let g = (e1 - e2) as nat;
        lemma_ipow_add(b, g, d2);
        assert(g + d2 == d1);
        let pg = ipow(b, g);
        let x = s1 * pg;
        assert(s2 * p2 == x * p2) by (nonlinear_arith) requires s1 * p1 == s2 * p2, p1 == pg * p2, x == s1 * pg;
        assert(s2 == x) by (nonlinear_arith) requires s2 * p2 == x * p2, p2 >= 1;
    }
}
/// one direction of the uniqueness argument: the second witness has the finer (or equal) scaling, s2 - s1 = k2 - k1 = d >= 0
pub proof fn lemma_tf_unique_step<const B: Word>(m: Mode, b: int, p: nat, N: int, D: int, s1: nat, k1: nat, mm1: int, ra: Rounded<Repr<B>>,
        s2: nat, k2: nat, mm2: int, rb: Rounded<Repr<B>>)
    requires b >= 2, p >= 1, D > 0, s1 <= s2, s2 - s1 == k2 - k1,
        ratio_round_wit(m, b, p, N, D, s1, k1, mm1, ra), ratio_round_wit(m, b, p, N, D, s2, k2, mm2, rb),
    ensures mm1 == mm2, tf_flag(ra) == tf_flag(rb),
{
    let d = (s2 - s1) as nat;
    let c = ipow(b, d);
    lemma_ipow_pos(b, d);
    lemma_ipow_add(b, s1, d);
    lemma_ipow_add(b, k1, d);
    let (A1, K1) = (ipow(b, s1), ipow(b, k1));
    lemma_ipow_pos(b, k1);
    let (X1, Dn1) = (N * A1, D * K1);
    let (X2, Dn2) = (N * ipow(b, s2), D * ipow(b, k2));
    assert(s1 + d == s2 && k1 + d == k2);
    assert(X2 == X1 * c) by (nonlinear_arith) requires X2 == N * (A1 * c), X1 == N * A1;
    assert(Dn2 == Dn1 * c) by (nonlinear_arith) requires Dn2 == D * (K1 * c), Dn1 == D * K1;
    assert(Dn1 > 0) by (nonlinear_arith) requires Dn1 == D * K1, D > 0, K1 >= 1;
    lemma_tf_round_scale(m, X1, Dn1, c, mm1);
    lemma_round_def_unique(m, X2, Dn2, mm1, mm2);
    match (ra, rb) {
        (Approximation::Inexact(_, a1), Approximation::Inexact(_, a2)) => {
            lemma_tf_round_scale(Mode::Zero, X1, Dn1, c, mm1 - adj_int(a1));
            lemma_round_def_unique(Mode::Zero, X2, Dn2, mm1 - adj_int(a1), mm2 - adj_int(a2));
        }
        _ => {}
    }
}
/// THE specification is functional: two accepted answers have the same value and the same flag
pub proof fn lemma_tf_unique<const B: Word>(m: Mode, b: int, p: nat, N: int, D: int, ra: Rounded<Repr<B>>, rb: Rounded<Repr<B>>)
    requires b >= 2, p >= 1, D > 0, ratio_round_once(m, b, p, N, D, ra), ratio_round_once(m, b, p, N, D, rb)
    ensures same_value(b, rd_val(ra).significand.v(), rd_val(ra).exponent as int, rd_val(rb).significand.v(), rd_val(rb).exponent as int),
        tf_flag(ra) == tf_flag(rb),
{
    if N == 0 {
        lemma_tf_ipow1(b);
        assert(0 * ipow(b, 0) == 0);
    } else {
        let (s1, k1, mm1) = choose|s: nat, k: nat, mm: int| #[trigger] ratio_round_wit(m, b, p, N, D, s, k, mm, ra);
        let (s2, k2, mm2) = choose|s: nat, k: nat, mm: int| #[trigger] ratio_round_wit(m, b, p, N, D, s, k, mm, rb);
        let (A1, K1, A2, K2) = (ipow(b, s1), ipow(b, k1), ipow(b, s2), ipow(b, k2));
        lemma_ipow_pos(b, s1); lemma_ipow_pos(b, k1); lemma_ipow_pos(b, s2); lemma_ipow_pos(b, k2);
        let (P, Pm) = (ipow(b, p), ipow(b, (p - 1) as nat));
        lemma_ipow_pos(b, (p - 1) as nat);
        assert(P == b * Pm);
        lemma_tf_abs_mul(N, A1);
        lemma_tf_abs_mul(N, A2);
        let aN = iabs(N);
        lemma_tf_ipow1(b);
        if k1 + s2 > k2 + s1 {
            let f = (k1 + s2 - k2 - s1) as nat;
            lemma_ipow_add(b, k1, s2);
            lemma_ipow_add(b, k2, s1);
            lemma_ipow_add(b, f, k2 + s1);
            assert(f + (k2 + s1) == k1 + s2);
            lemma_ipow_mono(b, 1, f);
            lemma_tf_window_lt(b, aN, D, A1, K1, A2, K2, ipow(b, f), P, Pm);
        } else if k2 + s1 > k1 + s2 {
            let f = (k2 + s1 - k1 - s2) as nat;
            lemma_ipow_add(b, k2, s1);
            lemma_ipow_add(b, k1, s2);
            lemma_ipow_add(b, f, k1 + s2);
            assert(f + (k1 + s2) == k2 + s1);
            lemma_ipow_mono(b, 1, f);
            lemma_tf_window_lt(b, aN, D, A2, K2, A1, K1, ipow(b, f), P, Pm);
        }
        assert(k1 - s1 == k2 - s2);
        if s1 <= s2 {
            lemma_tf_unique_step(m, b, p, N, D, s1, k1, mm1, ra, s2, k2, mm2, rb);
        } else {
            lemma_tf_unique_step(m, b, p, N, D, s2, k2, mm2, rb, s1, k1, mm1, ra);
        }
        lemma_tf_same_value_trans(b, rd_val(ra).significand.v(), rd_val(ra).exponent as int,
            rd_val(rb).significand.v(), rd_val(rb).exponent as int, mm1, k1 - s1);
    }
}
/// known answers (regression inputs of the two repairs): the spec accepts the correct float and rejects what the earlier
/// versions returned.  1497/1000 -> 1 digit, HalfAway, base 10: correct 1 (Inexact, NoOp); double rounding gave 2.
/// 127/26 -> 1 digit, HalfAway, base 3: correct 2 * 3^1 (Inexact, AddOne); the sticky digit gave 1 * 3^1.
pub proof fn lemma_tf_known_answers(good10: Rounded<Repr<10>>, bad10: Rounded<Repr<10>>, good3: Rounded<Repr<3>>, bad3: Rounded<Repr<3>>)
    requires
        good10 matches Approximation::Inexact(r, a) && r.significand.v() == 1 && r.exponent == 0 && a == Rounding::NoOp,
        rd_val(bad10).significand.v() == 2 && rd_val(bad10).exponent == 0,
        good3 matches Approximation::Inexact(r, a) && r.significand.v() == 2 && r.exponent == 1 && a == Rounding::AddOne,
        rd_val(bad3).significand.v() == 1 && rd_val(bad3).exponent == 1,
    ensures
        ratio_round_once(Mode::HalfAway, 10, 1, 1497, 1000, good10), !ratio_round_once(Mode::HalfAway, 10, 1, 1497, 1000, bad10),
        ratio_round_once(Mode::HalfAway, 3, 1, 127, 26, good3), !ratio_round_once(Mode::HalfAway, 3, 1, 127, 26, bad3),
{
    lemma_tf_ipow1(10);
    lemma_tf_ipow1(3);
    // 1497/1000 = 1.497: unit 10^0, s = k = 0, mm = 1
    assert(ratio_round_wit(Mode::HalfAway, 10, 1, 1497, 1000, 0, 0, 1, good10));
    if ratio_round_once(Mode::HalfAway, 10, 1, 1497, 1000, bad10) {
        lemma_tf_unique(Mode::HalfAway, 10, 1, 1497, 1000, good10, bad10);
        assert(false);
    }
    // 127/26 = 4.88..: unit 3^1, s = 0, k = 1, mm = 2 (4.88 / 3 = 1.63 -> 2), trunc = 1, adj = +1
    assert(ratio_round_wit(Mode::HalfAway, 3, 1, 127, 26, 0, 1, 2, good3));
    if ratio_round_once(Mode::HalfAway, 3, 1, 127, 26, bad3) {
        lemma_tf_unique(Mode::HalfAway, 3, 1, 127, 26, good3, bad3);
        assert(false);
    }
}
