// ---- basering_gcd_traits.rs: the private traits of base/src/ring/gcd.rs mirrored, so that the method calls of the real code
// (`a.unchecked_gcd(b)`, `r.unchecked_gcd_ext(new_r)`) resolve.  NOT trusted: every impl forwards to the hoisted (rule D2) VERIFIED
// function of the same unit, and Verus checks the forwarding body against the trait contract.
use core::mem::replace;
/// core::mem::replace (TRUSTED: definition in `core`)
pub assume_specification<T> [core::mem::replace::<T>] (dest: &mut T, src: T) -> (r: T)
    ensures r == *old(dest), *final(dest) == src;

/// base/src/ring/gcd.rs panic_gcd_0_0: `total` reading, the documented panic gcd(0, 0) is the precondition of gcd / gcd_ext
#[verifier::external_body]
pub fn panic_gcd_0_0() -> ! requires false { unimplemented!() }

pub trait UncheckedGcd<Rhs = Self>: Sized {
    type Output;
    spec fn ugcd_req(self, rhs: Rhs) -> bool;
    spec fn ugcd_post(self, rhs: Rhs, r: Self::Output) -> bool;
    fn unchecked_gcd(self, rhs: Rhs) -> (r: Self::Output)
        requires self.ugcd_req(rhs),
        ensures self.ugcd_post(rhs, r);
}
pub trait UncheckedExtendedGcd<Rhs = Self>: Sized {
    type OutputGcd;
    type OutputCoeff;
    spec fn ugcd_ext_req(self, rhs: Rhs) -> bool;
    spec fn ugcd_ext_post(self, rhs: Rhs, r: (Self::OutputGcd, Self::OutputCoeff, Self::OutputCoeff)) -> bool;
    fn unchecked_gcd_ext(self, rhs: Rhs) -> (r: (Self::OutputGcd, Self::OutputCoeff, Self::OutputCoeff))
        requires self.ugcd_ext_req(rhs),
        ensures self.ugcd_ext_post(rhs, r);
}
