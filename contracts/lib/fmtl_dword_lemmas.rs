// ---- fmtl_dword_lemmas.rs: arithmetic of PreparedDword::new (fmt/non_power_two.rs:160-211), all PROVED -------------
// Needs lib/prelude.rs, lib/shift_bv.rs, lib/div_word_lemmas.rs (lemma_dw_normalize), lib/codecs_fmt_stubs.rs,
// lib/codecs_digit_lemmas.rs.

/// the digits produced so far, d[s..MAXD), and the part `rest` of the number that is still to be printed:
///   dw == rest * r^(digits so far) + value of the digits;  once nothing is left the string starts with a non-zero digit
pub open spec fn dw_state(dw: int, r: int, rest: int, d: Seq<u8>, s: int) -> bool {
    let mx = radix::MAX_DWORD_DIGITS_NON_POW_2 as int;
    &&& 0 <= s <= mx && d.len() == mx && rest >= 0
    &&& digits_ok(d, s, mx, r)
    &&& dw == rest * ipow(r, mx - s) + dval(d, s, mx, r)
    &&& rest == 0 ==> s < mx && d[s] != 0
}

/// one more digit `dig` in front: rest0 == rest1 * r + dig
pub proof fn lemma_fd_step(dw: int, r: int, rest0: int, d0: Seq<u8>, s0: int, rest1: int, dig: int, d1: Seq<u8>)
    requires r >= 2, dw_state(dw, r, rest0, d0, s0), s0 >= 1, rest0 >= 1, rest0 == rest1 * r + dig, 0 <= dig < r, dig < 256, rest1 >= 0,
        d1 == d0.update(s0 - 1, dig as u8),
    ensures dw_state(dw, r, rest1, d1, s0 - 1),
{
    let mx = radix::MAX_DWORD_DIGITS_NON_POW_2 as int;
    let p = ipow(r, mx - s0);
    lemma_dval_ext(d0, d1, s0, mx, r);
    assert(ipow(r, mx - (s0 - 1)) == r * p);
    assert(rest0 * p + dval(d0, s0, mx, r) == rest1 * (r * p) + (dig * p + dval(d0, s0, mx, r))) by (nonlinear_arith)
        requires rest0 == rest1 * r + dig;
    assert(d1[s0 - 1] as int == dig);
    assert forall|k: int| s0 - 1 <= k < mx implies (#[trigger] d1[k] as int) < r by {
        if k >= s0 { assert(d1[k] == d0[k]); }
    }
    if rest1 == 0 {
        assert(rest1 * r == 0) by (nonlinear_arith) requires rest1 == 0;
    }
}

/// part a * r^m + pc with pc == pn * r + dig: one digit taken from pc
pub proof fn lemma_fd_rest_step(a: int, r: int, m: int, pc: int, pn: int, dig: int)
    requires r >= 2, m >= 1, a >= 0, 0 <= pc < ipow(r, m), pc == pn * r + dig, 0 <= dig < r,
    ensures a * ipow(r, m) + pc == (a * ipow(r, m - 1) + pn) * r + dig, 0 <= pn < ipow(r, m - 1),
        a * ipow(r, m - 1) + pn >= 0,
{
    let p = ipow(r, m - 1);
    lemma_ipow_pos(r, m - 1);
    assert(ipow(r, m) == r * p);
    assert(a * (r * p) + (pn * r + dig) == (a * p + pn) * r + dig) by (nonlinear_arith);
    assert(pn < p && pn >= 0) by (nonlinear_arith) requires pn * r + dig < r * p, 0 <= dig < r, r >= 2, pn * r + dig >= 0;
    assert(a * p >= 0) by (nonlinear_arith) requires a >= 0, p >= 1;
}

/// there is room for one more digit while something is left: r^n <= dw < B^2 <= 3^MAXD <= r^MAXD
pub proof fn lemma_fd_room(dw: int, r: int, rest: int, d: Seq<u8>, s: int)
    requires r >= 3, dw_state(dw, r, rest, d, s), rest >= 1, dw < B() * B(),
    ensures s >= 1,
{
    let mx = radix::MAX_DWORD_DIGITS_NON_POW_2 as int;
    if s == 0 {
        lemma_dval_bound(d, 0, mx, r);
        let p = ipow(r, mx);
        lemma_ipow_pos(r, mx);
        assert(rest * p >= p) by (nonlinear_arith) requires rest >= 1, p >= 1;
        lemma_ipow_base_mono(3, r, mx);
        assert(B() * B() <= ipow(3, radix::MAX_DWORD_DIGITS_NON_POW_2 as int)) by (compute);
    }
}

/// x * p == q * (rr * p) + t with 0 <= t < rr * p:  t is a multiple of p and  x == q * rr + t / p,  t / p < rr
pub proof fn lemma_fd_unshift(x: int, q: int, rr: int, p: int, t: int)
    requires p >= 1, x * p == q * (rr * p) + t, 0 <= t < rr * p,
    ensures t % p == 0, x == q * rr + t / p, 0 <= t / p < rr,
{
    let u = x - q * rr;
    assert(t == u * p) by (nonlinear_arith) requires x * p == q * (rr * p) + t, u == x - q * rr;
    assert(u >= 0) by (nonlinear_arith) requires t == u * p, t >= 0, p >= 1;
    lemma_mul_div_exact(u, p);
    assert(u < rr) by (nonlinear_arith) requires t == u * p, t < rr * p, p >= 1;
}

/// the normalisation shift of range_per_word is at most 5 (range_per_word * radix >= B, radix <= 36 < 64)
pub proof fn lemma_fd_shift_small(radix: Digit, rp: Word)
    requires radix_ok(radix), rp as int == rpw(radix),
    ensures radix::nlz(rp) <= 5, 0 <= radix::nlz(rp), 1 <= pow2(radix::nlz(rp)) <= 32,
        (rp << (radix::nlz(rp) as u32)) as int == rpw(radix) * pow2(radix::nlz(rp)),
{
    broadcast use radix::ax_dpw;
    let s = radix::nlz(rp);
    lemma_dw_normalize(rp);
    let p = pow2(s);
    let w = rp as int;
    assert(w * p < B());
    if s >= 6 {
        lemma_sh_pow2_mono(6, s);
        assert(pow2(6) == 64) by (compute);
        assert(w * p >= w * 64) by (nonlinear_arith) requires p >= 64, w >= 0;
        assert(w * (radix as int) <= w * 36) by (nonlinear_arith) requires w >= 0, radix <= 36;
    }
    lemma_sh_pow2_mono(s, 5);
    assert(pow2(5) == 32) by (compute);
}

/// the three-part split of PreparedDword::new.  s-shifted operands:  P = 2^shift, D = R * P.
///   lo + mid*B + hi*B^2 == dw * P                          (shl_dword)
///   (q1, r1) = divmod(mid + hi*B, D), (q0, p0s) = divmod(lo + r1*B, D)
///   q == (q0 + q1*B) * P,  (p2, p1s) = divmod(q, D)
/// ==> dw == p2*R^2 + (p1s/P)*R + p0s/P  with both remainders below R
pub proof fn lemma_fd_split3(dw: int, rr: int, p: int, lo: int, mid: int, hi: int, q1: int, r1: int, q0: int, p0s: int,
                             q: int, p2: int, p1s: int)
    requires p >= 1, rr >= 1, 0 <= lo < B(),
        lo + mid * B() + hi * (B() * B()) == dw * p,
        mid + hi * B() == q1 * (rr * p) + r1, 0 <= r1 < rr * p,
        lo + r1 * B() == q0 * (rr * p) + p0s, 0 <= p0s < rr * p,
        q == (q0 + q1 * B()) * p,
        q == p2 * (rr * p) + p1s, 0 <= p1s < rr * p,
    ensures p0s % p == 0, p1s % p == 0, 0 <= p0s / p < rr, 0 <= p1s / p < rr,
        dw == (p2 * rr + p1s / p) * rr + p0s / p,
        dw == (q0 + q1 * B()) * rr + p0s / p,
{
    let d = rr * p;
    let qd = q0 + q1 * B();
    assert(dw * p == qd * d + p0s) by (nonlinear_arith)
        requires lo + mid * B() + hi * (B() * B()) == dw * p, mid + hi * B() == q1 * d + r1, lo + r1 * B() == q0 * d + p0s,
            qd == q0 + q1 * B();
    lemma_fd_unshift(dw, qd, rr, p, p0s);
    lemma_fd_unshift(qd, p2, rr, p, p1s);
}

/// preconditions of the three divisions and of the shift of the quotient (no overflow), from dw < B^2 and R*36 >= B
pub proof fn lemma_fd_pre1(dw: int, p: int, lo: int, mid: int, hi: int, d: int)
    requires 1 <= p, p * 2 <= B(), 0 <= dw < B() * B(), 0 <= lo, 0 <= mid < B(), 0 <= hi,
        lo + mid * B() + hi * (B() * B()) == dw * p, d * 2 >= B(),
    ensures mid + hi * B() < d * B(),
{
    let bb = B() * B();
    assert(hi < p) by (nonlinear_arith) requires hi * bb <= dw * p, dw < bb, bb >= 1, p >= 1, hi >= 0;
    assert(hi * B() + mid < d * B()) by (nonlinear_arith) requires hi + 1 <= d, mid < B(), B() >= 1;
}

pub proof fn lemma_fd_pre2(dw: int, rr: int, p: int, qd: int, p0: int)
    requires 1 <= p <= 32, rr >= 1, rr * 36 >= B(), 0 <= dw < B() * B(), dw == qd * rr + p0, p0 >= 0, qd >= 0,
    ensures qd * p < B() * B(), qd * p < (rr * p) * B(),
{
    let b = B();
    assert(qd < 36 * b) by (nonlinear_arith) requires qd * rr <= dw, dw < b * b, rr * 36 >= b, b >= 1, qd >= 0, rr >= 1;
    assert(qd * p < b * b) by (nonlinear_arith) requires qd < 36 * b, 1 <= p <= 32, b >= 1296, qd >= 0;
    assert(qd < rr * b) by (nonlinear_arith) requires qd < 36 * b, rr * 36 >= b, b >= 1296, rr >= 1;
    assert(qd * p < (rr * p) * b) by (nonlinear_arith) requires qd < rr * b, p >= 1;
}

pub proof fn lemma_fd_dword_bound(d: DoubleWord)
    ensures (d as int) < B() * B(),
{
    assert(B() * B() == @B@ * @B@) by (nonlinear_arith) requires B() == @B@;
    assert((d as int) < @B@ * @B@) by (nonlinear_arith) requires d <= DoubleWord::MAX, DoubleWord::MAX == @B@ * @B@ - 1;
}
