// ---- gcdo_log_stubs.rs: stubs + lemmas for unit int_log (integer/src/log.rs `mod repr` log_dword). Word = @W@ ----------
// Needs lib/prelude.rs, lib/sign.rs, lib/repr_stubs.rs.  Every external_body / assume_specification is TRUSTED.

/// b^e
pub open spec fn lpw(b: int, e: nat) -> int decreases e { if e == 0 { 1 } else { b * lpw(b, (e - 1) as nat) } }

// dashu_base::EstimatedLog2 for DoubleWord: two floats; `l2_of(f, x)` only records which number a float was computed from
pub uninterp spec fn l2_of(f: f32, x: int) -> bool;
pub trait EstimatedLog2 { fn log2_bounds(&self) -> (f32, f32); }
impl EstimatedLog2 for DoubleWord {
    #[verifier::external_body]
    fn log2_bounds(&self) -> (r: (f32, f32)) ensures l2_of(r.0, *self as int), l2_of(r.1, *self as int) { unimplemented!() }
}
// rule D10b: `(log2_self / log2_base) as u32`.  The estimate is ARBITRARY except for ONE TRUSTED claim: it is small enough
// for `base.pow(est)` to be representable (a power that does not fit panics in debug builds and WRAPS in release builds --
// a wrapped power below the target would pass the run-time guard and give a wrong logarithm).  Whether the estimate is an
// under- or an overestimate of the logarithm is NOT assumed: the run-time guard `assert!(est_pow <= target)` and the
// correction loop decide the result.
#[verifier::external_body]
pub fn __f32_est0(log2_self: f32, log2_base: f32) -> (r: u32)
    ensures forall|b: int| #![trigger l2_of(log2_base, b)] l2_of(log2_base, b) && b >= 2 ==> lpw(b, r as nat) <= @D@::MAX as int,
{ unimplemented!() }
// rule D4a with `#[assert_guard]`: a failing run-time assertion never returns
#[verifier::external_body]
pub fn __assert_failed() -> ! { unimplemented!() }

// core: @D@::pow.  A power that does not fit PANICS in debug builds and WRAPS in release builds; stated for both at once:
// when the mathematical power fits it is returned, otherwise NOTHING is known about the result (an arbitrary double word)
pub assume_specification [@D@::pow] (b: @D@, e: u32) -> (r: @D@)
    ensures lpw(b as int, e as nat) <= @D@::MAX as int ==> r as int == lpw(b as int, e as nat);
pub assume_specification [core::cmp::Ordering::is_le] (o: core::cmp::Ordering) -> (r: bool)
    ensures r == (o != core::cmp::Ordering::Greater);
pub assume_specification [core::cmp::Ordering::is_ge] (o: core::cmp::Ordering) -> (r: bool)
    ensures r == (o != core::cmp::Ordering::Less);

pub assume_specification [core::cmp::Ordering::is_lt] (o: core::cmp::Ordering) -> (r: bool)
    ensures r == (o == core::cmp::Ordering::Less);
pub assume_specification [core::cmp::Ordering::is_gt] (o: core::cmp::Ordering) -> (r: bool)
    ensures r == (o == core::cmp::Ordering::Greater);

pub mod error {
use super::*;
/// integer/src/error.rs panic_invalid_log_oprand: the documented panic of ilog(0, _) / ilog(_, 0 | 1); `requires false`:
/// a verified caller proves it unreachable under its own precondition
#[verifier::external_body]
pub fn panic_invalid_log_oprand() -> !
    requires false,
{ unimplemented!() }
}
pub use error::panic_invalid_log_oprand;

pub proof fn lemma_lpw_1(b: int)
    ensures lpw(b, 0) == 1, lpw(b, 1) == b,
{
    assert(lpw(b, 1) == b * lpw(b, 0));
}
pub proof fn lemma_lpw_ge(b: int, e: nat)
    requires b >= 2,
    ensures lpw(b, e) >= lpw(2, e), lpw(b, e) >= 1,
    decreases e
{
    if e > 0 {
        lemma_lpw_ge(b, (e - 1) as nat);
        lemma_lpw_ge(2, (e - 1) as nat);
        assert(b * lpw(b, (e - 1) as nat) >= 2 * lpw(2, (e - 1) as nat)) by (nonlinear_arith)
            requires b >= 2, lpw(b, (e - 1) as nat) >= lpw(2, (e - 1) as nat), lpw(2, (e - 1) as nat) >= 1;
    }
}
pub proof fn lemma_lpw2_mono(a: nat, c: nat)
    requires a <= c,
    ensures lpw(2, a) <= lpw(2, c),
    decreases c
{
    if a < c {
        lemma_lpw2_mono(a, (c - 1) as nat);
        lemma_lpw_ge(2, (c - 1) as nat);
    }
}
pub proof fn lemma_lpw2_dword()
    ensures lpw(2, 2 * @BITS@) == B() * B(),
{
    assert(lpw(2, 2 * @BITS@) == B() * B()) by (compute);
}
/// a power of b >= 2 below a double word has an exponent below 2*BITS
pub proof fn lemma_lpw_est_small(b: int, e: nat, t: int)
    requires b >= 2, lpw(b, e) <= t, t < B() * B(),
    ensures e < 2 * @BITS@,
{
    lemma_lpw_ge(b, e);
    if e >= 2 * @BITS@ {
        lemma_lpw2_mono(2 * @BITS@, e);
        lemma_lpw2_dword();
    }
}
