// ---- shift_ops_lz_64.rs: `u128::leading_zeros` has no vstd specification on this image (only u8..u64).
// TRUSTED core semantics (same class as the assume_specifications of prelude.rs): a value with r leading zero bits
// is below 2^(128 - r); zero has 128 of them.
pub assume_specification [u128::leading_zeros] (x: u128) -> (r: u32)
    ensures r <= 128, x == 0 <==> r == 128, (x as int) < pow2(128 - r), x != 0 ==> (x as int) >= pow2(127 - r);
