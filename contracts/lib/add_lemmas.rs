// ---- lemmas for integer/src/add.rs ------------------------------------------------------------
pub proof fn lemma_add_one_all(s: Seq<Word>, t: Seq<Word>, n: int)
    requires 0 <= n <= s.len(), s.len() == t.len(),
        forall|j: int| 0 <= j < n ==> t[j] == 0 && s[j] == Word::MAX,
    ensures valn(t, n) + pw(n) == valn(s, n) + 1,
    decreases n
{
    if n > 0 {
        lemma_add_one_all(s, t, n - 1);
        assert(valn(s, n) == valn(s, n - 1) + (B() - 1) * pw(n - 1));
        assert((B() - 1) * pw(n - 1) == B() * pw(n - 1) - pw(n - 1)) by (nonlinear_arith);
    }
}

pub proof fn lemma_add_one_done(s: Seq<Word>, t: Seq<Word>, k: int)
    requires 0 <= k < s.len(), s.len() == t.len(),
        forall|j: int| 0 <= j < k ==> t[j] == 0 && s[j] == Word::MAX,
        t[k] as int == s[k] as int + 1,
        forall|j: int| k < j < s.len() ==> t[j] == s[j],
    ensures val(t) == val(s) + 1,
{
    lemma_add_one_all(s, t, k);
    lemma_valn_tail(s, t, k + 1, s.len() as int);
    assert(valn(t, k + 1) == valn(t, k) + (t[k] as int) * pw(k));
    assert(valn(s, k + 1) == valn(s, k) + (s[k] as int) * pw(k));
    assert((s[k] as int + 1) * pw(k) == (s[k] as int) * pw(k) + pw(k)) by (nonlinear_arith);
}

pub proof fn lemma_carry_step(a: int, b: int, cin: int, s: int, cout: int, p: int)
    requires s + cout * B() == a + b + cin,
    ensures s * p + cout * (B() * p) == a * p + b * p + cin * p,
{
    assert((s + cout * B()) * p == s * p + cout * (B() * p)) by (nonlinear_arith);
    assert((a + b + cin) * p == a * p + b * p + cin * p) by (nonlinear_arith);
}

pub proof fn lemma_borrow_step(a: int, b: int, cin: int, s: int, cout: int, p: int)
    requires s - cout * B() == a - b - cin,
    ensures s * p - cout * (B() * p) == a * p - b * p - cin * p,
{
    assert((s - cout * B()) * p == s * p - cout * (B() * p)) by (nonlinear_arith);
    assert((a - b - cin) * p == a * p - b * p - cin * p) by (nonlinear_arith);
}

/// as lemma_hi_carry with B^2 in place of B
pub proof fn lemma_hi_carry2(hi1: int, hi0: int, cin: int, cout: int, p: int)
    requires (cin == 0 && cout == 0 && hi1 == hi0) || (cin == 1 && hi1 + cout * p == hi0 + 1),
    ensures (B() * B()) * hi1 + cout * ((B() * B()) * p) == (B() * B()) * hi0 + cin * (B() * B()),
{
    lemma_hi_carry_p(hi1, hi0, cin, cout, p, B() * B());
}

// ---- lemmas for sub_in_place_with_sign ----------------------------------------------------------------------

pub proof fn lemma_pw_mono(a: int, b: int)
    requires 0 <= a <= b,
    ensures pw(a) <= pw(b),
    decreases b
{
    if a < b {
        lemma_pw_mono(a, b - 1);
        lemma_pw_pos(b - 1);
        assert(B() * pw(b - 1) >= pw(b - 1)) by (nonlinear_arith) requires pw(b - 1) >= 1, B() >= 1;
    }
}

/// a sequence whose top word (index n-1) is non-zero is at least pw(n-1)
pub proof fn lemma_valn_top(s: Seq<Word>, n: int)
    requires 1 <= n <= s.len(),
    ensures valn(s, n) >= (s[n - 1] as int) * pw(n - 1), valn(s, n) < (s[n - 1] as int + 1) * pw(n - 1),
        s[n - 1] != 0 ==> valn(s, n) >= pw(n - 1),
{
    lemma_valn_bound(s, n - 1);
    lemma_pw_pos(n - 1);
    assert((s[n - 1] as int + 1) * pw(n - 1) == (s[n - 1] as int) * pw(n - 1) + pw(n - 1)) by (nonlinear_arith);
    if s[n - 1] != 0 {
        assert((s[n - 1] as int) * pw(n - 1) >= pw(n - 1)) by (nonlinear_arith)
            requires s[n - 1] as int >= 1, pw(n - 1) >= 1;
    }
}

pub proof fn lemma_val_prefix(s: Seq<Word>, n: int)
    requires 0 <= n <= s.len(),
    ensures val(s.subrange(0, n)) == valn(s, n),
{
    lemma_valn_ext(s, s.subrange(0, n), n);
}

pub proof fn lemma_swsg_greater_pre(lhs: Seq<Word>, rhs: Seq<Word>, l: int, r: int)
    requires 0 <= r < l <= lhs.len(), r <= rhs.len(), lhs[l - 1] != 0,
    ensures valn(lhs, l) > valn(rhs, r),
{
    lemma_valn_top(lhs, l);
    lemma_valn_bound(rhs, r);
    lemma_pw_mono(r, l - 1);
}

pub proof fn lemma_swsg_greater_post(lhs0: Seq<Word>, lhs1: Seq<Word>, rhs: Seq<Word>, l: int, r: int, ov: int)
    requires 0 <= r < l <= lhs0.len(), r <= rhs.len(), lhs0.len() == lhs1.len(),
        valn(lhs0, l) > valn(rhs, r),
        val(lhs0) == valn(lhs0, l), val(rhs) == valn(rhs, r),
        forall|j: int| l <= j < lhs0.len() ==> lhs1[j] == lhs0[j],
        forall|j: int| l <= j < lhs0.len() ==> lhs0[j] == 0,
        0 <= ov <= 1,
        val(lhs1.subrange(0, l)) - ov * pw(l) == val(lhs0.subrange(0, l)) - val(rhs.subrange(0, r)),
    ensures ov == 0, val(lhs1) == val(lhs0) - val(rhs),
{
    lemma_val_prefix(lhs1, l);
    lemma_val_prefix(lhs0, l);
    lemma_val_prefix(rhs, r);
    lemma_valn_bound(lhs1, l);
    lemma_valn_zero(lhs1, l, lhs1.len() as int);
    if ov == 1 {
        assert(ov * pw(l) == pw(l)) by (nonlinear_arith) requires ov == 1;
        assert(false);
    }
    assert(ov * pw(l) == 0) by (nonlinear_arith) requires ov == 0;
}

pub proof fn lemma_swsg_less_mid(rhs: Seq<Word>, l: int, r: int)
    requires 0 <= l < r <= rhs.len(), rhs[r - 1] != 0,
    ensures val(rhs.subrange(l, r)) >= 1,
{
    let m = rhs.subrange(l, r);
    lemma_valn_top(m, r - l);
    lemma_pw_pos(r - l - 1);
}

pub proof fn lemma_swsg_less_post(lhs0: Seq<Word>, lhs1: Seq<Word>, lhs3: Seq<Word>, rhs: Seq<Word>, l: int, r: int, bw: int)
    requires 0 <= l < r <= rhs.len(), rhs.len() <= lhs0.len(), lhs0.len() == lhs1.len(), lhs1.len() == lhs3.len(),
        val(lhs0) == valn(lhs0, l), val(rhs) == valn(rhs, r),
        forall|j: int| l <= j < lhs0.len() ==> lhs0[j] == 0,
        0 <= bw <= 1,
        val(lhs1.subrange(0, l)) - bw * pw(l) == val(rhs.subrange(0, l)) - val(lhs0.subrange(0, l)),
        forall|j: int| 0 <= j < l ==> lhs3[j] == lhs1[j],
        forall|j: int| r <= j < lhs0.len() ==> lhs3[j] == 0,
        val(lhs3.subrange(l, r)) == val(rhs.subrange(l, r)) - bw,
    ensures -val(lhs3) == val(lhs0) - val(rhs),
{
    lemma_val_prefix(lhs1, l);
    lemma_val_prefix(lhs0, l);
    lemma_val_prefix(rhs, l);
    lemma_valn_ext(lhs1, lhs3, l);
    lemma_valn_zero(lhs3, r, lhs3.len() as int);
    // val(lhs3) = valn(lhs3, l) + pw(l) * val(lhs3[l..r])
    lemma_valn_split(lhs3, l, r);
    lemma_valn_split(rhs, l, r);
    let m3 = lhs3.subrange(l, lhs3.len() as int);
    let mr = rhs.subrange(l, rhs.len() as int);
    lemma_valn_ext(m3, lhs3.subrange(l, r), r - l);
    lemma_valn_ext(mr, rhs.subrange(l, r), r - l);
    assert(pw(l) * (val(rhs.subrange(l, r)) - bw) == pw(l) * val(rhs.subrange(l, r)) - bw * pw(l)) by (nonlinear_arith);
}

pub proof fn lemma_swsg_equal_post(lhs0: Seq<Word>, lhs1: Seq<Word>, lhs2: Seq<Word>, rhs: Seq<Word>, n: int, l: int, ov: int)
    requires 1 <= n <= l, l <= rhs.len(), rhs.len() <= lhs0.len(), lhs0.len() == lhs1.len(), lhs1.len() == lhs2.len(),
        val(lhs0) == valn(lhs0, l), val(rhs) == valn(rhs, l),
        forall|j: int| 0 <= j < n ==> lhs1[j] == lhs0[j],
        forall|j: int| n <= j < l ==> lhs1[j] == 0,
        forall|j: int| n <= j < l ==> lhs0[j] == rhs[j],
        forall|j: int| l <= j < lhs0.len() ==> lhs1[j] == 0,
        forall|j: int| n <= j < lhs0.len() ==> lhs2[j] == lhs1[j],
        lhs0[n - 1] > rhs[n - 1],
        0 <= ov <= 1,
        val(lhs2.subrange(0, n)) - ov * pw(n) == val(lhs1.subrange(0, n)) - val(rhs.subrange(0, n)),
    ensures ov == 0, val(lhs2) == val(lhs0) - val(rhs), val(lhs0) != val(rhs),
{
    lemma_val_prefix(lhs2, n);
    lemma_val_prefix(lhs1, n);
    lemma_val_prefix(rhs, n);
    lemma_valn_ext(lhs1, lhs0, n);
    lemma_valn_tail(rhs, lhs0, n, l);
    lemma_valn_zero(lhs2, n, lhs2.len() as int);
    lemma_valn_bound(lhs2, n);
    lemma_valn_top(lhs0, n);
    lemma_valn_top(rhs, n);
    lemma_pw_pos(n - 1);
    assert((lhs0[n - 1] as int) * pw(n - 1) >= (rhs[n - 1] as int + 1) * pw(n - 1)) by (nonlinear_arith)
        requires lhs0[n - 1] as int >= rhs[n - 1] as int + 1, pw(n - 1) >= 1;
    if ov == 1 {
        assert(ov * pw(n) == pw(n)) by (nonlinear_arith) requires ov == 1;
        assert(false);
    }
    assert(ov * pw(n) == 0) by (nonlinear_arith) requires ov == 0;
}

pub proof fn lemma_swsg_equal_post_swap(lhs0: Seq<Word>, lhs1: Seq<Word>, lhs2: Seq<Word>, rhs: Seq<Word>, n: int, l: int, ov: int)
    requires 1 <= n <= l, l <= rhs.len(), rhs.len() <= lhs0.len(), lhs0.len() == lhs1.len(), lhs1.len() == lhs2.len(),
        val(lhs0) == valn(lhs0, l), val(rhs) == valn(rhs, l),
        forall|j: int| 0 <= j < n ==> lhs1[j] == lhs0[j],
        forall|j: int| n <= j < l ==> lhs1[j] == 0,
        forall|j: int| n <= j < l ==> lhs0[j] == rhs[j],
        forall|j: int| l <= j < lhs0.len() ==> lhs1[j] == 0,
        forall|j: int| n <= j < lhs0.len() ==> lhs2[j] == lhs1[j],
        lhs0[n - 1] < rhs[n - 1],
        0 <= ov <= 1,
        val(lhs2.subrange(0, n)) - ov * pw(n) == val(rhs.subrange(0, n)) - val(lhs1.subrange(0, n)),
    ensures ov == 0, -val(lhs2) == val(lhs0) - val(rhs), val(lhs0) != val(rhs),
{
    lemma_val_prefix(lhs2, n);
    lemma_val_prefix(lhs1, n);
    lemma_val_prefix(rhs, n);
    lemma_valn_ext(lhs1, lhs0, n);
    lemma_valn_tail(rhs, lhs0, n, l);
    lemma_valn_zero(lhs2, n, lhs2.len() as int);
    lemma_valn_bound(lhs2, n);
    lemma_valn_top(lhs0, n);
    lemma_valn_top(rhs, n);
    lemma_pw_pos(n - 1);
    assert((rhs[n - 1] as int) * pw(n - 1) >= (lhs0[n - 1] as int + 1) * pw(n - 1)) by (nonlinear_arith)
        requires rhs[n - 1] as int >= lhs0[n - 1] as int + 1, pw(n - 1) >= 1;
    if ov == 1 {
        assert(ov * pw(n) == pw(n)) by (nonlinear_arith) requires ov == 1;
        assert(false);
    }
    assert(ov * pw(n) == 0) by (nonlinear_arith) requires ov == 0;
}

pub proof fn lemma_swsg_equal_zero(lhs0: Seq<Word>, lhs1: Seq<Word>, rhs: Seq<Word>, l: int)
    requires 0 <= l <= rhs.len(), rhs.len() <= lhs0.len(), lhs0.len() == lhs1.len(),
        val(lhs0) == valn(lhs0, l), val(rhs) == valn(rhs, l),
        forall|j: int| 0 <= j < l ==> lhs1[j] == 0,
        forall|j: int| 0 <= j < l ==> lhs0[j] == rhs[j],
        forall|j: int| l <= j < lhs0.len() ==> lhs1[j] == 0,
    ensures val(lhs1) == 0, val(lhs0) == val(rhs),
{
    lemma_valn_zero(lhs1, 0, lhs1.len() as int);
    lemma_valn_ext(lhs0, rhs, l);
}
