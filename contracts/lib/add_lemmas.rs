// ---- lemmas for integer/src/add.rs ------------------------------------------------------------
pub proof fn lemma_add_one_all(s: Seq<Word>, t: Seq<Word>, n: int)
    requires 0 <= n <= s.len(), s.len() == t.len(),
        forall|j: int| 0 <= j < n ==> t[j] == 0 && s[j] == Word::MAX,
    ensures valn(t, n) + pw(n) == valn(s, n) + 1,
    decreases n
{
    if n > 0 {
        lemma_add_one_all(s, t, n - 1);
        assert(valn(s, n) == valn(s, n - 1) + (B() - 1) * pw(n - 1));
        assert((B() - 1) * pw(n - 1) == B() * pw(n - 1) - pw(n - 1)) by (nonlinear_arith);
    }
}

pub proof fn lemma_add_one_done(s: Seq<Word>, t: Seq<Word>, k: int)
    requires 0 <= k < s.len(), s.len() == t.len(),
        forall|j: int| 0 <= j < k ==> t[j] == 0 && s[j] == Word::MAX,
        t[k] as int == s[k] as int + 1,
        forall|j: int| k < j < s.len() ==> t[j] == s[j],
    ensures val(t) == val(s) + 1,
{
    lemma_add_one_all(s, t, k);
    lemma_valn_tail(s, t, k + 1, s.len() as int);
    assert(valn(t, k + 1) == valn(t, k) + (t[k] as int) * pw(k));
    assert(valn(s, k + 1) == valn(s, k) + (s[k] as int) * pw(k));
    assert((s[k] as int + 1) * pw(k) == (s[k] as int) * pw(k) + pw(k)) by (nonlinear_arith);
}

pub proof fn lemma_carry_step(a: int, b: int, cin: int, s: int, cout: int, p: int)
    requires s + cout * B() == a + b + cin,
    ensures s * p + cout * (B() * p) == a * p + b * p + cin * p,
{
    assert((s + cout * B()) * p == s * p + cout * (B() * p)) by (nonlinear_arith);
    assert((a + b + cin) * p == a * p + b * p + cin * p) by (nonlinear_arith);
}

pub proof fn lemma_borrow_step(a: int, b: int, cin: int, s: int, cout: int, p: int)
    requires s - cout * B() == a - b - cin,
    ensures s * p - cout * (B() * p) == a * p - b * p - cin * p,
{
    assert((s - cout * B()) * p == s * p - cout * (B() * p)) by (nonlinear_arith);
    assert((a - b - cin) * p == a * p - b * p - cin * p) by (nonlinear_arith);
}

/// as lemma_hi_carry with B^2 in place of B
pub proof fn lemma_hi_carry2(hi1: int, hi0: int, cin: int, cout: int, p: int)
    requires (cin == 0 && cout == 0 && hi1 == hi0) || (cin == 1 && hi1 + cout * p == hi0 + 1),
    ensures (B() * B()) * hi1 + cout * ((B() * B()) * p) == (B() * B()) * hi0 + cin * (B() * B()),
{
    lemma_hi_carry_p(hi1, hi0, cin, cout, p, B() * B());
}
