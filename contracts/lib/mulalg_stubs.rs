// ---- mulalg_stubs.rs: types seen by the multiplication / squaring / square-root ALGORITHMS (units int_mul_dispatch,
// int_mul_karatsuba, int_mul_toom3, int_sqr, int_root_sqrt).  Needs lib/prelude.rs + lib/sign.rs.  Word = @W@ --------
use core::ops::{Mul, Neg, MulAssign};
use vstd::std_specs::ops::*;

pub open spec fn sign_mul(a: Sign, b: Sign) -> Sign { if a == b { Sign::Positive } else { Sign::Negative } }
pub open spec fn sign_neg(a: Sign) -> Sign { match a { Sign::Positive => Sign::Negative, Sign::Negative => Sign::Positive } }

// base/src/sign.rs:161 `impl Neg for Sign`, :173 `impl Mul<Sign> for Sign`, :209 `impl MulAssign<Sign> for Sign`:
// the bodies below are the real bodies (three-line matches), VERIFIED here against sign_neg / sign_mul
// (trusted: that they are transcribed faithfully from dashu-base).
impl NegSpecImpl for Sign {
    open spec fn obeys_neg_spec() -> bool { true }
    open spec fn neg_req(self) -> bool { true }
    open spec fn neg_spec(self) -> Sign { sign_neg(self) }
}
impl Neg for Sign { type Output = Sign;
    fn neg(self) -> Sign {
        match self { Sign::Positive => Sign::Negative, Sign::Negative => Sign::Positive }
    }
}
impl MulSpecImpl<Sign> for Sign {
    open spec fn obeys_mul_spec() -> bool { true }
    open spec fn mul_req(self, rhs: Sign) -> bool { true }
    open spec fn mul_spec(self, rhs: Sign) -> Sign { sign_mul(self, rhs) }
}
impl Mul<Sign> for Sign { type Output = Sign;
    fn mul(self, rhs: Sign) -> Sign {
        match (self, rhs) {
            (Sign::Positive, Sign::Positive) => Sign::Positive,
            (Sign::Positive, Sign::Negative) => Sign::Negative,
            (Sign::Negative, Sign::Positive) => Sign::Negative,
            (Sign::Negative, Sign::Negative) => Sign::Positive,
        }
    }
}
impl MulAssignSpecImpl<Sign> for Sign {
    open spec fn obeys_mul_assign_spec() -> bool { true }
    open spec fn mul_assign_req(&self, rhs: Sign) -> bool { true }
    open spec fn mul_assign_spec(&self, rhs: Sign) -> &Sign { &sign_mul(*self, rhs) }
}
impl MulAssign<Sign> for Sign {
    fn mul_assign(&mut self, rhs: Sign) { *self = *self * rhs; }
}

/// integer/src/memory.rs Memory: the scratch allocator.  TRUSTED contracts (raw-pointer code, memory.rs:80-180):
/// allocate_slice_fill(n, v) returns a slice of n copies of v; allocate_slice_copy(src) a copy of src;
/// allocate_slice_copy_fill(n, src, v) src followed by n - |src| copies of v (its own `assert!(n >= source.len())`
/// is the precondition).  A scratch area that is too small makes the real methods PANIC ("not enough memory
/// allocated"): the SIZING of the scratch area (memory_requirement_*) is not verified; it influences no value.
#[verifier::external_body]
pub struct Memory<'a> { _p: &'a u8 }
impl Memory<'_> {
    #[verifier::external_body]
    pub fn allocate_slice_fill<T: Copy>(&mut self, n: usize, val: T) -> (r: (&mut [T], Memory<'_>))
        ensures r.0@.len() == n, forall|i: int| 0 <= i < n ==> r.0@[i] == val,
    { unimplemented!() }
    #[verifier::external_body]
    pub fn allocate_slice_copy<T: Copy>(&mut self, source: &[T]) -> (r: (&mut [T], Memory<'_>))
        ensures r.0@ == source@,
    { unimplemented!() }
    #[verifier::external_body]
    pub fn allocate_slice_copy_fill<T: Copy>(&mut self, n: usize, source: &[T], val: T) -> (r: (&mut [T], Memory<'_>))
        requires n >= source@.len(),
        ensures r.0@.len() == n,
            forall|i: int| 0 <= i < source@.len() ==> r.0@[i] == source@[i],
            forall|i: int| source@.len() <= i < n ==> r.0@[i] == val,
    { unimplemented!() }
}
