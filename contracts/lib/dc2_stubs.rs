// ---- dc2_stubs.rs: what the rest of integer/src/div_const.rs (constructors, accessors, UBig / IBig operator wrappers)
// sees of its surroundings.  Word = @W@.
// Needs lib/prelude.rs, lib/sign.rs, lib/repr_stubs.rs, lib/div_word_stubs.rs, lib/div_dword_stubs.rs,
// lib/div_const_stubs.rs (PreMulInv2by1 / PreMulInv3by2 / Const*Divisor mirrors), lib/div_ops_lemmas.rs (is_div_rem ..).
// The unit needs `#![feature(allocator_api)]` (the Box specification below names the allocator parameter).
//
// EVERY contract in this file is a TRUSTED ASSUMPTION (listed in the evidence).  Groups:
//  (A) read-only accessors of the num_modular wrappers that lib/div_const_stubs.rs lacks:
//        PreMulInv2by1::<Word>::divisor(), PreMulInv3by2::<Word, DoubleWord>::divisor()   (num-modular 0.6.5,
//        src/barrett.rs:287 / 508: "Get the **normalized** divisor", `self.div.divisor`)
//  (B) mirrors of the crate's own types: `pub struct ConstDivisor(pub(crate) ConstDivisorRepr)` (div_const.rs:213),
//        `pub struct UBig(pub(crate) Repr)` (ubig.rs:70), `pub struct IBig(pub(crate) Repr)` (ibig.rs:67) with their
//        one-line accessors transcribed as VERIFIED functions over the trusted Repr stubs of lib/repr_stubs.rs
//  (C) Buffer::into_boxed_slice, Box<[Word]>::as_ref, core::mem::take on UBig / IBig, Clone for UBig / IBig
//  (D) the operator forms the wrappers are written with.  Each is PROVED in the same unit under the hoisted name given
//        in the comment (Verus cannot attach a contract to a foreign-trait impl method, so the operator a caller sees is a
//        stub with the same statement):
//            TypedRepr / &ConstDivisorRepr     = typed_div_const       TypedRepr % &ConstDivisorRepr = typed_rem_const
//            TypedReprRef % &ConstDivisorRepr  = typedref_rem_const    TypedRepr.div_rem(&ConstDivisorRepr) = typed_divrem_const
//            UBig / &ConstDivisor = ubig_div_cd, UBig % &ConstDivisor = ubig_rem_cd, UBig.div_rem(&ConstDivisor) = ubig_divrem_cd
//            IBig / &ConstDivisor = ibig_div_cd, IBig % &ConstDivisor = ibig_rem_cd, IBig.div_rem(&ConstDivisor) = ibig_divrem_cd
//        (stated functionally, `a / d`, `a % d`: the unique (q, r) with is_div_rem(a, d, q, r), lemma_dc2_unique)

// ---- (A) accessors --------------------------------------------------------------------------------------------------
impl PreMulInv2by1<Word> {
    // barrett.rs:287 `self.div.divisor` (a Word field)
    #[verifier::external_body]
    pub const fn divisor(&self) -> (r: Word) ensures r as int == self.dn() { unimplemented!() }
}
impl PreMulInv3by2<Word, DoubleWord> {
    // barrett.rs:508 `self.div.divisor` (a DoubleWord field)
    #[verifier::external_body]
    pub const fn divisor(&self) -> (r: DoubleWord) ensures r as int == self.dn() { unimplemented!() }
}

// ---- (B) the crate's own wrapper types ------------------------------------------------------------------------------
pub struct ConstDivisor(pub ConstDivisorRepr);

/// a prepared divisor as every constructor leaves it: lib/div_const_stubs.rs `wf()` plus "the words of a Large divisor
/// came out of a Buffer" (so that `divisor()` can copy them back into one)
pub open spec fn dc2_wf(c: &ConstDivisorRepr) -> bool {
    c.wf() && (c matches ConstDivisorRepr::Large(d) ==> d.normalized_divisor@.len() <= max_capacity())
}

pub struct UBig(pub Repr);
pub struct IBig(pub Repr);

impl UBig {
    pub open spec fn v(&self) -> int { self.0.v() }
    // ubig.rs:83  `self.0.into_typed()`  (type invariant of UBig: the Repr is non-negative)
    pub fn into_repr(self) -> (r: TypedRepr)
        requires self.0.v() >= 0,
        ensures r.v() == self.0.v(), r.wf(),
    { self.0.into_typed() }
    // ubig.rs:77  `self.0.as_typed()`
    pub fn repr(&self) -> (r: TypedReprRef<'_>)
        requires self.0.v() >= 0,
        ensures r.v() == self.0.v(), r.wf(),
    { self.0.as_typed() }
}
impl IBig {
    pub open spec fn v(&self) -> int { self.0.v() }
    // ibig.rs:78  `self.0.into_sign_typed()`
    pub fn into_sign_repr(self) -> (r: (Sign, TypedRepr))
        ensures r.1.v() == iabs(self.0.v()), r.1.wf(), r.0 == (if self.0.v() < 0 { Sign::Negative } else { Sign::Positive }),
    { self.0.into_sign_typed() }
    // ibig.rs:73  `self.0.as_sign_typed()`
    pub fn as_sign_repr(&self) -> (r: (Sign, TypedReprRef<'_>))
        ensures r.1.v() == iabs(self.0.v()), r.1.wf(), r.0 == (if self.0.v() < 0 { Sign::Negative } else { Sign::Positive }),
    { self.0.as_sign_typed() }
}

// ---- (C) ------------------------------------------------------------------------------------------------------------
// ubig.rs:217 / ibig.rs:211 `UBig(self.0.clone())`: a clone has the value of its source (storage-level copy: Kani group
// int_repr)
impl Clone for UBig {
    #[verifier::external_body]
    fn clone(&self) -> (r: UBig) ensures r.0.v() == self.0.v() { unimplemented!() }
}
impl Clone for IBig {
    #[verifier::external_body]
    fn clone(&self) -> (r: IBig) ensures r.0.v() == self.0.v() { unimplemented!() }
}

/// core::mem::take: "Replaces dest with the default value of T, returning the previous dest value";
/// `UBig::default()` / `IBig::default()` are ZERO (ubig.rs / ibig.rs `impl Default`)
pub trait Dc2Take: Sized { spec fn dc2_v(&self) -> int; }
impl Dc2Take for UBig { open spec fn dc2_v(&self) -> int { self.0.v() } }
impl Dc2Take for IBig { open spec fn dc2_v(&self) -> int { self.0.v() } }
pub mod mem {
    use super::*;
    #[verifier::external_body]
    pub fn take<T: Dc2Take>(dest: &mut T) -> (r: T)
        ensures r == *old(dest), final(dest).dc2_v() == 0,
    { unimplemented!() }
}

impl Buffer {
    // buffer.rs:400-428: shrink to `len` words, hand the allocation to a Box
    #[verifier::external_body]
    pub fn into_boxed_slice(self) -> (r: Box<[Word]>)
        ensures r@ == self@,
    { unimplemented!() }
}
// alloc/boxed.rs `impl AsRef<T> for Box<T>`: `self` (i.e. `&**self`)
pub assume_specification<'a, T: ?Sized, A: core::alloc::Allocator> [<Box<T, A> as core::convert::AsRef<T>>::as_ref] (b: &'a Box<T, A>) -> (r: &'a T)
    ensures r == &**b;

// ---- (D) operator forms ---------------------------------------------------------------------------------------------
/// truncating division (C02: quotient toward zero, remainder with the sign of the dividend) by a positive divisor
pub open spec fn dc2_tq(a: int, d: int) -> int { if a >= 0 { a / d } else { -((-a) / d) } }
pub open spec fn dc2_tr(a: int, d: int) -> int { if a >= 0 { a % d } else { -((-a) % d) } }
/// the property's own sentence for IBig op ConstDivisor (d > 0): a == q*d + r, |r| < d, r has the sign of a or is 0
pub open spec fn dc2_trunc_ok(a: int, d: int, q: int, r: int) -> bool {
    a == q * d + r && iabs(r) < d && (r == 0 || (r > 0) == (a > 0))
}

// dashu_base::{DivRem, DivRemAssign} (traits mirrored)
pub trait DivRem<Rhs = Self>: Sized {
    type OutputDiv;
    type OutputRem;
    spec fn div_rem_req(self, rhs: Rhs) -> bool;
    spec fn div_rem_post(self, rhs: Rhs, q: Self::OutputDiv, r: Self::OutputRem) -> bool;
    fn div_rem(self, rhs: Rhs) -> (qr: (Self::OutputDiv, Self::OutputRem))
        requires self.div_rem_req(rhs) ensures self.div_rem_post(rhs, qr.0, qr.1);
}

// div_const.rs `mod repr`: TypedRepr / &ConstDivisorRepr  (proved: typed_div_const)
impl<'r> vstd::std_specs::ops::DivSpecImpl<&'r ConstDivisorRepr> for TypedRepr {
    open spec fn obeys_div_spec() -> bool { true }
    open spec fn div_req(self, rhs: &'r ConstDivisorRepr) -> bool { self.wf() && rhs.wf() }
    open spec fn div_spec(self, rhs: &'r ConstDivisorRepr) -> Repr { repr_of(self.v() / rhs.value()) }
}
impl<'r> core::ops::Div<&'r ConstDivisorRepr> for TypedRepr { type Output = Repr;
    #[verifier::external_body]
    fn div(self, rhs: &'r ConstDivisorRepr) -> Repr { unimplemented!() }
}
// TypedRepr % &ConstDivisorRepr  (proved: typed_rem_const)
impl<'r> vstd::std_specs::ops::RemSpecImpl<&'r ConstDivisorRepr> for TypedRepr {
    open spec fn obeys_rem_spec() -> bool { true }
    open spec fn rem_req(self, rhs: &'r ConstDivisorRepr) -> bool { self.wf() && rhs.wf() }
    open spec fn rem_spec(self, rhs: &'r ConstDivisorRepr) -> Repr { repr_of(self.v() % rhs.value()) }
}
impl<'r> core::ops::Rem<&'r ConstDivisorRepr> for TypedRepr { type Output = Repr;
    #[verifier::external_body]
    fn rem(self, rhs: &'r ConstDivisorRepr) -> Repr { unimplemented!() }
}
// TypedReprRef % &ConstDivisorRepr  (proved: typedref_rem_const)
impl<'l, 'r> vstd::std_specs::ops::RemSpecImpl<&'r ConstDivisorRepr> for TypedReprRef<'l> {
    open spec fn obeys_rem_spec() -> bool { true }
    open spec fn rem_req(self, rhs: &'r ConstDivisorRepr) -> bool { self.wf() && rhs.wf() }
    open spec fn rem_spec(self, rhs: &'r ConstDivisorRepr) -> Repr { repr_of(self.v() % rhs.value()) }
}
impl<'l, 'r> core::ops::Rem<&'r ConstDivisorRepr> for TypedReprRef<'l> { type Output = Repr;
    #[verifier::external_body]
    fn rem(self, rhs: &'r ConstDivisorRepr) -> Repr { unimplemented!() }
}
// TypedRepr.div_rem(&ConstDivisorRepr)  (proved: typed_divrem_const)
impl<'r> DivRem<&'r ConstDivisorRepr> for TypedRepr {
    type OutputDiv = Repr;
    type OutputRem = Repr;
    open spec fn div_rem_req(self, rhs: &'r ConstDivisorRepr) -> bool { self.wf() && rhs.wf() }
    open spec fn div_rem_post(self, rhs: &'r ConstDivisorRepr, q: Repr, r: Repr) -> bool {
        q.v() == self.v() / rhs.value() && r.v() == self.v() % rhs.value()
    }
    #[verifier::external_body]
    fn div_rem(self, rhs: &'r ConstDivisorRepr) -> (qr: (Repr, Repr)) { unimplemented!() }
}

// UBig / &ConstDivisor, UBig % &ConstDivisor, UBig.div_rem(&ConstDivisor): the by-value forms the `op=` wrappers forward to
// (proved: ubig_div_cd, ubig_rem_cd, ubig_divrem_cd)
impl<'r> vstd::std_specs::ops::DivSpecImpl<&'r ConstDivisor> for UBig {
    open spec fn obeys_div_spec() -> bool { true }
    open spec fn div_req(self, rhs: &'r ConstDivisor) -> bool { self.0.v() >= 0 && dc2_wf(&rhs.0) }
    open spec fn div_spec(self, rhs: &'r ConstDivisor) -> UBig { UBig(repr_of(self.0.v() / rhs.0.value())) }
}
impl<'r> core::ops::Div<&'r ConstDivisor> for UBig { type Output = UBig;
    #[verifier::external_body]
    fn div(self, rhs: &'r ConstDivisor) -> UBig { unimplemented!() }
}
impl<'r> vstd::std_specs::ops::RemSpecImpl<&'r ConstDivisor> for UBig {
    open spec fn obeys_rem_spec() -> bool { true }
    open spec fn rem_req(self, rhs: &'r ConstDivisor) -> bool { self.0.v() >= 0 && dc2_wf(&rhs.0) }
    open spec fn rem_spec(self, rhs: &'r ConstDivisor) -> UBig { UBig(repr_of(self.0.v() % rhs.0.value())) }
}
impl<'r> core::ops::Rem<&'r ConstDivisor> for UBig { type Output = UBig;
    #[verifier::external_body]
    fn rem(self, rhs: &'r ConstDivisor) -> UBig { unimplemented!() }
}
impl<'r> DivRem<&'r ConstDivisor> for UBig {
    type OutputDiv = UBig;
    type OutputRem = UBig;
    open spec fn div_rem_req(self, rhs: &'r ConstDivisor) -> bool { self.0.v() >= 0 && dc2_wf(&rhs.0) }
    open spec fn div_rem_post(self, rhs: &'r ConstDivisor, q: UBig, r: UBig) -> bool {
        q.0.v() == self.0.v() / rhs.0.value() && r.0.v() == self.0.v() % rhs.0.value()
    }
    #[verifier::external_body]
    fn div_rem(self, rhs: &'r ConstDivisor) -> (qr: (UBig, UBig)) { unimplemented!() }
}
// IBig / &ConstDivisor, IBig % &ConstDivisor, IBig.div_rem(&ConstDivisor)  (proved: ibig_div_cd, ibig_rem_cd, ibig_divrem_cd)
impl<'r> vstd::std_specs::ops::DivSpecImpl<&'r ConstDivisor> for IBig {
    open spec fn obeys_div_spec() -> bool { true }
    open spec fn div_req(self, rhs: &'r ConstDivisor) -> bool { dc2_wf(&rhs.0) }
    open spec fn div_spec(self, rhs: &'r ConstDivisor) -> IBig { IBig(repr_of(dc2_tq(self.0.v(), rhs.0.value()))) }
}
impl<'r> core::ops::Div<&'r ConstDivisor> for IBig { type Output = IBig;
    #[verifier::external_body]
    fn div(self, rhs: &'r ConstDivisor) -> IBig { unimplemented!() }
}
impl<'r> vstd::std_specs::ops::RemSpecImpl<&'r ConstDivisor> for IBig {
    open spec fn obeys_rem_spec() -> bool { true }
    open spec fn rem_req(self, rhs: &'r ConstDivisor) -> bool { dc2_wf(&rhs.0) }
    open spec fn rem_spec(self, rhs: &'r ConstDivisor) -> IBig { IBig(repr_of(dc2_tr(self.0.v(), rhs.0.value()))) }
}
impl<'r> core::ops::Rem<&'r ConstDivisor> for IBig { type Output = IBig;
    #[verifier::external_body]
    fn rem(self, rhs: &'r ConstDivisor) -> IBig { unimplemented!() }
}
impl<'r> DivRem<&'r ConstDivisor> for IBig {
    type OutputDiv = IBig;
    type OutputRem = IBig;
    open spec fn div_rem_req(self, rhs: &'r ConstDivisor) -> bool { dc2_wf(&rhs.0) }
    open spec fn div_rem_post(self, rhs: &'r ConstDivisor, q: IBig, r: IBig) -> bool {
        q.0.v() == dc2_tq(self.0.v(), rhs.0.value()) && r.0.v() == dc2_tr(self.0.v(), rhs.0.value())
    }
    #[verifier::external_body]
    fn div_rem(self, rhs: &'r ConstDivisor) -> (qr: (IBig, IBig)) { unimplemented!() }
}
