// ---- mp_prim_lemmas.rs: the binary (square-and-multiply) method of modular/pow.rs `single` / `double`. Word = @W@ -----
// Needs lib/prelude.rs, lib/shift_bv.rs, lib/mp_arith.rs.

/// (x mod m)^n == x^n (mod m)
pub proof fn lemma_mp_ipow_mod(x: int, n: int, m: int)
    requires m >= 1, n >= 0,
    ensures ipow(x % m, n) % m == ipow(x, n) % m,
    decreases n
{
    if n > 0 {
        lemma_mp_ipow_mod(x, n - 1, m);
        let a = ipow(x % m, n - 1);
        let b = ipow(x, n - 1);
        // (x%m) * a  ==  x * b  (mod m)   from  a == b (mod m)
        vstd::arithmetic::div_mod::lemma_mul_mod_noop(x % m, a, m);
        vstd::arithmetic::div_mod::lemma_mul_mod_noop(x, b, m);
        vstd::arithmetic::div_mod::lemma_mod_twice(x, m);
    }
}

/// the accumulator of pow_helper: acc == lhs^a * rhs^q (mod m)
pub open spec fn mp_acc(acc: int, l: int, r: int, a: int, q: int, m: int) -> bool {
    acc == (ipow(l, a) * ipow(r, q)) % m
}

pub proof fn lemma_mp_acc_init(l: int, r: int, m: int)
    requires 0 <= l < m,
    ensures mp_acc(l, l, r, 1, 0, m),
{
    lemma_ipow_1(l);
    assert(ipow(r, 0) == 1);
    assert(l * 1 == l);
    vstd::arithmetic::div_mod::lemma_small_mod(l as nat, m as nat);
}

pub proof fn lemma_mp_acc_sqr(acc: int, acc2: int, l: int, r: int, a: int, q: int, m: int)
    requires m >= 1, a >= 0, q >= 0, mp_acc(acc, l, r, a, q, m), acc2 == (acc * acc) % m,
    ensures mp_acc(acc2, l, r, 2 * a, 2 * q, m),
{
    let x = ipow(l, a) * ipow(r, q);
    vstd::arithmetic::div_mod::lemma_mul_mod_noop(x, x, m);
    lemma_ipow_double(l, a);
    lemma_ipow_double(r, q);
    let la = ipow(l, a);
    let rq = ipow(r, q);
    assert((la * rq) * (la * rq) == (la * la) * (rq * rq)) by (nonlinear_arith);
}

pub proof fn lemma_mp_acc_mul(acc: int, acc2: int, l: int, r: int, a: int, q: int, m: int)
    requires m >= 1, a >= 0, q >= 0, 0 <= r < m, mp_acc(acc, l, r, a, q, m), acc2 == (acc * r) % m,
    ensures mp_acc(acc2, l, r, a, q + 1, m),
{
    let x = ipow(l, a) * ipow(r, q);
    vstd::arithmetic::div_mod::lemma_mul_mod_noop(x, r, m);
    vstd::arithmetic::div_mod::lemma_small_mod(r as nat, m as nat);
    lemma_ipow_succ(r, q);
    let la = ipow(l, a);
    let rq = ipow(r, q);
    assert((la * rq) * r == la * (rq * r)) by (nonlinear_arith);
}

/// the exponent bits consumed by pow_helper: with x = exp mod 2^bits0 and b = bits - 1 < bits0,
///     x >> b == 2 * (x >> bits) + [bit b of exp]
pub proof fn lemma_mp_helper_bits(exp: int, bits0: int, b: int)
    requires exp >= 0, 0 <= b < bits0,
    ensures (exp % pow2(bits0)) / pow2(b) == 2 * ((exp % pow2(bits0)) / pow2(b + 1)) + (exp / pow2(b)) % 2,
        (exp % pow2(bits0)) / pow2(b + 1) >= 0,
{
    lemma_sh_pow2_pos(bits0); lemma_sh_pow2_pos(b);
    let x = exp % pow2(bits0);
    vstd::arithmetic::div_mod::lemma_mod_bound(exp, pow2(bits0));
    lemma_mp_bit_step(x, b);
    // (x / 2^b) % 2 == (exp / 2^b) % 2
    lemma_mp_pow2_split(b, bits0);
    lemma_mp_mod_div(exp, pow2(b), pow2(bits0 - b));
    lemma_mp_pow2_even(bits0 - b);
    vstd::arithmetic::div_mod::lemma_mod_mod(exp / pow2(b), 2, pow2(bits0 - b - 1));
}

pub proof fn lemma_mp_helper_start(exp: int, bits0: int)
    requires exp >= 0, bits0 >= 0,
    ensures (exp % pow2(bits0)) / pow2(bits0) == 0, pow2(0) == 1,
{
    lemma_sh_pow2_pos(bits0);
    vstd::arithmetic::div_mod::lemma_mod_bound(exp, pow2(bits0));
    vstd::arithmetic::div_mod::lemma_fundamental_div_mod_converse(exp % pow2(bits0), pow2(bits0), 0, exp % pow2(bits0));
}

/// pow_helper started from lhs == b^k (mod m) with rhs == b:   lhs^(2^bits) * b^e == b^(k * 2^bits + e)  (mod m)
pub proof fn lemma_mp_helper_finish(b: int, m: int, k: int, l: int, bits: int, e: int, out: int)
    requires m >= 1, k >= 0, bits >= 0, e >= 0, l == ipow(b, k) % m, out == (ipow(l, pow2(bits)) * ipow(b, e)) % m,
    ensures out == ipow(b, k * pow2(bits) + e) % m, k * pow2(bits) >= 0,
{
    let p = pow2(bits);
    lemma_sh_pow2_pos(bits);
    lemma_mp_ipow_mod(ipow(b, k), p, m);
    lemma_ipow_mul(b, k, p);
    // out == ((l^p % m) * (b^e % m)) % m == (b^(k p) * b^e) % m
    vstd::arithmetic::div_mod::lemma_mul_mod_noop(ipow(l, p), ipow(b, e), m);
    vstd::arithmetic::div_mod::lemma_mul_mod_noop(ipow(b, k * p), ipow(b, e), m);
    lemma_ipow_add(b, k * p, e);
}

/// the top bit of a non-zero word: b = BITS - 1 - leading_zeros(w):  2^b <= w < 2^(b+1)
pub proof fn lemma_mp_top_bit_word(w: @W@)
    requires w != 0,
    ensures vstd::std_specs::bits::@W@_leading_zeros(w) < @BITS@,
        pow2(@BITS@ - 1 - vstd::std_specs::bits::@W@_leading_zeros(w) as int) <= w as int,
        (w as int) < 2 * pow2(@BITS@ - 1 - vstd::std_specs::bits::@W@_leading_zeros(w) as int),
        (w as int) % pow2(@BITS@ - 1 - vstd::std_specs::bits::@W@_leading_zeros(w) as int)
            == w as int - pow2(@BITS@ - 1 - vstd::std_specs::bits::@W@_leading_zeros(w) as int),
{
    let s = vstd::std_specs::bits::@W@_leading_zeros(w) as u32;
    vstd::std_specs::bits::axiom_@W@_leading_zeros(w);
    let sw = s as @W@;
    let top = (@BITS@ - 1 - s) as @W@;
    assert(sub((@BITS@ - 1) as @W@, sw) == top);
    assert(((w >> top) & 1) != 0);
    let up = (@BITS@ - s) as @W@;
    assert(sub(@BITS@ as @W@, sw) == up);
    assert(w >> up == 0);
    let t32 = (@BITS@ - 1 - s) as u32;
    assert((w >> t32) == 1) by (bit_vector)
        requires s < @BITS@, top == @BITS@ - 1 - s, ((w >> top) & 1) != 0, up == @BITS@ - s, s > 0 ==> (w >> up) == 0, t32 == @BITS@ - 1 - s;
    lemma_sh_shr_div_w(w, t32);
    let p = pow2(t32 as int);
    lemma_sh_pow2_pos(t32 as int);
    vstd::arithmetic::div_mod::lemma_fundamental_div_mod(w as int, p);
    vstd::arithmetic::div_mod::lemma_mod_bound(w as int, p);
    assert(p * 1 == p);
}

/// value of the words from position k upwards
pub open spec fn mp_hi(w: Seq<Word>, k: int) -> int { val(w.subrange(k, w.len() as int)) }

pub proof fn lemma_mp_hi_step(w: Seq<Word>, k: int)
    requires 0 <= k < w.len(),
    ensures mp_hi(w, k) == w[k] as int + B() * mp_hi(w, k + 1), mp_hi(w, k + 1) >= 0,
{
    let len = w.len() as int;
    let s = w.subrange(k, len);
    lemma_val_split(s, 1);
    assert(s.subrange(1, s.len() as int) =~= w.subrange(k + 1, len));
    lemma_val1(s.subrange(0, 1));
    assert(s.subrange(0, 1)[0] == w[k]);
    assert(pw(1) == B() * pw(0));
    assert(pw(0) == 1);
    lemma_valn_bound(w.subrange(k + 1, len), len - k - 1);
}

pub proof fn lemma_mp_hi_ends(w: Seq<Word>)
    requires w.len() >= 1,
    ensures mp_hi(w, 0) == val(w), mp_hi(w, w.len() as int - 1) == w[w.len() as int - 1] as int,
{
    let len = w.len() as int;
    assert(w.subrange(0, len) =~= w);
    lemma_val1(w.subrange(len - 1, len));
}

/// a double word as hi * B + lo
pub proof fn lemma_mp_lo_mod(lo: int)
    requires 0 <= lo < B(),
    ensures lo % pow2(@BITS@) == lo,
{
    lemma_sh_pow2_bits();
    vstd::arithmetic::div_mod::lemma_small_mod(lo as nat, B() as nat);
}
