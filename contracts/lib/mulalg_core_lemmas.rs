// ---- mulalg_core_lemmas.rs: value / window lemmas shared by the multiplication, squaring and square-root algorithm
// units (no dependence on Sign or Memory).  Needs lib/prelude.rs, lib/mul_lemmas.rs (lemma_valn_window).

pub proof fn lemma_pw0()
    ensures pw(0) == 1,
{
}

pub proof fn lemma_val_empty()
    ensures forall|s: Seq<Word>| s.len() == 0 ==> #[trigger] valn(s, s.len() as int) == 0,
{
}

pub proof fn lemma_val_zeros(s: Seq<Word>)
    requires forall|i: int| 0 <= i < s.len() ==> s[i] == 0,
    ensures val(s) == 0,
{
    lemma_valn_zero(s, 0, s.len() as int);
}

pub proof fn lemma_val_bound(s: Seq<Word>)
    ensures 0 <= val(s) < pw(s.len() as int),
{
    lemma_valn_bound(s, s.len() as int);
}

/// 0 <= a < p, 0 <= b < q  ==>  0 <= a·b < p·q
pub proof fn lemma_prod_bound(a: int, b: int, p: int, q: int)
    requires 0 <= a < p, 0 <= b < q,
    ensures 0 <= a * b, a * b < p * q,
{
    assert(0 <= a * b) by (nonlinear_arith) requires 0 <= a, 0 <= b;
    assert(a * b <= (p - 1) * (q - 1)) by (nonlinear_arith) requires 0 <= a <= p - 1, 0 <= b <= q - 1;
    assert((p - 1) * (q - 1) < p * q) by (nonlinear_arith) requires 1 <= p, 1 <= q;
}

/// product of two word sequences fits |a| + |b| words
pub proof fn lemma_val_prod_bound(a: Seq<Word>, b: Seq<Word>)
    ensures 0 <= val(a) * val(b) < pw((a.len() + b.len()) as int),
{
    lemma_val_bound(a);
    lemma_val_bound(b);
    lemma_prod_bound(val(a), val(b), pw(a.len() as int), pw(b.len() as int));
    lemma_pw_add(a.len() as int, b.len() as int);
}

/// c ±= x with signed carry r into a buffer of weight p: the carry is -1, 0 or 1
pub proof fn lemma_signed_carry_range(v1: int, v0: int, x: int, r: int, p: int)
    requires 0 <= v1 < p, 0 <= v0 < p, -p < x < p, v1 + r * p == v0 + x,
    ensures -1 <= r <= 1,
{
    assert(-2 < r < 2) by (nonlinear_arith) requires -2 * p < r * p, r * p < 2 * p, p > 0;
}

/// a product accumulated into a zero buffer of exactly its size: no carry
pub proof fn lemma_zero_acc_no_carry(v1: int, x: int, r: int, p: int)
    requires 0 <= v1 < p, 0 <= x < p, v1 + r * p == x,
    ensures r == 0, v1 == x,
{
    assert(-1 < r < 1) by (nonlinear_arith) requires -p < r * p, r * p < p, p > 0;
}

/// the window [lo, hi) of c was updated (c0 -> c1) by `window += x` with signed carry r at its top:
/// seen from the whole buffer, `c += x·B^lo` with carry r at weight B^hi.
/// (the frame is stated with subranges: the form in which Verus describes `callee(&mut c[lo..hi])`)
pub proof fn lemma_window(c0: Seq<Word>, c1: Seq<Word>, lo: int, hi: int, r: int, x: int)
    requires 0 <= lo <= hi <= c0.len(), c1.len() == c0.len(),
        c1.subrange(0, lo) =~= c0.subrange(0, lo),
        c1.subrange(hi, c0.len() as int) =~= c0.subrange(hi, c0.len() as int),
        val(c1.subrange(lo, hi)) + r * pw(hi - lo) == val(c0.subrange(lo, hi)) + x,
    ensures val(c1) + r * pw(hi) == val(c0) + x * pw(lo),
{
    let len = c0.len() as int;
    assert forall|j: int| 0 <= j < lo implies c1[j] == c0[j] by {
        assert(c1[j] == c1.subrange(0, lo)[j]);
        assert(c0[j] == c0.subrange(0, lo)[j]);
    }
    assert forall|j: int| hi <= j < len implies c1[j] == c0[j] by {
        assert(c1[j] == c1.subrange(hi, len)[j - hi]);
        assert(c0[j] == c0.subrange(hi, len)[j - hi]);
    }
    lemma_valn_window(c0, lo, hi - lo);
    lemma_valn_window(c1, lo, hi - lo);
    lemma_valn_ext(c1, c0, lo);
    lemma_valn_tail(c0, c1, hi, len);
    lemma_pw_add(lo, hi - lo);
    let w0 = val(c0.subrange(lo, hi));
    let w1 = val(c1.subrange(lo, hi));
    let pl = pw(lo);
    let pd = pw(hi - lo);
    assert(pl * (w1 + r * pd) == pl * w1 + r * (pl * pd)) by (nonlinear_arith);
    assert(pl * (w0 + x) == pl * w0 + x * pl) by (nonlinear_arith);
}


pub proof fn lemma_val_concat(s: Seq<Word>, t: Seq<Word>)
    ensures val(s + t) == val(s) + pw(s.len() as int) * val(t),
{
    let u = s + t;
    lemma_val_split(u, s.len() as int);
    assert(u.subrange(0, s.len() as int) =~= s);
    assert(u.subrange(s.len() as int, u.len() as int) =~= t);
}

pub proof fn lemma_pw_le(a: int, b: int)
    requires 0 <= a <= b,
    ensures 1 <= pw(a) <= pw(b),
    decreases b
{
    lemma_pw_pos(a);
    if a < b {
        lemma_pw_le(a, b - 1);
        assert(pw(b) == B() * pw(b - 1));
        assert(pw(b - 1) <= B() * pw(b - 1)) by (nonlinear_arith) requires pw(b - 1) >= 1, B() >= 1;
    }
}
