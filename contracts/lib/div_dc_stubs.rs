// ---- trusted stubs for integer/src/div/divide_conquer.rs (unit int_div_dc). Word = @W@ ----------------------------
// Needs lib/prelude.rs, lib/sign.rs (Sign, sgn), lib/div_dword_stubs.rs (FastDivideNormalized2).

/// integer/src/memory.rs: scratch memory handed down to the multiplication. Opaque.
#[verifier::external_body]
pub struct Memory<'a> { _p: &'a u8 }

/// "rhs is normalized and fd is the reciprocal of its two top words"
pub open spec fn div_prepared(rhs: Seq<Word>, fd: FastDivideNormalized2) -> bool {
    rhs.len() >= 2 && fd.wf() && fd.divisor() == rhs[rhs.len() - 2] as int + (rhs[rhs.len() - 1] as int) * B()
}

/// the contract shared by every `div_rem_in_place` flavour (the one PROVED for simple::div_rem_in_place):
/// l1 = [a % b (n words), a / b], carry `ret` on top of the quotient
pub open spec fn div_post(l0: Seq<Word>, l1: Seq<Word>, rhs: Seq<Word>, ret: bool) -> bool {
    let n = rhs.len() as int;
    let len = l0.len() as int;
    l1.len() == l0.len()
    && val(l0) == (val(l1.subrange(n, len)) + b2i(ret) * pw(len - n)) * val(rhs) + val(l1.subrange(0, n))
    && val(l1.subrange(0, n)) < val(rhs)
    && ret == (val(l0.subrange(len - n, len)) >= val(rhs))
}

pub mod mul {
use super::*;
/// integer/src/mul/mod.rs :: add_signed_mul — "c += sign * a * b, returns carry".  ASSUMED (the strategy dispatch
/// simple / Karatsuba / Toom-3 is outside the unbounded proofs: mul::simple is proved in unit int_mul_simple, the other
/// strategies are bounded-checked against it).  `debug_assert!(c.len() == a.len() + b.len())` is the precondition.
#[verifier::external_body]
pub fn add_signed_mul<'a>(c: &mut [Word], sign: Sign, a: &'a [Word], b: &'a [Word], memory: &mut Memory) -> (ret: SignedWord)
    requires old(c)@.len() == a@.len() + b@.len(),
    ensures final(c)@.len() == old(c)@.len(),
        val(final(c)@) + (ret as int) * pw(old(c)@.len() as int) == val(old(c)@) + sgn(sign) * (val(a@) * val(b@)),
{ unimplemented!() }
}

// (`bool.into()` for SignedWord: vstd's `Into::into` forwards to the `From<bool>` specification of lib/prelude.rs)
