// ---- trusted stubs for integer/src/div/divide_conquer.rs (unit int_div_dc). Word = @W@ ----------------------------
// Needs lib/prelude.rs, lib/sign.rs (Sign, sgn), lib/div_dword_stubs.rs, lib/div_post_spec.rs (Memory, div_post).

pub mod mul {
use super::*;
// integer/src/mul/mod.rs :: add_signed_mul -- PROVED in unit int_mul_dispatch (simple / Karatsuba / Toom-3 dispatch);
// the contract comes from its annotated copy (one source of truth)
//@@ SIG integer/mul_algos/add_signed_mul.rs
}

// (`bool.into()` for SignedWord: vstd's `Into::into` forwards to the `From<bool>` specification of lib/prelude.rs)
