// ---- trusted stubs for integer/src/div/divide_conquer.rs (unit int_div_dc). Word = @W@ ----------------------------
// Needs lib/prelude.rs, lib/sign.rs (Sign, sgn), lib/div_dword_stubs.rs, lib/div_post_spec.rs (Memory, div_post).

pub mod mul {
use super::*;
/// integer/src/mul/mod.rs :: add_signed_mul — "c += sign * a * b, returns carry".  ASSUMED (the strategy dispatch
/// simple / Karatsuba / Toom-3 is outside the unbounded proofs: mul::simple is proved in unit int_mul_simple, the other
/// strategies are bounded-checked against it).  `debug_assert!(c.len() == a.len() + b.len())` is the precondition.
#[verifier::external_body]
pub fn add_signed_mul<'a>(c: &mut [Word], sign: Sign, a: &'a [Word], b: &'a [Word], memory: &mut Memory) -> (ret: SignedWord)
    requires old(c)@.len() == a@.len() + b@.len(),
    ensures final(c)@.len() == old(c)@.len(),
        val(final(c)@) + (ret as int) * pw(old(c)@.len() as int) == val(old(c)@) + sgn(sign) * (val(a@) * val(b@)),
{ unimplemented!() }
}

// (`bool.into()` for SignedWord: vstd's `Into::into` forwards to the `From<bool>` specification of lib/prelude.rs)
