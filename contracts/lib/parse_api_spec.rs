// ---- parse_api_spec.rs: the text grammar of the public parsing API of dashu-int (integer/src/parse/mod.rs), C07:
// "parsing a string in radix r yields exactly the integer whose positional digits in radix r are the characters of the
// string (after sign, optional prefix and '_' separators) ...; invalid characters are rejected with an error, never
// silently accepted".  Needs parse_spec.rs, parse_stubs.rs (ParseError), parse_str.rs (starts_with), pow_api_stubs.rs.
// Nothing here is trusted.

/// what a digit text (no sign, no prefix) must parse to: an error for a text without any digit ("" or only '_'), the
/// positional value for digits of the radix with '_' separators anywhere, an error for anything else
pub open spec fn body_result(body: Seq<u8>, radix: int) -> Result<int, ParseError> {
    if only_us(body) { Err(ParseError::NoDigits) }
    else if text_ok(body, radix) { Ok(text_value(body, radix)) }
    else { Err(ParseError::InvalidDigit) }
}

pub open spec fn PLUS() -> u8 { 43 }
pub open spec fn MINUS() -> u8 { 45 }
pub open spec fn ZERO() -> u8 { 48 }

/// the text after an optional '+'
pub open spec fn drop_plus(s: Seq<u8>) -> Seq<u8> {
    if s.len() > 0 && s[0] == PLUS() { s.subrange(1, s.len() as int) } else { s }
}
/// the text starts with '-'
pub open spec fn is_neg(s: Seq<u8>) -> bool { s.len() > 0 && s[0] == MINUS() }
/// the text after an optional '+' or '-'
pub open spec fn drop_sign(s: Seq<u8>) -> Seq<u8> {
    if s.len() > 0 && (s[0] == PLUS() || s[0] == MINUS()) { s.subrange(1, s.len() as int) } else { s }
}

pub open spec fn PFX_B() -> Seq<u8> { seq![48u8, 98u8] }     // "0b"
pub open spec fn PFX_O() -> Seq<u8> { seq![48u8, 111u8] }    // "0o"
pub open spec fn PFX_X() -> Seq<u8> { seq![48u8, 120u8] }    // "0x"
pub open spec fn has_prefix(s: Seq<u8>) -> bool { starts_with(s, PFX_B()) || starts_with(s, PFX_O()) || starts_with(s, PFX_X()) }
/// "Allowed prefixes: 0b for binary, 0o for octal, 0x for hexadecimal"; "If no prefix is present, then the default radix"
pub open spec fn prefix_radix(s: Seq<u8>, default_radix: int) -> int {
    if starts_with(s, PFX_B()) { 2 } else if starts_with(s, PFX_O()) { 8 } else if starts_with(s, PFX_X()) { 16 } else { default_radix }
}
pub open spec fn drop_prefix(s: Seq<u8>) -> Seq<u8> { if has_prefix(s) { s.subrange(2, s.len() as int) } else { s } }

/// the unsigned result `ret` is what the grammar demands
pub open spec fn ures_is(ret: Result<UBig, ParseError>, want: Result<int, ParseError>) -> bool {
    match want {
        Ok(v) => ret is Ok && ret->Ok_0.0.v() == v,
        Err(e) => ret is Err && ret->Err_0 == e,
    }
}
pub open spec fn ures2_is(ret: Result<(UBig, Digit), ParseError>, radix: int, want: Result<int, ParseError>) -> bool {
    match want {
        Ok(v) => ret is Ok && ret->Ok_0.0.0.v() == v && ret->Ok_0.1 as int == radix,
        Err(e) => ret is Err && ret->Err_0 == e,
    }
}
/// the signed result: the magnitude with the written sign
pub open spec fn ires_is(ret: Result<IBig, ParseError>, neg: bool, want: Result<int, ParseError>) -> bool {
    match want {
        Ok(v) => ret is Ok && ret->Ok_0.0.v() == (if neg { -v } else { v }),
        Err(e) => ret is Err && ret->Err_0 == e,
    }
}
pub open spec fn ires2_is(ret: Result<(IBig, Digit), ParseError>, neg: bool, radix: int, want: Result<int, ParseError>) -> bool {
    match want {
        Ok(v) => ret is Ok && ret->Ok_0.0.0.v() == (if neg { -v } else { v }) && ret->Ok_0.1 as int == radix,
        Err(e) => ret is Err && ret->Err_0 == e,
    }
}

/// a well-formed digit text denotes a non-negative number
pub proof fn lemma_text_value_nonneg(s: Seq<u8>, r: int)
    requires 1 <= r <= 36, text_ok(s, r),
    ensures text_value(s, r) >= 0,
{
    lemma_text_ok_strip(s, r);
    lemma_dv_bound(strip_us(s), r);
}

/// stripping one leading '0' from a text that is not made of separators only
pub proof fn lemma_strip_zero(s: Seq<u8>, t: Seq<u8>, r: int)
    requires 1 <= r <= 36, starts_with(s, seq![ZERO()]), t == s.subrange(1, s.len() as int),
    ensures text_ok(s, r) == text_ok(t, r), text_value(s, r) == text_value(t, r), t.len() == s.len() - 1,
{
    assert(s.subrange(0, 1)[0] == s[0]);
    assert(seq![ZERO()][0] == ZERO());
    lemma_text_uncons(s);
    lemma_leading_zero(t, r);
}

/// "starts with the one-byte pattern c"
pub proof fn lemma_starts1(s: Seq<u8>, c: u8)
    ensures starts_with(s, seq![c]) == (s.len() > 0 && s[0] == c),
{
    if s.len() > 0 {
        assert(s.subrange(0, 1)[0] == s[0]);
        assert(seq![c][0] == c);
        if s[0] == c { assert(s.subrange(0, 1) =~= seq![c]); }
    }
}

/// the three prefix literals as byte strings
pub proof fn lemma_prefix_lits()
    ensures "0b".ascii() && "0b".enc() == PFX_B(), "0o".ascii() && "0o".enc() == PFX_O(), "0x".ascii() && "0x".enc() == PFX_X(),
{
    reveal_strlit("0b");
    reveal_strlit("0o");
    reveal_strlit("0x");
    assert("0b".enc() =~= PFX_B());
    assert("0o".enc() =~= PFX_O());
    assert("0x".enc() =~= PFX_X());
}

/// a text starts with at most one of the three prefixes
pub proof fn lemma_prefixes_differ(s: Seq<u8>)
    ensures !(starts_with(s, PFX_B()) && starts_with(s, PFX_O())), !(starts_with(s, PFX_B()) && starts_with(s, PFX_X())),
        !(starts_with(s, PFX_O()) && starts_with(s, PFX_X())),
{
    if s.len() >= 2 {
        assert(s.subrange(0, 2)[1] == s[1]);
        assert(PFX_B()[1] == 98 && PFX_O()[1] == 111 && PFX_X()[1] == 120);
    }
}
