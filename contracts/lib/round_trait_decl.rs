    // ---- round_trait_decl.rs: the contract of `Round::round_low_part` (float/src/round.rs, trait Round).
    // Included INSIDE `pub trait Round: Copy { .. }` of every float_round* unit: the six impls are verified
    // against it, the default methods round_fract / round_ratio rely on it (one source of truth).
    // `type Reverse: Round;` of the real trait is not modelled (used by none of the functions under contract;
    // Verus rejects the self-referential bound as a cyclic definition).

    /// ghost: which of the six mode definitions the implementing type stands for
    spec fn md() -> Mode;

    /// x = integer + l, l of sign `low_sign`, 0 < |l| < 1, `low_half_test()` = |l| cmp 1/2.
    /// Strongest statement Verus admits for an FnOnce argument: EITHER the answer is right for whatever the
    /// test would say (directed modes: the closure need not be called), OR it is right for an outcome `o`
    /// that the closure's own postcondition allows (the closure was called and returned o).
    fn round_low_part<F: FnOnce() -> Ordering>(integer: &IBig, low_sign: Sign, low_half_test: F) -> (ret: Rounding)
        requires low_half_test.requires(()),
        ensures
            (forall|o: Ordering| #[trigger] mode_ok(Self::md(), integer.v(), low_sign, o, ret))
            || (exists|o: Ordering| #[trigger] low_half_test.ensures((), o) && mode_ok(Self::md(), integer.v(), low_sign, o, ret));

    /// slot for the engine's vacuity canary (a renamed copy of the impl method with `ensures false`, which must
    /// FAIL); outside canary runs this default body stands in. Verified, not trusted.
    fn round_low_part__canary<F: FnOnce() -> Ordering>(integer: &IBig, low_sign: Sign, low_half_test: F) -> (ret: Rounding)
        requires low_half_test.requires(()),
        ensures
            (forall|o: Ordering| #[trigger] mode_ok(Self::md(), integer.v(), low_sign, o, ret))
            || (exists|o: Ordering| #[trigger] low_half_test.ensures((), o) && mode_ok(Self::md(), integer.v(), low_sign, o, ret))
    {
        Self::round_low_part(integer, low_sign, low_half_test)
    }
