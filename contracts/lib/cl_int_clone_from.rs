// ---- cl_int_clone_from.rs: `Clone::clone_from` of dashu-int's UBig / IBig as seen by the field-wise copies of
// dashu-float / dashu-ratio.  Needs abstract `IBig` / `UBig` with `v()` (lib/round_int_stubs.rs or lib/bigstub.rs).
//
// Verus (this build) rejects every call of the TRAIT method ("Verus does not yet support `clone_from`"), so the stub is an
// INHERENT method of the same name and signature: `x.clone_from(&y)` resolves to it (inherent methods are found before
// trait methods at the same auto-ref step), the real call resolves to `<IBig as Clone>::clone_from`.
// TRUSTED (integer/src/ibig.rs / ubig.rs `impl Clone`, forwarding to integer/src/repr.rs `Clone for Repr::clone_from`, the
// buffer-reusing copy): afterwards the destination has the value of the source.  The forwarding wrappers are verified in
// unit clone_int; the storage-level copy is what the Kani groups int_repr / int_buffer check on the real code.
impl IBig {
    #[verifier::external_body]
    pub fn clone_from(&mut self, source: &IBig) ensures final(self).v() == source.v() { unimplemented!() }
}
impl UBig {
    #[verifier::external_body]
    pub fn clone_from(&mut self, source: &UBig) ensures final(self).v() == source.v() { unimplemented!() }
}
