// ---- mulalg_lemmas.rs: lemmas shared by the multiplication algorithm units (Karatsuba, Toom-3, dispatch, sqr).
// Needs lib/prelude.rs, lib/sign.rs, lib/mul_lemmas.rs, lib/mulalg_stubs.rs (sign_mul, sign_neg), lib/mulalg_core_lemmas.rs.

/// sgn(s)·x by cases (Z3 does not linearise `sgn(s) * x` by itself)
pub proof fn lemma_sgn(s: Sign, x: int)
    ensures sgn(s) * x == (match s { Sign::Positive => x, Sign::Negative => -x }),
{
    match s {
        Sign::Positive => { assert(1 * x == x); }
        Sign::Negative => { assert((-1) * x == -x); }
    }
}

// ---- Karatsuba (mul/karatsuba.rs) ---------------------------------------------------------------------------

/// a sub-product accumulated into a zero-filled scratch buffer of exactly |a| + |b| words: carry 0, value a·b
pub proof fn lemma_kara_sub_product(t: Seq<Word>, a: Seq<Word>, b: Seq<Word>, z: int)
    requires t.len() == a.len() + b.len(),
        val(t) + z * pw(t.len() as int) == 0 + sgn(Sign::Positive) * (val(a) * val(b)),
    ensures z == 0, val(t) == val(a) * val(b),
{
    lemma_val_prod_bound(a, b);
    lemma_val_bound(t);
    lemma_sgn(Sign::Positive, val(a) * val(b));
    lemma_zero_acc_no_carry(val(t), val(a) * val(b), z, pw(t.len() as int));
}

/// (a0 + a1·P)(b0 + b1·P) = a0·b0 + (a0·b1 + a1·b0)·P + a1·b1·P²
pub proof fn lemma_kara_product(a: int, b: int, a0: int, a1: int, b0: int, b1: int, p1: int, p2: int)
    requires a == a0 + p1 * a1, b == b0 + p1 * b1, p2 == p1 * p1,
    ensures a * b == a0 * b0 + (a0 * b1 + a1 * b0) * p1 + (a1 * b1) * p2,
{
    let y = p1 * a1;
    let w = p1 * b1;
    assert((a0 + y) * (b0 + w) == a0 * b0 + a0 * w + y * b0 + y * w) by (nonlinear_arith);
    assert(a0 * (p1 * b1) == (a0 * b1) * p1) by (nonlinear_arith);
    assert((p1 * a1) * b0 == (a1 * b0) * p1) by (nonlinear_arith);
    assert((p1 * a1) * (p1 * b1) == (a1 * b1) * (p1 * p1)) by (nonlinear_arith);
    assert((a0 * b1 + a1 * b0) * p1 == (a0 * b1) * p1 + (a1 * b0) * p1) by (nonlinear_arith);
}

/// |a0 - a1|·|b0 - b1| with the product of the two signs is (a0 - a1)(b0 - b1)
pub proof fn lemma_kara_diff(sa: Sign, sb: Sign, da: int, db: int, ea: int, eb: int)
    requires sgn(sa) * da == ea, sgn(sb) * db == eb,
    ensures sgn(sign_mul(sa, sb)) * (da * db) == ea * eb,
{
    lemma_sgn(sa, da);
    lemma_sgn(sb, db);
    lemma_sgn(sign_mul(sa, sb), da * db);
    assert((-da) * db == -(da * db)) by (nonlinear_arith);
    assert(da * (-db) == -(da * db)) by (nonlinear_arith);
    assert((-da) * (-db) == da * db) by (nonlinear_arith);
}

/// middle coefficient: a0·b0 + a1·b1 − (a0 − a1)(b0 − b1) = a0·b1 + a1·b0, all terms scaled by the outer sign s;
/// the third product enters with the sign  −s · (sa·sb)  (the code's `-sign * diff_sign`)
pub proof fn lemma_kara_middle(s: Sign, sa: Sign, sb: Sign, a0: int, a1: int, b0: int, b1: int, da: int, db: int)
    requires sgn(sa) * da == a0 - a1, sgn(sb) * db == b0 - b1,
    ensures sgn(s) * (a0 * b0) + sgn(s) * (a1 * b1) + sgn(sign_mul(sign_neg(s), sign_mul(sa, sb))) * (da * db)
        == sgn(s) * (a0 * b1 + a1 * b0),
{
    let ea = a0 - a1;
    let eb = b0 - b1;
    let d = da * db;
    lemma_kara_diff(sa, sb, da, db, ea, eb);
    let ds = sign_mul(sa, sb);
    lemma_sgn(ds, d);
    lemma_sgn(sign_mul(sign_neg(s), ds), d);
    lemma_sgn(s, a0 * b0);
    lemma_sgn(s, a1 * b1);
    lemma_sgn(s, a0 * b1 + a1 * b0);
    assert((a0 - a1) * (b0 - b1) == a0 * b0 - a0 * b1 - a1 * b0 + a1 * b1) by (nonlinear_arith);
}

/// bookkeeping of the seven in-place updates of Karatsuba's recombination.
///   v0..v7: value of the whole buffer c after each update; P1 = B^m, P2 = B^2m, P3 = B^3m, PN = B^2n
///   r1: carry of  c[..2m] += xl           (weight P2, variable carry_c0)
///   r2: carry of  c[m..3m] += xl          (weight P3, carry_c1)
///   r3: carry of  c[2m..] += xh           (weight PN, carry)
///   r4: carry of  c[m..3m] += xh          (weight P3, carry_c1)
///   r5: carry of  c[m..3m] += xd          (weight P3, carry_c1)
///   k1: carry of  c[2m..3m] += carry_c0   (weight P3, carry_c1)
///   k2: carry of  c[3m..] += carry_c1     (weight PN, carry)
pub proof fn lemma_kara_carries(v0: int, v1: int, v2: int, v3: int, v4: int, v5: int, v6: int, v7: int,
    r1: int, r2: int, r3: int, r4: int, r5: int, k1: int, k2: int, xl: int, xh: int, xd: int,
    p1: int, p2: int, p3: int, pn: int)
    requires
        v1 + r1 * p2 == v0 + xl,
        v2 + r2 * p3 == v1 + xl * p1,
        v3 + r3 * pn == v2 + xh * p2,
        v4 + r4 * p3 == v3 + xh * p1,
        v5 + r5 * p3 == v4 + xd * p1,
        v6 + k1 * p3 == v5 + r1 * p2,
        v7 + k2 * pn == v6 + (r2 + r4 + r5 + k1) * p3,
    ensures v7 + (r3 + k2) * pn == v0 + xl + (xl + xh + xd) * p1 + xh * p2,
{
    assert((r2 + r4 + r5 + k1) * p3 == r2 * p3 + r4 * p3 + r5 * p3 + k1 * p3) by (nonlinear_arith);
    assert((r3 + k2) * pn == r3 * pn + k2 * pn) by (nonlinear_arith);
    assert((xl + xh + xd) * p1 == xl * p1 + xh * p1 + xd * p1) by (nonlinear_arith);
}

/// the final statement of Karatsuba: from the accumulated terms to sgn(s)·(a·b)
pub proof fn lemma_kara_final(s: Sign, sa: Sign, sb: Sign, a: int, b: int, a0: int, a1: int, b0: int, b1: int,
    da: int, db: int, p1: int, p2: int, xl: int, xh: int, xd: int)
    requires a == a0 + p1 * a1, b == b0 + p1 * b1, p2 == p1 * p1,
        sgn(sa) * da == a0 - a1, sgn(sb) * db == b0 - b1,
        xl == sgn(s) * (a0 * b0), xh == sgn(s) * (a1 * b1),
        xd == sgn(sign_mul(sign_neg(s), sign_mul(sa, sb))) * (da * db),
    ensures xl + (xl + xh + xd) * p1 + xh * p2 == sgn(s) * (a * b),
{
    lemma_kara_product(a, b, a0, a1, b0, b1, p1, p2);
    lemma_kara_middle(s, sa, sb, a0, a1, b0, b1, da, db);
    let l = a0 * b0;
    let h = a1 * b1;
    let m = a0 * b1 + a1 * b0;
    lemma_sgn(s, l);
    lemma_sgn(s, h);
    lemma_sgn(s, m);
    lemma_sgn(s, a * b);
    assert((-m) * p1 == -(m * p1)) by (nonlinear_arith);
    assert((-h) * p2 == -(h * p2)) by (nonlinear_arith);
}

// ---- chunked multiplication (mul/helpers.rs add_signed_mul_split_into_chunks) and the dispatch (mul/mod.rs) ------------

/// the common postcondition of every `c += sign·a·b` routine: buffer c0 -> c1, signed carry r out of the top
pub open spec fn mul_post(c0: Seq<Word>, c1: Seq<Word>, s: Sign, a: Seq<Word>, b: Seq<Word>, r: int) -> bool {
    c1.len() == c0.len() && -1 <= r <= 1
    && val(c1) + r * pw(c0.len() as int) == val(c0) + sgn(s) * (val(a) * val(b))
}

/// contract of the chunk kernel handed to add_signed_mul_split_into_chunks as a function value: callable on every
/// instance with |a| == chunk_len, |b| == n, |c| == |a| + |b|, and delivering mul_post
#[verifier::prophetic]
pub open spec fn chunk_fn_ok<F: Fn(&mut [Word], Sign, &[Word], &[Word], &mut Memory) -> SignedWord>(f: F, chunk_len: int, n: int) -> bool {
    &&& forall|cc: &mut [Word], s: Sign, aa: &[Word], bb: &[Word], mm: &mut Memory|
            aa@.len() == chunk_len && bb@.len() == n && cc@.len() == aa@.len() + bb@.len() && cc@.len() <= usize::MAX
                ==> #[trigger] f.requires((cc, s, aa, bb, mm))
    &&& forall|cc: &mut [Word], s: Sign, aa: &[Word], bb: &[Word], mm: &mut Memory, r: SignedWord|
            #[trigger] f.ensures((cc, s, aa, bb, mm), r) ==> mul_post(cc@, final(cc)@, s, aa@, bb@, r as int)
}

/// loop invariant of add_signed_mul_split_into_chunks: `done` = the low words of the result that are final,
/// `cur` = the rest of the buffer, carry_n = pending signed carry at word n of `cur`, a_done = the chunks of a consumed
pub closed spec fn chunks_inv(done: Seq<Word>, cur: Seq<Word>, carry_n: int, n: int, c_orig: Seq<Word>, s: Sign,
    a_done: Seq<Word>, b: Seq<Word>) -> bool
{
    val(done) + pw(done.len() as int) * (val(cur) + carry_n * pw(n)) == val(c_orig) + sgn(s) * (val(a_done) * val(b))
}

pub proof fn lemma_chunks_init(c_orig: Seq<Word>, s: Sign, b: Seq<Word>, n: int)
    ensures chunks_inv(Seq::<Word>::empty(), c_orig, 0, n, c_orig, s, Seq::<Word>::empty(), b),
{
    let e = Seq::<Word>::empty();
    assert(val(e) == 0);
    assert(pw(0) == 1);
    assert(0 * pw(n) == 0);
    assert(1 * (val(c_orig) + 0) == val(c_orig));
    assert(0 * val(b) == 0);
    lemma_sgn(s, 0);
}

/// the arithmetic of one chunk (all sequences already turned into their values):
///   d = val(done), pk = B^k, va/vb/vc: value of the current buffer before / after the carry word / after the product,
///   lo = val(vc[..L]), hi = val(vc[L..]), pl = B^L, pn = B^n
pub proof fn lemma_chunks_step_arith(d: int, pk: int, va: int, vb: int, vc: int, lo: int, hi: int, c0: int, k1: int, r: int,
    pl: int, pn: int, o: int, xa: int, xl: int)
    requires d + pk * (va + c0 * pn) == o + xa,
        vb + k1 * (pl * pn) == va + c0 * pn,
        vc + r * (pl * pn) == vb + xl,
        vc == lo + pl * hi,
    ensures (d + pk * lo) + (pk * pl) * (hi + (k1 + r) * pn) == o + xa + pk * xl,
{
    let q = pl * pn;
    let kr = k1 + r;
    let y = kr * pn;
    let pp = pk * pl;
    assert(pp * (hi + y) == pp * hi + pp * y) by (nonlinear_arith);
    assert((pk * pl) * hi == pk * (pl * hi)) by (nonlinear_arith);
    assert((pk * pl) * (kr * pn) == pk * (kr * (pl * pn))) by (nonlinear_arith);
    assert((k1 + r) * q == k1 * q + r * q) by (nonlinear_arith);
    let t1 = k1 * q;
    let t2 = r * q;
    assert(pk * (t1 + t2) == pk * t1 + pk * t2) by (nonlinear_arith);
    assert(pk * (va + c0 * pn) == pk * (vb + k1 * (pl * pn))) ;
    assert(pk * (vb + k1 * (pl * pn)) == pk * vb + pk * (k1 * (pl * pn))) by (nonlinear_arith);
    assert(pk * (vc + r * (pl * pn)) == pk * vc + pk * (r * (pl * pn))) by (nonlinear_arith);
    assert(pk * (vb + xl) == pk * vb + pk * xl) by (nonlinear_arith);
    assert(pk * (lo + pl * hi) == pk * lo + pk * (pl * hi)) by (nonlinear_arith);
}

/// sgn(s)·(x·b) + P·(sgn(s)·(y·b)) = sgn(s)·((x + P·y)·b)
pub proof fn lemma_sgn_acc(s: Sign, x: int, y: int, b: int, p: int)
    ensures sgn(s) * (x * b) + p * (sgn(s) * (y * b)) == sgn(s) * ((x + p * y) * b),
{
    lemma_sgn(s, x * b);
    lemma_sgn(s, y * b);
    lemma_sgn(s, (x + p * y) * b);
    assert((x + p * y) * b == x * b + p * (y * b)) by (nonlinear_arith);
    assert(p * (-(y * b)) == -(p * (y * b))) by (nonlinear_arith);
}

/// one iteration: the carry word goes into window [n, L+n) (ca -> cb, carry k1), the chunk product into [0, L+n)
/// (cb -> cc, carry r); afterwards the low L words are final
pub proof fn lemma_chunks_step(done: Seq<Word>, ca: Seq<Word>, cb: Seq<Word>, cc: Seq<Word>, c0: int, k1: int, r: int,
    n: int, l: int, c_orig: Seq<Word>, s: Sign, a_done: Seq<Word>, a_lo: Seq<Word>, b: Seq<Word>)
    requires chunks_inv(done, ca, c0, n, c_orig, s, a_done, b),
        0 <= n, 1 <= l, l + n <= ca.len(), cb.len() == ca.len(), cc.len() == ca.len(),
        done.len() == a_done.len(), a_lo.len() == l,
        cb.subrange(0, n) =~= ca.subrange(0, n),
        cb.subrange(l + n, ca.len() as int) =~= ca.subrange(l + n, ca.len() as int),
        val(cb.subrange(n, l + n)) + k1 * pw(l) == val(ca.subrange(n, l + n)) + c0,
        cc.subrange(l + n, ca.len() as int) =~= cb.subrange(l + n, ca.len() as int),
        mul_post(cb.subrange(0, l + n), cc.subrange(0, l + n), s, a_lo, b, r),
    ensures chunks_inv(done + cc.subrange(0, l), cc.subrange(l, ca.len() as int), k1 + r, n, c_orig, s, a_done + a_lo, b),
{
    let len = ca.len() as int;
    let k = done.len() as int;
    let xl = sgn(s) * (val(a_lo) * val(b));
    lemma_window(ca, cb, n, l + n, k1, c0);
    assert(cc.subrange(0, 0) =~= cb.subrange(0, 0));
    lemma_window(cb, cc, 0, l + n, r, xl);
    assert(pw(0) == 1);
    assert(xl * pw(0) == xl) by (nonlinear_arith) requires pw(0) == 1;
    lemma_val_split(cc, l);
    lemma_val_concat(done, cc.subrange(0, l));
    lemma_val_concat(a_done, a_lo);
    lemma_pw_add(l, n);
    lemma_pw_add(k, l);
    lemma_chunks_step_arith(val(done), pw(k), val(ca), val(cb), val(cc), val(cc.subrange(0, l)), val(cc.subrange(l, len)),
        c0, k1, r, pw(l), pw(n), val(c_orig), sgn(s) * (val(a_done) * val(b)), xl);
    lemma_sgn_acc(s, val(a_done), val(a_lo), val(b), pw(k));
}

pub proof fn lemma_chunks_fin_arith(d: int, pk: int, va: int, vb: int, vc: int, c0: int, k2: int, r: int, pr: int, pn: int,
    o: int, xa: int, xr: int)
    requires d + pk * (va + c0 * pn) == o + xa,
        vb + k2 * (pr * pn) == va + c0 * pn,
        vc + r * (pr * pn) == vb + xr,
    ensures (d + pk * vc) + (k2 + r) * (pk * (pr * pn)) == o + xa + pk * xr,
{
    let q = pr * pn;
    assert((k2 + r) * (pk * q) == k2 * (pk * q) + r * (pk * q)) by (nonlinear_arith);
    assert(k2 * (pk * q) == pk * (k2 * q)) by (nonlinear_arith);
    assert(r * (pk * q) == pk * (r * q)) by (nonlinear_arith);
    assert(pk * (va + c0 * pn) == pk * (vb + k2 * (pr * pn)));
    assert(pk * (vb + k2 * (pr * pn)) == pk * vb + pk * (k2 * (pr * pn))) by (nonlinear_arith);
    assert(pk * (vc + r * (pr * pn)) == pk * vc + pk * (r * (pr * pn))) by (nonlinear_arith);
    assert(pk * (vb + xr) == pk * vb + pk * xr) by (nonlinear_arith);
}

/// after the loop: pending carry into window [n, len) (ca -> cb, carry k2), the remainder product x = a_rem·b into the
/// whole rest (cb -> cc, carry r; cc == cb, r == 0, when a_rem is empty)
pub proof fn lemma_chunks_fin(done: Seq<Word>, ca: Seq<Word>, cb: Seq<Word>, cc: Seq<Word>, c0: int, k2: int, r: int,
    n: int, c_orig: Seq<Word>, s: Sign, a_done: Seq<Word>, a_rem: Seq<Word>, b: Seq<Word>, x: int)
    requires chunks_inv(done, ca, c0, n, c_orig, s, a_done, b),
        b.len() == n, ca.len() == a_rem.len() + n, cb.len() == ca.len(), cc.len() == ca.len(),
        done.len() == a_done.len(), c_orig.len() == done.len() + ca.len(),
        cb.subrange(0, n) =~= ca.subrange(0, n),
        val(cb.subrange(n, ca.len() as int)) + k2 * pw(ca.len() - n) == val(ca.subrange(n, ca.len() as int)) + c0,
        val(cc) + r * pw(ca.len() as int) == val(cb) + sgn(s) * x,
        x == val(a_rem) * val(b),
    ensures mul_post(c_orig, done + cc, s, a_done + a_rem, b, k2 + r),
{
    let len = ca.len() as int;
    let k = done.len() as int;
    let fin = done + cc;
    let a = a_done + a_rem;
    assert(cb.subrange(len, len) =~= ca.subrange(len, len));
    lemma_window(ca, cb, n, len, k2, c0);
    lemma_val_concat(done, cc);
    lemma_val_concat(a_done, a_rem);
    lemma_pw_add(len - n, n);
    lemma_pw_add(k, len);
    lemma_chunks_fin_arith(val(done), pw(k), val(ca), val(cb), val(cc), c0, k2, r, pw(len - n), pw(n), val(c_orig),
        sgn(s) * (val(a_done) * val(b)), sgn(s) * x);
    lemma_sgn_acc(s, val(a_done), val(a_rem), val(b), pw(k));
    // carry range
    lemma_val_prod_bound(a, b);
    lemma_val_bound(fin);
    lemma_val_bound(c_orig);
    lemma_sgn(s, val(a) * val(b));
    lemma_signed_carry_range(val(fin), val(c_orig), sgn(s) * (val(a) * val(b)), k2 + r, pw(c_orig.len() as int));
}
