// ---- core DoubleWord (@D@) operations without a vstd specification: TRUSTED (definition of the core functions) ----
pub assume_specification [@D@::overflowing_add] (a: @D@, b: @D@) -> (r: (@D@, bool))
    ensures r.0 as int + b2i(r.1) * (B() * B()) == a as int + b as int;
pub assume_specification [@D@::overflowing_sub] (a: @D@, b: @D@) -> (r: (@D@, bool))
    ensures r.0 as int - b2i(r.1) * (B() * B()) == a as int - b as int;
pub assume_specification [@D@::wrapping_neg] (a: @D@) -> (r: @D@)
    ensures r as int == (if a == 0 { 0 } else { B() * B() - a as int });
