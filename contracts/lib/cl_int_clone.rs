// ---- cl_int_clone.rs: `Clone::clone` of UBig / IBig for units whose integer stub library (lib/bigstub.rs) has none.
// TRUSTED (integer/src/ibig.rs / ubig.rs `impl Clone::clone`, verified as forwarders in unit clone_int; storage-level copy:
// Kani group int_repr): a clone has the value of its source.  Same contract as lib/round_int_stubs.rs / lib/farey_stubs.rs.
impl Clone for UBig {
    #[verifier::external_body]
    fn clone(&self) -> (r: UBig) ensures r.v() == self.v() { unimplemented!() }
}
impl Clone for IBig {
    #[verifier::external_body]
    fn clone(&self) -> (r: IBig) ensures r.v() == self.v() { unimplemented!() }
}
