// ---- leh_step_lemmas.rs: lemmas for integer/src/gcd/lehmer.rs lehmer_step / lehmer_ext_step (C12). Word = @W@ ----------
// Needs lib/prelude.rs.

/// the largest cofactor: SignedWord::MAX == B/2 - 1
pub open spec fn leh_lim() -> int { @HALFB@ - 1 }

/// no overflow in `a * sx_i - b * sy_i + carry` (SignedDoubleWord) and in `a * sx_i + b * sy_i + carry` (DoubleWord)
pub proof fn lemma_leh_prod_bound(a: int, w: int)
    requires 0 <= a <= leh_lim(), 0 <= w < B(),
    ensures 0 <= a * w <= leh_lim() * (B() - 1),
        leh_lim() * (B() - 1) + @HALFB@ <= @HALFB@ * B() - 1,
        2 * (leh_lim() * (B() - 1)) + B() - 1 <= B() * B() - 1,
{
    assert(a * w >= 0) by (nonlinear_arith) requires a >= 0, w >= 0;
    assert(a * w <= leh_lim() * (B() - 1)) by (nonlinear_arith) requires 0 <= a <= leh_lim(), 0 <= w <= B() - 1;
    assert(leh_lim() * (B() - 1) + @HALFB@ <= @HALFB@ * B() - 1) by (nonlinear_arith)
        requires leh_lim() == @HALFB@ - 1, B() == 2 * @HALFB@;
    assert(2 * (leh_lim() * (B() - 1)) + B() - 1 <= B() * B() - 1) by (nonlinear_arith)
        requires leh_lim() == @HALFB@ - 1, B() == 2 * @HALFB@;
}

/// one word of the signed combination:  acc + cin*p == a*vx - b*vy  (prefixes),  new + cout*B == a*xi - b*yi + cin
///   ==>  (acc + new*p) + cout*(B*p) == a*(vx + xi*p) - b*(vy + yi*p)
pub proof fn lemma_leh_step_acc(acc: int, cin: int, a: int, b: int, vx: int, vy: int, xi: int, yi: int, nw: int, cout: int, p: int)
    requires acc + cin * p == a * vx - b * vy, nw + cout * B() == a * xi - b * yi + cin,
    ensures (acc + nw * p) + cout * (B() * p) == a * (vx + xi * p) - b * (vy + yi * p),
{
    assert((nw + cout * B()) * p == nw * p + cout * (B() * p)) by (nonlinear_arith);
    assert((a * xi - b * yi + cin) * p == a * (xi * p) - b * (yi * p) + cin * p) by (nonlinear_arith);
    assert(a * (vx + xi * p) == a * vx + a * (xi * p)) by (nonlinear_arith);
    assert(b * (vy + yi * p) == b * vy + b * (yi * p)) by (nonlinear_arith);
}

/// unsigned variant (lehmer_ext_step):  acc + cin*p == a*vx + b*vy,  new + cout*B == a*xi + b*yi + cin
pub proof fn lemma_leh_ext_acc(acc: int, cin: int, a: int, b: int, vx: int, vy: int, xi: int, yi: int, nw: int, cout: int, p: int)
    requires acc + cin * p == a * vx + b * vy, nw + cout * B() == a * xi + b * yi + cin,
    ensures (acc + nw * p) + cout * (B() * p) == a * (vx + xi * p) + b * (vy + yi * p),
{
    assert((-b) * vy == -(b * vy)) by (nonlinear_arith);
    assert((-b) * yi == -(b * yi)) by (nonlinear_arith);
    assert((-b) * (vy + yi * p) == -(b * (vy + yi * p))) by (nonlinear_arith);
    lemma_leh_step_acc(acc, cin, a, -b, vx, vy, xi, yi, nw, cout, p);
}

/// 0 <= lo < p and 0 <= lo + k*p < p  ==>  k == 0
pub proof fn lemma_leh_carry_zero(lo: int, k: int, p: int)
    requires 0 <= lo < p, 0 <= lo + k * p < p,
    ensures k == 0,
{
    if k >= 1 { assert(k * p >= p) by (nonlinear_arith) requires k >= 1, p >= 1; }
    if k <= -1 { assert(k * p <= -p) by (nonlinear_arith) requires k <= -1, p >= 1; }
}

/// the top word of the longer operand (x has one word more than y):  with t the top word,
///   lo + xc*p == a*vx - b*vy  and  0 <= a*(vx + t*p) - b*vy < p   ==>   xc + a*t == 0
pub proof fn lemma_leh_top_x(lo: int, xc: int, a: int, b: int, vx: int, vy: int, t: int, p: int)
    requires 0 <= lo < p, lo + xc * p == a * vx - b * vy, 0 <= a * (vx + t * p) - b * vy < p,
    ensures xc + a * t == 0,
{
    assert(a * (vx + t * p) == a * vx + (a * t) * p) by (nonlinear_arith);
    assert((xc + a * t) * p == xc * p + (a * t) * p) by (nonlinear_arith);
    lemma_leh_carry_zero(lo, xc + a * t, p);
}
///   lo + yc*p == d*vy - c*vx  and  0 <= d*vy - c*(vx + t*p) < p   ==>   yc == c*t
pub proof fn lemma_leh_top_y(lo: int, yc: int, c: int, d: int, vx: int, vy: int, t: int, p: int)
    requires 0 <= lo < p, lo + yc * p == d * vy - c * vx, 0 <= d * vy - c * (vx + t * p) < p,
    ensures yc == c * t,
{
    assert(c * (vx + t * p) == c * vx + (c * t) * p) by (nonlinear_arith);
    assert((yc - c * t) * p == yc * p - (c * t) * p) by (nonlinear_arith);
    lemma_leh_carry_zero(lo, yc - c * t, p);
}

/// a >= 1, t >= 0, a*t == 0  ==>  t == 0
pub proof fn lemma_leh_prod_zero(a: int, t: int)
    requires a >= 1, t >= 0, a * t == 0,
    ensures t == 0,
{
    if t >= 1 { assert(a * t >= 1) by (nonlinear_arith) requires a >= 1, t >= 1; }
}

/// val of a sequence one word longer than n
pub proof fn lemma_leh_val_top(s: Seq<Word>, n: int)
    requires s.len() == n + 1, n >= 0,
    ensures val(s) == valn(s, n) + (s[n] as int) * pw(n),
{
}
