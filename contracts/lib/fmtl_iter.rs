// ---- fmtl_iter.rs: the helper that lowering rule D22 (engine/lower.py) substitutes for a STORED
// `P.iter().enumerate().rev()` iterator.  NOT trusted: plain exec code verified in the including unit.  What it is
// checked against is the definition of core's `Rev<Enumerate<slice::Iter<T>>>`: `next()` yields (k, &P[k]) for
// k = P.len()-1 down to 0, then None (trusted, as for rule D1: that core's adapters follow that definition).
pub struct __EnumRev<'a, T> {
    pub s: &'a [T],
    /// number of items not yet yielded: the next one is (n-1, &s[n-1])
    pub n: usize,
}

impl<'a, T> __EnumRev<'a, T> {
    pub open spec fn wf(&self) -> bool { self.n <= self.s@.len() }

    pub fn next(&mut self) -> (r: Option<(usize, &'a T)>)
        requires old(self).wf(),
        ensures final(self).s == old(self).s, final(self).wf(),
            old(self).n == 0 ==> r is None && final(self).n == 0,
            old(self).n > 0 ==> final(self).n == old(self).n - 1 && r is Some && r.unwrap().0 == old(self).n - 1
                && *r.unwrap().1 == old(self).s@[old(self).n as int - 1],
    {
        if self.n == 0 {
            None
        } else {
            self.n = self.n - 1;
            Some((self.n, &self.s[self.n]))
        }
    }

    pub fn __has_next(&self) -> (r: bool)
        ensures r == (self.n > 0),
    { self.n > 0 }
}

pub fn __enum_rev<'a, T>(v: &'a Vec<T>) -> (r: __EnumRev<'a, T>)
    ensures r.s@ == v@, r.n == v@.len(), r.wf(),
{
    let s = v.as_slice();
    __EnumRev { s, n: s.len() }
}
