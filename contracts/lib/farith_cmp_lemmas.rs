// ---- farith_cmp_lemmas.rs: specification, stubs and lemmas of the float comparison unit (float/src/cmp.rs).
// Needs round_prelude.rs, round_int_stubs.rs, round_float_repr.rs, conv_fbig_stubs.rs, farith_repr_stubs.rs, farith_lemmas.rs.

pub open spec fn is_inf(S: int, E: int) -> bool { S == 0 && E != 0 }
/// C05 (float clause): the mathematical order of  Sl * b^El  and  Sr * b^Er  (compared as integers after scaling to the
/// smaller exponent), with the infinities (zero significand, exponent > 0 / < 0) at the two ends; `abs`: order of the
/// absolute values.
pub open spec fn float_cmp_spec(b: int, abs: bool, Sl: int, El: int, Sr: int, Er: int) -> Ordering {
    let (li, ri) = (is_inf(Sl, El), is_inf(Sr, Er));
    if li && ri {
        if abs { Ordering::Equal } else { int_cmp(if El > 0 { 1int } else { -1int }, if Er > 0 { 1int } else { -1int }) }
    } else if ri {
        if abs || Er > 0 { Ordering::Less } else { Ordering::Greater }
    } else if li {
        if abs || El > 0 { Ordering::Greater } else { Ordering::Less }
    } else {
        let F = imin(El, Er);
        let (x, y) = (Sl * ipow(b, (El - F) as nat), Sr * ipow(b, (Er - F) as nat));
        if abs { int_cmp(iabs(x), iabs(y)) } else { int_cmp(x, y) }
    }
}
/// infinities are only ever produced as (0, 1) / (0, -1)  (Repr::infinity / neg_infinity; shifts assert finiteness)
pub open spec fn canonical_inf(S: int, E: int) -> bool { is_inf(S, E) ==> E == 1 || E == -1 }

// ---- TRUSTED stubs
// base/src/sign.rs `impl Mul<Ordering> for Sign`: Positive => rhs, Negative => rhs.reverse()
pub open spec fn ord_rev(o: Ordering) -> Ordering {
    match o { Ordering::Less => Ordering::Greater, Ordering::Equal => Ordering::Equal, Ordering::Greater => Ordering::Less }
}
impl Mul<Ordering> for Sign { type Output = Ordering; #[verifier::external_body] fn mul(self, rhs: Ordering) -> Ordering { unimplemented!() } }
impl MulSpecImpl<Ordering> for Sign {
    open spec fn obeys_mul_spec() -> bool { true }
    open spec fn mul_req(self, rhs: Ordering) -> bool { true }
    open spec fn mul_spec(self, rhs: Ordering) -> Ordering { match self { Sign::Positive => rhs, Sign::Negative => ord_rev(rhs) } }
}
// float/src/repr.rs `#[derive(PartialEq, Eq)] pub struct Repr`: significands equal (IBig == follows the value) and
// exponents equal
impl<const B: Word> PartialEq for Repr<B> { #[verifier::external_body] fn eq(&self, o: &Repr<B>) -> bool { unimplemented!() } }
impl<const B: Word> PartialEqSpecImpl for Repr<B> {
    open spec fn obeys_eq_spec() -> bool { true }
    open spec fn eq_spec(&self, o: &Repr<B>) -> bool { self.significand.v() == o.significand.v() && self.exponent == o.exponent }
}

/// an operand whose top digit lies below the lowest digit of the other one is the smaller in magnitude
pub proof fn lemma_cmp_far(b: int, Sa: int, Ea: int, Sb: int, Eb: int, d: nat)
    requires b >= 2, Sa != 0, iabs(Sb) < ipow(b, d), Ea >= Eb + d
    ensures iabs(Sa * ipow(b, (Ea - Eb) as nat)) > iabs(Sb),
        Sa > 0 ==> Sa * ipow(b, (Ea - Eb) as nat) > iabs(Sb),
        Sa < 0 ==> Sa * ipow(b, (Ea - Eb) as nat) < -iabs(Sb),
{
    let k = (Ea - Eb) as nat;
    let u = ipow(b, k);
    lemma_ipow_mono(b, d, k);
    let x = Sa * u;
    assert(Sa > 0 ==> x >= u) by (nonlinear_arith) requires x == Sa * u, u >= 1;
    assert(Sa < 0 ==> x <= -u) by (nonlinear_arith) requires x == Sa * u, u >= 1;
}
/// |s * b^k| == |s| * b^k
pub proof fn lemma_abs_shift(b: int, s: int, k: nat)
    requires b >= 1
    ensures iabs(s * ipow(b, k)) == iabs(s) * ipow(b, k)
{
    let u = ipow(b, k);
    lemma_ipow_pos(b, k);
    let (v, a) = (s * u, iabs(s));
    assert(iabs(v) == a * u) by (nonlinear_arith) requires v == s * u, a == (if s < 0 { -s } else { s }), u >= 1;
}
/// normalized representations are unique: same value ==> same significand and exponent
pub proof fn lemma_norm_unique(b: int, s1: int, e1: int, s2: int, e2: int)
    requires b >= 2, s1 != 0 && s1 % b != 0, s2 != 0 && s2 % b != 0, same_value(b, s1, e1, s2, e2)
    ensures s1 == s2, e1 == e2
{
    if e1 < e2 { lemma_shift_divisible(b, s2, (e2 - e1) as nat); }
    else if e1 > e2 { lemma_shift_divisible(b, s1, (e1 - e2) as nat); }
    else { assert(ipow(b, 0) == 1); assert(s2 * 1 == s2); }
}

/// what `cmp` / `==` on FBig values may rely on: a finite value of limited precision p carries at most p + 1 digits
/// (C03; guaranteed by every public producer since `with_precision` rounds unlimited sources, /repo 73390f4; `from_repr`
/// demands it); infinities are canonical; exponents / precisions below 2^60 (isize overflow outside the contract);
/// digit counts below 2^56 -- resource limit: exponent overflow is a documented panic (C16), not modelled: case 6 of
/// repr_cmp_same_base calls `shl_digits` with an exponent difference of up to digits_ub <= 2 * digits + 2, whose bit
/// position `pos * log2(B)` must fit usize (`pos_room`)
pub open spec fn fbig_cmp_pre<R: Round, const B: Word>(f: FBig<R, B>) -> bool {
    let (S, E, p) = (f.repr.significand.v(), f.repr.exponent as int, f.context.precision);
    canonical_inf(S, E)
    && (p != 0 && !is_inf(S, E) ==> ndigits(B as int, S) <= p + 1)
    && p < 0x1000_0000_0000_0000 && -0x1000_0000_0000_0000 < E && E < 0x1000_0000_0000_0000
    && ndigits(B as int, S) < 0x100_0000_0000_0000
}
pub open spec fn repr_cmp_pre<const B: Word>(r: Repr<B>) -> bool {
    let (S, E) = (r.significand.v(), r.exponent as int);
    canonical_inf(S, E) && -0x1000_0000_0000_0000 < E && E < 0x1000_0000_0000_0000 && ndigits(B as int, S) < 0x100_0000_0000_0000
}
/// invariant of Repr (every constructor goes through normalize()): the significand is not divisible by the base
pub open spec fn repr_normalized<const B: Word>(r: Repr<B>) -> bool {
    r.significand.v() == 0 || r.significand.v() % (B as int) != 0
}
/// for normalized finite representations equality of the fields is equality of the values
pub proof fn lemma_eq_fields(b: int, Sl: int, El: int, Sr: int, Er: int)
    requires b >= 2, !is_inf(Sl, El), !is_inf(Sr, Er), Sl == 0 || Sl % b != 0, Sr == 0 || Sr % b != 0
    ensures (Sl == Sr && El == Er) == (float_cmp_spec(b, false, Sl, El, Sr, Er) == Ordering::Equal)
{
    let F = imin(El, Er);
    let (ul, ur) = (ipow(b, (El - F) as nat), ipow(b, (Er - F) as nat));
    lemma_ipow_pos(b, (El - F) as nat);
    lemma_ipow_pos(b, (Er - F) as nat);
    assert(ipow(b, 0) == 1);
    let (x, y) = (Sl * ul, Sr * ur);
    assert((Sl == 0) == (x == 0)) by (nonlinear_arith) requires x == Sl * ul, ul >= 1;
    assert((Sr == 0) == (y == 0)) by (nonlinear_arith) requires y == Sr * ur, ur >= 1;
    if x == y && Sl != 0 {
        assert(Sl * 1 == Sl && Sr * 1 == Sr);
        assert(same_value(b, Sl, El, Sr, Er));
        lemma_norm_unique(b, Sl, El, Sr, Er);
    }
}
