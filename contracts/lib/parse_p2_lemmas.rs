// ---- parse_p2_lemmas.rs: the right-to-left digit loops of integer/src/parse/power_two.rs (digits of log2(radix) bits
// packed into words).  Needs prelude.rs, shift_bv.rs, dispatch_lemmas.rs, pow_lemmas.rs, pow_api_lemmas.rs (lemma_pw_pow2),
// parse_spec.rs, parse_stubs.rs.  Nothing here is trusted.

/// trailing_zeros of a power-of-two radix is its logarithm
pub proof fn lemma_tz_radix(radix: Digit)
    requires radix_p2(radix),
    ensures vstd::std_specs::bits::u32_trailing_zeros(radix) as int == log_radix(radix), 1 <= log_radix(radix) <= 5,
        radix as int == pow2(log_radix(radix)),
{
    let r = vstd::std_specs::bits::u32_trailing_zeros(radix);
    vstd::std_specs::bits::axiom_u32_trailing_zeros(radix);
    assert(r < 32);
    let rw = r as u32;
    assert(((radix >> rw) & 1) == 1);
    assert((((radix >> rw) & 1) == 1) ==> ((radix == 2 ==> rw == 1) && (radix == 4 ==> rw == 2) && (radix == 8 ==> rw == 3)
        && (radix == 16 ==> rw == 4) && (radix == 32 ==> rw == 5))) by (bit_vector) requires rw < 32;
    assert(pow2(1) == 2 && pow2(2) == 4 && pow2(3) == 8 && pow2(4) == 16 && pow2(5) == 32) by (compute);
}

/// radix^m == 2^(log * m)
pub proof fn lemma_ipow_p2(radix: Digit, m: int)
    requires radix_p2(radix), m >= 0,
    ensures ipow(radix as int, m) == pow2(log_radix(radix) * m), log_radix(radix) * m >= 0,
{
    lemma_tz_radix(radix);
    let l = log_radix(radix);
    lemma_pow2_ipow(l);
    lemma_ipow_mul(2, l, m);
    lemma_pow2_ipow(l * m);
}

/// one digit OR-ed into the current word at bit position `bits` (word < 2^bits, digit < 2^log):
/// without carry (bits + log <= BITS) the new word is word + digit * 2^bits < 2^(bits + log);
/// with carry (bits + log > BITS ... >= BITS) the truncated word and the spilled high part add up to the same number
pub proof fn lemma_p2_or(word: @W@, digit: @W@, bits: u32, log: u32)
    requires bits < @BITS@, 1 <= log <= 5, (word as int) < pow2(bits as int), (digit as int) < pow2(log as int),
    ensures
        bits + log <= @BITS@ ==> (word | (digit << bits)) as int == word as int + (digit as int) * pow2(bits as int)
            && ((word | (digit << bits)) as int) < pow2(bits as int + log as int),
        bits + log >= @BITS@ ==> bits > 0
            && (word | (digit << bits)) as int + ((digit >> ((@BITS@ - bits) as u32)) as int) * B()
                == word as int + (digit as int) * pow2(bits as int)
            && ((digit >> ((@BITS@ - bits) as u32)) as int) < pow2(bits as int + log as int - @BITS@),
{
    lemma_sh_pow2_bits();
    assert(pow2(5) == 32) by (compute);
    lemma_sh_pow2_mono(log as int, 5);
    lemma_sh_pow2_pos(bits as int);
    lemma_sh_pow2_add(bits as int, log as int);
    let (wi, di, p, q) = (word as int, digit as int, pow2(bits as int), pow2(log as int));
    assert(di * p < q * p) by (nonlinear_arith) requires 0 <= di < q, p >= 1;
    assert(di * p >= 0) by (nonlinear_arith) requires 0 <= di, p >= 1;
    assert(q * p == p * q) by (nonlinear_arith);
    if bits == 0 {
        assert(pow2(0) == 1);
        assert(word == 0);
        assert((0 as @W@ | (digit << 0u32)) == digit) by (bit_vector);
        assert(di * 1 == di);
    } else {
        let x = (digit as @D@) << bits;
        let lo = x as @W@;
        let hi = (x >> @BITS@u32) as @W@;
        let up = (@BITS@ - bits) as u32;
        assert(lo as @D@ + (hi as @D@) * @B@@D@ == x) by (bit_vector)
            requires lo == x as @W@, hi == (x >> @BITS@u32) as @W@;
        lemma_sh_shl_step(digit, bits, word, lo, hi);
        assert(lo == digit << bits && hi == digit >> up) by (bit_vector)
            requires 0 < bits < @BITS@, up == @BITS@ - bits, digit < 32, x == (digit as @D@) << bits, lo == x as @W@,
                hi == (x >> @BITS@u32) as @W@;
        assert((lo | word) == (word | lo)) by (bit_vector);
        let hii = hi as int;
        if bits + log <= @BITS@ {
            lemma_sh_pow2_mono(bits as int + log as int, @BITS@);
            // lo + hi * B == digit * 2^bits < 2^(bits+log) <= B: no spill
            assert(hii == 0) by (nonlinear_arith) requires lo as int + hii * B() < B(), 0 <= lo as int, 0 <= hii, B() >= 1;
            assert(hii * B() == 0) by (nonlinear_arith) requires hii == 0;
            assert(lo as int == di * p);
            assert(di * p + p <= q * p) by (nonlinear_arith) requires di + 1 <= q, p >= 1;
            assert((word | lo) as int == wi + di * p);
        }
        if bits + log >= @BITS@ {
            let e = bits as int + log as int - @BITS@;
            lemma_sh_pow2_add(@BITS@, e);
            lemma_sh_pow2_pos(e);
            // hi * B <= digit * 2^bits < 2^BITS * 2^e
            assert(hii < pow2(e)) by (nonlinear_arith)
                requires lo as int + hii * B() < B() * pow2(e), 0 <= lo as int, 0 <= hii, pow2(e) >= 1, B() >= 1;
        }
    }
}

/// state of the digit loop after the suffix t of the text: `done` complete words, `word` holding `bits` more bits
pub open spec fn p2_inv(t: Seq<u8>, radix: Digit, done: Seq<Word>, word: Word, bits: int) -> bool {
    &&& text_ok(t, radix as int)
    &&& 0 <= bits <= @BITS@
    &&& log_radix(radix) * strip_us(t).len() == @BITS@ * done.len() + bits
    &&& (word as int) < pow2(bits)
    &&& val(done) + (word as int) * pw(done.len() as int) == digits_value(strip_us(t), radix as int)
}

pub proof fn lemma_p2_init(s: Seq<u8>, radix: Digit, done: Seq<Word>)
    requires done.len() == 0,
    ensures p2_inv(s.subrange(s.len() as int, s.len() as int), radix, done, 0, 0),
{
    let t = s.subrange(s.len() as int, s.len() as int);
    assert(t.len() == 0);
    assert(strip_us(t) =~= Seq::<u8>::empty());
    assert(log_radix(radix) * 0 == 0);
    assert(pow2(0) == 1);
    lemma_val_empty(done);
    assert(0 * pw(0) == 0);
}

/// bits accumulated so far: at most log per byte read
pub proof fn lemma_p2_bits_bound(t: Seq<u8>, radix: Digit, done: Seq<Word>, word: Word, bits: int)
    requires radix_p2(radix), p2_inv(t, radix, done, word, bits),
    ensures @BITS@ * done.len() + bits <= log_radix(radix) * t.len(),
{
    lemma_strip_len(t);
    let (l, a, b) = (log_radix(radix), strip_us(t).len() as int, t.len() as int);
    assert(l * a <= l * b) by (nonlinear_arith) requires 1 <= l, a <= b;
}

/// a '_' in front of the suffix changes nothing
pub proof fn lemma_p2_skip(s: Seq<u8>, j: int, radix: Digit, done: Seq<Word>, word: Word, bits: int)
    requires 0 <= j < s.len(), s[j] == US(), p2_inv(s.subrange(j + 1, s.len() as int), radix, done, word, bits),
    ensures p2_inv(s.subrange(j, s.len() as int), radix, done, word, bits),
{
    let (t1, t0) = (s.subrange(j, s.len() as int), s.subrange(j + 1, s.len() as int));
    assert(t1 =~= seq![s[j]] + t0);
    lemma_text_ok_cons(s[j], t0, radix as int);
    lemma_strip_cons(s[j], t0);
}

/// a byte that is neither a separator nor a digit makes the whole text malformed
pub proof fn lemma_p2_bad(s: Seq<u8>, j: int, radix: int)
    requires 0 <= j < s.len(), s[j] != US(), !is_dig(s[j], radix),
    ensures !text_ok(s, radix),
{}

/// a digit in front of the suffix, no word boundary crossed (new_bits <= BITS)
pub proof fn lemma_p2_digit(s: Seq<u8>, j: int, radix: Digit, done: Seq<Word>, word: Word, bits: u32, digit: Digit)
    requires radix_p2(radix), 0 <= j < s.len(), s[j] != US(), is_dig(s[j], radix as int), digit as int == dig_of(s[j]),
        p2_inv(s.subrange(j + 1, s.len() as int), radix, done, word, bits as int),
        bits + log_radix(radix) <= @BITS@,
    ensures bits < @BITS@,
        p2_inv(s.subrange(j, s.len() as int), radix, done, word | ((digit as Word) << bits), bits + log_radix(radix)),
{
    lemma_tz_radix(radix);
    let l = log_radix(radix);
    let (t1, t0) = (s.subrange(j, s.len() as int), s.subrange(j + 1, s.len() as int));
    assert(t1 =~= seq![s[j]] + t0);
    lemma_text_ok_cons(s[j], t0, radix as int);
    lemma_strip_cons(s[j], t0);
    let ds = strip_us(t0);
    let m = ds.len() as int;
    lemma_dv_cons(s[j], ds, radix as int);
    lemma_ipow_p2(radix, m);
    lemma_p2_or(word, digit as Word, bits, l as u32);
    assert(l * (m + 1) == l * m + l) by (nonlinear_arith);
    // radix^m == 2^(l*m) == 2^(BITS*|done| + bits) == B^|done| * 2^bits
    let n = done.len() as int;
    lemma_pw_pow2(n);
    lemma_sh_pow2_add(@BITS@ * n, bits as int);
    let (wi, di, pb, pn) = (word as int, digit as int, pow2(bits as int), pw(n));
    assert((wi + di * pb) * pn == wi * pn + di * (pn * pb)) by (nonlinear_arith);
}

/// a digit in front of the suffix that completes a word (new_bits >= BITS)
pub proof fn lemma_p2_digit_carry(s: Seq<u8>, j: int, radix: Digit, done: Seq<Word>, word: Word, bits: u32, digit: Digit)
    requires radix_p2(radix), 0 <= j < s.len(), s[j] != US(), is_dig(s[j], radix as int), digit as int == dig_of(s[j]),
        p2_inv(s.subrange(j + 1, s.len() as int), radix, done, word, bits as int),
        bits < @BITS@, bits + log_radix(radix) >= @BITS@,
    ensures bits > 0,
        p2_inv(s.subrange(j, s.len() as int), radix, done.push(word | ((digit as Word) << bits)),
            (digit as Word) >> ((@BITS@ - bits) as u32), bits + log_radix(radix) - @BITS@),
{
    lemma_tz_radix(radix);
    let l = log_radix(radix);
    let (t1, t0) = (s.subrange(j, s.len() as int), s.subrange(j + 1, s.len() as int));
    assert(t1 =~= seq![s[j]] + t0);
    lemma_text_ok_cons(s[j], t0, radix as int);
    lemma_strip_cons(s[j], t0);
    let ds = strip_us(t0);
    let m = ds.len() as int;
    lemma_dv_cons(s[j], ds, radix as int);
    lemma_ipow_p2(radix, m);
    lemma_p2_or(word, digit as Word, bits, l as u32);
    assert(l * (m + 1) == l * m + l) by (nonlinear_arith);
    let n = done.len() as int;
    lemma_pw_pow2(n);
    lemma_sh_pow2_add(@BITS@ * n, bits as int);
    let full = word | ((digit as Word) << bits);
    let hi = (digit as Word) >> ((@BITS@ - bits) as u32);
    lemma_val_push(done, full);
    let (wi, di, pb, pn, fi, hii) = (word as int, digit as int, pow2(bits as int), pw(n), full as int, hi as int);
    assert(pw(n + 1) == B() * pn);
    assert((fi + hii * B()) * pn == fi * pn + hii * (B() * pn)) by (nonlinear_arith);
    assert((wi + di * pb) * pn == wi * pn + di * (pn * pb)) by (nonlinear_arith);
    assert(@BITS@ * (n + 1) == @BITS@ * n + @BITS@);
}

/// parse_word: the loop is over, the word is the number
pub proof fn lemma_p2_fin_word(s: Seq<u8>, radix: Digit, done: Seq<Word>, word: Word, bits: int)
    requires done.len() == 0, p2_inv(s.subrange(0, s.len() as int), radix, done, word, bits),
    ensures text_ok(s, radix as int), word as int == text_value(s, radix as int),
{
    assert(s.subrange(0, s.len() as int) =~= s);
    lemma_val_empty(done);
    assert(pw(0) == 1);
    assert((word as int) * 1 == word as int);
}

/// parse_large: the loop is over; the last partial word is pushed iff it holds bits
pub proof fn lemma_p2_fin_large(s: Seq<u8>, radix: Digit, done: Seq<Word>, word: Word, bits: int)
    requires p2_inv(s.subrange(0, s.len() as int), radix, done, word, bits),
    ensures text_ok(s, radix as int),
        bits > 0 ==> val(done.push(word)) == text_value(s, radix as int),
        bits == 0 ==> val(done) == text_value(s, radix as int),
{
    assert(s.subrange(0, s.len() as int) =~= s);
    lemma_val_push(done, word);
    if bits == 0 {
        assert(pow2(0) == 1);
        assert(0 * pw(done.len() as int) == 0);
    }
}

/// the single-word fast path: at most floor(BITS / log) digits: every digit fits below bit BITS
pub proof fn lemma_p2_word_room(radix: Digit, len: int, rest: int, done: Seq<Word>, bits: int)
    requires radix_p2(radix), len <= @BITS@int / log_radix(radix), 0 <= rest < len, done.len() == 0,
        @BITS@ * done.len() + bits <= log_radix(radix) * rest,
    ensures bits + log_radix(radix) <= @BITS@,
{
    let l = log_radix(radix);
    let q = @BITS@int / l;
    assert(l * q <= @BITS@) by { vstd::arithmetic::div_mod::lemma_fundamental_div_mod(@BITS@, l); vstd::arithmetic::div_mod::lemma_mod_bound(@BITS@, l); }
    assert(l * rest + l <= l * q) by (nonlinear_arith) requires rest + 1 <= q, l >= 1;
}

/// room in the buffer of ceil(num_bits / BITS) words: `words` complete words and `bits` more bits were produced by `read`
/// of the `len` characters:  bits == 0 ==> words <= capacity, bits > 0 ==> words < capacity
pub proof fn lemma_p2_room(num_bits: int, len: int, read: int, log: int, words: int, bits: int)
    requires num_bits == len * log, 0 <= read <= len, log >= 1, words >= 0, bits >= 0, num_bits >= 1,
        @BITS@ * words + bits <= log * read,
    ensures words <= (num_bits - 1) / @BITS@ + 1, bits > 0 ==> words < (num_bits - 1) / @BITS@ + 1,
{
    assert(log * read <= len * log) by (nonlinear_arith) requires read <= len, log >= 1;
    let q = (num_bits - 1) / @BITS@;
    vstd::arithmetic::div_mod::lemma_fundamental_div_mod(num_bits - 1, @BITS@);
    vstd::arithmetic::div_mod::lemma_mod_bound(num_bits - 1, @BITS@);
    // num_bits - 1 == BITS * q + r, r < BITS  ==>  num_bits <= BITS * (q + 1)
    if words > q + 1 { assert(@BITS@ * words >= @BITS@ * (q + 2)); }
    if bits > 0 && words >= q + 1 { assert(@BITS@ * words >= @BITS@ * (q + 1)); }
}

// core: u32::is_power_of_two -- "Returns true if and only if self == 2^k for some k" (exactly one bit set)
pub assume_specification [u32::is_power_of_two] (x: u32) -> (r: bool)
    ensures r == (x != 0 && x & sub(x, 1) == 0);

/// the two parser families: a valid radix is a power of two or not
pub proof fn lemma_radix_class(radix: Digit)
    requires 2 <= radix <= 36,
    ensures (radix != 0 && radix & sub(radix, 1) == 0) == radix_p2(radix), radix_p2(radix) != radix_ok(radix),
        1 <= log_radix(radix) <= 5,
{
    assert((radix != 0 && radix & sub(radix, 1) == 0) == (radix == 2 || radix == 4 || radix == 8 || radix == 16 || radix == 32))
        by (bit_vector) requires 2 <= radix <= 36;
}
