// ---- lemmas for integer/src/div/divide_conquer.rs (Burnikel-Ziegler) ----------------------------------------------

/// small quotient step: the 2m/m division of the top parts, then subtract Qh * (low part of the divisor)
///   A = a_lo + P*A_hi,  A_hi = Qh*Rhi + r',  rem1 = a_lo + P*r',  R = Rlo + P*Rhi   ==>   A = Qh*R + (rem1 - Qh*Rlo)
/// and the running value T = rem1 - Qh*Rlo is below R and above -2*B^n
pub proof fn lemma_dc_sq_setup(a: int, a_lo: int, a_hi: int, p: int, qh: int, rhi: int, rp: int, rem1: int, r: int, rlo: int)
    requires a == a_lo + p * a_hi, a_hi == qh * rhi + rp, rem1 == a_lo + p * rp, r == rlo + p * rhi,
        0 <= a_lo < p, 0 <= rp < rhi, 0 <= rlo, qh >= 0,
    ensures a == qh * r + (rem1 - qh * rlo), rem1 - qh * rlo < r, rem1 >= 0,
{
    assert(p * (qh * rhi + rp) == qh * (p * rhi) + p * rp) by (nonlinear_arith);
    assert(qh * (rlo + p * rhi) == qh * rlo + qh * (p * rhi)) by (nonlinear_arith);
    assert(p * rp + p <= p * rhi) by (nonlinear_arith) requires rp + 1 <= rhi, p >= 0;
    assert(qh * rlo >= 0) by (nonlinear_arith) requires qh >= 0, rlo >= 0;
    assert(p * rp >= 0) by (nonlinear_arith) requires p >= 0, rp >= 0;
}

/// overflow word of a signed accumulation: v1 + ov*Bn == t with lo*Bn <= t < hi*Bn  ==>  lo <= ov < hi
pub proof fn lemma_dc_ov_bounds(v1: int, ov: int, bn: int, t: int, lo: int, hi: int)
    requires 0 <= v1 < bn, v1 + ov * bn == t, lo * bn <= t, t < hi * bn,
    ensures lo <= ov < hi,
{
    assert(ov < hi) by (nonlinear_arith) requires ov * bn < hi * bn, bn > 0;
    let x = (lo - 1) * bn;
    assert(x == lo * bn - bn) by (nonlinear_arith) requires x == (lo - 1) * bn;
    assert(ov > lo - 1) by (nonlinear_arith) requires ov * bn > (lo - 1) * bn, bn > 0;
}

/// one correction step: rem += R (carry c), q -= 1 (borrow b):  the identity A = (q + qo*Bm)*R + rem + ro*Bn is kept
pub proof fn lemma_dc_correct_step(a: int, q0: int, qo0: int, rem0: int, ro0: int, q1: int, qo1: int, rem1: int, ro1: int,
    c: int, b: int, r: int, bm: int, bn: int)
    requires a == (q0 + qo0 * bm) * r + rem0 + ro0 * bn,
        rem1 + c * bn == rem0 + r, ro1 == ro0 + c,
        q1 - b * bm == q0 - 1, qo1 == qo0 - b,
    ensures a == (q1 + qo1 * bm) * r + rem1 + ro1 * bn, rem1 + ro1 * bn == rem0 + ro0 * bn + r,
{
    assert((qo0 - b) * bm == qo0 * bm - b * bm) by (nonlinear_arith);
    assert((ro0 + c) * bn == ro0 * bn + c * bn) by (nonlinear_arith);
    let qq = q0 + qo0 * bm;
    assert((qq - 1) * r == qq * r - r) by (nonlinear_arith);
}

/// exit of the correction loop: A = Q*R + T, 0 <= T < R with T = rem + ro*Bn, ro >= 0  ==> ro = 0, qo in {0,1}, and the
/// carry tells whether the top n words of the dividend reach the divisor
pub proof fn lemma_dc_sq_exit(a: int, q: int, qo: int, rem: int, ro: int, r: int, bm: int, bn: int, tn: int, low: int)
    requires a == (q + qo * bm) * r + rem + ro * bn, ro >= 0, rem + ro * bn < r, 0 <= rem < bn, 0 < r < bn, 2 * r >= bn,
        0 <= q < bm, 0 <= a < bm * bn, a == low + bm * tn, 0 <= low < bm,
    ensures ro == 0, 0 <= qo <= 1, (qo != 0) == (tn >= r), rem < r,
{
    assert(ro == 0) by (nonlinear_arith) requires ro >= 0, rem + ro * bn < bn, rem >= 0, bn > 0;
    assert(ro * bn == 0) by (nonlinear_arith) requires ro == 0;
    let qq = q + qo * bm;
    assert(qq >= 0) by (nonlinear_arith) requires qq * r == a - rem, a >= 0, rem < r, r > 0;
    assert(qq < 2 * bm) by (nonlinear_arith) requires qq * r <= a, a < bm * bn, bn <= 2 * r, r > 0, bm > 0;
    assert(qo >= 0) by (nonlinear_arith) requires q + qo * bm >= 0, q < bm, bm > 0;
    assert(qo <= 1) by (nonlinear_arith) requires q + qo * bm < 2 * bm, q >= 0, bm > 0;
    if qo == 0 {
        assert(qo * bm == 0) by (nonlinear_arith) requires qo == 0;
        assert(q * r <= (bm - 1) * r) by (nonlinear_arith) requires q <= bm - 1, r > 0;
        assert((bm - 1) * r == bm * r - r) by (nonlinear_arith);
        // a < bm * r  ==> tn < r
        assert(tn < r) by (nonlinear_arith) requires low + bm * tn < bm * r, low >= 0, bm > 0;
    } else {
        assert(qo * bm == bm) by (nonlinear_arith) requires qo == 1;
        assert((q + bm) * r >= bm * r) by (nonlinear_arith) requires q >= 0, r > 0;
        // a >= bm * r ==> tn >= r
        assert(tn >= r) by (nonlinear_arith) requires low + bm * tn >= bm * r, low < bm, bm > 0;
    }
}

/// val(s) = valn(s, k) + B^k * val(s[k..])   and   val(s[..k]) = valn(s, k)
pub proof fn lemma_dc_split(s: Seq<Word>, k: int)
    requires 0 <= k <= s.len(),
    ensures val(s) == val(s.subrange(0, k)) + pw(k) * val(s.subrange(k, s.len() as int)),
        0 <= val(s.subrange(0, k)) < pw(k), 0 <= val(s.subrange(k, s.len() as int)) < pw(s.len() - k),
        pw(s.len() as int) == pw(k) * pw(s.len() - k),
{
    lemma_val_split(s, k);
    lemma_valn_bound(s.subrange(0, k), k);
    lemma_valn_bound(s.subrange(k, s.len() as int), s.len() - k);
    lemma_pw_add(k, s.len() - k);
}

/// subtracting Rlo from the words m.. of rem:  v = lo + Bm*hi;  hi3 - b*P == hi2 - Rlo;  Bn = Bm*P
pub proof fn lemma_dc_sq_sub(v2: int, v3: int, lo: int, hi2: int, hi3: int, b: int, rlo: int, bm: int, p: int, bn: int)
    requires v2 == lo + bm * hi2, v3 == lo + bm * hi3, hi3 - b * p == hi2 - rlo, bn == bm * p,
    ensures v3 - b * bn == v2 - bm * rlo,
{
    assert(bm * (hi2 - rlo + b * p) == bm * hi2 - bm * rlo + b * (bm * p)) by (nonlinear_arith);
}

/// two 3n/2n steps make a 2n/n division:
///   A = a_lo + Plo*T0;  T0 = (Qhi + o*Phi)*R + r1;  a_lo + Plo*r1 = Qlo*R + r2   ==>  A = (Qlo + Plo*Qhi + o*Bn)*R + r2
pub proof fn lemma_dc_same_len(a: int, a_lo: int, t0: int, qhi: int, o: int, r1: int, qlo: int, r2: int, r: int,
    plo: int, phi: int, bn: int)
    requires a == a_lo + plo * t0, t0 == (qhi + o * phi) * r + r1, a_lo + plo * r1 == (qlo + 0) * r + r2, bn == plo * phi,
    ensures a == ((qlo + plo * qhi) + o * bn) * r + r2,
{
    assert(plo * ((qhi + o * phi) * r + r1) == (plo * qhi) * r + (o * (plo * phi)) * r + plo * r1) by (nonlinear_arith);
    assert(((qlo + plo * qhi) + o * bn) * r == qlo * r + (plo * qhi) * r + (o * bn) * r) by (nonlinear_arith);
}

/// small quotient, after the recursive 2m/m division of the top parts (sequence level):
/// l1 agrees with l0 below k = n-m and [l1[k..n], l1[n..]] is the (remainder, quotient) of l0[k..] by rhs[k..]
pub proof fn lemma_dc_sq_rec(l0: Seq<Word>, l1: Seq<Word>, rhs: Seq<Word>, o: bool, n: int, m: int)
    requires 2 <= m < n, rhs.len() == n, l0.len() == n + m, l1.len() == n + m,
        forall|j: int| 0 <= j < n - m ==> l1[j] == l0[j],
        div_post(l0.subrange(n - m, n + m), l1.subrange(n - m, n + m), rhs.subrange(n - m, n), o),
    ensures ({
        let qh = val(l1.subrange(n, n + m)) + b2i(o) * pw(m);
        let rlo = val(rhs.subrange(0, n - m));
        let rem1 = val(l1.subrange(0, n));
        val(l0) == qh * val(rhs) + (rem1 - qh * rlo) && rem1 - qh * rlo < val(rhs) && 0 <= rlo < pw(n - m) && qh >= 0
            && 0 <= val(l1.subrange(n, n + m)) < pw(m) && pw(n) == pw(m) * pw(n - m) && 0 <= rem1 < pw(n)
            && pw(m) >= 1 && pw(n) >= 1 && pw(n - m) >= 1
    }),
{
    reveal(div_post);
    let k = n - m;
    let s0 = l0.subrange(k, n + m);
    let s1 = l1.subrange(k, n + m);
    let rhi = rhs.subrange(k, n);
    let rlo = rhs.subrange(0, k);
    let q = l1.subrange(n, n + m);
    let rem = l1.subrange(0, n);
    lemma_dc_split(rhs, k);
    lemma_dc_split(l0, k);
    lemma_dc_split(rem, k);
    lemma_pw_add(m, k);
    lemma_pw_pos(m); lemma_pw_pos(n); lemma_pw_pos(k);
    assert(s1.subrange(m, 2 * m) =~= q);
    assert(s1.subrange(0, m) =~= l1.subrange(k, n));
    assert(rem.subrange(0, k) =~= l0.subrange(0, k));
    assert(rem.subrange(k, n) =~= l1.subrange(k, n));
    lemma_valn_bound(q, m);
    lemma_valn_bound(rem, n);
    let qh = val(q) + b2i(o) * pw(m);
    assert(b2i(o) * pw(m) >= 0) by (nonlinear_arith) requires b2i(o) >= 0, pw(m) >= 1;
    lemma_dc_sq_setup(val(l0), val(l0.subrange(0, k)), val(s0), pw(k), qh, val(rhi), val(l1.subrange(k, n)), val(rem),
        val(rhs), val(rlo));
}

/// the overflow word of rem -= q * Rlo is -1 or 0
pub proof fn lemma_dc_sq_mul_bounds(rem1: int, q1: int, rlo: int, bm: int, p: int, bn: int, v2: int, ro2: int)
    requires 0 <= rem1 < bn, 0 <= q1 < bm, 0 <= rlo < p, bn == bm * p, 0 <= v2 < bn, v2 + ro2 * bn == rem1 - q1 * rlo,
    ensures -1 <= ro2 <= 0,
{
    assert(q1 * rlo < bm * p) by (nonlinear_arith) requires 0 <= q1 < bm, 0 <= rlo < p;
    assert(q1 * rlo >= 0) by (nonlinear_arith) requires 0 <= q1, 0 <= rlo;
    assert((-1) * bn == -bn && 1 * bn == bn);
    lemma_dc_ov_bounds(v2, ro2, bn, rem1 - q1 * rlo, -1, 1);
}

/// subtracting Rlo from the words m.. of rem (sequence level)
pub proof fn lemma_dc_sq_sub_seq(rem2: Seq<Word>, rem3: Seq<Word>, rlo: int, b: int, n: int, m: int)
    requires 0 <= m <= n, rem2.len() == n, rem3.len() == n,
        forall|j: int| 0 <= j < m ==> rem3[j] == rem2[j],
        val(rem3.subrange(m, n)) - b * pw(n - m) == val(rem2.subrange(m, n)) - rlo,
    ensures val(rem3) - b * pw(n) == val(rem2) - pw(m) * rlo,
{
    lemma_dc_split(rem2, m);
    lemma_dc_split(rem3, m);
    assert(rem3.subrange(0, m) =~= rem2.subrange(0, m));
    lemma_dc_sq_sub(val(rem2), val(rem3), val(rem2.subrange(0, m)), val(rem2.subrange(m, n)), val(rem3.subrange(m, n)),
        b, rlo, pw(m), pw(n - m), pw(n));
}

/// the loop invariant of the correction loop holds on entry
pub proof fn lemma_dc_sq_inv(rem1: int, q1: int, qo: int, rlo: int, bm: int, bn: int, v2: int, ro2: int, v3: int, ro3: int, b: int)
    requires v2 + ro2 * bn == rem1 - q1 * rlo,
        (qo == 0 && v3 == v2 && ro3 == ro2) || (qo == 1 && v3 - b * bn == v2 - bm * rlo && ro3 == ro2 - b),
    ensures v3 + ro3 * bn == rem1 - (q1 + qo * bm) * rlo,
{
    if qo == 0 {
        assert(qo * bm == 0) by (nonlinear_arith) requires qo == 0;
    } else {
        assert(qo * bm == bm) by (nonlinear_arith) requires qo == 1;
        assert((q1 + bm) * rlo == q1 * rlo + bm * rlo) by (nonlinear_arith);
        assert((ro2 - b) * bn == ro2 * bn - b * bn) by (nonlinear_arith);
    }
}

/// inside the correction loop (running value negative) the quotient so far is positive: q_overflow >= 0
pub proof fn lemma_dc_sq_loop_pos(a: int, qv: int, qo: int, remv: int, ro: int, r: int, bm: int, bn: int)
    requires a >= 0, a == (qv + qo * bm) * r + remv + ro * bn, 0 <= remv < bn, ro <= -1, r > 0, 0 <= qv < bm,
    ensures qo >= 0, remv + ro * bn < 0,
{
    assert(remv + ro * bn < 0) by (nonlinear_arith) requires remv < bn, ro <= -1, bn >= 1;
    assert(qv + qo * bm > 0) by (nonlinear_arith)
        requires (qv + qo * bm) * r == a - (remv + ro * bn), a >= 0, remv + ro * bn < 0, r > 0;
    assert(qo >= 0) by (nonlinear_arith) requires qv + qo * bm > 0, qv < bm, bm >= 1;
}

/// recomposition: final lhs = rem ++ q satisfies div_post
pub proof fn lemma_dc_sq_post(l0: Seq<Word>, l2: Seq<Word>, rhs: Seq<Word>, ret: bool, n: int, m: int, qo: int)
    requires 0 <= m, 0 <= n, l0.len() == n + m, l2.len() == n + m, rhs.len() == n, qo == b2i(ret),
        val(l0) == (val(l2.subrange(n, n + m)) + qo * pw(m)) * val(rhs) + val(l2.subrange(0, n)),
        val(l2.subrange(0, n)) < val(rhs),
        ret == (val(l0.subrange(m, n + m)) >= val(rhs)),
    ensures div_post(l0, l2, rhs, ret),
{
    reveal(div_post);
    assert(l0.subrange(l0.len() - n, l0.len() as int) =~= l0.subrange(m, n + m));
}

/// one block step of the outer long division, on values (see lemma_dc_outer_seq)
pub proof fn lemma_dc_outer_step(a: int, qacc: int, ov: int, o: int, qb: int, rb: int, low: int, vb0: int, vlow_m: int, r: int,
    pk: int, pj: int, pw_: int, pl: int)
    requires a == ((qacc + ov * pk) * pj) * r + vlow_m, vlow_m == low + pl * vb0, vb0 == (qb + o * pw_) * r + rb,
        pj == pw_ * pl, o == 0 || (o == 1 && qacc == 0 && ov == 0 && pk == 1),
    ensures a == (((qb + pw_ * qacc) + (ov + o) * (pk * pw_)) * pl) * r + (low + pl * rb),
{
    let x = qacc + ov * pk;
    assert((x * (pw_ * pl)) * r == ((x * pw_) * pl) * r) by (nonlinear_arith);
    assert(pl * ((qb + o * pw_) * r + rb) == ((qb + o * pw_) * pl) * r + pl * rb) by (nonlinear_arith);
    assert(((x * pw_) * pl) * r + ((qb + o * pw_) * pl) * r == ((x * pw_ + qb + o * pw_) * pl) * r) by (nonlinear_arith);
    if o == 0 {
        assert(o * pw_ == 0) by (nonlinear_arith) requires o == 0;
        assert((qacc + ov * pk) * pw_ == pw_ * qacc + (ov + o) * (pk * pw_)) by (nonlinear_arith) requires o == 0;
    } else {
        assert(x == 0) by (nonlinear_arith) requires x == qacc + ov * pk, qacc == 0, ov == 0;
        assert(x * pw_ == 0) by (nonlinear_arith) requires x == 0;
        assert(pw_ * qacc == 0) by (nonlinear_arith) requires qacc == 0;
        assert((ov + o) * (pk * pw_) == pw_ && o * pw_ == pw_) by (nonlinear_arith) requires ov == 0, o == 1, pk == 1;
    }
}

/// one block step of the outer long division (sequence level): the block l[s..m] (remainder-so-far on top) is
/// divided in place; l2 = [.., remainder (n words at s), block quotient (w = m-s-n words), earlier quotient words]
pub proof fn lemma_dc_outer_seq(a: int, l: Seq<Word>, l2: Seq<Word>, rhs: Seq<Word>, o: bool, ov: bool, s: int, m: int, n: int)
    requires 0 <= s, n >= 1, s + n <= m <= l.len(), l2.len() == l.len(), rhs.len() == n,
        forall|j: int| (0 <= j < s || m <= j < l.len()) ==> l2[j] == l[j],
        div_post(l.subrange(s, m), l2.subrange(s, m), rhs, o),
        a == ((val(l.subrange(m, l.len() as int)) + b2i(ov) * pw(l.len() - m)) * pw(m - n)) * val(rhs) + val(l.subrange(0, m)),
        m < l.len() ==> val(l.subrange(m - n, m)) < val(rhs),
        m == l.len() ==> !ov,
    ensures
        o ==> m == l.len(),
        a == ((val(l2.subrange(s + n, l.len() as int)) + b2i(ov || o) * pw(l.len() - s - n)) * pw(s)) * val(rhs)
            + val(l2.subrange(0, s + n)),
        val(l2.subrange(s, s + n)) < val(rhs),
        o == (val(l.subrange(m - n, m)) >= val(rhs)),
{
    reveal(div_post);
    let len = l.len() as int;
    let w = m - s - n;
    let b0 = l.subrange(s, m);
    let b1 = l2.subrange(s, m);
    // low part up to m, before and after
    lemma_dc_split(l.subrange(0, m), s);
    assert(l.subrange(0, m).subrange(0, s) =~= l.subrange(0, s));
    assert(l.subrange(0, m).subrange(s, m) =~= b0);
    lemma_dc_split(l2.subrange(0, s + n), s);
    assert(l2.subrange(0, s + n).subrange(0, s) =~= l.subrange(0, s));
    assert(l2.subrange(0, s + n).subrange(s, s + n) =~= b1.subrange(0, n));
    assert(l2.subrange(s, s + n) =~= b1.subrange(0, n));
    // quotient words, after
    lemma_dc_split(l2.subrange(s + n, len), w);
    assert(l2.subrange(s + n, len).subrange(0, w) =~= b1.subrange(n, n + w));
    assert(l2.subrange(s + n, len).subrange(w, len - s - n) =~= l.subrange(m, len));
    assert(b0.subrange(b0.len() - n, b0.len() as int) =~= l.subrange(m - n, m));
    lemma_pw_add(w, s);
    lemma_pw_add(len - m, w);
    assert(o ==> m == len);
    if o {
        assert(l.subrange(m, len).len() == 0);
        assert(val(l.subrange(m, len)) == 0);
        assert(pw(0) == 1);
    }
    let pk = pw(len - m);
    assert(b2i(ov || o) == b2i(ov) + b2i(o));
    lemma_dc_outer_step(a, val(l.subrange(m, len)), b2i(ov), b2i(o), val(b1.subrange(n, n + w)), val(b1.subrange(0, n)),
        val(l.subrange(0, s)), val(b0), val(l.subrange(0, m)), val(rhs), pk, pw(m - n), pw(w), pw(s));
    assert(pw(w) * val(l.subrange(m, len)) == val(l.subrange(m, len)) * pw(w)) by (nonlinear_arith);
}

// ---- the outer block loop of divide_conquer::div_rem_in_place, with its invariant kept abstract (closed) so that the
//      loop body never sees the non-linear arithmetic ---------------------------------------------------------------
pub mod dc_outer {
use super::*;
/// state after the blocks above position m have been divided: quotient words in l[m..], running remainder in l[..m]
/// (its top n words already below the divisor unless nothing has happened yet), carry `ov` on top of the quotient
pub closed spec fn inv(l0: Seq<Word>, l: Seq<Word>, rhs: Seq<Word>, ov: bool, m: int) -> bool {
    let len = l0.len() as int;
    let n = rhs.len() as int;
    let rr = val(rhs);
    &&& l.len() == l0.len() && 1 <= n <= m <= len
    &&& val(l0) == ((val(l.subrange(m, len)) + b2i(ov) * pw(len - m)) * pw(m - n)) * rr + val(l.subrange(0, m))
    &&& (m < len ==> val(l.subrange(m - n, m)) < rr)
    &&& (m < len ==> ov == (val(l0.subrange(len - n, len)) >= rr))
    &&& (m == len ==> !ov && l == l0)
}

pub proof fn lemma_init(l0: Seq<Word>, rhs: Seq<Word>)
    requires 1 <= rhs.len() <= l0.len(),
    ensures inv(l0, l0, rhs, false, l0.len() as int),
{
    let len = l0.len() as int;
    assert(l0.subrange(len, len).len() == 0);
    assert(val(l0.subrange(len, len)) == 0);
    assert(pw(0) == 1);
    assert(l0.subrange(0, len) =~= l0);
    assert(((0 + b2i(false) * pw(0)) * pw(len - rhs.len())) * val(rhs) == 0) by (nonlinear_arith) requires b2i(false) == 0;
}

/// one block: l[s..m] divided in place (div_post), everything else untouched
pub proof fn lemma_step(l0: Seq<Word>, l: Seq<Word>, l2: Seq<Word>, rhs: Seq<Word>, o: bool, ov: bool, s: int, m: int)
    requires inv(l0, l, rhs, ov, m), 0 <= s, s + rhs.len() < m, l2.len() == l.len(),
        forall|j: int| (0 <= j < s || m <= j < l.len()) ==> l2[j] == l[j],
        div_post(l.subrange(s, m), l2.subrange(s, m), rhs, o),
    ensures inv(l0, l2, rhs, ov || o, s + rhs.len()), o ==> m == l.len(),
{
    let n = rhs.len() as int;
    let len = l0.len() as int;
    lemma_dc_outer_seq(val(l0), l, l2, rhs, o, ov, s, m, n);
    if m == len { assert(l == l0); } else { assert(!o); }
}

pub proof fn lemma_fin(l0: Seq<Word>, l: Seq<Word>, rhs: Seq<Word>, ov: bool)
    requires inv(l0, l, rhs, ov, rhs.len() as int), rhs.len() < l0.len(),
    ensures div_post(l0, l, rhs, ov),
{
    reveal(div_post);
    let n = rhs.len() as int;
    let len = l0.len() as int;
    assert(pw(0) == 1);
    let q = val(l.subrange(n, len)) + b2i(ov) * pw(len - n);
    assert((q * pw(0)) * val(rhs) == q * val(rhs)) by (nonlinear_arith) requires pw(0) == 1;
    assert(l.subrange(n - n, n) =~= l.subrange(0, n));
}

pub proof fn lemma_bounds(l0: Seq<Word>, l: Seq<Word>, rhs: Seq<Word>, ov: bool, m: int)
    requires inv(l0, l, rhs, ov, m),
    ensures l.len() == l0.len(), rhs.len() <= m <= l0.len(),
{}
}
