// ---- lemmas for integer/src/div/divide_conquer.rs (Burnikel-Ziegler) ----------------------------------------------

/// small quotient step: the 2m/m division of the top parts, then subtract Qh * (low part of the divisor)
///   A = a_lo + P*A_hi,  A_hi = Qh*Rhi + r',  rem1 = a_lo + P*r',  R = Rlo + P*Rhi   ==>   A = Qh*R + (rem1 - Qh*Rlo)
/// and the running value T = rem1 - Qh*Rlo is below R and above -2*B^n
pub proof fn lemma_dc_sq_setup(a: int, a_lo: int, a_hi: int, p: int, qh: int, rhi: int, rp: int, rem1: int, r: int, rlo: int)
    requires a == a_lo + p * a_hi, a_hi == qh * rhi + rp, rem1 == a_lo + p * rp, r == rlo + p * rhi,
        0 <= a_lo < p, 0 <= rp < rhi, 0 <= rlo, qh >= 0,
    ensures a == qh * r + (rem1 - qh * rlo), rem1 - qh * rlo < r, rem1 >= 0,
{
    assert(p * (qh * rhi + rp) == qh * (p * rhi) + p * rp) by (nonlinear_arith);
    assert(qh * (rlo + p * rhi) == qh * rlo + qh * (p * rhi)) by (nonlinear_arith);
    assert(p * rp + p <= p * rhi) by (nonlinear_arith) requires rp + 1 <= rhi, p >= 0;
    assert(qh * rlo >= 0) by (nonlinear_arith) requires qh >= 0, rlo >= 0;
    assert(p * rp >= 0) by (nonlinear_arith) requires p >= 0, rp >= 0;
}

/// overflow word of a signed accumulation: v1 + ov*Bn == t with -k*Bn <= t... : bounds on ov from bounds on t
pub proof fn lemma_dc_ov_bounds(v1: int, ov: int, bn: int, t: int, lo: int, hi: int)
    requires 0 <= v1 < bn, v1 + ov * bn == t, lo * bn <= t, t < hi * bn,
    ensures lo <= ov + 1 || lo <= ov, ov < hi, ov >= lo - 1,
{
    assert(ov < hi) by (nonlinear_arith) requires ov * bn < hi * bn, bn > 0;
    assert(ov > lo - 1) by (nonlinear_arith) requires ov * bn > (lo - 1) * bn, bn > 0;
}

/// one correction step: rem += R (carry c), q -= 1 (borrow b):  the identity A = (q + qo*Bm)*R + rem + ro*Bn is kept
pub proof fn lemma_dc_correct_step(a: int, q0: int, qo0: int, rem0: int, ro0: int, q1: int, qo1: int, rem1: int, ro1: int,
    c: int, b: int, r: int, bm: int, bn: int)
    requires a == (q0 + qo0 * bm) * r + rem0 + ro0 * bn,
        rem1 + c * bn == rem0 + r, ro1 == ro0 + c,
        q1 - b * bm == q0 - 1, qo1 == qo0 - b,
    ensures a == (q1 + qo1 * bm) * r + rem1 + ro1 * bn,
{
    assert((qo0 - b) * bm == qo0 * bm - b * bm) by (nonlinear_arith);
    assert((ro0 + c) * bn == ro0 * bn + c * bn) by (nonlinear_arith);
    let qq = q0 + qo0 * bm;
    assert((qq - 1) * r == qq * r - r) by (nonlinear_arith);
}

/// exit of the correction loop: A = Q*R + T, 0 <= T < R with T = rem + ro*Bn, ro >= 0  ==> ro = 0, qo in {0,1}, and the
/// carry tells whether the top n words of the dividend reach the divisor
pub proof fn lemma_dc_sq_exit(a: int, q: int, qo: int, rem: int, ro: int, r: int, bm: int, bn: int, tn: int, low: int)
    requires a == (q + qo * bm) * r + rem + ro * bn, ro >= 0, rem + ro * bn < r, 0 <= rem < bn, 0 < r < bn, 2 * r >= bn,
        0 <= q < bm, 0 <= a < bm * bn, a == low + bm * tn, 0 <= low < bm,
    ensures ro == 0, 0 <= qo <= 1, (qo != 0) == (tn >= r), rem < r,
{
    assert(ro == 0) by (nonlinear_arith) requires ro >= 0, rem + ro * bn < bn, rem >= 0, bn > 0;
    assert(ro * bn == 0) by (nonlinear_arith) requires ro == 0;
    let qq = q + qo * bm;
    assert(qq >= 0) by (nonlinear_arith) requires qq * r == a - rem, a >= 0, rem < r, r > 0;
    assert(qq < 2 * bm) by (nonlinear_arith) requires qq * r <= a, a < bm * bn, bn <= 2 * r, r > 0, bm > 0;
    assert(qo >= 0) by (nonlinear_arith) requires q + qo * bm >= 0, q < bm, bm > 0;
    assert(qo <= 1) by (nonlinear_arith) requires q + qo * bm < 2 * bm, q >= 0, bm > 0;
    if qo == 0 {
        assert(qo * bm == 0) by (nonlinear_arith) requires qo == 0;
        assert(q * r <= (bm - 1) * r) by (nonlinear_arith) requires q <= bm - 1, r > 0;
        assert((bm - 1) * r == bm * r - r) by (nonlinear_arith);
        // a < bm * r  ==> tn < r
        assert(tn < r) by (nonlinear_arith) requires low + bm * tn < bm * r, low >= 0, bm > 0;
    } else {
        assert(qo * bm == bm) by (nonlinear_arith) requires qo == 1;
        assert((q + bm) * r >= bm * r) by (nonlinear_arith) requires q >= 0, r > 0;
        // a >= bm * r ==> tn >= r
        assert(tn >= r) by (nonlinear_arith) requires low + bm * tn >= bm * r, low < bm, bm > 0;
    }
}

/// val(s) = valn(s, k) + B^k * val(s[k..])   and   val(s[..k]) = valn(s, k)
pub proof fn lemma_dc_split(s: Seq<Word>, k: int)
    requires 0 <= k <= s.len(),
    ensures val(s) == val(s.subrange(0, k)) + pw(k) * val(s.subrange(k, s.len() as int)),
        0 <= val(s.subrange(0, k)) < pw(k), 0 <= val(s.subrange(k, s.len() as int)) < pw(s.len() - k),
        pw(s.len() as int) == pw(k) * pw(s.len() - k),
{
    lemma_val_split(s, k);
    lemma_valn_bound(s.subrange(0, k), k);
    lemma_valn_bound(s.subrange(k, s.len() as int), s.len() - k);
    lemma_pw_add(k, s.len() - k);
}

/// subtracting Rlo from the words m.. of rem:  v = lo + Bm*hi;  hi3 - b*P == hi2 - Rlo;  Bn = Bm*P
pub proof fn lemma_dc_sq_sub(v2: int, v3: int, lo: int, hi2: int, hi3: int, b: int, rlo: int, bm: int, p: int, bn: int)
    requires v2 == lo + bm * hi2, v3 == lo + bm * hi3, hi3 - b * p == hi2 - rlo, bn == bm * p,
    ensures v3 - b * bn == v2 - bm * rlo,
{
    assert(bm * (hi2 - rlo + b * p) == bm * hi2 - bm * rlo + b * (bm * p)) by (nonlinear_arith);
}

/// two 3n/2n steps make a 2n/n division:
///   A = a_lo + Plo*T0;  T0 = (Qhi + o*Phi)*R + r1;  a_lo + Plo*r1 = Qlo*R + r2   ==>  A = (Qlo + Plo*Qhi + o*Bn)*R + r2
pub proof fn lemma_dc_same_len(a: int, a_lo: int, t0: int, qhi: int, o: int, r1: int, qlo: int, r2: int, r: int,
    plo: int, phi: int, bn: int)
    requires a == a_lo + plo * t0, t0 == (qhi + o * phi) * r + r1, a_lo + plo * r1 == (qlo + 0) * r + r2, bn == plo * phi,
    ensures a == ((qlo + plo * qhi) + o * bn) * r + r2,
{
    assert(plo * ((qhi + o * phi) * r + r1) == (plo * qhi) * r + (o * (plo * phi)) * r + plo * r1) by (nonlinear_arith);
    assert(((qlo + plo * qhi) + o * bn) * r == qlo * r + (plo * qhi) * r + (o * bn) * r) by (nonlinear_arith);
}
