// ---- dispatch_lemmas.rs: value lemmas for the Buffer/Repr dispatch layer (add_ops.rs, mul_ops.rs, pow.rs) ----------

pub proof fn lemma_val3(s: Seq<Word>)
    requires s.len() == 3,
    ensures val(s) == s[0] as int + (s[1] as int) * B() + (s[2] as int) * (B() * B()),
{
    lemma_val2(s.subrange(0, 2));
    lemma_valn_ext(s, s.subrange(0, 2), 2);
    assert(valn(s, 3) == valn(s, 2) + (s[2] as int) * pw(2));
    assert(pw(2) == B() * pw(1));
    assert(pw(1) == B() * pw(0));
    assert(pw(0) == 1);
    assert(pw(2) == B() * B());
}

pub proof fn lemma_pw2()
    ensures pw(0) == 1, pw(1) == B(), pw(2) == B() * B(),
{
    assert(pw(2) == B() * pw(1));
    assert(pw(1) == B() * pw(0));
    assert(pw(0) == 1);
}

pub proof fn lemma_val4(s: Seq<Word>)
    requires s.len() == 4,
    ensures val(s) == (s[0] as int + (s[1] as int) * B()) + ((s[2] as int) + (s[3] as int) * B()) * (B() * B()),
{
    lemma_val_split(s, 2);
    lemma_val2(s.subrange(0, 2));
    lemma_val2(s.subrange(2, 4));
    lemma_pw2();
    let hi = (s[2] as int) + (s[3] as int) * B();
    assert(pw(2) * hi == hi * (B() * B())) by (nonlinear_arith) requires pw(2) == B() * B();
}

pub proof fn lemma_val_empty(s: Seq<Word>)
    requires s.len() == 0,
    ensures val(s) == 0,
{}

/// appending one word
pub proof fn lemma_val_push(s: Seq<Word>, w: Word)
    ensures val(s.push(w)) == val(s) + (w as int) * pw(s.len() as int),
{
    let t = s.push(w);
    lemma_valn_ext(t, s, s.len() as int);
    assert(valn(t, t.len() as int) == valn(t, s.len() as int) + (t[s.len() as int] as int) * pw(s.len() as int));
}

/// concatenation
pub proof fn lemma_val_concat(a: Seq<Word>, b: Seq<Word>)
    ensures val(a + b) == val(a) + pw(a.len() as int) * val(b),
{
    let s = a + b;
    lemma_val_split(s, a.len() as int);
    assert(s.subrange(0, a.len() as int) =~= a);
    assert(s.subrange(a.len() as int, s.len() as int) =~= b);
}

/// a block of zero words has value 0
pub proof fn lemma_val_zeros(n: int)
    requires n >= 0,
    ensures val(zeros(n)) == 0,
{
    lemma_valn_zero(zeros(n), 0, n);
}

pub proof fn lemma_pw_mono(a: int, b: int)
    requires 0 <= a <= b,
    ensures pw(a) <= pw(b),
    decreases b
{
    if a < b {
        lemma_pw_mono(a, b - 1);
        lemma_pw_pos(b - 1);
        assert(B() * pw(b - 1) >= pw(b - 1)) by (nonlinear_arith) requires pw(b - 1) >= 1, B() >= 1;
    }
}

/// a non-empty sequence without leading zero word is at least B^(len-1)
pub proof fn lemma_normalized_lower(s: Seq<Word>)
    requires s.len() >= 1, s[s.len() - 1] != 0,
    ensures val(s) >= pw(s.len() as int - 1),
{
    let n = s.len() as int;
    lemma_valn_bound(s, n - 1);
    lemma_pw_pos(n - 1);
    let t = s[n - 1] as int;
    let p = pw(n - 1);
    assert(valn(s, n) == valn(s, n - 1) + t * p);
    assert(t * p >= p) by (nonlinear_arith) requires t >= 1, p >= 1;
}

/// a `Large` magnitude does not fit in a double word
pub proof fn lemma_large_ge(s: Seq<Word>)
    requires s.len() >= 3, s[s.len() - 1] != 0,
    ensures val(s) >= B() * B(),
{
    lemma_normalized_lower(s);
    lemma_pw_mono(2, s.len() as int - 1);
    lemma_pw2();
}

/// shorter than a normalized sequence ==> smaller value
pub proof fn lemma_shorter_is_less(a: Seq<Word>, b: Seq<Word>)
    requires a.len() < b.len(), b[b.len() - 1] != 0,
    ensures val(a) < val(b),
{
    lemma_valn_bound(a, a.len() as int);
    lemma_normalized_lower(b);
    lemma_pw_mono(a.len() as int, b.len() as int - 1);
}

/// subtraction kernels: new - c*P == d with 0 <= new < P.  d >= 0 <==> no borrow.
pub proof fn lemma_no_borrow(new: int, c: int, p: int, d: int)
    requires new - c * p == d, 0 <= new < p, c == 0 || c == 1,
    ensures d >= 0 <==> c == 0,
{
    if c == 1 { assert(c * p == p) by (nonlinear_arith) requires c == 1; }
    else { assert(c * p == 0) by (nonlinear_arith) requires c == 0; }
}

pub proof fn lemma_sgn_cases(s: Sign, x: int)
    ensures sgn(s) * x == (match s { Sign::Positive => x, Sign::Negative => -x }),
{
    match s {
        Sign::Positive => { assert(1 * x == x); }
        Sign::Negative => { assert((-1) * x == -x); }
    }
}

// ---- add_ops::repr::add_large --------------------------------------------------------------------------------
/// after the same-length addition of the low n = min(len) words and the copy of the surplus words of rhs:
/// lo(b2) + c*B^n + B^n * hi(b2) == val(b0) + val(r)
pub proof fn lemma_add_large_mid(b0: Seq<Word>, r: Seq<Word>, b1: Seq<Word>, b2: Seq<Word>, n: int, c: int)
    requires
        n == (if b0.len() <= r.len() { b0.len() as int } else { r.len() as int }),
        b1.len() == b0.len(),
        val(b1.subrange(0, n)) + c * pw(n) == val(b0.subrange(0, n)) + val(r.subrange(0, n)),
        forall|j: int| n <= j < b0.len() ==> b1[j] == b0[j],
        b2 == (if r.len() > n { b1 + r.subrange(n, r.len() as int) } else { b1 }),
    ensures
        b2.len() >= n,
        b2.len() == (if b0.len() <= r.len() { r.len() } else { b0.len() }),
        val(b2.subrange(0, n)) + c * pw(n) + pw(n) * val(b2.subrange(n, b2.len() as int)) == val(b0) + val(r),
{
    let hi2 = b2.subrange(n, b2.len() as int);
    lemma_val_split(b0, n);
    lemma_val_split(r, n);
    if r.len() > n {
        // n == b0.len(): b0 is exhausted, the surplus of r was appended
        assert(b0.subrange(n, b0.len() as int).len() == 0);
        assert(b2.subrange(0, n) =~= b1.subrange(0, n));
        assert(hi2 =~= r.subrange(n, r.len() as int));
        assert(pw(n) * 0 == 0);
    } else {
        // n == r.len(): r is exhausted, the high words of b0 are untouched
        assert(r.subrange(n, r.len() as int).len() == 0);
        assert(hi2 =~= b0.subrange(n, b0.len() as int));
        assert(pw(n) * 0 == 0);
    }
}

/// carry c propagated into the high part (cout = carry out of the whole buffer, not yet appended)
pub proof fn lemma_add_large_fin(b0: Seq<Word>, r: Seq<Word>, b2: Seq<Word>, b3: Seq<Word>, n: int, c: int, cout: int)
    requires
        0 <= n <= b2.len(), b3.len() == b2.len(),
        val(b2.subrange(0, n)) + c * pw(n) + pw(n) * val(b2.subrange(n, b2.len() as int)) == val(b0) + val(r),
        forall|j: int| 0 <= j < n ==> b3[j] == b2[j],
        (c == 0 && cout == 0 && b3 == b2)
          || (c == 1 && val(b3.subrange(n, b3.len() as int)) + cout * pw(b2.len() - n)
                == val(b2.subrange(n, b2.len() as int)) + 1),
    ensures val(b3) + cout * pw(b2.len() as int) == val(b0) + val(r),
{
    let m = b2.len() as int;
    lemma_val_split(b3, n);
    assert(b3.subrange(0, n) =~= b2.subrange(0, n));
    lemma_pw_add(n, m - n);
    let lo = val(b2.subrange(0, n));
    let hi2 = val(b2.subrange(n, m));
    let hi3 = val(b3.subrange(n, m));
    lemma_hi_carry_p(hi3, hi2, c, cout, pw(m - n), pw(n));
    assert(c * pw(n) == c * pw(n));
    if c == 0 { assert(c * pw(n) == 0) by (nonlinear_arith) requires c == 0; }
    else { assert(c * pw(n) == pw(n)) by (nonlinear_arith) requires c == 1; }
}

// ---- add_ops::repr::sub_large_ref_val ------------------------------------------------------------------------
/// r1 = lhs[..n] - r0 with borrow c; fin = r1 ++ lhs[n..] with the borrow propagated into the high part (cout)
pub proof fn lemma_sub_ref_val_fin(lhs: Seq<Word>, r0: Seq<Word>, r1: Seq<Word>, fin: Seq<Word>, n: int, c: int, cout: int)
    requires
        n == r0.len(), n <= lhs.len(), r1.len() == n, fin.len() == lhs.len(),
        val(r1) - c * pw(n) == val(lhs.subrange(0, n)) - val(r0),
        forall|j: int| 0 <= j < n ==> fin[j] == r1[j],
        (c == 0 && cout == 0 && fin.subrange(n, fin.len() as int) =~= lhs.subrange(n, lhs.len() as int))
          || (c == 1 && val(fin.subrange(n, fin.len() as int)) - cout * pw(lhs.len() - n)
                == val(lhs.subrange(n, lhs.len() as int)) - 1),
    ensures val(fin) - cout * pw(lhs.len() as int) == val(lhs) - val(r0),
{
    let m = lhs.len() as int;
    lemma_val_split(fin, n);
    lemma_val_split(lhs, n);
    assert(fin.subrange(0, n) =~= r1);
    lemma_pw_add(n, m - n);
    lemma_lo_hi_sub(val(r1), val(lhs.subrange(0, n)), val(r0), c,
        val(fin.subrange(n, m)), val(lhs.subrange(n, m)), cout, pw(n), pw(m - n));
    assert(pw(n) * val(fin.subrange(n, m)) == pw(n) * val(fin.subrange(n, m)));
}

// ---- the Small / Large split of TypedRepr(Ref) ------------------------------------------------------------------
pub proof fn lemma_typed_range(t: TypedRepr)
    requires t.wf(),
    ensures t.v() >= 0, t is Large ==> t.v() >= B() * B(), t is Small ==> t.v() < B() * B(),
{
    match t {
        TypedRepr::Small(d) => {}
        TypedRepr::Large(b) => { lemma_large_ge(b@); }
    }
}
pub proof fn lemma_typedref_range(t: TypedReprRef)
    requires t.wf(),
    ensures t.v() >= 0, t is RefLarge ==> t.v() >= B() * B(), t is RefSmall ==> t.v() < B() * B(),
{
    match t {
        TypedReprRef::RefSmall(d) => {}
        TypedReprRef::RefLarge(w) => { lemma_large_ge(w@); }
    }
}
