// ---- simplest_stubs.rs: what `Repr::simplest_in` (rational/src/simplify.rs) needs beyond lib/bigstub.rs, lib/ratio2_stubs.rs,
// lib/ratio2_cmp_stubs.rs (Ord for IBig), lib/farey_stubs.rs (PartialOrd for Repr, DivRem trait).  TRUSTED ASSUMPTIONS.
pub mod simplest_stubs {
use super::*;
use vstd::std_specs::ops::*;
use vstd::std_specs::cmp::{OrdSpecImpl, PartialOrdSpecImpl, PartialEqSpecImpl};
use core::ops::{Add, Sub, Mul, Neg, AddAssign};
use core::cmp::Ordering;

// TRUSTED (core::mem): replace stores src and returns the old value; take stores T::default() and returns the old value
pub assume_specification<T> [core::mem::replace::<T>] (dest: &mut T, src: T) -> (r: T)
    ensures *final(dest) == src, r == *old(dest);
pub assume_specification<T: Default> [core::mem::take::<T>] (dest: &mut T) -> (r: T)
    ensures r == *old(dest), call_ensures(T::default, (), *final(dest));
// TRUSTED (integer/src/ibig.rs `impl Default for IBig`): zero
impl Default for IBig {
    #[verifier::external_body]
    fn default() -> (r: IBig) ensures r.v() == 0 { unimplemented!() }
}
// TRUSTED (integer/src/sign.rs `impl Neg for IBig`): exact negation
impl NegSpecImpl for IBig {
    open spec fn obeys_neg_spec() -> bool { true }
    open spec fn neg_req(self) -> bool { true }
    open spec fn neg_spec(self) -> IBig { ibig_of(-self.v()) }
}
impl Neg for IBig { type Output = IBig;
    #[verifier::external_body]
    fn neg(self) -> IBig { unimplemented!() }
}
// TRUSTED (integer/src/mul_ops.rs, add_ops.rs): exact products / in-place sum for the operand forms used
impl<'a, 'b> MulSpecImpl<&'b IBig> for &'a IBig {
    open spec fn obeys_mul_spec() -> bool { true }
    open spec fn mul_req(self, rhs: &'b IBig) -> bool { true }
    open spec fn mul_spec(self, rhs: &'b IBig) -> IBig { ibig_of(self.v() * rhs.v()) }
}
impl<'a, 'b> Mul<&'b IBig> for &'a IBig { type Output = IBig;
    #[verifier::external_body]
    fn mul(self, rhs: &'b IBig) -> IBig { unimplemented!() }
}
impl<'b> MulSpecImpl<&'b IBig> for IBig {
    open spec fn obeys_mul_spec() -> bool { true }
    open spec fn mul_req(self, rhs: &'b IBig) -> bool { true }
    open spec fn mul_spec(self, rhs: &'b IBig) -> IBig { ibig_of(self.v() * rhs.v()) }
}
impl<'b> Mul<&'b IBig> for IBig { type Output = IBig;
    #[verifier::external_body]
    fn mul(self, rhs: &'b IBig) -> IBig { unimplemented!() }
}
impl AddAssign<IBig> for IBig {
    #[verifier::external_body]
    fn add_assign(&mut self, rhs: IBig) { unimplemented!() }
}
impl AddAssignSpecImpl<IBig> for IBig {
    open spec fn obeys_add_assign_spec() -> bool { true }
    open spec fn add_assign_req(&self, rhs: IBig) -> bool { true }
    open spec fn add_assign_spec(&self, rhs: IBig) -> &IBig { &ibig_of(self.v() + rhs.v()) }
}
// TRUSTED (integer/src/div_ops.rs impl_ibig_divrem): IBig div_rem &IBig is the truncating division; stated for a POSITIVE
// divisor only (all that simplest_in needs; a zero divisor panics = div_rem_req)
impl<'r> DivRem<&'r IBig> for IBig {
    type OutputDiv = IBig;
    type OutputRem = IBig;
    open spec fn div_rem_req(self, rhs: &'r IBig) -> bool { rhs.v() != 0 }
    open spec fn div_rem_post(self, rhs: &'r IBig, r: (IBig, IBig)) -> bool {
        rhs.v() > 0 ==> r.0.v() == tdiv(self.v(), rhs.v()) && r.1.v() == trem(self.v(), rhs.v())
    }
    #[verifier::external_body]
    fn div_rem(self, rhs: &'r IBig) -> (r: (IBig, IBig)) { unimplemented!() }
}
// rational/src/sign.rs `impl Mul<Repr> for Sign`: `rhs.numerator *= self; rhs` -- the numerator gets the sign factor
impl MulSpecImpl<Repr> for Sign {
    open spec fn obeys_mul_spec() -> bool { true }
    open spec fn mul_req(self, rhs: Repr) -> bool { true }
    open spec fn mul_spec(self, rhs: Repr) -> Repr { Repr { numerator: ibig_of(rhs.numerator.v() * sgn(self)), denominator: rhs.denominator } }
}
impl Mul<Repr> for Sign { type Output = Repr;
    #[verifier::external_body]
    fn mul(self, rhs: Repr) -> Repr { unimplemented!() }
}
// rational/src/cmp.rs `impl Ord for Repr` = repr_cmp::<false> (PROVED in unit ratio_cmp for positive denominators), see
// repr_cmp_total in lib/farey_stubs.rs
impl OrdSpecImpl for Repr {
    open spec fn obeys_cmp_spec() -> bool { true }
    open spec fn cmp_spec(&self, other: &Repr) -> Ordering {
        repr_cmp_total(self.numerator.v(), self.denominator.v(), other.numerator.v(), other.denominator.v())
    }
}
impl Eq for Repr {}
impl Ord for Repr { #[verifier::external_body] fn cmp(&self, other: &Self) -> Ordering { unimplemented!() } }
// rational/src/sign.rs `Repr::abs(mut self)`: `if self.numerator.sign() == Negative { self.numerator = -self.numerator } self`
// (TRUSTED transcription: this Verus build rejects `mut self` receivers, so the 3-line body cannot be verified in place)
impl Repr {
    #[verifier::external_body]
    pub fn abs(self) -> (ret: Repr)
        ensures ret.numerator.v() == rabs(self.numerator.v()), ret.denominator.v() == self.denominator.v()
    { unimplemented!() }
}
} // mod simplest_stubs
pub use simplest_stubs::*;
