// ---- mem_need_slack.rs: the closed forms of mul::memory_requirement_up_to exceed the real need by at least ONE Word above
// THRESHOLD_SIMPLE:  n > 24  ==>  gneed(n) + 1 <= mformula(n)   (lemma_mn_slack).  gcd_ops.rs gcd_ext_large relies on it: its
// residue buffer can be one Word longer than the `lhs_len + rhs_len` it reserves in front of mul::memory_requirement_exact.
// Needs lib/prelude.rs, lib/mem_need.rs.  Pure mathematics, nothing trusted.  (Parallel to the chain need <= hbound <= mformula
// of lib/mem_need.rs with the sharper bound hb2 = 2 n + 2 ceil_log2 n - 2 in the Karatsuba range and 20 levels < 13 ceil_log2.)

pub open spec fn hb2(n: int) -> int {
    if n <= 24 { 0 } else if n <= 192 { 2 * n + 2 * clog2(n) - 2 } else { 4 * n + 20 * toom_levels(n) }
}

pub proof fn lemma_mn_hb2_mono(a: int, b: int)
    requires a <= b,
    ensures 0 <= hb2(a) <= hb2(b),
{
    lemma_mn_clog2_nonneg(a); lemma_mn_clog2_nonneg(b);
    lemma_mn_levels_nonneg(a); lemma_mn_levels_nonneg(b);
    lemma_mn_clog2_192();
    if a <= 24 {
        if b > 24 && b <= 192 { lemma_mn_clog2_mono(25, b); assert(clog2(25) == 5) by (compute_only); }
    } else if b <= 192 {
        lemma_mn_clog2_mono(a, b);
        lemma_mn_clog2_mono(25, a); assert(clog2(25) == 5) by (compute_only);
    } else if a <= 192 {
        lemma_mn_clog2_mono(a, 192);
        lemma_mn_clog2_mono(25, a); assert(clog2(25) == 5) by (compute_only);
    } else {
        lemma_mn_levels_mono(a, b);
    }
}

pub proof fn lemma_mn_need_hb2(n: int)
    ensures 0 <= need(n) <= hb2(n),
    decreases n
{
    lemma_mn_clog2_nonneg(n);
    lemma_mn_levels_nonneg(n);
    if n <= 24 {
    } else if n <= 192 {
        let mid = (n + 1) / 2;
        let lo = n - mid;
        lemma_mn_need_hb2(mid);
        lemma_mn_need_hb2(lo);
        lemma_mn_hb2_mono(lo, mid);
        lemma_mn_clog2_nonneg(mid);
        lemma_mn_clog2_mono(25, n); assert(clog2(25) == 5) by (compute_only);
        assert(clog2(n) == 1 + clog2(mid));
        assert(need(n) == imax(2 * mid + need(mid), 2 * lo + need(lo)));
        if mid <= 24 {
            assert(hb2(mid) == 0);
        } else {
            assert(hb2(mid) == 2 * mid + 2 * clog2(mid) - 2);
        }
    } else {
        let n3 = (n + 2) / 3;
        let m = n3 + 1;
        let ns = n - 2 * n3;
        lemma_mn_need_hb2(n3);
        lemma_mn_need_hb2(m);
        lemma_mn_need_hb2(ns);
        lemma_mn_hb2_mono(n3, m);
        lemma_mn_hb2_mono(ns, m);
        lemma_mn_levels_nonneg(m);
        assert(toom_levels(n) == 1 + toom_levels(m));
        assert(need(n) == imax(imax(2 * n3 + 2 + need(n3), 4 * n3 + 4 + need(m)), imax(6 * n3 + 6 + need(ns), 8 * n3 + 8 + need(m))));
        assert(need(n) <= 8 * m + hb2(m));
        assert(12 * m <= 4 * n + 20);
        if m <= 192 {
            lemma_mn_clog2_192();
            lemma_mn_clog2_mono(m, 192);
            assert(hb2(m) == 2 * m + 2 * clog2(m) - 2);
            assert(toom_levels(m) == 0);
        } else {
            assert(hb2(m) == 4 * m + 20 * toom_levels(m));
        }
    }
}

pub proof fn lemma_mn_gneed_hb2(n: int)
    ensures 0 <= gneed(n) <= hb2(n) || (n <= 0 && gneed(n) == 0),
    decreases n
{
    if n > 0 {
        lemma_mn_gneed_hb2(n - 1);
        lemma_mn_need_hb2(n);
        lemma_mn_hb2_mono(n - 1, n);
        lemma_mn_hb2_mono(n, n);
    }
}

/// 2^floor(20 l / 13) <= 3^l  (l >= 1): the strict form of lemma_mn_pow_2_3
pub proof fn lemma_mn_pow_2_3_strict(l: int)
    requires l >= 1,
    ensures pow2((20 * l) / 13) <= pow3(l),
    decreases l
{
    if l <= 13 {
        assert(pow2(1) <= pow3(1) && pow2(3) <= pow3(2) && pow2(4) <= pow3(3) && pow2(6) <= pow3(4) && pow2(7) <= pow3(5)
            && pow2(9) <= pow3(6) && pow2(10) <= pow3(7) && pow2(12) <= pow3(8) && pow2(13) <= pow3(9) && pow2(15) <= pow3(10)
            && pow2(16) <= pow3(11) && pow2(18) <= pow3(12) && pow2(20) <= pow3(13)) by (compute_only);
    } else {
        let k = l - 13;
        lemma_mn_pow_2_3_strict(k);
        let e = (20 * k) / 13;
        assert((20 * l) / 13 == e + 20);
        lemma_mn_pow2_add(e, 20);
        lemma_mn_pow3_add(k, 13);
        assert(pow2(20) == 1048576) by (compute_only);
        assert(pow3(13) == 1594323) by (compute_only);
        let x = pow2(e); let y = pow3(k);
        lemma_mn_pow2_mono(e, e);
        assert(x * 1048576 <= y * 1594323) by (nonlinear_arith) requires 1 <= x <= y;
    }
}

/// 20 * levels(n) < 13 * ceil_log2(n) above THRESHOLD_KARATSUBA
pub proof fn lemma_mn_levels_clog2_strict(n: int)
    requires n > 192,
    ensures 20 * toom_levels(n) + 1 <= 13 * clog2(n),
{
    let l = toom_levels(n);
    let c = clog2(n);
    lemma_mn_levels_nonneg((n + 2) / 3 + 1);
    lemma_mn_clog2_nonneg(n);
    assert(l >= 1);
    if 20 * l >= 13 * c {
        let e = (20 * l) / 13;
        assert(c <= e);
        lemma_mn_pow2_mono(c, e);
        lemma_mn_pow_2_3_strict(l);
        lemma_mn_levels_pow3(n);
        lemma_mn_clog2_pow(n);
        assert(false);
    }
}

/// at least one Word of slack
pub proof fn lemma_mn_slack(n: int)
    requires n > 24,
    ensures 0 <= gneed(n), gneed(n) + 1 <= mformula(n),
{
    lemma_mn_gneed_hb2(n);
    if n > 192 { lemma_mn_levels_clog2_strict(n); }
}

/// nothing is needed up to THRESHOLD_SIMPLE
pub proof fn lemma_mn_gneed_small(n: int)
    requires n <= 24,
    ensures gneed(n) == 0,
{
    lemma_mn_formula_suffices(n);
}

/// gcd_ops.rs gcd_ext_large, post-processing: with `rem` Words left after the two operand clones, where rem covers both
/// gcd_mem (>= ext_need(l)) and post_mem (= l + r + mformula(r) or more), the residue buffer of R = max(r + bl + 1, l) Words fits,
/// and what is left behind it covers the product rhs * b (smaller factor min(r, bl)) and the division of R by l words
pub proof fn lemma_mn_ext_large_room(l: int, r: int, bl: int, rem: int, dn: int)
    requires 2 <= r <= l, 0 <= bl <= l,
        rem >= 2 * (l + 1) + gneed((l + 1) / 2), rem >= l + r + mformula(r),
        // dn = div_need(R, l): zero, or gneed of at most min(l / 2, R - l)
        dn == 0 || (exists|k: int| #[trigger] gneed(k) == dn && k <= l / 2),
    ensures imax(r + bl + 1, l) <= rem,
        0 <= gneed(imin(r, bl)) <= rem - imax(r + bl + 1, l),
        dn <= rem - imax(r + bl + 1, l),
{
    let h = (l + 1) / 2;
    let rr = imax(r + bl + 1, l);
    lemma_mn_gneed_mono(0, h);
    lemma_mn_gneed_mono(imin(r, bl), imin(r, bl));
    lemma_mn_gneed_mono(l / 2, h);
    if dn != 0 {
        let k = choose|k: int| #[trigger] gneed(k) == dn && k <= l / 2;
        lemma_mn_gneed_mono(k, l / 2);
    }
    if imin(r, bl) <= h {
        lemma_mn_gneed_mono(imin(r, bl), h);
    } else if r <= 24 {
        lemma_mn_gneed_small(imin(r, bl));
        lemma_mn_gneed_small(l / 2);
    } else {
        lemma_mn_slack(r);
        lemma_mn_gneed_mono(imin(r, bl), r);
        lemma_mn_gneed_mono(l / 2, r);
    }
}
