// ---- bit-vector facts for shifts (shift.rs, math::shr_word, bits.rs). Word = @W@, DoubleWord = @D@ --------
// Every `by (bit_vector)` fact is stated on machine words only; the link to mathematical integers
// (pow2) is made by the inductive lemmas below.

pub proof fn lemma_sh_pow2_pos(n: int)
    ensures pow2(n) >= 1,
    decreases n
{
    if n > 0 { lemma_sh_pow2_pos(n - 1); }
}

pub proof fn lemma_sh_pow2_add(a: int, b: int)
    requires a >= 0, b >= 0,
    ensures pow2(a + b) == pow2(a) * pow2(b),
    decreases a
{
    if a > 0 {
        lemma_sh_pow2_add(a - 1, b);
        assert(2 * (pow2(a - 1) * pow2(b)) == (2 * pow2(a - 1)) * pow2(b)) by (nonlinear_arith);
    }
}

pub proof fn lemma_sh_pow2_mono(a: int, b: int)
    requires 0 <= a <= b,
    ensures 1 <= pow2(a) <= pow2(b),
{
    lemma_sh_pow2_add(a, b - a);
    lemma_sh_pow2_pos(a);
    lemma_sh_pow2_pos(b - a);
    assert(pow2(a) * pow2(b - a) >= pow2(a)) by (nonlinear_arith) requires pow2(a) >= 1, pow2(b - a) >= 1;
}

/// (1 << s) == 2^s on double words
pub proof fn lemma_sh_one_shl_d(s: u32)
    requires s < 2 * @BITS@,
    ensures ((1 as @D@) << s) as int == pow2(s as int),
    decreases s
{
    if s == 0 {
        assert((1 as @D@) << 0u32 == (1 as @D@)) by (bit_vector);
    } else {
        let t = (s - 1) as u32;
        lemma_sh_one_shl_d(t);
        assert((1 as @D@) << s == (2 as @D@) * ((1 as @D@) << t) && ((1 as @D@) << t) <= (@D@::MAX >> 1u32)) by (bit_vector)
            requires 0 < s < 2 * @BITS@, t == s - 1;
    }
}

/// (1 << s) == 2^s on words
pub proof fn lemma_sh_one_shl_w(s: u32)
    requires s < @BITS@,
    ensures ((1 as @W@) << s) as int == pow2(s as int),
{
    lemma_sh_one_shl_d(s);
    assert((((1 as @W@) << s) as @D@) == ((1 as @D@) << s)) by (bit_vector) requires s < @BITS@;
}

pub proof fn lemma_sh_pow2_bits()
    ensures pow2(@BITS@) == B(),
{
    lemma_sh_one_shl_d(@BITS@u32);
    assert(((1 as @D@) << @BITS@u32) == @B@@D@) by (bit_vector);
}

/// x << s == x * 2^s when nothing is shifted out of the double word
pub proof fn lemma_sh_shl_mul_d(x: @D@, s: u32)
    requires s < 2 * @BITS@, (x as int) * pow2(s as int) < B() * B(),
    ensures (x << s) as int == (x as int) * pow2(s as int),
    decreases s
{
    if s == 0 {
        assert(x << 0u32 == x) by (bit_vector);
    } else {
        let t = (s - 1) as u32;
        lemma_sh_pow2_pos(t as int);
        assert((x as int) * pow2(s as int) == 2 * ((x as int) * pow2(t as int))) by (nonlinear_arith)
            requires pow2(s as int) == 2 * pow2(t as int);
        lemma_sh_shl_mul_d(x, t);
        let y = x << t;
        assert(x << s == (x << t) << 1u32) by (bit_vector) requires 0 < s < 2 * @BITS@, t == s - 1;
        assert(y <= (@D@::MAX >> 1u32) ==> (y << 1u32) == (2 as @D@) * y) by (bit_vector);
        assert((@D@::MAX >> 1u32) as int + 1 == B() * B() / 2) by (bit_vector);
    }
}

/// x >> s == floor(x / 2^s) on words
pub proof fn lemma_sh_shr_div_w(x: @W@, s: u32)
    requires s < @BITS@,
    ensures (x >> s) as int == (x as int) / pow2(s as int),
    decreases s
{
    if s == 0 {
        assert(x >> 0u32 == x) by (bit_vector);
    } else {
        let t = (s - 1) as u32;
        lemma_sh_shr_div_w(x, t);
        lemma_sh_pow2_pos(t as int);
        let y = x >> t;
        assert(x >> s == (x >> t) >> 1u32) by (bit_vector) requires 0 < s < @BITS@, t == s - 1;
        assert((y >> 1u32) == y / (2 as @W@)) by (bit_vector);
        let p = pow2(t as int);
        let xi = x as int;
        assert((xi / p) / 2 == xi / (p * 2)) by {
            vstd::arithmetic::div_mod::lemma_div_denominator(xi, p, 2);
        }
    }
}

/// the two halves of a double word are determined by its value
pub proof fn lemma_sh_split_unique(x: @D@, lo: @W@, hi: @W@)
    requires lo as int + (hi as int) * B() == x as int,
    ensures lo == x as @W@, hi == (x >> @BITS@u32) as @W@,
{
    assert((x as @W@) as @D@ + ((x >> @BITS@u32) as @W@) as @D@ * @B@@D@ == x) by (bit_vector);
}

/// (w : W) << BITS as a double word is w * B
pub proof fn lemma_sh_w_shl_bits(w: @W@)
    ensures ((w as @D@) << @BITS@u32) as int == (w as int) * B(),
{
    assert(((w as @D@) << @BITS@u32) == (w as @D@) * @B@@D@) by (bit_vector);
}

/// one step of a left shift: the low half of (w << s) has its low s bits clear, so OR-ing a carry
/// below 2^s is an addition; the high half is below 2^s.
pub proof fn lemma_sh_shl_step(w: @W@, s: u32, c: @W@, lo: @W@, hi: @W@)
    requires 0 < s < @BITS@, (c as int) < pow2(s as int),
        lo as int + (hi as int) * B() == ((w as @D@) << s) as int,
    ensures (lo | c) as int == lo as int + c as int,
        lo as int + (hi as int) * B() == (w as int) * pow2(s as int),
        (hi as int) < pow2(s as int),
{
    let x = (w as @D@) << s;
    lemma_sh_one_shl_w(s);
    lemma_sh_pow2_mono(s as int, @BITS@);
    lemma_sh_pow2_bits();
    let p = pow2(s as int);
    let wi = w as int;
    assert(wi * p < B() * B()) by (nonlinear_arith) requires 0 <= wi < B(), 1 <= p <= B();
    lemma_sh_shl_mul_d(w as @D@, s);
    lemma_sh_split_unique(x, lo, hi);
    let m = (1 as @W@) << s;
    assert((lo | c) == lo + c && hi < m) by (bit_vector)
        requires 0 < s < @BITS@, c < m, m == (1 as @W@) << s,
            lo == ((w as @D@) << s) as @W@, hi == (((w as @D@) << s) >> @BITS@u32) as @W@;
}

/// math::shr_word on the bit level: ((w·B) >> s) split into (c, r)
pub proof fn lemma_sh_shr_word(w: @W@, s: u32, x0: @D@, c: @W@, r: @W@)
    requires s <= @BITS@, x0 as int == (w as int) * B(),
        c as int + (r as int) * B() == (x0 >> s) as int,
    ensures (r as int) * B() + c as int == (w as int) * pow2(@BITS@ - s as int),
        (c as int) % pow2(@BITS@ - s as int) == 0,
        (r as int) < pow2(@BITS@ - s as int),
{
    lemma_sh_w_shl_bits(w);
    assert(x0 == (w as @D@) << @BITS@u32);
    lemma_sh_pow2_bits();
    if s == 0 {
        assert(x0 >> 0u32 == x0) by (bit_vector);
        assert(B() % B() == 0);
        assert(c == 0 && r == w) by {
            lemma_sh_split_unique(x0, c, r);
            lemma_sh_split_unique(x0, 0, w);
        }
        assert(0int % B() == 0);
    } else {
        let k = (@BITS@ - s) as u32;
        let x = (w as @D@) << k;
        assert(((w as @D@) << @BITS@u32) >> s == (w as @D@) << k) by (bit_vector)
            requires 0 < s <= @BITS@, k == @BITS@ - s;
        lemma_sh_pow2_mono(k as int, @BITS@);
        let p = pow2(k as int);
        let wi = w as int;
        assert(wi * p < B() * B()) by (nonlinear_arith) requires 0 <= wi < B(), 1 <= p <= B();
        lemma_sh_shl_mul_d(w as @D@, k);
        lemma_sh_split_unique(x, c, r);
        lemma_sh_one_shl_w(k);
        let m = (1 as @W@) << k;
        assert((c >> k) << k == c && r < m) by (bit_vector)
            requires k < @BITS@, m == (1 as @W@) << k,
                c == ((w as @D@) << k) as @W@, r == (((w as @D@) << k) >> @BITS@u32) as @W@;
        lemma_sh_low_clear(c, k);
    }
}

/// a word that survives `>> k << k` is a multiple of 2^k
pub proof fn lemma_sh_low_clear(c: @W@, k: u32)
    requires k < @BITS@, (c >> k) << k == c,
    ensures (c as int) % pow2(k as int) == 0,
{
    let h = c >> k;
    lemma_sh_pow2_mono(k as int, @BITS@);
    lemma_sh_pow2_bits();
    let p = pow2(k as int);
    let hi = h as int;
    assert(hi * p < B() * B()) by (nonlinear_arith) requires 0 <= hi < B(), 1 <= p <= B();
    lemma_sh_shl_mul_d(h as @D@, k);
    assert(((h as @D@) << k) == ((h << k) as @D@)) by (bit_vector) requires k < @BITS@, h == c >> k;
    assert(c as int == hi * p);
    vstd::arithmetic::div_mod::lemma_mod_multiples_basic(hi, p);
}

/// OR of a word below 2^k with a word whose low k bits are clear is their sum
pub proof fn lemma_sh_or_disjoint(a: @W@, c: @W@, k: u32)
    requires 0 < k < @BITS@, (a as int) < pow2(k as int), (c as int) % pow2(k as int) == 0,
    ensures (a | c) as int == a as int + c as int,
{
    lemma_sh_one_shl_w(k);
    lemma_sh_pow2_mono(k as int, @BITS@);
    lemma_sh_pow2_bits();
    let m = (1 as @W@) << k;
    let p = pow2(k as int);
    let ci = c as int;
    vstd::arithmetic::div_mod::lemma_fundamental_div_mod(ci, p);
    let hi = ci / p;
    assert(0 <= hi <= ci) by (nonlinear_arith) requires ci == p * hi + 0, p >= 1, ci >= 0;
    let h = hi as @W@;
    assert(hi * p < B() * B()) by (nonlinear_arith) requires 0 <= hi < B(), 1 <= p <= B();
    lemma_sh_shl_mul_d(h as @D@, k);
    assert(hi * p == p * hi) by (nonlinear_arith);
    assert(((h as @D@) << k) == c as @D@);
    assert((a | c) == a + c) by (bit_vector)
        requires 0 < k < @BITS@, m == (1 as @W@) << k, a < m, ((h as @D@) << k) == c as @D@;
}
