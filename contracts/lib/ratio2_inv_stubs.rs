// ---- ratio2_inv_stubs.rs: dashu_base::Inverse (trait mirrored) and `Inverse for Repr` / `Clone for Repr` as seen by the
// one-line forwardings `Inverse for RBig / &RBig / Relaxed / &Relaxed` of rational/src/div.rs.
// Include after lib/ratio_lemmas.rs, lib/bigstub.rs, lib/ratio_types.rs.
pub mod ratio2_inv_stubs {
use super::*;
pub trait Inverse {
    type Output;
    spec fn inv_req(self) -> bool;
    spec fn inv_post(self, r: Self::Output) -> bool;
    fn inv(self) -> (r: Self::Output) requires self.inv_req() ensures self.inv_post(r);
}
// the contract `impl Inverse for Repr :: inv` is PROVED against in unit ratio_inv (annot/rational/div/repr_inv.rs),
// repeated here for the callers (TRUSTED to be the same text)
pub open spec fn repr_inv_post(x: Repr, r: Repr) -> bool {
    r.denominator.v() >= 1
    && r.numerator.v() * x.numerator.v() == r.denominator.v() * x.denominator.v()
    && (x.denominator.v() >= 1 && wf_ratio(x.numerator.v(), x.denominator.v()) ==> wf_ratio(r.numerator.v(), r.denominator.v()))
}
impl Inverse for Repr {
    type Output = Repr;
    open spec fn inv_req(self) -> bool { self.numerator.v() != 0 }
    open spec fn inv_post(self, r: Repr) -> bool { repr_inv_post(self, r) }
    #[verifier::external_body]
    fn inv(self) -> (r: Repr) { unimplemented!() }
}
// TRUSTED (rational/src/repr.rs `Clone for Repr`, integer clones): a clone has the same parts
impl Clone for Repr {
    #[verifier::external_body]
    fn clone(&self) -> (r: Repr) ensures r.numerator.v() == self.numerator.v(), r.denominator.v() == self.denominator.v() { unimplemented!() }
}
} // mod ratio2_inv_stubs
pub use ratio2_inv_stubs::*;
