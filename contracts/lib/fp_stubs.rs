// ---- fp_stubs.rs: TRUSTED stubs of the units float_to_prim_* on top of round_int_stubs.rs / round_float_repr.rs /
// round_int_addsub_stubs.rs.  Every contract here is an ASSUMPTION (each read off the real function named at the stub).
// Needs fp_spec.rs, `use core::ops::{Mul, ShlAssign}`, `use vstd::std_specs::ops::*` (round_prelude.rs).

use core::ops::ShlAssign;

/// sign applied to a value (base/src/sign.rs, integer/src/sign.rs): Positive keeps, Negative negates
pub open spec fn fp_sgn_apply(s: Sign, v: int) -> int { match s { Sign::Positive => v, Sign::Negative => -v } }
// integer/src/sign.rs `impl Mul<IBig> for Sign`: the sign of the result is the product of the signs, the magnitude is kept
impl Mul<IBig> for Sign { type Output = IBig; #[verifier::external_body] fn mul(self, rhs: IBig) -> IBig { unimplemented!() } }
impl MulSpecImpl<IBig> for Sign {
    open spec fn obeys_mul_spec() -> bool { true }
    open spec fn mul_req(self, rhs: IBig) -> bool { true }
    open spec fn mul_spec(self, rhs: IBig) -> IBig { ibig_of(fp_sgn_apply(self, rhs.v())) }
}
// integer/src/shift_ops.rs `impl ShlAssign<usize> for IBig`: exact multiplication by 2^rhs (sign kept)
impl ShlAssign<usize> for IBig {
    #[verifier::external_body]
    fn shl_assign(&mut self, rhs: usize) { unimplemented!() }
}
impl ShlAssignSpecImpl<usize> for IBig {
    open spec fn obeys_shl_assign_spec() -> bool { true }
    open spec fn shl_assign_req(&self, rhs: usize) -> bool { true }
    open spec fn shl_assign_spec(&self, rhs: usize) -> &IBig { &ibig_of(self.v() * ipow(2, rhs as nat)) }
}

// float/src/convert.rs `Context::convert_base` with NewB == 2 (called by `convert_to_binary_once` as
// `Context::<Zero>::new(precision + 2).convert_base(repr)`).  ASSUMED: see fp_cb_pre / fp_cb_post / fp_cb_region in
// fp_spec.rs.  Status of the assumption: for B a power of two it is the contract PROVED in unit float_convert_base
// (exact re-basing, one repr_round, Exact results normalised; a Zero-mode repr_round truncates at the q-th digit);
// for |exponent| <= 38 it is the composition of the contracts of repr_round / repr_div (quotient of q or q + 1 digits,
// truncated at its own last digit) -- that composition itself is NOT verified (C08 lists this path as undecided);
// the ln / exp path beyond the threshold is excluded by the precondition (KNOWN FINDING, see fp_cb_region).
impl<R: Round> Context<R> {
    #[verifier::external_body]
    pub fn convert_base<const B: Word, const NewB: Word>(&self, repr: Repr<B>) -> (ret: Rounded<Repr<NewB>>)
        requires fp_cb_pre::<B, NewB>(self.precision, repr),
        ensures fp_cb_post::<B, NewB>(R::md(), self.precision, repr, ret),
    { unimplemented!() }
}
