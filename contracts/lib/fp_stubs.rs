// ---- fp_stubs.rs: TRUSTED stubs of the units float_to_prim_* on top of round_int_stubs.rs / round_float_repr.rs /
// round_int_addsub_stubs.rs.  Every contract here is an ASSUMPTION about the lower layer dashu-int / dashu-base (each read
// off the real function named at the stub; C01 / C02 / C09 units are where those are established).
// Needs fp_spec.rs, `use vstd::std_specs::ops::*` (round_prelude.rs).

use core::ops::ShlAssign;

/// sign applied to a value (base/src/sign.rs, integer/src/sign.rs): Positive keeps, Negative negates
pub open spec fn fp_sgn_apply(s: Sign, v: int) -> int { match s { Sign::Positive => v, Sign::Negative => -v } }
// integer/src/sign.rs `impl Mul<IBig> for Sign`: the sign of the result is the product of the signs, the magnitude is kept
impl Mul<IBig> for Sign { type Output = IBig; #[verifier::external_body] fn mul(self, rhs: IBig) -> IBig { unimplemented!() } }
impl MulSpecImpl<IBig> for Sign {
    open spec fn obeys_mul_spec() -> bool { true }
    open spec fn mul_req(self, rhs: IBig) -> bool { true }
    open spec fn mul_spec(self, rhs: IBig) -> IBig { ibig_of(fp_sgn_apply(self, rhs.v())) }
}
// integer/src/shift_ops.rs `impl ShlAssign<usize> for UBig`: exact multiplication by 2^rhs
impl ShlAssign<usize> for UBig {
    #[verifier::external_body]
    fn shl_assign(&mut self, rhs: usize) { unimplemented!() }
}
impl ShlAssignSpecImpl<usize> for UBig {
    open spec fn obeys_shl_assign_spec() -> bool { true }
    open spec fn shl_assign_req(&self, rhs: usize) -> bool { true }
    open spec fn shl_assign_spec(&self, rhs: usize) -> &UBig { &ubig_of(self.v() * ipow(2, rhs as nat)) }
}
// integer/src/mul_ops.rs `impl Mul<UBig> for UBig`, integer/src/add_ops.rs `impl Add<UBig> for UBig`: value-exact
impl Mul<UBig> for UBig { type Output = UBig; #[verifier::external_body] fn mul(self, rhs: UBig) -> UBig { unimplemented!() } }
impl MulSpecImpl<UBig> for UBig {
    open spec fn obeys_mul_spec() -> bool { true }
    open spec fn mul_req(self, rhs: UBig) -> bool { true }
    open spec fn mul_spec(self, rhs: UBig) -> UBig { ubig_of(self.v() * rhs.v()) }
}
impl Add<UBig> for UBig { type Output = UBig; #[verifier::external_body] fn add(self, rhs: UBig) -> UBig { unimplemented!() } }
impl AddSpecImpl<UBig> for UBig {
    open spec fn obeys_add_spec() -> bool { true }
    open spec fn add_req(self, rhs: UBig) -> bool { true }
    open spec fn add_spec(self, rhs: UBig) -> UBig { ubig_of(self.v() + rhs.v()) }
}
// integer/src/convert.rs `impl From<u8> for UBig`: the same number
impl From<u8> for UBig {
    #[verifier::external_body]
    fn from(x: u8) -> (r: UBig) ensures r.v() == x as int { unimplemented!() }
}
pub broadcast axiom fn fp_ubig_one() ensures #[trigger] UBig::ONE.v() == 1;
impl UBig {
    // integer/src/ubig.rs `UBig::ONE`
    #[verifier::external_body]
    pub const ONE: UBig = UBig { _p: 0 };
    /// integer/src/ubig.rs `UBig::is_zero`
    #[verifier::external_body]
    pub fn is_zero(&self) -> (r: bool) ensures r == (self.v() == 0) { unimplemented!() }
    /// integer/src/bits.rs `impl BitTest for UBig`: bit length (0 for zero, otherwise the k with 2^(k-1) <= v < 2^k)
    #[verifier::external_body]
    pub fn bit_len(&self) -> (r: usize) ensures r == blen(self.v()) { unimplemented!() }
}

// dashu_base::DivRem (trait mirrored).  integer/src/div_ops.rs `impl DivRem<&UBig> for UBig`: Euclidean division of
// naturals, `self == q * rhs + r`, `0 <= r < rhs`; division by zero panics (=> `requires` a non-zero divisor)
pub trait DivRem<Rhs = Self> {
    type OutputDiv;
    type OutputRem;
    spec fn div_rem_req(self, rhs: Rhs) -> bool;
    fn div_rem(self, rhs: Rhs) -> (Self::OutputDiv, Self::OutputRem)
        requires self.div_rem_req(rhs);
}
impl<'r> DivRem<&'r UBig> for UBig {
    type OutputDiv = UBig;
    type OutputRem = UBig;
    open spec fn div_rem_req(self, rhs: &'r UBig) -> bool { rhs.v() != 0 }
    #[verifier::external_body]
    fn div_rem(self, rhs: &'r UBig) -> (ret: (UBig, UBig))
        ensures self.v() == ret.0.v() * rhs.v() + ret.1.v(), 0 <= ret.1.v() < rhs.v(), ret.0.v() >= 0,
    { unimplemented!() }
}

// dashu_base::EstimatedLog2 (trait mirrored), float/src/log.rs `impl EstimatedLog2 for Repr<B>`: f32 bounds of
// log2 |significand * B^exponent| (directed rounding steps `next_up` / `next_down` around every float operation).
// ASSUMED enclosure (fp_est_lo / fp_est_hi, lib/fp_spec.rs); f32 arithmetic is not modelled.
pub trait EstimatedLog2 {
    spec fn lb_ok(&self, f: f32) -> bool;
    spec fn ub_ok(&self, f: f32) -> bool;
    fn log2_bounds(&self) -> (r: (f32, f32)) ensures self.lb_ok(r.0), self.ub_ok(r.1);
}
impl<const B: Word> EstimatedLog2 for Repr<B> {
    open spec fn lb_ok(&self, f: f32) -> bool {
        fp_est_lo(f, iabs(fx_num(B as int, self.significand.v(), self.exponent as int)), fx_den(B as int, self.exponent as int))
    }
    open spec fn ub_ok(&self, f: f32) -> bool {
        fp_est_hi(f, iabs(fx_num(B as int, self.significand.v(), self.exponent as int)), fx_den(B as int, self.exponent as int))
    }
    #[verifier::external_body]
    fn log2_bounds(&self) -> (r: (f32, f32)) { unimplemented!() }
}

// float/src/convert.rs `Context::convert_base` with NewB == 2: NOT called by the unchanged functions under contract
// (since the repair b344879 convert_to_binary_once divides the value out itself); present so that a changed to_f32 / to_f64
// that calls it again (the state before the repair eabe4cf) is judged by a contract instead of being rejected.  ASSUMED, and
// only what property C08 says of every base change: a finite result with at most `precision + 1` digits.
impl<R: Round> Context<R> {
    #[verifier::external_body]
    pub fn convert_base<const B: Word, const NewB: Word>(&self, repr: Repr<B>) -> (ret: Rounded<Repr<NewB>>)
        requires NewB == 2, fp_src_ok(repr), fp_finite(repr), self.precision > 0,
        ensures fp_finite(rd_val0(ret)), ndigits(2, rd_val0(ret).significand.v()) <= self.precision + 1,
    { unimplemented!() }
}
