// ---- arithmetic lemmas for integer/src/shift.rs ---------------------------------------------------------

/// left-shift accumulation: prefix value v1 (+ carry c at weight q) equals old prefix v0 times P;
/// the next word w is replaced by lo + c with new carry hi, where lo + hi·B == w·P.
pub proof fn lemma_sh_shl_acc(v1: int, v0: int, c: int, lo: int, hi: int, w: int, p: int, q: int)
    requires v1 + c * q == v0 * p, lo + hi * B() == w * p,
    ensures (v1 + (lo + c) * q) + hi * (B() * q) == (v0 + w * q) * p,
{
    assert((lo + c) * q == lo * q + c * q) by (nonlinear_arith);
    assert(hi * (B() * q) == (hi * B()) * q) by (nonlinear_arith);
    assert(lo * q + (hi * B()) * q == (lo + hi * B()) * q) by (nonlinear_arith);
    assert((w * p) * q == (w * q) * p) by (nonlinear_arith);
    assert((v0 + w * q) * p == v0 * p + (w * q) * p) by (nonlinear_arith);
}

/// right-shift accumulation (words are processed from the top): hn/ho are the values of the already
/// processed high parts (new/old), `carry` sits at weight B·q, k is the constant carry-in term.
pub proof fn lemma_sh_shr_acc(hn: int, ho: int, carry: int, nw: int, nc: int, w: int, p: int, q: int, k: int)
    requires hn * B() + carry * (B() * q) == ho * p + k, nw * B() + nc == w * p,
    ensures (hn + (nw + carry) * q) * B() + nc * q == (ho + w * q) * p + k,
{
    assert((hn + (nw + carry) * q) * B() == hn * B() + ((nw + carry) * q) * B()) by (nonlinear_arith);
    assert(((nw + carry) * q) * B() == (nw * B()) * q + carry * (B() * q)) by (nonlinear_arith);
    assert((nw * B()) * q + nc * q == (nw * B() + nc) * q) by (nonlinear_arith);
    assert((w * p) * q == (w * q) * p) by (nonlinear_arith);
    assert((ho + w * q) * p == ho * p + (w * q) * p) by (nonlinear_arith);
}

/// carry bound for the left shift: v1 + c·q == v0·P with v0 < q and v1 >= 0 gives c < P... (not needed
/// by the loop, which tracks the bound directly) — kept as the statement callers use.
pub proof fn lemma_sh_carry_bound(v1: int, v0: int, c: int, p: int, q: int)
    requires v1 + c * q == v0 * p, 0 <= v1, 0 <= v0 < q, p >= 1, c >= 0,
    ensures c < p,
{
    assert(v0 * p < q * p) by (nonlinear_arith) requires 0 <= v0 < q, p >= 1;
    assert(c < p) by (nonlinear_arith) requires c * q < q * p, q > 0, c >= 0, p >= 1;
}

/// the right-shift equation in the words of the property: floor division and the shifted-out bits.
///   vf·B + r == vo·2^(BITS-s), r a multiple of 2^(BITS-s), r < B
///   ==>  vf == vo div 2^s   and   r == (vo mod 2^s)·2^(BITS-s)
pub proof fn lemma_sh_floor(vf: int, r: int, vo: int, s: int)
    requires 0 <= s <= @BITS@, vf * B() + r == vo * pow2(@BITS@ - s), 0 <= r < B(),
        r % pow2(@BITS@ - s) == 0,
    ensures vf == vo / pow2(s), r == (vo % pow2(s)) * pow2(@BITS@ - s),
{
    let p = pow2(@BITS@ - s);
    let t = pow2(s);
    lemma_sh_pow2_pos(@BITS@ - s);
    lemma_sh_pow2_pos(s);
    lemma_sh_pow2_add(s, @BITS@ - s);
    lemma_sh_pow2_bits();
    assert(B() == t * p);
    vstd::arithmetic::div_mod::lemma_fundamental_div_mod(r, p);
    let h = r / p;
    assert(r == p * h);
    assert(0 <= h < t) by (nonlinear_arith) requires r == p * h, 0 <= r < t * p, p >= 1, t >= 1;
    // p·(vf·t + h) == p·vo
    assert(vf * (t * p) + p * h == p * (vf * t + h)) by (nonlinear_arith);
    assert(vo * p == p * vo) by (nonlinear_arith);
    assert(vf * t + h == vo) by (nonlinear_arith) requires p * (vf * t + h) == p * vo, p >= 1;
    vstd::arithmetic::div_mod::lemma_fundamental_div_mod_converse(vo, t, vf, h);
    assert(p * h == h * p) by (nonlinear_arith);
}
