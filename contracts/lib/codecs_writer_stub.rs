// ---- codecs_writer_stub.rs: integer/src/fmt/digit_writer.rs `DigitWriter` as seen by the prepared-number writers ----
// TRUSTED (digit_writer.rs:29-59): `write(buf)` accepts the raw digits of buf in order (buffering them and flushing
// their ASCII images to the underlying fmt::Write); the ghost view `dw@` is the sequence of raw digits accepted so far.
// On `Err` (the underlying writer failed) nothing is promised.  The raw-digit -> ASCII step itself
// (arch::digits::digit_chunk_raw_to_ascii) is the subject of the complete Kani proof
// int_radix::vk_int_radix_digit_chunk_raw_to_ascii.
pub mod fmt {
    use super::*;
    pub type Error = core::fmt::Error;
    pub type Result = core::result::Result<(), core::fmt::Error>;
}

pub mod digit_writer {
    use super::*;
    #[verifier::external_body]
    pub struct DigitWriter<'a> { _p: core::marker::PhantomData<&'a u8> }

    impl<'a> View for DigitWriter<'a> {
        type V = Seq<u8>;
        uninterp spec fn view(&self) -> Seq<u8>;
    }

    impl<'a> DigitWriter<'a> {
        // digit_writer.rs:29-43
        #[verifier::external_body]
        pub fn write(&mut self, buf: &[u8]) -> (r: fmt::Result)
            ensures r is Ok ==> final(self)@ == old(self)@ + buf@,
        { unimplemented!() }
    }
}
pub use digit_writer::DigitWriter;
