// ---- df_int_multiple.rs: what `UBig::is_multiple_of`, `IBig::is_multiple_of` and their `_const` twins
// (integer/src/div_ops.rs:670-733) see of the rest of dashu-int.  Needs lib/prelude.rs, lib/sign.rs, lib/repr_stubs.rs.
//
// `pub struct UBig(pub(crate) Repr)` / `pub struct IBig(pub(crate) Repr)` are mirrored (ubig.rs:70 / ibig.rs:67); the
// accessors UBig::{repr, is_zero}, IBig::{as_sign_repr, is_zero} are the REAL one-line functions (verified in the unit).
// TRUSTED (each states what the real operator does on the mathematical value):
//   `&UBig % &UBig`  (div_ops.rs:15  forward_ubig_binop_to_repr!(impl Rem, rem) -> `UBig(self.repr() % rhs.repr())`;
//                     the TypedReprRef % TypedReprRef dispatch it forwards to is proved in unit int_div_ops):
//                     floor remainder a mod b of the magnitudes; a zero divisor panics (rem_req)
//   `&IBig % &IBig`  (div_ops.rs:60  forward_ibig_binop_to_repr!(.. impl_ibig_rem): the arm is proved in unit
//                     int_div_sign): `IBig((mag0 % mag1).with_sign(sign0))`, i.e. sign(a) * (|a| mod |b|); zero divisor panics
// Present only so that a CHANGED is_multiple_of that calls them still type-checks and is judged by its contract:
//   UBig/IBig::trailing_zeros (bits.rs:68 / 361: None for zero, otherwise the multiplicity of 2),
//   TypedReprRef::is_power_of_two (bits.rs), Repr-level helpers come from lib/repr_stubs.rs.
pub struct UBig(pub Repr);
pub struct IBig(pub Repr);

/// the property's own sentence: a is a multiple of b
pub open spec fn is_mult(a: int, b: int) -> bool { exists|k: int| a == #[trigger] (k * b) }

/// signed value of a sign-magnitude pair
pub open spec fn sv(s: Sign, m: int) -> int { match s { Sign::Positive => m, Sign::Negative => -m } }

/// for a non-zero b: a is a multiple of b  <=>  the (floor) remainder a mod b is zero
pub proof fn lemma_is_mult_mod(a: int, b: int)
    requires b != 0
    ensures is_mult(a, b) == (a % b == 0)
{
    if a % b == 0 {
        vstd::arithmetic::div_mod::lemma_fundamental_div_mod(a, b);
        let k = a / b;
        assert(b * k == k * b) by (nonlinear_arith);
        assert(a == k * b);
    }
    if is_mult(a, b) {
        let k = choose|k: int| a == #[trigger] (k * b);
        lemma_mult_mod0(k, b);
    }
}

/// (k * b) mod b == 0 for every non-zero b (negative b included)
pub proof fn lemma_mult_mod0(k: int, b: int)
    requires b != 0
    ensures (k * b) % b == 0
{
    if b > 0 {
        vstd::arithmetic::div_mod::lemma_mod_multiples_basic(k, b);
    } else {
        let c = -b;
        let a = k * b;
        assert(a == (-k) * c) by (nonlinear_arith) requires a == k * b, c == -b;
        vstd::arithmetic::div_mod::lemma_mod_multiples_basic(-k, c);
        assert(a % c == 0);
        // a == q*c  ==>  a == (-q)*b, and the remainder of a by b is unique
        vstd::arithmetic::div_mod::lemma_fundamental_div_mod(a, c);
        let q = a / c;
        assert(a == (-q) * b + 0) by (nonlinear_arith) requires a == c * q + 0, c == -b;
        vstd::arithmetic::div_mod::lemma_fundamental_div_mod(a, b);
        let r = a % b;
        let q2 = a / b;
        // 0 <= r < |b| and b | (a - r) and b | a  ==>  b | r  ==>  r == 0
        assert(0 <= r < c) by {
            lemma_neg_mod_bound(a, b);
        }
        assert(r == ((-q) - q2) * b) by (nonlinear_arith) requires a == (-q) * b + 0, a == b * q2 + r;
        let d = (-q) - q2;
        assert(r == 0) by (nonlinear_arith) requires r == d * b, 0 <= r, r < -b, b < 0;
    }
}

/// range of Verus' `%` for a negative divisor: 0 <= a % b < |b|
pub proof fn lemma_neg_mod_bound(a: int, b: int)
    requires b < 0
    ensures 0 <= a % b < -b
{
    // SMT-LIB integer mod: the remainder is always in [0, |b|)
    assert(0 <= a % b < -b) by (nonlinear_arith) requires b < 0;
}

/// divisibility does not look at signs
pub proof fn lemma_is_mult_signs(s0: Sign, s1: Sign, a: int, b: int)
    ensures is_mult(sv(s0, a), sv(s1, b)) == is_mult(a, b)
{
    if is_mult(a, b) {
        let k = choose|k: int| a == #[trigger] (k * b);
        let k2 = if s0 == s1 { k } else { -k };
        let (x, y) = (sv(s0, a), sv(s1, b));
        assert(x == k2 * y) by (nonlinear_arith)
            requires a == k * b, (x == a && y == b && k2 == k) || (x == -a && y == -b && k2 == k)
                || (x == a && y == -b && k2 == -k) || (x == -a && y == b && k2 == -k);
    }
    if is_mult(sv(s0, a), sv(s1, b)) {
        let (x, y) = (sv(s0, a), sv(s1, b));
        let k = choose|k: int| x == #[trigger] (k * y);
        let k2 = if s0 == s1 { k } else { -k };
        assert(a == k2 * b) by (nonlinear_arith)
            requires x == k * y, (x == a && y == b && k2 == k) || (x == -a && y == -b && k2 == k)
                || (x == a && y == -b && k2 == -k) || (x == -a && y == b && k2 == -k);
    }
}

// ---- `&UBig % &UBig` (TRUSTED, see the head of this file)
impl<'l, 'r> vstd::std_specs::ops::RemSpecImpl<&'r UBig> for &'l UBig {
    open spec fn obeys_rem_spec() -> bool { true }
    open spec fn rem_req(self, rhs: &'r UBig) -> bool { rhs.0.v() != 0 }
    open spec fn rem_spec(self, rhs: &'r UBig) -> UBig { UBig(repr_of(self.0.v() % rhs.0.v())) }
}
impl<'l, 'r> core::ops::Rem<&'r UBig> for &'l UBig { type Output = UBig;
    #[verifier::external_body]
    fn rem(self, rhs: &'r UBig) -> UBig { unimplemented!() }
}
// ---- `&IBig % &IBig` (TRUSTED): remainder of the truncating division, sign(a) * (|a| mod |b|)
pub open spec fn trunc_rem(a: int, b: int) -> int {
    if a >= 0 { a % iabs(b) } else { -((-a) % iabs(b)) }
}
impl<'l, 'r> vstd::std_specs::ops::RemSpecImpl<&'r IBig> for &'l IBig {
    open spec fn obeys_rem_spec() -> bool { true }
    open spec fn rem_req(self, rhs: &'r IBig) -> bool { rhs.0.v() != 0 }
    open spec fn rem_spec(self, rhs: &'r IBig) -> IBig { IBig(repr_of(trunc_rem(self.0.v(), rhs.0.v()))) }
}
impl<'l, 'r> core::ops::Rem<&'r IBig> for &'l IBig { type Output = IBig;
    #[verifier::external_body]
    fn rem(self, rhs: &'r IBig) -> IBig { unimplemented!() }
}
/// trunc_rem(a, b) == 0  <=>  a is a multiple of b
pub proof fn lemma_trunc_rem_mult(a: int, b: int)
    requires b != 0
    ensures (trunc_rem(a, b) == 0) == is_mult(a, b)
{
    let (s0, s1) = (if a < 0 { Sign::Negative } else { Sign::Positive }, if b < 0 { Sign::Negative } else { Sign::Positive });
    lemma_is_mult_signs(s0, s1, iabs(a), iabs(b));
    assert(sv(s0, iabs(a)) == a && sv(s1, iabs(b)) == b);
    lemma_is_mult_mod(iabs(a), iabs(b));
}

// ---- not used by the unchanged code (see the head of this file)
pub open spec fn tz_post(v: int, r: Option<usize>) -> bool {
    (v == 0 ==> r is None) && (v != 0 ==> r is Some && v % pow2(r.unwrap() as int) == 0
        && v % pow2(r.unwrap() as int + 1) != 0)
}
impl UBig {
    #[verifier::external_body]
    pub fn trailing_zeros(&self) -> (r: Option<usize>) ensures tz_post(self.0.v(), r) { unimplemented!() }
}
impl IBig {
    #[verifier::external_body]
    pub fn trailing_zeros(&self) -> (r: Option<usize>) ensures tz_post(self.0.v(), r) { unimplemented!() }
}
impl<'a> TypedReprRef<'a> {
    #[verifier::external_body]
    pub fn is_power_of_two(self) -> (r: bool) ensures r == (exists|k: int| k >= 0 && self.v() == #[trigger] pow2(k)) { unimplemented!() }
}
