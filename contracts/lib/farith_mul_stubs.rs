// ---- farith_mul_stubs.rs: dashu_int multiplication as seen from float/src/mul.rs.  TRUSTED (C01 lower layer:
// integer/src/mul_ops.rs `impl Mul` forms forward to `repr::mul_*`, value-exact; `IBig::sqr` = square of the magnitude
// as UBig; `IBig::cubic` = self * self.sqr()).  Needs round_prelude.rs, round_int_stubs.rs.
impl Mul<IBig> for IBig { type Output = IBig; #[verifier::external_body] fn mul(self, rhs: IBig) -> IBig { unimplemented!() } }
impl MulSpecImpl<IBig> for IBig {
    open spec fn obeys_mul_spec() -> bool { true }
    open spec fn mul_req(self, rhs: IBig) -> bool { true }
    open spec fn mul_spec(self, rhs: IBig) -> IBig { ibig_of(self.v() * rhs.v()) }
}
impl<'a> Mul<&'a IBig> for IBig { type Output = IBig; #[verifier::external_body] fn mul(self, rhs: &'a IBig) -> IBig { unimplemented!() } }
impl<'a> MulSpecImpl<&'a IBig> for IBig {
    open spec fn obeys_mul_spec() -> bool { true }
    open spec fn mul_req(self, rhs: &'a IBig) -> bool { true }
    open spec fn mul_spec(self, rhs: &'a IBig) -> IBig { ibig_of(self.v() * rhs.v()) }
}
impl<'a> Mul<IBig> for &'a IBig { type Output = IBig; #[verifier::external_body] fn mul(self, rhs: IBig) -> IBig { unimplemented!() } }
impl<'a> MulSpecImpl<IBig> for &'a IBig {
    open spec fn obeys_mul_spec() -> bool { true }
    open spec fn mul_req(self, rhs: IBig) -> bool { true }
    open spec fn mul_spec(self, rhs: IBig) -> IBig { ibig_of(self.v() * rhs.v()) }
}
impl<'a, 'b> Mul<&'b IBig> for &'a IBig { type Output = IBig; #[verifier::external_body] fn mul(self, rhs: &'b IBig) -> IBig { unimplemented!() } }
impl<'a, 'b> MulSpecImpl<&'b IBig> for &'a IBig {
    open spec fn obeys_mul_spec() -> bool { true }
    open spec fn mul_req(self, rhs: &'b IBig) -> bool { true }
    open spec fn mul_spec(self, rhs: &'b IBig) -> IBig { ibig_of(self.v() * rhs.v()) }
}
impl IBig {
    /// integer/src/mul_ops.rs `IBig::sqr(&self) -> UBig`: "Compute the square of the number (self * self)"
    #[verifier::external_body]
    pub fn sqr(&self) -> (r: UBig) ensures r.v() == self.v() * self.v() { unimplemented!() }
    /// integer/src/mul_ops.rs `IBig::cubic(&self) -> IBig`: "Compute the cubic of the number (self * self * self)"
    #[verifier::external_body]
    pub fn cubic(&self) -> (r: IBig) ensures r.v() == self.v() * self.v() * self.v() { unimplemented!() }
}
