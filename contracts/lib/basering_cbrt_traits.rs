// ---- basering_cbrt_traits.rs: the traits of dashu-base the cube-root routines call through, mirrored so that the method calls of
// the real code resolve (`a.normalized_cbrt_rem()`, `r0.div_rem(d)`).  NOT trusted: the impls in the unit forward to the hoisted
// (rule D2) VERIFIED functions and Verus checks each forwarding body against the trait contract.
pub trait NormalizedRootRem: Sized {
    type OutputRoot;
    spec fn ncbrt_req(self) -> bool;
    spec fn ncbrt_post(self, r: (Self::OutputRoot, Self)) -> bool;
    fn normalized_cbrt_rem(self) -> (r: (Self::OutputRoot, Self))
        requires self.ncbrt_req(),
        ensures self.ncbrt_post(r);
}
pub trait DivRem<Rhs = Self>: Sized {
    type OutputDiv;
    type OutputRem;
    spec fn div_rem_req(self, rhs: Rhs) -> bool;
    spec fn div_rem_post(self, rhs: Rhs, r: (Self::OutputDiv, Self::OutputRem)) -> bool;
    fn div_rem(self, rhs: Rhs) -> (r: (Self::OutputDiv, Self::OutputRem))
        requires self.div_rem_req(rhs),
        ensures self.div_rem_post(rhs, r);
}
