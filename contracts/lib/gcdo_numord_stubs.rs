// ---- gcdo_numord_stubs.rs: what integer/src/third_party/num_order.rs `impl_num_ord_ubig_with_float` calls, over the UBig stub
// of lib/bigstub.rs + lib/ratio2_cmp_stubs.rs (bit_len / blen, cmp).  Include after them.  Every external_body /
// assume_specification / external_body axiom is TRUSTED.
pub mod gcdo_numord_stubs {
use super::*;
use vstd::std_specs::ops::*;
use vstd::std_specs::cmp::eq_ensures;
use vstd::std_specs::convert::*;
use vstd::arithmetic::power2::*;
use core::ops::Shl;
use core::cmp::Ordering;

// ---- abstract model of a primitive float: NaN / infinite flags, sign bit, and for finite values the pair (man, exp) that
// dashu_base::FloatEncoding::decode returns: value == man * 2^exp (PROVED for every bit pattern of f32 / f64 by the complete
// Kani harnesses vk_base_bit_decode_f32 / _f64, group base_bit), |man| < 2^MANTISSA_DIGITS and
// exp <= MAX_EXP - MANTISSA_DIGITS (IEEE: a finite value is below 2^MAX_EXP).
pub uninterp spec fn f32_nan(f: f32) -> bool;
pub uninterp spec fn f32_inf(f: f32) -> bool;
pub uninterp spec fn f32_neg(f: f32) -> bool;
pub uninterp spec fn f32_man(f: f32) -> int;
pub uninterp spec fn f32_exp(f: f32) -> int;
pub uninterp spec fn f64_nan(f: f64) -> bool;
pub uninterp spec fn f64_inf(f: f64) -> bool;
pub uninterp spec fn f64_neg(f: f64) -> bool;
pub uninterp spec fn f64_man(f: f64) -> int;
pub uninterp spec fn f64_exp(f: f64) -> int;

/// decode's result in the model (digits = MANTISSA_DIGITS, maxe = MAX_EXP, mine = lowest quantum exponent)
pub open spec fn dec_model(nan: bool, inf: bool, neg: bool, man: int, ex: int, digits: nat, maxe: int, mine: int) -> bool {
    &&& !(nan && inf)
    &&& (!nan && !inf ==> -(pow2(digits) as int) < man < pow2(digits) as int && mine <= ex <= maxe - digits
            && (neg ==> man <= 0) && (!neg ==> man >= 0))
}
#[verifier::external_body]
pub broadcast proof fn ax_f32_model(f: f32)
    ensures #![trigger f32_man(f)] #![trigger f32_nan(f)] #![trigger f32_inf(f)]
        dec_model(f32_nan(f), f32_inf(f), f32_neg(f), f32_man(f), f32_exp(f), 24, 128, -149),
{}
#[verifier::external_body]
pub broadcast proof fn ax_f64_model(f: f64)
    ensures #![trigger f64_man(f)] #![trigger f64_nan(f)] #![trigger f64_inf(f)]
        dec_model(f64_nan(f), f64_inf(f), f64_neg(f), f64_man(f), f64_exp(f), 53, 1024, -1074),
{}

// core: f32 / f64 inherent methods and constants (TRUSTED: their documented meaning in the model)
pub assume_specification [f32::is_nan] (f: f32) -> (r: bool) ensures r == f32_nan(f);
pub assume_specification [f32::is_infinite] (f: f32) -> (r: bool) ensures r == f32_inf(f);
pub assume_specification [f32::MANTISSA_DIGITS] -> (r: u32) ensures r == 24;
pub assume_specification [f32::MAX_EXP] -> (r: i32) ensures r == 128;
pub assume_specification [f64::is_nan] (f: f64) -> (r: bool) ensures r == f64_nan(f);
pub assume_specification [f64::is_infinite] (f: f64) -> (r: bool) ensures r == f64_inf(f);
pub assume_specification [f64::MANTISSA_DIGITS] -> (r: u32) ensures r == 53;
pub assume_specification [f64::MAX_EXP] -> (r: i32) ensures r == 1024;
/// IEEE `x == 0.0`: true exactly for the two zeros (finite, mantissa 0); NaN compares unequal
#[verifier::external_body]
pub proof fn ax_f32_eq_zero(x: f32, r: bool)
    requires eq_ensures::<f32>(x, 0.0f32, r),
    ensures r == (!f32_nan(x) && !f32_inf(x) && f32_man(x) == 0),
{}
#[verifier::external_body]
pub proof fn ax_f64_eq_zero(x: f64, r: bool)
    requires eq_ensures::<f64>(x, 0.0f64, r),
    ensures r == (!f64_nan(x) && !f64_inf(x) && f64_man(x) == 0),
{}

// core::num::FpCategory -- transcription of the enum
#[derive(Clone, Copy, PartialEq, Eq, Debug)]
pub enum FpCategory { Nan, Infinite, Zero, Subnormal, Normal }

// dashu_base::FloatEncoding (base/src/bit.rs) -- only `decode`: Err for NaN / infinities, Ok((man, exp)) otherwise
pub trait FloatEncoding: Sized {
    type Mantissa;
    type Exponent;
    spec fn dec_post(self, r: Result<(Self::Mantissa, Self::Exponent), FpCategory>) -> bool;
    fn decode(self) -> (r: Result<(Self::Mantissa, Self::Exponent), FpCategory>)
        ensures self.dec_post(r);
}
impl FloatEncoding for f32 {
    type Mantissa = i32;
    type Exponent = i16;
    open spec fn dec_post(self, r: Result<(i32, i16), FpCategory>) -> bool {
        match r {
            Ok((m, e)) => !f32_nan(self) && !f32_inf(self) && m as int == f32_man(self) && e as int == f32_exp(self),
            Err(c) => f32_nan(self) || f32_inf(self),
        }
    }
    #[verifier::external_body]
    fn decode(self) -> (r: Result<(i32, i16), FpCategory>) { unimplemented!() }
}
impl FloatEncoding for f64 {
    type Mantissa = i64;
    type Exponent = i16;
    open spec fn dec_post(self, r: Result<(i64, i16), FpCategory>) -> bool {
        match r {
            Ok((m, e)) => !f64_nan(self) && !f64_inf(self) && m as int == f64_man(self) && e as int == f64_exp(self),
            Err(c) => f64_nan(self) || f64_inf(self),
        }
    }
    #[verifier::external_body]
    fn decode(self) -> (r: Result<(i64, i16), FpCategory>) { unimplemented!() }
}
// dashu_base::Signed for f32 / f64 (base/src/sign.rs `impl_signed_for_float`): panics on NaN, both zeros are Positive,
// otherwise the sign bit
pub trait Signed {
    spec fn sign_req(&self) -> bool;
    spec fn sign_spec(&self) -> Sign;
    fn sign(&self) -> (r: Sign) requires self.sign_req() ensures r == self.sign_spec();
}
pub open spec fn fsign_model(inf: bool, neg: bool, man: int) -> Sign {
    if inf { if neg { Sign::Negative } else { Sign::Positive } } else if man < 0 { Sign::Negative } else { Sign::Positive }
}
impl Signed for f32 {
    open spec fn sign_req(&self) -> bool { !f32_nan(*self) }
    open spec fn sign_spec(&self) -> Sign { fsign_model(f32_inf(*self), f32_neg(*self), f32_man(*self)) }
    #[verifier::external_body]
    fn sign(&self) -> (r: Sign) { unimplemented!() }
}
impl Signed for f64 {
    open spec fn sign_req(&self) -> bool { !f64_nan(*self) }
    open spec fn sign_spec(&self) -> Sign { fsign_model(f64_inf(*self), f64_neg(*self), f64_man(*self)) }
    #[verifier::external_body]
    fn sign(&self) -> (r: Sign) { unimplemented!() }
}
// core: i32::unsigned_abs / i64::unsigned_abs (no vstd spec in this build)
pub assume_specification [i32::unsigned_abs] (x: i32) -> (r: u32) ensures r as int == rabs(x as int);
pub assume_specification [i64::unsigned_abs] (x: i64) -> (r: u64) ensures r as int == rabs(x as int);
// dashu_base::BitTest for i32 / i64 (base/src/bit.rs `impl_bit_ops_for_int`): bit length of the magnitude
pub trait BitTest {
    spec fn bit_len_spec(&self) -> int;
    fn bit_len(&self) -> (r: usize) ensures r as int == self.bit_len_spec();
}
impl BitTest for i32 {
    open spec fn bit_len_spec(&self) -> int { blen(rabs(*self as int)) }
    #[verifier::external_body]
    fn bit_len(&self) -> (r: usize) { unimplemented!() }
}
impl BitTest for i64 {
    open spec fn bit_len_spec(&self) -> int { blen(rabs(*self as int)) }
    #[verifier::external_body]
    fn bit_len(&self) -> (r: usize) { unimplemented!() }
}
// integer/src/convert.rs `impl From<u32> for UBig`, `impl From<u64> for UBig`: value-exact
impl From<u32> for UBig {
    #[verifier::external_body]
    fn from(x: u32) -> UBig { unimplemented!() }
}
impl FromSpecImpl<u32> for UBig {
    open spec fn obeys_from_spec() -> bool { true }
    open spec fn from_spec(x: u32) -> UBig { ubig_of(x as int) }
}
impl From<u64> for UBig {
    #[verifier::external_body]
    fn from(x: u64) -> UBig { unimplemented!() }
}
impl FromSpecImpl<u64> for UBig {
    open spec fn obeys_from_spec() -> bool { true }
    open spec fn from_spec(x: u64) -> UBig { ubig_of(x as int) }
}
// integer/src/shift_ops.rs: `UBig << usize`, `&UBig << usize`: exact multiplication by 2^n (C09)
impl ShlSpecImpl<usize> for UBig {
    open spec fn obeys_shl_spec() -> bool { true }
    open spec fn shl_req(self, rhs: usize) -> bool { true }
    open spec fn shl_spec(self, rhs: usize) -> UBig { ubig_of(self.v() * pow2(rhs as nat)) }
}
impl Shl<usize> for UBig { type Output = UBig;
    #[verifier::external_body]
    fn shl(self, rhs: usize) -> UBig { unimplemented!() }
}
impl<'a> ShlSpecImpl<usize> for &'a UBig {
    open spec fn obeys_shl_spec() -> bool { true }
    open spec fn shl_req(self, rhs: usize) -> bool { true }
    open spec fn shl_spec(self, rhs: usize) -> UBig { ubig_of(self.v() * pow2(rhs as nat)) }
}
impl<'a> Shl<usize> for &'a UBig { type Output = UBig;
    #[verifier::external_body]
    fn shl(self, rhs: usize) -> UBig { unimplemented!() }
}

// ---- the property's sentence (C14): ordering of the exact real values of a non-negative integer x and a float; NaN is
// incomparable.  Finite value man * 2^ex, compared after clearing the power of two
pub open spec fn cmp_int_float(x: int, nan: bool, inf: bool, neg: bool, man: int, ex: int) -> Option<Ordering> {
    if nan { None }
    else if inf { if neg { Some(Ordering::Greater) } else { Some(Ordering::Less) } }
    else if ex >= 0 { Some(cmp_int(x, man * pow2(ex as nat))) }
    else { Some(cmp_int(x * pow2((-ex) as nat), man)) }
}

// ---- lemmas ---------------------------------------------------------------------------------------------------------
pub proof fn lemma_p2_mono(a: nat, b: nat)
    requires a <= b,
    ensures pow2(a) <= pow2(b),
{
    if a < b { lemma_pow2_strictly_increases(a, b); }
}
pub proof fn lemma_p2_add(a: nat, b: nat)
    ensures pow2(a + b) == pow2(a) * pow2(b), pow2(a) >= 1, pow2(b) >= 1,
{
    lemma_pow2_adds(a, b);
    lemma_pow2_pos(a);
    lemma_pow2_pos(b);
}

/// a magnitude below 2^d has at most d bits
pub proof fn lemma_blen_le(y: int, d: nat)
    requires 0 <= y < pow2(d),
    ensures 0 <= blen(y) <= d,
{
    ax_blen(y);
    let k = blen(y);
    if y != 0 && k > d {
        lemma_p2_mono(d, (k - 1) as nat);
    }
}

/// a negative (or zero) float against a non-negative integer
pub proof fn lemma_no_neg(x: int, man: int, p: nat)
    requires x >= 0, man <= 0,
    ensures x >= man * pow2(p), x * pow2(p) >= man, man < 0 ==> x > man * pow2(p) && x * pow2(p) > man,
        x > 0 ==> x * pow2(p) > 0, x == 0 ==> x * pow2(p) == 0,
{
    lemma_pow2_pos(p);
    let q = pow2(p) as int;
    assert(man * q <= 0) by (nonlinear_arith) requires man <= 0, q >= 1;
    assert(x * q >= 0) by (nonlinear_arith) requires x >= 0, q >= 1;
    if man < 0 { assert(man * q < 0) by (nonlinear_arith) requires man < 0, q >= 1; }
    if x > 0 { assert(x * q > 0) by (nonlinear_arith) requires x > 0, q >= 1; }
}

/// x has more bits than the float can reach:  x >= 2^(kx-1), 0 < man < 2^km, km + ex <= kx - 1  ==>  x > man * 2^ex
pub proof fn lemma_no_bigger(x: int, kx: int, man: int, km: int, ex: int)
    requires kx >= 1, x >= pow2((kx - 1) as nat), 0 <= man < pow2(km as nat), km >= 0, km + ex <= kx - 1,
    ensures ex >= 0 ==> x > man * pow2(ex as nat),
        ex < 0 ==> x * pow2((-ex) as nat) > man,
{
    if ex >= 0 {
        lemma_p2_add(km as nat, ex as nat);
        lemma_p2_mono((km + ex) as nat, (kx - 1) as nat);
        let q = pow2(ex as nat) as int;
        assert(man * q < pow2(km as nat) * q) by (nonlinear_arith) requires man < pow2(km as nat), q >= 1;
    } else {
        let q = pow2((-ex) as nat) as int;
        lemma_pow2_pos((-ex) as nat);
        if km <= kx - 1 - ex {
            // x * 2^-ex >= 2^(kx-1-ex) >= 2^km > man
        }
        lemma_p2_add((kx - 1) as nat, (-ex) as nat);
        lemma_p2_mono(km as nat, (kx - 1 - ex) as nat);
        assert(x * q >= pow2((kx - 1) as nat) * q) by (nonlinear_arith) requires x >= pow2((kx - 1) as nat), q >= 1;
    }
}

/// x has fewer bits:  0 <= x < 2^kx, man >= 2^(km-1), km >= 1, kx <= km + ex - 1  ==>  x < man * 2^ex
pub proof fn lemma_no_smaller(x: int, kx: int, man: int, km: int, ex: int)
    requires kx >= 0, 0 <= x < pow2(kx as nat), km >= 1, man >= pow2((km - 1) as nat), kx <= km + ex - 1,
    ensures ex >= 0 ==> x < man * pow2(ex as nat),
        ex < 0 ==> x * pow2((-ex) as nat) < man,
{
    if ex >= 0 {
        lemma_p2_add((km - 1) as nat, ex as nat);
        lemma_p2_mono(kx as nat, (km - 1 + ex) as nat);
        let q = pow2(ex as nat) as int;
        assert(man * q >= pow2((km - 1) as nat) * q) by (nonlinear_arith) requires man >= pow2((km - 1) as nat), q >= 1;
    } else {
        let q = pow2((-ex) as nat) as int;
        lemma_pow2_pos((-ex) as nat);
        lemma_p2_add(kx as nat, (-ex) as nat);
        lemma_p2_mono((kx - ex) as nat, (km - 1) as nat);
        assert(x * q < pow2(kx as nat) * q) by (nonlinear_arith) requires x < pow2(kx as nat), q >= 1;
    }
}
} // mod gcdo_numord_stubs
pub use gcdo_numord_stubs::*;
