// ---- im_gcd_stubs.rs: vocabulary for unit int_im_gcd_ops (integer/src/gcd_ops.rs: every owned / borrowed form of Gcd and
// ExtendedGcd on TypedRepr / TypedReprRef, and the UBig / IBig level macro arms).  Word = @W@
// Needs lib/prelude.rs, lib/sign.rs, lib/gcdo_stubs.rs, lib/repr_stubs.rs, lib/gcdo_ops_stubs.rs.
// TRUSTED: only the mirrored tuple structs (ubig.rs `pub struct UBig(pub(crate) Repr)`, ibig.rs `pub struct IBig(pub(crate) Repr)`);
// everything else here is a lemma or a verified forwarding impl (rule D2 link).
pub struct UBig(pub Repr);
pub struct IBig(pub Repr);

/// signed value of a sign-magnitude pair
pub open spec fn sv(s: Sign, m: int) -> int { match s { Sign::Positive => m, Sign::Negative => -m } }
pub open spec fn sign_mul(a: Sign, b: Sign) -> Sign { if a == b { Sign::Positive } else { Sign::Negative } }

/// resource bound of gcd_ext for two operands of n0 / n1 words (lib/gcdo_ops_stubs.rs gcd_ext_large_pre)
pub open spec fn im_gcd_ext_res(n0: int, n1: int) -> bool { n0 + 1 < max_capacity() && n1 + 1 < max_capacity() }

pub proof fn lemma_im_neg_mod(x: int, d: int)
    requires d >= 1,
    ensures (x % d == 0) == ((-x) % d == 0),
{
    if x % d == 0 {
        let q = x / d;
        vstd::arithmetic::div_mod::lemma_fundamental_div_mod(x, d);
        assert(-x == d * (-q)) by (nonlinear_arith) requires x == d * q;
        vstd::arithmetic::div_mod::lemma_mod_multiples_basic(-q, d);
        assert((-q) * d == d * (-q)) by (nonlinear_arith);
    }
    if (-x) % d == 0 {
        let q = (-x) / d;
        vstd::arithmetic::div_mod::lemma_fundamental_div_mod(-x, d);
        assert(x == d * (-q)) by (nonlinear_arith) requires -x == d * q;
        vstd::arithmetic::div_mod::lemma_mod_multiples_basic(-q, d);
        assert((-q) * d == d * (-q)) by (nonlinear_arith);
    }
}
pub proof fn lemma_im_sv_mod(s: Sign, m: int, d: int)
    requires d >= 1,
    ensures (sv(s, m) % d == 0) == (m % d == 0),
{
    lemma_im_neg_mod(m, d);
}
/// the gcd of the magnitudes is the gcd of the signed numbers -- whatever the signs (gcd ignores them: the macro arm discards its
/// sign arguments, so the statement must not depend on WHICH signs the forwarding macro hands over)
pub proof fn lemma_im_gcd_signs(s0: Sign, m0: int, s1: Sign, m1: int)
    ensures forall|g: int| #[trigger] gcdo_is_gcd(g, m0, m1) ==> gcdo_is_gcd(g, -m0, m1),
        forall|g: int| #[trigger] gcdo_is_gcd(g, m0, m1) ==> gcdo_is_gcd(g, m0, -m1),
        forall|g: int| #[trigger] gcdo_is_gcd(g, m0, m1) ==> gcdo_is_gcd(g, -m0, -m1),
{
    assert forall|g: int| #[trigger] gcdo_is_gcd(g, m0, m1) implies gcdo_is_gcd(g, -m0, m1) by { lemma_im_gcd_sv(g, Sign::Negative, m0, Sign::Positive, m1); }
    assert forall|g: int| #[trigger] gcdo_is_gcd(g, m0, m1) implies gcdo_is_gcd(g, m0, -m1) by { lemma_im_gcd_sv(g, Sign::Positive, m0, Sign::Negative, m1); }
    assert forall|g: int| #[trigger] gcdo_is_gcd(g, m0, m1) implies gcdo_is_gcd(g, -m0, -m1) by { lemma_im_gcd_sv(g, Sign::Negative, m0, Sign::Negative, m1); }
}
pub proof fn lemma_im_gcd_sv(g: int, s0: Sign, m0: int, s1: Sign, m1: int)
    requires gcdo_is_gcd(g, m0, m1),
    ensures gcdo_is_gcd(g, sv(s0, m0), sv(s1, m1)),
{
    lemma_im_sv_mod(s0, m0, g); lemma_im_sv_mod(s1, m1, g);
    assert forall|d: int| d >= 1 && #[trigger] (sv(s0, m0) % d) == 0 && sv(s1, m1) % d == 0 implies g % d == 0 by {
        lemma_im_sv_mod(s0, m0, d); lemma_im_sv_mod(s1, m1, d);
        assert(m0 % d == 0 && m1 % d == 0);
    }
}
/// Bezout identity of the magnitudes ==> of the signed numbers with the cofactors multiplied by the signs
pub proof fn lemma_im_gcd_ext_signs(s0: Sign, m0: int, s1: Sign, m1: int)
    ensures forall|g: int, s: int, t: int| #[trigger] repr_gcd_ext_post(m0, m1, g, s, t)
        ==> repr_gcd_ext_post(sv(s0, m0), sv(s1, m1), g, sv(s0, s), sv(s1, t)),
{
    assert forall|g: int, s: int, t: int| #[trigger] repr_gcd_ext_post(m0, m1, g, s, t)
        implies repr_gcd_ext_post(sv(s0, m0), sv(s1, m1), g, sv(s0, s), sv(s1, t)) by {
        lemma_im_sv_mod(s0, m0, g); lemma_im_sv_mod(s1, m1, g);
        assert(sv(s0, s) * sv(s0, m0) == s * m0) by (nonlinear_arith)
            requires (sv(s0, s) == s && sv(s0, m0) == m0) || (sv(s0, s) == -s && sv(s0, m0) == -m0);
        assert(sv(s1, t) * sv(s1, m1) == t * m1) by (nonlinear_arith)
            requires (sv(s1, t) == t && sv(s1, m1) == m1) || (sv(s1, t) == -t && sv(s1, m1) == -m1);
    }
}

// ---- the UBig / IBig accessors the forwarding macros of helper_macros.rs use -----------------------------------------------
// TRUSTED (each states what the real one-line accessor does, on top of lib/repr_stubs.rs):
//   ubig.rs:77 UBig::repr = self.0.as_typed(); ubig.rs:83 UBig::into_repr = self.0.into_typed()   (a UBig is never negative);
//   ibig.rs:73 IBig::as_sign_repr = self.0.as_sign_typed(); ibig.rs:78 IBig::into_sign_repr = self.0.into_sign_typed().
impl UBig {
    #[verifier::external_body]
    pub fn repr(&self) -> (r: TypedReprRef<'_>)
        requires self.0.v() >= 0,
        ensures r.v() == self.0.v(), r.wf(),
    { unimplemented!() }
    #[verifier::external_body]
    pub fn into_repr(self) -> (r: TypedRepr)
        requires self.0.v() >= 0,
        ensures r.v() == self.0.v(), r.wf(),
    { unimplemented!() }
}
impl IBig {
    #[verifier::external_body]
    pub fn as_sign_repr(&self) -> (r: (Sign, TypedReprRef<'_>))
        ensures r.1.v() == iabs(self.0.v()), r.1.wf(),
            r.0 == (if self.0.v() < 0 { Sign::Negative } else { Sign::Positive }),
    { unimplemented!() }
    #[verifier::external_body]
    pub fn into_sign_repr(self) -> (r: (Sign, TypedRepr))
        ensures r.1.v() == iabs(self.0.v()), r.1.wf(),
            r.0 == (if self.0.v() < 0 { Sign::Negative } else { Sign::Positive }),
    { unimplemented!() }
}
/// `dashu_base::Sign::Positive` as written in the mixed UBig / IBig forwarding macros
pub mod dashu_base { pub use super::Sign; }
/// `(UBig, IBig, IBig)`: the `$omethod` type of the ExtendedGcd instantiations (a metavariable substitution must be one token)
pub type GcdExtOut = (UBig, IBig, IBig);

/// resource: the magnitude has at most n >= 2 words and n + 1 words can be allocated
pub open spec fn im_gcd_fits(v: int) -> bool { exists|n: int| n >= 2 && #[trigger] pw(n) > v && n + 1 < max_capacity() }
pub proof fn lemma_im_gcd_fits(v: int)
    requires im_gcd_fits(v),
    ensures forall|x: TypedReprRef| #[trigger] x.wf() && x.v() == v ==> x.nwords() + 1 < max_capacity(),
        forall|x: TypedRepr| #[trigger] x.wf() && x.v() == v ==> x.nwords() + 1 < max_capacity(),
{
    let n = choose|n: int| n >= 2 && #[trigger] pw(n) > v && n + 1 < max_capacity();
    assert forall|x: TypedReprRef| #[trigger] x.wf() && x.v() == v implies x.nwords() + 1 < max_capacity() by {
        match x {
            TypedReprRef::RefSmall(d) => {}
            TypedReprRef::RefLarge(w) => { if w@.len() > n { lemma_normalized_lower(w@); lemma_pw_mono(n, w@.len() as int - 1); } }
        }
    }
    assert forall|x: TypedRepr| #[trigger] x.wf() && x.v() == v implies x.nwords() + 1 < max_capacity() by {
        match x {
            TypedRepr::Small(d) => {}
            TypedRepr::Large(b) => { if b@.len() > n { lemma_normalized_lower(b@); lemma_pw_mono(n, b@.len() as int - 1); } }
        }
    }
}
/// sign and magnitude of v give v back
pub proof fn lemma_im_sv_abs(v: int)
    ensures sv(if v < 0 { Sign::Negative } else { Sign::Positive }, iabs(v)) == v,
{
}
