// ---- conv_float_stubs.rs: what float/src/convert.rs needs on top of round_prelude.rs / round_int_stubs.rs /
// round_float_repr.rs: bit length and primitive conversion of IBig, and the meaning of a `Rounding` flag attached to
// a primitive float.  EVERY external_body contract is a TRUSTED ASSUMPTION about dashu-int (file named at the stub).
use vstd::std_specs::convert::*;
use core::convert::{TryFrom, TryInto};

// dashu_base::ConversionError (base/src/error.rs) -- transcription
#[derive(Clone, Copy, PartialEq, Eq, Debug)]
pub enum ConversionError { OutOfBounds, LossOfPrecision }

/// bit length of |v|: 0 for zero, otherwise the k with 2^(k-1) <= |v| < 2^k
pub uninterp spec fn blen(v: int) -> nat;
pub broadcast axiom fn ax_blen(v: int)
    ensures v == 0 ==> #[trigger] blen(v) == 0,
        v != 0 ==> blen(v) >= 1 && pow2((blen(v) - 1) as nat) <= absi(v) < pow2(blen(v));
impl IBig {
    pub open spec fn bit_len_spec(&self) -> usize { blen(self.v()) as usize }
    /// integer/src/bits.rs `impl BitTest for IBig`: bit length of the magnitude
    #[verifier::external_body]
    #[verifier::when_used_as_spec(bit_len_spec)]
    pub fn bit_len(&self) -> (r: usize) ensures r == blen(self.v()) { unimplemented!() }
}
/// integer/src/convert.rs `impl TryFrom<IBig> for i32 / i64`: Ok(v) iff the value fits, else Err(OutOfBounds)
impl TryFrom<IBig> for i32 {
    type Error = ConversionError;
    #[verifier::external_body]
    fn try_from(x: IBig) -> Result<i32, ConversionError> { unimplemented!() }
}
impl TryFromSpecImpl<IBig> for i32 {
    open spec fn obeys_try_from_spec() -> bool { true }
    open spec fn try_from_spec(x: IBig) -> Result<i32, ConversionError> {
        if i32::MIN <= x.v() <= i32::MAX { Ok(x.v() as i32) } else { Err(ConversionError::OutOfBounds) }
    }
}
impl TryFrom<IBig> for i64 {
    type Error = ConversionError;
    #[verifier::external_body]
    fn try_from(x: IBig) -> Result<i64, ConversionError> { unimplemented!() }
}
impl TryFromSpecImpl<IBig> for i64 {
    open spec fn obeys_try_from_spec() -> bool { true }
    open spec fn try_from_spec(x: IBig) -> Result<i64, ConversionError> {
        if i64::MIN <= x.v() <= i64::MAX { Ok(x.v() as i64) } else { Err(ConversionError::OutOfBounds) }
    }
}

// ------------------------------------------------------------------------------------------------
// C06 for a result of type Rounded<f32/f64> = Approximation<f32/f64, Rounding>.
// Meaning of the flag (float/src/round.rs, and the contract `round_witness` of Context::repr_round): the result is
// trunc-towards-zero(exact) + adjustment, so  NoOp: result lies between 0 and the exact value;  AddOne: result >
// exact (only for positive values);  SubOne: result < exact (only for negative values).

/// value part: r is the RNE rounding of (-1)^neg * xn/xd and `exact` is truthful (error sign left open)
pub open spec fn rne_val_ok(f: Fmt, neg: bool, xn: int, xd: int, r: Fields, exact: bool) -> bool {
    rne_ok(f, neg, xn, xd, r, exact, true) || rne_ok(f, neg, xn, xd, r, exact, false)
}
/// the error sign (result - exact > 0) that the flag claims for a value of sign `neg`
pub open spec fn flag_pos(neg: bool, adj: Rounding) -> bool {
    match adj { Rounding::NoOp => neg, Rounding::AddOne => true, Rounding::SubOne => false }
}
pub open spec fn flag_side_ok(neg: bool, adj: Rounding) -> bool {
    match adj { Rounding::NoOp => true, Rounding::AddOne => !neg, Rounding::SubOne => neg }
}
pub open spec fn rr_adj<T>(r: Rounded<T>) -> Rounding { match r { Approximation::Exact(_) => Rounding::NoOp, Approximation::Inexact(_, a) => a } }
pub open spec fn rr32_val_ok(r: Rounded<f32>, neg: bool, xn: int, xd: int) -> bool {
    rne_val_ok(fmt32(), neg, xn, xd, fields32(ap_val(r)), ap_exact(r))
}
pub open spec fn rr64_val_ok(r: Rounded<f64>, neg: bool, xn: int, xd: int) -> bool {
    rne_val_ok(fmt64(), neg, xn, xd, fields64(ap_val(r)), ap_exact(r))
}
/// flag part: an inexact result carries the flag that tells the true sign of the error
pub open spec fn rr32_flag_ok(r: Rounded<f32>, neg: bool, xn: int, xd: int) -> bool {
    ap_exact(r) || (flag_side_ok(neg, rr_adj(r)) && rne_ok(fmt32(), neg, xn, xd, fields32(ap_val(r)), false, flag_pos(neg, rr_adj(r))))
}
pub open spec fn rr64_flag_ok(r: Rounded<f64>, neg: bool, xn: int, xd: int) -> bool {
    ap_exact(r) || (flag_side_ok(neg, rr_adj(r)) && rne_ok(fmt64(), neg, xn, xd, fields64(ap_val(r)), false, flag_pos(neg, rr_adj(r))))
}
/// "r is the RNE rounding of (-1)^neg * xn/xd, inexact, and lies further from zero than the exact value"
pub open spec fn rne_ok_away(f: Fmt, neg: bool, xn: int, xd: int, r: Fields) -> bool {
    rne_ok(f, neg, xn, xd, r, false, !neg)
}
/// "the RNE rounding of (-1)^neg * xn/xd is inexact and lies further from zero than the exact value"
pub open spec fn rne_away(f: Fmt, neg: bool, xn: int, xd: int) -> bool {
    exists|r: Fields| #[trigger] rne_ok_away(f, neg, xn, xd, r)
}
