// ---- sf_ratio_prim_stubs.rs: rational/src/convert.rs macro impl_conversion_from_float, `impl TryFrom<f32 / f64> for Repr`, as
// seen by `impl_simplest_from_float` (`Repr::try_from($f)`).  INCLUDE inside `pub mod ratio` after sf_ratio_stubs.rs.
// The contract `prim_from_post` (lib/sf_prim_lemmas.rs) is the one the real function bodies are PROVED against in unit
// ratio_sf_from_prim (hoisted copies repr_try_from_f32 / _f64): NaN / infinities are rejected, +-0.0 is 0/1, every other
// float is the UNREDUCED fraction m * 2^max(e,0) / 2^max(-e,0) for (m, e) = decode(f).
impl TryFrom<f32> for Repr {
    type Error = ConversionError;
    #[verifier::external_body]
    fn try_from(value: f32) -> (r: Result<Repr, ConversionError>)
        ensures prim_from_post(fmt32(), fields32(value), r)
    { unimplemented!() }
}
impl TryFrom<f64> for Repr {
    type Error = ConversionError;
    #[verifier::external_body]
    fn try_from(value: f64) -> (r: Result<Repr, ConversionError>)
        ensures prim_from_post(fmt64(), fields64(value), r)
    { unimplemented!() }
}
