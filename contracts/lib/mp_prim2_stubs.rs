// ---- mp_prim2_stubs.rs: TRUSTED stubs for unit int_modpow_double (modular/pow.rs `mod double`).  Word = @W@. --------------
// Needs lib/prelude.rs.  Same vocabulary names (p_ok / p_res / p_m) as the sibling file for the other instance of the
// macro `impl_mod_pow_for_primitive!`, so that the four annotated copies are shared.
//  * ConstDoubleDivisor(pub PreMulInv3by2): div_const.rs:28-31; PreMulInv3by2 stands for num_modular::PreMulInv3by2<Word, DoubleWord> (EXTERNAL crate), seen as a
//    `Reducer` over STORED numbers  x = residue << shift  below  m << shift:   sqr / mul return the stored product reduced
//    (num_modular Reducer contract, ASSUMED; bounded-checked for one modulus by the Kani group int_modpow).
//  * ReducedDword(pub DoubleWord): modular/repr.rs:36-43 (Copy); `one(ring)` is VERIFIED against its real body in the unit (annotated copy
//    annot/integer/modpow/prim2_one.rs) over the accessors `shift()` / `normalized_divisor()` stubbed below.

#[verifier::external_body]
pub struct PreMulInv3by2 { _p: u8 }
impl PreMulInv3by2 {
    /// the modulus the ring was built for
    pub uninterp spec fn m(&self) -> int;
    /// its normalisation shift
    pub uninterp spec fn sh(&self) -> int;
    /// normalised: m << sh fits the stored type (a double-word ring has m > Word::MAX: ConstDoubleDivisor::new, div_const.rs:102-104, is only reached with such a divisor)
    pub open spec fn wf(&self) -> bool { self.m() >= 1 && 0 <= self.sh() < 2 * @BITS@ && self.m() * pow2(self.sh()) < pow2(2int * @BITS@) && self.m() >= B() }
    pub open spec fn ok(&self, x: DoubleWord) -> bool {
        (x as int) % pow2(self.sh()) == 0 && (x as int) < self.m() * pow2(self.sh())
    }
    pub open spec fn res(&self, x: DoubleWord) -> int { (x as int) / pow2(self.sh()) }

    /// num_modular::Reducer::sqr
    #[verifier::external_body]
    pub fn sqr(&self, target: DoubleWord) -> (r: DoubleWord)
        requires self.wf(), self.ok(target),
        ensures self.ok(r), self.res(r) == (self.res(target) * self.res(target)) % self.m(),
    { unimplemented!() }
    /// num_modular::Reducer::mul
    #[verifier::external_body]
    pub fn mul(&self, lhs: &DoubleWord, rhs: &DoubleWord) -> (r: DoubleWord)
        requires self.wf(), self.ok(*lhs), self.ok(*rhs),
        ensures self.ok(r), self.res(r) == (self.res(*lhs) * self.res(*rhs)) % self.m(),
    { unimplemented!() }
}

pub struct ConstDoubleDivisor(pub PreMulInv3by2);
#[derive(Clone, Copy)]
pub struct ReducedDword(pub DoubleWord);

pub open spec fn p_m(ring: &ConstDoubleDivisor) -> int { ring.0.m() }
pub open spec fn p_wf(ring: &ConstDoubleDivisor) -> bool { ring.0.wf() }
pub open spec fn p_ok(ring: &ConstDoubleDivisor, x: ReducedDword) -> bool { ring.0.ok(x.0) }
pub open spec fn p_res(ring: &ConstDoubleDivisor, x: ReducedDword) -> int { ring.0.res(x.0) }

impl ConstDoubleDivisor {
    // div_const.rs `pub const fn shift(&self) -> u32 { self.0.shift() }`, `normalized_divisor(&self) { self.0.divisor() }`
    // (num_modular accessors of the pre-computed divisor: TRUSTED)
    #[verifier::external_body]
    pub fn shift(&self) -> (r: u32)
        requires p_wf(self),
        ensures r as int == self.0.sh(),
    { unimplemented!() }
    #[verifier::external_body]
    pub fn normalized_divisor(&self) -> (r: DoubleWord)
        requires p_wf(self),
        ensures r as int == self.0.m() * pow2(self.0.sh()),
    { unimplemented!() }
}

/// a valid stored element has its residue in [0, m)
pub proof fn lemma_p_res_range(ring: &ConstDoubleDivisor, x: ReducedDword)
    requires p_wf(ring), p_ok(ring, x),
    ensures 0 <= p_res(ring, x) < p_m(ring),
{
    let p = pow2(ring.0.sh());
    let m = ring.0.m();
    let xv = x.0 as int;
    lemma_sh_pow2_pos(ring.0.sh());
    vstd::arithmetic::div_mod::lemma_fundamental_div_mod(xv, p);
    let q = xv / p;
    assert(0 <= q < m) by (nonlinear_arith) requires xv == p * q, 0 <= xv < m * p, p >= 1;
}
