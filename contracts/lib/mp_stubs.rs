// ---- mp_stubs.rs: trusted stubs for the modular exponentiation units (int_modpow_large, int_modpow_prim). -----------
// Word = @W@.  Needs lib/prelude.rs, lib/div_dword_stubs.rs, lib/div_post_spec.rs (Memory), lib/mod2_ring.rs,
// lib/mod2_mem.rs (Layout, MemoryAllocation, allocate_slice_fill, Box deref).  TRUSTED (unchecked assumptions):
//  * the exponent `UBig` seen through the four methods pow.rs calls: `is_zero` / `is_one` (ubig.rs:181/195),
//    `bit_len` (bits.rs:195 -> repr bit_len: position of the highest set bit + 1, 0 for 0), `as_words` (ubig.rs:104: the
//    little-endian words of the value).  The VALUE `v()` of the exponent is what the property statement quantifies over.
//  * `ReducedLarge::clone` (derived, modular/repr.rs:46): a deep copy; `<Box<[T]> as AsRef<[T]>>::as_ref` = `&**self`.
//  * scratch-memory sizing (`memory::add_layout`, `memory::array_layout`, `mul_memory_requirement`): opaque layouts; a
//    too small scratch area PANICS in the real allocator (memory.rs), it never changes a value: sizing is NOT verified.
//  * `error::panic_allocate_too_much() -> !`: a possible panic (table size overflow), no contract: never returns.

pub struct UBig { _p: u8 }
impl UBig {
    /// the mathematical value of the exponent
    pub uninterp spec fn v(&self) -> int;

    #[verifier::external_body]
    pub fn is_zero(&self) -> (r: bool) ensures r == (self.v() == 0), self.v() >= 0 /* unsigned */ { unimplemented!() }
    #[verifier::external_body]
    pub fn is_one(&self) -> (r: bool) ensures r == (self.v() == 1) { unimplemented!() }
    /// dashu_base::BitTest::bit_len: number of significant bits
    #[verifier::external_body]
    pub fn bit_len(&self) -> (r: usize)
        ensures self.v() == 0 ==> r == 0,
            self.v() > 0 ==> r >= 1 && pow2(r as int - 1) <= self.v() < pow2(r as int),
    { unimplemented!() }
    #[verifier::external_body]
    pub fn as_words(&self) -> (r: &[Word])
        ensures val(r@) == self.v(), r@.len() <= usize::MAX,
    { unimplemented!() }
}
impl Clone for ReducedLarge {
    #[verifier::external_body]
    fn clone(&self) -> (r: Self)
        ensures r.0@ == self.0@,
    { unimplemented!() }
}

pub assume_specification<T: ?Sized, A: core::alloc::Allocator> [<Box<T, A> as core::convert::AsRef<T>>::as_ref] (b: &Box<T, A>) -> (r: &T)
    ensures r == &**b;

pub mod memory {
    use super::*;
    pub use super::MemoryAllocation;
    pub use super::Memory;
    #[verifier::external_body]
    pub fn add_layout(a: Layout, b: Layout) -> (r: Layout) { unimplemented!() }
    #[verifier::external_body]
    pub fn array_layout<T>(n: usize) -> (r: Layout) { unimplemented!() }
}
#[verifier::external_body]
pub fn mul_memory_requirement(ring: &ConstLargeDivisor) -> (r: Layout) { unimplemented!() }

pub mod error {
    #[allow(unused_imports)]
    use super::*;
    #[verifier::external_body]
    pub fn panic_allocate_too_much() -> ! { unimplemented!() }
}

/// primitive.rs `PrimitiveUnsigned::BIT_SIZE` (= the type's BITS), for the two instantiations pow.rs / math.rs use
pub trait PrimitiveUnsigned {
    const BIT_SIZE: u32;
}
impl PrimitiveUnsigned for Word {
    const BIT_SIZE: u32 = @BITS@;
}
impl PrimitiveUnsigned for usize {
    const BIT_SIZE: u32 = 64;      // the units say `global size_of usize == 8`
}
