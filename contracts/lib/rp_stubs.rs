// ---- rp_stubs.rs: dashu-int operations as seen from the `%` / Euclidean arms of rational/src/div.rs in their MUST_PANIC
// reading (unit ratio_zero_panic).  Include after lib/ratio_lemmas.rs, lib/bigstub.rs, lib/ratio_types.rs and INSTEAD OF
// lib/ratio2_stubs.rs (the same items with the total contracts: zero divisor excluded by precondition).
//
// Every external_body item is a TRUSTED ASSUMPTION about dashu-int.  The four division-like operations carry the
// must_panic variant of their contract (rule D4):   requires rhs.v() == 0   ensures false
// i.e. "called with a zero divisor they never return (they panic)".  This is NOT proved here; at the representation level
// it is what unit int_div_ops_zero (C02/C16) proves for integer/src/div_ops.rs repr::{div_rem_dword, div_dword, rem_dword,
// div_rem_large_dword, rem_large_dword} (`panic_divide_by_0()` is reached for a zero divisor); the sign-convention arms
// between `IBig % UBig` / `IBig::rem_euclid` ... and those entry points (unit int_div_sign) forward the divisor unchanged.
// A call with a NON-zero divisor violates the `requires` of these stubs: the must_panic proof then fails, as it should.
pub mod rp_stubs {
use super::*;
use vstd::std_specs::ops::*;
use vstd::std_specs::convert::*;
use core::ops::{Add, Sub, Mul, Div, Neg};
use core::cmp::Ordering;

// core::ops::Rem, mirrored (same shape: `type Output; fn rem(self, rhs: Rhs) -> Output`) so that the method-call form
// `left.rem(&right)` the arm text uses (`left.$method(&right)` with $method = rem) can carry requires/ensures; vstd's
// RemSpecImpl can only state `r == rem_spec(..)`, not "never returns".
pub trait Rem<Rhs = Self> {
    type Output;
    spec fn rem_req(self, rhs: Rhs) -> bool;
    spec fn rem_post(self, rhs: Rhs, r: Self::Output) -> bool;
    fn rem(self, rhs: Rhs) -> (r: Self::Output) requires self.rem_req(rhs) ensures self.rem_post(rhs, r);
}
// TRUSTED, must_panic variant (integer/src/div_ops.rs impl_ibig_rem -> repr `%` -> panic_divide_by_0): IBig % &UBig with a
// zero divisor panics
impl<'b> Rem<&'b UBig> for IBig {
    type Output = IBig;
    open spec fn rem_req(self, rhs: &'b UBig) -> bool { rhs.v() == 0 }
    open spec fn rem_post(self, rhs: &'b UBig, r: IBig) -> bool { false }
    #[verifier::external_body]
    fn rem(self, rhs: &'b UBig) -> (r: IBig) { unimplemented!() }
}

// dashu_base::{DivEuclid, RemEuclid, DivRemEuclid} (traits mirrored from base/src/ring/mod.rs, as in lib/ratio2_stubs.rs)
pub trait DivEuclid<Rhs = Self> {
    type Output;
    spec fn div_euclid_req(self, rhs: Rhs) -> bool;
    spec fn div_euclid_post(self, rhs: Rhs, r: Self::Output) -> bool;
    fn div_euclid(self, rhs: Rhs) -> (r: Self::Output) requires self.div_euclid_req(rhs) ensures self.div_euclid_post(rhs, r);
}
pub trait RemEuclid<Rhs = Self> {
    type Output;
    spec fn rem_euclid_req(self, rhs: Rhs) -> bool;
    spec fn rem_euclid_post(self, rhs: Rhs, r: Self::Output) -> bool;
    fn rem_euclid(self, rhs: Rhs) -> (r: Self::Output) requires self.rem_euclid_req(rhs) ensures self.rem_euclid_post(rhs, r);
}
pub trait DivRemEuclid<Rhs = Self> {
    type OutputDiv;
    type OutputRem;
    spec fn div_rem_euclid_req(self, rhs: Rhs) -> bool;
    spec fn div_rem_euclid_post(self, rhs: Rhs, r: (Self::OutputDiv, Self::OutputRem)) -> bool;
    fn div_rem_euclid(self, rhs: Rhs) -> (r: (Self::OutputDiv, Self::OutputRem))
        requires self.div_rem_euclid_req(rhs) ensures self.div_rem_euclid_post(rhs, r);
}
// TRUSTED, must_panic variants (integer/src/div_ops.rs impl_ibig_{div,rem,divrem}_euclid -> repr div_rem / `%` ->
// panic_divide_by_0): the Euclidean forms with a zero divisor panic
impl DivEuclid<IBig> for IBig {
    type Output = IBig;
    open spec fn div_euclid_req(self, rhs: IBig) -> bool { rhs.v() == 0 }
    open spec fn div_euclid_post(self, rhs: IBig, r: IBig) -> bool { false }
    #[verifier::external_body]
    fn div_euclid(self, rhs: IBig) -> (r: IBig) { unimplemented!() }
}
impl RemEuclid<IBig> for IBig {
    type Output = UBig;
    open spec fn rem_euclid_req(self, rhs: IBig) -> bool { rhs.v() == 0 }
    open spec fn rem_euclid_post(self, rhs: IBig, r: UBig) -> bool { false }
    #[verifier::external_body]
    fn rem_euclid(self, rhs: IBig) -> (r: UBig) { unimplemented!() }
}
impl DivRemEuclid<IBig> for IBig {
    type OutputDiv = IBig;
    type OutputRem = UBig;
    open spec fn div_rem_euclid_req(self, rhs: IBig) -> bool { rhs.v() == 0 }
    open spec fn div_rem_euclid_post(self, rhs: IBig, r: (IBig, UBig)) -> bool { false }
    #[verifier::external_body]
    fn div_rem_euclid(self, rhs: IBig) -> (r: (IBig, UBig)) { unimplemented!() }
}

// ---- operations the arm text uses AFTER the panicking call (dead code in this reading; needed so that the real tokens
// resolve).  Same text as lib/ratio2_stubs.rs.
// TRUSTED (integer/src/add_ops.rs): UBig - &UBig / UBig - UBig is the exact difference; a negative result panics (sub_req)
impl<'b> SubSpecImpl<&'b UBig> for UBig {
    open spec fn obeys_sub_spec() -> bool { true }
    open spec fn sub_req(self, rhs: &'b UBig) -> bool { self.v() >= rhs.v() }
    open spec fn sub_spec(self, rhs: &'b UBig) -> UBig { ubig_of(self.v() - rhs.v()) }
}
impl<'b> Sub<&'b UBig> for UBig { type Output = UBig;
    #[verifier::external_body]
    fn sub(self, rhs: &'b UBig) -> UBig { unimplemented!() }
}
impl SubSpecImpl<UBig> for UBig {
    open spec fn obeys_sub_spec() -> bool { true }
    open spec fn sub_req(self, rhs: UBig) -> bool { self.v() >= rhs.v() }
    open spec fn sub_spec(self, rhs: UBig) -> UBig { ubig_of(self.v() - rhs.v()) }
}
impl Sub<UBig> for UBig { type Output = UBig;
    #[verifier::external_body]
    fn sub(self, rhs: UBig) -> UBig { unimplemented!() }
}
// TRUSTED (integer/src/convert.rs): From<UBig> for IBig keeps the value
impl FromSpecImpl<UBig> for IBig {
    open spec fn obeys_from_spec() -> bool { true }
    open spec fn from_spec(u: UBig) -> IBig { ibig_of(u.v()) }
}
impl From<UBig> for IBig {
    #[verifier::external_body]
    fn from(u: UBig) -> IBig { unimplemented!() }
}
// TRUSTED (integer/src/sign.rs `impl Mul<Sign> for UBig`): attaches the sign, result IBig (UBig / RBig arm)
impl MulSpecImpl<Sign> for UBig {
    open spec fn obeys_mul_spec() -> bool { true }
    open spec fn mul_req(self, rhs: Sign) -> bool { true }
    open spec fn mul_spec(self, rhs: Sign) -> IBig { ibig_of(self.v() * sgn(rhs)) }
}
impl Mul<Sign> for UBig { type Output = IBig;
    #[verifier::external_body]
    fn mul(self, rhs: Sign) -> IBig { unimplemented!() }
}
} // mod rp_stubs
pub use rp_stubs::*;
