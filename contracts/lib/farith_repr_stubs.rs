// ---- farith_repr_stubs.rs: additions to round_float_repr.rs / conv_fbig_stubs.rs needed by the arithmetic units.
// float/src/repr.rs: `#[derive(Clone, Copy)] pub struct Context<RoundingMode: Round>` (the transcription lacks the derives)
impl<R: Round> Clone for Context<R> {
    #[verifier::external_body]
    fn clone(&self) -> (r: Self) ensures r == *self { unimplemented!() }
}
impl<R: Round> Copy for Context<R> {}
/// the plain value `r` (flag dropped by `.value()`) of SOME correct single rounding of X * b^E
pub open spec fn round_val_of<const B: Word>(m: Mode, b: int, p: usize, X: int, E: int, r: Repr<B>) -> bool {
    exists|rr: Rounded<Repr<B>>| #[trigger] rd_val0(rr) == r && round_val(m, b, p, X, E, rr)
}
/// base/src/approx.rs `Approximation::value` as a spec function
pub open spec fn rd_val0<T, E>(r: Approximation<T, E>) -> T { match r { Approximation::Exact(v) => v, Approximation::Inexact(v, _) => v } }
pub open spec fn umax(a: usize, b: usize) -> usize { if a > b { a } else { b } }
pub open spec fn finite<const B: Word>(r: Repr<B>) -> bool { !(r.significand.v() == 0 && r.exponent != 0) }

// ---- TRUSTED stubs of float/src/repr.rs methods (each contract read off the real function)
impl<const B: Word> Repr<B> {
    /// repr.rs `Repr::is_zero`: `self.significand.is_zero() && self.exponent == 0`
    #[verifier::external_body]
    pub fn is_zero(&self) -> (r: bool)
        ensures r == (self.significand.v() == 0 && self.exponent == 0)
    { unimplemented!() }
    // `Repr::digits_ub` (f32 over-estimate of the digit count): stub in lib/round_float_repr.rs (ASSUMED enclosure
    // digits <= digits_ub <= 2*digits + 2, 0 for a zero significand)
}
