// ---- leh_ext_lemmas.rs: lemmas for integer/src/gcd/lehmer.rs gcd_ext_in_place (C12). Word = @W@ ------------------------
// Needs lib/prelude.rs, lib/sign.rs, lib/leh_ext_stubs.rs, lib/leh_guess_lemmas.rs, lib/leh_gcd_lemmas.rs.
//
// Notation: (l0, r0) the operands, (x, y) the running pair (x >= y), (T0, T1) the tracked cofactors of r0, (s0, s1) the untracked
// (ghost) cofactors of l0, sw the `swapped` flag:
//     !sw:  x == s0*l0 - T0*r0,   y == T1*r0 - s1*l0            sw:  x == T0*r0 - s0*l0,   y == s1*l0 - T1*r0
// and always  l0 == T1*x + T0*y  (which bounds T0, T1 by l0).

pub open spec fn leh_bez(sw: bool, l0: int, r0: int, s0: int, s1: int, T0: int, T1: int, x: int, y: int) -> bool {
    if sw { x == T0 * r0 - s0 * l0 && y == s1 * l0 - T1 * r0 }
    else { x == s0 * l0 - T0 * r0 && y == T1 * r0 - s1 * l0 }
}

pub proof fn lemma_leh_bez_init(l0: int, r0: int)
    ensures leh_bez(false, l0, r0, 1, 0, 0, 1, l0, r0), l0 == 1 * l0 + 0 * r0,
{
}

/// exchanging the roles of the two rows flips the flag
pub proof fn lemma_leh_bez_swap(sw: bool, l0: int, r0: int, s0: int, s1: int, T0: int, T1: int, x: int, y: int)
    requires leh_bez(sw, l0, r0, s0, s1, T0, T1, x, y),
    ensures leh_bez(!sw, l0, r0, s1, s0, T1, T0, y, x),
{
}

/// Euclidean step x == Q*y + r1:  (x, y) <- (y, r1),  (T0, T1) <- (T1, T0 + Q*T1),  (s0, s1) <- (s1, s0 + Q*s1),  flag flipped
pub proof fn lemma_leh_bez_euclid(sw: bool, l0: int, r0: int, s0: int, s1: int, T0: int, T1: int, x: int, y: int, Q: int, r1: int)
    requires leh_bez(sw, l0, r0, s0, s1, T0, T1, x, y), x == Q * y + r1,
    ensures leh_bez(!sw, l0, r0, s1, s0 + Q * s1, T1, T0 + Q * T1, y, r1),
{
    assert((s0 + Q * s1) * l0 == s0 * l0 + Q * (s1 * l0)) by (nonlinear_arith);
    assert((T0 + Q * T1) * r0 == T0 * r0 + Q * (T1 * r0)) by (nonlinear_arith);
    if sw {
        assert(Q * y == Q * (s1 * l0) - Q * (T1 * r0)) by (nonlinear_arith) requires y == s1 * l0 - T1 * r0;
    } else {
        assert(Q * y == Q * (T1 * r0) - Q * (s1 * l0)) by (nonlinear_arith) requires y == T1 * r0 - s1 * l0;
    }
}

/// the same update without exchanging the rows (tail of gcd_ext_in_place: x is reduced by the single-word y)
pub proof fn lemma_leh_bez_reduce(sw: bool, l0: int, r0: int, s0: int, s1: int, T0: int, T1: int, x: int, y: int, Q: int, r1: int)
    requires leh_bez(sw, l0, r0, s0, s1, T0, T1, x, y), x == Q * y + r1,
    ensures leh_bez(sw, l0, r0, s0 + Q * s1, s1, T0 + Q * T1, T1, r1, y),
{
    lemma_leh_bez_euclid(sw, l0, r0, s0, s1, T0, T1, x, y, Q, r1);
    lemma_leh_bez_swap(!sw, l0, r0, s1, s0 + Q * s1, T1, T0 + Q * T1, y, r1);
}

/// Lehmer step:  (x, y) <- (a x - b y, d y - c x),  (T0, T1) <- (a T0 + b T1, c T0 + d T1),  same for (s0, s1)
pub proof fn lemma_leh_bez_lehmer(sw: bool, l0: int, r0: int, s0: int, s1: int, T0: int, T1: int, x: int, y: int,
    a: int, b: int, c: int, d: int)
    requires leh_bez(sw, l0, r0, s0, s1, T0, T1, x, y),
    ensures leh_bez(sw, l0, r0, a * s0 + b * s1, c * s0 + d * s1, a * T0 + b * T1, c * T0 + d * T1, a * x - b * y, d * y - c * x),
{
    assert((a * s0 + b * s1) * l0 == a * (s0 * l0) + b * (s1 * l0)) by (nonlinear_arith);
    assert((c * s0 + d * s1) * l0 == c * (s0 * l0) + d * (s1 * l0)) by (nonlinear_arith);
    assert((a * T0 + b * T1) * r0 == a * (T0 * r0) + b * (T1 * r0)) by (nonlinear_arith);
    assert((c * T0 + d * T1) * r0 == c * (T0 * r0) + d * (T1 * r0)) by (nonlinear_arith);
    if sw {
        assert(a * x == a * (T0 * r0) - a * (s0 * l0)) by (nonlinear_arith) requires x == T0 * r0 - s0 * l0;
        assert(c * x == c * (T0 * r0) - c * (s0 * l0)) by (nonlinear_arith) requires x == T0 * r0 - s0 * l0;
        assert(b * y == b * (s1 * l0) - b * (T1 * r0)) by (nonlinear_arith) requires y == s1 * l0 - T1 * r0;
        assert(d * y == d * (s1 * l0) - d * (T1 * r0)) by (nonlinear_arith) requires y == s1 * l0 - T1 * r0;
    } else {
        assert(a * x == a * (s0 * l0) - a * (T0 * r0)) by (nonlinear_arith) requires x == s0 * l0 - T0 * r0;
        assert(c * x == c * (s0 * l0) - c * (T0 * r0)) by (nonlinear_arith) requires x == s0 * l0 - T0 * r0;
        assert(b * y == b * (T1 * r0) - b * (s1 * l0)) by (nonlinear_arith) requires y == T1 * r0 - s1 * l0;
        assert(d * y == d * (T1 * r0) - d * (s1 * l0)) by (nonlinear_arith) requires y == T1 * r0 - s1 * l0;
    }
}

/// l0 == T1*x + T0*y through a Euclidean step
pub proof fn lemma_leh_k_euclid(l0: int, T0: int, T1: int, x: int, y: int, Q: int, r1: int)
    requires l0 == T1 * x + T0 * y, x == Q * y + r1, 0 <= T0 <= T1, T1 >= 1, y >= 1, r1 >= 0, Q >= 1,
    ensures l0 == (T0 + Q * T1) * y + T1 * r1, T0 + Q * T1 >= T1, T0 + Q * T1 <= l0, Q * T1 <= l0, Q * T1 >= 1,
{
    assert(T1 * x == (Q * T1) * y + T1 * r1) by (nonlinear_arith) requires x == Q * y + r1;
    assert((T0 + Q * T1) * y == T0 * y + (Q * T1) * y) by (nonlinear_arith);
    assert(Q * T1 >= T1) by (nonlinear_arith) requires Q >= 1, T1 >= 1;
    let tn = T0 + Q * T1;
    assert(tn * y >= tn) by (nonlinear_arith) requires tn >= 0, y >= 1;
    assert(T1 * r1 >= 0) by (nonlinear_arith) requires T1 >= 1, r1 >= 0;
}

/// l0 == T1*x + T0*y through a Lehmer step (x == d x1 + b y1, y == c x1 + a y1)
pub proof fn lemma_leh_k_lehmer(l0: int, T0: int, T1: int, x: int, y: int, x1: int, y1: int, a: int, b: int, c: int, d: int)
    requires l0 == T1 * x + T0 * y, x == d * x1 + b * y1, y == c * x1 + a * y1,
        T0 >= 0, T1 >= 1, x1 >= 1, y1 >= 1, a >= 1, b >= 1, c >= 0, d >= 1,
    ensures l0 == (c * T0 + d * T1) * x1 + (a * T0 + b * T1) * y1,
        1 <= a * T0 + b * T1 <= l0, 1 <= c * T0 + d * T1 <= l0,
{
    assert(T1 * x == (d * T1) * x1 + (b * T1) * y1) by (nonlinear_arith) requires x == d * x1 + b * y1;
    assert(T0 * y == (c * T0) * x1 + (a * T0) * y1) by (nonlinear_arith) requires y == c * x1 + a * y1;
    assert((c * T0 + d * T1) * x1 == (c * T0) * x1 + (d * T1) * x1) by (nonlinear_arith);
    assert((a * T0 + b * T1) * y1 == (a * T0) * y1 + (b * T1) * y1) by (nonlinear_arith);
    let u = a * T0 + b * T1; let w = c * T0 + d * T1;
    assert(a * T0 >= 0) by (nonlinear_arith) requires a >= 1, T0 >= 0;
    assert(c * T0 >= 0) by (nonlinear_arith) requires c >= 0, T0 >= 0;
    assert(b * T1 >= 1) by (nonlinear_arith) requires b >= 1, T1 >= 1;
    assert(d * T1 >= 1) by (nonlinear_arith) requires d >= 1, T1 >= 1;
    assert(u * y1 >= u) by (nonlinear_arith) requires u >= 1, y1 >= 1;
    assert(w * x1 >= w) by (nonlinear_arith) requires w >= 1, x1 >= 1;
}

/// which of the two new cofactors is the larger one: decided by the parity clause of the EXACT guess (leh_guess_exact) and the
/// order of the new pair
pub proof fn lemma_leh_cof_order(x: int, y: int, X: int, Y: int, k: int, a: int, b: int, c: int, d: int, T0: int, T1: int)
    requires leh_top(x, y, X, Y, k), leh_guess_exact(X, Y, a, b, c, d), a >= 1, b >= 1, c >= 0, d >= 1, T0 >= 0, T1 >= 0,
    ensures a * x - b * y > d * y - c * x ==> a * T0 + b * T1 <= c * T0 + d * T1,
        a * x - b * y <= d * y - c * x ==> c * T0 + d * T1 <= a * T0 + b * T1,
{
    if c >= a && d >= b && d * Y - c * X + d <= a * X - b * Y - b {
        lemma_leh_order2(x, y, X, Y, k, a, b, c, d);
        assert(a * T0 <= c * T0) by (nonlinear_arith) requires a <= c, T0 >= 0;
        assert(b * T1 <= d * T1) by (nonlinear_arith) requires b <= d, T1 >= 0;
    } else {
        lemma_leh_order(x, y, X, Y, k, a, b, c, d);
        assert(c * T0 <= a * T0) by (nonlinear_arith) requires c <= a, T0 >= 0;
        assert(d * T1 <= b * T1) by (nonlinear_arith) requires d <= b, T1 >= 0;
    }
}

// ---- lengths ------------------------------------------------------------------------------------------------------------------

pub proof fn lemma_leh_pw_lt(a: int, b: int)
    requires pw(a) < pw(b),
    ensures a < b,
{
    if a >= b { lemma_leh_pw_mono2(b, a); }
}

/// a quotient Q >= B^e and a normalized cofactor T1 of t1_len words with Q*T1 <= l0 < B^nl:  e + t1_len <= nl
pub proof fn lemma_leh_qt_len(Q: int, T1: int, l0: int, e: int, t1_len: int, nl: int)
    requires Q >= pw(e), T1 >= pw(t1_len - 1), Q * T1 <= l0, l0 < pw(nl), e >= 0, t1_len >= 1,
    ensures e + t1_len <= nl,
{
    lemma_pw_add(e, t1_len - 1);
    lemma_pw_pos(e); lemma_pw_pos(t1_len - 1);
    assert(Q * T1 >= pw(e) * pw(t1_len - 1)) by (nonlinear_arith) requires Q >= pw(e), T1 >= pw(t1_len - 1), pw(e) >= 1, pw(t1_len - 1) >= 1;
    lemma_leh_pw_lt(e + t1_len - 1, nl);
}

/// words from `len` on are zero: the value is that of the first `len` words
pub open spec fn leh_zeros_from(s: Seq<Word>, len: int) -> bool {
    forall|j: int| len <= j < s.len() ==> #[trigger] s[j] == 0
}

pub proof fn lemma_leh_val_prefix(s: Seq<Word>, k: int)
    requires 0 <= k <= s.len(), leh_zeros_from(s, k),
    ensures val(s) == valn(s, k), val(s.subrange(0, k)) == valn(s, k),
{
    lemma_valn_zero(s, k, s.len() as int);
    lemma_valn_ext(s, s.subrange(0, k), k);
}

/// a normalized prefix of `len` words: B^(len-1) <= value
pub proof fn lemma_leh_norm_ge(s: Seq<Word>, len: int)
    requires 1 <= len <= s.len(), s[len - 1] != 0, leh_zeros_from(s, len),
    ensures val(s) >= pw(len - 1), val(s) >= 1,
{
    lemma_leh_val_prefix(s, len);
    lemma_valn_bound(s, len - 1);
    lemma_pw_pos(len - 1);
    assert((s[len - 1] as int) * pw(len - 1) >= pw(len - 1)) by (nonlinear_arith) requires s[len - 1] as int >= 1, pw(len - 1) >= 1;
}

/// ... so a bound of the value bounds the length
pub proof fn lemma_leh_norm_len(s: Seq<Word>, len: int, k: int)
    requires 1 <= len <= s.len(), s[len - 1] != 0, leh_zeros_from(s, len), val(s) < pw(k),
    ensures len <= k,
{
    lemma_leh_norm_ge(s, len);
    lemma_leh_pw_lt(len - 1, k);
}

/// valn of the first k words is below B^k; if the value is at least B^k the carry on top of them is positive ... and conversely a
/// positive carry word on top of k words needs k < nl when the total is below B^nl
pub proof fn lemma_leh_carry_room(lo: int, cw: int, k: int, t: int, nl: int)
    requires lo + cw * pw(k) == t, 0 <= lo, cw >= 1, t < pw(nl), k >= 0,
    ensures k < nl,
{
    lemma_pw_pos(k);
    assert(cw * pw(k) >= pw(k)) by (nonlinear_arith) requires cw >= 1, pw(k) >= 1;
    lemma_leh_pw_lt(k, nl);
}

/// writing the carry word w at position k of a sequence whose words from k on are zero
pub proof fn lemma_leh_set_top(a: Seq<Word>, b: Seq<Word>, k: int, w: Word)
    requires 0 <= k < a.len(), leh_zeros_from(a, k), b == a.update(k, w),
    ensures val(b) == valn(a, k) + (w as int) * pw(k), leh_zeros_from(b, k + 1), b[k] == w,
{
    assert(leh_zeros_from(b, k + 1));
    lemma_leh_val_prefix(b, k + 1);
    lemma_valn_ext(a, b, k);
}

/// an in-place update of the prefix [0, e) (the callee saw `b.subrange(0, e)`), words from e on untouched and zero
pub proof fn lemma_leh_prefix_update(a: Seq<Word>, b: Seq<Word>, e: int)
    requires 0 <= e <= a.len(), b.len() == a.len(), leh_zeros_from(a, e), forall|j: int| e <= j < a.len() ==> b[j] == a[j],
    ensures leh_zeros_from(b, e), val(b) == val(b.subrange(0, e)), val(a) == val(a.subrange(0, e)),
{
    assert(leh_zeros_from(b, e));
    lemma_leh_val_prefix(a, e);
    lemma_leh_val_prefix(b, e);
}

/// an in-place update of the window [m, e) inside the prefix [0, e):  val(b[m..e]) + c*B^(e-m) == val(a[m..e]) + D
///   ==>  valn(b, e) + c*B^e == valn(a, e) + D*B^m
pub proof fn lemma_leh_window(a: Seq<Word>, b: Seq<Word>, m: int, e: int, c: int, D: int)
    requires 0 <= m <= e <= a.len(), b.len() == a.len(),
        forall|j: int| 0 <= j < m ==> b[j] == a[j],
        val(b.subrange(m, e)) + c * pw(e - m) == val(a.subrange(m, e)) + D,
    ensures valn(b, e) + c * pw(e) == valn(a, e) + D * pw(m),
{
    let a1 = a.subrange(0, e); let b1 = b.subrange(0, e);
    lemma_valn_ext(a, a1, e); lemma_valn_ext(b, b1, e);
    lemma_val_split(a1, m); lemma_val_split(b1, m);
    assert(a1.subrange(m, e) =~= a.subrange(m, e));
    assert(b1.subrange(m, e) =~= b.subrange(m, e));
    assert(a1.subrange(0, m) =~= b1.subrange(0, m));
    lemma_pw_add(m, e - m);
    let va = val(a.subrange(m, e)); let vb = val(b.subrange(m, e)); let p = pw(m); let q = pw(e - m);
    assert(p * (vb + c * q) == p * vb + c * (p * q)) by (nonlinear_arith);
    assert(p * (va + D) == p * va + D * p) by (nonlinear_arith);
}

// ---- the Euclidean step's cofactor update ---------------------------------------------------------------------------------------

/// no overflow in `t_carry += ..`:  lo + (c1 + c2)*B^e == T0 + Q*T1 with T0 <= T1 < B^t, Q < (qt + 1)*B^m, e == m + t
///   ==>  0 <= c1 + c2 <= qt
pub proof fn lemma_leh_tcarry(lo: int, c12: int, e: int, T0: int, T1: int, Q: int, qt: int, m: int, t: int)
    requires lo + c12 * pw(e) == T0 + Q * T1, 0 <= lo < pw(e), 0 <= T0 <= T1, T1 < pw(t), 0 <= Q, Q < (qt + 1) * pw(m),
        e == m + t, m >= 0, t >= 0, qt >= 0,
    ensures 0 <= c12 <= qt,
{
    lemma_pw_add(m, t);
    lemma_pw_pos(m); lemma_pw_pos(t); lemma_pw_pos(e);
    // T0 + Q*T1 <= (Q + 1)*T1 <= (qt + 1)*B^m * T1 < (qt + 1)*B^e
    assert(T0 + Q * T1 <= (Q + 1) * T1) by (nonlinear_arith) requires T0 <= T1;
    assert((Q + 1) * T1 <= ((qt + 1) * pw(m)) * T1) by (nonlinear_arith) requires Q + 1 <= (qt + 1) * pw(m), T1 >= 0;
    if T1 >= 1 {
        assert(((qt + 1) * pw(m)) * T1 <= ((qt + 1) * pw(m)) * (pw(t) - 1)) by (nonlinear_arith)
            requires T1 <= pw(t) - 1, (qt + 1) * pw(m) >= 0;
        assert(((qt + 1) * pw(m)) * (pw(t) - 1) == (qt + 1) * (pw(m) * pw(t)) - (qt + 1) * pw(m)) by (nonlinear_arith);
        assert((qt + 1) * pw(m) >= 1) by (nonlinear_arith) requires qt >= 0, pw(m) >= 1;
    } else {
        assert(((qt + 1) * pw(m)) * T1 == 0) by (nonlinear_arith) requires T1 == 0;
        assert((qt + 1) * pw(e) >= 1) by (nonlinear_arith) requires qt >= 0, pw(e) >= 1;
    }
    assert(T0 + Q * T1 < (qt + 1) * pw(e));
    assert(Q * T1 >= 0) by (nonlinear_arith) requires Q >= 0, T1 >= 0;
    if c12 >= qt + 1 { assert(c12 * pw(e) >= (qt + 1) * pw(e)) by (nonlinear_arith) requires c12 >= qt + 1, pw(e) >= 1; }
    if c12 <= -1 { assert(c12 * pw(e) <= -pw(e)) by (nonlinear_arith) requires c12 <= -1, pw(e) >= 1; }
}

/// a carry of -1 is impossible when the sum is non-negative
pub proof fn lemma_leh_carry_nonneg(lo: int, c: int, e: int, t: int)
    requires lo + c * pw(e) == t, 0 <= lo < pw(e), t >= 0, -1 <= c,
    ensures c >= 0,
{
    if c == -1 { assert(c * pw(e) == -pw(e)) by (nonlinear_arith) requires c == -1; }
}

/// ... and a carry is zero when the sum fits
pub proof fn lemma_leh_carry_is_zero(lo: int, c: int, e: int, t: int)
    requires lo + c * pw(e) == t, 0 <= lo < pw(e), 0 <= t < pw(e),
    ensures c == 0,
{
    lemma_leh_carry_zero(lo, c, pw(e));
}

/// tail: T0 + q*T1 with T0 <= T1 < B^t and 0 <= q < B^n fits n + t words
pub proof fn lemma_leh_tail_fits(T0: int, T1: int, q: int, n: int, t: int)
    requires 0 <= T0 <= T1, T1 < pw(t), 0 <= q < pw(n), n >= 0, t >= 0,
    ensures 0 <= T0 + q * T1 < pw(n + t),
{
    lemma_pw_add(n, t);
    assert(q * T1 >= 0) by (nonlinear_arith) requires q >= 0, T1 >= 0;
    assert(T0 + q * T1 <= (q + 1) * T1) by (nonlinear_arith) requires T0 <= T1;
    assert((q + 1) * T1 <= pw(n) * T1) by (nonlinear_arith) requires q + 1 <= pw(n), T1 >= 0;
    lemma_pw_pos(n);
    if T1 >= 1 {
        assert(pw(n) * T1 < pw(n) * pw(t)) by (nonlinear_arith) requires T1 < pw(t), pw(n) >= 1;
    } else {
        lemma_pw_pos(n + t);
        assert(pw(n) * T1 == 0) by (nonlinear_arith) requires T1 == 0;
    }
}

// ---- the result -------------------------------------------------------------------------------------------------------------------

/// exit `y == 0`: x is the gcd and x == +-(s0*l0 - T0*r0)
pub proof fn lemma_leh_ext_fin0(sw: bool, l0: int, r0: int, s0: int, s1: int, T0: int, T1: int, x: int)
    requires leh_bez(sw, l0, r0, s0, s1, T0, T1, x, 0), leh_same_cd(x, 0, l0, r0), x >= 1, T0 >= 0,
    ensures inplace_gcd_ext_post(l0, r0, x, if sw { Sign::Positive } else { Sign::Negative }, T0),
{
    vstd::arithmetic::div_mod::lemma_mod_self_0(x);
    vstd::arithmetic::div_mod::lemma_small_mod(0, x as nat);
    assert(leh_cd(x, 0, x) == leh_cd(l0, r0, x));
    if sw {
        assert((-s0) * l0 == -(s0 * l0)) by (nonlinear_arith);
        assert(gcdo_bez(-s0, l0, T0, r0) == x);
    } else {
        assert((-T0) * r0 == -(T0 * r0)) by (nonlinear_arith);
        assert(gcdo_bez(s0, l0, -T0, r0) == x);
    }
}

/// tail: (g, cx, cy) = gcd_ext(xw, yw) with xw == x mod yw reduced as in lemma_leh_bez_reduce (Tp = T0 + q*T1, sp = s0 + q*s1):
/// the magnitude bm = |cx|*Tp + |cy|*T1 with the sign chosen by `swapped ^= (cx < 0) || (cx == 0 && cy > 0)` is the cofactor of r0
pub proof fn lemma_leh_ext_fin1(sw: bool, l0: int, r0: int, sp: int, s1: int, Tp: int, T1: int, xw: int, yw: int, x: int, q: int,
    g: int, cx: int, cy: int, acx: int, acy: int)
    requires leh_bez(sw, l0, r0, sp, s1, Tp, T1, xw, yw), leh_same_cd(x, yw, l0, r0), x == q * yw + xw, 0 <= xw < yw,
        leh_prim_gcd_ext_post(xw, yw, g, cx, cy),
        acx == (if cx >= 0 { cx } else { -cx }), acy == (if cy >= 0 { cy } else { -cy }),
        l0 == Tp * yw + T1 * xw, Tp >= T1, T1 >= 1,
    ensures
        inplace_gcd_ext_post(l0, r0, g,
            if sw != ((cx < 0) || (cx == 0 && cy > 0)) { Sign::Positive } else { Sign::Negative }, acx * Tp + acy * T1),
        0 <= acx * Tp + acy * T1 <= l0,
        0 <= acx * Tp <= l0, 0 <= acy * T1,
{
    let f = (cx < 0) || (cx == 0 && cy > 0);
    let bm = acx * Tp + acy * T1;
    // g | x, hence a common divisor of (l0, r0)
    lemma_gcdo_div_comb(g, q, yw, xw);
    assert(leh_cd(x, yw, g) == leh_cd(l0, r0, g));
    // opposite signs
    if xw > 0 {
        assert(cy * yw + cx * xw == g);
        lemma_gcdo_signs(yw, xw, g, cy, cx);
    }
    assert((cx <= 0 && cy >= 0) || (cx >= 0 && cy <= 0));
    // magnitudes
    assert(acx * Tp >= 0) by (nonlinear_arith) requires acx >= 0, Tp >= 1;
    assert(acy * T1 >= 0) by (nonlinear_arith) requires acy >= 0, T1 >= 1;
    if xw > 0 {
        assert(acx * Tp <= yw * Tp) by (nonlinear_arith) requires 0 <= acx <= yw, Tp >= 0;
        assert(acy * T1 <= xw * T1) by (nonlinear_arith) requires 0 <= acy <= xw, T1 >= 0;
        assert(yw * Tp == Tp * yw) by (nonlinear_arith);
        assert(xw * T1 == T1 * xw) by (nonlinear_arith);
    } else {
        assert(acx * Tp == 0) by (nonlinear_arith) requires acx == 0;
        assert(acy * T1 == T1) by (nonlinear_arith) requires acy == 1;
        assert(T1 * xw == 0) by (nonlinear_arith) requires xw == 0;
        assert(Tp * yw >= Tp) by (nonlinear_arith) requires Tp >= 1, yw >= 1;
    }
    // the signed cofactor of r0:  !sw: cy*T1 - cx*Tp,   sw: cx*Tp - cy*T1
    let bb = cy * T1 - cx * Tp;
    if sw {
        assert(cx * xw == cx * (Tp * r0) - cx * (sp * l0)) by (nonlinear_arith) requires xw == Tp * r0 - sp * l0;
        assert(cy * yw == cy * (s1 * l0) - cy * (T1 * r0)) by (nonlinear_arith) requires yw == s1 * l0 - T1 * r0;
    } else {
        assert(cx * xw == cx * (sp * l0) - cx * (Tp * r0)) by (nonlinear_arith) requires xw == sp * l0 - Tp * r0;
        assert(cy * yw == cy * (T1 * r0) - cy * (s1 * l0)) by (nonlinear_arith) requires yw == T1 * r0 - s1 * l0;
    }
    assert((cx * sp - cy * s1) * l0 == cx * (sp * l0) - cy * (s1 * l0)) by (nonlinear_arith);
    assert((cy * s1 - cx * sp) * l0 == cy * (s1 * l0) - cx * (sp * l0)) by (nonlinear_arith);
    assert(bb * r0 == cy * (T1 * r0) - cx * (Tp * r0)) by (nonlinear_arith) requires bb == cy * T1 - cx * Tp;
    assert((-bb) * r0 == -(bb * r0)) by (nonlinear_arith);
    // |bb| == bm, sign(bb) by f
    if f {
        // cx <= 0 <= cy
        assert(cy * T1 == acy * T1) by (nonlinear_arith) requires cy == acy;
        assert(cx * Tp == -(acx * Tp)) by (nonlinear_arith) requires cx == -acx;
        assert(bb == bm);
        if sw { assert(gcdo_bez(cy * s1 - cx * sp, l0, -bm, r0) == g); }
        else { assert(gcdo_bez(cx * sp - cy * s1, l0, bm, r0) == g); }
    } else {
        // cy <= 0 <= cx
        assert(cy * T1 == -(acy * T1)) by (nonlinear_arith) requires cy == -acy;
        assert(cx * Tp == acx * Tp) by (nonlinear_arith) requires cx == acx;
        assert(bb == -bm);
        if sw { assert(gcdo_bez(cy * s1 - cx * sp, l0, bm, r0) == g); }
        else { assert(gcdo_bez(cx * sp - cy * s1, l0, -bm, r0) == g); }
    }
}

/// a common divisor g >= 1 of r0 >= 1 with the normalized words of x holding it: x has at most as many words as r0
pub proof fn lemma_leh_g_len(x: Seq<Word>, g: int, r0: int, nr: int)
    requires x.len() >= 1, x[x.len() - 1] != 0, val(x) == g, g >= 1, r0 >= 1, r0 % g == 0, r0 < pw(nr),
    ensures x.len() <= nr,
{
    lemma_gcdo_div_le(g, r0);
    lemma_gcdo_top_ge(x);
    lemma_leh_pw_lt(x.len() - 1, nr);
}

/// a normalized prefix (len1 words) of smaller-or-equal value is not longer than a prefix holding the larger value
pub proof fn lemma_leh_len_order(s1: Seq<Word>, len1: int, s2: Seq<Word>, len2: int)
    requires 1 <= len1 <= s1.len(), s1[len1 - 1] != 0, leh_zeros_from(s1, len1), 0 <= len2 <= s2.len(), leh_zeros_from(s2, len2),
        val(s1) <= val(s2),
    ensures len1 <= len2,
{
    lemma_leh_norm_ge(s1, len1);
    lemma_leh_val_prefix(s2, len2);
    lemma_valn_bound(s2, len2);
    lemma_leh_pw_lt(len1 - 1, len2);
}

/// unfoldings needed where valn / pw are hidden
pub proof fn lemma_leh_valn0(s: Seq<Word>)
    ensures valn(s, 0) == 0,
{
}
pub proof fn lemma_leh_pw0()
    ensures pw(0) == 1, pw(1) == B(),
{
    assert(pw(1) == B() * pw(0));
}
