// ---- dc2_lemmas_rem.rs: C13 form of the rem_* results of the single- / double-word ConstDivisor. Needs lib/dc2_lemmas.rs, lib/div_const_lemmas.rs

/// C13 form of the rem_* results: (x << shift) mod (d << shift) is (x mod d) << shift, a residue of [0, d) scaled by the shift
pub proof fn lemma_dc2_scaled(x: int, o: int, p: int, dn: int)
    requires x >= 0, p >= 1, dn > 0, dn % p == 0, o == dn / p,
    ensures (x * p) % dn == (x % o) * p, 0 <= x % o < o, o >= 1,
{
    let rs = (x * p) % dn;
    lemma_dc_rem_unshift(x, o, p, dn, rs);
    lemma_dc2_unique_r(x, o, rs / p);
    vstd::arithmetic::div_mod::lemma_fundamental_div_mod(rs, p);
    assert(p * (rs / p) == (rs / p) * p) by (nonlinear_arith);
}
