// ---- mem_gcd_stubs.rs: lib/gcdo_ops_stubs.rs (vocabulary + trusted stubs of the gcd units: gcdo_is_gcd, cmp::cmp_in_place, lemmas)
// WITHOUT its opaque Layout / MemoryAllocation / Memory / memory::* stubs and without `mod gcd_lehmer_stub` (which names the
// opaque Layout): the int_memsize_gcd* units use the capacity-tracking lib/mem_model.rs instead.  Derived mechanically
// (two regions cut out, nothing else changed); keep in step with gcdo_ops_stubs.rs.  Word = @W@ --
// Needs lib/prelude.rs, lib/sign.rs, lib/gcdo_stubs.rs, lib/repr_stubs.rs.

pub use repr_stub::large_wf;

/// C12, at the representation level: g = gcd(x, y) (a positive common divisor that is an integer combination of x and
/// y, hence the greatest one) and s*x + t*y == g
pub open spec fn repr_gcd_ext_post(x: int, y: int, g: int, s: int, t: int) -> bool {
    &&& g >= 1
    &&& x % g == 0
    &&& y % g == 0
    &&& s * x + t * y == g
}

/// a `Large` magnitude is at least B^(n-1) >= 1
pub proof fn lemma_gcdo_top_ge(s: Seq<Word>)
    requires s.len() >= 1, s[s.len() - 1] != 0,
    ensures val(s) >= pw(s.len() - 1), val(s) >= 1,
{
    let k = s.len() as int;
    lemma_valn_bound(s, k - 1);
    lemma_pw_pos(k - 1);
    assert((s[k - 1] as int) * pw(k - 1) >= pw(k - 1)) by (nonlinear_arith) requires s[k - 1] as int >= 1, pw(k - 1) >= 1;
}

pub proof fn lemma_gcdo_bezout_swap(x: int, y: int, g: int, s: int, t: int)
    requires repr_gcd_ext_post(x, y, g, s, t),
    ensures repr_gcd_ext_post(y, x, g, t, s),
{
}

/// the signed cofactor assembled by the callers of gcd_ext_word / gcd_ext_dword: b = +bm or -bm
pub proof fn lemma_gcdo_assemble(l: int, x: int, g: int, a: int, bs: Sign, bm: int)
    requires small_gcd_ext_post(l, x, g, a, bs, bm),
    ensures bs == Sign::Positive ==> repr_gcd_ext_post(l, x, g, a, bm),
        bs == Sign::Negative ==> repr_gcd_ext_post(l, x, g, a, -bm),
{
    assert((-bm) * x == -(bm * x)) by (nonlinear_arith);
}

/// precondition of gcd_ext on two `Large` operands (besides large_wf): a resource bound only (room for the top quotient
/// word of the cofactor).  (Until the fix of gcd_ext_large -- residue buffer at least as long as the divisor -- this
/// predicate also had to exclude the case "the smaller operand divides the larger one and is more than two words shorter",
/// where div::div_rem_in_place panicked, e.g. gcd_ext(2^320, 2^128).)
pub open spec fn gcd_ext_large_pre(ls: Seq<Word>, rs: Seq<Word>) -> bool {
    &&& ls.len() + 1 < max_capacity()
    &&& rs.len() + 1 < max_capacity()
}

/// value of a sequence whose words from k on are zero
pub proof fn lemma_val_prefix(s: Seq<Word>, k: int)
    requires 0 <= k <= s.len(), forall|j: int| k <= j < s.len() ==> s[j] == 0,
    ensures val(s) == val(s.subrange(0, k)),
{
    lemma_valn_zero(s, k, s.len() as int);
    lemma_valn_ext(s, s.subrange(0, k), k);
}

pub open spec fn gcdo_bez(a: int, l: int, b: int, r: int) -> int { a * l + b * r }

/// C12 as the in-place Lehmer routines deliver it: g is a positive common divisor of l and r that is an integer
/// combination a*l + b*r for SOME a, with the given b = +bm / -bm
pub open spec fn inplace_gcd_ext_post(l: int, r: int, g: int, bs: Sign, bm: int) -> bool {
    &&& g >= 1
    &&& l % g == 0
    &&& r % g == 0
    &&& bm >= 0
    &&& (bs == Sign::Positive ==> exists|a: int| #[trigger] gcdo_bez(a, l, bm, r) == g)
    &&& (bs == Sign::Negative ==> exists|a: int| #[trigger] gcdo_bez(a, l, -bm, r) == g)
}

/// d is the greatest common divisor of x and y, by divisibility
pub open spec fn gcdo_is_gcd(g: int, x: int, y: int) -> bool {
    &&& g >= 1
    &&& x % g == 0
    &&& y % g == 0
    &&& forall|d: int| d >= 1 && #[trigger] (x % d) == 0 && y % d == 0 ==> g % d == 0
}

pub mod cmp {
use super::*;
/// integer/src/cmp.rs:20 cmp_in_place -- TRUSTED (the comparison kernels belong to C05: Kani group there): numeric
/// comparison of two normalized word sequences: lengths first, then cmp_same_len from the top word down.
#[verifier::external_body]
pub fn cmp_in_place(lhs: &[Word], rhs: &[Word]) -> (ret: Ordering)
    requires lhs@.len() >= 1, rhs@.len() >= 1, lhs@[lhs@.len() - 1] != 0, rhs@[rhs@.len() - 1] != 0,   // own debug assertion
    ensures (ret == Ordering::Equal) == (val(lhs@) == val(rhs@)),
        (ret == Ordering::Less) == (val(lhs@) < val(rhs@)),
        (ret == Ordering::Greater) == (val(lhs@) > val(rhs@)),
        ret == Ordering::Less ==> lhs@.len() <= rhs@.len(),
        ret == Ordering::Greater ==> lhs@.len() >= rhs@.len(),
        ret == Ordering::Equal ==> lhs@ == rhs@,
{ unimplemented!() }
}

// ---- lemmas for gcd_ext_large ---------------------------------------------------------------------------------------

/// x < B^p, y < B^q, g <= x  ==>  x*y + g < B^(p+q)   (the sum |b|*rhs + g never leaves the product's words)
pub proof fn lemma_gcdo_prod_room(x: int, y: int, g: int, p: int, q: int)
    requires 0 <= x < pw(p), 0 <= y < pw(q), 0 <= g <= x, p >= 0, q >= 0,
    ensures 0 <= x * y, x * y + g < pw(p + q),
{
    lemma_pw_add(p, q);
    lemma_pw_pos(p); lemma_pw_pos(q);
    let bp = pw(p); let bq = pw(q);
    assert(x * y >= 0) by (nonlinear_arith) requires x >= 0, y >= 0;
    if y == 0 {
        assert(x * y == 0) by (nonlinear_arith) requires y == 0;
        assert(bp * bq >= bp) by (nonlinear_arith) requires bp >= 1, bq >= 1;
    } else {
        assert(x * y <= x * (bq - 1)) by (nonlinear_arith) requires x >= 0, y <= bq - 1;
        assert(x * (bq - 1) + x == x * bq) by (nonlinear_arith);
        assert(x * bq < bp * bq) by (nonlinear_arith) requires x < bp, bq >= 1;
    }
}

/// value below B^(n-1)  ==>  top word zero
pub proof fn lemma_gcdo_top_zero(s: Seq<Word>)
    requires s.len() >= 1, val(s) < pw(s.len() - 1),
    ensures s[s.len() - 1] == 0,
{
    let n = s.len() as int;
    lemma_valn_bound(s, n - 1);
    lemma_pw_pos(n - 1);
    if s[n - 1] != 0 {
        assert((s[n - 1] as int) * pw(n - 1) >= pw(n - 1)) by (nonlinear_arith) requires s[n - 1] as int >= 1, pw(n - 1) >= 1;
    }
}

/// value zero ==> lowest word zero
pub proof fn lemma_gcdo_low_zero(s: Seq<Word>, n: int)
    requires 1 <= n <= s.len(), valn(s, n) == 0,
    ensures s[0] == 0,
    decreases n
{
    lemma_valn_bound(s, n - 1);
    lemma_pw_pos(n - 1);
    assert((s[n - 1] as int) * pw(n - 1) >= 0) by (nonlinear_arith) requires s[n - 1] as int >= 0, pw(n - 1) >= 1;
    if n == 1 {
        assert(pw(0) == 1);
        assert((s[0] as int) * pw(0) == s[0] as int) by (nonlinear_arith) requires pw(0) == 1;
    } else {
        lemma_gcdo_low_zero(s, n - 1);
    }
}

pub proof fn lemma_gcdo_low_zero_val(s: Seq<Word>)
    requires s.len() >= 1, val(s) == 0,
    ensures s[0] == 0,
{
    lemma_gcdo_low_zero(s, s.len() as int);
}

/// m*D == Q*D + r with 0 <= r < D: the division is exact
pub proof fn lemma_gcdo_exact_quot(m: int, q: int, d: int, r: int)
    requires m * d == q * d + r, 0 <= r < d,
    ensures m == q, r == 0,
{
    assert((m - q) * d == r) by (nonlinear_arith) requires m * d == q * d + r;
    assert(m == q) by (nonlinear_arith) requires (m - q) * d == r, 0 <= r < d;
    assert(r == 0) by (nonlinear_arith) requires (m - q) * d == r, m == q;
}

/// the residue |b|*R -/+ g is a non-negative multiple m*L of L; reading off the cofactor of L
///   b < 0:  res == bm*R + g,  a == m;      b > 0:  res == bm*R - g >= 0,  a == -m
pub proof fn lemma_gcdo_residue(l: int, r: int, g: int, bs: Sign, bm: int) -> (m: int)
    requires inplace_gcd_ext_post(l, r, g, bs, bm), l > r, r >= 1,
    ensures m >= 0,
        bs == Sign::Negative ==> m * l == bm * r + g && repr_gcd_ext_post(l, r, g, m, -bm),
        bs == Sign::Positive ==> m * l == bm * r - g && bm * r >= g && repr_gcd_ext_post(l, r, g, -m, bm),
{
    lemma_gcdo_div_le(g, r);
    assert(bm * r >= 0) by (nonlinear_arith) requires bm >= 0, r >= 1;
    if bs == Sign::Negative {
        let a = choose|a: int| #[trigger] gcdo_bez(a, l, -bm, r) == g;
        assert((-bm) * r == -(bm * r)) by (nonlinear_arith);
        assert(a * l == bm * r + g);
        assert(a >= 0) by (nonlinear_arith) requires a * l >= 1, l >= 1;
        a
    } else {
        let a = choose|a: int| #[trigger] gcdo_bez(a, l, bm, r) == g;
        assert(a * l == g - bm * r);
        if a >= 1 {
            assert(a * l >= l) by (nonlinear_arith) requires a >= 1, l >= 1;
        }
        assert((-a) * l == -(a * l)) by (nonlinear_arith);
        assert((-(-a)) * l == a * l);
        if bm * r < g {
            assert(a * l >= 1);
            assert(a >= 1) by (nonlinear_arith) requires a * l >= 1, l >= 1;
        }
        -a
    }
}

/// (HISTORICAL, no longer used by the proof of gcd_ext_large: it characterised the defect region repaired by proposed_fixes/G1)
/// the residue buffer (rhs_len + b_len + 1 words) is at least as long as lhs unless rhs divides lhs and lhs is more
/// than two words longer (the region of the known defect: there the real code trips an assertion of the division)
pub proof fn lemma_gcdo_residue_len(l: int, r: int, g: int, bm: int, m: int, sgn_pos: bool, ll: int, rl: int, bl: int)
    requires l >= pw(ll - 1), ll >= 1, 0 <= r < pw(rl), rl >= 1, 1 <= g <= r, 0 <= bm < pw(bl), bl >= 0, m >= 0,
        l % g == 0,
        (sgn_pos && m * l == bm * r - g) || (!sgn_pos && m * l == bm * r + g),
        l % r != 0 || ll <= rl + 2,
    ensures ll <= rl + bl + 1,
{
    if ll > rl + bl + 1 {
        lemma_gcdo_prod_room(r, bm, g, rl, bl);
        lemma_pw_mono(rl + bl, ll - 2);
        lemma_pw_mono(rl, ll - 2);
        assert(pw(ll - 1) == B() * pw(ll - 2));
        lemma_pw_pos(ll - 2);
        assert(B() * pw(ll - 2) >= 2 * pw(ll - 2)) by (nonlinear_arith) requires pw(ll - 2) >= 1, B() >= 2;
        assert(r * bm == bm * r) by (nonlinear_arith);
        // m*l <= bm*r + g < 2*B^(ll-2) <= l
        assert(m == 0) by (nonlinear_arith) requires m >= 0, m * l < l, l >= 1;
        assert(m * l == 0) by (nonlinear_arith) requires m == 0;
        // hence bm*r == g (positive sign), i.e. bm == 1 and r == g
        assert(sgn_pos);
        assert(bm >= 1) by (nonlinear_arith) requires bm * r == g, g >= 1, bm >= 0;
        assert(bm == 1) by (nonlinear_arith) requires bm * r == g, g <= r, bm >= 1, r >= 1;
        assert(bm * r == r) by (nonlinear_arith) requires bm == 1;
        assert(bl >= 1) by { if bl == 0 { assert(pw(0) == 1); } }
    }
}

/// val(ra) + c*B^(n+1) == x < B^n (n+1 words): no carry and the top word is zero
pub proof fn lemma_gcdo_carry_top(ra: Seq<Word>, c: bool, x: int)
    requires ra.len() >= 1, val(ra) + b2i(c) * pw(ra.len() as int) == x, 0 <= x < pw(ra.len() - 1),
    ensures !c, ra[ra.len() - 1] == 0, val(ra) == x,
{
    let n1 = ra.len() as int;
    lemma_valn_bound(ra, n1);
    lemma_pw_pos(n1 - 1);
    assert(pw(n1) == B() * pw(n1 - 1));
    assert(B() * pw(n1 - 1) >= pw(n1 - 1)) by (nonlinear_arith) requires pw(n1 - 1) >= 1, B() >= 1;
    if c { assert(b2i(c) * pw(n1) == pw(n1)) by (nonlinear_arith) requires b2i(c) == 1; }
    else { assert(b2i(c) * pw(n1) == 0) by (nonlinear_arith) requires b2i(c) == 0; }
    lemma_gcdo_top_zero(ra);
}

/// the exact division of the residue m*l by the normalized l*p:  (m*l)*p == q*(l*p) + rem, rem < l*p  ==>  q == m, rem == 0
pub proof fn lemma_gcdo_divide(m: int, l: int, p: int, vres: int, vd: int, qhi: int, ov: int, pk: int, rem: int)
    requires vres == m * l, vd == l * p, vres * p == (qhi + ov * pk) * vd + rem, 0 <= rem < vd,
    ensures m == qhi + ov * pk, rem == 0,
{
    assert((m * l) * p == m * (l * p)) by (nonlinear_arith);
    lemma_gcdo_exact_quot(m, qhi + ov * pk, vd, rem);
}

/// `*residue.last_mut().unwrap() = add_in_place(residue, g) as Word`: the words `ra` after the addition (carry c out of
/// all n+1 words) and the final words `fin` = ra.update(k, w) (top word overwritten by w = c as Word);  the update term is
/// passed separately to serve as the (rare) trigger
pub open spec fn gcdo_mid_state(u: Seq<Word>, ra: Seq<Word>, k: int, w: Word, fin: Seq<Word>, n: int, x: int, pn1: int) -> bool {
    &&& u == fin
    &&& k == n
    &&& ra.len() == n + 1
    &&& ((val(ra) == x && w == 0) || (val(ra) != x && val(ra) + pn1 == x && w == 1))
}

// ---- gcd (no cofactors) ---------------------------------------------------------------------------------------------
// TRUSTED: dashu_base::Gcd::gcd for Word / DoubleWord (base/src/ring/gcd.rs, one macro body for every width): the
// definition of the greatest common divisor by divisibility, PROVED for the u8 instance by the complete Kani harness
// vk_base_gcd_gcd_u8 (kani/harness/base_gcd.rs), ASSUMED for the wider ones; gcd(0, 0) panics: precondition.
pub trait Gcd<Rhs = Self>: Sized {
    type Output;
    spec fn gcd_req(self, rhs: Rhs) -> bool;
    spec fn gcd_post(self, rhs: Rhs, r: Self::Output) -> bool;
    fn gcd(self, rhs: Rhs) -> (r: Self::Output)
        requires self.gcd_req(rhs),
        ensures self.gcd_post(rhs, r);
}
impl Gcd for Word {
    type Output = Word;
    open spec fn gcd_req(self, rhs: Word) -> bool { self != 0 || rhs != 0 }
    open spec fn gcd_post(self, rhs: Word, r: Word) -> bool { gcdo_is_gcd(r as int, self as int, rhs as int) }
    #[verifier::external_body]
    fn gcd(self, rhs: Word) -> (r: Word) { unimplemented!() }
}
impl Gcd for DoubleWord {
    type Output = DoubleWord;
    open spec fn gcd_req(self, rhs: DoubleWord) -> bool { self != 0 || rhs != 0 }
    open spec fn gcd_post(self, rhs: DoubleWord, r: DoubleWord) -> bool { gcdo_is_gcd(r as int, self as int, rhs as int) }
    #[verifier::external_body]
    fn gcd(self, rhs: DoubleWord) -> (r: DoubleWord) { unimplemented!() }
}

/// gcd(l, 0) == l and gcd(l, l) == l
pub proof fn lemma_gcdo_gcd_zero(l: int)
    requires l >= 1,
    ensures gcdo_is_gcd(l, l, 0),
{
    vstd::arithmetic::div_mod::lemma_mod_self_0(l);
    vstd::arithmetic::div_mod::lemma_small_mod(0, l as nat);
}
pub proof fn lemma_gcdo_gcd_self(l: int)
    requires l >= 1,
    ensures gcdo_is_gcd(l, l, l),
{
    vstd::arithmetic::div_mod::lemma_mod_self_0(l);
}

pub proof fn lemma_gcdo_gcd_sym(g: int, x: int, y: int)
    requires gcdo_is_gcd(g, x, y),
    ensures gcdo_is_gcd(g, y, x),
{
    assert forall|d: int| d >= 1 && #[trigger] (y % d) == 0 && x % d == 0 implies g % d == 0 by {
        assert(x % d == 0);
    }
}

/// d | l and d | w  ==>  d | (l mod w)
pub proof fn lemma_gcdo_rem_div(d: int, l: int, w: int)
    requires d >= 1, w >= 1, l % d == 0, w % d == 0,
    ensures (l % w) % d == 0,
{
    let q = l / w;
    vstd::arithmetic::div_mod::lemma_fundamental_div_mod(l, w);
    // l % w == (-q)*w + l
    assert(l % w == (-q) * w + l) by (nonlinear_arith) requires l == w * q + l % w;
    lemma_gcdo_div_comb(d, -q, w, l);
}

/// gcd(l, w) from the remainder:  l mod w == 0 ==> w;   otherwise every gcd of (l mod w, w) is one of (l, w)
pub proof fn lemma_gcdo_gcd_rem(l: int, w: int)
    requires l >= 0, w >= 1,
    ensures l % w == 0 ==> gcdo_is_gcd(w, l, w),
        forall|g: int| #[trigger] gcdo_is_gcd(g, l % w, w) ==> gcdo_is_gcd(g, l, w),
{
    vstd::arithmetic::div_mod::lemma_mod_self_0(w);
    assert forall|g: int| #[trigger] gcdo_is_gcd(g, l % w, w) implies gcdo_is_gcd(g, l, w) by {
        let q = l / w;
        vstd::arithmetic::div_mod::lemma_fundamental_div_mod(l, w);
        assert(w * q == q * w) by (nonlinear_arith);
        lemma_gcdo_div_comb(g, q, w, l % w);
        assert forall|d: int| d >= 1 && #[trigger] (l % d) == 0 && w % d == 0 implies g % d == 0 by {
            lemma_gcdo_rem_div(d, l, w);
            assert((l % w) % d == 0);
        }
    }
}
