// ---- farith_sqrt_lemmas.rs: stubs, specification and lemmas of the float square root unit (float/src/root.rs).
// Needs round_prelude.rs, round_int_stubs.rs, round_float_repr.rs, conv_fbig_stubs.rs, farith_repr_stubs.rs, farith_lemmas.rs.

// ---- TRUSTED stubs
impl UBig {
    /// dashu_base::SquareRootRem for UBig (integer/src/root_ops.rs): "(s, r) with s*s + r == n and 0 <= r <= 2s"
    /// (C12 lower layer; integer/src/root.rs sqrt_rem)
    #[verifier::external_body]
    pub fn sqrt_rem(&self) -> (r: (UBig, UBig))
        ensures r.0.v() * r.0.v() + r.1.v() == self.v(), 0 <= r.1.v(), r.1.v() <= 2 * r.0.v(), r.0.v() >= 0
    { unimplemented!() }
    #[verifier::external_body]
    pub fn is_zero(&self) -> (r: bool) ensures r == (self.v() == 0) { unimplemented!() }
}
// integer/src/sign.rs `impl Mul<UBig> for Sign`: IBig with that sign and magnitude
impl Mul<UBig> for Sign { type Output = IBig; #[verifier::external_body] fn mul(self, rhs: UBig) -> IBig { unimplemented!() } }
impl MulSpecImpl<UBig> for Sign {
    open spec fn obeys_mul_spec() -> bool { true }
    open spec fn mul_req(self, rhs: UBig) -> bool { true }
    open spec fn mul_spec(self, rhs: UBig) -> IBig { ibig_of(match self { Sign::Positive => rhs.v(), Sign::Negative => -rhs.v() }) }
}
// integer/src/mul_ops.rs (impl_binop_with_primitive): IBig * u8, value-exact
impl Mul<u8> for IBig { type Output = IBig; #[verifier::external_body] fn mul(self, rhs: u8) -> IBig { unimplemented!() } }
impl MulSpecImpl<u8> for IBig {
    open spec fn obeys_mul_spec() -> bool { true }
    open spec fn mul_req(self, rhs: u8) -> bool { true }
    open spec fn mul_spec(self, rhs: u8) -> IBig { ibig_of(self.v() * (rhs as int)) }
}
impl<const B: Word> Repr<B> {
    /// float/src/repr.rs `pub const BASE: UBig = UBig::from_word(B);`
    #[verifier::external_body]
    pub const BASE: UBig = UBig { _p: 0 };
}
pub broadcast axiom fn ax_repr_base<const B: Word>() ensures #[trigger] Repr::<B>::BASE.v() == B as int;
// core: Ordering::then_with runs the closure only on Equal and returns its result
pub assume_specification<F: FnOnce() -> Ordering> [Ordering::then_with] (o: Ordering, f: F) -> (r: Ordering)
    requires o == Ordering::Equal ==> f.requires(()),
    ensures o != Ordering::Equal ==> r == o, o == Ordering::Equal ==> f.ensures((), r);
/// base/src/approx.rs `Approximation::and_then` as a spec function
pub open spec fn and_then_spec<T, U, E>(s: Approximation<T, E>, o: Approximation<U, E>) -> Approximation<U, E> {
    match s {
        Approximation::Exact(_) => o,
        Approximation::Inexact(_, e) => match o {
            Approximation::Exact(v2) => Approximation::Inexact(v2, e),
            Approximation::Inexact(v2, e2) => Approximation::Inexact(v2, e2),
        },
    }
}
// the trait method `Round::round_low_part` is declared in the unit template through lib/round_trait_decl.rs

// ---- specification
/// the integer r >= 0 is the rounding under mode m of the real number sqrt(V), V >= 0 an integer.  (For an integer V the
/// root is never exactly half-way between two integers, so the two Half modes coincide and need no tie rule.)
pub open spec fn sqrt_round_def(m: Mode, V: int, r: int) -> bool {
    r >= 0 && match m {
        Mode::Zero | Mode::Down => r * r <= V && V < (r + 1) * (r + 1),
        Mode::Up | Mode::Away => V <= r * r && (r == 0 || (r - 1) * (r - 1) < V),
        Mode::HalfEven | Mode::HalfAway => r * r - r < V && V <= r * r + r || (V == 0 && r == 0),
    }
}
/// x = S * b^E  is written as  V * b^(2e)  with  b^(2p-2) <= V < b^(2p):  then  b^(p-1) <= sqrt(V) < b^p,  the unit in the
/// last place of sqrt(x) at precision p is b^e, and rounding sqrt(x) to p digits is rounding sqrt(V) to an integer
pub open spec fn sqrt_frame(b: int, p: nat, S: int, E: int, V: int, e: int) -> bool {
    same_value(b, V, 2 * e, S, E) && p >= 1 && ipow(b, (2 * p - 2) as nat) <= V && V < ipow(b, 2 * p)
}
/// C03 for sqrt: `ret` is ONE correct rounding to p digits of the real square root of x = S * b^E > 0
pub open spec fn sqrt_post<const B: Word>(m: Mode, b: int, p: nat, S: int, E: int, ret: Rounded<Repr<B>>) -> bool {
    exists|V: int, e: int, mm: int| #[trigger] sqrt_frame(b, p, S, E, V, e) && #[trigger] sqrt_round_def(m, V, mm) && match ret {
        // flagged Exact exactly when the result IS the root
        Approximation::Exact(r) => mm * mm == V && same_value(b, r.significand.v(), r.exponent as int, mm, e),
        // otherwise the neighbour prescribed by the mode, error < 1 ulp (<= 1/2 ulp for the Half modes); AddOne: r > sqrt(x),
        // NoOp: r < sqrt(x); never SubOne; at most p digits, or exactly b^p
        Approximation::Inexact(r, adj) => mm * mm != V && same_value(b, r.significand.v(), r.exponent as int, mm, e)
            && (adj == Rounding::AddOne ==> mm * mm > V) && (adj == Rounding::NoOp ==> mm * mm < V) && adj != Rounding::SubOne,
    }
}

// ---- lemmas
/// the lowest bit of a ^ b tells whether a and b differ in parity
pub proof fn lemma_xor1(a: isize, c: isize)
    ensures ((a ^ c) & 1) == 0 || ((a ^ c) & 1) == 1,
        (((a ^ c) & 1) == 1) == (((a as int) % 2 != 0) != ((c as int) % 2 != 0)),
{
    assert(((a ^ c) & 1) == 0 || ((a ^ c) & 1) == 1) by (bit_vector);
    assert((((a ^ c) & 1) == 1) == ((a % 2 != 0) != (c % 2 != 0))) by (bit_vector);
}
pub proof fn lemma_and1(i: isize)
    ensures (i & 1) == 0 || (i & 1) == 1, ((i & 1) == 1) == ((i as int) % 2 != 0)
{
    assert((i & 1) == 0 || (i & 1) == 1) by (bit_vector);
    assert(((i & 1) == 1) == (i % 2 != 0)) by (bit_vector);
}
/// first stage: the answer of round_low_part for the remainder test is the rounding of the real root
pub proof fn lemma_sqrt_stage(m: Mode, root: int, rem: int, o: Ordering, adj: Rounding)
    requires root >= 0, 0 < rem, rem <= 2 * root,
        o == (if rem <= root { Ordering::Less } else { Ordering::Greater }),
        mode_ok(m, root, Sign::Positive, o, adj),
    ensures sqrt_round_def(m, root * root + rem, root + adj_int(adj)), adj != Rounding::SubOne,
        adj == Rounding::AddOne ==> (root + 1) * (root + 1) > root * root + rem,
{
    let r1 = root + 1;
    assert(r1 * r1 == root * root + 2 * root + 1) by (nonlinear_arith) requires r1 == root + 1;
    let r0 = root - 1;
    assert(r0 * r0 == root * root - 2 * root + 1) by (nonlinear_arith) requires r0 == root - 1;
    let r2 = root + 2;
    assert(r2 * r2 == root * root + 4 * root + 4) by (nonlinear_arith) requires r2 == root + 2;
    let a = adj_int(adj);
    assert((root + a) * 4 == 4 * root + 4 * a);
}
/// b^(2p-2) <= V < b^(2p)  and  root^2 <= V < (root+1)^2  ==>  b^(p-1) <= root < b^p
pub proof fn lemma_root_digits(b: int, p: nat, V: int, root: int)
    requires b >= 2, p >= 1, root >= 0, root * root <= V, V < (root + 1) * (root + 1),
        ipow(b, (2 * p - 2) as nat) <= V, V < ipow(b, 2 * p)
    ensures ipow(b, (p - 1) as nat) <= root, root < ipow(b, p)
{
    let lo = ipow(b, (p - 1) as nat);
    let hi = ipow(b, p);
    lemma_ipow_pos(b, (p - 1) as nat);
    lemma_ipow_pos(b, p);
    lemma_ipow_add(b, (p - 1) as nat, (p - 1) as nat);
    lemma_ipow_add(b, p, p);
    assert(((p - 1) as nat + (p - 1) as nat) as nat == (2 * p - 2) as nat);
    assert(p + p == 2 * p);
    if root >= hi {
        assert(root * root >= hi * hi) by (nonlinear_arith) requires root >= hi, hi >= 1;
    }
    if root < lo {
        let r1 = root + 1;
        assert(r1 * r1 <= lo * lo) by (nonlinear_arith) requires r1 <= lo, r1 >= 1, r1 == root + 1;
    }
}
/// the normalized representation of mm * b^e with |mm| <= b^p has at most p digits
pub proof fn lemma_norm_fits(b: int, p: nat, mm: int, e: int, s1: int, e1: int)
    requires b >= 2, p >= 1, norm_of(b, mm, e, s1, e1), 0 <= mm, mm <= ipow(b, p)
    ensures ndigits(b, s1) <= p
{
    broadcast use ax_ndigits;
    lemma_norm_of(b, mm, e, s1, e1);
    if mm < ipow(b, p) {
        lemma_ndigits_le(b, mm, p);
    } else if s1 != 0 {
        // mm == b^p: the normalized significand is 1
        let k = (e1 - e) as nat;
        let u = ipow(b, k);
        lemma_ipow_pos(b, k);
        assert(ipow(b, 0) == 1);
        if k == 0 { assert(s1 == mm * 1); assert(s1 * 1 == s1); assert(mm * 1 == mm); }
        assert(mm == s1 * u);
        if k < p {
            lemma_ipow_add(b, (p - k) as nat, k);
            assert(((p - k) as nat + k) as nat == p);
            let w = ipow(b, (p - k) as nat);
            assert(s1 == w) by (nonlinear_arith) requires s1 * u == w * u, u >= 1;
            lemma_shift_divisible(b, 1, (p - k) as nat);
            assert(1 * w == w);
        } else {
            lemma_ipow_mono(b, p, k);
            let hp = ipow(b, p);
            lemma_ipow_pos(b, p);
            assert(s1 >= 1) by (nonlinear_arith) requires s1 * u == hp, u >= 1, hp >= 1;
            assert(s1 == 1) by (nonlinear_arith) requires s1 * u == hp, u >= hp, hp >= 1, s1 >= 1;
            assert(ipow(b, 0) == 1);
            lemma_ipow_strict(b, 0, 1);
            lemma_ndigits_le(b, 1, 1);
        }
    }
}
/// `Repr::new(mm, e)` followed by `repr_round` inside one call chain (the intermediate repr cannot be named): any
/// normalized representation of mm * b^e with 0 <= mm <= b^p is finite, in range, and fits p digits
pub proof fn lemma_new_fits(b: int, p: nat, mm: int, e: int)
    requires b >= 2, p >= 1, 0 <= mm, mm <= ipow(b, p), e + p + 1 <= isize::MAX, p + 1 <= isize::MAX, pos_room(p as int)
    ensures
        // resource limits of `Repr::new(mm, e)` and of the `repr_round` that follows
        exp_room(e, ndigits(b, mm) as int),
        forall|s1: int, e1: int| #[trigger] same_value(b, s1, e1, mm, e) && (s1 == 0 || s1 % b != 0) && (mm == 0 ==> s1 == 0 && e1 == 0)
            ==> !(s1 == 0 && e1 != 0) && e1 + ndigits(b, s1) <= isize::MAX && ndigits(b, s1) <= isize::MAX && ndigits(b, s1) <= p
                && pos_room(ndigits(b, s1) as int),
{
    broadcast use ax_ndigits;
    lemma_ndigits_le_pow(b, mm, p);
    assert forall|s1: int, e1: int| #[trigger] same_value(b, s1, e1, mm, e) && (s1 == 0 || s1 % b != 0) && (mm == 0 ==> s1 == 0 && e1 == 0)
        implies !(s1 == 0 && e1 != 0) && e1 + ndigits(b, s1) <= isize::MAX && ndigits(b, s1) <= isize::MAX && ndigits(b, s1) <= p
            && pos_room(ndigits(b, s1) as int) by {
        assert(norm_of(b, mm, e, s1, e1));
        lemma_norm_of(b, mm, e, s1, e1);
        lemma_norm_fits(b, p, mm, e, s1, e1);
        assert(ipow(b, p + 1) == b * ipow(b, p));
        lemma_ipow_pos(b, p);
        let hp = ipow(b, p);
        assert(b * hp > hp) by (nonlinear_arith) requires b >= 2, hp >= 1;
        lemma_ndigits_le(b, mm, p + 1);
    }
}
/// a perfect square is its own rounding under every mode
pub proof fn lemma_sqrt_exact(m: Mode, root: int)
    requires root >= 1
    ensures sqrt_round_def(m, root * root, root)
{
    let r1 = root + 1;
    assert(r1 * r1 == root * root + 2 * root + 1) by (nonlinear_arith) requires r1 == root + 1;
    let r0 = root - 1;
    assert(r0 * r0 == root * root - 2 * root + 1) by (nonlinear_arith) requires r0 == root - 1;
}
