// ---- fmtl_stubs.rs: what integer/src/fmt/non_power_two.rs `PreparedLarge` sees of the big-integer layer, and the
// specification vocabulary of the divide-and-conquer printer (C07).
// Needs lib/prelude.rs, lib/div_word_stubs.rs, lib/codecs_fmt_stubs.rs (Repr, TypedReprRef, PreparedLarge mirrors, ipow,
// level_digits, chunks_digits), lib/codecs_digit_lemmas.rs (dval, digits_ok, medium_value), lib/codecs_writer_stub.rs.
//
// TRUSTED here (every `external_body`): the value-level contracts of the Repr / TypedRepr / TypedReprRef operations that
// PreparedLarge calls.  They state what the REAL methods do on the mathematical value `v()`:
//   Repr::from_word (repr.rs:265), Repr::len (repr.rs:84-95), Repr::as_typed (repr.rs:145-155), Repr::into_typed
//   (repr.rs:186-202), `TypedReprRef > / >=` (cmp.rs:34-51, over cmp_in_place PROVED in unit int_cmp),
//   `div_rem` of TypedReprRef / TypedRepr by TypedReprRef (div_ops.rs:346-384: a pure dispatch over div_rem_dword /
//   div_rem_large_dword / div_rem_large, which are PROVED in unit int_div_ops with exactly this postcondition
//   `a == q*b + r, 0 <= r < b`), core::mem::take on a Vec.
// `TypedReprRef::pow` and `TypedReprRef::sqr` are NOT restated here: the units take their contracts by `//@@ SIG` from
// the annotated copies that units int_pow / int_mul_ops prove (integer/pow/typedref_pow.rs, integer/mul_ops/typedref_sqr.rs).

pub mod fmtl_repr {
use super::*;
use vstd::std_specs::cmp::{PartialOrdSpecImpl, PartialEqSpecImpl};
use core::cmp::Ordering;

/// buffer.rs:48  `pub const MAX_CAPACITY: usize = usize::MAX / WORD_BITS_USIZE;`
pub open spec fn max_capacity() -> int { (usize::MAX as int) / @BITS@ }

/// number of base-B digits (words) of v: 0 for 0, otherwise the n with B^(n-1) <= v < B^n (lemma_fl_wl)
pub open spec fn wl(v: int) -> int
    decreases v
{
    if v <= 0 { 0 } else { 1 + wl(v / B()) }
}

/// what TypedReprRef::len returns (repr.rs:594-607, contract proved in unit int_fmt_dispatch)
pub open spec fn tlen(t: TypedReprRef) -> int {
    match t {
        TypedReprRef::RefSmall(d) => if d == 0 { 0 } else if (d as int) < B() { 1 } else { 2 },
        TypedReprRef::RefLarge(w) => w@.len() as int,
    }
}

impl Repr {
    /// the mathematical value (every Repr in the printer is a magnitude: non-negative)
    pub uninterp spec fn v(&self) -> int;

    // repr.rs:265-272
    #[verifier::external_body]
    pub fn from_word(n: Word) -> (r: Repr) ensures r.v() == n as int { unimplemented!() }

    // repr.rs:84-95: 0 for zero, 1 / 2 for the inline forms (top word non-zero), heap length otherwise (normalized:
    // top word non-zero, repr.rs:36-49): the number of words of the magnitude
    #[verifier::external_body]
    pub fn len(&self) -> (r: usize)
        requires self.v() >= 0,
        ensures r as int == wl(self.v()), r as int <= max_capacity(),
    { unimplemented!() }

    // repr.rs:145-155 (`unreachable!()` for a negative value); a heap Repr has >= 3 words, top word non-zero
    #[verifier::external_body]
    pub fn as_typed(&self) -> (r: TypedReprRef<'_>)
        requires self.v() >= 0,
        ensures r.v() == self.v(), r.wf(),
    { unimplemented!() }

    // repr.rs:186-202
    #[verifier::external_body]
    pub fn into_typed(self) -> (r: TypedRepr)
        requires self.v() >= 0,
        ensures r.v() == self.v(),
    { unimplemented!() }
}

/// repr.rs:69-72 `TypedRepr` (Small(DoubleWord) | Large(Buffer)): only passed from into_typed() to div_rem() here,
/// hence opaque with its value
#[verifier::external_body]
pub struct TypedRepr { _p: u8 }
impl TypedRepr {
    pub uninterp spec fn v(&self) -> int;
}

impl<'a> TypedReprRef<'a> {
    /// number of words the magnitude occupies (a `RefSmall` counts as 2) -- as lib/repr_stubs.rs
    pub open spec fn nwords(&self) -> int {
        match self { TypedReprRef::RefSmall(d) => 2, TypedReprRef::RefLarge(w) => w@.len() as int }
    }
    /// invariant of a borrowed magnitude (repr.rs:36-49): a large one has >= 3 words, top word non-zero, and fits a Buffer
    pub open spec fn wf(&self) -> bool {
        match self {
            TypedReprRef::RefSmall(d) => true,
            TypedReprRef::RefLarge(w) => w@.len() >= 3 && w@[w@.len() - 1] != 0 && w@.len() <= max_capacity(),
        }
    }
}

// ---- ordering (cmp.rs:34-51): compares the magnitudes -------------------------------------------------------------
pub open spec fn cmp_int(a: int, b: int) -> Ordering {
    if a < b { Ordering::Less } else if a == b { Ordering::Equal } else { Ordering::Greater }
}
impl<'a> PartialEqSpecImpl for TypedReprRef<'a> {
    open spec fn obeys_eq_spec() -> bool { false }
    open spec fn eq_spec(&self, other: &TypedReprRef<'a>) -> bool { self.v() == other.v() }
}
impl<'a> PartialEq for TypedReprRef<'a> { #[verifier::external_body] fn eq(&self, other: &Self) -> bool { unimplemented!() } }
impl<'a> PartialOrdSpecImpl for TypedReprRef<'a> {
    open spec fn obeys_partial_cmp_spec() -> bool { true }
    open spec fn partial_cmp_spec(&self, other: &TypedReprRef<'a>) -> Option<Ordering> { Some(cmp_int(self.v(), other.v())) }
}
impl<'a> PartialOrd for TypedReprRef<'a> {
    #[verifier::external_body] fn partial_cmp(&self, other: &Self) -> Option<Ordering> { unimplemented!() }
}

// ---- division (div_ops.rs:346-384 over the kernels proved in unit int_div_ops) -------------------------------------
pub trait DivRem<Rhs = Self> {
    type OutputDiv;
    type OutputRem;
    spec fn div_rem_req(self, rhs: Rhs) -> bool;
    spec fn div_rem_post(self, rhs: Rhs, r: (Self::OutputDiv, Self::OutputRem)) -> bool;
    fn div_rem(self, rhs: Rhs) -> (r: (Self::OutputDiv, Self::OutputRem))
        requires self.div_rem_req(rhs),
        ensures self.div_rem_post(rhs, r);
}
/// a == q*b + r, 0 <= r < b, q >= 0
pub open spec fn is_div_rem(a: int, b: int, q: int, r: int) -> bool { a == q * b + r && 0 <= r < b && q >= 0 }

impl<'l, 'r> DivRem<TypedReprRef<'r>> for TypedReprRef<'l> {
    type OutputDiv = Repr;
    type OutputRem = Repr;
    // rhs == 0 panics (panic_divide_by_0); resource: room for the top quotient word (div_rem_large)
    open spec fn div_rem_req(self, rhs: TypedReprRef<'r>) -> bool {
        self.wf() && rhs.wf() && rhs.v() != 0 && self.nwords() < max_capacity()
    }
    open spec fn div_rem_post(self, rhs: TypedReprRef<'r>, r: (Repr, Repr)) -> bool {
        is_div_rem(self.v(), rhs.v(), r.0.v(), r.1.v())
    }
    #[verifier::external_body]
    fn div_rem(self, rhs: TypedReprRef<'r>) -> (r: (Repr, Repr)) { unimplemented!() }
}
impl<'r> DivRem<TypedReprRef<'r>> for TypedRepr {
    type OutputDiv = Repr;
    type OutputRem = Repr;
    // (a TypedRepr produced by into_typed() of a value that exists in memory: the resource bound of div_rem_large,
    //  `len < MAX_CAPACITY`, is not tracked for the opaque TypedRepr)
    open spec fn div_rem_req(self, rhs: TypedReprRef<'r>) -> bool { self.v() >= 0 && rhs.wf() && rhs.v() != 0 }
    open spec fn div_rem_post(self, rhs: TypedReprRef<'r>, r: (Repr, Repr)) -> bool {
        is_div_rem(self.v(), rhs.v(), r.0.v(), r.1.v())
    }
    #[verifier::external_body]
    fn div_rem(self, rhs: TypedReprRef<'r>) -> (r: (Repr, Repr)) { unimplemented!() }
}
} // mod fmtl_repr
pub use fmtl_repr::{max_capacity, TypedRepr, DivRem, is_div_rem, cmp_int, wl, tlen};

/// core::mem::take::<Vec<T>>: "Replaces dest with the default value of T, returning the previous dest value";
/// `Vec::default()` is the empty vector.
pub mod mem {
    use super::*;
    #[verifier::external_body]
    pub fn take<T>(dest: &mut Vec<T>) -> (r: Vec<T>)
        ensures r@ == old(dest)@, final(dest)@.len() == 0,
    { unimplemented!() }
}

// ---- specification of the chunked structure --------------------------------------------------------------------------
pub mod fmtl_spec {
use super::*;

/// radix^(digits_per_word * CHUNK_LEN) = range_per_word^CHUNK_LEN: what one chunk (write_chunk) holds
pub open spec fn chunk_base(radix: Digit) -> int { ipow(rpw(radix), CHUNK_LEN as int) }

/// the radix power of level k: chunk_base^(2^k)  (doc of `radix_powers`: radix^((digits_per_word * CHUNK_LEN) << k))
pub open spec fn level_pow(radix: Digit, k: int) -> int { ipow(chunk_base(radix), pow2(k)) }

/// the stored table holds exactly these powers
pub open spec fn powers_ok(radix: Digit, p: Seq<Repr>, n: int) -> bool {
    forall|k: int| 0 <= k < n ==> (#[trigger] p[k]).v() == level_pow(radix, k)
}

/// `out` extends `pre` by exactly n digits below r whose positional value (most significant first) is v
pub open spec fn emitted(pre: Seq<u8>, out: Seq<u8>, n: int, r: int, v: int) -> bool {
    &&& n >= 0
    &&& out.len() == pre.len() + n
    &&& out.subrange(0, pre.len() as int) == pre
    &&& digits_ok(out, pre.len() as int, out.len() as int, r)
    &&& dval(out, pre.len() as int, out.len() as int, r) == v
}

/// the number written after the top chunk (value `top`) and the big chunks s[j..), last one first -- the order of
/// PreparedLarge::write: every chunk (level, value) contributes level_digits(level) digits, i.e. shifts by level_pow(level)
pub open spec fn chunks_value(radix: Digit, top: int, s: Seq<(usize, Repr)>, j: int) -> int
    decreases s.len() - j
{
    if j >= s.len() { top } else { chunks_value(radix, top, s, j + 1) * level_pow(radix, s[j].0 as int) + s[j].1.v() }
}

/// every stored chunk fits its level and its level has its power in the table (write_big_chunk(i) reads powers[i-1])
pub open spec fn chunks_ok(radix: Digit, s: Seq<(usize, Repr)>, npow: int) -> bool {
    forall|j: int| 0 <= j < s.len() ==> (#[trigger] s[j]).0 < npow && 0 <= s[j].1.v() < level_pow(radix, s[j].0 as int)
}

/// structure invariant of a PreparedLarge (established by new)
pub open spec fn large_inv(p: PreparedLarge) -> bool {
    &&& medium_inv(p.top_chunk) && p.top_chunk.radix == p.radix && radix_ok(p.radix)
    &&& powers_ok(p.radix, p.radix_powers@, p.radix_powers@.len() as int)
    &&& chunks_ok(p.radix, p.big_chunks@, p.radix_powers@.len() as int)
}

/// the number a PreparedLarge stands for
pub open spec fn large_value(p: PreparedLarge) -> int {
    chunks_value(p.radix, medium_value(p.top_chunk), p.big_chunks@, 0)
}
} // mod fmtl_spec
pub use fmtl_spec::*;
