// ---- fio_fmt_stubs.rs: what float/src/fmt.rs `Repr::{fmt_round, fmt_round_scientific}` see of core::fmt before the
// digits are laid out, and the C08 statement about the rounding that precedes printing.
// Needs round_prelude.rs, round_int_stubs.rs, round_float_repr.rs.
//
// TRUSTED: `core::fmt::Formatter` as an opaque sink with a ghost view (the characters accepted so far) and a ghost
// precision option: `precision()` reads the option and does not touch the sink; `write_str(s)` appends s on Ok and leaves
// the option alone (core/src/fmt/mod.rs: `Formatter::precision`, `Formatter::write_str` forward to the underlying
// `fmt::Write`).
pub mod fmt {
    use super::*;
    pub type Error = core::fmt::Error;
    pub type Result = core::result::Result<(), core::fmt::Error>;
}

#[verifier::external_body]
pub struct Formatter<'a> { _p: core::marker::PhantomData<&'a u8> }

impl<'a> View for Formatter<'a> {
    type V = Seq<char>;
    uninterp spec fn view(&self) -> Seq<char>;
}

impl<'a> Formatter<'a> {
    /// the `.N` precision option of the format spec
    pub uninterp spec fn prec(&self) -> Option<usize>;

    #[verifier::external_body]
    pub fn precision(&self) -> (r: Option<usize>)
        ensures r == self.prec(),
    { unimplemented!() }

    #[verifier::external_body]
    pub fn write_str(&mut self, s: &str) -> (r: fmt::Result)
        ensures final(self).prec() == old(self).prec(),
            r is Ok ==> final(self)@ == old(self)@ + s@,
    { unimplemented!() }
}

// ---- C08 "printing with a precision option shows the value correctly rounded ... under the type's mode" ------------

/// `{:.p}` in positional notation: the value sig * b^e is shown with p fractional digits.  Either it has no more
/// than p fractional digits (nothing changes) or the printed significand counts units of b^-p and is the rounding of
/// the exact value sig * b^e / b^-p = sig / b^(-p-e) under mode m.
pub open spec fn fmt_fix_rounded(m: Mode, b: int, sig: int, e: int, prec: Option<usize>, out_sig: int, out_exp: int) -> bool {
    match prec {
        None => out_sig == sig && out_exp == e,
        Some(p) =>
            if p as int + e >= 0 {
                out_sig == sig && out_exp == e
            } else {
                round_def(m, sig, ipow(b, (-(p as int) - e) as nat), out_sig) && out_exp == -(p as int)
            },
    }
}

/// number of significant digits requested by `{:.pe}` (one digit in front of the radix point) resp. of BITS requested
/// by `{:.px}` on a base-2 float (one hexadecimal digit in front of the point, p behind it)
pub open spec fn sci_keep(p: usize, hex: bool) -> int { if hex { 4 * (p as int) + 4 } else { p as int + 1 } }

/// `{:.pe}` in scientific notation: the value sig * b^e has nd = ndigits(b, sig) significant digits (the EXACT count).
/// Either nd <= keep (nothing changes) or exactly nd - keep digits are dropped and the printed significand is the
/// rounding of sig / b^(nd-keep) under mode m.
pub open spec fn fmt_sci_rounded(m: Mode, b: int, sig: int, e: int, prec: Option<usize>, hex: bool, out_sig: int, out_exp: int) -> bool {
    match prec {
        None => out_sig == sig && out_exp == e,
        Some(p) => {
            let keep = sci_keep(p, hex);
            let nd = ndigits(b, sig) as int;
            if nd <= keep {
                out_sig == sig && out_exp == e
            } else {
                round_def(m, sig, ipow(b, (nd - keep) as nat), out_sig) && out_exp == e + (nd - keep)
            }
        },
    }
}
