// ---- no_ord_stubs.rs: small pieces shared by the NumOrd units of the float, rational and integer crates, over lib/bigstub.rs
// (include after lib/ratio_lemmas.rs, lib/bigstub.rs).  Every external_body / assume_specification is TRUSTED and states the
// documented behaviour of the real function.  (Do not combine with lib/gcdo_cmpf_stubs.rs, which has its own copies.)
pub mod no_ord_stubs {
use super::*;
use vstd::std_specs::ops::*;
use vstd::std_specs::convert::*;
use vstd::arithmetic::power2::*;
use core::ops::{Mul, ShlAssign};
use core::cmp::Ordering;

// core: Ordering::reverse (documented: Less <-> Greater, Equal fixed)
pub open spec fn ord_rev(o: Ordering) -> Ordering {
    match o { Ordering::Less => Ordering::Greater, Ordering::Equal => Ordering::Equal, Ordering::Greater => Ordering::Less }
}
pub assume_specification [Ordering::reverse] (o: Ordering) -> (r: Ordering) ensures r == ord_rev(o);
// base/src/sign.rs:187 `impl Mul<Ordering> for Sign`: Positive keeps, Negative reverses (transcribed contract, TRUSTED)
impl MulSpecImpl<Ordering> for Sign {
    open spec fn obeys_mul_spec() -> bool { true }
    open spec fn mul_req(self, rhs: Ordering) -> bool { true }
    open spec fn mul_spec(self, rhs: Ordering) -> Ordering { if self == Sign::Positive { rhs } else { ord_rev(rhs) } }
}
impl Mul<Ordering> for Sign { type Output = Ordering;
    #[verifier::external_body]
    fn mul(self, rhs: Ordering) -> Ordering { unimplemented!() }
}

// integer: clone, `IBig <<= usize` (shift_ops.rs: exact multiplication by 2^n), `impl From<UBig> for IBig` (convert.rs: same value)
impl Clone for IBig {
    #[verifier::external_body]
    fn clone(&self) -> (r: IBig) ensures r.v() == self.v() { unimplemented!() }
}
impl Clone for UBig {
    #[verifier::external_body]
    fn clone(&self) -> (r: UBig) ensures r.v() == self.v() { unimplemented!() }
}
impl ShlAssign<usize> for IBig {
    #[verifier::external_body]
    fn shl_assign(&mut self, rhs: usize) { unimplemented!() }
}
impl ShlAssignSpecImpl<usize> for IBig {
    open spec fn obeys_shl_assign_spec() -> bool { true }
    open spec fn shl_assign_req(&self, rhs: usize) -> bool { true }
    open spec fn shl_assign_spec(&self, rhs: usize) -> &IBig { &ibig_of(self.v() * pow2(rhs as nat)) }
}
impl From<UBig> for IBig {
    #[verifier::external_body]
    fn from(x: UBig) -> IBig { unimplemented!() }
}
impl FromSpecImpl<UBig> for IBig {
    open spec fn obeys_from_spec() -> bool { true }
    open spec fn from_spec(x: UBig) -> IBig { ibig_of(x.v()) }
}

/// sign of a scaled number: p >= 1
pub proof fn lemma_scale_sign(s: int, p: int)
    requires p >= 1,
    ensures s > 0 ==> s * p > 0, s < 0 ==> s * p < 0, s == 0 ==> s * p == 0, rabs(s * p) == rabs(s) * p,
{
    if s > 0 { assert(s * p > 0) by (nonlinear_arith) requires s > 0, p >= 1; }
    if s < 0 { assert(s * p < 0) by (nonlinear_arith) requires s < 0, p >= 1; assert((-s) * p == -(s * p)) by (nonlinear_arith); }
}

/// verdict on the magnitudes of two numbers of the same sign, scaled by positive factors, turned into the signed comparison
pub proof fn lemma_fp_decide(s: int, p1: int, q1: int, m: int, p2: int, q2: int, neg: bool, gt: bool)
    requires p1 >= 1, q1 >= 1, p2 >= 1, q2 >= 1,
        neg ==> s <= 0 && m <= 0, !neg ==> s >= 0 && m >= 0,
        gt ==> (rabs(s) * p1) * q1 > (rabs(m) * p2) * q2,
        !gt ==> (rabs(s) * p1) * q1 < (rabs(m) * p2) * q2,
    ensures cmp_int((s * p1) * q1, (m * p2) * q2) == (if gt != neg { Ordering::Greater } else { Ordering::Less }),
{
    lemma_scale_sign(s, p1); lemma_scale_sign(s * p1, q1);
    lemma_scale_sign(m, p2); lemma_scale_sign(m * p2, q2);
    if neg {
        assert((s * p1) * q1 <= 0 && (m * p2) * q2 <= 0);
    }
}
/// commuting the scale factors of the right-hand side
pub proof fn lemma_fp_swap(m: int, p: int, q: int)
    ensures (m * p) * q == (m * q) * p,
{
    assert((m * p) * q == (m * q) * p) by (nonlinear_arith);
}
} // mod no_ord_stubs
pub use no_ord_stubs::*;
