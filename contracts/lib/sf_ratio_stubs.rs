// ---- sf_ratio_stubs.rs: dashu-ratio's data types and the RBig items `RBig::simplest_from_float` uses, for a unit whose
// top level is the dashu-float vocabulary (round_float_repr.rs: there `Repr<B>` is the FLOAT representation, imported as
// `FBigRepr` by the real file).  INCLUDE inside `pub mod ratio { use super::*; .. }` after sf_spec.rs / sf_stubs.rs.
// rational/src/repr.rs `pub struct Repr { numerator: IBig, denominator: UBig }`, rational/src/rbig.rs
// `pub struct RBig(pub(crate) Repr)` -- transcriptions (as lib/ratio_types.rs)
pub struct Repr { pub numerator: IBig, pub denominator: UBig }
pub struct RBig(pub Repr);

// base/src/error.rs (enum mirrored)
#[derive(Clone, Copy, Debug, Eq, PartialEq)]
pub enum ConversionError { OutOfBounds, LossOfPrecision }

impl RBig {
    /// rational/src/rbig.rs `pub const ZERO: Self = Self(Repr::zero())`, Repr::zero() = 0/1.  TRUSTED.
    #[verifier::external_body]
    pub exec const ZERO: RBig
        ensures Self::ZERO.0.numerator.v() == 0 && Self::ZERO.0.denominator.v() == 1
    { RBig(Repr { numerator: IBig { _p: 0 }, denominator: UBig { _p: 0 } }) }
}
impl RBig {
    /// rational/src/rbig.rs `pub const fn is_int(&self) -> bool { self.0.denominator.is_one() }`.  NOT called by the unchanged
    /// function under contract; present so that a changed function calling it is judged by the contract.  TRUSTED.
    #[verifier::external_body]
    pub fn is_int(&self) -> (r: bool) ensures r == (self.0.denominator.v() == 1) { unimplemented!() }
}
/// derive(Clone) for RBig / Repr: a field-wise copy keeps the value.  TRUSTED.
impl Clone for RBig {
    #[verifier::external_body]
    fn clone(&self) -> (r: Self)
        ensures r.0.numerator.v() == self.0.numerator.v(), r.0.denominator.v() == self.0.denominator.v()
    { unimplemented!() }
}

// rational/src/third_party/dashu_float.rs, macro forward_conversion_to_repr!(RBig, reduce), third impl:
// `impl<R: Round, const B: Word> TryFrom<FBig<R, B>> for RBig` = `Repr::try_from(value).map(|repr| RBig(repr.reduce()))`
// with `TryFrom<FBig<R, B>> for Repr` = `value.into_repr().try_into()`.  RESTATES, for the FBig wrapper, what unit
// ratio_from_float PROVES for `TryFrom<FBigRepr<B>> for RBig` (the same macro, second impl, same one-line body) and unit
// ratio_sf_tryfrom for this very impl: infinities are rejected, every finite float sig * B^exp converts to exactly that
// fraction in canonical form.  Guard: base >= 2 and exponent > isize::MIN (`(-exp) as usize` in the real code).
impl<R: Round, const B: Word> TryFrom<FBig<R, B>> for RBig {
    type Error = ConversionError;
    #[verifier::external_body]
    fn try_from(value: FBig<R, B>) -> (r: Result<RBig, ConversionError>)
        ensures B >= 2 && value.repr.exponent > isize::MIN ==> (
            if value.repr.significand.v() == 0 && value.repr.exponent != 0 {
                r matches Err(e) && e == ConversionError::OutOfBounds
            } else {
                r matches Ok(x) && x.0.denominator.v() >= 1 && wf_ratio(x.0.numerator.v(), x.0.denominator.v())
                    && fv(B as int, value.repr.significand.v(), value.repr.exponent as int, x.0.numerator.v(), x.0.denominator.v())
            })
    { unimplemented!() }
}
