// ---- sf_from_prim_stubs.rs: the UBig items `impl TryFrom<f32 / f64> for Repr` (rational/src/convert.rs) uses beyond
// round_int_stubs.rs.  TRUSTED (dashu-int, lower layer).
impl UBig {
    /// integer/src/ubig.rs `UBig::ZERO`, `UBig::ONE`
    #[verifier::external_body]
    pub exec const ZERO: UBig ensures Self::ZERO.v() == 0 { UBig { _p: 0 } }
    #[verifier::external_body]
    pub exec const ONE: UBig ensures Self::ONE.v() == 1 { UBig { _p: 0 } }
    /// integer/src/bits.rs `UBig::set_bit`: "Set the n-th bit, n starts from 0" (value | 2^n).  Stated for the case the real
    /// code uses it in (and every value below 2^n: the bit is clear, so 2^n is added)
    #[verifier::external_body]
    pub fn set_bit(&mut self, n: usize)
        ensures old(self).v() < ipow(2, n as nat) ==> final(self).v() == old(self).v() + ipow(2, n as nat)
    { unimplemented!() }
}
