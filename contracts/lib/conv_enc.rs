// ---- conv_enc.rs: `FloatEncoding::encode` for f32 / f64 (base/src/bit.rs) and the float constants, as seen by the
// conversion units.  Needs `Approximation`, `Sign` (conv_base_types.rs or round_prelude.rs + round_float_repr.rs) and
// conv_float.rs.
//
// TRUSTED here, PROVED elsewhere: the contract of `encode` is exactly what the Kani group `base_bit` proves about the
// real function over its whole domain (harnesses vk_base_bit_encode_f32 / _f64, kind 'complete'): the returned bit
// pattern is the RNE rounding of mantissa * 2^exponent, `Exact` iff representable, else `Inexact(sign of result -
// exact)`.  `rne_ok` (conv_float.rs) is the transcription of that harness' oracle.
//
// The real code writes `f64::encode(..)`, `f64::INFINITY`: a module named like the primitive type shadows the
// type in *path* position only (types `f64` still mean the primitive), which lets the real tokens stay untouched.

pub open spec fn ap_exact<T, E>(r: Approximation<T, E>) -> bool { r is Exact }
pub open spec fn ap_val<T, E>(r: Approximation<T, E>) -> T { match r { Approximation::Exact(v) => v, Approximation::Inexact(v, _) => v } }
pub open spec fn ap_pos<T>(r: Approximation<T, Sign>) -> bool { match r { Approximation::Exact(_) => false, Approximation::Inexact(_, s) => s == Sign::Positive } }

/// C06 for a result of type Approximation<f32/f64, Sign>: `r` is the correctly rounded (RNE) float of
/// (-1)^neg * xn/xd, Exact iff nothing was lost, otherwise the sign is the sign of result - exact value.
pub open spec fn ap32_ok(r: Approximation<f32, Sign>, neg: bool, xn: int, xd: int) -> bool {
    rne_ok(fmt32(), neg, xn, xd, fields32(ap_val(r)), ap_exact(r), ap_pos(r))
}
pub open spec fn ap64_ok(r: Approximation<f64, Sign>, neg: bool, xn: int, xd: int) -> bool {
    rne_ok(fmt64(), neg, xn, xd, fields64(ap_val(r)), ap_exact(r), ap_pos(r))
}

pub mod f32 {
    use super::*;
    #[verifier::external_body]
    pub exec const INFINITY: f32 ensures INFINITY.to_bits_spec() == 0x7f80_0000u32 { core::f32::INFINITY }
    #[verifier::external_body]
    pub exec const NEG_INFINITY: f32 ensures NEG_INFINITY.to_bits_spec() == 0xff80_0000u32 { core::f32::NEG_INFINITY }
    /// <f32 as FloatEncoding>::encode -- contract proved by Kani group base_bit (vk_base_bit_encode_f32)
    #[verifier::external_body]
    pub fn encode(mantissa: i32, exponent: i16) -> (r: Approximation<f32, Sign>)
        ensures ap32_ok(r, mantissa < 0, sc_num(absi(mantissa as int), exponent as int), sc_den(exponent as int))
    { unimplemented!() }
}
pub mod f64 {
    use super::*;
    #[verifier::external_body]
    pub exec const INFINITY: f64 ensures INFINITY.to_bits_spec() == 0x7ff0_0000_0000_0000u64 { core::f64::INFINITY }
    #[verifier::external_body]
    pub exec const NEG_INFINITY: f64 ensures NEG_INFINITY.to_bits_spec() == 0xfff0_0000_0000_0000u64 { core::f64::NEG_INFINITY }
    /// <f64 as FloatEncoding>::encode -- contract proved by Kani group base_bit (vk_base_bit_encode_f64)
    #[verifier::external_body]
    pub fn encode(mantissa: i64, exponent: i16) -> (r: Approximation<f64, Sign>)
        ensures ap64_ok(r, mantissa < 0, sc_num(absi(mantissa as int), exponent as int), sc_den(exponent as int))
    { unimplemented!() }
}
