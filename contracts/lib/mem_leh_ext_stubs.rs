// ---- mem_leh_ext_stubs.rs = lib/leh_ext_stubs.rs WITHOUT its opaque Memory::allocate_slice_fill stub (derived mechanically,
// one region cut out; keep in step).  Original header:
// ---- leh_ext_stubs.rs: vocabulary + trusted stubs for unit int_leh_gcd_ext (integer/src/gcd/lehmer.rs gcd_ext_in_place), C12.
// Word = @W@.  Needs lib/prelude.rs, lib/sign.rs, lib/div_dword_stubs.rs, lib/div_post_spec.rs (Memory).
// NOT to be combined with lib/gcdo_stubs.rs / lib/gcdo_ops_stubs.rs: the definitions marked TWIN repeat theirs verbatim (this unit
// needs a GENERIC Memory::allocate_slice_fill and the zero-operand clause of the primitive gcd_ext, which those files lack).

// ---- TWIN of lib/gcdo_ops_stubs.rs ------------------------------------------------------------------------------------------
pub open spec fn gcdo_bez(a: int, l: int, b: int, r: int) -> int { a * l + b * r }

/// C12 as the in-place Lehmer routines deliver it: g is a positive common divisor of l and r that is an integer
/// combination a*l + b*r for SOME a, with the given b = +bm / -bm
pub open spec fn inplace_gcd_ext_post(l: int, r: int, g: int, bs: Sign, bm: int) -> bool {
    &&& g >= 1
    &&& l % g == 0
    &&& r % g == 0
    &&& bm >= 0
    &&& (bs == Sign::Positive ==> exists|a: int| #[trigger] gcdo_bez(a, l, bm, r) == g)
    &&& (bs == Sign::Negative ==> exists|a: int| #[trigger] gcdo_bez(a, l, -bm, r) == g)
}

/// d is the greatest common divisor of x and y, by divisibility
pub open spec fn gcdo_is_gcd(g: int, x: int, y: int) -> bool {
    &&& g >= 1
    &&& x % g == 0
    &&& y % g == 0
    &&& forall|d: int| d >= 1 && #[trigger] (x % d) == 0 && y % d == 0 ==> g % d == 0
}

/// a `Large` magnitude is at least B^(n-1) >= 1
pub proof fn lemma_gcdo_top_ge(s: Seq<Word>)
    requires s.len() >= 1, s[s.len() - 1] != 0,
    ensures val(s) >= pw(s.len() - 1), val(s) >= 1,
{
    let k = s.len() as int;
    lemma_valn_bound(s, k - 1);
    lemma_pw_pos(k - 1);
    assert((s[k - 1] as int) * pw(k - 1) >= pw(k - 1)) by (nonlinear_arith) requires s[k - 1] as int >= 1, pw(k - 1) >= 1;
}

pub mod cmp {
use super::*;
/// integer/src/cmp.rs:20 cmp_in_place -- TRUSTED (the comparison kernels belong to C05: Kani group there): numeric
/// comparison of two normalized word sequences: lengths first, then cmp_same_len from the top word down.
#[verifier::external_body]
pub fn cmp_in_place(lhs: &[Word], rhs: &[Word]) -> (ret: Ordering)
    requires lhs@.len() >= 1, rhs@.len() >= 1, lhs@[lhs@.len() - 1] != 0, rhs@[rhs@.len() - 1] != 0,   // own debug assertion
    ensures (ret == Ordering::Equal) == (val(lhs@) == val(rhs@)),
        (ret == Ordering::Less) == (val(lhs@) < val(rhs@)),
        (ret == Ordering::Greater) == (val(lhs@) > val(rhs@)),
        ret == Ordering::Less ==> lhs@.len() <= rhs@.len(),
        ret == Ordering::Greater ==> lhs@.len() >= rhs@.len(),
        ret == Ordering::Equal ==> lhs@ == rhs@,
{ unimplemented!() }
}

// ---- TWIN of lib/gcdo_stubs.rs ----------------------------------------------------------------------------------------------
/// g | x, g | y  ==>  g | q*x + y
pub proof fn lemma_gcdo_div_comb(g: int, q: int, x: int, y: int)
    requires g >= 1, x % g == 0, y % g == 0,
    ensures (q * x + y) % g == 0,
{
    let xq = x / g; let yq = y / g;
    vstd::arithmetic::div_mod::lemma_fundamental_div_mod(x, g);
    vstd::arithmetic::div_mod::lemma_fundamental_div_mod(y, g);
    assert(q * x + y == (q * xq + yq) * g) by (nonlinear_arith) requires x == g * xq, y == g * yq;
    vstd::arithmetic::div_mod::lemma_mod_multiples_basic(q * xq + yq, g);
}

/// a positive divisor of a positive number is at most that number
pub proof fn lemma_gcdo_div_le(g: int, y: int)
    requires g >= 1, y >= 1, y % g == 0,
    ensures g <= y,
{
    let k = y / g;
    vstd::arithmetic::div_mod::lemma_fundamental_div_mod(y, g);
    assert(k >= 1) by (nonlinear_arith) requires y == g * k, y >= 1, g >= 1;
    assert(g * k >= g) by (nonlinear_arith) requires k >= 1, g >= 1;
}

/// the cofactors of x > y > 0 have opposite signs and t != 0:  (t > 0 and s <= 0)  or  (t < 0 and s > 0)
pub proof fn lemma_gcdo_signs(x: int, y: int, g: int, s: int, t: int)
    requires x > y, y > 0, g >= 1, y % g == 0, s * x + t * y == g,
    ensures (t > 0 && s <= 0) || (t < 0 && s > 0),
{
    lemma_gcdo_div_le(g, y);
    if t == 0 {
        assert(t * y == 0) by (nonlinear_arith) requires t == 0;
        assert(false) by (nonlinear_arith) requires s * x == g, 1 <= g, g <= y, y < x;
    } else if t > 0 {
        if s >= 1 {
            assert(s * x + t * y >= x + y) by (nonlinear_arith) requires s >= 1, t >= 1, x > 0, y > 0;
        }
    } else {
        if s <= 0 {
            assert(s * x + t * y <= 0) by (nonlinear_arith) requires s <= 0, t <= -1, x > 0, y > 0;
        }
    }
}

// ---- trusted stubs ------------------------------------------------------------------------------------------------------------
// (the opaque Memory::allocate_slice_fill stub of lib/leh_ext_stubs.rs is cut out here: lib/mem_model.rs replaces it)

/// the primitive extended gcd as gcd_ext_in_place uses it (dashu_base::ExtendedGcd for Word, base/src/ring/gcd.rs, one macro body
/// for every width).  g >= 1, g | x, g | y, s*x + t*y == g and |s| <= y, |t| <= x for x, y > 0 are PROVED for the u32 / u64 / u128
/// instances in unit base_gcd; the zero-operand clause  x == 0 ==> (s, t) == (0, 1)  is what the real code returns
/// (`(true, false) => return (b, 0, 1)`, gcd.rs:216) but is NOT part of that unit's contract yet: TRUSTED here.
pub open spec fn leh_prim_gcd_ext_post(x: int, y: int, g: int, s: int, t: int) -> bool {
    &&& g >= 1
    &&& x % g == 0
    &&& y % g == 0
    &&& s * x + t * y == g
    &&& (x > 0 && y > 0 ==> -y <= s <= y && -x <= t <= x)
    &&& (x == 0 ==> s == 0 && t == 1)
}
pub trait ExtendedGcd<Rhs = Self>: Sized {
    type OutputGcd;
    type OutputCoeff;
    spec fn gcd_ext_req(self, rhs: Rhs) -> bool;
    spec fn gcd_ext_post(self, rhs: Rhs, r: (Self::OutputGcd, Self::OutputCoeff, Self::OutputCoeff)) -> bool;
    fn gcd_ext(self, rhs: Rhs) -> (r: (Self::OutputGcd, Self::OutputCoeff, Self::OutputCoeff))
        requires self.gcd_ext_req(rhs),
        ensures self.gcd_ext_post(rhs, r);
}
impl ExtendedGcd for Word {
    type OutputGcd = Word;
    type OutputCoeff = SignedWord;
    open spec fn gcd_ext_req(self, rhs: Word) -> bool { self != 0 || rhs != 0 }
    open spec fn gcd_ext_post(self, rhs: Word, r: (Word, SignedWord, SignedWord)) -> bool {
        leh_prim_gcd_ext_post(self as int, rhs as int, r.0 as int, r.1 as int, r.2 as int)
    }
    #[verifier::external_body]
    fn gcd_ext(self, rhs: Word) -> (r: (Word, SignedWord, SignedWord)) { unimplemented!() }
}

// core functions without a vstd specification (documented meaning, trusted)
pub assume_specification<T: Clone> [<[T]>::fill] (s: &mut [T], value: T)
    ensures final(s)@.len() == old(s)@.len(), forall|i: int| 0 <= i < old(s)@.len() ==> final(s)@[i] == value;
pub assume_specification [@SW@::unsigned_abs] (x: @SW@) -> (r: @W@)
    ensures r as int == (if x >= 0 { x as int } else { -(x as int) });

/// rule D26: `lhs.borrow_mut()` on a `&mut [Word]` parameter is the identity reborrow (core's blanket BorrowMut impl): VERIFIED
pub fn __reborrow_words(s: &mut [Word]) -> (r: &mut [Word])
    ensures r@ == old(s)@, final(s)@ == final(r)@,
{
    s
}
