// ---- no_ratio_prim_stubs.rs: the C14 sentence for a rational n/d against a primitive float (include after lib/no_frac_lemmas.rs,
// lib/no_prim_stubs.rs).  Pure specification, nothing trusted.
pub mod no_ratio_prim_stubs {
use super::*;
use core::cmp::Ordering;
// ordering of the exact real values of n/d (d > 0) and a primitive float (NaN incomparable, +-inf, otherwise man * 2^ex),
// cross-multiplied by the positive denominators d * td(ex)
pub open spec fn cmp_ratio_prim(n: int, d: int, nan: bool, inf: bool, neg: bool, man: int, ex: int) -> Option<Ordering> {
    if nan { None }
    else if inf { if neg { Some(Ordering::Greater) } else { Some(Ordering::Less) } }
    else { Some(cmp_int(n * td(ex), (man * d) * tn(ex))) }
}
} // mod no_ratio_prim_stubs
pub use no_ratio_prim_stubs::*;
