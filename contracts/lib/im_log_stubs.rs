// ---- im_log_stubs.rs: stubs + lemmas for the units int_im_log_large / int_im_log_word / int_im_log (integer/src/log.rs
// `mod repr`: log_large, log_word_base, TypedReprRef::log).  Word = @W@
// Needs lib/prelude.rs, lib/sign.rs, lib/repr_stubs.rs, lib/dispatch_lemmas.rs, lib/shift_bv.rs, lib/pow_lemmas.rs (ipow),
// lib/pow_api_stubs.rs + lib/pow_api_lemmas.rs (lemma_pw_pow2), lib/gcdo_log_stubs.rs (lpw, l2_of, EstimatedLog2,
// Ordering::is_le / is_ge, __assert_failed, panic_invalid_log_oprand).
//
// TRUSTED (every external_body item; each states what the real function does):
//   log.rs:278 log2_bounds_large(words): two floats (NOTHING is assumed about their values; `im_l2w` only records which words
//       they were computed from); `words.len() - 2` underflows below two words: precondition;
//   primitive.rs highest_dword: the two top words;   cmp.rs:20 cmp_in_place: numeric order of two normalized word sequences
//       (same text as lib/gcdo_ops_stubs.rs `mod cmp`; the comparison kernels belong to C05);
//   repr.rs:351 Repr::into_buffer: the normalized words of a non-negative Repr in a buffer of capacity >= 3
//       (inline values: Buffer::allocate(1 | 2) => default_capacity >= 3; heap values: at least 3 words);
//   radix.rs:78 RADIX10_INFO = RadixInfo::for_radix(10): (digits_per_word, range_per_word) = max_exp_in_word(10), i.e. the
//       contract of math::max_exp_in_word (annotated copy integer/math/max_exp_in_word.rs) for base 10;
//   dashu_base::EstimatedLog2 for Word: two floats tagged with the number (as for DoubleWord in lib/gcdo_log_stubs.rs);
//   bits.rs TypedReprRef::bit_len: 0 for 0, else the k with 2^(k-1) <= v < 2^k;  bits.rs:428 TypedRepr::set_bit on ZERO: 2^n
//       (allocation limit: precondition).
pub mod im_log_stub {
use super::*;
use core::cmp::Ordering;

/// l is the bit length of v > 0:  2^(l-1) <= v < 2^l
pub open spec fn im_blen_ok(v: int, l: int) -> bool { l >= 1 && pow2(l - 1) <= v < pow2(l) }
/// w == 2^k
pub open spec fn im_pow2_is(k: int, w: int) -> bool { k >= 0 && pow2(k) == w }
/// t is the multiplicity of 2 in w
pub open spec fn im_tz_is(w: int, t: int) -> bool { t >= 0 && w % pow2(t) == 0 && w % pow2(t + 1) != 0 }
pub open spec fn im_is_pow2_dw(w: int) -> bool { exists|k: int| #[trigger] im_pow2_is(k, w) }

/// `im_l2w(f, s)`: the float f was computed by log2_bounds_large from the words s (a tag, no value)
pub uninterp spec fn im_l2w(f: f32, s: Seq<Word>) -> bool;

#[verifier::external_body]
pub fn log2_bounds_large(words: &[Word]) -> (r: (f32, f32))
    requires words@.len() >= 2,
    ensures im_l2w(r.0, words@), im_l2w(r.1, words@),
{ unimplemented!() }

#[verifier::external_body]
pub fn highest_dword(words: &[Word]) -> (ret: DoubleWord)
    requires words@.len() >= 2,
    ensures ret as int == words@[words@.len() - 2] as int + (words@[words@.len() - 1] as int) * B(),
{ unimplemented!() }

impl Repr {
    #[verifier::external_body]
    pub fn into_buffer(self) -> (r: Buffer)
        requires self.v() >= 0,
        ensures val(r@) == self.v(), normalized(r@), r.capacity() >= 3,
    { unimplemented!() }
}
impl EstimatedLog2 for Word {
    #[verifier::external_body]
    fn log2_bounds(&self) -> (r: (f32, f32)) ensures l2_of(r.0, *self as int), l2_of(r.1, *self as int) { unimplemented!() }
}
impl<'a> TypedReprRef<'a> {
    #[verifier::external_body]
    pub fn bit_len(self) -> (r: usize)
        requires self.wf(),
        ensures self.v() == 0 ==> r == 0, self.v() > 0 ==> im_blen_ok(self.v(), r as int),
    { unimplemented!() }
}
impl TypedRepr {
    #[verifier::external_body]
    pub fn set_bit(self, n: usize) -> (r: Repr)
        requires self.wf(), (n as int) / @BITS@ < max_capacity(),
        ensures self.v() == 0 ==> r.v() == pow2(n as int),
    { unimplemented!() }
}
} // mod im_log_stub
pub use im_log_stub::*;

pub mod cmp {
use super::*;
use core::cmp::Ordering;
#[verifier::external_body]
pub fn cmp_in_place(lhs: &[Word], rhs: &[Word]) -> (ret: Ordering)
    requires lhs@.len() >= 1, rhs@.len() >= 1, lhs@[lhs@.len() - 1] != 0, rhs@[rhs@.len() - 1] != 0,   // own debug assertion
    ensures (ret == Ordering::Equal) == (val(lhs@) == val(rhs@)),
        (ret == Ordering::Less) == (val(lhs@) < val(rhs@)),
        (ret == Ordering::Greater) == (val(lhs@) > val(rhs@)),
        ret == Ordering::Less ==> lhs@.len() <= rhs@.len(),
        ret == Ordering::Greater ==> lhs@.len() >= rhs@.len(),
        ret == Ordering::Equal ==> lhs@ == rhs@,
{ unimplemented!() }
}
pub mod radix {
use super::*;
pub struct RadixInfo { pub digits_per_word: usize, pub range_per_word: Word }
// (every read of an exec const is a fresh value to Verus: the two fields are tied to two fixed -- uninterpreted -- numbers)
pub uninterp spec fn im_r10_digits() -> usize;
pub uninterp spec fn im_r10_range() -> Word;
#[verifier::external_body]
pub exec const RADIX10_INFO: RadixInfo
    ensures RADIX10_INFO.digits_per_word == im_r10_digits(), RADIX10_INFO.range_per_word == im_r10_range(),
        1 <= im_r10_digits() <= WORD_BITS,
        im_r10_range() as int == ipow(10, im_r10_digits() as int),
{ RadixInfo { digits_per_word: 0, range_per_word: 0 } }
}

// ---- lemmas ---------------------------------------------------------------------------------------------------------------
pub open spec fn im_bits() -> int { @BITS@ }
/// the floor logarithm of the property statement
pub open spec fn im_is_log(b: int, t: int, e: int) -> bool { e >= 0 && ipow(b, e) <= t && t < ipow(b, e + 1) }

pub proof fn lemma_im_lpw_ipow(b: int, e: nat)
    ensures lpw(b, e) == ipow(b, e as int),
    decreases e
{
    if e > 0 { lemma_im_lpw_ipow(b, (e - 1) as nat); }
}
/// a normalized, non-empty sequence has a non-zero value; a value >= B needs two words
pub proof fn lemma_im_nonempty(s: Seq<Word>, lo: int)
    requires normalized(s), val(s) >= lo, lo >= 1,
    ensures s.len() >= 1, s[s.len() - 1] != 0, lo >= B() ==> s.len() >= 2,
{
    if s.len() == 0 { lemma_val_empty(s); }
    if s.len() == 1 { lemma_valn_bound(s, 1); assert(pw(1) == B() * pw(0)); }
}
/// what the callers need about the normalized words s of a Repr of value p >= 1 (Repr::as_slice) next to the target words t
pub open spec fn im_slice_ok(s: Seq<Word>, p: int, t: Seq<Word>) -> bool {
    &&& s.len() >= 1
    &&& s[s.len() - 1] != 0
    &&& (p >= B() ==> s.len() >= 2)
    &&& (p <= val(t) ==> s.len() <= t.len())
}
pub proof fn lemma_im_slices(p: int, t: Seq<Word>)
    requires p >= 1,
    ensures forall|s: Seq<Word>| #[trigger] normalized(s) && val(s) == p ==> im_slice_ok(s, p, t),
{
    assert forall|s: Seq<Word>| #[trigger] normalized(s) && val(s) == p implies im_slice_ok(s, p, t) by {
        lemma_im_nonempty(s, 1);
        if p >= B() { lemma_im_nonempty(s, B()); }
        if p <= val(t) { lemma_im_len_le(s, t); }
    }
}
/// val(a) <= val(b), b normalized ==> a (normalized, non-empty) is not longer than b
pub proof fn lemma_im_len_le(a: Seq<Word>, b: Seq<Word>)
    requires a.len() >= 1, a[a.len() - 1] != 0, val(a) <= val(b),
    ensures a.len() <= b.len(),
{
    if b.len() < a.len() { lemma_shorter_is_less(b, a); }
}
/// b >= 2, b^e <= t < B^n  ==>  e < BITS * n
pub proof fn lemma_im_exp_small(b: int, e: int, t: int, n: int)
    requires b >= 2, e >= 0, n >= 0, ipow(b, e) <= t, t < pw(n),
    ensures e < im_bits() * n,
{
    lemma_im_ipow_ge_pow2(b, e);
    lemma_pw_pow2(n);
    if e >= @BITS@ * n { lemma_sh_pow2_mono(@BITS@ * n, e); }
}
pub proof fn lemma_im_ipow_ge_pow2(f: int, e: int)
    requires f >= 2,
    ensures ipow(f, e) >= pow2(e), pow2(e) >= 1,
    decreases e
{
    if e > 0 {
        lemma_im_ipow_ge_pow2(f, e - 1);
        let x = ipow(f, e - 1); let y = pow2(e - 1);
        assert(f * x >= 2 * y) by (nonlinear_arith) requires f >= 2, x >= y, y >= 1;
    }
}
/// one step of the correction loops: p == b^e, b >= 2  ==>  p*b == b^(e+1) > p
pub proof fn lemma_im_log_step(b: int, e: int, p: int)
    requires b >= 2, e >= 0, p == ipow(b, e),
    ensures p * b == ipow(b, e + 1), p >= 1, p * b > p,
{
    lemma_ipow_succ(b, e);
    lemma_ipow_pos(b, e);
    assert(p * b > p) by (nonlinear_arith) requires p >= 1, b >= 2;
}
/// BITS * max_capacity() <= usize::MAX
pub proof fn lemma_im_cap_bits()
    ensures im_bits() * max_capacity() <= usize::MAX,
{
    vstd::arithmetic::div_mod::lemma_fundamental_div_mod(usize::MAX as int, @BITS@);
}

// ---- log_word_base ---------------------------------------------------------------------------------------------------------
/// after `carry = mul_word_in_place(&mut e, m); e.push_resizing(carry)`: r0 before, r1 after the multiplication, r2 after the push
pub proof fn lemma_im_mul_push(r0: Seq<Word>, r1: Seq<Word>, carry: Word, m: int, r2: Seq<Word>)
    requires r0.len() >= 1, r0[r0.len() - 1] != 0, r1.len() == r0.len(), m >= 1,
        val(r1) + (carry as int) * pw(r0.len() as int) == val(r0) * m,
        carry != 0 ==> r2 == r1.push(carry), carry == 0 ==> r2 == r1,
    ensures val(r2) == val(r0) * m, r2.len() >= 1, r2[r2.len() - 1] != 0, r0.len() <= r2.len() <= r0.len() + 1,
{
    let n = r0.len() as int;
    if carry != 0 {
        lemma_val_push(r1, carry);
    } else {
        assert((carry as int) * pw(n) == 0) by (nonlinear_arith) requires carry as int == 0;
        lemma_normalized_lower(r0);
        let v0 = val(r0);
        lemma_pw_pos(n - 1);
        assert(v0 * m >= v0) by (nonlinear_arith) requires v0 >= 0, m >= 1;
        if r1[n - 1] == 0 {
            lemma_valn_bound(r1, n - 1);
            assert(valn(r1, n) == valn(r1, n - 1) + (r1[n - 1] as int) * pw(n - 1));
            assert((r1[n - 1] as int) * pw(n - 1) == 0) by (nonlinear_arith) requires r1[n - 1] as int == 0;
        }
    }
}
/// first loop of log_word_base: a shorter power times the word base still fits below the target when it is at least two
/// words shorter, or one word shorter and the overestimated top double word `(top + 1) * wb` does not exceed the target's
pub proof fn lemma_im_lw_grow(e: Seq<Word>, tg: Seq<Word>, wb: int, checked: bool)
    requires e.len() >= 1, e.len() < tg.len(), tg[tg.len() - 1] != 0, 1 <= wb < B(),
        e.len() == tg.len() - 1 ==> checked,
        checked ==> e.len() == tg.len() - 1 && tg.len() >= 2
            && (e[e.len() - 1] as int + 1) * wb <= tg[tg.len() - 2] as int + (tg[tg.len() - 1] as int) * B(),
    ensures val(e) * wb <= val(tg),
{
    let n = e.len() as int; let tl = tg.len() as int;
    let v = val(e);
    lemma_valn_bound(e, n);
    lemma_normalized_lower(tg);
    if n <= tl - 2 {
        lemma_pw_mono(n + 1, tl - 1);
        assert(pw(n + 1) == B() * pw(n));
        assert(v * wb <= B() * pw(n)) by (nonlinear_arith) requires 0 <= v < pw(n), 1 <= wb < B();
    } else {
        let top = e[n - 1] as int;
        lemma_valn_bound(e, n - 1);
        assert(valn(e, n) == valn(e, n - 1) + top * pw(n - 1));
        let p = pw(n - 1);
        lemma_pw_pos(n - 1);
        assert(v < (top + 1) * p) by (nonlinear_arith) requires v == valn(e, n - 1) + top * p, valn(e, n - 1) < p;
        let th = tg[tl - 2] as int + (tg[tl - 1] as int) * B();
        // val(tg) == valn(tg, tl - 2) + th * pw(tl - 2)
        lemma_valn_bound(tg, tl - 2);
        assert(valn(tg, tl) == valn(tg, tl - 1) + (tg[tl - 1] as int) * pw(tl - 1));
        assert(valn(tg, tl - 1) == valn(tg, tl - 2) + (tg[tl - 2] as int) * pw(tl - 2));
        assert(pw(tl - 1) == B() * pw(tl - 2));
        let a = tg[tl - 2] as int; let c = tg[tl - 1] as int; let q = pw(tl - 2);
        assert(a * q + c * (B() * q) == (a + c * B()) * q) by (nonlinear_arith);
        assert(v * wb <= th * p) by (nonlinear_arith) requires v < (top + 1) * p, (top + 1) * wb <= th, wb >= 1, v >= 0, p >= 1;
    }
}
/// (top + 1) * wb fits a double word
pub proof fn lemma_im_dword_prod(top: int, wb: int)
    requires 0 <= top < B(), 0 <= wb < B(),
    ensures 0 <= (top + 1) * wb < B() * B(), B() * B() - 1 == @D@::MAX,
{
    assert((top + 1) * wb <= B() * (B() - 1)) by (nonlinear_arith) requires 0 <= top < B(), 0 <= wb < B();
    assert((top + 1) * wb >= 0) by (nonlinear_arith) requires 0 <= top, 0 <= wb;
    assert(B() * (B() - 1) < B() * B()) by (nonlinear_arith) requires B() >= 1;
    lemma_pw2();
}
/// the exact division that undoes the last multiplication
pub proof fn lemma_im_exact_div(v0: int, bi: int, k: int, nv: int, r: int)
    requires bi >= 1, v0 == k * bi, v0 == nv * bi + r, 0 <= r < bi,
    ensures r == 0, nv == k,
{
    assert(v0 == bi * nv + r) by (nonlinear_arith) requires v0 == nv * bi + r;
    assert(v0 == bi * k + 0) by (nonlinear_arith) requires v0 == k * bi;
    vstd::arithmetic::div_mod::lemma_fundamental_div_mod_converse(v0, bi, nv, r);
    vstd::arithmetic::div_mod::lemma_fundamental_div_mod_converse(v0, bi, k, 0);
}
/// one multiplication by d == b^k: p == b^e ==> p*d == b^(e+k) > p
pub proof fn lemma_im_log_step_k(b: int, e: int, p: int, k: int, d: int)
    requires b >= 2, e >= 0, k >= 1, p == ipow(b, e), d == ipow(b, k),
    ensures p * d == ipow(b, e + k), p >= 1, p * d > p, d >= 2,
{
    lemma_ipow_add(b, e, k);
    lemma_ipow_pos(b, e);
    lemma_ipow_ge_base(b, 2, k);
    assert(p * d > p) by (nonlinear_arith) requires p >= 1, d >= 2;
}

// ---- TypedReprRef::log (dispatch) -------------------------------------------------------------------------------------------
/// what the power-of-two shortcuts need: for the bit length l of x (2^(l-1) <= x < 2^l) and a base b == 2^k (k >= 1):
/// e == (l-1)/k is the floor logarithm, the shift e*k stays below l <= BITS*nw
pub open spec fn im_pow2_log_ok(x: int, nw: int, l: int, k: int, b: int) -> bool {
    let e = (l - 1) / k;
    &&& k >= 1
    &&& l >= 1
    &&& e >= 0
    &&& e * k <= l - 1
    &&& im_is_log(b, x, e)
    &&& l <= im_bits() * nw
    &&& l / im_bits() <= nw
    &&& (e * k) / im_bits() < nw
}
pub proof fn lemma_im_pow2_log(x: int, nw: int, l: int, k: int)
    requires 1 <= x < pw(nw), nw >= 0, im_blen_ok(x, l), k >= 1,
    ensures im_pow2_log_ok(x, nw, l, k, pow2(k)),
{
    let e = (l - 1) / k;
    vstd::arithmetic::div_mod::lemma_fundamental_div_mod(l - 1, k);
    vstd::arithmetic::div_mod::lemma_div_pos_is_pos(l - 1, k);
    let s = e * k;
    assert(s == k * e) by (nonlinear_arith) requires s == e * k;
    assert(s >= 0) by (nonlinear_arith) requires s == e * k, e >= 0, k >= 1;
    assert(s <= l - 1 && l - 1 < s + k);
    // (2^k)^e == 2^s <= 2^(l-1) <= x < 2^l <= 2^(s+k) == (2^k)^(e+1)
    lemma_pow2_ipow(k); lemma_ipow_mul(2, k, e); lemma_pow2_ipow(s);
    lemma_ipow_mul(2, k, e + 1); lemma_pow2_ipow(k * (e + 1));
    assert(k * (e + 1) == s + k) by (nonlinear_arith) requires s == k * e;
    lemma_sh_pow2_mono(s, l - 1);
    lemma_sh_pow2_mono(l, s + k);
    // l <= BITS * nw
    lemma_pw_pow2(nw);
    if l - 1 >= im_bits() * nw { lemma_sh_pow2_mono(im_bits() * nw, l - 1); }
    let bb = im_bits();
    vstd::arithmetic::div_mod::lemma_fundamental_div_mod(l, bb);
    vstd::arithmetic::div_mod::lemma_fundamental_div_mod(s, bb);
    let q1 = l / bb; let q2 = s / bb;
    assert(q1 <= nw) by (nonlinear_arith) requires l == bb * q1 + l % bb, 0 <= l % bb, l <= bb * nw, bb >= 1;
    assert(q2 < nw) by (nonlinear_arith) requires s == bb * q2 + s % bb, 0 <= s % bb, s < bb * nw, bb >= 1;
}
/// the two shortcuts of TypedReprRef::log, for whatever bit length l / multiplicity t the code computes
pub proof fn lemma_im_pow2_logs(x: int, nw: int, bv: int)
    requires 1 <= x < pw(nw), nw >= 0, bv >= 2,
    ensures
        forall|l: int| #[trigger] im_blen_ok(x, l) ==> im_pow2_log_ok(x, nw, l, 1, 2),
        forall|l: int, t: int| #![trigger im_blen_ok(x, l), im_tz_is(bv, t)]
            im_blen_ok(x, l) && im_tz_is(bv, t) && im_is_pow2_dw(bv) ==> im_pow2_log_ok(x, nw, l, t, bv),
{
    assert(pow2(1) == 2 * pow2(0));
    assert forall|l: int| #[trigger] im_blen_ok(x, l) implies im_pow2_log_ok(x, nw, l, 1, 2) by {
        lemma_im_pow2_log(x, nw, l, 1);
    }
    assert forall|l: int, t: int| #![trigger im_blen_ok(x, l), im_tz_is(bv, t)]
        im_blen_ok(x, l) && im_tz_is(bv, t) && im_is_pow2_dw(bv) implies im_pow2_log_ok(x, nw, l, t, bv) by {
        let k = choose|k: int| #[trigger] im_pow2_is(k, bv);
        lemma_im_pow2_tz(k, t);
        if t == 0 { assert(pow2(0) == 1); }
        lemma_im_pow2_log(x, nw, l, t);
    }
}
pub proof fn lemma_im_typedref_bound(t: TypedReprRef)
    requires t.wf(),
    ensures 0 <= t.v() < pw(t.nwords()), t.nwords() >= 2,
{
    match t {
        TypedReprRef::RefSmall(d) => { lemma_pw2(); }
        TypedReprRef::RefLarge(w) => { lemma_valn_bound(w@, w@.len() as int); }
    }
}
/// the cases the dispatch decides itself: x < b ==> log 0;  x == b ==> log 1
pub proof fn lemma_im_small_base_cases(x: int, b: int)
    requires x >= 1, b >= 2,
    ensures x < b ==> im_is_log(b, x, 0), x == b ==> im_is_log(b, x, 1),
{
    lemma_ipow_1(b); lemma_ipow_2(b);
    assert(b * b > b) by (nonlinear_arith) requires b >= 2;
}
/// 2^t is the only power of two with multiplicity t
pub proof fn lemma_im_pow2_tz(k: int, t: int)
    requires im_pow2_is(k, pow2(k)), im_tz_is(pow2(k), t),
    ensures t == k,
{
    lemma_sh_pow2_pos(k); lemma_sh_pow2_pos(t);
    if t > k {
        lemma_sh_pow2_mono(k + 1, t);
        assert(pow2(k + 1) == 2 * pow2(k));
        vstd::arithmetic::div_mod::lemma_small_mod(pow2(k) as nat, pow2(t) as nat);
    } else if t < k {
        lemma_sh_pow2_add(t + 1, k - t - 1);
        lemma_sh_pow2_pos(t + 1);
        vstd::arithmetic::div_mod::lemma_mod_multiples_basic(pow2(k - t - 1), pow2(t + 1));
        assert(pow2(t + 1) * pow2(k - t - 1) == pow2(k - t - 1) * pow2(t + 1)) by (nonlinear_arith);
    }
}

// ---- UBig::ilog / IBig::ilog ---------------------------------------------------------------------------------------------------
/// resource: the number has at most n >= 2 words with 6*n and BITS*n below the allocation limit
pub open spec fn im_log_fits(v: int) -> bool {
    exists|n: int| n >= 2 && #[trigger] pw(n) > v && 6 * n <= max_capacity() && im_bits() * n < max_capacity()
}
pub proof fn lemma_im_log_fits(v: int)
    requires im_log_fits(v),
    ensures forall|x: TypedReprRef| #[trigger] x.wf() && x.v() == v ==> 6 * x.nwords() <= max_capacity() && im_bits() * x.nwords() < max_capacity(),
{
    let n = choose|n: int| n >= 2 && #[trigger] pw(n) > v && 6 * n <= max_capacity() && im_bits() * n < max_capacity();
    assert forall|x: TypedReprRef| #[trigger] x.wf() && x.v() == v implies 6 * x.nwords() <= max_capacity() && im_bits() * x.nwords() < max_capacity() by {
        lemma_nwords_le(x, n);
        let m = x.nwords(); let bb = im_bits();
        assert(bb * m <= bb * n) by (nonlinear_arith) requires m <= n, bb >= 1;
    }
}
