// ---- reduced-ring (integer/src/modular) vocabulary ---------------------------------------------------------
// Structural mirrors of the real types (fields used by the functions under contract only; trusted to match
// integer/src/modular/repr.rs and integer/src/div_const.rs).
pub struct ReducedLarge(pub Box<[Word]>);
pub struct ConstLargeDivisor { pub normalized_divisor: Box<[Word]>, pub shift: u32 }

pub open spec fn ring_wf(ring: &ConstLargeDivisor) -> bool {
    ring.normalized_divisor@.len() <= usize::MAX && val(ring.normalized_divisor@) >= 1
}
/// the stored (normalised) residue is a number below the (normalised) modulus of the same length
pub open spec fn red_valid(x: &ReducedLarge, ring: &ConstLargeDivisor) -> bool {
    x.0@.len() == ring.normalized_divisor@.len() && val(x.0@) < val(ring.normalized_divisor@)
}
/// r is THE residue of x modulo m, for x within one modulus of the canonical range
pub open spec fn mod1(r: int, x: int, m: int) -> bool {
    0 <= r < m && (r == x || r == x - m || r == x + m)
}

pub assume_specification [core::cmp::Ordering::is_ge] (o: Ordering) -> (r: bool)
    ensures r == !(o is Less);
pub assume_specification [core::cmp::Ordering::is_le] (o: Ordering) -> (r: bool)
    ensures r == !(o is Greater);
pub assume_specification [core::cmp::Ordering::is_gt] (o: Ordering) -> (r: bool)
    ensures r == (o is Greater);
pub assume_specification [core::cmp::Ordering::is_lt] (o: Ordering) -> (r: bool)
    ensures r == (o is Less);

pub proof fn lemma_b2i_mul(b: bool, p: int)
    ensures b2i(b) * p == if b { p } else { 0 },
{
    if b { assert(1 * p == p); } else { assert(0 * p == 0); }
}

pub proof fn lemma_mod_add_fix(a: int, b: int, m: int, mid: int, fin: int, o1: int, o2: int, p: int)
    requires 0 <= a < m, 0 <= b < m, m < p, 0 <= o1 <= 1, 0 <= o2 <= 1,
        mid + o1 * p == a + b, 0 <= mid < p,
        fin - o2 * p == mid - m, 0 <= fin < p,
        o1 == 1 || mid >= m,
    ensures o1 == o2, fin == a + b - m, 0 <= fin < m,
{
    assert(o1 * p == if o1 == 1 { p } else { 0 }) by (nonlinear_arith) requires 0 <= o1 <= 1;
    assert(o2 * p == if o2 == 1 { p } else { 0 }) by (nonlinear_arith) requires 0 <= o2 <= 1;
}

pub proof fn lemma_mod_sub_fix(a: int, b: int, m: int, mid: int, fin: int, o2: int, p: int)
    requires 0 <= a < m, 0 <= b < m, m < p, 0 <= o2 <= 1,
        mid - p == a - b, 0 <= mid < p,
        fin + o2 * p == mid + m, 0 <= fin < p,
    ensures o2 == 1, fin == a - b + m, 0 <= fin < m,
{
    assert(o2 * p == if o2 == 1 { p } else { 0 }) by (nonlinear_arith) requires 0 <= o2 <= 1;
}
