// ---- bits_dword_lemmas.rs: binary digits of a double word (inline values of bits.rs `impl TypedRepr`).
// Needs prelude.rs, shift_bv.rs, bits_repr_lemmas.rs, shift_ops_lemmas.rs.   DoubleWord = @D@.

pub proof fn lemma_bd_pow2_dbits()
    ensures pow2((2 * @BITS@) as int) == B() * B(),
{
    lemma_sh_pow2_bits();
    lemma_sh_pow2_add(@BITS@, @BITS@);
}

/// binary digit i of a double word
pub proof fn lemma_bd_nbit(d: @D@, i: int)
    requires i >= 0,
    ensures nbit(d as int, i) == (i < 2 * @BITS@ && ((d >> (i as @D@)) & 1) == 1),
{
    if i < 2 * @BITS@ {
        lemma_so_shr_div_d(d, i as u32);
        let h = d >> (i as u32);
        let iu = i as u32;
        let id = i as @D@;
        assert(d >> iu == d >> id) by (bit_vector) requires iu as @D@ == id, iu < 2 * @BITS@;
        assert((h & 1) == h % 2) by (bit_vector);
    } else {
        lemma_bd_pow2_dbits();
        lemma_sh_pow2_mono((2 * @BITS@) as int, i);
        lemma_br_nbit_small(d as int, i);
    }
}

pub proof fn lemma_bd_setbit(d: @D@, nn: usize)
    requires nn < 2 * @BITS@,
    ensures forall|e: @D@, i: int| #![trigger nbit(e as int, i)]
        i >= 0 && e == d | ((1 as @D@) << (nn as @D@)) ==> nbit(e as int, i) == (i == nn || nbit(d as int, i)),
{
    let n = nn as @D@;
    let e = d | ((1 as @D@) << n);
    assert forall|i: int| i >= 0 implies #[trigger] nbit(e as int, i) == (i == n || nbit(d as int, i)) by {
        lemma_bd_nbit(e, i);
        lemma_bd_nbit(d, i);
        if i < 2 * @BITS@ {
            let k = i as @D@;
            assert(((((d | ((1 as @D@) << n)) >> k) & 1) == 1) == (k == n || (((d >> k) & 1) == 1))) by (bit_vector)
                requires n < 2 * @BITS@, k < 2 * @BITS@;
        }
    }
}

pub proof fn lemma_bd_clearbit(d: @D@, nn: usize)
    requires nn < 2 * @BITS@,
    ensures forall|e: @D@, i: int| #![trigger nbit(e as int, i)]
        i >= 0 && e == d & !((1 as @D@) << (nn as @D@)) ==> nbit(e as int, i) == (i != nn && nbit(d as int, i)),
{
    let n = nn as @D@;
    let e = d & !((1 as @D@) << n);
    assert forall|i: int| i >= 0 implies #[trigger] nbit(e as int, i) == (i != n && nbit(d as int, i)) by {
        lemma_bd_nbit(e, i);
        lemma_bd_nbit(d, i);
        if i < 2 * @BITS@ {
            let k = i as @D@;
            assert(((((d & !((1 as @D@) << n)) >> k) & 1) == 1) == (k != n && (((d >> k) & 1) == 1))) by (bit_vector)
                requires n < 2 * @BITS@, k < 2 * @BITS@;
        }
    }
}

/// masking a double word with 2^r - 1 is reduction modulo 2^r
pub proof fn lemma_bd_mask(d: @D@, mask: @D@, r: u32)
    requires r < 2 * @BITS@, mask as int == pow2(r as int) - 1,
    ensures (d & mask) as int == (d as int) % pow2(r as int),
{
    lemma_sh_one_shl_d(r);
    let one = (1 as @D@) << r;
    assert(mask == (one - 1) as @D@);
    // d & (2^r - 1) == d - ((d >> r) << r), and (d >> r) << r == floor(d / 2^r) * 2^r
    let h = d >> r;
    assert((d & mask) == d - (h << r) && (h << r) <= d) by (bit_vector)
        requires r < 2 * @BITS@, one == (1 as @D@) << r, mask == (one - 1) as @D@, h == d >> r;
    lemma_so_shr_div_d(d, r);
    let e = pow2(r as int);
    let hi = h as int;
    lemma_sh_pow2_pos(r as int);
    vstd::arithmetic::div_mod::lemma_fundamental_div_mod(d as int, e);
    vstd::arithmetic::div_mod::lemma_mod_pos_bound(d as int, e);
    assert(e * hi == hi * e) by (nonlinear_arith);
    assert(hi * e < B() * B());
    lemma_sh_shl_mul_d(h, r);
}
