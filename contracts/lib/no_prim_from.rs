// ---- no_prim_from.rs: integer/src/convert.rs `impl From<primitive integer> for UBig / IBig` (value-exact; C06), for units that do
// NOT include lib/gcdo_numord_stubs.rs / lib/no_prim_stubs.rs (which carry the u32 / u64 resp. i32 / i64 instances).  TRUSTED.
pub mod no_prim_from {
use super::*;
use vstd::std_specs::convert::*;
impl From<u8> for UBig {
    #[verifier::external_body]
    fn from(x: u8) -> UBig { unimplemented!() }
}
impl FromSpecImpl<u8> for UBig {
    open spec fn obeys_from_spec() -> bool { true }
    open spec fn from_spec(x: u8) -> UBig { ubig_of(x as int) }
}
impl From<u16> for UBig {
    #[verifier::external_body]
    fn from(x: u16) -> UBig { unimplemented!() }
}
impl FromSpecImpl<u16> for UBig {
    open spec fn obeys_from_spec() -> bool { true }
    open spec fn from_spec(x: u16) -> UBig { ubig_of(x as int) }
}
impl From<u32> for UBig {
    #[verifier::external_body]
    fn from(x: u32) -> UBig { unimplemented!() }
}
impl FromSpecImpl<u32> for UBig {
    open spec fn obeys_from_spec() -> bool { true }
    open spec fn from_spec(x: u32) -> UBig { ubig_of(x as int) }
}
impl From<u64> for UBig {
    #[verifier::external_body]
    fn from(x: u64) -> UBig { unimplemented!() }
}
impl FromSpecImpl<u64> for UBig {
    open spec fn obeys_from_spec() -> bool { true }
    open spec fn from_spec(x: u64) -> UBig { ubig_of(x as int) }
}
impl From<u128> for UBig {
    #[verifier::external_body]
    fn from(x: u128) -> UBig { unimplemented!() }
}
impl FromSpecImpl<u128> for UBig {
    open spec fn obeys_from_spec() -> bool { true }
    open spec fn from_spec(x: u128) -> UBig { ubig_of(x as int) }
}
impl From<usize> for UBig {
    #[verifier::external_body]
    fn from(x: usize) -> UBig { unimplemented!() }
}
impl FromSpecImpl<usize> for UBig {
    open spec fn obeys_from_spec() -> bool { true }
    open spec fn from_spec(x: usize) -> UBig { ubig_of(x as int) }
}
impl From<i8> for IBig {
    #[verifier::external_body]
    fn from(x: i8) -> IBig { unimplemented!() }
}
impl FromSpecImpl<i8> for IBig {
    open spec fn obeys_from_spec() -> bool { true }
    open spec fn from_spec(x: i8) -> IBig { ibig_of(x as int) }
}
impl From<i16> for IBig {
    #[verifier::external_body]
    fn from(x: i16) -> IBig { unimplemented!() }
}
impl FromSpecImpl<i16> for IBig {
    open spec fn obeys_from_spec() -> bool { true }
    open spec fn from_spec(x: i16) -> IBig { ibig_of(x as int) }
}
impl From<i32> for IBig {
    #[verifier::external_body]
    fn from(x: i32) -> IBig { unimplemented!() }
}
impl FromSpecImpl<i32> for IBig {
    open spec fn obeys_from_spec() -> bool { true }
    open spec fn from_spec(x: i32) -> IBig { ibig_of(x as int) }
}
impl From<i64> for IBig {
    #[verifier::external_body]
    fn from(x: i64) -> IBig { unimplemented!() }
}
impl FromSpecImpl<i64> for IBig {
    open spec fn obeys_from_spec() -> bool { true }
    open spec fn from_spec(x: i64) -> IBig { ibig_of(x as int) }
}
impl From<i128> for IBig {
    #[verifier::external_body]
    fn from(x: i128) -> IBig { unimplemented!() }
}
impl FromSpecImpl<i128> for IBig {
    open spec fn obeys_from_spec() -> bool { true }
    open spec fn from_spec(x: i128) -> IBig { ibig_of(x as int) }
}
impl From<isize> for IBig {
    #[verifier::external_body]
    fn from(x: isize) -> IBig { unimplemented!() }
}
impl FromSpecImpl<isize> for IBig {
    open spec fn obeys_from_spec() -> bool { true }
    open spec fn from_spec(x: isize) -> IBig { ibig_of(x as int) }
}
} // mod no_prim_from
pub use no_prim_from::*;
