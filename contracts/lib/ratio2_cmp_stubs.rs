// ---- ratio2_cmp_stubs.rs: what rational/src/cmp.rs needs from dashu-int / dashu-base / core beyond lib/bigstub.rs
// (include after lib/ratio_lemmas.rs, lib/bigstub.rs).  Every external_body / assume_specification is TRUSTED.
pub mod ratio2_cmp_stubs {
use super::*;
use vstd::std_specs::ops::*;
use vstd::std_specs::cmp::{OrdSpecImpl, PartialOrdSpecImpl, PartialEqSpecImpl};
use core::ops::Mul;
use core::cmp::Ordering;

// enclosure given by a bit length k of a magnitude x: zero has length 0, otherwise 2^(k-1) <= x < 2^k
pub open spec fn bits_encl(x: int, k: int) -> bool {
    (x == 0 ==> k == 0) && (x != 0 ==> k >= 1 && pow2((k - 1) as nat) <= x < pow2(k as nat))
}
// TRUSTED (integer/src/bits.rs `BitTest::bit_len` for UBig / IBig = bit length of the magnitude): a function `blen` of the
// magnitude about which ONLY the enclosure is assumed (ax_blen).  The bound `r <= isize::MAX / 2` is an ASSUMPTION
// about operand sizes (a magnitude of 2^62 bits does not fit any address space; Buffer::MAX_CAPACITY alone only
// gives r <= usize::MAX): cmp.rs adds and subtracts bit lengths after `as isize` casts.
pub uninterp spec fn blen(x: int) -> int;
#[verifier::external_body]
pub proof fn ax_blen(x: int) requires x >= 0 ensures bits_encl(x, blen(x)) {}
impl UBig {
    #[verifier::external_body]
    pub fn bit_len(&self) -> (r: usize)
        ensures r as int == blen(self.v()), r as int <= (isize::MAX as int) / 2
    { unimplemented!() }
}
impl IBig {
    #[verifier::external_body]
    pub fn bit_len(&self) -> (r: usize)
        ensures r as int == blen(rabs(self.v())), r as int <= (isize::MAX as int) / 2
    { unimplemented!() }
}
// TRUSTED (core): isize::abs_diff is |a - b| as usize
pub assume_specification [isize::abs_diff] (a: isize, b: isize) -> (r: usize)
    ensures r as int == rabs(a as int - b as int);

// dashu_base::AbsEq (trait mirrored); TRUSTED: IBig::abs_eq compares magnitudes (integer/src/cmp.rs)
pub trait AbsEq<Rhs = Self> {
    spec fn abs_eq_spec(&self, rhs: &Rhs) -> bool;
    fn abs_eq(&self, rhs: &Rhs) -> (r: bool) ensures r == self.abs_eq_spec(rhs);
}
impl AbsEq for IBig {
    open spec fn abs_eq_spec(&self, rhs: &IBig) -> bool { rabs(self.v()) == rabs(rhs.v()) }
    #[verifier::external_body]
    fn abs_eq(&self, rhs: &IBig) -> (r: bool) { unimplemented!() }
}

// TRUSTED (integer/src/cmp.rs): Ord for IBig compares the values
impl PartialEqSpecImpl for IBig {
    open spec fn obeys_eq_spec() -> bool { false }
    open spec fn eq_spec(&self, other: &IBig) -> bool { self.v() == other.v() }
}
impl PartialOrdSpecImpl for IBig {
    open spec fn obeys_partial_cmp_spec() -> bool { true }
    open spec fn partial_cmp_spec(&self, other: &IBig) -> Option<Ordering> { Some(cmp_int(self.v(), other.v())) }
}
impl OrdSpecImpl for IBig {
    open spec fn obeys_cmp_spec() -> bool { true }
    open spec fn cmp_spec(&self, other: &IBig) -> Ordering { cmp_int(self.v(), other.v()) }
}
impl PartialEq for IBig { #[verifier::external_body] fn eq(&self, other: &Self) -> bool { unimplemented!() } }
impl Eq for IBig {}
impl PartialOrd for IBig { #[verifier::external_body] fn partial_cmp(&self, other: &Self) -> Option<Ordering> { unimplemented!() } }
impl Ord for IBig { #[verifier::external_body] fn cmp(&self, other: &Self) -> Ordering { unimplemented!() } }

// TRUSTED (integer/src/mul_ops.rs): &IBig * &UBig is the exact product
impl<'a, 'b> MulSpecImpl<&'b UBig> for &'a IBig {
    open spec fn obeys_mul_spec() -> bool { true }
    open spec fn mul_req(self, rhs: &'b UBig) -> bool { true }
    open spec fn mul_spec(self, rhs: &'b UBig) -> IBig { ibig_of(self.v() * rhs.v()) }
}
impl<'a, 'b> Mul<&'b UBig> for &'a IBig { type Output = IBig;
    #[verifier::external_body]
    fn mul(self, rhs: &'b UBig) -> IBig { unimplemented!() }
}

} // mod ratio2_cmp_stubs
pub use ratio2_cmp_stubs::*;
