// ---- mp_lemmas.rs: ring-level lemmas of the multi-word modular exponentiation (unit int_modpow_large). Word = @W@ ------
// Needs lib/prelude.rs, lib/shift_bv.rs, lib/mod2_ring.rs, lib/mod2_mem.rs, lib/mp_arith.rs.

/// the stored words x (n words, below M, `shift` zero low bits) hold the residue  r^k mod m
pub open spec fn is_pow(x: Seq<Word>, ring: &ConstLargeDivisor, r: int, k: int) -> bool {
    x.len() == ring.normalized_divisor@.len() && val(x) < ring_M(ring) && val(x) % ring_p(ring) == 0
        && val(x) / ring_p(ring) == ipow(r, k) % modulus(ring)
}

/// a ring built by ConstLargeDivisor::new has a modulus of at least two words: m >= B >= 2
pub proof fn lemma_mp_modulus_ge2(ring: &ConstLargeDivisor)
    requires ring_full(ring),
    ensures modulus(ring) >= 2, ring_p(ring) >= 1,
{
    let s = ring.normalized_divisor@;
    let n = s.len() as int;
    let p = ring_p(ring);
    let mv = ring_M(ring);
    lemma_norm_half(s, ring.fast_div_top);
    lemma_pow2_pos(ring.shift as int);
    lemma_sh_pow2_mono(ring.shift as int, @BITS@ - 1);
    lemma_sh_pow2_bits();
    assert(pow2(@BITS@) == 2 * pow2(@BITS@ - 1));
    // pw(n) >= B*B for n >= 2
    lemma_pw_add(2, n - 2);
    lemma_pw_pos(n - 2);
    assert(pw(2) == B() * pw(1));
    assert(pw(1) == B() * pw(0));
    assert(pw(0) == 1);
    assert(pw(2) == B() * B()) by (nonlinear_arith) requires pw(2) == B() * pw(1), pw(1) == B() * pw(0), pw(0) == 1;
    assert(pw(n) >= B() * B()) by (nonlinear_arith) requires pw(n) == pw(2) * pw(n - 2), pw(2) == B() * B(), pw(n - 2) >= 1;
    lemma_exact_div(mv, p);
    let m = mv / p;
    // 2 * m * p >= B*B and 2 * p <= B  ==>  m >= B >= 2
    assert(m >= 2) by (nonlinear_arith)
        requires mv == m * p, 2 * mv >= B() * B(), 1 <= p, 2 * p <= B(), B() >= 4;
}

// ---- the table of odd powers ------------------------------------------------------------------------------------------

/// entry j >= 1 of the table (r^(2j+1); entry 0 is the base itself and is not stored)
pub open spec fn tbl_entry(t: Seq<Word>, n: int, j: int) -> Seq<Word> { t.subrange((j - 1) * n, j * n) }

pub open spec fn tbl_ok(t: Seq<Word>, n: int, ring: &ConstLargeDivisor, r: int, cnt: int) -> bool {
    forall|j: int| 1 <= j < cnt ==> is_pow(#[trigger] tbl_entry(t, n, j), ring, r, 2 * j + 1)
}

pub proof fn lemma_mp_tbl_bounds(j: int, cnt: int, n: int)
    requires 1 <= j < cnt, n >= 0,
    ensures 0 <= (j - 1) * n <= j * n <= (cnt - 1) * n, j * n - (j - 1) * n == n,
{
    assert(0 <= (j - 1) * n <= j * n <= (cnt - 1) * n && j * n - (j - 1) * n == n) by (nonlinear_arith)
        requires 1 <= j < cnt, n >= 0;
}

/// writing entry i leaves the entries below it alone
pub proof fn lemma_mp_tbl_step(t0: Seq<Word>, t1: Seq<Word>, n: int, ring: &ConstLargeDivisor, r: int, i: int)
    requires n >= 0, i >= 1, tbl_ok(t0, n, ring, r, i), t0.len() == t1.len(), t1.len() >= i * n,
        forall|k: int| 0 <= k < (i - 1) * n ==> t1[k] == t0[k],
        is_pow(t1.subrange((i - 1) * n, i * n), ring, r, 2 * i + 1),
    ensures tbl_ok(t1, n, ring, r, i + 1),
{
    assert forall|j: int| 1 <= j < i + 1 implies is_pow(#[trigger] tbl_entry(t1, n, j), ring, r, 2 * j + 1) by {
        if j < i {
            lemma_mp_tbl_bounds(j, i, n);
            lemma_mp_tbl_bounds(i, i + 1, n);
            assert(tbl_entry(t1, n, j) =~= tbl_entry(t0, n, j));
        }
    }
}

/// squaring / multiplying stored powers (residue arithmetic of the mul.rs contracts)
pub proof fn lemma_mp_is_pow_mul(x: Seq<Word>, y: Seq<Word>, z: Seq<Word>, ring: &ConstLargeDivisor, r: int, k1: int, k2: int)
    requires ring_full(ring), is_pow(x, ring, r, k1), is_pow(y, ring, r, k2), k1 >= 0, k2 >= 0,
        z.len() == ring.normalized_divisor@.len(), val(z) < ring_M(ring), val(z) % ring_p(ring) == 0,
        val(z) / ring_p(ring) == ((val(x) / ring_p(ring)) * (val(y) / ring_p(ring))) % modulus(ring),
    ensures is_pow(z, ring, r, k1 + k2),
{
    lemma_mp_modulus_ge2(ring);
    lemma_mp_mul(r, modulus(ring), k1, k2, val(x) / ring_p(ring), val(y) / ring_p(ring), val(z) / ring_p(ring));
}

