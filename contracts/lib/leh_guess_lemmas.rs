// ---- leh_guess_lemmas.rs: vocabulary + lemmas for Lehmer's cofactor guess (integer/src/gcd/lehmer.rs lehmer_guess,
// lehmer_guess_dword), C12.  Pure mathematical integers; needs nothing but vstd.
//
// Notation: (X, Y) the leading parts handed to the guess, (a, b, c, d) the cofactor matrix, (x, y) the reduced leading
// parts:   x == a*X - b*Y,   y == d*Y - c*X.   The matrix is a product of elementary quotient steps
// (row1 += q*row2 / row2 += q*row1), hence a*d - b*c == 1 and X == d*x + b*y, Y == c*x + a*y.

/// the state of the guessing loop
pub open spec fn leh_st(X: int, Y: int, a: int, b: int, c: int, d: int, x: int, y: int) -> bool {
    &&& a >= 1 && b >= 0 && c >= 0 && d >= 1
    &&& x == a * X - b * Y
    &&& y == d * Y - c * X
    &&& X == d * x + b * y
    &&& Y == c * x + a * y
    &&& a * d - b * c == 1
    &&& x >= b
    &&& y >= c
}

/// C12 (Lehmer step): what the guess (a, b, c, d) computed from the leading parts (X, Y) promises -- the classic
/// Lehmer / Collins / Jebelean conditions in the form the callers need:
///   unimodular (determinant +1: the combination (a x - b y, d y - c x) has the same gcd as (x, y)),
///   entries bounded by lim (= SignedWord::MAX),
///   a*X - b*Y >= b and d*Y - c*X >= c   (the combination applied to ANY (x, y) with these leading parts is >= 0),
///   a*X - b*Y + a <= Y and d*Y - c*X + d <= Y   (... and is not larger than y),
///   a failed guess is the identity (b == 0).
pub open spec fn leh_guess_post(X: int, Y: int, a: int, b: int, c: int, d: int, lim: int) -> bool {
    &&& 1 <= a <= lim && 0 <= b <= lim && 0 <= c <= lim && 1 <= d <= lim
    &&& a * d - b * c == 1
    &&& (b == 0 ==> a == 1 && c == 0 && d == 1)
    &&& (c == 0 ==> d == 1)
    &&& a * X - b * Y >= b
    &&& d * Y - c * X >= c
    &&& (b > 0 ==> a * X - b * Y + a <= Y)
    &&& (c > 0 ==> d * Y - c * X + d <= Y)
    // parity of the accepted half steps: either the second row was updated last (c >= a, d >= b: its cofactors are the larger
    // ones) or the first row was, under Jebelean's exact condition (then a x - b y < d y - c x for every such pair: lemma_leh_order)
    &&& (b == 0 || (c >= a && d >= b) || a * X - b * Y + a <= d * Y - c * X - c)
}

pub proof fn lemma_leh_st_init(X: int, Y: int)
    requires X >= 0, Y >= 0,
    ensures leh_st(X, Y, 1, 0, 0, 1, X, Y),
{
}

/// leh_st is symmetric under exchanging the roles of the two rows
pub proof fn lemma_leh_st_sym(X: int, Y: int, a: int, b: int, c: int, d: int, x: int, y: int)
    requires leh_st(X, Y, a, b, c, d, x, y),
    ensures leh_st(Y, X, d, c, b, a, y, x),
{
    assert(d * a - c * b == 1) by (nonlinear_arith) requires a * d - b * c == 1;
    assert(a * y + c * x == c * x + a * y);
    assert(b * y + d * x == d * x + b * y);
}

/// basic consequences: both reduced parts are bounded by the original ones
pub proof fn lemma_leh_st_le(X: int, Y: int, a: int, b: int, c: int, d: int, x: int, y: int)
    requires leh_st(X, Y, a, b, c, d, x, y),
    ensures 0 <= x <= X, 0 <= y <= Y,
{
    assert(d * x >= x) by (nonlinear_arith) requires d >= 1, x >= 0;
    assert(b * y >= 0) by (nonlinear_arith) requires b >= 0, y >= 0;
    assert(a * y >= y) by (nonlinear_arith) requires a >= 1, y >= 0;
    assert(c * x >= 0) by (nonlinear_arith) requires c >= 0, x >= 0;
}

/// one half step "row1 += q * row2" with a quotient q (q*y <= x):  the new cofactors r = a + q*c, s = b + q*d fit below
/// Y resp. X (no overflow in the word arithmetic), and -- if the new remainder t = x - q*y is at least s -- the state is kept
pub proof fn lemma_leh_half(X: int, Y: int, a: int, b: int, c: int, d: int, x: int, y: int, q: int)
    requires leh_st(X, Y, a, b, c, d, x, y), y >= 1, q >= 0, q * y <= x,
    ensures q * c >= 0, q * d >= q, q * y >= 0,
        a + q * c <= Y, b + q * d <= X,
        (a + q * c) * y <= Y,
        (x - q * y < y) ==> (x - q * y) + (a + q * c) <= Y,
        (x - q * y >= b + q * d) ==> leh_st(X, Y, a + q * c, b + q * d, c, d, x - q * y, y),
{
    let qc = q * c; let qd = q * d; let qy = q * y;
    let r = a + qc; let s = b + qd; let t = x - qy;
    assert(qc >= 0) by (nonlinear_arith) requires q >= 0, c >= 0, qc == q * c;
    assert(qd >= q) by (nonlinear_arith) requires q >= 0, d >= 1, qd == q * d;
    assert(qy >= 0) by (nonlinear_arith) requires q >= 0, y >= 1, qy == q * y;
    // Y == c*t + r*y,  X == d*t + s*y
    assert(c * t + r * y == c * x + a * y) by (nonlinear_arith)
        requires t == x - qy, r == a + qc, qc == q * c, qy == q * y;
    assert(d * t + s * y == d * x + b * y) by (nonlinear_arith)
        requires t == x - qy, s == b + qd, qd == q * d, qy == q * y;
    assert(c * t >= 0) by (nonlinear_arith) requires c >= 0, t >= 0;
    assert(d * t >= 0) by (nonlinear_arith) requires d >= 1, t >= 0;
    assert(r * y <= Y);
    assert(s * y <= X);
    assert(r * y >= r) by (nonlinear_arith) requires r >= 1, y >= 1;
    assert(s * y >= s) by (nonlinear_arith) requires s >= 0, y >= 1;
    if t < y {
        // t + r <= (y - 1) + r <= r*y
        assert(r * y >= r + y - 1) by (nonlinear_arith) requires r >= 1, y >= 1;
    }
    if t >= s {
        // t == r*X - s*Y
        assert(r * X - s * Y == (a * X - b * Y) - q * (d * Y - c * X)) by (nonlinear_arith)
            requires r == a + qc, s == b + qd, qc == q * c, qd == q * d;
        assert(r * d - s * c == a * d - b * c) by (nonlinear_arith)
            requires r == a + qc, s == b + qd, qc == q * c, qd == q * d;
        assert(leh_st(X, Y, r, s, c, d, t, y));
    }
}

/// the column order kept by the half steps (second column minus first column): at the loop top d > c and b + 1 >= a,
/// between the two half steps d > c and b >= a
pub proof fn lemma_leh_cols1(a: int, b: int, c: int, d: int, q: int)
    requires q >= 1, d > c, b + 1 >= a, c >= 0, b >= 0, a >= 0,
    ensures b + q * d >= a + q * c, b + q * d >= d, a + q * c >= c,
{
    assert(q * c >= c) by (nonlinear_arith) requires q >= 1, c >= 0;
    assert(q * d - q * c >= 1) by (nonlinear_arith) requires q >= 1, d - c >= 1;
    assert(q * d >= d) by (nonlinear_arith) requires q >= 1, d >= 0;
}
pub proof fn lemma_leh_cols2(a: int, b: int, c: int, d: int, q: int)
    requires q >= 1, d > c, b >= a, a >= 0, c >= 0,
    ensures d + q * b > c + q * a, c + q * a >= a, d + q * b >= b,
{
    assert(q * a >= a) by (nonlinear_arith) requires q >= 1, a >= 0;
    assert(q * b >= b) by (nonlinear_arith) requires q >= 1, b >= 0;
    assert(q * b - q * a >= 0) by (nonlinear_arith) requires q >= 0, b - a >= 0;
}

/// quotient facts for the exec division (named ints)
pub proof fn lemma_leh_quot(x: int, y: int)
    requires x >= 0, y >= 1,
    ensures (x / y) * y <= x, x - (x / y) * y < y, x / y >= 0, x >= y ==> x / y >= 1,
{
    vstd::arithmetic::div_mod::lemma_fundamental_div_mod(x, y);
    vstd::arithmetic::div_mod::lemma_mod_bound(x, y);
    let q = x / y;
    assert(y * q == q * y) by (nonlinear_arith);
    if q < 0 { assert(q * y <= -y) by (nonlinear_arith) requires q <= -1, y >= 1; }
    if x >= y && q < 1 { assert(q * y <= 0) by (nonlinear_arith) requires q <= 0, y >= 1; }
}

/// the state at loop exit is the promised contract
pub proof fn lemma_leh_guess_fin(X: int, Y: int, a: int, b: int, c: int, d: int, x: int, y: int, lim: int)
    requires leh_st(X, Y, a, b, c, d, x, y),
        a <= lim, b <= lim, c <= lim, d <= lim,
        b == 0 ==> a == 1 && c == 0 && d == 1,
        c == 0 ==> d == 1,
        b > 0 ==> x + a <= Y,
        c > 0 ==> y + d <= Y,
        b == 0 || (c >= a && d >= b) || x + a <= y - c,
    ensures leh_guess_post(X, Y, a, b, c, d, lim),
{
}

// ---- applying a guess to full-size operands ---------------------------------------------------------------------------

/// (X, Y) are the leading parts of (x, y) at a common weight k:  X*k <= x < (X+1)*k,  Y*k <= y < (Y+1)*k
pub open spec fn leh_top(x: int, y: int, X: int, Y: int, k: int) -> bool {
    &&& k >= 1
    &&& X * k <= x < (X + 1) * k
    &&& Y * k <= y < (Y + 1) * k
}

/// The combination of a successful guess applied to any operands with these leading parts:
///   1 <= a x - b y <= y,   1 <= d y - c x <= y,  and x == d x' + b y', y == c x' + a y'
pub proof fn lemma_leh_apply(x: int, y: int, X: int, Y: int, k: int, a: int, b: int, c: int, d: int, lim: int)
    requires leh_top(x, y, X, Y, k), leh_guess_post(X, Y, a, b, c, d, lim), b > 0, X >= 0, Y >= 0, y >= 1,
    ensures 1 <= a * x - b * y, a * x - b * y <= y,
        1 <= d * y - c * x, d * y - c * x <= y,
        x == d * (a * x - b * y) + b * (d * y - c * x),
        y == c * (a * x - b * y) + a * (d * y - c * x),
{
    let xl = x - X * k; let yl = y - Y * k;     // 0 <= xl, yl < k
    assert((X + 1) * k == X * k + k) by (nonlinear_arith);
    assert((Y + 1) * k == Y * k + k) by (nonlinear_arith);
    let xb = a * X - b * Y; let yb = d * Y - c * X;
    let xn = a * x - b * y; let yn = d * y - c * x;
    assert(xn == xb * k + (a * xl - b * yl)) by (nonlinear_arith)
        requires xn == a * x - b * y, xb == a * X - b * Y, xl == x - X * k, yl == y - Y * k;
    assert(yn == yb * k + (d * yl - c * xl)) by (nonlinear_arith)
        requires yn == d * y - c * x, yb == d * Y - c * X, xl == x - X * k, yl == y - Y * k;
    assert(a * xl >= 0) by (nonlinear_arith) requires a >= 1, xl >= 0;
    assert(b * yl <= b * k - b) by (nonlinear_arith) requires b >= 0, yl <= k - 1;
    assert(a * xl <= a * k) by (nonlinear_arith) requires a >= 1, xl <= k;
    assert(b * yl >= 0) by (nonlinear_arith) requires b >= 0, yl >= 0;
    assert(d * yl >= 0) by (nonlinear_arith) requires d >= 1, yl >= 0;
    assert(c * xl <= c * k - c) by (nonlinear_arith) requires c >= 0, xl <= k - 1;
    assert(d * yl <= d * k) by (nonlinear_arith) requires d >= 1, yl <= k;
    assert(c * xl >= 0) by (nonlinear_arith) requires c >= 0, xl >= 0;
    // lower bounds: xb >= b, yb >= c
    assert(xb * k >= b * k) by (nonlinear_arith) requires xb >= b, k >= 1;
    assert(yb * k >= c * k) by (nonlinear_arith) requires yb >= c, k >= 1;
    // upper bounds: xb + a <= Y;  yb + d <= Y or (c == 0, d == 1: yn == y)
    assert((xb + a) * k <= Y * k) by (nonlinear_arith) requires xb + a <= Y, k >= 1;
    assert((xb + a) * k == xb * k + a * k) by (nonlinear_arith);
    if c > 0 {
        assert((yb + d) * k <= Y * k) by (nonlinear_arith) requires yb + d <= Y, k >= 1;
        assert((yb + d) * k == yb * k + d * k) by (nonlinear_arith);
    } else {
        assert(yn == y) by (nonlinear_arith) requires yn == d * y - c * x, c == 0, d == 1;
    }
    // inverse relations from the determinant
    assert(d * xn + b * yn == (a * d - b * c) * x) by (nonlinear_arith)
        requires xn == a * x - b * y, yn == d * y - c * x;
    assert(c * xn + a * yn == (a * d - b * c) * y) by (nonlinear_arith)
        requires xn == a * x - b * y, yn == d * y - c * x;
    assert((a * d - b * c) * x == x) by (nonlinear_arith) requires a * d - b * c == 1;
    assert((a * d - b * c) * y == y) by (nonlinear_arith) requires a * d - b * c == 1;
}

/// first row updated last under Jebelean's condition:  a*X - b*Y + a <= d*Y - c*X - c   ==>   a x - b y < d y - c x
pub proof fn lemma_leh_order(x: int, y: int, X: int, Y: int, k: int, a: int, b: int, c: int, d: int)
    requires leh_top(x, y, X, Y, k), a >= 1, b >= 0, c >= 0, d >= 1, a * X - b * Y + a <= d * Y - c * X - c,
    ensures a * x - b * y < d * y - c * x,
{
    let xl = x - X * k; let yl = y - Y * k;
    assert((X + 1) * k == X * k + k) by (nonlinear_arith);
    assert((Y + 1) * k == Y * k + k) by (nonlinear_arith);
    let xb = a * X - b * Y; let yb = d * Y - c * X;
    let xn = a * x - b * y; let yn = d * y - c * x;
    assert(xn == xb * k + (a * xl - b * yl)) by (nonlinear_arith)
        requires xn == a * x - b * y, xb == a * X - b * Y, xl == x - X * k, yl == y - Y * k;
    assert(yn == yb * k + (d * yl - c * xl)) by (nonlinear_arith)
        requires yn == d * y - c * x, yb == d * Y - c * X, xl == x - X * k, yl == y - Y * k;
    assert(a * xl <= a * k - a) by (nonlinear_arith) requires a >= 1, xl <= k - 1;
    assert(b * yl >= 0) by (nonlinear_arith) requires b >= 0, yl >= 0;
    assert(d * yl >= 0) by (nonlinear_arith) requires d >= 1, yl >= 0;
    assert(c * xl <= c * k - c) by (nonlinear_arith) requires c >= 0, xl <= k - 1;
    assert((xb + a) * k <= (yb - c) * k) by (nonlinear_arith) requires xb + a <= yb - c, k >= 1;
    assert((xb + a) * k == xb * k + a * k) by (nonlinear_arith);
    assert((yb - c) * k == yb * k - c * k) by (nonlinear_arith);
}

/// EXACT form of the parity clause (Jebelean's condition for BOTH rows): the row updated last satisfies
///   second row last:  c >= a, d >= b, d*Y - c*X + d <= a*X - b*Y - b      first row last:  a >= c, b >= d, a*X - b*Y + a <= d*Y - c*X - c
/// which makes (a x - b y, d y - c x) two CONSECUTIVE remainders of Euclid's algorithm on every (x, y) with these leading parts
/// (second row last: d y - c x < a x - b y, lemma_leh_order2; first row last: the reverse, lemma_leh_order); gcd_ext_in_place relies
/// on it: after its `if x <= y { swap }` the cofactor t1 must be the larger one.
/// (Before the repair 0fb363c lehmer.rs tested `t + r > xbar - c` in the second half step and did NOT satisfy this: gcd_ext returned
/// wrong cofactors for lhs = 0x6000000000000004c000000000000005aaaa..aaab (129 + 64 bits), rhs = 0xc000000000000001 << 128.)
pub open spec fn leh_guess_exact(X: int, Y: int, a: int, b: int, c: int, d: int) -> bool {
    b == 0 || (c >= a && d >= b && d * Y - c * X + d <= a * X - b * Y - b)
        || (a >= c && b >= d && a * X - b * Y + a <= d * Y - c * X - c)
}

pub proof fn lemma_leh_order2(x: int, y: int, X: int, Y: int, k: int, a: int, b: int, c: int, d: int)
    requires leh_top(x, y, X, Y, k), a >= 1, b >= 0, c >= 0, d >= 1, d * Y - c * X + d <= a * X - b * Y - b,
    ensures d * y - c * x < a * x - b * y,
{
    lemma_leh_order(y, x, Y, X, k, d, c, b, a);
}
