// ---- fp_lemmas.rs: lemmas of the units float_to_prim_* (float/src/convert.rs `Context::convert_to_binary_once`,
// `FBig::{to_f32, to_f64}`, `Repr::{to_f32, to_f64}`).  Nothing trusted here.
// Needs round_prelude.rs, round_int_stubs.rs, round_float_repr.rs, conv_float.rs, conv_float_stubs.rs, fp_spec.rs.

// ------------------------------------------------------------------------------------------------------------------
// small arithmetic facts

pub proof fn lemma_fp_abs_mul(x: int, y: int)
    ensures iabs(x * y) == iabs(x) * iabs(y)
{
    let (ax, ay, xy) = (iabs(x), iabs(y), x * y);
    assert(iabs(xy) == ax * ay) by (nonlinear_arith)
        requires xy == x * y, ax == (if x < 0 { -x } else { x }), ay == (if y < 0 { -y } else { y });
}
pub proof fn lemma_fp_ipow01(b: int)
    ensures ipow(b, 0) == 1, ipow(b, 1) == b
{
    assert(ipow(b, 1) == b * ipow(b, 0));
}
/// 2^(j+1) == 2 * 2^j: a positive power of two is even
pub proof fn lemma_fp_ipow2_succ(j: nat)
    ensures ipow(2, j + 1) == 2 * ipow(2, j), ipow(2, j) >= 1
{
    lemma_ipow_pos(2, j);
    assert(ipow(2, j + 1) == 2 * ipow(2, ((j + 1) - 1) as nat));
}
pub proof fn lemma_fp_den_pos(b: int, e: int)
    requires b >= 1
    ensures fx_den(b, e) >= 1
{
    if e < 0 { lemma_ipow_pos(b, (-e) as nat); }
}
/// a zero significand denotes zero in every representation
pub proof fn lemma_fp_same_zero(s1: int, e1: int, s2: int, e2: int)
    requires same_value(2, s1, e1, s2, e2), s1 == 0
    ensures s2 == 0
{
    if e1 <= e2 {
        let pw2 = ipow(2, (e2 - e1) as nat);
        lemma_ipow_pos(2, (e2 - e1) as nat);
        assert(s2 == 0) by (nonlinear_arith) requires 0 == s2 * pw2, pw2 >= 1;
    } else {
        let pw2 = ipow(2, (e1 - e2) as nat);
        assert(0 * pw2 == 0);
    }
}
/// vstd's pow2 is ipow(2, .)
pub proof fn lemma_fp_pow2_ipow(n: nat)
    ensures pow2(n) == ipow(2, n)
    decreases n
{
    if n == 0 {
        lemma2_to64();
    } else {
        lemma_fp_pow2_ipow((n - 1) as nat);
        lemma_pow2_succ((n - 1) as nat);
        assert(((n - 1) as nat + 1) as nat == n);
    }
}
/// the bit length (conv_float_stubs.rs, vstd pow2) is the base-2 digit count (round_float_repr.rs, ipow)
pub proof fn lemma_fp_blen_nd(v: int)
    ensures blen(v) == ndigits(2, v)
{
    broadcast use ax_blen, ax_ndigits;
    if v != 0 {
        let k = blen(v);
        lemma_fp_pow2_ipow(k);
        lemma_fp_pow2_ipow((k - 1) as nat);
        lemma_nd_unique(2, v, k);
    }
}
/// |v| < 2^p  ==>  at most p bits
pub proof fn lemma_fp_blen_le(v: int, p: nat)
    requires iabs(v) < ipow(2, p)
    ensures blen(v) <= p
{
    broadcast use ax_ndigits;
    lemma_fp_blen_nd(v);
    let n = ndigits(2, v);
    if n > p {
        lemma_ipow_le(2, p, (n - 1) as nat);
    }
}

/// scaling numerator and denominator by c > 0 does not change the rounding (copy of lib/tf_lemmas.rs lemma_tf_round_scale)
pub proof fn lemma_fp_round_scale(m: Mode, X: int, D: int, c: int, r: int)
    requires D > 0, c > 0, round_def(m, X, D, r)
    ensures round_def(m, X * c, D * c, r), (r * D == X) == (r * (D * c) == X * c)
{
    let R = r * D;
    let (X2, D2) = (X * c, D * c);
    let R2 = r * D2;
    assert(R2 == R * c) by (nonlinear_arith) requires R2 == r * D2, D2 == D * c, R == r * D;
    let e = R - X;
    let e2 = R2 - X2;
    assert(e2 == e * c) by (nonlinear_arith) requires e2 == R2 - X2, R2 == R * c, X2 == X * c, e == R - X;
    assert(-D2 < e2 && e2 < D2) by (nonlinear_arith) requires e2 == e * c, D2 == D * c, -D < e, e < D, c > 0;
    assert((e == 0) == (e2 == 0)) by (nonlinear_arith) requires e2 == e * c, c > 0;
    assert((e > 0) == (e2 > 0)) by (nonlinear_arith) requires e2 == e * c, c > 0;
    assert((X > 0) == (X2 > 0) && (X < 0) == (X2 < 0)) by (nonlinear_arith) requires X2 == X * c, c > 0;
    assert((R > 0) == (R2 > 0) && (R < 0) == (R2 < 0)) by (nonlinear_arith) requires R2 == R * c, c > 0;
    let (a, a2) = (iabs(e), iabs(e2));
    assert(a2 == a * c) by (nonlinear_arith) requires e2 == e * c, c > 0, a == (if e < 0 { -e } else { e }), a2 == (if e2 < 0 { -e2 } else { e2 });
    assert((2 * a <= D) == (2 * a2 <= D2) && (2 * a == D) == (2 * a2 == D2)) by (nonlinear_arith)
        requires a2 == a * c, D2 == D * c, c > 0;
}

/// two odd (or both normalised, one odd) binary significands denoting the same number are the same representation
pub proof fn lemma_fp_odd_norm(s1: int, e1: int, S: int, e2: int)
    requires same_value(2, s1, e1, S, e2), S % 2 != 0, s1 % 2 != 0
    ensures s1 == S, e1 == e2
{
    if e1 < e2 {
        let j = (e2 - e1 - 1) as nat;
        lemma_fp_ipow2_succ(j);
        assert((j + 1) as nat == (e2 - e1) as nat);
        let t = ipow(2, j);
        let st = S * t;
        assert(S * (2 * t) == 2 * st) by (nonlinear_arith) requires st == S * t;
        assert(false);
    } else if e1 > e2 {
        let j = (e1 - e2 - 1) as nat;
        lemma_fp_ipow2_succ(j);
        assert((j + 1) as nat == (e1 - e2) as nat);
        let t = ipow(2, j);
        let st = s1 * t;
        assert(s1 * (2 * t) == 2 * st) by (nonlinear_arith) requires st == s1 * t;
        assert(false);
    } else {
        lemma_fp_ipow01(2);
        assert(S * 1 == S);
    }
}

// ------------------------------------------------------------------------------------------------------------------
// THE KEY LEMMA (over integers).  S is an odd integer (the truncated significand with the sticky bit below it), u = 2^k
// with k >= 2 is the unit of the rounding (at least two bits are dropped, so the half unit u/2 is even).  Every exact
// value x = X / Da that lies STRICTLY within one unit of S on either side,  S - 1 < x < S + 1,  has the same rounding
// to a multiple of u as S itself, under every mode, with the same truncated neighbour (hence the same flag), and is
// not a multiple of u: no multiple of u and no midpoint between two multiples lies inside (S - 1, S + 1) except
// possibly at S -- and S is odd.
pub proof fn lemma_fp_sticky_core(m: Mode, S: int, u: int, Da: int, X: int, t: int, mm: int)
    requires u > 0, u % 4 == 0, Da > 0, S % 2 != 0,
        (S - 1) * Da < X, X < (S + 1) * Da,
        round_def(m, S, u, mm), round_def(Mode::Zero, S, u, t),
    ensures round_def(m, X, Da * u, mm), round_def(Mode::Zero, X, Da * u, t), mm * (Da * u) != X,
{
    let v = u / 4;
    assert(u == 4 * v);
    let Dn = Da * u;
    let tu = t * u;
    let n = S - tu;
    let tv = t * v;
    assert(tu == 4 * tv) by (nonlinear_arith) requires tu == t * u, u == 4 * v, tv == t * v;
    assert(n % 2 != 0);
    assert(n != 0 && -u < n && n < u);
    let tD = t * Dn;
    assert(tD == tu * Da) by (nonlinear_arith) requires tD == t * Dn, Dn == Da * u, tu == t * u;
    assert(Dn == (4 * v) * Da) by (nonlinear_arith) requires Dn == Da * u, u == 4 * v;
    let n2 = X - tD;
    let lo = (n - 1) * Da;
    let hi = (n + 1) * Da;
    assert((S - 1) * Da == tD + lo) by (nonlinear_arith) requires S == tu + n, tD == tu * Da, lo == (n - 1) * Da;
    assert((S + 1) * Da == tD + hi) by (nonlinear_arith) requires S == tu + n, tD == tu * Da, hi == (n + 1) * Da;
    assert(lo < n2 && n2 < hi);
    let h = (2 * v) * Da;       // half of Dn
    assert(Dn == 2 * h) by (nonlinear_arith) requires Dn == (4 * v) * Da, h == (2 * v) * Da;
    if n > 0 {
        assert(lo >= 0) by (nonlinear_arith) requires lo == (n - 1) * Da, n >= 1, Da > 0;
        assert(hi <= Dn) by (nonlinear_arith) requires hi == (n + 1) * Da, n + 1 <= 4 * v, Dn == (4 * v) * Da, Da > 0;
        if 2 * n < u {
            assert(n + 1 <= 2 * v);
            assert(hi <= h) by (nonlinear_arith) requires hi == (n + 1) * Da, n + 1 <= 2 * v, h == (2 * v) * Da, Da > 0;
        } else {
            assert(n - 1 >= 2 * v);
            assert(lo >= h) by (nonlinear_arith) requires lo == (n - 1) * Da, n - 1 >= 2 * v, h == (2 * v) * Da, Da > 0;
        }
    } else {
        assert(hi <= 0) by (nonlinear_arith) requires hi == (n + 1) * Da, n <= -1, Da > 0;
        assert(lo >= -Dn) by (nonlinear_arith) requires lo == (n - 1) * Da, n - 1 >= -(4 * v), Dn == (4 * v) * Da, Da > 0;
        if 2 * (-n) < u {
            assert(n - 1 >= -(2 * v));
            assert(lo >= -h) by (nonlinear_arith) requires lo == (n - 1) * Da, n - 1 >= -(2 * v), h == (2 * v) * Da, Da > 0;
        } else {
            assert(n + 1 <= -(2 * v));
            assert(hi <= -h) by (nonlinear_arith) requires hi == (n + 1) * Da, n + 1 <= -(2 * v), h == (2 * v) * Da, Da > 0;
        }
    }
    assert(n2 != 0 && -Dn < n2 && n2 < Dn);
    assert(sign_of(n) == sign_of(n2));
    assert(int_cmp(2 * iabs(n), u) == int_cmp(2 * iabs(n2), Dn));
    // mm is one of t - 1, t, t + 1
    let a = mm - t;
    let mu = mm * u;
    assert(mu == tu + a * u) by (nonlinear_arith) requires mu == mm * u, tu == t * u, a == mm - t;
    let au = a * u;
    assert(a == 0 || a == 1 || a == -1) by (nonlinear_arith) requires au == a * u, -2 * u < au, au < 2 * u, u > 0;
    let adj = if a == 0 { Rounding::NoOp } else if a == 1 { Rounding::AddOne } else { Rounding::SubOne };
    assert(adj_int(adj) == a);
    assert(t * u + n == S);
    assert(t * Dn + n2 == X);
    lemma_mode_rep(m, t, n, u, adj);
    lemma_mode_rep(m, t, n2, Dn, adj);
    lemma_mode_rep(Mode::Zero, t, n, u, Rounding::NoOp);
    lemma_mode_rep(Mode::Zero, t, n2, Dn, Rounding::NoOp);
    assert(t + adj_int(adj) == mm);
    assert(t + adj_int(Rounding::NoOp) == t);
    // X is not a multiple of Dn
    let mD = mm * Dn;
    let aD = a * Dn;
    assert(mD == tD + aD) by (nonlinear_arith) requires mD == mm * Dn, tD == t * Dn, aD == a * Dn, a == mm - t;
    assert(aD == 0 || aD == Dn || aD == -Dn) by (nonlinear_arith) requires aD == a * Dn, a == 0 || a == 1 || a == -1;
}

// ------------------------------------------------------------------------------------------------------------------
// first stage from `repr_round(_ref)`: ONE correct rounding of an exact binary float is "its value rounded once"

/// (s1, e1) in normal form is an exact binary float whose value is the fraction N / D; `ret` is the result of
/// `repr_round(_ref)` on it at precision p >= 1
pub proof fn lemma_fp_once_of_round<const BB: Word>(m: Mode, p: usize, s1: int, e1: int, N: int, D: int, ret: Rounded<Repr<BB>>)
    requires p >= 1, D > 0, !(s1 == 0 && e1 != 0), fp_normal(2, s1),
        fx_num(2, s1, e1) * D == N * fx_den(2, e1),
        round_once(m, 2, p, s1, e1, ret),
    ensures bin_once(m, p as nat, N, D, mid_of(ret)),
{
    broadcast use ax_ndigits;
    let ep: nat = if e1 >= 0 { e1 as nat } else { 0 };
    let en: nat = if e1 < 0 { (-e1) as nat } else { 0 };
    let a = ipow(2, ep);
    let c = ipow(2, en);
    lemma_ipow_pos(2, ep);
    lemma_ipow_pos(2, en);
    lemma_fp_ipow01(2);
    let s1a = s1 * a;
    let t1 = s1a * D;
    assert(s1 * 1 == s1);
    assert(N * 1 == N);
    assert(t1 == N * c);
    let mid = mid_of(ret);
    let pn = p as nat;
    if s1 == 0 {
        assert(s1a == 0) by (nonlinear_arith) requires s1a == s1 * a, s1 == 0;
        assert(t1 == 0) by (nonlinear_arith) requires t1 == s1a * D, s1a == 0;
        assert(N == 0) by (nonlinear_arith) requires 0 == N * c, c >= 1;
    } else {
        assert(s1a != 0) by (nonlinear_arith) requires s1a == s1 * a, s1 != 0, a >= 1;
        assert(t1 != 0) by (nonlinear_arith) requires t1 == s1a * D, s1a != 0, D > 0;
        assert(N != 0) by (nonlinear_arith) requires t1 == N * c, t1 != 0;
        let nd = ndigits(2, s1);
        let cc = a * D;
        assert(cc > 0) by (nonlinear_arith) requires cc == a * D, a >= 1, D > 0;
        assert(t1 == s1 * cc) by (nonlinear_arith) requires t1 == s1a * D, s1a == s1 * a, cc == a * D;
        match ret {
            Approximation::Exact(r) => {
                let j = (pn - nd) as nat;
                let pj = ipow(2, j);
                lemma_ipow_pos(2, j);
                let mm = s1 * pj;
                let s: nat = en + j;
                let k: nat = ep;
                let X = N * ipow(2, s);
                let Dn = D * ipow(2, k);
                lemma_ipow_add(2, en, j);
                assert(X == t1 * pj) by (nonlinear_arith) requires X == N * (c * pj), t1 == N * c;
                assert(mm * Dn == t1 * pj) by (nonlinear_arith) requires mm == s1 * pj, Dn == D * a, t1 == s1 * cc, cc == a * D;
                assert(Dn > 0) by (nonlinear_arith) requires Dn == D * a, a >= 1, D > 0;
                // 2^(p-1) <= |mm| < 2^p
                lemma_fp_abs_mul(s1, pj);
                lemma_ipow_add(2, (nd - 1) as nat, j);
                lemma_ipow_add(2, nd, j);
                assert(((nd - 1) as nat + j) as nat == (pn - 1) as nat);
                assert((nd + j) as nat == pn);
                let (lo, hi, as1) = (ipow(2, (nd - 1) as nat), ipow(2, nd), iabs(s1));
                let amm = iabs(mm);
                assert(lo * pj <= amm && amm < hi * pj) by (nonlinear_arith) requires amm == as1 * pj, lo <= as1, as1 < hi, pj >= 1;
                lemma_fp_abs_mul(mm, Dn);
                let (P1, P0) = (ipow(2, pn), ipow(2, (pn - 1) as nat));
                assert(P0 * Dn <= amm * Dn && amm * Dn < P1 * Dn) by (nonlinear_arith) requires P0 <= amm, amm < P1, Dn > 0;
                lemma_round_exact(m, mm, Dn);
                // same_value(2, s1, e1, mm, k - s): k - s == e1 - j
                assert(k - s == e1 - j);
                if j == 0 {
                    assert(mm == s1) by (nonlinear_arith) requires mm == s1 * pj, pj == 1;
                    assert(mm * 1 == mm);
                } else {
                    assert((e1 - (e1 - j)) as nat == j);
                }
                assert(same_value(2, mid.s, mid.e, mm, k - s));
                assert(once_wit(m, pn, N, D, s, k, mm, mid));
            },
            Approximation::Inexact(r, adj) => {
                let shift = (nd - pn) as nat;
                let mm = choose|mm: int| #[trigger] round_witness(m, 2, s1, shift, mm, adj)
                    && same_value(2, r.significand.v(), r.exponent as int, mm, e1 + shift) && iabs(mm) <= ipow(2, pn);
                let u = ipow(2, shift);
                lemma_ipow_pos(2, shift);
                let s: nat = en;
                let k: nat = ep + shift;
                let X = N * ipow(2, s);
                let Dn = D * ipow(2, k);
                lemma_ipow_add(2, ep, shift);
                assert(X == s1 * cc);
                assert(Dn == u * cc) by (nonlinear_arith) requires Dn == D * (a * u), cc == a * D;
                assert(Dn > 0) by (nonlinear_arith) requires Dn == u * cc, u >= 1, cc > 0;
                lemma_fp_round_scale(m, s1, u, cc, mm);
                lemma_fp_round_scale(Mode::Zero, s1, u, cc, mm - adj_int(adj));
                assert(mm * u != s1);
                // range
                lemma_fp_abs_mul(s1, cc);
                lemma_ipow_add(2, (pn - 1) as nat, shift);
                lemma_ipow_add(2, pn, shift);
                assert(((pn - 1) as nat + shift) as nat == (nd - 1) as nat);
                assert((pn + shift) as nat == nd);
                let (P1, P0, as1) = (ipow(2, pn), ipow(2, (pn - 1) as nat), iabs(s1));
                assert(P0 * Dn <= as1 * cc && as1 * cc < P1 * Dn) by (nonlinear_arith)
                    requires Dn == u * cc, P0 * u <= as1, as1 < P1 * u, cc > 0;
                assert(k - s == e1 + shift);
                assert(once_wit(m, pn, N, D, s, k, mm, mid));
            },
        }
    }
}

/// a first-stage result in normal form is finite and has at most p bits (the carry case mm == +-2^p is +-1 * 2^(g+p))
pub proof fn lemma_fp_once_digits(m: Mode, p: nat, N: int, D: int, mid: Mid)
    requires p >= 1, D > 0, bin_once(m, p, N, D, mid), fp_normal(2, mid.s)
    ensures fp_mid_ok(m, p, N, D, mid), iabs(mid.s) < ipow(2, p),
{
    broadcast use ax_blen;
    lemma_ipow_pos(2, p);
    if N != 0 {
        let (s, k, mm) = choose|s: nat, k: nat, mm: int| #[trigger] once_wit(m, p, N, D, s, k, mm, mid);
        let X = N * ipow(2, s);
        let Dn = D * ipow(2, k);
        lemma_ipow_pos(2, k);
        assert(Dn > 0) by (nonlinear_arith) requires Dn == D * ipow(2, k), D > 0, ipow(2, k) >= 1;
        let (P1, P0) = (ipow(2, p), ipow(2, (p - 1) as nat));
        lemma_ipow_pos(2, (p - 1) as nat);
        let R = mm * Dn;
        let amm = iabs(mm);
        let aX = iabs(X);
        lemma_fp_abs_mul(mm, Dn);
        assert(iabs(R) == amm * Dn);
        // |mm| <= 2^p and mm != 0
        assert(amm <= P1) by (nonlinear_arith) requires amm * Dn < aX + Dn, aX < P1 * Dn, Dn > 0;
        assert(amm >= 1) by (nonlinear_arith) requires amm * Dn > aX - Dn, P0 * Dn <= aX, P0 >= 1, Dn > 0, amm >= 0;
        let g = k - s;
        if mid.e <= g {
            let j = (g - mid.e) as nat;
            lemma_ipow_pos(2, j);
            if j >= 1 {
                lemma_fp_ipow2_succ((j - 1) as nat);
                assert(((j - 1) as nat + 1) as nat == j);
                let t = ipow(2, (j - 1) as nat);
                let mt = mm * t;
                assert(mm * (2 * t) == 2 * mt) by (nonlinear_arith) requires mt == mm * t;
                assert(mid.s == 0);
                assert(mm == 0) by (nonlinear_arith) requires 0 == mm * (2 * t), t >= 1;
                assert(false);
            } else {
                lemma_fp_ipow01(2);
                assert(mm * 1 == mm);
                assert(mid.s == mm);
                if amm == P1 {
                    lemma_fp_ipow2_succ((p - 1) as nat);
                    assert(((p - 1) as nat + 1) as nat == p);
                    assert(false);
                }
            }
        } else {
            let j = (mid.e - g) as nat;
            lemma_fp_ipow2_succ((j - 1) as nat);
            assert(((j - 1) as nat + 1) as nat == j);
            let t2 = ipow(2, j);
            lemma_fp_abs_mul(mid.s, t2);
            let ams = iabs(mid.s);
            assert(ams * 2 <= amm) by (nonlinear_arith) requires amm == ams * t2, t2 >= 2, ams >= 0;
            assert(ams >= 1) by (nonlinear_arith) requires amm == ams * t2, amm >= 1, ams >= 0;
        }
    }
    lemma_fp_blen_le(mid.s, p);
}

// ------------------------------------------------------------------------------------------------------------------
// convert_to_binary_once: exact division with guard bits, sticky bit, then ONE rounding

/// fx_num / fx_den of a binary float scaled to a common exponent lo <= min(e, 0)
pub proof fn lemma_fp_scaled(s: int, e: int, lo: int)
    requires lo <= e, lo <= 0
    ensures fx_num(2, s, e) * ipow(2, (-lo) as nat) == (s * ipow(2, (e - lo) as nat)) * fx_den(2, e)
{
    let z = ipow(2, (-lo) as nat);
    let w = ipow(2, (e - lo) as nat);
    if e >= 0 {
        lemma_ipow_add(2, e as nat, (-lo) as nat);
        assert((e as nat + (-lo) as nat) as nat == (e - lo) as nat);
        let pe = ipow(2, e as nat);
        assert((s * pe) * z == s * w) by (nonlinear_arith) requires w == pe * z;
        assert((s * w) * 1 == s * w);
    } else {
        lemma_ipow_add(2, (e - lo) as nat, (-e) as nat);
        assert(((e - lo) as nat + (-e) as nat) as nat == (-lo) as nat);
        let pe = ipow(2, (-e) as nat);
        assert(s * z == (s * w) * pe) by (nonlinear_arith) requires z == w * pe;
    }
}
/// the value of a binary float does not depend on the representation: (s1, e1) and (s2, e2) denote the same number and
/// (s2, e2) is the fraction N / D  ==>  so is (s1, e1)
pub proof fn lemma_fp_value_transfer(s1: int, e1: int, s2: int, e2: int, N: int, D: int)
    requires same_value(2, s1, e1, s2, e2), fx_num(2, s2, e2) * D == N * fx_den(2, e2)
    ensures fx_num(2, s1, e1) * D == N * fx_den(2, e1)
{
    let m12 = if e1 <= e2 { e1 } else { e2 };
    let lo = if m12 <= 0 { m12 } else { 0 };
    let z = ipow(2, (-lo) as nat);
    lemma_ipow_pos(2, (-lo) as nat);
    let w1 = ipow(2, (e1 - lo) as nat);
    let w2 = ipow(2, (e2 - lo) as nat);
    let t1 = s1 * w1;
    let t2 = s2 * w2;
    if e1 <= e2 {
        lemma_ipow_add(2, (e2 - e1) as nat, (e1 - lo) as nat);
        assert(((e2 - e1) as nat + (e1 - lo) as nat) as nat == (e2 - lo) as nat);
        let d = ipow(2, (e2 - e1) as nat);
        assert(t1 == t2) by (nonlinear_arith) requires t1 == s1 * w1, s1 == s2 * d, t2 == s2 * w2, w2 == d * w1;
    } else {
        lemma_ipow_add(2, (e1 - e2) as nat, (e2 - lo) as nat);
        assert(((e1 - e2) as nat + (e2 - lo) as nat) as nat == (e1 - lo) as nat);
        let d = ipow(2, (e1 - e2) as nat);
        assert(t1 == t2) by (nonlinear_arith) requires t1 == s1 * w1, s2 == s1 * d, t2 == s2 * w2, w1 == d * w2;
    }
    lemma_fp_scaled(s1, e1, lo);
    lemma_fp_scaled(s2, e2, lo);
    let (A1, F1, A2, F2) = (fx_num(2, s1, e1), fx_den(2, e1), fx_num(2, s2, e2), fx_den(2, e2));
    lemma_fp_den_pos(2, e1);
    lemma_fp_den_pos(2, e2);
    assert(A1 * z == t1 * F1);
    assert(A2 * z == t1 * F2);
    let L = A1 * D;
    let R = N * F1;
    let c = z * F2;
    assert(c >= 1) by (nonlinear_arith) requires c == z * F2, z >= 1, F2 >= 1;
    let tFD = (t1 * F1) * D;
    assert(L * z == tFD) by (nonlinear_arith) requires L == A1 * D, A1 * z == t1 * F1, tFD == (t1 * F1) * D;
    let lhs = L * c;
    assert(lhs == tFD * F2) by (nonlinear_arith) requires lhs == L * c, c == z * F2, L * z == tFD;
    let A2D = A2 * D;
    assert(R * F2 == A2D * F1) by (nonlinear_arith) requires R == N * F1, A2D == N * F2;
    let rhs = R * c;
    let A2z = A2 * z;
    assert(rhs == (A2z * D) * F1) by (nonlinear_arith) requires rhs == R * c, c == z * F2, R * F2 == A2D * F1, A2D == A2 * D, A2z == A2 * z;
    assert((A2z * D) * F1 == tFD * F2) by (nonlinear_arith) requires A2z == t1 * F2, tFD == (t1 * F1) * D;
    assert(L == R) by (nonlinear_arith) requires L * c == R * c, c >= 1;
}
/// the normalised representation (s1 odd) of a non-zero binary float (S, e2): exponent not below, same leading position
pub proof fn lemma_fp_norm_room(s1: int, e1: int, S: int, e2: int)
    requires same_value(2, s1, e1, S, e2), S != 0, s1 % 2 != 0
    ensures e1 >= e2, ndigits(2, s1) + e1 == ndigits(2, S) + e2
{
    if e1 < e2 {
        let j = (e2 - e1 - 1) as nat;
        lemma_fp_ipow2_succ(j);
        assert((j + 1) as nat == (e2 - e1) as nat);
        let t = ipow(2, j);
        let st = S * t;
        assert(S * (2 * t) == 2 * st) by (nonlinear_arith) requires st == S * t;
        assert(false);
    } else if e1 == e2 {
        lemma_fp_ipow01(2);
        assert(S * 1 == S);
        assert(s1 == S);
    } else {
        // S == s1 * 2^(e1 - e2)
        lemma_nd_shift(2, s1, (e1 - e2) as nat);
        assert(S == s1 * ipow(2, (e1 - e2) as nat));
    }
}
/// b <= 2^64  ==>  b^k <= 2^W whenever 64 * k <= W
pub proof fn lemma_fp_pow_bits(b: int, k: nat, W: nat)
    requires 1 <= b <= 0x1_0000_0000_0000_0000, 64 * k <= W
    ensures ipow(b, k) <= ipow(2, W), ipow(b, k) >= 1
    decreases k
{
    lemma_ipow_pos(b, k);
    if k == 0 {
        lemma_ipow_pos(2, W);
    } else {
        lemma_fp_pow_bits(b, (k - 1) as nat, (W - 64) as nat);
        lemma_ipow_add(2, 64, (W - 64) as nat);
        assert((64 + (W - 64) as nat) as nat == W);
        assert(ipow(2, 64) == 0x1_0000_0000_0000_0000) by (compute);
        let (x, y, c) = (ipow(b, (k - 1) as nat), ipow(2, (W - 64) as nat), ipow(2, 64));
        assert(b * x <= c * y) by (nonlinear_arith) requires 1 <= b <= c, 1 <= x <= y;
    }
}
/// v < 2^n as a bound of the bit length, and back
pub proof fn lemma_fp_blen_bound(v: int)
    ensures iabs(v) < ipow(2, blen(v)), v != 0 ==> ipow(2, (blen(v) - 1) as nat) <= iabs(v)
{
    broadcast use ax_ndigits;
    lemma_fp_blen_nd(v);
    lemma_fp_ipow01(2);
}
/// the shift of convert_to_binary_once gives the quotient at least p + 2 bits: with
/// bits(num) + sh >= p + 2 + bits(den)  the quotient of num * 2^sh by den is at least 2^(p+1)
pub proof fn lemma_fp_quot_bits(num: int, den: int, sh: nat, p: nat, q: int, r: int)
    requires num >= 1, den >= 1, blen(num) + sh >= p + 2 + blen(den),
        num * ipow(2, sh) == q * den + r, 0 <= r < den,
    ensures q >= ipow(2, p + 1)
{
    lemma_fp_blen_bound(num);
    lemma_fp_blen_bound(den);
    let (bn, bd) = (blen(num), blen(den));
    let P = ipow(2, p + 1);
    lemma_ipow_pos(2, p + 1);
    // num * 2^sh >= 2^(bn - 1 + sh) >= 2^(p + 1 + bd) = P * 2^bd > P * den
    lemma_ipow_add(2, (bn - 1) as nat, sh);
    lemma_ipow_le(2, (p + 1 + bd) as nat, ((bn - 1) as nat + sh) as nat);
    lemma_ipow_add(2, p + 1, bd);
    let (lo, ps, hd) = (ipow(2, (bn - 1) as nat), ipow(2, sh), ipow(2, bd));
    lemma_ipow_pos(2, sh);
    let X0 = num * ps;
    assert(X0 >= lo * ps) by (nonlinear_arith) requires X0 == num * ps, num >= lo, ps >= 1;
    assert(X0 >= P * hd);
    let Pd = P * den;
    assert(Pd < P * hd) by (nonlinear_arith) requires Pd == P * den, den < hd, P >= 1;
    // q * den + r > P * den with r < den  ==>  q >= P
    let qd = q * den;
    assert(q >= P) by (nonlinear_arith) requires qd == q * den, Pd == P * den, qd + r > Pd, r < den, den >= 1;
}
/// digit count of the sticky-extended significand (resource bound only): |S| <= 2q + 1 with q <= num * 2^sh < 2^(nb + sh)
pub proof fn lemma_fp_near_room(num: int, den: int, sh: nat, nb: nat, q: int, r: int, S: int)
    requires 0 <= num < ipow(2, nb), den >= 1, num * ipow(2, sh) == q * den + r, 0 <= r, q >= 0, iabs(S) <= 2 * q + 1
    ensures ndigits(2, S) <= nb + sh + 2
{
    let ps = ipow(2, sh);
    lemma_ipow_pos(2, sh);
    lemma_ipow_add(2, nb, sh);
    let X0 = num * ps;
    let hb = ipow(2, nb);
    assert(X0 <= (hb - 1) * ps) by (nonlinear_arith) requires X0 == num * ps, num <= hb - 1, ps >= 1;
    assert((hb - 1) * ps == hb * ps - ps) by (nonlinear_arith);
    let qd = q * den;
    assert(q <= qd) by (nonlinear_arith) requires qd == q * den, den >= 1, q >= 0;
    lemma_fp_ipow2_succ(nb + sh);
    assert(iabs(S) <= ipow(2, nb + sh + 1));
    lemma_ndigits_le_pow(2, S, nb + sh + 1);
}

/// THE ASSEMBLY for an inexact division (sticky bit set).  S is odd with at least p + 2 bits, the exact value x = N / D
/// scaled by 2^s lies strictly within one unit of S on either side, `ret` is the result of `repr_round` on (S, -s):
/// then ret is x rounded ONCE to p bits, and it is Inexact.
pub proof fn lemma_fp_once_sticky<const BB: Word>(m: Mode, p: usize, N: int, D: int, S: int, s: nat, ret: Rounded<Repr<BB>>)
    requires p >= 1, D > 0, S % 2 != 0, ndigits(2, S) >= p + 2,
        (S - 1) * D < N * ipow(2, s), N * ipow(2, s) < (S + 1) * D,
        round_once(m, 2, p, S, -(s as int), ret),
    ensures bin_once(m, p as nat, N, D, mid_of(ret)), ret is Inexact,
{
    broadcast use ax_ndigits;
    let pn = p as nat;
    let X = N * ipow(2, s);
    lemma_ipow_pos(2, s);
    if N == 0 {
        assert(X == 0) by (nonlinear_arith) requires X == N * ipow(2, s), N == 0;
        assert(S - 1 < 0) by (nonlinear_arith) requires (S - 1) * D < 0, D > 0;
        assert(S + 1 > 0) by (nonlinear_arith) requires 0 < (S + 1) * D, D > 0;
        assert(false);
    }
    let n = ndigits(2, S);
    let kk = (n - pn) as nat;
    let mid = mid_of(ret);
    match ret {
        Approximation::Exact(r) => { assert(false); },
        Approximation::Inexact(r, adj) => {
            let mm = choose|mm: int| #[trigger] round_witness(m, 2, S, kk, mm, adj)
                && same_value(2, r.significand.v(), r.exponent as int, mm, -(s as int) + kk) && iabs(mm) <= ipow(2, pn);
            let u = ipow(2, kk);
            // u is a multiple of 4
            lemma_fp_ipow2_succ((kk - 1) as nat);
            lemma_fp_ipow2_succ((kk - 2) as nat);
            assert(((kk - 1) as nat + 1) as nat == kk);
            assert(((kk - 2) as nat + 1) as nat == (kk - 1) as nat);
            assert(u == 4 * ipow(2, (kk - 2) as nat));
            lemma_fp_sticky_core(m, S, u, D, X, mm - adj_int(adj), mm);
            let Dn = D * ipow(2, kk);
            // range: 2^(p-1) * Dn <= |X| < 2^p * Dn   (2^(n-1) is even and |S| is odd: 2^(n-1) <= |S| - 1, |S| + 1 <= 2^n)
            lemma_ipow_add(2, (pn - 1) as nat, kk);
            lemma_ipow_add(2, pn, kk);
            assert(((pn - 1) as nat + kk) as nat == (n - 1) as nat);
            assert((pn + kk) as nat == n);
            lemma_fp_ipow2_succ((n - 2) as nat);
            assert(((n - 2) as nat + 1) as nat == (n - 1) as nat);
            let (P1, P0) = (ipow(2, pn), ipow(2, (pn - 1) as nat));
            let (lo, hi) = (P0 * u, P1 * u);
            assert(lo <= iabs(S) - 1 && iabs(S) + 1 <= hi);
            let aX = iabs(X);
            let loD = lo * D;
            let hiD = hi * D;
            if S > 0 {
                assert(loD <= (S - 1) * D) by (nonlinear_arith) requires loD == lo * D, lo <= S - 1, D > 0;
                assert((S + 1) * D <= hiD) by (nonlinear_arith) requires hiD == hi * D, S + 1 <= hi, D > 0;
            } else {
                assert((S + 1) * D <= -loD) by (nonlinear_arith) requires loD == lo * D, S + 1 <= -lo, D > 0;
                assert(-hiD <= (S - 1) * D) by (nonlinear_arith) requires hiD == hi * D, -hi <= S - 1, D > 0;
            }
            assert(loD < aX && aX < hiD);
            assert(P0 * Dn == loD) by (nonlinear_arith) requires Dn == D * u, lo == P0 * u, loD == lo * D;
            assert(P1 * Dn == hiD) by (nonlinear_arith) requires Dn == D * u, hi == P1 * u, hiD == hi * D;
            assert(kk - s == -(s as int) + kk);
            assert(once_wit(m, pn, N, D, s, kk, mm, mid));
        },
    }
}

/// THE ASSEMBLY of convert_to_binary_once on its exact path.  |N| * 2^sh = q * D + r (0 <= r < D), the quotient has at
/// least p + 2 bits, S = +-(2q + sticky) with the sign of N at exponent -(sh + 1), (s1, e1) the normalised representation
/// `Repr::new` makes of it, `ret` the result of `repr_round` on (s1, e1): then ret is N / D rounded ONCE to p bits.
pub proof fn lemma_fp_once_near<const BB: Word>(m: Mode, p: usize, N: int, D: int, sh: nat, q: int, r: int, S: int, s1: int, e1: int, ret: Rounded<Repr<BB>>)
    requires p >= 1, D > 0, N != 0,
        iabs(N) * ipow(2, sh) == q * D + r, 0 <= r < D,
        q >= ipow(2, (p + 1) as nat),
        S == (if N < 0 { -(2 * q + (if r != 0 { 1int } else { 0int })) } else { 2 * q + (if r != 0 { 1int } else { 0int }) }),
        same_value(2, s1, e1, S, -(sh as int) - 1), fp_normal(2, s1),
        round_once(m, 2, p, s1, e1, ret),
    ensures bin_once(m, p as nat, N, D, mid_of(ret)),
{
    broadcast use ax_ndigits;
    let pn = p as nat;
    let e2 = -(sh as int) - 1;
    let P = ipow(2, pn + 1);
    lemma_ipow_pos(2, pn + 1);
    let ps = ipow(2, sh);
    lemma_ipow_pos(2, sh);
    lemma_fp_ipow2_succ(sh);
    let s: nat = sh + 1;
    let X = N * ipow(2, s);
    let aN = iabs(N);
    let X0 = aN * ps;
    let qD = q * D;
    assert(S != 0);
    if s1 == 0 { lemma_fp_same_zero(s1, e1, S, e2); }
    if r == 0 {
        // exact: S * 2^e2 == N / D
        assert((-e2) as nat == s);
        if N > 0 {
            assert(N * (2 * ps) == (2 * q) * D) by (nonlinear_arith) requires N * ps == qD, qD == q * D;
        } else {
            assert(N * (2 * ps) == (-(2 * q)) * D) by (nonlinear_arith) requires (-N) * ps == qD, qD == q * D;
        }
        assert(fx_num(2, S, e2) * D == N * fx_den(2, e2));
        lemma_fp_value_transfer(s1, e1, S, e2, N, D);
        lemma_fp_once_of_round(m, p, s1, e1, N, D, ret);
    } else {
        assert(S % 2 != 0);
        lemma_fp_odd_norm(s1, e1, S, e2);
        // S - 1 < x * 2^s < S + 1
        let q2D = (2 * q) * D;
        let q22D = (2 * q + 2) * D;
        assert(q2D == 2 * qD) by (nonlinear_arith) requires q2D == (2 * q) * D, qD == q * D;
        assert(q22D == 2 * qD + 2 * D) by (nonlinear_arith) requires q22D == (2 * q + 2) * D, qD == q * D;
        if N > 0 {
            assert(X == 2 * X0) by (nonlinear_arith) requires X == N * (2 * ps), X0 == N * ps;
            assert((S - 1) * D == q2D && (S + 1) * D == q22D);
        } else {
            assert(X == -(2 * X0)) by (nonlinear_arith) requires X == N * (2 * ps), X0 == (-N) * ps;
            assert((S + 1) * D == -q2D) by (nonlinear_arith) requires S + 1 == -(2 * q), q2D == (2 * q) * D;
            assert((S - 1) * D == -q22D) by (nonlinear_arith) requires S - 1 == -(2 * q + 2), q22D == (2 * q + 2) * D;
        }
        // at least p + 3 digits
        let n = ndigits(2, S);
        if n < pn + 3 {
            lemma_ipow_le(2, n, pn + 2);
            lemma_fp_ipow2_succ(pn + 1);
            assert(false);
        }
        lemma_fp_once_sticky(m, p, N, D, S, s, ret);
    }
}

/// the far-range shortcut: both float tests seen through the ASSUMED enclosure (ax_fp_est_gt / _lt / ax_fp_gt_mono)
pub proof fn lemma_fp_far(lb: f32, ub: f32, aN: int, D: int)
    requires D > 0, aN >= 0, fp_est_lo(lb, aN, D), fp_est_hi(ub, aN, D),
        fp_f32_gt(lb, 4096) || fp_f32_lt(ub, -4096),
    ensures fp_f32_gt(lb, 0) ==> aN > ipow(2, 4096) * D,
        !fp_f32_gt(lb, 0) ==> aN * ipow(2, 4096) < D,
{
    lemma_ipow_pos(2, 4096);
    lemma_fp_ipow01(2);
    let P = ipow(2, 4096);
    if fp_f32_gt(lb, 4096) {
        ax_fp_gt_mono(lb, 4096, 0);
        ax_fp_est_gt(lb, 4096, aN, D);
    } else {
        ax_fp_est_lt(ub, 4096, aN, D);
        if fp_f32_gt(lb, 0) {
            ax_fp_est_gt(lb, 0, aN, D);
            assert(1 * D == D);
            assert(aN * P >= aN) by (nonlinear_arith) requires aN >= 0, P >= 1;
            assert(false);
        }
    }
}

// ------------------------------------------------------------------------------------------------------------------
// the four to_f32 / to_f64 functions

/// B == 2: the first stage is `repr_round_ref` on the operand itself (normal form: Repr invariant)
pub proof fn lemma_fp_mid_of_round<const BB: Word>(m: Mode, p: usize, sig: int, e: int, rr: Rounded<Repr<BB>>)
    requires p >= 1, BB == 2, !(sig == 0 && e != 0), fp_normal(2, sig),
        round_once(m, 2, p, sig, e, rr), fp_inexact_normal(2, rr),
    ensures fp_mid_ok(m, p as nat, fx_num(2, sig, e), fx_den(2, e), mid_of(rr)),
        fp_into_pre(rd_val0(rr), p as nat),
{
    lemma_fp_den_pos(2, e);
    lemma_fp_once_of_round(m, p, sig, e, fx_num(2, sig, e), fx_den(2, e), rr);
    lemma_fp_once_digits(m, p as nat, fx_num(2, sig, e), fx_den(2, e), mid_of(rr));
}
/// `first.and_then(|v| v.into_f32_internal())`: the two contracts composed
pub proof fn lemma_fp_compose32<const BB: Word>(m: Mode, N: int, D: int, first: Rounded<Repr<BB>>, o: Rounded<f32>)
    requires fp_first(m, 24, N, D, mid_of(first)), fp_into32_post(rd_val0(first), o)
    ensures fp_two_stage32(m, N, D, mid_of(first), and_then_spec(first, o))
{
    let mid = mid_of(first);
    assert(fp_enc32(mid.s, mid.e, o));
    assert(and_then_spec(first, o) == fp_then(mid.adj, o));
}
pub proof fn lemma_fp_compose64<const BB: Word>(m: Mode, N: int, D: int, first: Rounded<Repr<BB>>, o: Rounded<f64>)
    requires fp_first(m, 53, N, D, mid_of(first)), fp_into64_post(rd_val0(first), o)
    ensures fp_two_stage64(m, N, D, mid_of(first), and_then_spec(first, o))
{
    let mid = mid_of(first);
    assert(fp_enc64(mid.s, mid.e, o));
    assert(and_then_spec(first, o) == fp_then(mid.adj, o));
}
