// ---- fp_lemmas.rs: lemmas of the units float_to_prim_* (float/src/convert.rs `Context::convert_to_binary_once`,
// `FBig::{to_f32, to_f64}`, `Repr::{to_f32, to_f64}`).  Nothing trusted here.
// Needs round_prelude.rs, round_int_stubs.rs, round_float_repr.rs, conv_float.rs, conv_float_stubs.rs, fp_spec.rs.

// ------------------------------------------------------------------------------------------------------------------
// small arithmetic facts

pub proof fn lemma_fp_abs_mul(x: int, y: int)
    ensures iabs(x * y) == iabs(x) * iabs(y)
{
    let (ax, ay, xy) = (iabs(x), iabs(y), x * y);
    assert(iabs(xy) == ax * ay) by (nonlinear_arith)
        requires xy == x * y, ax == (if x < 0 { -x } else { x }), ay == (if y < 0 { -y } else { y });
}
pub proof fn lemma_fp_ipow01(b: int)
    ensures ipow(b, 0) == 1, ipow(b, 1) == b
{
    assert(ipow(b, 1) == b * ipow(b, 0));
}
/// 2^(j+1) == 2 * 2^j: a positive power of two is even
pub proof fn lemma_fp_ipow2_succ(j: nat)
    ensures ipow(2, j + 1) == 2 * ipow(2, j), ipow(2, j) >= 1
{
    lemma_ipow_pos(2, j);
    assert(ipow(2, j + 1) == 2 * ipow(2, ((j + 1) - 1) as nat));
}
pub proof fn lemma_fp_den_pos(b: int, e: int)
    requires b >= 1
    ensures fx_den(b, e) >= 1
{
    if e < 0 { lemma_ipow_pos(b, (-e) as nat); }
}
/// a zero significand denotes zero in every representation
pub proof fn lemma_fp_same_zero(s1: int, e1: int, s2: int, e2: int)
    requires same_value(2, s1, e1, s2, e2), s1 == 0
    ensures s2 == 0
{
    if e1 <= e2 {
        let pw2 = ipow(2, (e2 - e1) as nat);
        lemma_ipow_pos(2, (e2 - e1) as nat);
        assert(s2 == 0) by (nonlinear_arith) requires 0 == s2 * pw2, pw2 >= 1;
    } else {
        let pw2 = ipow(2, (e1 - e2) as nat);
        assert(0 * pw2 == 0);
    }
}
/// something can only be cut off from a non-zero value
pub proof fn lemma_fp_trunc_nonzero(q: int, N: int, D: int, ws: int, we: int)
    requires D > 0, fp_trunc_at(q, N, D, ws, we)
    ensures N != 0
{
    let L = ndigits(2, ws) as int;
    let gq = if q > L { q - L } else { 0 };
    let ex = we - gq;
    let pg = ipow(2, gq as nat);
    let ps = ipow(2, (if ex < 0 { -ex } else { 0 }) as nat);
    let pk = ipow(2, (if ex > 0 { ex } else { 0 }) as nat);
    lemma_ipow_pos(2, gq as nat);
    lemma_ipow_pos(2, (if ex > 0 { ex } else { 0 }) as nat);
    let A = iabs(ws) * pg;
    let Da = D * pk;
    let Xa = iabs(N) * ps;
    if N == 0 {
        assert(Xa == 0) by (nonlinear_arith) requires Xa == iabs(N) * ps, iabs(N) == 0;
        assert(A >= 0) by (nonlinear_arith) requires A == iabs(ws) * pg, iabs(ws) >= 0, pg >= 1;
        assert(A * Da >= 0) by (nonlinear_arith) requires A >= 0, Da == D * pk, D > 0, pk >= 1;
        assert(false);
    }
}
/// vstd's pow2 is ipow(2, .)
pub proof fn lemma_fp_pow2_ipow(n: nat)
    ensures pow2(n) == ipow(2, n)
    decreases n
{
    if n == 0 {
        lemma2_to64();
    } else {
        lemma_fp_pow2_ipow((n - 1) as nat);
        lemma_pow2_succ((n - 1) as nat);
        assert(((n - 1) as nat + 1) as nat == n);
    }
}
/// the bit length (conv_float_stubs.rs, vstd pow2) is the base-2 digit count (round_float_repr.rs, ipow)
pub proof fn lemma_fp_blen_nd(v: int)
    ensures blen(v) == ndigits(2, v)
{
    broadcast use ax_blen, ax_ndigits;
    if v != 0 {
        let k = blen(v);
        lemma_fp_pow2_ipow(k);
        lemma_fp_pow2_ipow((k - 1) as nat);
        lemma_nd_unique(2, v, k);
    }
}
/// |v| < 2^p  ==>  at most p bits
pub proof fn lemma_fp_blen_le(v: int, p: nat)
    requires iabs(v) < ipow(2, p)
    ensures blen(v) <= p
{
    broadcast use ax_ndigits;
    lemma_fp_blen_nd(v);
    let n = ndigits(2, v);
    if n > p {
        lemma_ipow_le(2, p, (n - 1) as nat);
    }
}

/// scaling numerator and denominator by c > 0 does not change the rounding (copy of lib/tf_lemmas.rs lemma_tf_round_scale)
pub proof fn lemma_fp_round_scale(m: Mode, X: int, D: int, c: int, r: int)
    requires D > 0, c > 0, round_def(m, X, D, r)
    ensures round_def(m, X * c, D * c, r), (r * D == X) == (r * (D * c) == X * c)
{
    let R = r * D;
    let (X2, D2) = (X * c, D * c);
    let R2 = r * D2;
    assert(R2 == R * c) by (nonlinear_arith) requires R2 == r * D2, D2 == D * c, R == r * D;
    let e = R - X;
    let e2 = R2 - X2;
    assert(e2 == e * c) by (nonlinear_arith) requires e2 == R2 - X2, R2 == R * c, X2 == X * c, e == R - X;
    assert(-D2 < e2 && e2 < D2) by (nonlinear_arith) requires e2 == e * c, D2 == D * c, -D < e, e < D, c > 0;
    assert((e == 0) == (e2 == 0)) by (nonlinear_arith) requires e2 == e * c, c > 0;
    assert((e > 0) == (e2 > 0)) by (nonlinear_arith) requires e2 == e * c, c > 0;
    assert((X > 0) == (X2 > 0) && (X < 0) == (X2 < 0)) by (nonlinear_arith) requires X2 == X * c, c > 0;
    assert((R > 0) == (R2 > 0) && (R < 0) == (R2 < 0)) by (nonlinear_arith) requires R2 == R * c, c > 0;
    let (a, a2) = (iabs(e), iabs(e2));
    assert(a2 == a * c) by (nonlinear_arith) requires e2 == e * c, c > 0, a == (if e < 0 { -e } else { e }), a2 == (if e2 < 0 { -e2 } else { e2 });
    assert((2 * a <= D) == (2 * a2 <= D2) && (2 * a == D) == (2 * a2 == D2)) by (nonlinear_arith)
        requires a2 == a * c, D2 == D * c, c > 0;
}

/// two odd (or both normalised, one odd) binary significands denoting the same number are the same representation
pub proof fn lemma_fp_odd_norm(s1: int, e1: int, S: int, e2: int)
    requires same_value(2, s1, e1, S, e2), S % 2 != 0, s1 % 2 != 0
    ensures s1 == S, e1 == e2
{
    if e1 < e2 {
        let j = (e2 - e1 - 1) as nat;
        lemma_fp_ipow2_succ(j);
        assert((j + 1) as nat == (e2 - e1) as nat);
        let t = ipow(2, j);
        let st = S * t;
        assert(S * (2 * t) == 2 * st) by (nonlinear_arith) requires st == S * t;
        assert(false);
    } else if e1 > e2 {
        let j = (e1 - e2 - 1) as nat;
        lemma_fp_ipow2_succ(j);
        assert((j + 1) as nat == (e1 - e2) as nat);
        let t = ipow(2, j);
        let st = s1 * t;
        assert(s1 * (2 * t) == 2 * st) by (nonlinear_arith) requires st == s1 * t;
        assert(false);
    } else {
        lemma_fp_ipow01(2);
        assert(S * 1 == S);
    }
}

// ------------------------------------------------------------------------------------------------------------------
// THE KEY LEMMA (over integers).  S is an odd integer (the truncated significand with the sticky bit below it), u = 2^k
// with k >= 2 is the unit of the rounding (at least two bits are dropped, so the half unit u/2 is even).  Every exact
// value x = X / Da that lies STRICTLY within one unit of S on either side,  S - 1 < x < S + 1,  has the same rounding
// to a multiple of u as S itself, under every mode, with the same truncated neighbour (hence the same flag), and is
// not a multiple of u: no multiple of u and no midpoint between two multiples lies inside (S - 1, S + 1) except
// possibly at S -- and S is odd.
pub proof fn lemma_fp_sticky_core(m: Mode, S: int, u: int, Da: int, X: int, t: int, mm: int)
    requires u > 0, u % 4 == 0, Da > 0, S % 2 != 0,
        (S - 1) * Da < X, X < (S + 1) * Da,
        round_def(m, S, u, mm), round_def(Mode::Zero, S, u, t),
    ensures round_def(m, X, Da * u, mm), round_def(Mode::Zero, X, Da * u, t), mm * (Da * u) != X,
{
    let v = u / 4;
    assert(u == 4 * v);
    let Dn = Da * u;
    let tu = t * u;
    let n = S - tu;
    let tv = t * v;
    assert(tu == 4 * tv) by (nonlinear_arith) requires tu == t * u, u == 4 * v, tv == t * v;
    assert(n % 2 != 0);
    assert(n != 0 && -u < n && n < u);
    let tD = t * Dn;
    assert(tD == tu * Da) by (nonlinear_arith) requires tD == t * Dn, Dn == Da * u, tu == t * u;
    assert(Dn == (4 * v) * Da) by (nonlinear_arith) requires Dn == Da * u, u == 4 * v;
    let n2 = X - tD;
    let lo = (n - 1) * Da;
    let hi = (n + 1) * Da;
    assert((S - 1) * Da == tD + lo) by (nonlinear_arith) requires S == tu + n, tD == tu * Da, lo == (n - 1) * Da;
    assert((S + 1) * Da == tD + hi) by (nonlinear_arith) requires S == tu + n, tD == tu * Da, hi == (n + 1) * Da;
    assert(lo < n2 && n2 < hi);
    let h = (2 * v) * Da;       // half of Dn
    assert(Dn == 2 * h) by (nonlinear_arith) requires Dn == (4 * v) * Da, h == (2 * v) * Da;
    if n > 0 {
        assert(lo >= 0) by (nonlinear_arith) requires lo == (n - 1) * Da, n >= 1, Da > 0;
        assert(hi <= Dn) by (nonlinear_arith) requires hi == (n + 1) * Da, n + 1 <= 4 * v, Dn == (4 * v) * Da, Da > 0;
        if 2 * n < u {
            assert(n + 1 <= 2 * v);
            assert(hi <= h) by (nonlinear_arith) requires hi == (n + 1) * Da, n + 1 <= 2 * v, h == (2 * v) * Da, Da > 0;
        } else {
            assert(n - 1 >= 2 * v);
            assert(lo >= h) by (nonlinear_arith) requires lo == (n - 1) * Da, n - 1 >= 2 * v, h == (2 * v) * Da, Da > 0;
        }
    } else {
        assert(hi <= 0) by (nonlinear_arith) requires hi == (n + 1) * Da, n <= -1, Da > 0;
        assert(lo >= -Dn) by (nonlinear_arith) requires lo == (n - 1) * Da, n - 1 >= -(4 * v), Dn == (4 * v) * Da, Da > 0;
        if 2 * (-n) < u {
            assert(n - 1 >= -(2 * v));
            assert(lo >= -h) by (nonlinear_arith) requires lo == (n - 1) * Da, n - 1 >= -(2 * v), h == (2 * v) * Da, Da > 0;
        } else {
            assert(n + 1 <= -(2 * v));
            assert(hi <= -h) by (nonlinear_arith) requires hi == (n + 1) * Da, n + 1 <= -(2 * v), h == (2 * v) * Da, Da > 0;
        }
    }
    assert(n2 != 0 && -Dn < n2 && n2 < Dn);
    assert(sign_of(n) == sign_of(n2));
    assert(int_cmp(2 * iabs(n), u) == int_cmp(2 * iabs(n2), Dn));
    // mm is one of t - 1, t, t + 1
    let a = mm - t;
    let mu = mm * u;
    assert(mu == tu + a * u) by (nonlinear_arith) requires mu == mm * u, tu == t * u, a == mm - t;
    let au = a * u;
    assert(a == 0 || a == 1 || a == -1) by (nonlinear_arith) requires au == a * u, -2 * u < au, au < 2 * u, u > 0;
    let adj = if a == 0 { Rounding::NoOp } else if a == 1 { Rounding::AddOne } else { Rounding::SubOne };
    assert(adj_int(adj) == a);
    assert(t * u + n == S);
    assert(t * Dn + n2 == X);
    lemma_mode_rep(m, t, n, u, adj);
    lemma_mode_rep(m, t, n2, Dn, adj);
    lemma_mode_rep(Mode::Zero, t, n, u, Rounding::NoOp);
    lemma_mode_rep(Mode::Zero, t, n2, Dn, Rounding::NoOp);
    assert(t + adj_int(adj) == mm);
    assert(t + adj_int(Rounding::NoOp) == t);
    // X is not a multiple of Dn
    let mD = mm * Dn;
    let aD = a * Dn;
    assert(mD == tD + aD) by (nonlinear_arith) requires mD == mm * Dn, tD == t * Dn, aD == a * Dn, a == mm - t;
    assert(aD == 0 || aD == Dn || aD == -Dn) by (nonlinear_arith) requires aD == a * Dn, a == 0 || a == 1 || a == -1;
}

// ------------------------------------------------------------------------------------------------------------------
// first stage from `repr_round(_ref)`: ONE correct rounding of an exact binary float is "its value rounded once"

/// (s1, e1) in normal form is an exact binary float whose value is the fraction N / D; `ret` is the result of
/// `repr_round(_ref)` on it at precision p >= 1
pub proof fn lemma_fp_once_of_round<const BB: Word>(m: Mode, p: usize, s1: int, e1: int, N: int, D: int, ret: Rounded<Repr<BB>>)
    requires p >= 1, D > 0, !(s1 == 0 && e1 != 0), fp_normal(2, s1),
        fx_num(2, s1, e1) * D == N * fx_den(2, e1),
        round_once(m, 2, p, s1, e1, ret),
    ensures bin_once(m, p as nat, N, D, mid_of(ret)),
{
    broadcast use ax_ndigits;
    let ep: nat = if e1 >= 0 { e1 as nat } else { 0 };
    let en: nat = if e1 < 0 { (-e1) as nat } else { 0 };
    let a = ipow(2, ep);
    let c = ipow(2, en);
    lemma_ipow_pos(2, ep);
    lemma_ipow_pos(2, en);
    lemma_fp_ipow01(2);
    let s1a = s1 * a;
    let t1 = s1a * D;
    assert(s1 * 1 == s1);
    assert(N * 1 == N);
    assert(t1 == N * c);
    let mid = mid_of(ret);
    let pn = p as nat;
    if s1 == 0 {
        assert(s1a == 0) by (nonlinear_arith) requires s1a == s1 * a, s1 == 0;
        assert(t1 == 0) by (nonlinear_arith) requires t1 == s1a * D, s1a == 0;
        assert(N == 0) by (nonlinear_arith) requires 0 == N * c, c >= 1;
    } else {
        assert(s1a != 0) by (nonlinear_arith) requires s1a == s1 * a, s1 != 0, a >= 1;
        assert(t1 != 0) by (nonlinear_arith) requires t1 == s1a * D, s1a != 0, D > 0;
        assert(N != 0) by (nonlinear_arith) requires t1 == N * c, t1 != 0;
        let nd = ndigits(2, s1);
        let cc = a * D;
        assert(cc > 0) by (nonlinear_arith) requires cc == a * D, a >= 1, D > 0;
        assert(t1 == s1 * cc) by (nonlinear_arith) requires t1 == s1a * D, s1a == s1 * a, cc == a * D;
        match ret {
            Approximation::Exact(r) => {
                let j = (pn - nd) as nat;
                let pj = ipow(2, j);
                lemma_ipow_pos(2, j);
                let mm = s1 * pj;
                let s: nat = en + j;
                let k: nat = ep;
                let X = N * ipow(2, s);
                let Dn = D * ipow(2, k);
                lemma_ipow_add(2, en, j);
                assert(X == t1 * pj) by (nonlinear_arith) requires X == N * (c * pj), t1 == N * c;
                assert(mm * Dn == t1 * pj) by (nonlinear_arith) requires mm == s1 * pj, Dn == D * a, t1 == s1 * cc, cc == a * D;
                assert(Dn > 0) by (nonlinear_arith) requires Dn == D * a, a >= 1, D > 0;
                // 2^(p-1) <= |mm| < 2^p
                lemma_fp_abs_mul(s1, pj);
                lemma_ipow_add(2, (nd - 1) as nat, j);
                lemma_ipow_add(2, nd, j);
                assert(((nd - 1) as nat + j) as nat == (pn - 1) as nat);
                assert((nd + j) as nat == pn);
                let (lo, hi, as1) = (ipow(2, (nd - 1) as nat), ipow(2, nd), iabs(s1));
                let amm = iabs(mm);
                assert(lo * pj <= amm && amm < hi * pj) by (nonlinear_arith) requires amm == as1 * pj, lo <= as1, as1 < hi, pj >= 1;
                lemma_fp_abs_mul(mm, Dn);
                let (P1, P0) = (ipow(2, pn), ipow(2, (pn - 1) as nat));
                assert(P0 * Dn <= amm * Dn && amm * Dn < P1 * Dn) by (nonlinear_arith) requires P0 <= amm, amm < P1, Dn > 0;
                lemma_round_exact(m, mm, Dn);
                // same_value(2, s1, e1, mm, k - s): k - s == e1 - j
                assert(k - s == e1 - j);
                if j == 0 {
                    assert(mm == s1) by (nonlinear_arith) requires mm == s1 * pj, pj == 1;
                    assert(mm * 1 == mm);
                } else {
                    assert((e1 - (e1 - j)) as nat == j);
                }
                assert(same_value(2, mid.s, mid.e, mm, k - s));
                assert(once_wit(m, pn, N, D, s, k, mm, mid));
            },
            Approximation::Inexact(r, adj) => {
                let shift = (nd - pn) as nat;
                let mm = choose|mm: int| #[trigger] round_witness(m, 2, s1, shift, mm, adj)
                    && same_value(2, r.significand.v(), r.exponent as int, mm, e1 + shift) && iabs(mm) <= ipow(2, pn);
                let u = ipow(2, shift);
                lemma_ipow_pos(2, shift);
                let s: nat = en;
                let k: nat = ep + shift;
                let X = N * ipow(2, s);
                let Dn = D * ipow(2, k);
                lemma_ipow_add(2, ep, shift);
                assert(X == s1 * cc);
                assert(Dn == u * cc) by (nonlinear_arith) requires Dn == D * (a * u), cc == a * D;
                assert(Dn > 0) by (nonlinear_arith) requires Dn == u * cc, u >= 1, cc > 0;
                lemma_fp_round_scale(m, s1, u, cc, mm);
                lemma_fp_round_scale(Mode::Zero, s1, u, cc, mm - adj_int(adj));
                assert(mm * u != s1);
                // range
                lemma_fp_abs_mul(s1, cc);
                lemma_ipow_add(2, (pn - 1) as nat, shift);
                lemma_ipow_add(2, pn, shift);
                assert(((pn - 1) as nat + shift) as nat == (nd - 1) as nat);
                assert((pn + shift) as nat == nd);
                let (P1, P0, as1) = (ipow(2, pn), ipow(2, (pn - 1) as nat), iabs(s1));
                assert(P0 * Dn <= as1 * cc && as1 * cc < P1 * Dn) by (nonlinear_arith)
                    requires Dn == u * cc, P0 * u <= as1, as1 < P1 * u, cc > 0;
                assert(k - s == e1 + shift);
                assert(once_wit(m, pn, N, D, s, k, mm, mid));
            },
        }
    }
}

/// a first-stage result in normal form is finite and has at most p bits (the carry case mm == +-2^p is +-1 * 2^(g+p))
pub proof fn lemma_fp_once_digits(m: Mode, p: nat, N: int, D: int, mid: Mid)
    requires p >= 1, D > 0, bin_once(m, p, N, D, mid), fp_normal(2, mid.s)
    ensures fp_mid_ok(m, p, N, D, mid), iabs(mid.s) < ipow(2, p),
{
    broadcast use ax_blen;
    lemma_ipow_pos(2, p);
    if N != 0 {
        let (s, k, mm) = choose|s: nat, k: nat, mm: int| #[trigger] once_wit(m, p, N, D, s, k, mm, mid);
        let X = N * ipow(2, s);
        let Dn = D * ipow(2, k);
        lemma_ipow_pos(2, k);
        assert(Dn > 0) by (nonlinear_arith) requires Dn == D * ipow(2, k), D > 0, ipow(2, k) >= 1;
        let (P1, P0) = (ipow(2, p), ipow(2, (p - 1) as nat));
        lemma_ipow_pos(2, (p - 1) as nat);
        let R = mm * Dn;
        let amm = iabs(mm);
        let aX = iabs(X);
        lemma_fp_abs_mul(mm, Dn);
        assert(iabs(R) == amm * Dn);
        // |mm| <= 2^p and mm != 0
        assert(amm <= P1) by (nonlinear_arith) requires amm * Dn < aX + Dn, aX < P1 * Dn, Dn > 0;
        assert(amm >= 1) by (nonlinear_arith) requires amm * Dn > aX - Dn, P0 * Dn <= aX, P0 >= 1, Dn > 0, amm >= 0;
        let g = k - s;
        if mid.e <= g {
            let j = (g - mid.e) as nat;
            lemma_ipow_pos(2, j);
            if j >= 1 {
                lemma_fp_ipow2_succ((j - 1) as nat);
                assert(((j - 1) as nat + 1) as nat == j);
                let t = ipow(2, (j - 1) as nat);
                let mt = mm * t;
                assert(mm * (2 * t) == 2 * mt) by (nonlinear_arith) requires mt == mm * t;
                assert(mid.s == 0);
                assert(mm == 0) by (nonlinear_arith) requires 0 == mm * (2 * t), t >= 1;
                assert(false);
            } else {
                lemma_fp_ipow01(2);
                assert(mm * 1 == mm);
                assert(mid.s == mm);
                if amm == P1 {
                    lemma_fp_ipow2_succ((p - 1) as nat);
                    assert(((p - 1) as nat + 1) as nat == p);
                    assert(false);
                }
            }
        } else {
            let j = (mid.e - g) as nat;
            lemma_fp_ipow2_succ((j - 1) as nat);
            assert(((j - 1) as nat + 1) as nat == j);
            let t2 = ipow(2, j);
            lemma_fp_abs_mul(mid.s, t2);
            let ams = iabs(mid.s);
            assert(ams * 2 <= amm) by (nonlinear_arith) requires amm == ams * t2, t2 >= 2, ams >= 0;
            assert(ams >= 1) by (nonlinear_arith) requires amm == ams * t2, amm >= 1, ams >= 0;
        }
    }
    lemma_fp_blen_le(mid.s, p);
}

// ------------------------------------------------------------------------------------------------------------------
// convert_to_binary_once, Inexact conversion: sticky bit below the truncated significand, then ONE rounding

/// shape of the sticky-extended significand S = ws * 2^pad + sign(ws): odd, exactly L + pad bits, and the truncated
/// part M = ws * 2^pad fills the binade: 2^(n-1) <= |M|, |M| + 2 <= 2^n
pub proof fn lemma_fp_sticky_shape(ws: int, pad: nat, S: int)
    requires ws != 0, pad >= 1, S == ws * ipow(2, pad) + (if ws < 0 { -1int } else { 1int })
    ensures S % 2 != 0, S != 0, (S < 0) == (ws < 0),
        ndigits(2, S) == ndigits(2, ws) + pad,
        iabs(S) == iabs(ws) * ipow(2, pad) + 1,
        ipow(2, (ndigits(2, ws) + pad - 1) as nat) <= iabs(ws) * ipow(2, pad),
        iabs(ws) * ipow(2, pad) + 2 <= ipow(2, ndigits(2, ws) + pad),
{
    broadcast use ax_ndigits;
    let L = ndigits(2, ws);
    let n: nat = L + pad;
    let pp = ipow(2, pad);
    lemma_fp_ipow2_succ((pad - 1) as nat);
    assert(((pad - 1) as nat + 1) as nat == pad);
    let t = ipow(2, (pad - 1) as nat);
    let M = ws * pp;
    let wt = ws * t;
    assert(M == 2 * wt) by (nonlinear_arith) requires M == ws * pp, pp == 2 * t, wt == ws * t;
    lemma_fp_abs_mul(ws, pp);
    let aw = iabs(ws);
    let aM = aw * pp;
    assert(iabs(M) == aM);
    assert(aM >= 2) by (nonlinear_arith) requires aM == aw * pp, aw >= 1, pp >= 2;
    assert((M < 0) == (ws < 0)) by (nonlinear_arith) requires M == ws * pp, pp >= 2;
    assert(iabs(S) == aM + 1);
    lemma_ipow_add(2, (L - 1) as nat, pad);
    lemma_ipow_add(2, L, pad);
    assert(((L - 1) as nat + pad) as nat == (n - 1) as nat);
    let (lo, hi) = (ipow(2, (L - 1) as nat), ipow(2, L));
    assert(lo * pp <= aM) by (nonlinear_arith) requires aM == aw * pp, lo <= aw, pp >= 2;
    assert(aM <= hi * pp - pp) by (nonlinear_arith) requires aM == aw * pp, aw <= hi - 1, pp >= 2;
    lemma_nd_unique(2, S, n);
}

/// THE ASSEMBLY for an Inexact truncated conversion.  ws * 2^we is x = N / D truncated at q = p + 2 (or more) digits
/// (fp_trunc_at: assumed contract of convert_base, mode Zero), S the sticky-extended significand at exponent we - pad with
/// pad = (zero digits that fill ws up to q) + 1, `ret` the result of `repr_round` on (S, we - pad): then ret is x
/// rounded ONCE to p bits, and it is Inexact.
pub proof fn lemma_fp_once_sticky<const BB: Word>(m: Mode, p: usize, N: int, D: int, ws: int, we: int, pad: nat, S: int, ret: Rounded<Repr<BB>>)
    requires p >= 1, D > 0, N != 0,
        fp_trunc_at(p + 2, N, D, ws, we),
        ndigits(2, ws) <= p + 3,
        pad == (if p + 2 > ndigits(2, ws) { p + 2 - ndigits(2, ws) } else { 0 }) + 1,
        S == ws * ipow(2, pad) + (if ws < 0 { -1int } else { 1int }),
        round_once(m, 2, p, S, we - pad, ret),
    ensures bin_once(m, p as nat, N, D, mid_of(ret)), ret is Inexact,
{
    broadcast use ax_ndigits;
    let pn = p as nat;
    let q = p + 2;
    let L = ndigits(2, ws) as int;
    let gq: int = if q > L { q - L } else { 0 };
    assert(pad == gq + 1);
    let ex = we - gq;
    let sa: nat = (if ex < 0 { -ex } else { 0 }) as nat;
    let ka: nat = (if ex > 0 { ex } else { 0 }) as nat;
    let pg = ipow(2, gq as nat);
    let A = iabs(ws) * pg;
    let Xa = iabs(N) * ipow(2, sa);
    let Da = D * ipow(2, ka);
    assert(A * Da < Xa && Xa < (A + 1) * Da);
    lemma_ipow_pos(2, ka);
    lemma_ipow_pos(2, sa);
    assert(Da > 0) by (nonlinear_arith) requires Da == D * ipow(2, ka), D > 0, ipow(2, ka) >= 1;
    // the sticky-extended significand
    lemma_fp_sticky_shape(ws, pad, S);
    let n: nat = (L + pad) as nat;
    assert(ndigits(2, S) == n);
    assert(n >= pn + 3);
    let kk = (n - pn) as nat;
    let pp = ipow(2, pad);
    lemma_fp_ipow2_succ(gq as nat);
    assert((gq as nat + 1) as nat == pad);
    assert(pp == 2 * pg);
    let aM = iabs(ws) * pp;
    assert(aM == 2 * A) by (nonlinear_arith) requires aM == iabs(ws) * pp, pp == 2 * pg, A == iabs(ws) * pg;
    let mid = mid_of(ret);
    match ret {
        Approximation::Exact(r) => { assert(false); },
        Approximation::Inexact(r, adj) => {
            let mm = choose|mm: int| #[trigger] round_witness(m, 2, S, kk, mm, adj)
                && same_value(2, r.significand.v(), r.exponent as int, mm, (we - pad) + kk) && iabs(mm) <= ipow(2, pn);
            let u = ipow(2, kk);
            // u is a multiple of 4
            lemma_fp_ipow2_succ((kk - 1) as nat);
            lemma_fp_ipow2_succ((kk - 2) as nat);
            assert(((kk - 1) as nat + 1) as nat == kk);
            assert(((kk - 2) as nat + 1) as nat == (kk - 1) as nat);
            assert(u == 4 * ipow(2, (kk - 2) as nat));
            // the exact value at the scale of S: X / Da with X = N * 2^(sa + 1)
            let s: nat = sa + 1;
            let k: nat = ka + kk;
            let X = N * ipow(2, s);
            let Dn = D * ipow(2, k);
            lemma_fp_ipow2_succ(sa);
            let N2 = N * ipow(2, sa);
            assert(X == 2 * N2) by (nonlinear_arith) requires X == N * (2 * ipow(2, sa)), N2 == N * ipow(2, sa);
            lemma_fp_abs_mul(N, ipow(2, sa));
            assert(iabs(N2) == Xa);
            assert((N2 < 0) == (N < 0)) by (nonlinear_arith) requires N2 == N * ipow(2, sa), ipow(2, sa) >= 1;
            lemma_ipow_add(2, ka, kk);
            assert(Dn == Da * u) by (nonlinear_arith) requires Dn == D * (ipow(2, ka) * u), Da == D * ipow(2, ka);
            // S - 1 < X / Da < S + 1
            let ADa = A * Da;
            if ws > 0 {
                assert(S == 2 * A + 1);
                assert((S - 1) * Da == 2 * ADa) by (nonlinear_arith) requires S - 1 == 2 * A, ADa == A * Da;
                assert((S + 1) * Da == 2 * ((A + 1) * Da)) by (nonlinear_arith) requires S + 1 == 2 * (A + 1);
                assert(X == 2 * Xa);
            } else {
                assert(S == -(2 * A) - 1);
                assert((S + 1) * Da == -(2 * ADa)) by (nonlinear_arith) requires S + 1 == -(2 * A), ADa == A * Da;
                assert((S - 1) * Da == -(2 * ((A + 1) * Da))) by (nonlinear_arith) requires S - 1 == -(2 * (A + 1));
                assert(X == -(2 * Xa));
            }
            assert((S - 1) * Da < X && X < (S + 1) * Da);
            lemma_fp_sticky_core(m, S, u, Da, X, mm - adj_int(adj), mm);
            // range: 2^(p-1) * Dn <= |X| < 2^p * Dn
            lemma_ipow_add(2, (pn - 1) as nat, kk);
            lemma_ipow_add(2, pn, kk);
            assert(((pn - 1) as nat + kk) as nat == (n - 1) as nat);
            assert((pn + kk) as nat == n);
            let (P1, P0) = (ipow(2, pn), ipow(2, (pn - 1) as nat));
            assert(iabs(X) == 2 * Xa);
            assert(P0 * u <= 2 * A && 2 * A + 2 <= P1 * u);
            let aX = iabs(X);
            assert(P0 * Dn <= aX) by (nonlinear_arith) requires Dn == Da * u, P0 * u <= 2 * A, 2 * ADa < aX, ADa == A * Da, Da > 0;
            let A1Da = (A + 1) * Da;
            assert(aX < P1 * Dn) by (nonlinear_arith) requires Dn == Da * u, 2 * A + 2 <= P1 * u, aX < 2 * A1Da, A1Da == (A + 1) * Da, Da > 0;
            assert(k - s == (we - pad) + kk);
            assert(once_wit(m, pn, N, D, s, k, mm, mid));
        },
    }
}

// ------------------------------------------------------------------------------------------------------------------
// the four to_f32 / to_f64 functions

/// B == 2: the first stage is `repr_round_ref` on the operand itself (normal form: Repr invariant)
pub proof fn lemma_fp_mid_of_round<const BB: Word>(m: Mode, p: usize, sig: int, e: int, rr: Rounded<Repr<BB>>)
    requires p >= 1, BB == 2, !(sig == 0 && e != 0), fp_normal(2, sig),
        round_once(m, 2, p, sig, e, rr), fp_inexact_normal(2, rr),
    ensures fp_mid_ok(m, p as nat, fx_num(2, sig, e), fx_den(2, e), mid_of(rr)),
        fp_into_pre(rd_val0(rr), p as nat),
{
    lemma_fp_den_pos(2, e);
    lemma_fp_once_of_round(m, p, sig, e, fx_num(2, sig, e), fx_den(2, e), rr);
    lemma_fp_once_digits(m, p as nat, fx_num(2, sig, e), fx_den(2, e), mid_of(rr));
}
/// `first.and_then(|v| v.into_f32_internal())`: the two contracts composed
pub proof fn lemma_fp_compose32<const BB: Word>(m: Mode, N: int, D: int, first: Rounded<Repr<BB>>, o: Rounded<f32>)
    requires bin_once(m, 24, N, D, mid_of(first)), fp_into32_post(rd_val0(first), o)
    ensures fp_two_stage32(m, N, D, mid_of(first), and_then_spec(first, o))
{
    let mid = mid_of(first);
    assert(fp_enc32(mid.s, mid.e, o));
    assert(and_then_spec(first, o) == fp_then(mid.adj, o));
}
pub proof fn lemma_fp_compose64<const BB: Word>(m: Mode, N: int, D: int, first: Rounded<Repr<BB>>, o: Rounded<f64>)
    requires bin_once(m, 53, N, D, mid_of(first)), fp_into64_post(rd_val0(first), o)
    ensures fp_two_stage64(m, N, D, mid_of(first), and_then_spec(first, o))
{
    let mid = mid_of(first);
    assert(fp_enc64(mid.s, mid.e, o));
    assert(and_then_spec(first, o) == fp_then(mid.adj, o));
}
