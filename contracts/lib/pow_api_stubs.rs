// ---- pow_api_stubs.rs: what UBig::pow / IBig::pow (integer/src/pow.rs:7-63) call besides TypedReprRef::pow -----------
// TRUSTED (each states what the real function does on the mathematical value):
//   ubig.rs:77 UBig::repr = self.0.as_typed(); ibig.rs:73 IBig::as_sign_repr = self.0.as_sign_typed();
//   bits.rs:68 / bits.rs:361 trailing_zeros: None for zero, otherwise a t with 2^t | value (the multiplicity of 2;
//   only divisibility is assumed); shift_ops.rs:220 `TypedReprRef >> usize` = floor(value / 2^s);
//   shift_ops.rs:185 `TypedRepr << usize` = value * 2^s (its allocation-limit panic is not modelled).
// `pub struct UBig(pub(crate) Repr)` / `pub struct IBig(pub(crate) Repr)` are mirrored (ubig.rs / ibig.rs).
pub struct UBig(pub Repr);
pub struct IBig(pub Repr);

pub open spec fn tz_post(v: int, r: Option<usize>) -> bool {
    (v == 0 ==> r is None) && (v != 0 ==> r is Some && v % pow2(r.unwrap() as int) == 0)
}
/// resource: the value has at most n >= 2 words and a buffer of twice n * exp words can be allocated
// crate::error::panic_allocate_too_much: proved unreachable under the resource precondition `pow_fits`
#[verifier::external_body]
pub fn panic_allocate_too_much() -> ! requires false { unimplemented!() }

pub open spec fn pow_fits(v: int, exp: int) -> bool {
    exists|n: int| n >= 2 && #[trigger] pw(n) > v && 2 * (n * exp) <= max_capacity()
}

impl UBig {
    #[verifier::external_body]
    pub fn repr(&self) -> (r: TypedReprRef<'_>)
        requires self.0.v() >= 0,          // invariant of UBig (as_typed: `unreachable!()` for a negative Repr)
        ensures r.v() == self.0.v(), r.wf(),
    { unimplemented!() }
    #[verifier::external_body]
    pub fn trailing_zeros(&self) -> (r: Option<usize>)
        requires self.0.v() >= 0,
        ensures tz_post(self.0.v(), r),
    { unimplemented!() }
}
impl IBig {
    #[verifier::external_body]
    pub fn as_sign_repr(&self) -> (r: (Sign, TypedReprRef<'_>))
        ensures r.1.v() == iabs(self.0.v()), r.1.wf(),
            r.0 == (if self.0.v() < 0 { Sign::Negative } else { Sign::Positive }),
    { unimplemented!() }
}
impl<'a> TypedReprRef<'a> {
    #[verifier::external_body]
    pub fn trailing_zeros(self) -> (r: Option<usize>)
        requires self.wf(),
        ensures tz_post(self.v(), r),
    { unimplemented!() }
}
impl<'a> vstd::std_specs::ops::ShrSpecImpl<usize> for TypedReprRef<'a> {
    open spec fn obeys_shr_spec() -> bool { true }
    open spec fn shr_req(self, rhs: usize) -> bool { self.wf() }
    open spec fn shr_spec(self, rhs: usize) -> Repr { repr_of(self.v() / pow2(rhs as int)) }
}
impl<'a> core::ops::Shr<usize> for TypedReprRef<'a> { type Output = Repr;
    #[verifier::external_body]
    fn shr(self, rhs: usize) -> Repr { unimplemented!() }
}
impl vstd::std_specs::ops::ShlSpecImpl<usize> for TypedRepr {
    open spec fn obeys_shl_spec() -> bool { true }
    open spec fn shl_req(self, rhs: usize) -> bool { self.wf() }
    open spec fn shl_spec(self, rhs: usize) -> Repr { repr_of(self.v() * pow2(rhs as int)) }
}
impl core::ops::Shl<usize> for TypedRepr { type Output = Repr;
    #[verifier::external_body]
    fn shl(self, rhs: usize) -> Repr { unimplemented!() }
}
