// ---- fm_ratio_glue.rs: how `self.0.eq(&other.0)` / `self.0.cmp(&other.0)` (rational/src/third_party/num_order.rs,
// macro impl_ord_between_ratio) reach `PartialEq for Repr` / `Ord for Repr`.  A trait method cannot carry the invariant
// "denominator > 0" as a precondition, so the real trait methods are hoisted (rule D2: repr_partial_eq, repr_ord_cmp,
// verified in the same unit) and the method-call syntax is served by these two INHERENT one-liners.  They are VERIFIED
// (bodies = calls of the hoisted real methods), not trusted; trusted is only that method resolution on a `Repr` receiver
// picks `<Repr as PartialEq>::eq` / `<Repr as Ord>::cmp` in the real crate (Rust semantics: Repr has no inherent eq / cmp).
// Needs ratio_types.rs, bigstub.rs (cmp_int).
impl Repr {
    pub fn eq(&self, other: &Repr) -> (r: bool)
        requires self.denominator.v() > 0, other.denominator.v() > 0,
        ensures r == (self.numerator.v() * other.denominator.v() == other.numerator.v() * self.denominator.v()),
    { repr_partial_eq(self, other) }
    pub fn cmp(&self, other: &Repr) -> (r: Ordering)
        requires self.denominator.v() > 0, other.denominator.v() > 0,
        ensures r == cmp_int(self.numerator.v() * other.denominator.v(), other.numerator.v() * self.denominator.v()),
    { repr_ord_cmp(self, other) }
}
