// ---- no_ratio_int_stubs.rs: what rational/src/cmp.rs `repr_cmp_ubig` / `repr_cmp_ibig` and the NumOrd / AbsOrd impls around them
// need beyond lib/ratio2_cmp_stubs.rs and lib/gcdo_cmpf_stubs.rs (est_lo / est_hi / ax_est_gt / ax_est_lt: the ASSUMED f32 log2
// filter; EstimatedLog2 for the rational Repr; Sign * Ordering).  Include after them.  external_body / assume_specification = TRUSTED.
pub mod no_ratio_int_stubs {
use super::*;
use vstd::std_specs::ops::*;
use core::ops::Mul;
use core::cmp::Ordering;

// integer/src/log.rs `impl EstimatedLog2 for UBig / IBig`: bounds of log2 of the magnitude (enclosure predicates of gcdo_cmpf_stubs)
impl EstimatedLog2 for UBig {
    open spec fn lb_ok(&self, f: f32) -> bool { est_lo(f, self.v(), 1) }
    open spec fn ub_ok(&self, f: f32) -> bool { est_hi(f, self.v(), 1) }
    #[verifier::external_body]
    fn log2_bounds(&self) -> (r: (f32, f32)) { unimplemented!() }
}
impl EstimatedLog2 for IBig {
    open spec fn lb_ok(&self, f: f32) -> bool { est_lo(f, rabs(self.v()), 1) }
    open spec fn ub_ok(&self, f: f32) -> bool { est_hi(f, rabs(self.v()), 1) }
    #[verifier::external_body]
    fn log2_bounds(&self) -> (r: (f32, f32)) { unimplemented!() }
}
// core: Ordering::reverse (documented: Less <-> Greater, Equal fixed)
pub assume_specification [Ordering::reverse] (o: Ordering) -> (r: Ordering) ensures r == ord_rev(o);
// integer/src/mul_ops.rs: &UBig * &UBig is the exact product
impl<'a, 'b> MulSpecImpl<&'b UBig> for &'a UBig {
    open spec fn obeys_mul_spec() -> bool { true }
    open spec fn mul_req(self, rhs: &'b UBig) -> bool { true }
    open spec fn mul_spec(self, rhs: &'b UBig) -> UBig { ubig_of(self.v() * rhs.v()) }
}
impl<'a, 'b> Mul<&'b UBig> for &'a UBig { type Output = UBig;
    #[verifier::external_body]
    fn mul(self, rhs: &'b UBig) -> UBig { unimplemented!() }
}
// integer/src/cmp.rs `impl AbsOrd<UBig> for IBig`: compares the magnitudes
impl AbsOrd<UBig> for IBig {
    open spec fn abs_cmp_spec(&self, rhs: &UBig) -> Ordering { cmp_int(rabs(self.v()), rhs.v()) }
    #[verifier::external_body]
    fn abs_cmp(&self, rhs: &UBig) -> (r: Ordering) { unimplemented!() }
}

// ---- the property's sentence (C14): ordering of the exact values n/d (d > 0) and the integer x, cross-multiplied
pub open spec fn cmp_ratio_int(n: int, d: int, x: int, abs: bool) -> Ordering {
    if abs { cmp_int(rabs(n), rabs(x) * d) } else { cmp_int(n, x * d) }
}
/// the integer on the LEFT
pub open spec fn cmp_int_ratio(x: int, n: int, d: int, abs: bool) -> Ordering {
    if abs { cmp_int(rabs(x) * d, rabs(n)) } else { cmp_int(x * d, n) }
}
pub proof fn lemma_ri_sign(x: int, d: int)
    requires d >= 1,
    ensures x > 0 ==> x * d > 0, x < 0 ==> x * d < 0, x == 0 ==> x * d == 0, rabs(x * d) == rabs(x) * d,
{
    if x > 0 { assert(x * d > 0) by (nonlinear_arith) requires x > 0, d >= 1; }
    if x < 0 { assert(x * d < 0) by (nonlinear_arith) requires x < 0, d >= 1; assert((-x) * d == -(x * d)) by (nonlinear_arith); }
}
/// the filter's verdict on the magnitudes (|n| * 1 > |x| * d resp. <) turned into the signed comparison: same signs unless `abs`
pub proof fn lemma_ri_filter(n: int, d: int, x: int, abs: bool, gt: bool)
    requires d >= 1, abs || (n >= 0 && x >= 0) || (n < 0 && x < 0),
        gt ==> rabs(n) * 1 > rabs(x) * d,
        !gt ==> rabs(n) * 1 < rabs(x) * d,
    ensures
        abs ==> cmp_ratio_int(n, d, x, true) == (if gt { Ordering::Greater } else { Ordering::Less }),
        !abs && n >= 0 ==> cmp_ratio_int(n, d, x, false) == (if gt { Ordering::Greater } else { Ordering::Less }),
        !abs && n < 0 ==> cmp_ratio_int(n, d, x, false) == (if gt { Ordering::Less } else { Ordering::Greater }),
{
    lemma_ri_sign(x, d);
}
} // mod no_ratio_int_stubs
pub use no_ratio_int_stubs::*;
