// ---- parse_filter.rs: helper of engine rule D15c (`Y.iter().copied().filter(|&c| c != C).collect()` on a byte slice).
// VERIFIED in the including unit against `strip_byte` (lib/parse_spec.rs).  Trusted (as for D1 / D15): that this is the
// meaning of slice::Iter + copied + filter with a pure closure + collect::<Vec<u8>>() in core / alloc.
pub fn __collect_ne(s: &[u8], c: u8) -> (r: Vec<u8>)
    requires s@.len() <= usize::MAX,
    ensures r@ == strip_byte(s@, c),
{
    let mut r: Vec<u8> = Vec::new();
    let mut i: usize = 0;
    while i < s.len()
        invariant i <= s@.len(), s@.len() <= usize::MAX, r@ == strip_byte(s@.subrange(0, i as int), c),
        decreases s@.len() - i
    {
        let b = s[i];
        proof {
            assert(s@.subrange(0, i + 1).drop_last() =~= s@.subrange(0, i as int));
            assert(s@.subrange(0, i + 1).last() == b);
        }
        if b != c { r.push(b); }
        i += 1;
    }
    proof { assert(s@.subrange(0, s@.len() as int) =~= s@); }
    r
}

/// rule D15c, the chain without a filter: `Y.iter().copied().collect()` -- a copy of the slice
pub fn __collect_copy(s: &[u8]) -> (r: Vec<u8>)
    requires s@.len() <= usize::MAX,
    ensures r@ == s@,
{
    let mut r: Vec<u8> = Vec::new();
    let mut i: usize = 0;
    while i < s.len()
        invariant i <= s@.len(), s@.len() <= usize::MAX, r@ == s@.subrange(0, i as int),
        decreases s@.len() - i
    {
        let b = s[i];
        proof { assert(s@.subrange(0, i + 1) =~= s@.subrange(0, i as int).push(b)); }
        r.push(b);
        i += 1;
    }
    proof { assert(s@.subrange(0, s@.len() as int) =~= s@); }
    r
}
