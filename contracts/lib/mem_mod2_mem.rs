// ---- mem_mod2_mem.rs = lib/mod2_mem.rs WITHOUT its opaque scratch-memory stubs (derived mechanically, one region cut out;
// keep in step).  Original header:
// ---- mod2_mem.rs: trusted stubs for the reduced-ring units (int_modmul, int_moddiv, int_modconv). Word = @W@ -------
// Needs lib/prelude.rs, lib/div_dword_stubs.rs (FastDivideNormalized2), lib/div_post_spec.rs (Memory, div_prepared),
// lib/mod2_ring.rs.  The unit needs
// `#![feature(allocator_api)]` (the Box specifications below name the allocator parameter).
//
// TRUSTED (every item here is an unchecked assumption, listed in the evidence):
//  * integer/src/memory.rs scratch allocator: `Memory::allocate_slice_fill(n, v)` (memory.rs:85) returns a slice of n
//    copies of v (and the rest of the scratch space); a too small scratch area PANICS (panic_out_of_memory): the SIZING
//    (mul_memory_requirement, memory_requirement_exact, add_layout ...) is NOT verified.
//  * `<Box<T> as Deref>::deref` is `&**self` (alloc/boxed.rs), `<Box<T> as PartialEq>::eq` is `T::eq(&**self, &**other)`.

// (the opaque Layout / MemoryAllocation / Memory stubs of lib/mod2_mem.rs are cut out here: lib/mem_model.rs replaces them)

pub assume_specification<'a, T: ?Sized, A: core::alloc::Allocator> [<Box<T, A> as core::ops::Deref>::deref] (b: &'a Box<T, A>) -> (r: &'a T)
    ensures r == &**b;
pub assume_specification<T: ?Sized + core::cmp::PartialEq, A: core::alloc::Allocator> [<Box<T, A> as core::cmp::PartialEq>::eq] (a: &Box<T, A>, b: &Box<T, A>) -> (r: bool)
    ensures T::obeys_eq_spec() ==> r == (&**a).eq_spec(&**b);

/// what ConstLargeDivisor::new (div_const.rs:145, via div::normalize) establishes.  `2 * len <= usize::MAX` is true
/// of every word slice (a slice occupies at most isize::MAX bytes); Verus does not know it.
pub open spec fn ring_full(ring: &ConstLargeDivisor) -> bool {
    ring_al(ring) && div_prepared(ring.normalized_divisor@, ring.fast_div_top)
        && 2 * ring.normalized_divisor@.len() <= usize::MAX
}

/// a normalized modulus (top bit of the top word set) is at least half of B^n
pub proof fn lemma_norm_half(s: Seq<Word>, fd: FastDivideNormalized2)
    requires div_prepared(s, fd),
    ensures 2 * val(s) >= pw(s.len() as int),
{
    let n = s.len() as int;
    let top = s[n - 1] as int;
    let nxt = s[n - 2] as int;
    assert(top >= @HALFB@) by (nonlinear_arith)
        requires nxt + top * B() >= @HALFB@ * B(), 0 <= nxt < B(), B() == 2 * @HALFB@;
    lemma_valn_bound(s, n - 1);
    lemma_pw_pos(n - 1);
    assert(top * pw(n - 1) >= @HALFB@ * pw(n - 1)) by (nonlinear_arith) requires top >= @HALFB@, pw(n - 1) >= 1;
    assert(2 * (@HALFB@ * pw(n - 1)) == B() * pw(n - 1)) by (nonlinear_arith) requires B() == 2 * @HALFB@;
}

/// zero product
pub proof fn lemma_mm_zero(a: int, b: int, p: int, m: int)
    requires a == 0 || b == 0, p >= 1, m >= 1,
    ensures 0 == ((a * b) / p) % m,
{
    assert(a * b == 0) by (nonlinear_arith) requires a == 0 || b == 0;
    lemma_div_of_multiple(0, p);
    assert(0 * p == 0);
    vstd::arithmetic::div_mod::lemma_small_mod(0, m as nat);
}

/// the product of two aligned numbers has (at least) `shift` zero low bits
pub proof fn lemma_mm_aligned(a: int, b: int, p: int)
    requires p >= 1, a % p == 0,
    ensures (a * b) % p == 0,
{
    lemma_exact_div(a, p);
    let q = a / p;
    assert(a * b == (q * b) * p) by (nonlinear_arith) requires a == q * p;
    lemma_div_of_multiple(q * b, p);
}

/// C13 (product): the stored result ((A*B) >> shift) mod M of two aligned stored residues is aligned and its
/// mathematical residue is (a*b) mod m
pub proof fn lemma_mm_finish(a: int, b: int, m: int, p: int, out: int)
    requires p >= 1, m >= 1, m % p == 0, a % p == 0, b % p == 0, out == ((a * b) / p) % m,
    ensures out % p == 0, out / p == ((a / p) * (b / p)) % (m / p),
{
    lemma_exact_div(a, p);
    lemma_exact_div(b, p);
    let ra = a / p;
    let rb = b / p;
    let x = (ra * rb) * p;
    assert(a * b == x * p) by (nonlinear_arith) requires a == ra * p, b == rb * p, x == (ra * rb) * p;
    lemma_div_of_multiple(x, p);
    lemma_div_of_multiple(ra * rb, p);
    lemma_mod_scale_down(out, x, m, p);
}

/// the two low words of a sequence
pub proof fn lemma_valn2(s: Seq<Word>)
    requires s.len() >= 2,
    ensures valn(s, 2) == s[0] as int + (s[1] as int) * B(), valn(s, 1) == s[0] as int,
{
    assert(valn(s, 2) == valn(s, 1) + (s[1] as int) * pw(1));
    assert(valn(s, 1) == valn(s, 0) + (s[0] as int) * pw(0));
    assert(pw(1) == B() * pw(0));
    assert(pw(0) == 1);
    assert((s[0] as int) * pw(0) == s[0] as int) by (nonlinear_arith) requires pw(0) == 1;
    assert((s[1] as int) * pw(1) == (s[1] as int) * B()) by (nonlinear_arith) requires pw(1) == B();
}

/// value of a sequence whose words from k on are zero, as the value of its k-prefix
pub proof fn lemma_val_prefix(s: Seq<Word>, k: int)
    requires 0 <= k <= s.len(), forall|j: int| k <= j < s.len() ==> s[j] == 0,
    ensures val(s) == val(s.subrange(0, k)), val(s) == valn(s, k),
{
    lemma_valn_zero(s, k, s.len() as int);
    lemma_valn_ext(s, s.subrange(0, k), k);
}

/// the lowest word of a sequence
pub proof fn lemma_valn1(s: Seq<Word>)
    requires s.len() >= 1,
    ensures valn(s, 1) == s[0] as int,
{
    assert(valn(s, 1) == valn(s, 0) + (s[0] as int) * pw(0));
    assert(pw(0) == 1);
    assert((s[0] as int) * pw(0) == s[0] as int) by (nonlinear_arith) requires pw(0) == 1;
}

/// the short-product branch of mul_normalized / sqr_normalized: one conditional subtraction of M reduces x < B^n <= 2M.
/// `after` is what the code leaves: x itself when x < M, otherwise x - M + c*B^n for the borrow c of the word subtraction.
pub proof fn lemma_mm_short(x: int, mv: int, pn: int, after: int)
    requires 0 <= x < pn, 2 * mv >= pn, mv >= 1, 0 <= after < pn,
        (x < mv && after == x) || (x >= mv && (after == x - mv || after - pn == x - mv)),
    ensures after == x % mv, after < mv,
{
    if x < mv {
        vstd::arithmetic::div_mod::lemma_fundamental_div_mod_converse(x, mv, 0, after);
    } else {
        vstd::arithmetic::div_mod::lemma_fundamental_div_mod_converse(x, mv, 1, after);
    }
}
