// ---- im_remove.rs: stubs + lemmas for unit int_im_remove (integer/src/remove.rs `UBig::remove`).  Word = @W@ ------------
// Needs lib/prelude.rs (pow2), lib/pow_lemmas.rs (ipow; that file needs sign.rs, repr_stubs.rs, dispatch_lemmas.rs), lib/shift_bv.rs (pow2 lemmas).
//
// TRUSTED (every external_body item; each states what the real UBig method does on the mathematical value v() >= 0):
//   ubig.rs  UBig::ZERO / ONE, is_zero, is_one;   cmp.rs  Ord / PartialOrd for UBig: order of the values;
//   bits.rs:200  PowerOfTwo::is_power_of_two: the value is 2^k for some k >= 0;
//   bits.rs:68   UBig::trailing_zeros: None for 0, otherwise THE multiplicity of 2 (2^t | v, 2^(t+1) does not divide v);
//   shift_ops.rs `UBig >>= usize`: floor(v / 2^s);     mul_ops.rs UBig::sqr: v * v;
//   div_ops.rs   `DivRem<&UBig> for &UBig`, `DivRem<UBig> for &UBig`: (v / d, v % d), a zero divisor panics (precondition);
//   ax_im_ubig_nonneg: a UBig is never negative;  ax_im_ubig_bits: a UBig has fewer than usize::MAX bits (at most
//   Buffer::MAX_CAPACITY = usize::MAX / WORD_BITS words -- buffer.rs:48; `bit_len()` returns a usize).
pub mod im_big {
use super::*;
use core::cmp::Ordering;
use vstd::std_specs::cmp::{OrdSpecImpl, PartialOrdSpecImpl, PartialEqSpecImpl};

#[verifier::external_body]
pub struct UBig { _p: u8 }
impl UBig { pub uninterp spec fn v(&self) -> int; }
pub uninterp spec fn im_ubig(i: int) -> UBig;
#[verifier::external_body]
pub broadcast proof fn ax_im_ubig(i: int) requires i >= 0 ensures #[trigger] im_ubig(i).v() == i {}
#[verifier::external_body]
pub broadcast proof fn ax_im_ubig_nonneg(u: UBig) ensures #[trigger] u.v() >= 0 {}
#[verifier::external_body]
pub proof fn ax_im_ubig_bits(u: UBig) ensures u.v() < pow2(usize::MAX as int) {}

pub open spec fn im_cmp_int(a: int, b: int) -> Ordering {
    if a < b { Ordering::Less } else if a == b { Ordering::Equal } else { Ordering::Greater }
}
/// v == 2^k for some k >= 0
pub open spec fn im_is_pow2(v: int) -> bool { exists|k: int| k >= 0 && #[trigger] pow2(k) == v }
/// 2^t divides v exactly t times
pub open spec fn im_is_tz(v: int, t: int) -> bool { t >= 0 && v % pow2(t) == 0 && v % pow2(t + 1) != 0 }

impl PartialEqSpecImpl for UBig {
    open spec fn obeys_eq_spec() -> bool { true }
    open spec fn eq_spec(&self, other: &UBig) -> bool { self.v() == other.v() }
}
impl PartialOrdSpecImpl for UBig {
    open spec fn obeys_partial_cmp_spec() -> bool { true }
    open spec fn partial_cmp_spec(&self, other: &UBig) -> Option<Ordering> { Some(im_cmp_int(self.v(), other.v())) }
}
impl OrdSpecImpl for UBig {
    open spec fn obeys_cmp_spec() -> bool { true }
    open spec fn cmp_spec(&self, other: &UBig) -> Ordering { im_cmp_int(self.v(), other.v()) }
}
impl PartialEq for UBig { #[verifier::external_body] fn eq(&self, other: &Self) -> bool { unimplemented!() } }
impl Eq for UBig {}
impl PartialOrd for UBig { #[verifier::external_body] fn partial_cmp(&self, other: &Self) -> Option<Ordering> { unimplemented!() } }
impl Ord for UBig { #[verifier::external_body] fn cmp(&self, other: &Self) -> Ordering { unimplemented!() } }

impl UBig {
    #[verifier::external_body] pub exec const ZERO: UBig ensures Self::ZERO.v() == 0 { UBig { _p: 0 } }
    #[verifier::external_body] pub exec const ONE: UBig ensures Self::ONE.v() == 1 { UBig { _p: 0 } }
    #[verifier::external_body]
    pub fn is_zero(&self) -> (r: bool) ensures r == (self.v() == 0) { unimplemented!() }
    #[verifier::external_body]
    pub fn is_one(&self) -> (r: bool) ensures r == (self.v() == 1) { unimplemented!() }
    #[verifier::external_body]
    pub fn is_power_of_two(&self) -> (r: bool) ensures r == im_is_pow2(self.v()) { unimplemented!() }
    #[verifier::external_body]
    pub fn trailing_zeros(&self) -> (r: Option<usize>)
        ensures self.v() == 0 ==> r is None, self.v() != 0 ==> r is Some && im_is_tz(self.v(), r.unwrap() as int),
    { unimplemented!() }
    #[verifier::external_body]
    pub fn sqr(&self) -> (r: UBig) ensures r.v() == self.v() * self.v() { unimplemented!() }
}
impl core::ops::ShrAssign<usize> for UBig {
    #[verifier::external_body]
    fn shr_assign(&mut self, rhs: usize) { unimplemented!() }
}
impl vstd::std_specs::ops::ShrAssignSpecImpl<usize> for UBig {
    open spec fn obeys_shr_assign_spec() -> bool { true }
    open spec fn shr_assign_req(&self, rhs: usize) -> bool { true }
    open spec fn shr_assign_spec(&self, rhs: usize) -> &UBig { &im_ubig(self.v() / pow2(rhs as int)) }
}
// dashu_base::DivRem (trait mirrored)
pub trait DivRem<Rhs = Self> {
    type OutputDiv;
    type OutputRem;
    spec fn div_rem_req(self, rhs: Rhs) -> bool;
    spec fn div_rem_post(self, rhs: Rhs, q: Self::OutputDiv, r: Self::OutputRem) -> bool;
    fn div_rem(self, rhs: Rhs) -> (qr: (Self::OutputDiv, Self::OutputRem))
        requires self.div_rem_req(rhs) ensures self.div_rem_post(rhs, qr.0, qr.1);
}
impl<'a, 'b> DivRem<&'b UBig> for &'a UBig {
    type OutputDiv = UBig;
    type OutputRem = UBig;
    open spec fn div_rem_req(self, rhs: &'b UBig) -> bool { rhs.v() != 0 }
    open spec fn div_rem_post(self, rhs: &'b UBig, q: UBig, r: UBig) -> bool {
        q.v() == self.v() / rhs.v() && r.v() == self.v() % rhs.v()
    }
    #[verifier::external_body]
    fn div_rem(self, rhs: &'b UBig) -> (qr: (UBig, UBig)) { unimplemented!() }
}
impl<'a> DivRem<UBig> for &'a UBig {
    type OutputDiv = UBig;
    type OutputRem = UBig;
    open spec fn div_rem_req(self, rhs: UBig) -> bool { rhs.v() != 0 }
    open spec fn div_rem_post(self, rhs: UBig, q: UBig, r: UBig) -> bool {
        q.v() == self.v() / rhs.v() && r.v() == self.v() % rhs.v()
    }
    #[verifier::external_body]
    fn div_rem(self, rhs: UBig) -> (qr: (UBig, UBig)) { unimplemented!() }
}
} // mod im_big
pub use im_big::*;
// (the including unit says `broadcast use {im_big::ax_im_ubig, im_big::ax_im_ubig_nonneg};` in the module of the verified function)

// ---- the specification of remove() --------------------------------------------------------------------------------------
/// C12: x1 is x0 with exactly the full power f^e of the factor stripped
pub open spec fn rm_post(x0: int, f: int, e: int, x1: int) -> bool {
    &&& e >= 0
    &&& x0 % ipow(f, e) == 0              // f^e divides the old value
    &&& x0 % ipow(f, e + 1) != 0          // f^(e+1) does not
    &&& x1 == x0 / ipow(f, e)             // the new value is the cofactor
}
/// what the loops maintain: f^e * q == x0, q >= 1
pub open spec fn rm_inv(f: int, x0: int, q: int, e: int) -> bool { e >= 0 && q >= 1 && ipow(f, e) * q == x0 }
/// f^(2^i)
pub open spec fn rm_p(f: int, i: int) -> int { ipow(f, pow2(i)) }
/// the table of repeated squares: pows[i] == f^(2^(i+1))
pub open spec fn rm_table(f: int, pows: Seq<UBig>) -> bool { forall|i: int| 0 <= i < pows.len() ==> (#[trigger] pows[i]).v() == rm_p(f, i + 1) }

pub proof fn lemma_rm_p_pos(f: int, i: int)
    requires f >= 2, i >= 0,
    ensures rm_p(f, i) >= 2, rm_p(f, i + 1) == rm_p(f, i) * rm_p(f, i), pow2(i) >= 1,
{
    lemma_sh_pow2_pos(i);
    lemma_ipow_ge_base(f, 2, pow2(i));
    lemma_ipow_double(f, pow2(i));
    assert(pow2(i + 1) == 2 * pow2(i));
}
pub proof fn lemma_rm_p1(f: int)
    ensures rm_p(f, 1) == f * f, rm_p(f, 0) == f,
{
    assert(pow2(1) == 2 * pow2(0));
    lemma_ipow_2(f); lemma_ipow_1(f);
}
/// final step: the maintained invariant + "f does not divide q" is the specification
pub proof fn lemma_rm_finish(f: int, x0: int, q: int, e: int)
    requires f >= 2, rm_inv(f, x0, q, e), q % f != 0,
    ensures rm_post(x0, f, e, q),
{
    let p = ipow(f, e);
    lemma_ipow_pos(f, e);
    assert(p * q == q * p) by (nonlinear_arith);
    vstd::arithmetic::div_mod::lemma_fundamental_div_mod_converse(x0, p, q, 0);
    lemma_ipow_succ(f, e);
    let p1 = ipow(f, e + 1);
    assert(p1 == p * f);
    assert(p1 >= 1) by (nonlinear_arith) requires p1 == p * f, p >= 1, f >= 2;
    if x0 % p1 == 0 {
        let k = x0 / p1;
        vstd::arithmetic::div_mod::lemma_fundamental_div_mod(x0, p1);
        assert(p * q == p * (f * k)) by (nonlinear_arith) requires p * q == x0, x0 == p1 * k, p1 == p * f;
        assert(q == f * k) by (nonlinear_arith) requires p * q == p * (f * k), p >= 1;
        vstd::arithmetic::div_mod::lemma_mod_multiples_basic(k, f);
        assert(k * f == f * k) by (nonlinear_arith);
    }
}
/// one successful division by the power d == f^k
pub proof fn lemma_rm_step(f: int, x0: int, q: int, e: int, d: int, k: int, nq: int)
    requires f >= 2, rm_inv(f, x0, q, e), k >= 0, d == ipow(f, k), q % d == 0, nq == q / d,
    ensures rm_inv(f, x0, nq, e + k), q == nq * d, (k >= 1 ==> nq < q),
{
    lemma_ipow_pos(f, k);
    vstd::arithmetic::div_mod::lemma_fundamental_div_mod(q, d);
    assert(q == d * nq);
    assert(nq >= 1) by (nonlinear_arith) requires q == d * nq, q >= 1, d >= 1;
    lemma_ipow_add(f, e, k);
    let p = ipow(f, e);
    assert((p * d) * nq == p * (d * nq)) by (nonlinear_arith);
    assert(d * nq == nq * d) by (nonlinear_arith);
    if k >= 1 {
        lemma_ipow_ge_base(f, 2, k);
        assert(nq < d * nq) by (nonlinear_arith) requires d >= 2, nq >= 1;
    }
}
/// f^e * q == x0 < 2^m with f >= 2  ==>  e < m
pub proof fn lemma_rm_exp_bound(f: int, x0: int, q: int, e: int, m: int)
    requires f >= 2, rm_inv(f, x0, q, e), x0 < pow2(m), m >= 0,
    ensures e < m,
{
    lemma_im_ipow_ge_pow2(f, e);
    let p = ipow(f, e);
    assert(p * q >= p) by (nonlinear_arith) requires p >= 1, q >= 1;
    if e >= m { lemma_sh_pow2_mono(m, e); }
}
pub proof fn lemma_im_ipow_ge_pow2(f: int, e: int)
    requires f >= 2,
    ensures ipow(f, e) >= pow2(e), pow2(e) >= 1,
    decreases e
{
    if e > 0 {
        lemma_im_ipow_ge_pow2(f, e - 1);
        let x = ipow(f, e - 1); let y = pow2(e - 1);
        assert(f * x >= 2 * y) by (nonlinear_arith) requires f >= 2, x >= y, y >= 1;
    }
}
/// d does not divide q  ==>  d*d does not divide q
pub proof fn lemma_rm_not_div_sq(q: int, d: int)
    requires d >= 1, q % d != 0,
    ensures q % (d * d) != 0,
{
    let dd = d * d;
    assert(dd >= 1) by (nonlinear_arith) requires d >= 1, dd == d * d;
    if q % dd == 0 {
        let k = q / dd;
        vstd::arithmetic::div_mod::lemma_fundamental_div_mod(q, dd);
        assert(q == (d * k) * d) by (nonlinear_arith) requires q == dd * k, dd == d * d;
        vstd::arithmetic::div_mod::lemma_mod_multiples_basic(d * k, d);
    }
}
/// d*d does not divide q == nq*d  ==>  d does not divide nq
pub proof fn lemma_rm_not_div_quot(q: int, d: int, nq: int)
    requires d >= 1, q == nq * d, q % (d * d) != 0,
    ensures nq % d != 0,
{
    let dd = d * d;
    if nq % d == 0 {
        let k = nq / d;
        vstd::arithmetic::div_mod::lemma_fundamental_div_mod(nq, d);
        assert(q == k * dd) by (nonlinear_arith) requires q == nq * d, nq == d * k, dd == d * d;
        assert(dd >= 1) by (nonlinear_arith) requires d >= 1, dd == d * d;
        vstd::arithmetic::div_mod::lemma_mod_multiples_basic(k, dd);
    }
}
/// `1usize << s` is 2^s
pub proof fn lemma_im_one_shl(s: usize)
    requires s < 64,
    ensures (1usize << s) as int == pow2(s as int),
    decreases s
{
    if s == 0 { assert(1usize << 0usize == 1usize) by (bit_vector); }
    else {
        let t = (s - 1) as usize;
        lemma_im_one_shl(t);
        assert(t < 63 && s == (t + 1) as usize ==> (1usize << s) == 2 * (1usize << t) && (1usize << t) <= 0x4000_0000_0000_0000usize) by (bit_vector);
    }
}
/// 2^l <= e < usize::MAX  ==>  l < 64 and the shift is exact
pub proof fn lemma_rm_shift_ok(l: int, bound: int)
    requires l >= 0, pow2(l) <= bound, bound < usize::MAX,
    ensures l < 64, (1usize << (l as usize)) as int == pow2(l),
{
    if l >= 64 {
        lemma_sh_pow2_mono(64, l);
        assert(pow2(64) == 0x1_0000_0000_0000_0000) by (compute);
    }
    lemma_im_one_shl(l as usize);
}

// ---- power-of-two factor ----------------------------------------------------------------------------------------------
/// the multiplicity of 2 in 2^k is k
pub proof fn lemma_rm_pow2_tz(k: int, t: int)
    requires k >= 0, im_is_tz(pow2(k), t),
    ensures t == k,
{
    lemma_sh_pow2_pos(k); lemma_sh_pow2_pos(t);
    if t > k {
        lemma_sh_pow2_mono(k + 1, t);
        assert(pow2(k + 1) == 2 * pow2(k));
        vstd::arithmetic::div_mod::lemma_small_mod(pow2(k) as nat, pow2(t) as nat);
    } else if t < k {
        lemma_sh_pow2_add(t + 1, k - t - 1);
        lemma_sh_pow2_pos(t + 1);
        vstd::arithmetic::div_mod::lemma_mod_multiples_basic(pow2(k - t - 1), pow2(t + 1));
        assert(pow2(t + 1) * pow2(k - t - 1) == pow2(k - t - 1) * pow2(t + 1)) by (nonlinear_arith);
    }
}
/// 2^a | 2^b | x for a <= b
pub proof fn lemma_rm_pow2_div(x: int, a: int, b: int)
    requires 0 <= a <= b, x % pow2(b) == 0,
    ensures x % pow2(a) == 0, pow2(a) >= 1, pow2(b) >= 1,
{
    lemma_sh_pow2_pos(a); lemma_sh_pow2_pos(b);
    lemma_sh_pow2_add(a, b - a);
    let k = x / pow2(b);
    vstd::arithmetic::div_mod::lemma_fundamental_div_mod(x, pow2(b));
    let pa = pow2(a); let pc = pow2(b - a);
    assert(x == (pc * k) * pa) by (nonlinear_arith) requires x == (pa * pc) * k;
    vstd::arithmetic::div_mod::lemma_mod_multiples_basic(pc * k, pa);
}
/// what the shortcut needs for b = multiplicity of 2 in f == 2^b and z = multiplicity of 2 in x0
pub open spec fn rm_pow2_ok(x0: int, f: int, b: int, z: int) -> bool {
    &&& b >= 1
    &&& z / b >= 0
    &&& (z / b) * b <= z
    &&& x0 / pow2((z / b) * b) >= 1
    &&& rm_post(x0, f, z / b, x0 / pow2((z / b) * b))
}
/// the shortcut: f == 2^bits (bits >= 1), z the multiplicity of 2 in x0, e == z / bits, x1 == x0 >> (e * bits)
pub proof fn lemma_rm_pow2_case(x0: int, f: int, bits: int, z: int, e: int, x1: int)
    requires x0 >= 1, bits >= 0, f == pow2(bits), f >= 2, im_is_tz(x0, z), e == z / bits, x1 == x0 / pow2(e * bits),
    ensures rm_post(x0, f, e, x1), e * bits <= z, e >= 0, x1 >= 1, bits >= 1,
{
    if bits == 0 { assert(pow2(0) == 1); }
    vstd::arithmetic::div_mod::lemma_fundamental_div_mod(z, bits);
    vstd::arithmetic::div_mod::lemma_div_pos_is_pos(z, bits);
    let s = e * bits;
    assert(s == bits * e) by (nonlinear_arith) requires s == e * bits;
    assert(s >= 0) by (nonlinear_arith) requires s == e * bits, e >= 0, bits >= 1;
    assert(s <= z && z < s + bits);
    // f^e == 2^s
    lemma_pow2_ipow(bits); lemma_ipow_mul(2, bits, e); lemma_pow2_ipow(s);
    assert(ipow(f, e) == pow2(s));
    lemma_rm_pow2_div(x0, s, z);
    vstd::arithmetic::div_mod::lemma_fundamental_div_mod(x0, pow2(s));
    assert(x1 >= 1) by (nonlinear_arith) requires x0 == pow2(s) * x1, x0 >= 1, pow2(s) >= 1;
    assert(f >= 2) by { lemma_sh_pow2_mono(1, bits); assert(pow2(1) == 2 * pow2(0)); }
    // f does not divide x1: otherwise 2^(s + bits) | x0 with s + bits >= z + 1
    if x1 % f == 0 {
        let k = x1 / f;
        vstd::arithmetic::div_mod::lemma_fundamental_div_mod(x1, f);
        lemma_sh_pow2_add(s, bits);
        let ps = pow2(s);
        assert(x0 == k * (ps * f)) by (nonlinear_arith) requires x0 == ps * x1, x1 == f * k;
        lemma_sh_pow2_pos(s + bits);
        vstd::arithmetic::div_mod::lemma_mod_multiples_basic(k, pow2(s + bits));
        lemma_rm_pow2_div(x0, z + 1, s + bits);
    }
    assert(rm_inv(f, x0, x1, e));
    lemma_rm_finish(f, x0, x1, e);
}
