// ---- repr_stubs.rs: dashu-int's storage types as seen by the representation-level dispatch layer ------------------
// integer/src/buffer.rs `Buffer`, integer/src/repr.rs `Repr`, `TypedRepr`, `TypedReprRef`.
//
// Needs from the including unit: lib/prelude.rs (Word, DoubleWord, val, pw, B) and a mirror of dashu_base::Sign
// (`pub enum Sign { Positive, Negative }`, e.g. lib/sign.rs).
//
// `Buffer` and `Repr` are opaque (`external_body`) types with an abstract view:
//     buffer@ : Seq<Word>       the words buffer[0..len]          (Deref target of the real Buffer)
//     buffer.capacity() : usize the allocated capacity in words
//     repr.v() : int            the signed mathematical value of the Repr
// EVERY contract in this file is a TRUSTED ASSUMPTION: it states what the real method does (file:line of the real
// code next to each).  The real bodies are raw-pointer / union / transmute code outside Verus (the storage layer itself
// is the subject of C05 / C17, checked by Kani on the real implementation; nothing here is derived from those runs).
// `TypedRepr` / `TypedReprRef` are the real enums, mirrored verbatim (repr.rs:69, repr.rs:76).
//
// Run-time panics of the real methods (`assert!`) are `requires` here: a verified caller can never trigger them.
// The allocation-size limit (`Buffer::MAX_CAPACITY`, "too many words": panic_allocate_too_much / failed assert in
// push) is a precondition as well; callers inherit it as an explicit *resource* precondition.

pub mod repr_spec {
use super::*;
pub open spec fn iabs(x: int) -> int { if x >= 0 { x } else { -x } }

/// buffer.rs:48  `pub const MAX_CAPACITY: usize = usize::MAX / WORD_BITS_USIZE;`
pub open spec fn max_capacity() -> int { (usize::MAX as int) / @BITS@ }

/// buffer.rs:57-60  `(num_words + num_words / 8 + 2).min(Self::MAX_CAPACITY)`  (for num_words <= MAX_CAPACITY, which
/// the function debug-asserts; no usize overflow in that range)
pub open spec fn default_capacity(n: int) -> int {
    if n + n / 8 + 2 <= max_capacity() { n + n / 8 + 2 } else { max_capacity() }
}

/// n zero words (buffer.rs:251 push_zeros)
pub open spec fn zeros(n: int) -> Seq<Word> { Seq::new(n as nat, |i: int| 0 as Word) }

/// "normalized": no leading (most significant) zero word
pub open spec fn normalized(s: Seq<Word>) -> bool { s.len() == 0 || s[s.len() - 1] != 0 }
} // mod repr_spec
pub use repr_spec::*;

pub mod buffer_stub {
use super::*;
use core::ops::{Deref, DerefMut};
use vstd::std_specs::convert::*;

#[verifier::external_body]
pub struct Buffer { _p: u8 }

impl View for Buffer {
    type V = Seq<Word>;
    uninterp spec fn view(&self) -> Seq<Word>;
}

// TRUSTED type invariant of Buffer (buffer.rs:25-38: `len <= capacity` is relied upon by every unsafe block;
// allocate_exact (buffer.rs:126-131) / allocate_raw (buffer.rs:94) refuse capacity == 0 or > MAX_CAPACITY, and
// reallocate_raw (buffer.rs:145) only installs capacities produced by default_capacity or checked by the caller)
#[verifier::external_body]
pub broadcast proof fn ax_buffer_inv(b: Buffer)
    ensures #![trigger b.spec_capacity()] #![trigger b.view()]
        b@.len() <= b.spec_capacity() as int, 0 < b.spec_capacity() as int <= max_capacity(),
{}

impl Buffer {
    pub uninterp spec fn spec_capacity(&self) -> usize;
    pub open spec fn spec_len(&self) -> usize { self@.len() as usize }

    // buffer.rs:78
    #[verifier::external_body]
    #[verifier::when_used_as_spec(spec_capacity)]
    pub fn capacity(&self) -> (r: usize) ensures r == self.spec_capacity() { unimplemented!() }

    // buffer.rs:84
    #[verifier::external_body]
    #[verifier::when_used_as_spec(spec_len)]
    pub fn len(&self) -> (r: usize) ensures r as int == self@.len() { unimplemented!() }

    // buffer.rs:121-123 + 126-138: `Self::allocate_exact(Self::default_capacity(num_words))`, empty buffer.
    // num_words > MAX_CAPACITY: debug assertion of default_capacity (buffer.rs:58) => resource precondition
    #[verifier::external_body]
    pub fn allocate(num_words: usize) -> (r: Buffer)
        requires num_words as int <= max_capacity(),
        ensures r@.len() == 0, r.capacity() as int == default_capacity(num_words as int),
    { unimplemented!() }

    // buffer.rs:176-180: `if num_words > self.capacity && num_words > 2 { self.reallocate(num_words) }`,
    // reallocate (buffer.rs:168-171) -> capacity = default_capacity(num_words) >= num_words; contents kept.
    // num_words > MAX_CAPACITY: debug assertion of default_capacity (and the following push asserts) => precondition
    #[verifier::external_body]
    pub fn ensure_capacity(&mut self, num_words: usize)
        requires num_words as int <= max_capacity(),
        ensures final(self)@ == old(self)@,
            final(self).capacity() >= old(self).capacity(),
            num_words > 2 ==> final(self).capacity() >= num_words,
    { unimplemented!() }

    // buffer.rs:205-215: `assert!(self.len < self.capacity)`, write at the end
    #[verifier::external_body]
    pub fn push(&mut self, word: Word)
        requires old(self)@.len() < old(self).capacity(),
        ensures final(self)@ == old(self)@.push(word), final(self).capacity() == old(self).capacity(),
    { unimplemented!() }

    // buffer.rs:218-223: `if word != 0 { self.ensure_capacity(self.len + 1); self.push(word); }`
    // (len + 1 <= 2 never reallocates but then len < 2 <= ... is NOT implied: a capacity-1 buffer of length 1
    //  would fail the assert in push; hence the explicit disjunction below)
    #[verifier::external_body]
    pub fn push_resizing(&mut self, word: Word)
        requires word != 0 ==> (old(self)@.len() + 1 <= max_capacity()
            && (old(self)@.len() + 1 > 2 || old(self)@.len() < old(self).capacity())),
        ensures word != 0 ==> final(self)@ == old(self)@.push(word),
            word == 0 ==> final(self)@ == old(self)@,
            final(self).capacity() >= old(self).capacity(),
    { unimplemented!() }

    // buffer.rs:251-253 -> push_repeat::<0> (buffer.rs:230-247): `assert!(n <= self.capacity - self.len)`
    #[verifier::external_body]
    pub fn push_zeros(&mut self, n: usize)
        requires n as int <= old(self).capacity() as int - old(self)@.len(),
        ensures final(self)@ == old(self)@ + zeros(n as int), final(self).capacity() == old(self).capacity(),
    { unimplemented!() }

    // buffer.rs:286-297: `assert!(src_len <= self.capacity - self.len)`, copy to the end
    #[verifier::external_body]
    pub fn push_slice(&mut self, words: &[Word])
        requires words@.len() <= old(self).capacity() as int - old(self)@.len(),
        ensures final(self)@ == old(self)@ + words@, final(self).capacity() == old(self).capacity(),
    { unimplemented!() }

    // buffer.rs:327-330: `assert!(self.len >= len); self.len = len;`
    #[verifier::external_body]
    pub fn truncate(&mut self, len: usize)
        requires old(self)@.len() >= len,
        ensures final(self)@ == old(self)@.subrange(0, len as int), final(self).capacity() == old(self).capacity(),
    { unimplemented!() }
}

// buffer.rs:476-483 / 486-492: the slice of the first `len` words; writing through it changes the words, never
// the length or the capacity
impl Deref for Buffer {
    type Target = [Word];
    #[verifier::external_body]
    fn deref(&self) -> (r: &[Word]) ensures r@ == self@ { unimplemented!() }
}
impl DerefMut for Buffer {
    #[verifier::external_body]
    fn deref_mut(&mut self) -> (r: &mut [Word])
        ensures r@ == old(self)@, final(r)@ == final(self)@, final(self).capacity() == old(self).capacity(),
    { unimplemented!() }
}

// buffer.rs:515-521: `Buffer::allocate(words.len())` + `push_slice(words)`   (`words.into()` in the callers)
impl<'a> FromSpecImpl<&'a [Word]> for Buffer {
    open spec fn obeys_from_spec() -> bool { false }
    uninterp spec fn from_spec(w: &'a [Word]) -> Buffer;
}
impl<'a> From<&'a [Word]> for Buffer {
    #[verifier::external_body]
    // (Verus cannot attach `requires` to a method of the foreign trait `From`: the allocation limit
    //  `words.len() <= MAX_CAPACITY` guards the postcondition instead; a caller learns nothing about the result
    //  unless it has established the limit)
    fn from(words: &'a [Word]) -> (r: Buffer)
        ensures words@.len() <= max_capacity() ==>
            r@ == words@ && r.capacity() as int == default_capacity(words@.len() as int),
    { unimplemented!() }
}
} // mod buffer_stub
pub use buffer_stub::Buffer;

pub mod repr_stub {
use super::*;

#[verifier::external_body]
pub struct Repr { _p: u8 }

impl Repr {
    /// the signed mathematical value
    pub uninterp spec fn v(&self) -> int;

    // repr.rs:265-272: inline [n, 0], capacity 1 (positive)
    #[verifier::external_body]
    pub fn from_word(n: Word) -> (r: Repr) ensures r.v() == n as int { unimplemented!() }

    // repr.rs:276-284: inline [lo, hi], capacity 1 or 2 (positive)
    #[verifier::external_body]
    pub fn from_dword(n: DoubleWord) -> (r: Repr) ensures r.v() == n as int { unimplemented!() }

    // repr.rs:317-336: `buffer.pop_zeros()` then by length 0 / 1 / 2 inline, >= 3 shrink_to_fit + transmute.
    // Accepts ANY buffer (leading zero words, short or empty ones); the result is positive.
    #[verifier::external_body]
    pub fn from_buffer(buffer: Buffer) -> (r: Repr) ensures r.v() == val(buffer@) { unimplemented!() }

    // repr.rs:384, 398
    #[verifier::external_body]
    pub fn zero() -> (r: Repr) ensures r.v() == 0 { unimplemented!() }
    #[verifier::external_body]
    pub fn one() -> (r: Repr) ensures r.v() == 1 { unimplemented!() }

    // repr.rs:390-394, 404-408
    #[verifier::external_body]
    pub fn is_zero(&self) -> (r: bool) ensures r == (self.v() == 0) { unimplemented!() }
    #[verifier::external_body]
    pub fn is_one(&self) -> (r: bool) ensures r == (self.v() == 1) { unimplemented!() }

    // repr.rs:107-113: sign of the capacity field; zero is stored with positive capacity (with_sign / neg never
    // flip a zero)
    #[verifier::external_body]
    pub fn sign(&self) -> (r: Sign) ensures r == (if self.v() < 0 { Sign::Negative } else { Sign::Positive }) { unimplemented!() }

    // repr.rs:129-139: magnitude kept, sign replaced; "the sign will not be flipped if self is zero"
    #[verifier::external_body]
    pub fn with_sign(self, sign: Sign) -> (r: Repr)
        ensures sign == Sign::Positive ==> r.v() == iabs(self.v()),
            sign == Sign::Negative ==> r.v() == -iabs(self.v()),
    { unimplemented!() }

    // repr.rs:438-444: flips the sign of the capacity unless zero
    #[verifier::external_body]
    pub fn neg(self) -> (r: Repr) ensures r.v() == -self.v() { unimplemented!() }

    // repr.rs:186-202: `debug_assert!(self.capacity.get() > 0)` i.e. non-negative; capacity 1|2 -> Small, else Large
    // (the heap words: length >= 3, top word non-zero -- invariant of a heap Repr, repr.rs:36-49)
    #[verifier::external_body]
    pub fn into_typed(self) -> (r: TypedRepr)
        requires self.v() >= 0,
        ensures r.v() == self.v(), r.wf(),
    { unimplemented!() }

    // repr.rs:145-155: `unreachable!()` for a negative value
    #[verifier::external_body]
    pub fn as_typed(&self) -> (r: TypedReprRef<'_>)
        requires self.v() >= 0,
        ensures r.v() == self.v(), r.wf(),
    { unimplemented!() }

    // repr.rs:206-211 / 159-182
    #[verifier::external_body]
    pub fn into_sign_typed(self) -> (r: (Sign, TypedRepr))
        ensures r.1.v() == iabs(self.v()), r.1.wf(), r.0 == (if self.v() < 0 { Sign::Negative } else { Sign::Positive }),
    { unimplemented!() }
    #[verifier::external_body]
    pub fn as_sign_typed(&self) -> (r: (Sign, TypedReprRef<'_>))
        ensures r.1.v() == iabs(self.v()), r.1.wf(), r.0 == (if self.v() < 0 { Sign::Negative } else { Sign::Positive }),
    { unimplemented!() }

    // repr.rs:219-223 (`assert!(sign == Sign::Positive)`) over as_sign_slice repr.rs:226-246: the normalized words
    #[verifier::external_body]
    pub fn as_slice(&self) -> (r: &[Word])
        requires self.v() >= 0,
        ensures val(r@) == self.v(), normalized(r@), r@.len() <= max_capacity(),
    { unimplemented!() }

    // repr.rs:339-344: from_dword / from_buffer(Buffer::from(words))
    #[verifier::external_body]
    pub fn from_ref(tref: TypedReprRef) -> (r: Repr)
        requires tref.wf(),
        ensures r.v() == tref.v(),
    { unimplemented!() }
}

/// Modelling assumption (TRUSTED, consistent: take Repr = int): a Repr is determined by its value.  The real Repr
/// is a normalized sign-magnitude representation, unique per value (up to spare capacity, which no contract
/// observes).  Needed only where Verus wants a *spec function* for an overloaded operator (`AddSpecImpl::add_spec`..).
pub uninterp spec fn repr_of(i: int) -> Repr;
#[verifier::external_body]
pub broadcast proof fn ax_repr_of(i: int) ensures #[trigger] repr_of(i).v() == i {}
#[verifier::external_body]
pub proof fn ax_repr_ext(a: Repr, b: Repr) requires a.v() == b.v() ensures a == b {}

// repr.rs:69-72
pub enum TypedRepr {
    Small(DoubleWord),
    Large(Buffer),
}
// repr.rs:76-79
#[derive(Clone, Copy)]
pub enum TypedReprRef<'a> {
    RefSmall(DoubleWord),
    RefLarge(&'a [Word]),
}

/// the words of a `Large` magnitude: at least 3 words, top word non-zero (the invariant of a heap-allocated Repr,
/// repr.rs:36-49, established by Repr::from_buffer), and a length that some Buffer can hold
pub open spec fn large_wf(s: Seq<Word>) -> bool { s.len() >= 3 && s[s.len() - 1] != 0 && s.len() <= max_capacity() }

impl TypedRepr {
    /// number of words the magnitude occupies (a `Small` counts as 2)
    pub open spec fn nwords(&self) -> int {
        match self { TypedRepr::Small(d) => 2, TypedRepr::Large(b) => b@.len() as int }
    }
    pub open spec fn v(&self) -> int {
        match self { TypedRepr::Small(d) => *d as int, TypedRepr::Large(b) => val(b@) }
    }
    pub open spec fn wf(&self) -> bool {
        match self { TypedRepr::Small(d) => true, TypedRepr::Large(b) => large_wf(b@) }
    }
}
impl<'a> TypedReprRef<'a> {
    pub open spec fn nwords(&self) -> int {
        match self { TypedReprRef::RefSmall(d) => 2, TypedReprRef::RefLarge(w) => w@.len() as int }
    }
    pub open spec fn v(&self) -> int {
        match self { TypedReprRef::RefSmall(d) => *d as int, TypedReprRef::RefLarge(w) => val(w@) }
    }
    pub open spec fn wf(&self) -> bool {
        match self { TypedReprRef::RefSmall(d) => true, TypedReprRef::RefLarge(w) => large_wf(w@) }
    }
}
} // mod repr_stub
pub use repr_stub::{Repr, TypedRepr, TypedReprRef, repr_of, ax_repr_of, ax_repr_ext};
pub use repr_stub::TypedRepr::*;
pub use repr_stub::TypedReprRef::*;
broadcast use {buffer_stub::ax_buffer_inv, repr_stub::ax_repr_of};
