// ---- ratio2_unique_lemmas.rs: uniqueness of the canonical form of a rational (C05).  Needs lib/ratio_lemmas.rs only.
pub proof fn lemma_sign_prod(a: int, d: int)
    requires d > 0
    ensures (a < 0 ==> a * d < 0), (a > 0 ==> a * d > 0), (a == 0 ==> a * d == 0), rabs(a * d) == rabs(a) * d
{
    assert((a < 0 ==> a * d < 0) && (a > 0 ==> a * d > 0) && (a == 0 ==> a * d == 0)) by (nonlinear_arith) requires d > 0;
    assert(rabs(a * d) == rabs(a) * d) by (nonlinear_arith) requires d > 0;
}


// uniqueness of the canonical form: two fractions in lowest terms with equal value have equal parts (this is what
// makes the component-wise `PartialEq for RBig` and `Hash for RBig` follow the value)
pub proof fn lemma_canonical_unique(a: int, b: int, c: int, d: int)
    requires wf_ratio(a, b), wf_ratio(c, d), a * d == c * b
    ensures a == c, b == d
{
    lemma_sign_prod(a, d);
    lemma_sign_prod(c, b);
    let (aa, cc) = (rabs(a), rabs(c));
    assert(aa * d == cc * b);
    // b | aa*d and gcd(b, aa) = 1  ==>  b | d;   d | cc*b and gcd(d, cc) = 1  ==>  d | b
    lemma_divides_intro(b, cc, aa * d);
    lemma_gcd_sym(1, aa, b);
    lemma_euclid_lemma(b, aa, d);
    assert(cc * b == b * cc && aa * d == d * aa) by (nonlinear_arith);
    lemma_divides_intro(d, aa, cc * b);
    lemma_gcd_sym(1, cc, d);
    assert(divides(d, cc * b));
    lemma_euclid_lemma(d, cc, b);
    lemma_divides_le(b, d);
    lemma_divides_le(d, b);
    assert(a == c) by (nonlinear_arith) requires a * d == c * b, b == d, d > 0;
}
