// ---- mem_need.rs: how many scratch Words the multiplication kernels REALLY take from their `Memory` chunk (spec functions
// that mirror the allocation sites of mul/karatsuba.rs, mul/toom_3.rs and the dispatch of mul/mod.rs), the closed forms
// computed by the `memory_requirement_*` functions, and the PROOF that the closed forms suffice for every length.
// Needs lib/prelude.rs (pow2).  Pure mathematics over int: nothing here is trusted.
//
//   need(n)   scratch of mul::add_signed_mul_same_len on factors of n words        (0 / kneed / tneed by the thresholds)
//   kneed(n)  Karatsuba: max(2 mid + need(mid), 2 (n - mid) + need(n - mid)),      mid = ceil(n / 2)
//   tneed(n)  Toom-3:    max(2 n3 + 2 + need(n3), 4 n3 + 4 + need(n3 + 1), 6 n3 + 6 + need(n - 2 n3), 8 n3 + 8 + need(n3 + 1)),
//                        n3 = ceil(n / 3)
//   gneed(n)  scratch of mul::add_signed_mul when the SMALLER factor has n words: max over all m <= n of need(m)
//             (the chunking helper multiplies the remainder of the longer factor, which may have any length below n)
//   mformula(n) = 0 | 2 n + 2 ceil_log2(n) | 4 n + 13 ceil_log2(n)                 what mul::memory_requirement_up_to reserves
//
// Main theorem: lemma_mn_formula_suffices:  gneed(n) <= mformula(n)  for all n.
// The closed form 4 n + 13 ceil_log2(n) is NOT inductive for Toom-3 (it fails to dominate 8 (n3 + 1) + itself(n3 + 1) at
// n = 766, 767, 769, ...): the proof goes through the inductive bound hbound(n) = 4 n + 20 * toom_levels(n) and the
// number-theoretic fact 20 * toom_levels(n) <= 13 * ceil_log2(n), which follows from 3^levels < n <= 2^ceil_log2 and
// 3^13 > 2^20.

pub open spec fn imax(a: int, b: int) -> int { if a >= b { a } else { b } }
pub open spec fn imin(a: int, b: int) -> int { if a <= b { a } else { b } }

/// ceil(log2(n)) for n >= 1 (0 below): the value of math::ceil_log2 (math.rs:21, `bit_len(n - 1)`)
pub open spec fn clog2(n: int) -> int
    decreases n
{
    if n <= 1 { 0 } else { 1 + clog2((n + 1) / 2) }
}

/// mirrored thresholds of mul/mod.rs:17,22
pub open spec fn thr_simple() -> int { 24 }
pub open spec fn thr_kara() -> int { 192 }

pub open spec fn need(n: int) -> int
    decreases n, 1int
{
    if n <= 24 { 0 } else if n <= 192 { kneed(n) } else { tneed(n) }
}

/// mul/karatsuba.rs add_signed_mul_same_len: block 1 takes c_lo (2 mid) and multiplies halves of mid words; block 2 takes
/// c_hi (2 (n - mid)) and multiplies halves of n - mid words; block 3 takes a_diff, b_diff (mid each) and multiplies mid words
pub open spec fn kneed(n: int) -> int
    decreases n, 0int
{
    if n < 2 { 0 } else {
        let mid = (n + 1) / 2;
        imax(2 * mid + need(mid), 2 * (n - mid) + need(n - mid))
    }
}

/// mul/toom_3.rs add_signed_mul_same_len: t1 (2 n3 + 2) | + a_eval, b_eval (n3 + 1 each) | + c_eval (2 n3 + 2) for V(inf) |
/// t1, a_eval, b_eval, t2 (2 n3 + 2) + a02, b02 (n3 + 1 each) for V(1), resp. + c_eval (2 n3 + 2) for V(-1)
pub open spec fn tneed(n: int) -> int
    decreases n, 0int
{
    if n < 4 { 0 } else {
        let n3 = (n + 2) / 3;
        imax(imax(2 * n3 + 2 + need(n3), 4 * n3 + 4 + need(n3 + 1)),
             imax(6 * n3 + 6 + need(n - 2 * n3), 8 * n3 + 8 + need(n3 + 1)))
    }
}

pub open spec fn gneed(n: int) -> int
    decreases n
{
    if n <= 0 { 0 } else { imax(need(n), gneed(n - 1)) }
}

/// the closed forms of mul/karatsuba.rs:36 and mul/toom_3.rs:57
pub open spec fn kformula(n: int) -> int { 2 * n + 2 * clog2(n) }
pub open spec fn tformula(n: int) -> int { 4 * n + 13 * clog2(n) }
/// mul/mod.rs:161 memory_requirement_up_to
pub open spec fn mformula(n: int) -> int {
    if n <= 24 { 0 } else if n <= 192 { kformula(n) } else { tformula(n) }
}

/// number of Toom-3 levels before the recursion reaches Karatsuba
pub open spec fn toom_levels(n: int) -> int
    decreases n
{
    if n <= 192 { 0 } else { 1 + toom_levels((n + 2) / 3 + 1) }
}

/// the inductive bound
pub open spec fn hbound(n: int) -> int {
    if n <= 24 { 0 } else if n <= 192 { 2 * n + 2 * clog2(n) } else { 4 * n + 20 * toom_levels(n) }
}

pub open spec fn pow3(n: int) -> int
    decreases n
{
    if n <= 0 { 1 } else { 3 * pow3(n - 1) }
}

// ------------------------------------------------------------------------------------------- elementary facts
pub proof fn lemma_mn_clog2_nonneg(n: int)
    ensures clog2(n) >= 0,
    decreases n
{
    if n > 1 { lemma_mn_clog2_nonneg((n + 1) / 2); }
}

pub proof fn lemma_mn_clog2_mono(a: int, b: int)
    requires a <= b,
    ensures clog2(a) <= clog2(b),
    decreases b
{
    if b <= 1 {
    } else if a <= 1 {
        lemma_mn_clog2_nonneg(b);
    } else {
        lemma_mn_clog2_mono((a + 1) / 2, (b + 1) / 2);
    }
}

pub proof fn lemma_mn_clog2_192()
    ensures clog2(192) == 8, clog2(24) == 5,
{
    assert(clog2(192) == 8) by (compute_only);
    assert(clog2(24) == 5) by (compute_only);
}

/// n <= 2^ceil_log2(n)
pub proof fn lemma_mn_clog2_pow(n: int)
    requires n >= 1,
    ensures n <= pow2(clog2(n)),
    decreases n
{
    if n > 1 {
        let h = (n + 1) / 2;
        lemma_mn_clog2_pow(h);
        lemma_mn_clog2_nonneg(h);
        assert(pow2(clog2(n)) == 2 * pow2(clog2(h)));
    }
}

pub proof fn lemma_mn_levels_nonneg(n: int)
    ensures toom_levels(n) >= 0,
    decreases n
{
    if n > 192 { lemma_mn_levels_nonneg((n + 2) / 3 + 1); }
}

pub proof fn lemma_mn_levels_mono(a: int, b: int)
    requires a <= b,
    ensures toom_levels(a) <= toom_levels(b),
    decreases b
{
    if b <= 192 {
    } else if a <= 192 {
        lemma_mn_levels_nonneg(b);
    } else {
        lemma_mn_levels_mono((a + 2) / 3 + 1, (b + 2) / 3 + 1);
    }
}

pub proof fn lemma_mn_hbound_mono(a: int, b: int)
    requires a <= b,
    ensures 0 <= hbound(a) <= hbound(b),
{
    lemma_mn_clog2_nonneg(a); lemma_mn_clog2_nonneg(b);
    lemma_mn_levels_nonneg(a); lemma_mn_levels_nonneg(b);
    lemma_mn_clog2_192();
    if a <= 24 {
    } else if b <= 192 {
        lemma_mn_clog2_mono(a, b);
    } else if a <= 192 {
        lemma_mn_clog2_mono(a, 192);
    } else {
        lemma_mn_levels_mono(a, b);
    }
}

// ------------------------------------------------------------------------------------------- need <= hbound
pub proof fn lemma_mn_need_hbound(n: int)
    ensures 0 <= need(n) <= hbound(n),
    decreases n
{
    lemma_mn_clog2_nonneg(n);
    lemma_mn_levels_nonneg(n);
    if n <= 24 {
    } else if n <= 192 {
        let mid = (n + 1) / 2;
        let lo = n - mid;
        lemma_mn_need_hbound(mid);
        lemma_mn_need_hbound(lo);
        lemma_mn_hbound_mono(lo, mid);
        lemma_mn_clog2_nonneg(mid);
        assert(clog2(n) == 1 + clog2(mid));
        assert(need(n) == imax(2 * mid + need(mid), 2 * lo + need(lo)));
        if mid <= 24 {
            assert(hbound(mid) == 0);
        } else {
            assert(hbound(mid) == 2 * mid + 2 * clog2(mid));
        }
    } else {
        let n3 = (n + 2) / 3;
        let m = n3 + 1;
        let ns = n - 2 * n3;
        lemma_mn_need_hbound(n3);
        lemma_mn_need_hbound(m);
        lemma_mn_need_hbound(ns);
        lemma_mn_hbound_mono(n3, m);
        lemma_mn_hbound_mono(ns, m);
        lemma_mn_levels_nonneg(m);
        assert(toom_levels(n) == 1 + toom_levels(m));
        assert(need(n) == imax(imax(2 * n3 + 2 + need(n3), 4 * n3 + 4 + need(m)), imax(6 * n3 + 6 + need(ns), 8 * n3 + 8 + need(m))));
        assert(need(n) <= 8 * m + hbound(m));
        assert(12 * m <= 4 * n + 20);
        if m <= 192 {
            lemma_mn_clog2_192();
            lemma_mn_clog2_mono(m, 192);
            assert(hbound(m) == 2 * m + 2 * clog2(m));
            assert(toom_levels(m) == 0);
        } else {
            assert(hbound(m) == 4 * m + 20 * toom_levels(m));
        }
    }
}

pub proof fn lemma_mn_gneed_hbound(n: int)
    ensures 0 <= gneed(n) <= hbound(n) || (n <= 0 && gneed(n) == 0),
    decreases n
{
    if n > 0 {
        lemma_mn_gneed_hbound(n - 1);
        lemma_mn_need_hbound(n);
        lemma_mn_hbound_mono(n - 1, n);
        lemma_mn_hbound_mono(n, n);
    }
}

pub proof fn lemma_mn_gneed_mono(a: int, b: int)
    requires a <= b,
    ensures 0 <= gneed(a) <= gneed(b),
    decreases b
{
    if b <= 0 {
    } else if a == b {
        lemma_mn_gneed_mono(a - 1, a - 1);
        lemma_mn_need_hbound(a);
    } else {
        lemma_mn_gneed_mono(a, b - 1);
    }
}

pub proof fn lemma_mn_need_le_gneed(n: int)
    ensures 0 <= need(n) <= gneed(n),
{
    lemma_mn_need_hbound(n);
}

// ------------------------------------------------------------------------------------------- 20 levels <= 13 ceil_log2
pub proof fn lemma_mn_pow2_mono(a: int, b: int)
    requires a <= b,
    ensures 1 <= pow2(a) <= pow2(b),
    decreases b
{
    if b <= 0 {
    } else if a == b {
        lemma_mn_pow2_mono(a - 1, b - 1);
    } else {
        lemma_mn_pow2_mono(a, b - 1);
    }
}

pub proof fn lemma_mn_pow2_add(a: int, b: int)
    requires a >= 0, b >= 0,
    ensures pow2(a + b) == pow2(a) * pow2(b),
    decreases b
{
    if b == 0 {
        assert(pow2(a) * 1 == pow2(a));
    } else {
        lemma_mn_pow2_add(a, b - 1);
        let x = pow2(a); let y = pow2(b - 1);
        assert(2 * (x * y) == x * (2 * y)) by (nonlinear_arith);
    }
}

pub proof fn lemma_mn_pow3_add(a: int, b: int)
    requires a >= 0, b >= 0,
    ensures pow3(a + b) == pow3(a) * pow3(b), pow3(a) >= 1,
    decreases b
{
    lemma_mn_pow3_pos(a);
    if b == 0 {
        assert(pow3(a) * 1 == pow3(a));
    } else {
        lemma_mn_pow3_add(a, b - 1);
        let x = pow3(a); let y = pow3(b - 1);
        assert(3 * (x * y) == x * (3 * y)) by (nonlinear_arith);
    }
}

pub proof fn lemma_mn_pow3_pos(a: int)
    ensures pow3(a) >= 1,
    decreases a
{
    if a > 0 { lemma_mn_pow3_pos(a - 1); }
}

/// 3^levels(n) <= n - 3
pub proof fn lemma_mn_levels_pow3(n: int)
    requires n >= 4,
    ensures pow3(toom_levels(n)) <= n - 3,
    decreases n
{
    if n > 192 {
        let m = (n + 2) / 3 + 1;
        lemma_mn_levels_pow3(m);
        lemma_mn_levels_nonneg(m);
        assert(pow3(toom_levels(n)) == 3 * pow3(toom_levels(m)));
    }
}

/// 2^floor((20 l - 1) / 13) <= 3^l   (l >= 1): thirteen base cases by computation, then steps of 13 by 2^20 <= 3^13
pub proof fn lemma_mn_pow_2_3(l: int)
    requires l >= 1,
    ensures pow2((20 * l - 1) / 13) <= pow3(l),
    decreases l
{
    if l <= 13 {
        assert(pow2(1) <= pow3(1) && pow2(3) <= pow3(2) && pow2(4) <= pow3(3) && pow2(6) <= pow3(4) && pow2(7) <= pow3(5)
            && pow2(9) <= pow3(6) && pow2(10) <= pow3(7) && pow2(12) <= pow3(8) && pow2(13) <= pow3(9) && pow2(15) <= pow3(10)
            && pow2(16) <= pow3(11) && pow2(18) <= pow3(12) && pow2(19) <= pow3(13)) by (compute_only);
    } else {
        let k = l - 13;
        lemma_mn_pow_2_3(k);
        let e = (20 * k - 1) / 13;
        assert((20 * l - 1) / 13 == e + 20);
        lemma_mn_pow2_add(e, 20);
        lemma_mn_pow3_add(k, 13);
        assert(pow2(20) == 1048576) by (compute_only);
        assert(pow3(13) == 1594323) by (compute_only);
        let x = pow2(e); let y = pow3(k);
        lemma_mn_pow2_mono(e, e);
        assert(x * 1048576 <= y * 1594323) by (nonlinear_arith) requires 1 <= x <= y;
    }
}

pub proof fn lemma_mn_levels_clog2(n: int)
    requires n >= 4,
    ensures 20 * toom_levels(n) <= 13 * clog2(n),
{
    let l = toom_levels(n);
    let c = clog2(n);
    lemma_mn_levels_nonneg(n);
    lemma_mn_clog2_nonneg(n);
    if l >= 1 && 20 * l > 13 * c {
        let e = (20 * l - 1) / 13;
        assert(c <= e);
        lemma_mn_pow2_mono(c, e);
        lemma_mn_pow_2_3(l);
        lemma_mn_levels_pow3(n);
        lemma_mn_clog2_pow(n);
        assert(false);
    }
}

// ------------------------------------------------------------------------------------------- the theorem
pub proof fn lemma_mn_hbound_formula(n: int)
    ensures hbound(n) <= mformula(n),
{
    if n > 192 { lemma_mn_levels_clog2(n); }
}

pub proof fn lemma_mn_formula_mono(a: int, b: int)
    requires a <= b,
    ensures 0 <= mformula(a) <= mformula(b),
{
    lemma_mn_clog2_nonneg(a); lemma_mn_clog2_nonneg(b);
    lemma_mn_clog2_192();
    if a <= 24 {
    } else if b <= 192 {
        lemma_mn_clog2_mono(a, b);
    } else if a <= 192 {
        lemma_mn_clog2_mono(a, 192);
    } else {
        lemma_mn_clog2_mono(a, b);
    }
}

/// what mul::memory_requirement_up_to reserves for a smaller factor of n words covers every allocation made by
/// mul::add_signed_mul on factors whose smaller length is at most n
pub proof fn lemma_mn_formula_suffices(n: int)
    ensures 0 <= gneed(n) <= mformula(n),
{
    lemma_mn_gneed_hbound(n);
    lemma_mn_hbound_formula(n);
    lemma_mn_gneed_mono(n, n);
    lemma_mn_formula_mono(n, n);
}

/// above THRESHOLD_SIMPLE some scratch is always needed (so `mem_ok(m, need(n))` means `m.capw() >= need(n)` there)
pub proof fn lemma_mn_need_pos(n: int)
    ensures n > 24 ==> need(n) > 0 && gneed(n) > 0,
{
    if n > 24 {
        lemma_mn_need_hbound((n + 1) / 2);
        lemma_mn_need_hbound((n + 2) / 3 + 1);
        lemma_mn_need_le_gneed(n);
    }
}

/// sqr/mod.rs:15 MAX_LEN_SIMPLE = 30: schoolbook squaring (no scratch) up to 30 words, the multiplication dispatcher above
pub open spec fn sqr_need(n: int) -> int { if n <= 30 { 0 } else { need(n) } }

/// ceil_log2 of a 64-bit length is at most 64
pub proof fn lemma_mn_clog2_u64(n: int)
    requires n <= 0x1_0000_0000_0000_0000,
    ensures 0 <= clog2(n) <= 64,
{
    lemma_mn_clog2_nonneg(n);
    lemma_mn_clog2_mono(n, 0x1_0000_0000_0000_0000);
    assert(clog2(0x1_0000_0000_0000_0000) == 64) by (compute_only);
}

/// k <= f  ==>  (k <= 0 or W * f >= k * W) for any positive W: stated on the products so that no nonlinear step is left
pub proof fn lemma_mn_lay(f: int, k: int)
    requires k <= f,
    ensures forall|w: int| w > 0 ==> k <= 0 || #[trigger] (w * f) >= k * w,
{
    assert forall|w: int| w > 0 implies k <= 0 || #[trigger] (w * f) >= k * w by {
        assert(w * f >= k * w) by (nonlinear_arith) requires w > 0, k <= f;
    }
}
