// ---- fio_cut_tail.rs: lowering rule D20.  `__cut_tail()` stands for the part of a function behind the `#[cut_tail]`
// marker: an ARBITRARY value of the return type, NO contract (nothing can be concluded from it; the function's `ensures`
// cannot be established through it).
#[verifier::external_body]
pub fn __cut_tail<T>() -> T { unimplemented!() }
