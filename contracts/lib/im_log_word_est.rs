// ---- im_log_word_est.rs: rule D10b stub of log_word_base's estimate `(log2_self * wexp as f32 / log2_wbase) as usize` (log.rs:190) ----
// The estimate is ARBITRARY except for TWO TRUSTED claims: `est >= 1` (the code's own comment "// est >= 1": the target has at least
// three words, the base one; with est == 0 the callee pow_word_base(base, 0) violates its debug assertion `exp > 1`) and a resource
// claim est <= BITS * len(target) (the true logarithm is below log2(target) < BITS * len(target); pow_word_base allocates est words).
// Whether it is an under- or an overestimate is NOT assumed: the run-time guard and the two correction loops decide.
#[verifier::external_body]
pub fn __f32_est0(log2_self: f32, wexp: usize, log2_wbase: f32) -> (r: usize)
    ensures r >= 1,
        forall|ts: Seq<Word>| #[trigger] im_l2w(log2_self, ts) ==> r as int <= im_bits() * ts.len(),
{ unimplemented!() }
