// ---- codecs_digit_lemmas.rs: positional notation (C07 "the printed digits are exactly the positional representation
// of the value") -- vocabulary and proved lemmas.  Needs lib/codecs_fmt_stubs.rs (ipow).

/// positional value of the digits s[from..to), most significant first, in radix r
pub open spec fn dval(s: Seq<u8>, from: int, to: int, r: int) -> int
    decreases to - from
{
    if to <= from { 0 } else { (s[from] as int) * ipow(r, to - from - 1) + dval(s, from + 1, to, r) }
}

/// every digit of s[from..to) is below the radix
pub open spec fn digits_ok(s: Seq<u8>, from: int, to: int, r: int) -> bool {
    forall|k: int| from <= k < to ==> (#[trigger] s[k] as int) < r
}

pub proof fn lemma_ipow_pos(b: int, e: int)
    requires b >= 1,
    ensures ipow(b, e) >= 1,
    decreases e
{
    if e > 0 {
        lemma_ipow_pos(b, e - 1);
        let p = ipow(b, e - 1);
        assert(b * p >= 1) by (nonlinear_arith) requires b >= 1, p >= 1;
    }
}

pub proof fn lemma_ipow_add(b: int, x: int, y: int)
    requires x >= 0, y >= 0,
    ensures ipow(b, x + y) == ipow(b, x) * ipow(b, y),
    decreases x
{
    if x > 0 {
        lemma_ipow_add(b, x - 1, y);
        let (p, q) = (ipow(b, x - 1), ipow(b, y));
        assert(b * (p * q) == (b * p) * q) by (nonlinear_arith);
    }
}

/// b <= c  ==>  b^e <= c^e
pub proof fn lemma_ipow_base_mono(b: int, c: int, e: int)
    requires 1 <= b <= c,
    ensures ipow(b, e) <= ipow(c, e),
    decreases e
{
    if e > 0 {
        lemma_ipow_base_mono(b, c, e - 1);
        lemma_ipow_pos(b, e - 1);
        let (p, q) = (ipow(b, e - 1), ipow(c, e - 1));
        assert(b * p <= c * q) by (nonlinear_arith) requires 1 <= b <= c, 1 <= p <= q;
    }
}

/// digits outside [from, to) do not matter
pub proof fn lemma_dval_ext(s: Seq<u8>, t: Seq<u8>, from: int, to: int, r: int)
    requires forall|k: int| from <= k < to ==> s[k] == t[k],
    ensures dval(s, from, to, r) == dval(t, from, to, r),
    decreases to - from
{
    if from < to { lemma_dval_ext(s, t, from + 1, to, r); }
}

/// digits below the radix: 0 <= value < r^(number of digits)
pub proof fn lemma_dval_bound(s: Seq<u8>, from: int, to: int, r: int)
    requires r >= 2, from <= to, digits_ok(s, from, to, r),
    ensures 0 <= dval(s, from, to, r) < ipow(r, to - from),
    decreases to - from
{
    if from < to {
        lemma_dval_bound(s, from + 1, to, r);
        let (d, p, v) = (s[from] as int, ipow(r, to - from - 1), dval(s, from + 1, to, r));
        assert(d < r);
        lemma_ipow_pos(r, to - from - 1);
        assert(0 <= d * p + v < r * p) by (nonlinear_arith) requires 0 <= d < r, 0 <= v < p, p >= 1;
    }
}

/// splitting the digit string at m: value = high part * r^(low length) + low part
pub proof fn lemma_dval_split(s: Seq<u8>, from: int, m: int, to: int, r: int)
    requires from <= m <= to,
    ensures dval(s, from, to, r) == dval(s, from, m, r) * ipow(r, to - m) + dval(s, m, to, r),
    decreases m - from
{
    if from < m {
        lemma_dval_split(s, from + 1, m, to, r);
        lemma_ipow_add(r, m - from - 1, to - m);
        let d = s[from] as int;
        let (a, b) = (ipow(r, m - from - 1), ipow(r, to - m));
        let (x, y) = (dval(s, from + 1, m, r), dval(s, m, to, r));
        assert(ipow(r, to - from - 1) == a * b);
        assert(d * (a * b) + (x * b + y) == (d * a + x) * b + y) by (nonlinear_arith);
    } else {
        assert(dval(s, from, m, r) == 0);
        assert(0 * ipow(r, to - m) == 0);
    }
}

/// Word::MAX < 3^MAX_WORD_DIGITS_NON_POW_2 <= r^MAX_WORD_DIGITS_NON_POW_2 for every radix r >= 3
pub proof fn lemma_word_below_max_digits(r: int)
    requires r >= 3,
    ensures B() <= ipow(r, radix::MAX_WORD_DIGITS_NON_POW_2 as int),
{
    lemma_ipow_base_mono(3, r, radix::MAX_WORD_DIGITS_NON_POW_2 as int);
    assert(B() <= ipow(3, radix::MAX_WORD_DIGITS_NON_POW_2 as int)) by (compute);
}

/// the same digits at shifted positions have the same value
pub proof fn lemma_dval_shift(s: Seq<u8>, a: int, t: Seq<u8>, b: int, n: int, r: int)
    requires n >= 0, forall|p: int| a <= p < a + n ==> #[trigger] s[p] == t[p - a + b],
    ensures dval(s, a, a + n, r) == dval(t, b, b + n, r),
    decreases n
{
    if n > 0 {
        assert(s[a] == t[a - a + b]);
        assert forall|p: int| a + 1 <= p < (a + 1) + (n - 1) implies #[trigger] s[p] == t[p - (a + 1) + (b + 1)] by {
            assert(s[p] == t[p - a + b]);
        }
        lemma_dval_shift(s, a + 1, t, b + 1, n - 1, r);
    }
}

pub proof fn lemma_ipow_exp_mono(b: int, x: int, y: int)
    requires b >= 1, 0 <= x <= y,
    ensures ipow(b, x) <= ipow(b, y),
{
    lemma_ipow_add(b, x, y - x);
    lemma_ipow_pos(b, x);
    lemma_ipow_pos(b, y - x);
    let (p, q) = (ipow(b, x), ipow(b, y - x));
    assert(p * q >= p) by (nonlinear_arith) requires p >= 1, q >= 1;
}

/// a digit string whose first digit is not zero is at least r^(length - 1)
pub proof fn lemma_dval_leading(s: Seq<u8>, from: int, to: int, r: int)
    requires r >= 2, from < to, digits_ok(s, from, to, r), s[from] != 0,
    ensures dval(s, from, to, r) >= ipow(r, to - from - 1),
{
    lemma_dval_bound(s, from + 1, to, r);
    lemma_ipow_pos(r, to - from - 1);
    let (d, p) = (s[from] as int, ipow(r, to - from - 1));
    assert(d * p >= p) by (nonlinear_arith) requires d >= 1, p >= 1;
}

// ---- PreparedMedium: value of the structure and what write() must emit --------------------------------------------

/// value of the j most significant low groups g[k-j..k) in base `base` (Horner, most significant first)
pub open spec fn hv(g: Seq<Word>, k: int, j: int, base: int) -> int
    decreases j
{
    if j <= 0 { 0 } else { hv(g, k, j - 1, base) * base + (g[k - j] as int) }
}

/// structure invariant established by PreparedMedium::new: the top group holds digits, every low group is a
/// remainder modulo range_per_word
pub open spec fn medium_inv(p: PreparedMedium) -> bool {
    medium_wf(p)
    && digits_ok(p.top_group.digits@, p.top_group.start_index as int, radix::MAX_WORD_DIGITS_NON_POW_2 as int, p.radix as int)
    && forall|i: int| 0 <= i < p.num_low_groups ==> (#[trigger] p.low_groups@[i] as int) < rpw(p.radix)
}

/// the number a PreparedMedium stands for: top group * range^k + sum of low_groups[i] * range^i
pub open spec fn medium_value(p: PreparedMedium) -> int {
    dval(p.top_group.digits@, p.top_group.start_index as int, radix::MAX_WORD_DIGITS_NON_POW_2 as int, p.radix as int)
        * ipow(rpw(p.radix), p.num_low_groups as int)
    + hv(p.low_groups@, p.num_low_groups as int, p.num_low_groups as int, rpw(p.radix))
}

/// value after the top group and the j most significant low groups
pub open spec fn medium_partial(p: PreparedMedium, j: int) -> int {
    dval(p.top_group.digits@, p.top_group.start_index as int, radix::MAX_WORD_DIGITS_NON_POW_2 as int, p.radix as int)
        * ipow(rpw(p.radix), j)
    + hv(p.low_groups@, p.num_low_groups as int, j, rpw(p.radix))
}

pub proof fn lemma_medium_partial_step(p: PreparedMedium, j: int)
    requires 0 <= j < p.num_low_groups,
    ensures medium_partial(p, j + 1) == medium_partial(p, j) * rpw(p.radix) + (p.low_groups@[p.num_low_groups as int - j - 1] as int),
{
    let t = dval(p.top_group.digits@, p.top_group.start_index as int, radix::MAX_WORD_DIGITS_NON_POW_2 as int, p.radix as int);
    let b = rpw(p.radix);
    let (x, h) = (ipow(b, j), hv(p.low_groups@, p.num_low_groups as int, j, b));
    assert(ipow(b, j + 1) == b * x);
    assert(t * (b * x) + h * b == (t * x + h) * b) by (nonlinear_arith);
}

/// appending the n digits t[b..b+n) to out[a..m): value * r^n + value of the new digits
pub proof fn lemma_dval_append(old_out: Seq<u8>, new_out: Seq<u8>, a: int, m: int, t: Seq<u8>, b: int, n: int, r: int)
    requires a <= m, n >= 0, r >= 2,
        forall|i: int| a <= i < m ==> new_out[i] == old_out[i],
        forall|p: int| m <= p < m + n ==> #[trigger] new_out[p] == t[p - m + b],
    ensures dval(new_out, a, m + n, r) == dval(old_out, a, m, r) * ipow(r, n) + dval(t, b, b + n, r),
{
    lemma_dval_split(new_out, a, m, m + n, r);
    lemma_dval_ext(new_out, old_out, a, m, r);
    lemma_dval_shift(new_out, m, t, b, n, r);
}

// ---- PreparedMedium::new: repeated division by range_per_word -------------------------------------------------------

/// value of the n least significant groups g[0..n) in base `base`
pub open spec fn lv(g: Seq<Word>, n: int, base: int) -> int
    decreases n
{
    if n <= 0 { 0 } else { lv(g, n - 1, base) + (g[n - 1] as int) * ipow(base, n - 1) }
}

pub proof fn lemma_lv_ext(g: Seq<Word>, h: Seq<Word>, n: int, base: int)
    requires forall|i: int| 0 <= i < n ==> g[i] == h[i],
    ensures lv(g, n, base) == lv(h, n, base),
    decreases n
{
    if n > 0 { lemma_lv_ext(g, h, n - 1, base); }
}

/// Horner from the top (what write() follows) and the power sum (what new() builds) agree:
/// hv(g, k, j) * base^(k-j) + lv(g, k-j) == lv(g, k)
pub proof fn lemma_hv_lv(g: Seq<Word>, k: int, j: int, base: int)
    requires 0 <= j <= k,
    ensures hv(g, k, j, base) * ipow(base, k - j) + lv(g, k - j, base) == lv(g, k, base),
    decreases j
{
    if j > 0 {
        lemma_hv_lv(g, k, j - 1, base);
        let (h, p, x) = (hv(g, k, j - 1, base), ipow(base, k - j), g[k - j] as int);
        assert(ipow(base, k - j + 1) == base * p);
        assert((h * base + x) * p == h * (base * p) + x * p) by (nonlinear_arith);
    } else {
        assert(0 * ipow(base, k) == 0);
    }
}

/// a slice whose top word is not zero is at least B^(len-1)
pub proof fn lemma_val_top(s: Seq<Word>)
    requires s.len() >= 1, s[s.len() - 1] != 0,
    ensures val(s) >= pw(s.len() - 1),
{
    let n = s.len() as int;
    lemma_valn_bound(s, n - 1);
    lemma_pw_pos(n - 1);
    let (t, p) = (s[n - 1] as int, pw(n - 1));
    assert(t * p >= p) by (nonlinear_arith) requires t >= 1, p >= 1;
}

/// dropping a zero top word does not change the value
pub proof fn lemma_val_drop_zero(s: Seq<Word>, n: int)
    requires 1 <= n <= s.len(), s[n - 1] == 0,
    ensures val(s.subrange(0, n)) == val(s.subrange(0, n - 1)),
{
    let a = s.subrange(0, n);
    assert(valn(a, n) == valn(a, n - 1) + (a[n - 1] as int) * pw(n - 1));
    assert(0 * pw(n - 1) == 0);
    lemma_valn_ext(a, s.subrange(0, n - 1), n - 1);
}

/// cur >= base and cur * base^n <= total < base^m  ==>  n + 1 < m
pub proof fn lemma_groups_bound(cur: int, base: int, n: int, total: int, m: int)
    requires base >= 2, cur >= base, 0 <= n, 0 <= m, cur * ipow(base, n) <= total, total < ipow(base, m),
    ensures n + 1 < m,
{
    let p = ipow(base, n);
    lemma_ipow_pos(base, n);
    assert(ipow(base, n + 1) == base * p);
    assert(cur * p >= base * p) by (nonlinear_arith) requires cur >= base, p >= 1;
    if n + 1 >= m { lemma_ipow_exp_mono(base, m, n + 1); }
}

pub proof fn lemma_lv_nonneg(g: Seq<Word>, n: int, base: int)
    requires base >= 1,
    ensures lv(g, n, base) >= 0,
    decreases n
{
    if n > 0 {
        lemma_lv_nonneg(g, n - 1, base);
        lemma_ipow_pos(base, n - 1);
        let (x, p) = (g[n - 1] as int, ipow(base, n - 1));
        assert(x * p >= 0) by (nonlinear_arith) requires x >= 0, p >= 1;
    }
}

/// a non-zero word has fewer than WORD_BITS leading zeros
pub proof fn lemma_nlz_bound(w: Word)
    requires w != 0,
    ensures 0 <= radix::nlz(w) < @BITS@,
{
    vstd::std_specs::bits::axiom_@W@_leading_zeros(w);
}

/// (x * p) is a multiple of p with quotient x
pub proof fn lemma_mul_div_exact(x: int, p: int)
    requires p >= 1, x >= 0,
    ensures (x * p) % p == 0, (x * p) / p == x,
{
    // x * p == p * x + 0 with 0 <= 0 < p
    assert(x * p == p * x + 0) by (nonlinear_arith);
    vstd::arithmetic::div_mod::lemma_fundamental_div_mod_converse(x * p, p, x, 0);
}
