// ---- fmtl_fmt_stubs.rs: a ghost-output model of core::fmt::Formatter and of the crate's DigitWriter, for the layout code
// of integer/src/fmt/mod.rs (InRadixWriter::format_prepared, DoubleEnd::format_prepared) -- C07 "sign / prefix / padding
// as requested".  Needs lib/prelude.rs only.
//
// EVERYTHING here is TRUSTED (external_body): it is the documented behaviour of core::fmt::Formatter
//   sign_plus()            "Determines if the + flag was specified."
//   sign_aware_zero_pad()  "Determines if the 0 flag was specified."
//   width()                "Returns the optionally specified integer width that the output should be."
//   align()                "Returns a flag indicating what form of alignment was requested" (None: not specified)
//   fill()                 "Returns the character used as 'fill' whenever there is alignment."
//   write_str / write_char (core::fmt::Write for Formatter): append to the output, flags unchanged; Err: nothing promised
// and of fmt/digit_writer.rs (DigitWriter::new / write / flush: the raw digits written to the writer reach the formatter,
// in order, after what the formatter had received before; buffering is not modelled).
//
// Model: the view `f@` of a Formatter is the sequence of output items written so far; an item is a character written
// directly (`Ch`) or a raw digit that went through a DigitWriter (`Dig`, printed as its ASCII image in the writer's digit
// case: arch::digits::digit_chunk_raw_to_ascii, complete Kani proof int_radix::vk_int_radix_digit_chunk_raw_to_ascii).
// A DigitWriter borrows the formatter; what the formatter will have received when the borrow ends is fixed by the
// prophecy `run()` of the writer, resolved by flush(): "on Ok, the digits written so far ARE the run".  flush() may be
// called once (`flushed`), which keeps the prophecy consistent.
pub mod fmt {
    use super::*;
    pub type Error = core::fmt::Error;
    pub type Result = core::result::Result<(), core::fmt::Error>;

    /// core::fmt::Alignment
    #[derive(Clone, Copy)]
    pub enum Alignment { Left, Right, Center }

    /// one item of output
    pub enum Tok { Ch(char), Dig(u8) }

    /// the formatting options of a Formatter (never changed by writing)
    pub struct FmtOpts {
        pub sign_plus: bool,
        pub zero_pad: bool,
        pub width: Option<usize>,
        pub align: Option<Alignment>,
        pub fill: char,
    }

    pub open spec fn chars(s: Seq<char>) -> Seq<Tok> { s.map_values(|c: char| Tok::Ch(c)) }
    pub open spec fn digs(s: Seq<u8>) -> Seq<Tok> { s.map_values(|d: u8| Tok::Dig(d)) }
    pub open spec fn rep(t: Tok, n: int) -> Seq<Tok> { Seq::new(if n >= 0 { n as nat } else { 0 }, |i: int| t) }

    #[verifier::external_body]
    pub struct Formatter<'a> { _p: core::marker::PhantomData<&'a u8> }

    impl<'a> View for Formatter<'a> {
        type V = Seq<Tok>;
        uninterp spec fn view(&self) -> Seq<Tok>;
    }

    impl<'a> Formatter<'a> {
        pub uninterp spec fn opts(&self) -> FmtOpts;

        #[verifier::external_body]
        pub fn sign_plus(&self) -> (r: bool) ensures r == self.opts().sign_plus { unimplemented!() }
        #[verifier::external_body]
        pub fn sign_aware_zero_pad(&self) -> (r: bool) ensures r == self.opts().zero_pad { unimplemented!() }
        #[verifier::external_body]
        pub fn width(&self) -> (r: Option<usize>) ensures r == self.opts().width { unimplemented!() }
        #[verifier::external_body]
        pub fn align(&self) -> (r: Option<Alignment>) ensures r == self.opts().align { unimplemented!() }
        #[verifier::external_body]
        pub fn fill(&self) -> (r: char) ensures r == self.opts().fill { unimplemented!() }
        #[verifier::external_body]
        pub fn alternate(&self) -> (r: bool) { unimplemented!() }

        #[verifier::external_body]
        pub fn write_str(&mut self, s: &str) -> (r: Result)
            ensures final(self).opts() == old(self).opts(), r is Ok ==> final(self)@ == old(self)@ + chars(s@),
        { unimplemented!() }
        #[verifier::external_body]
        pub fn write_char(&mut self, c: char) -> (r: Result)
            ensures final(self).opts() == old(self).opts(), r is Ok ==> final(self)@ == old(self)@.push(Tok::Ch(c)),
        { unimplemented!() }
    }

    /// TRUSTED (core::str::len, "the length of self in bytes"; an ASCII character is one byte): vstd's specification of
    /// `str::len` is an opaque function of the string
    #[verifier::external_body]
    pub proof fn ax_ascii_len(s: &str)
        requires s.is_ascii(),
        ensures s.len() == s@.len(),
    {}
}
pub use fmt::{Formatter, Alignment, Tok, FmtOpts, chars, digs, rep};

// radix.rs:31-35
#[derive(Clone, Copy)]
pub enum DigitCase { NoLetters, Lower, Upper }

pub mod digit_writer {
    use super::*;
    #[verifier::external_body]
    pub struct DigitWriter<'a> { _p: core::marker::PhantomData<&'a u8> }

    impl<'a> View for DigitWriter<'a> {
        type V = Seq<u8>;
        /// the raw digits accepted so far
        uninterp spec fn view(&self) -> Seq<u8>;
    }

    impl<'a> DigitWriter<'a> {
        /// prophecy: the digits this writer will have passed to its formatter when it is flushed
        pub uninterp spec fn run(&self) -> Seq<u8>;
        pub uninterp spec fn flushed(&self) -> bool;

        // digit_writer.rs:20-27: an empty buffer over `writer`
        #[verifier::external_body]
        pub fn new<'b>(f: &'a mut Formatter<'b>, digit_case: DigitCase) -> (r: DigitWriter<'a>)
            ensures r@.len() == 0, !r.flushed(),
                final(f).opts() == old(f).opts(), final(f)@ == old(f)@ + digs(r.run()),
        { unimplemented!() }

        // digit_writer.rs:29-43
        #[verifier::external_body]
        pub fn write(&mut self, buf: &[u8]) -> (r: fmt::Result)
            requires !old(self).flushed(),
            ensures final(self).run() == old(self).run(), final(self).flushed() == old(self).flushed(),
                r is Ok ==> final(self)@ == old(self)@ + buf@,
        { unimplemented!() }

        // digit_writer.rs:45-59: everything still buffered goes to the formatter
        #[verifier::external_body]
        pub fn flush(&mut self) -> (r: fmt::Result)
            requires !old(self).flushed(),
            ensures final(self).flushed(), final(self).run() == old(self).run(),
                r is Ok ==> old(self)@ == old(self).run(),
        { unimplemented!() }
    }
}
pub use digit_writer::DigitWriter;

/// fmt/mod.rs:430-440 `trait PreparedForFormatting` with the CONTRACT of its two methods: a prepared number has an
/// invariant, a digit count and a set of digit strings it may print (`emits`; for every implementation exactly one).
/// TRUSTED LINK: the contract is what is PROVED about every implementation, on the concrete types:
///   PreparedWord / PreparedDword / PreparedMedium / PreparedLarge :: width   unit int_fmt_width  (ret == digits written)
///   PreparedWord / PreparedMedium :: write                                   unit int_fmt_digits
///   PreparedLarge :: write                                                   unit int_fmt_large_write
/// (there against lib/codecs_writer_stub.rs, a DigitWriter without the prophecy: the frame `run / flushed unchanged`
/// says that an implementation touches the writer only through DigitWriter::write -- true of all four by inspection).
pub trait PreparedForFormatting {
    spec fn inv(&self) -> bool;
    spec fn ndigits(&self) -> int;
    spec fn emits(&self, ds: Seq<u8>) -> bool;

    fn width(&self) -> (r: usize)
        requires self.inv(),
        ensures r as int == self.ndigits();

    fn write(&mut self, digit_writer: &mut DigitWriter) -> (r: fmt::Result)
        requires old(self).inv(), !old(digit_writer).flushed(),
        ensures final(digit_writer).run() == old(digit_writer).run(), final(digit_writer).flushed() == old(digit_writer).flushed(),
            r is Ok ==> exists|ds: Seq<u8>| #[trigger] old(self).emits(ds) && ds.len() == old(self).ndigits()
                && final(digit_writer)@ == old(digit_writer)@ + ds;
}

// dashu_base::Sign
#[derive(Clone, Copy, PartialEq, Eq, Structural)]
pub enum Sign { Positive, Negative }
pub use Sign::*;
impl vstd::std_specs::cmp::PartialEqSpecImpl for Sign {
    open spec fn obeys_eq_spec() -> bool { true }
    open spec fn eq_spec(&self, other: &Sign) -> bool { *self == *other }
}

// ---- the layout that core::fmt documents for numbers (Formatter::pad_integral) ---------------------------------------
pub mod fmtl_layout {
use super::*;

/// "-" for a negative number, "+" if the `+` flag is given, nothing otherwise
pub open spec fn sign_str(sign: Sign, plus: bool) -> Seq<char> {
    if sign == Sign::Negative { seq!['-'] } else if plus { seq!['+'] } else { Seq::empty() }
}

/// sign, prefix, digits `ds`, padded to the requested minimum width:
///  * no width, or the text is at least that wide: no padding;
///  * flag `0`: zeros between the prefix and the digits, whatever the alignment;
///  * otherwise fill characters: alignment Left -> all after, Right or unspecified (numbers) -> all before,
///    Center -> floor(pad / 2) before, the rest after
pub open spec fn layout(sg: Seq<char>, prefix: Seq<char>, ds: Seq<u8>, o: FmtOpts) -> Seq<Tok> {
    let text = sg.len() + prefix.len() + ds.len();
    match o.width {
        None => chars(sg) + chars(prefix) + digs(ds),
        Some(w) =>
            if text >= w { chars(sg) + chars(prefix) + digs(ds) }
            else if o.zero_pad { chars(sg) + chars(prefix) + rep(Tok::Ch('0'), w - text) + digs(ds) }
            else {
                let pad = w - text;
                let left = match o.align {
                    Some(Alignment::Left) => 0,
                    Some(Alignment::Right) => pad,
                    None => pad,
                    Some(Alignment::Center) => pad / 2,
                };
                rep(Tok::Ch(o.fill), left) + chars(sg) + chars(prefix) + digs(ds) + rep(Tok::Ch(o.fill), pad - left)
            },
    }
}

/// the three shapes of `layout`, one lemma each (unfolding only; keeps the case analysis out of the verified function)
pub proof fn lemma_layout_plain(sg: Seq<char>, px: Seq<char>, ds: Seq<u8>, o: FmtOpts)
    requires o.width is None || sg.len() + px.len() + ds.len() >= o.width->Some_0,
    ensures layout(sg, px, ds, o) == chars(sg) + chars(px) + digs(ds),
{}
pub proof fn lemma_layout_zero(sg: Seq<char>, px: Seq<char>, ds: Seq<u8>, o: FmtOpts, w: usize)
    requires o.width == Some(w), sg.len() + px.len() + ds.len() < w, o.zero_pad,
    ensures layout(sg, px, ds, o) == chars(sg) + chars(px) + rep(Tok::Ch('0'), w - (sg.len() + px.len() + ds.len())) + digs(ds),
{}
pub proof fn lemma_layout_fill(sg: Seq<char>, px: Seq<char>, ds: Seq<u8>, o: FmtOpts, w: usize, left: int)
    requires o.width == Some(w), sg.len() + px.len() + ds.len() < w, !o.zero_pad,
        left == (match o.align {
            Some(Alignment::Left) => 0int,
            Some(Alignment::Right) => w - (sg.len() + px.len() + ds.len()),
            None => w - (sg.len() + px.len() + ds.len()),
            Some(Alignment::Center) => (w - (sg.len() + px.len() + ds.len())) / 2,
        }),
    ensures layout(sg, px, ds, o) == rep(Tok::Ch(o.fill), left) + chars(sg) + chars(px) + digs(ds)
            + rep(Tok::Ch(o.fill), w - (sg.len() + px.len() + ds.len()) - left),
{}

/// output bookkeeping: what was appended to f0 so far is `acc`; one more piece y
pub proof fn lemma_acc(f0: Seq<Tok>, acc: Seq<Tok>, y: Seq<Tok>, fnew: Seq<Tok>)
    requires fnew == (f0 + acc) + y,
    ensures fnew == f0 + (acc + y),
{
    assert((f0 + acc) + y =~= f0 + (acc + y));
}

/// the k-th padding character
pub proof fn lemma_acc_push(f0: Seq<Tok>, acc: Seq<Tok>, t: Tok, k: int, fnew: Seq<Tok>)
    requires k >= 0, fnew == (f0 + (acc + rep(t, k))).push(t),
    ensures fnew == f0 + (acc + rep(t, k + 1)),
{
    assert((f0 + (acc + rep(t, k))).push(t) =~= f0 + (acc + rep(t, k + 1)));
}

pub proof fn lemma_acc0(f0: Seq<Tok>, acc: Seq<Tok>, t: Tok)
    ensures f0 + acc == f0 + (acc + rep(t, 0)), Seq::<Tok>::empty() + acc == acc, f0 + Seq::<Tok>::empty() == f0,
{
    assert(acc + rep(t, 0) =~= acc);
    assert(Seq::<Tok>::empty() + acc =~= acc);
    assert(f0 + Seq::<Tok>::empty() =~= f0);
}

/// n fill characters written one by one
pub proof fn lemma_rep_push(t: Tok, n: int)
    requires n >= 0,
    ensures rep(t, n).push(t) =~= rep(t, n + 1),
{}

pub proof fn lemma_rep0(t: Tok)
    ensures rep(t, 0) =~= Seq::<Tok>::empty(),
{}
}
pub use fmtl_layout::*;
