// ---- spec vocabulary + lemmas for the bit scans of integer/src/bits.rs (mod repr). Word = @W@ -----------
// `trailing_zeros` / `trailing_ones` of a machine word have vstd specifications
// (vstd::std_specs::bits::{@W@_trailing_zeros, @W@_trailing_ones} + axioms): trusted with vstd.

/// bit i of the number whose little-endian words are s
pub open spec fn bit_at(s: Seq<Word>, i: int) -> bool {
    ((s[i / @BITS@] >> ((i % @BITS@) as @W@)) & 1) == 1
}

pub open spec fn word_tz(w: Word) -> u32 { vstd::std_specs::bits::@W@_trailing_zeros(w) }
pub open spec fn word_to(w: Word) -> u32 { vstd::std_specs::bits::@W@_trailing_ones(w) }

pub proof fn lemma_bits_zero_word(k: @W@)
    ensures (((0 as @W@) >> k) & 1) == 0,
{
    assert((((0 as @W@) >> k) & 1) == 0) by (bit_vector);
}

pub proof fn lemma_bits_max_word(k: @W@)
    requires k < @BITS@,
    ensures ((@W@::MAX >> k) & 1) == 1,
{
    assert(((@W@::MAX >> k) & 1) == 1) by (bit_vector) requires k < @BITS@;
}

/// words from..k are zero and word k is not: the least set bit at or above from·BITS is k·BITS + tz(s[k])
pub proof fn lemma_bits_first_set(s: Seq<Word>, from: int, k: int, zb: u32)
    requires 0 <= from <= k < s.len(), forall|j: int| from <= j < k ==> s[j] == 0, s[k] != 0, zb == word_tz(s[k]),
    ensures zb < @BITS@, bit_at(s, k * @BITS@ + zb),
        forall|i: int| from * @BITS@ <= i < k * @BITS@ + zb ==> !bit_at(s, i),
{
    let w = s[k];
    vstd::std_specs::bits::axiom_@W@_trailing_zeros(w);
    let r = k * @BITS@ + zb;
    assert(r / @BITS@ == k && r % @BITS@ == zb);
    assert forall|i: int| from * @BITS@ <= i < r implies !bit_at(s, i) by {
        let q = i / @BITS@;
        let b = (i % @BITS@) as @W@;
        if q < k {
            assert(s[q] == 0);
            lemma_bits_zero_word(b);
        } else {
            assert(q == k);
            assert(b < zb);
            assert(((w >> b) & 1) == 0);
        }
    }
}

/// words below k are all ones: every bit below k·BITS is set
pub proof fn lemma_bits_all_ones(s: Seq<Word>, k: int)
    requires 0 <= k <= s.len(), forall|j: int| 0 <= j < k ==> s[j] == @W@::MAX,
    ensures forall|i: int| 0 <= i < k * @BITS@ ==> bit_at(s, i),
{
    assert forall|i: int| 0 <= i < k * @BITS@ implies bit_at(s, i) by {
        let q = i / @BITS@;
        let b = (i % @BITS@) as @W@;
        assert(s[q] == @W@::MAX);
        lemma_bits_max_word(b);
    }
}

/// words below k are all ones and word k is not: the least clear bit is k·BITS + trailing_ones(s[k])
pub proof fn lemma_bits_first_clear(s: Seq<Word>, k: int, ob: u32)
    requires 0 <= k < s.len(), forall|j: int| 0 <= j < k ==> s[j] == @W@::MAX, s[k] != @W@::MAX, ob == word_to(s[k]),
    ensures ob < @BITS@, !bit_at(s, k * @BITS@ + ob),
        forall|i: int| 0 <= i < k * @BITS@ + ob ==> bit_at(s, i),
{
    let w = s[k];
    vstd::std_specs::bits::axiom_@W@_trailing_ones(w);
    let r = k * @BITS@ + ob;
    assert(r / @BITS@ == k && r % @BITS@ == ob);
    lemma_bits_all_ones(s, k);
    assert forall|i: int| 0 <= i < r implies bit_at(s, i) by {
        let q = i / @BITS@;
        let b = (i % @BITS@) as @W@;
        if q < k {
        } else {
            assert(q == k);
            assert(b < ob);
            assert(((w >> b) & 1) == 1);
        }
    }
}

/// scan of (s[0] >> 1): a set bit was found inside word 0
pub proof fn lemma_bits_shr1_small(s: Seq<Word>, zb: u32)
    requires s.len() >= 1, zb == word_tz(s[0] >> 1u32), zb < @BITS@ - 1,
    ensures bit_at(s, zb + 1), forall|i: int| 1 <= i < zb + 1 ==> !bit_at(s, i),
{
    let w = s[0];
    let h = w >> 1u32;
    vstd::std_specs::bits::axiom_@W@_trailing_zeros(h);
    let z = zb as @W@;
    assert(((w >> ((z + 1) as @W@)) & 1) == ((w >> 1u32) >> z) & 1) by (bit_vector) requires z < @BITS@ - 1;
    assert((zb + 1) / @BITS@ == 0 && (zb + 1) % @BITS@ == zb + 1);
    assert forall|i: int| 1 <= i < zb + 1 implies !bit_at(s, i) by {
        let b = (i % @BITS@) as @W@;
        let b1 = (b - 1) as @W@;
        assert(i / @BITS@ == 0 && b == i);
        assert(((h >> b1) & 1) == 0);
        assert(((w >> b) & 1) == ((w >> 1u32) >> b1) & 1) by (bit_vector) requires 1 <= b < @BITS@, b1 == b - 1;
    }
}

/// scan of (s[0] >> 1): no set bit above bit 0 in word 0 (trailing_zeros cannot be BITS-1 here)
pub proof fn lemma_bits_shr1_large(s: Seq<Word>, zb: u32)
    requires s.len() >= 1, zb == word_tz(s[0] >> 1u32), zb >= @BITS@ - 1,
    ensures zb == @BITS@, forall|i: int| 1 <= i < @BITS@ ==> !bit_at(s, i),
{
    let w = s[0];
    let h = w >> 1u32;
    vstd::std_specs::bits::axiom_@W@_trailing_zeros(h);
    assert((((w >> 1u32) >> ((@BITS@ - 1) as @W@)) & 1) == 0) by (bit_vector);
    assert(h == 0);
    assert forall|i: int| 1 <= i < @BITS@ implies !bit_at(s, i) by {
        let b = (i % @BITS@) as @W@;
        assert(i / @BITS@ == 0 && b == i);
        assert(((w >> b) & 1) == 0) by (bit_vector) requires 1 <= b < @BITS@, (w >> 1u32) == 0;
    }
}

// ---- bit_at is the binary digit of the NUMBER val(s):  bit_at(s, i)  <==>  (val(s) div 2^i) mod 2 == 1 -------

pub proof fn lemma_bits_pw_pow2(k: int)
    requires k >= 0,
    ensures pw(k) == pow2(k * @BITS@),
    decreases k
{
    if k > 0 {
        lemma_bits_pw_pow2(k - 1);
        lemma_sh_pow2_add(@BITS@, (k - 1) * @BITS@);
        lemma_sh_pow2_bits();
    }
}

pub proof fn lemma_bits_bit_at_val(s: Seq<Word>, i: int)
    requires 0 <= i < s.len() * @BITS@,
    ensures bit_at(s, i) == ((val(s) / pow2(i)) % 2 == 1),
{
    let n = s.len() as int;
    let k = i / @BITS@;
    let b = i % @BITS@;
    let w = s[k];
    let wi = w as int;
    // val(s) == low + pw(k)·(w + B·rest), 0 <= low < pw(k)
    let hi = s.subrange(k, n);
    lemma_valn_split(s, k, n);
    lemma_valn_bound(s, k);
    let low = valn(s, k);
    assert(valn(hi, n - k) == val(hi));
    lemma_val_split(hi, 1);
    lemma_val1(hi.subrange(0, 1));
    assert(hi.subrange(0, 1)[0] == w);
    assert(pw(1) == B()) by { assert(pw(1) == B() * pw(0)); assert(pw(0) == 1); }
    let rest = val(hi.subrange(1, hi.len() as int));
    let top = wi + B() * rest;
    assert(val(s) == low + pw(k) * top);
    // divide by pw(k)
    lemma_pw_pos(k);
    assert(pw(k) * top == top * pw(k)) by (nonlinear_arith);
    vstd::arithmetic::div_mod::lemma_fundamental_div_mod_converse(val(s), pw(k), top, low);
    // pow2(i) == pw(k)·pow2(b)
    lemma_bits_pw_pow2(k);
    lemma_sh_pow2_add(k * @BITS@, b);
    lemma_sh_pow2_pos(b);
    let pb = pow2(b);
    lemma_valn_bound(s, n);
    vstd::arithmetic::div_mod::lemma_div_denominator(val(s), pw(k), pb);
    assert(val(s) / pow2(i) == top / pb);
    // top / 2^b == w / 2^b + 2^(BITS-b)·rest
    lemma_sh_pow2_add(b, @BITS@ - b);
    lemma_sh_pow2_bits();
    let c = pow2(@BITS@ - b);
    assert(c == 2 * pow2(@BITS@ - b - 1));
    vstd::arithmetic::div_mod::lemma_fundamental_div_mod(wi, pb);
    vstd::arithmetic::div_mod::lemma_mod_bound(wi, pb);
    let q = wi / pb + c * rest;
    assert(B() * rest == (c * rest) * pb) by (nonlinear_arith) requires B() == pb * c;
    assert(q * pb == pb * (wi / pb) + (c * rest) * pb) by (nonlinear_arith) requires q == wi / pb + c * rest;
    vstd::arithmetic::div_mod::lemma_fundamental_div_mod_converse(top, pb, q, wi % pb);
    assert(top / pb == q);
    // parity
    let e = pow2(@BITS@ - b - 1) * rest;
    assert(c * rest == 2 * e) by (nonlinear_arith) requires c == 2 * pow2(@BITS@ - b - 1), e == pow2(@BITS@ - b - 1) * rest;
    assert(q % 2 == (wi / pb) % 2);
    // machine level
    let bw = b as @W@;
    let bu = b as u32;
    lemma_sh_shr_div_w(w, bu);
    assert((w >> bw) == (w >> bu)) by (bit_vector) requires bw < @BITS@, bw == bu as @W@;
    let sh = w >> bw;
    assert(((sh & 1) == 1) == (sh % 2 == 1)) by (bit_vector);
}
