// ---- dispatch_mul_lemmas.rs: lemmas for mul_ops.rs / pow.rs glue (needs prelude, shift_bv, div_dword_bits_<BITS>) ----

/// a power-of-two double word that fits in a word is 2^t with t = trailing_zeros < WORD_BITS
pub proof fn lemma_disp_pow2_small(p: @D@, t: u32)
    requires p != 0, (p & ((p - 1) as @D@)) == 0, p <= @W@::MAX, dd_is_tz(p, t),
    ensures t < @BITS@, p as int == pow2(t as int),
{
    let tw = t as @D@;
    assert(t < 2 * @BITS@);
    assert(p == (1 as @D@) << t && t < @BITS@) by (bit_vector)
        requires p != 0, (p & ((p - 1) as @D@)) == 0, p <= (@W@::MAX as @D@), t < 2 * @BITS@, tw == t as @D@,
            ((p >> tw) & 1) == 1;
    lemma_sh_one_shl_d(t);
}

/// two words (lo, hi) of a double-word carry appended to s
pub proof fn lemma_val_push2(s: Seq<Word>, lo: Word, hi: Word)
    ensures val(s.push(lo).push(hi)) == val(s) + (lo as int + (hi as int) * B()) * pw(s.len() as int),
{
    lemma_val_push(s, lo);
    lemma_val_push(s.push(lo), hi);
    let n = s.len() as int;
    assert(pw(n + 1) == B() * pw(n));
    assert((hi as int) * (B() * pw(n)) + (lo as int) * pw(n) == (lo as int + (hi as int) * B()) * pw(n)) by (nonlinear_arith);
}

/// product of two single-word values fits in a double word
pub proof fn lemma_word_prod_fits(a: int, b: int)
    requires 0 <= a < B(), 0 <= b < B(),
    ensures 0 <= a * b < B() * B(),
{
    assert(a * b <= (B() - 1) * (B() - 1)) by (nonlinear_arith) requires 0 <= a <= B() - 1, 0 <= b <= B() - 1;
    assert(a * b >= 0) by (nonlinear_arith) requires 0 <= a, 0 <= b;
}

/// kernel identity v1 + c*P == v0*m with an appended carry word sequence of value c at weight P
pub proof fn lemma_scale_fin(v1: int, c: int, p: int, v0: int, m: int, vfin: int)
    requires v1 + c * p == v0 * m, vfin == v1 + c * p,
    ensures vfin == v0 * m,
{}
