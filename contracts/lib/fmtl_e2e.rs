// ---- fmtl_e2e.rs: the pieces of integer/src/fmt put together (C07, non-power-of-two radices) -------------------------
// Needs lib/prelude.rs, lib/div_word_stubs.rs, lib/codecs_fmt_stubs.rs, lib/codecs_digit_lemmas.rs, lib/fmtl_fmt_stubs.rs,
// lib/fmtl_stubs.rs, lib/fmtl_lemmas.rs.
//
// TRUSTED here: the mirror of InRadixWriter (fmt/mod.rs:293-299) and the four `impl PreparedForFormatting for ..`:
// their `inv / ndigits / emits` are DEFINITIONS on the structure; their two methods are external_body and carry the
// trait's contract -- each is PROVED on the concrete type in another unit, in the equivalent concrete form:
//   width():  int_fmt_width (word_width, dword_width, medium_width, large_width)      ret == ndigits
//   write():  int_fmt_digits (word_write, medium_write), int_fmt_large_write (large_write), int_fmt_dword (dword_write)
// What a concrete contract says with `pre + ds` (emitted(pre, out, n, r, v)) the trait says about ds alone
// (emitted(empty, ds, n, r, v)): the same digits at shifted positions.

// fmt/mod.rs:293-299
pub struct InRadixWriter<'a> {
    pub sign: Sign,
    pub magnitude: TypedReprRef<'a>,
    pub radix: Digit,
    pub prefix: &'static str,
    pub digit_case: DigitCase,
}

pub mod fmtl_e2e_impls {
use super::*;

/// the digits of the top group come first
pub open spec fn starts_with_group(ds: Seq<u8>, g: PreparedWord) -> bool {
    forall|p: int| 0 <= p < word_digits(g) ==> #[trigger] ds[p] == g.digits@[p + g.start_index as int]
}

impl PreparedForFormatting for PreparedWord {
    open spec fn inv(&self) -> bool { word_wf(*self) }
    open spec fn ndigits(&self) -> int { word_digits(*self) }
    open spec fn emits(&self, ds: Seq<u8>) -> bool {
        ds == self.digits@.subrange(self.start_index as int, radix::MAX_WORD_DIGITS_NON_POW_2 as int)
    }
    #[verifier::external_body]
    fn width(&self) -> (r: usize) { unimplemented!() }
    #[verifier::external_body]
    fn write(&mut self, digit_writer: &mut DigitWriter) -> (r: fmt::Result) { unimplemented!() }
}
impl PreparedForFormatting for PreparedDword {
    open spec fn inv(&self) -> bool { dword_wf(*self) }
    open spec fn ndigits(&self) -> int { dword_digits(*self) }
    open spec fn emits(&self, ds: Seq<u8>) -> bool {
        ds == self.digits@.subrange(self.start_index as int, radix::MAX_DWORD_DIGITS_NON_POW_2 as int)
    }
    #[verifier::external_body]
    fn width(&self) -> (r: usize) { unimplemented!() }
    #[verifier::external_body]
    fn write(&mut self, digit_writer: &mut DigitWriter) -> (r: fmt::Result) { unimplemented!() }
}
impl PreparedForFormatting for PreparedMedium {
    open spec fn inv(&self) -> bool { medium_inv(*self) && medium_digits(*self) <= usize::MAX }
    open spec fn ndigits(&self) -> int { medium_digits(*self) }
    open spec fn emits(&self, ds: Seq<u8>) -> bool {
        emitted(Seq::empty(), ds, medium_digits(*self), self.radix as int, medium_value(*self)) && starts_with_group(ds, self.top_group)
    }
    #[verifier::external_body]
    fn width(&self) -> (r: usize) { unimplemented!() }
    #[verifier::external_body]
    fn write(&mut self, digit_writer: &mut DigitWriter) -> (r: fmt::Result) { unimplemented!() }
}
impl PreparedForFormatting for PreparedLarge {
    open spec fn inv(&self) -> bool { large_inv(*self) && large_digits(*self) <= usize::MAX }
    open spec fn ndigits(&self) -> int { large_digits(*self) }
    open spec fn emits(&self, ds: Seq<u8>) -> bool {
        emitted(Seq::empty(), ds, large_digits(*self), self.radix as int, large_value(*self)) && starts_with_group(ds, self.top_chunk.top_group)
    }
    #[verifier::external_body]
    fn width(&self) -> (r: usize) { unimplemented!() }
    #[verifier::external_body]
    fn write(&mut self, digit_writer: &mut DigitWriter) -> (r: fmt::Result) { unimplemented!() }
}
}
pub use fmtl_e2e_impls::starts_with_group;

/// C07: ds is THE positional representation of v in radix r: digits below r, most significant first, of value v, without
/// a leading zero except for the single digit of zero
pub open spec fn positional(ds: Seq<u8>, r: int, v: int) -> bool {
    &&& ds.len() >= 1
    &&& digits_ok(ds, 0, ds.len() as int, r)
    &&& dval(ds, 0, ds.len() as int, r) == v
    &&& ds.len() > 1 ==> ds[0] != 0
}

/// a magnitude as the formatter receives it: a large one is normalized and heap-sized (repr.rs:36-49); resource: its
/// length leaves room for one more word below Buffer::MAX_CAPACITY (the largest square PreparedLarge::new computes)
pub open spec fn mag_ok(m: TypedReprRef) -> bool {
    match m {
        TypedReprRef::RefSmall(d) => true,
        TypedReprRef::RefLarge(w) => w@.len() >= 3 && w@[w@.len() - 1] != 0 && w@.len() + 1 < max_capacity(),
    }
}

// ---- emits ==> positional, per prepared type ---------------------------------------------------------------------------

/// a stored digit array d[s..mx) of value v without a superfluous leading zero, as written out
pub proof fn lemma_fe_array(d: Seq<u8>, s: int, mx: int, r: int, v: int, ds: Seq<u8>)
    requires r >= 2, 0 <= s < mx <= d.len(), digits_ok(d, s, mx, r), dval(d, s, mx, r) == v, mx - s > 1 ==> d[s] != 0,
        ds == d.subrange(s, mx),
    ensures positional(ds, r, v),
{
    assert forall|p: int| 0 <= p < 0 + (mx - s) implies #[trigger] ds[p] == d[p - 0 + s] by {}
    lemma_dval_shift(ds, 0, d, s, mx - s, r);
    assert forall|k: int| 0 <= k < ds.len() implies (#[trigger] ds[k] as int) < r by { assert(ds[k] == d[k - 0 + s]); }
}

/// a string emitted after nothing
pub proof fn lemma_fe_emitted(ds: Seq<u8>, n: int, r: int, v: int, g: PreparedWord)
    requires emitted(Seq::empty(), ds, n, r, v), starts_with_group(ds, g), word_digits(g) >= 1, n >= 1,
        n > 1 ==> g.digits@[g.start_index as int] != 0,
    ensures positional(ds, r, v),
{
    assert(ds[0] == g.digits@[0 + g.start_index as int]);
}

// ---- the digit count of a large number fits usize (value argument) ----------------------------------------------------

pub proof fn lemma_fe_hv_nonneg(g: Seq<Word>, k: int, j: int, base: int)
    requires base >= 0,
    ensures hv(g, k, j, base) >= 0,
    decreases j
{
    if j > 0 {
        lemma_fe_hv_nonneg(g, k, j - 1, base);
        let h = hv(g, k, j - 1, base);
        assert(h * base >= 0) by (nonlinear_arith) requires h >= 0, base >= 0;
    }
}

/// a PreparedMedium that starts with a non-zero digit is at least radix^(digits - 1)
pub proof fn lemma_fe_medium_lower(p: PreparedMedium)
    requires medium_inv(p), word_digits(p.top_group) >= 1, p.top_group.digits@[p.top_group.start_index as int] != 0,
    ensures medium_digits(p) >= 1, medium_value(p) >= ipow(p.radix as int, medium_digits(p) - 1),
{
    broadcast use radix::ax_dpw;
    let (td, ts, mx) = (p.top_group.digits@, p.top_group.start_index as int, radix::MAX_WORD_DIGITS_NON_POW_2 as int);
    let (r, b, k, n) = (p.radix as int, rpw(p.radix), p.num_low_groups as int, dpw(p.radix));
    lemma_dval_leading(td, ts, mx, r);
    lemma_fe_hv_nonneg(p.low_groups@, k, k, b);
    lemma_fl_ipow_pow(r, n, k);
    lemma_ipow_add(r, mx - ts - 1, n * k);
    let (tv, lo, pk) = (dval(td, ts, mx, r), ipow(r, mx - ts - 1), ipow(b, k));
    lemma_ipow_pos(b, k);
    assert(tv * pk >= lo * pk) by (nonlinear_arith) requires tv >= lo, pk >= 1;
    assert(k * n == n * k) by (nonlinear_arith);
}

/// with the top chunk at least radix^dtop, the value after the chunks s[j..) is at least radix^(dtop + their digits)
pub proof fn lemma_fe_chunks_lower(radix: Digit, top: int, s: Seq<(usize, Repr)>, npow: int, j: int, dtop: int)
    requires radix_ok(radix), 0 <= j <= s.len(), dtop >= 0, top >= ipow(radix as int, dtop), chunks_ok(radix, s, npow),
    ensures chunks_digits(radix, s, s.len() as int) - chunks_digits(radix, s, j) >= 0,
        chunks_value(radix, top, s, j) >= ipow(radix as int, dtop + (chunks_digits(radix, s, s.len() as int) - chunks_digits(radix, s, j))),
    decreases s.len() - j
{
    let r = radix as int;
    if j < s.len() {
        lemma_fe_chunks_lower(radix, top, s, npow, j + 1, dtop);
        let lvl = s[j].0 as int;
        lemma_fl_level(radix, lvl);
        lemma_fl_cd_step(radix, s, j + 1);
        let e = dtop + (chunks_digits(radix, s, s.len() as int) - chunks_digits(radix, s, j + 1));
        lemma_ipow_add(r, e, level_digits(radix, lvl));
        let (c, lo, p, rem) = (chunks_value(radix, top, s, j + 1), ipow(r, e), level_pow(radix, lvl), s[j].1.v());
        assert(s[j].0 < npow && rem >= 0);
        assert(c * p + rem >= lo * p) by (nonlinear_arith) requires c >= lo, p >= 1, rem >= 0;
    }
}

pub proof fn lemma_fe_pw_ipow(n: int)
    requires n >= 0,
    ensures pw(n) == ipow(2, (WORD_BITS as int) * n), (WORD_BITS as int) * n >= 0,
    decreases n
{
    assert((WORD_BITS as int) * n >= 0) by (nonlinear_arith) requires n >= 0, WORD_BITS >= 0;
    if n > 0 {
        lemma_fe_pw_ipow(n - 1);
        assert(B() == ipow(2, WORD_BITS as int)) by (compute);
        assert((WORD_BITS as int) * n == (WORD_BITS as int) * (n - 1) + (WORD_BITS as int)) by (nonlinear_arith);
        assert((WORD_BITS as int) * (n - 1) >= 0) by (nonlinear_arith) requires n >= 1, WORD_BITS >= 0;
        lemma_ipow_add(2, (WORD_BITS as int) * (n - 1), WORD_BITS as int);
        let (x, y) = (ipow(2, (WORD_BITS as int) * (n - 1)), ipow(2, WORD_BITS as int));
        assert(y * x == x * y) by (nonlinear_arith);
    } else {
        assert((WORD_BITS as int) * 0 == 0);
    }
}

/// radix^(n-1) <= v < B^len  ==>  n - 1 < WORD_BITS * len
pub proof fn lemma_fe_count_bound(r: int, n: int, v: int, len: int)
    requires r >= 2, n >= 1, len >= 0, ipow(r, n - 1) <= v, v < pw(len),
    ensures n - 1 < (WORD_BITS as int) * len,
{
    lemma_fe_pw_ipow(len);
    lemma_ipow_base_mono(2, r, n - 1);
    if n - 1 >= (WORD_BITS as int) * len { lemma_ipow_exp_mono(2, (WORD_BITS as int) * len, n - 1); }
}

/// PreparedLarge as PreparedLarge::new builds it for a len-word number: its digit count fits usize with room to spare
pub proof fn lemma_fe_large_count(p: PreparedLarge, v: int, len: int)
    requires large_inv(p), large_value(p) == v, 0 <= v < pw(len), len >= 0, len + 1 < max_capacity(),
        word_digits(p.top_chunk.top_group) >= 1, p.top_chunk.top_group.digits@[p.top_chunk.top_group.start_index as int] != 0,
    ensures 1 <= large_digits(p), large_digits(p) + 3 <= usize::MAX,
{
    lemma_fe_medium_lower(p.top_chunk);
    let s = p.big_chunks@;
    lemma_fe_chunks_lower(p.radix, medium_value(p.top_chunk), s, p.radix_powers@.len() as int, 0, medium_digits(p.top_chunk) - 1);
    assert(chunks_digits(p.radix, s, 0) == 0);
    lemma_fe_count_bound(p.radix as int, large_digits(p), v, len);
    let (wb, m) = (WORD_BITS as int, usize::MAX as int);
    assert(wb * (len + 1) <= m) by (nonlinear_arith) requires len + 1 <= m / wb, wb >= 1, m >= 0;
    assert(wb * (len + 1) == wb * len + wb) by (nonlinear_arith);
}

/// `len * (dpw + 1) <= CHUNK_LEN * dpw` (the test in fmt_non_power_two) implies that a len-word number is below
/// range_per_word^CHUNK_LEN  (as lemma_medium_dispatch of lib/codecs_dispatch_stubs.rs, which cannot be included here)
pub proof fn lemma_fe_medium_dispatch(radix: Digit, v: int, len: int)
    requires radix_ok(radix), len >= 0, 0 <= v < pw(len), len * (dpw(radix) + 1) <= (CHUNK_LEN as int) * dpw(radix),
    ensures v < ipow(rpw(radix), CHUNK_LEN as int), len < CHUNK_LEN,
{
    broadcast use radix::ax_dpw;
    let (r, d) = (radix as int, dpw(radix));
    assert(ipow(r, d + 1) == r * ipow(r, d));
    assert(r * rpw(radix) == rpw(radix) * r) by (nonlinear_arith);
    lemma_fe_pw_le_ipow(ipow(r, d + 1), len);
    lemma_fl_ipow_pow(r, d + 1, len);
    assert((d + 1) * len == len * (d + 1)) by (nonlinear_arith);
    lemma_ipow_exp_mono(r, len * (d + 1), (CHUNK_LEN as int) * d);
    lemma_fl_ipow_pow(r, d, CHUNK_LEN as int);
    assert(d * (CHUNK_LEN as int) == (CHUNK_LEN as int) * d) by (nonlinear_arith);
    assert(len < CHUNK_LEN) by (nonlinear_arith) requires len * (d + 1) <= 16 * d, d >= 1, len >= 0;
}

pub proof fn lemma_fe_pw_le_ipow(c: int, n: int)
    requires B() <= c, n >= 0,
    ensures pw(n) <= ipow(c, n),
    decreases n
{
    if n > 0 {
        lemma_fe_pw_le_ipow(c, n - 1);
        lemma_pw_pos(n - 1);
        let (p, q) = (pw(n - 1), ipow(c, n - 1));
        assert(B() * p <= c * q) by (nonlinear_arith) requires 1 <= B() <= c, 1 <= p <= q;
    }
}
