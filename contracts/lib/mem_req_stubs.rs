// ---- mem_req_stubs.rs: what the `memory_requirement_*` units need besides lib/mem_model.rs + lib/mem_need.rs.
/// a layout that provides k Words to a fresh MemoryAllocation (k <= 0: nothing asked, any layout will do)
pub open spec fn lay_ok(l: Layout, k: int) -> bool {
    k <= 0 || (l.al() > 0 && l.al() % wbytes() == 0 && l.sz() as int >= k * wbytes())
}
/// a Word-array layout or the zero layout
pub open spec fn lay_wordish(l: Layout) -> bool { l.al() == 1 || l.al() == wbytes() }

/// the chunk of a fresh allocation made from a layout with lay_ok(l, k) offers k Words
pub proof fn lemma_mem_alloc(start: nat, size: nat, al: nat, k: int)
    requires al > 0 ==> start % al == 0,
        k <= 0 || (al > 0 && al % wbytes() == 0 && size as int >= k * wbytes()),
    ensures k <= 0 || ((start + size) as int - align_up(start, wbytes()) as int) / (wbytes() as int) >= k,
{
    if k > 0 {
        lemma_mem_fresh(start, size, al);
        lemma_div_ge(size as int, k);
    }
}

pub mod math {
    use super::*;
    /// integer/src/math.rs:21 `ceil_log2<T: PrimitiveUnsigned>(x) = bit_len(x - 1) = T::BIT_SIZE - (x - 1).leading_zeros()`,
    /// here at T = usize (the only instance used by the memory_requirement functions).  TRUSTED (generic trait code);
    /// the Kani harness vk_memsize_ceil_log2 checks 2^(r-1) < x <= 2^r on the real function for all x: usize.
    #[verifier::external_body]
    pub fn ceil_log2(x: usize) -> (r: u32)
        requires x != 0,          // its own debug assertion (x - 1 underflows otherwise)
        ensures r as int == clog2(x as int),
    { unimplemented!() }
}

/// memory::add_layout(memory::array_layout::<Word>(t), b): t Words in front of what `b` provides
pub proof fn lemma_lay_sum(a: Layout, b: Layout, r: Layout, t: int, k: int)
    requires a.sz() == t * wbytes(), a.al() == wbytes(), t >= 0,
        lay_wordish(b), lay_ok(b, k),
        r.sz() == align_up(a.sz(), b.al()) + b.sz(), r.al() == (if a.al() >= b.al() { a.al() } else { b.al() }),
    ensures lay_ok(r, t + k), lay_wordish(r), r.al() == wbytes(),
{
    lemma_layout_sum_arith(t, b.sz() as int, b.al() as int, k);
}

/// memory::max_layout(a, b) provides what either provides
pub proof fn lemma_lay_max(a: Layout, b: Layout, r: Layout, ka: int, kb: int)
    requires lay_wordish(a), lay_wordish(b), lay_ok(a, ka), lay_ok(b, kb),
        r.sz() == (if a.sz() >= b.sz() { a.sz() } else { b.sz() }), r.al() == (if a.al() >= b.al() { a.al() } else { b.al() }),
    ensures lay_ok(r, ka), lay_ok(r, kb), lay_wordish(r),
{
}
