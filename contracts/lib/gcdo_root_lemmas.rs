// ---- gcdo_root_lemmas.rs: stubs + lemmas for unit int_root_ops (integer/src/root_ops.rs sqrt_rem_large). Word = @W@ ----
// Needs lib/prelude.rs, lib/shift_bv.rs, lib/div_word_lemmas.rs, lib/sign.rs, lib/repr_stubs.rs, lib/dispatch_lemmas.rs.
//
// TRUSTED (unchecked assumptions, listed in the evidence):
//  * root::sqrt_rem (integer/src/root.rs, Karatsuba square root: proved in unit int_root_sqrt, seen here via //@@ SIG; bounded Kani group gcdo_root also checks this
//    very statement on 4/6/8-word inputs): for a 2n-word input `a` whose top two bits are not both zero and an n-word
//    `b`:  value(a) == s^2 + r, r <= 2*s  with s = value(b'), r = value(a'[..n]) + carry * B^n; a'[n..] is scratch.
//  * root::memory_requirement_sqrt_rem: opaque Layout (sizing not verified); MemoryAllocation / Memory opaque.
//  * Repr::into_buffer (repr.rs:351): the normalized words of a non-negative Repr (inline: 0, 1 or 2 words; heap: its words).
//  * shift_ops::repr::shl_large_ref: contract PROVED in unit int_shift_ops (//@@ SIG).

impl Repr {
    #[verifier::external_body]
    pub fn into_buffer(self) -> (r: Buffer)
        requires self.v() >= 0,
        ensures val(r@) == self.v(), normalized(r@),
    { unimplemented!() }
}

#[verifier::external_body]
pub struct Layout { _p: u8 }
#[verifier::external_body]
pub struct Memory<'a> { _p: &'a u8 }
#[verifier::external_body]
pub struct MemoryAllocation { _p: u8 }
impl MemoryAllocation {
    #[verifier::external_body]
    pub fn new(layout: Layout) -> (r: MemoryAllocation) { unimplemented!() }
    #[verifier::external_body]
    pub fn memory(&mut self) -> (r: Memory<'_>) { unimplemented!() }
}

pub mod root {
use super::*;
#[verifier::external_body]
pub fn memory_requirement_sqrt_rem(n: usize) -> (r: Layout) { unimplemented!() }

// root::sqrt_rem: PROVED in unit int_root_sqrt (one source of truth: the contract comes from its annotated copy)
//@@ SIG integer/mul_algos/sqrt_rem.rs
}

/// C12: s is the square root of v truncated toward zero and r the remainder v - s^2
pub open spec fn is_sqrt_rem(v: int, s: int, r: int) -> bool { s >= 0 && s * s <= v < (s + 1) * (s + 1) && r == v - s * s }
pub open spec fn is_sqrt(v: int, s: int) -> bool { s >= 0 && s * s <= v < (s + 1) * (s + 1) }

pub open spec fn gcdo_lz(w: Word) -> u32 { vstd::std_specs::bits::@W@_leading_zeros(w) as u32 }

// ---- bit facts ------------------------------------------------------------------------------------------------------
pub proof fn lemma_gcdo_even_mask(lz: u32)
    ensures (lz & !1u32) % 2 == 0, (lz & !1u32) <= lz, lz - (lz & !1u32) <= 1,
{
    assert((lz & !1u32) % 2 == 0 && (lz & !1u32) <= lz && lz - (lz & !1u32) <= 1) by (bit_vector);
}

// ---- normalisation --------------------------------------------------------------------------------------------------
/// the normalising shift: even, at most 2*BITS - 2, and V * 2^shift lies in [B^(2n)/4, B^(2n))
pub proof fn lemma_gcdo_root_norm(words: Seq<Word>, lz: int, lze: int, shift: int, n: int)
    requires words.len() >= 1, words[words.len() - 1] != 0,
        0 <= lz < @BITS@,
        @HALFB@ <= (words[words.len() - 1] as int) * pow2(lz) < B(),
        lze % 2 == 0, 0 <= lze <= lz <= lze + 1,
        shift == @BITS@ * (words.len() % 2) + lze, n == (words.len() + 1) / 2,
    ensures shift % 2 == 0, 0 <= shift <= 2 * @BITS@ - 2,
        (B() / 4) * pw(2 * n - 1) <= val(words) * pow2(shift) < pw(2 * n),
{
    let len = words.len() as int;
    let top = words[len - 1] as int;
    let v = val(words);
    let p = pw(len - 1);
    lemma_valn_bound(words, len - 1);
    lemma_pw_pos(len - 1);
    // top*p <= v < (top+1)*p
    assert((top + 1) * p == top * p + p) by (nonlinear_arith);
    let e = pow2(lze);
    let f = pow2(lz);
    lemma_sh_pow2_pos(lze);
    if lz == lze { } else { assert(pow2(lz) == 2 * pow2(lz - 1)); }
    // B/4 <= top*e,  (top+1)*e <= B
    assert(top * f == (top * e) * (f / e)) by (nonlinear_arith) requires f == e || f == 2 * e, e >= 1;
    lemma_sh_pow2_add(lz, @BITS@ - lz);
    lemma_sh_pow2_bits();
    let g = pow2(@BITS@ - lz);
    lemma_sh_pow2_pos(@BITS@ - lz);
    assert(top + 1 <= g) by (nonlinear_arith) requires top * f < B(), B() == f * g, f >= 1, g >= 1, top >= 0;
    assert((top + 1) * f <= B()) by (nonlinear_arith) requires top + 1 <= g, B() == f * g, f >= 1;
    assert((top + 1) * e <= (top + 1) * f) by (nonlinear_arith) requires e <= f, top >= 0;
    assert(4 * (top * e) >= B()) by (nonlinear_arith) requires 2 * (top * f) >= B(), f == e || f == 2 * e, top * f == (top * e) * (f / e), e >= 1;
    // scale by p
    assert(v * e >= (top * e) * p) by (nonlinear_arith) requires v >= top * p, e >= 1;
    assert(v * e < ((top + 1) * e) * p) by (nonlinear_arith) requires v < (top + 1) * p, e >= 1;
    assert((top * e) * p >= (B() / 4) * p) by (nonlinear_arith) requires top * e >= B() / 4, p >= 1;
    assert(((top + 1) * e) * p <= B() * p) by (nonlinear_arith) requires (top + 1) * e <= B(), p >= 1;
    assert(pw(len) == B() * pw(len - 1));
    if len % 2 == 0 {
        assert(2 * n == len);
    } else {
        assert(2 * n == len + 1);
        lemma_sh_pow2_add(@BITS@, lze);
        assert(pw(len + 1) == B() * pw(len));
        assert(v * (B() * e) == (v * e) * B()) by (nonlinear_arith);
        assert((v * e) * B() >= ((B() / 4) * p) * B()) by (nonlinear_arith) requires v * e >= (B() / 4) * p;
        assert(((B() / 4) * p) * B() == (B() / 4) * (B() * p)) by (nonlinear_arith);
        assert((v * e) * B() < (B() * p) * B()) by (nonlinear_arith) requires v * e < B() * p;
        assert((B() * p) * B() == B() * (B() * p)) by (nonlinear_arith);
    }
}

/// a normalized word sequence worth [B^k/4, B^k) has exactly k words and a top word of at least B/4
pub proof fn lemma_gcdo_root_len(buf: Seq<Word>, k: int)
    requires normalized(buf), k >= 1, (B() / 4) * pw(k - 1) <= val(buf) < pw(k),
    ensures buf.len() == k, buf[k - 1] as int >= B() / 4,
{
    let len = buf.len() as int;
    lemma_pw_pos(k - 1);
    assert((B() / 4) * pw(k - 1) >= pw(k - 1)) by (nonlinear_arith) requires pw(k - 1) >= 1, B() / 4 >= 1;
    if len > k {
        lemma_normalized_lower(buf);
        lemma_pw_mono(k, len - 1);
    } else if len < k {
        lemma_valn_bound(buf, len);
        lemma_pw_mono(len, k - 1);
    } else {
        lemma_valn_bound(buf, k - 1);
        let top = buf[k - 1] as int;
        if top < B() / 4 {
            assert(top * pw(k - 1) + pw(k - 1) <= (B() / 4) * pw(k - 1)) by (nonlinear_arith)
                requires top + 1 <= B() / 4, pw(k - 1) >= 1;
        }
    }
}

// ---- un-normalisation -----------------------------------------------------------------------------------------------
/// v*H^2 == s^2 + r, r <= 2s, s == s1*H + s0 (0 <= s0 < H):  s1 is the root of v and
/// r + 2*s*s0 - s0^2 == (v - s1^2) * H^2  (non-negative, at most 2*s*H)
pub proof fn lemma_gcdo_root_unnorm(v: int, hh: int, s: int, r: int, s1: int, s0: int)
    requires hh >= 1, v * (hh * hh) == s * s + r, 0 <= r <= 2 * s, s == s1 * hh + s0, 0 <= s0 < hh, s1 >= 0, v >= 0,
    ensures is_sqrt(v, s1),
        r + 2 * s * s0 - s0 * s0 == (v - s1 * s1) * (hh * hh),
        0 <= r + 2 * s * s0 - s0 * s0 <= 2 * s * hh,
{
    let rp = r + 2 * s * s0 - s0 * s0;
    assert((s1 * hh) * (s1 * hh) == (s1 * s1) * (hh * hh)) by (nonlinear_arith);
    assert((s1 * hh + s0) * (s1 * hh + s0) == (s1 * hh) * (s1 * hh) + 2 * (s1 * hh + s0) * s0 - s0 * s0) by (nonlinear_arith);
    assert(rp == v * (hh * hh) - (s1 * s1) * (hh * hh));
    assert(v * (hh * hh) - (s1 * s1) * (hh * hh) == (v - s1 * s1) * (hh * hh)) by (nonlinear_arith);
    // rp >= 0
    assert(s0 * (2 * s - s0) >= 0) by (nonlinear_arith) requires 0 <= s0, s0 <= s;
    assert(2 * s * s0 - s0 * s0 == s0 * (2 * s - s0)) by (nonlinear_arith);
    let h2 = hh * hh;
    assert(h2 >= 1) by (nonlinear_arith) requires hh >= 1, h2 == hh * hh;
    assert(v - s1 * s1 >= 0) by (nonlinear_arith) requires (v - s1 * s1) * h2 >= 0, h2 >= 1;
    // v < (s1+1)^2:  v*H^2 = s^2 + r < (s+1)^2 <= ((s1+1)*H)^2
    let t = (s1 + 1) * hh;
    assert(t == s1 * hh + hh) by (nonlinear_arith) requires t == (s1 + 1) * hh;
    assert(s + 1 <= t);
    assert((s + 1) * (s + 1) <= t * t) by (nonlinear_arith) requires 0 <= s + 1 <= t;
    assert((s + 1) * (s + 1) == s * s + 2 * s + 1) by (nonlinear_arith);
    assert(t * t == ((s1 + 1) * (s1 + 1)) * h2) by (nonlinear_arith) requires t == (s1 + 1) * hh, h2 == hh * hh;
    assert(v < (s1 + 1) * (s1 + 1)) by (nonlinear_arith)
        requires v * h2 < ((s1 + 1) * (s1 + 1)) * h2, h2 >= 1;
    // rp <= 2*s*H:  v - s1^2 <= 2*s1, s1*H <= s
    assert(v - s1 * s1 <= 2 * s1) by (nonlinear_arith) requires v < (s1 + 1) * (s1 + 1);
    assert((v - s1 * s1) * h2 <= (2 * s1) * h2) by (nonlinear_arith) requires v - s1 * s1 <= 2 * s1, h2 >= 1;
    assert((2 * s1) * h2 == 2 * (s1 * hh) * hh) by (nonlinear_arith) requires h2 == hh * hh;
    assert(2 * (s1 * hh) * hh <= 2 * s * hh) by (nonlinear_arith) requires s1 * hh <= s, hh >= 1;
}

/// the top word of the unshifted remainder: x'' + (rt + c1 - c2)*P == R' with 0 <= R' < B*P, 0 <= x'' < P
pub proof fn lemma_gcdo_root_top(x0: int, x1: int, x2: int, rt: int, c1: int, c2: int, p: int, m: int, sq: int, rp: int)
    requires x1 + c1 * p == x0 + m, x2 - c2 * p == x1 - sq, rp == x0 + rt * p + m - sq,
        0 <= x0 < p, 0 <= x1 < p, 0 <= x2 < p, 0 <= rp < B() * p, 0 <= rt <= 1, 0 <= c2 <= 1, 0 <= c1, 0 <= m < (B() - 2) * p, p >= 1,
    ensures 0 <= rt + c1 - c2 < B(), rt + c1 < B(), x2 + (rt + c1 - c2) * p == rp,
{
    assert(x2 + (rt + c1 - c2) * p == rp) by (nonlinear_arith)
        requires x1 + c1 * p == x0 + m, x2 - c2 * p == x1 - sq, rp == x0 + rt * p + m - sq;
    let t = rt + c1 - c2;
    assert(t >= 0) by (nonlinear_arith) requires x2 + t * p == rp, rp >= 0, x2 < p, p >= 1;
    assert(t < B()) by (nonlinear_arith) requires x2 + t * p == rp, rp < B() * p, x2 >= 0, p >= 1;
    assert(c1 < B() - 1) by (nonlinear_arith) requires x1 + c1 * p == x0 + m, x1 >= 0, x0 < p, m < (B() - 2) * p, p >= 1;
}

/// exact right shift of the remainder:  rp == q * (a*b)  ==>  (rp / a) / b == q  and  rp % a == 0
pub proof fn lemma_gcdo_root_shr2(rp: int, q: int, a: int, b: int)
    requires rp == q * (a * b), a >= 1, b >= 1,
    ensures rp % a == 0, rp / a == q * b, (rp / a) / b == q,
{
    assert(rp == (q * b) * a) by (nonlinear_arith) requires rp == q * (a * b);
    vstd::arithmetic::div_mod::lemma_fundamental_div_mod_converse(rp, a, q * b, 0);
    vstd::arithmetic::div_mod::lemma_fundamental_div_mod_converse(q * b, b, q, 0);
}

/// dropping the lowest word of [R' (n+1 words), G]:  t*B + low == rp + (B*P)*G, B | rp, low < B, t == tlo + P*thi,
/// 0 <= tlo < P, rp < B*P  ==>  tlo == rp / B
pub proof fn lemma_gcdo_root_shr_word(t: int, tlo: int, thi: int, rp: int, g: int, p: int, low: int)
    requires t * B() + low == rp + (B() * p) * g, rp % B() == 0, 0 <= low < B(), t == tlo + p * thi,
        0 <= tlo < p, 0 <= rp < B() * p, p >= 1, g >= 0, thi >= 0,
    ensures tlo == rp / B(),
{
    let k = rp / B();
    vstd::arithmetic::div_mod::lemma_fundamental_div_mod(rp, B());
    assert(rp == B() * k);
    assert((B() * p) * g == B() * (p * g)) by (nonlinear_arith);
    // t*B + low == B*(k + p*g)  ==>  low == 0 (mod B) and t == k + p*g
    assert(low == B() * (k + p * g - t)) by (nonlinear_arith) requires t * B() + low == B() * k + B() * (p * g);
    assert(k + p * g - t == 0) by (nonlinear_arith) requires low == B() * (k + p * g - t), 0 <= low < B();
    assert(0 <= k < p) by (nonlinear_arith) requires rp == B() * k, 0 <= rp < B() * p;
    // tlo + p*thi == k + p*g with both tlo, k in [0, p)
    assert(thi == g) by (nonlinear_arith) requires tlo + p * thi == k + p * g, 0 <= tlo < p, 0 <= k < p;
    assert(p * thi == p * g) by (nonlinear_arith) requires thi == g;
}
