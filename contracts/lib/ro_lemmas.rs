// ---- ro_lemmas.rs: value-level statement of C10 for float/src/round_ops.rs and `FBig::to_int`, and the integer
// facts behind the proofs.  Needs round_prelude.rs, round_float_repr.rs, farith_lemmas.rs.  Nothing trusted here.
// A finite float is (s, e) with the exact value s * b^e; for e < 0 it is the rational s / d with d = b^(-e).

/// the Repr `r` is finite and has exactly the value t * B^e
pub open spec fn repr_is<const B: Word>(r: Repr<B>, t: int, e: int) -> bool {
    !(r.significand.v() == 0 && r.exponent != 0)
    && same_value(B as int, r.significand.v(), r.exponent as int, t, e)
}
/// the integer t is the neighbour that mode m names for the exact value s * b^e (the value itself if it is an integer);
/// round_def (lib/round_prelude.rs) is the definition of the modes by integer inequalities on t*d and s
pub open spec fn fl_round_int(m: Mode, b: int, s: int, e: int, t: int) -> bool {
    if e >= 0 { t == s * ipow(b, e as nat) } else { round_def(m, s, ipow(b, (-e) as nat), t) }
}
/// t is the integral part (towards zero) and l * b^e the fractional part of s * b^e:
/// s == t * d + l, |l| < d, l == 0 or sign(l) == sign(s)   (so t + l/d == s/d exactly)
pub open spec fn fl_split(b: int, s: int, e: int, t: int, l: int) -> bool {
    if e >= 0 { t == s * ipow(b, e as nat) && l == 0 } else { is_trunc_divrem(s, ipow(b, (-e) as nat), t, l) }
}
/// trunc(): r is the integral part of x
pub open spec fn fl_trunc_post<const B: Word>(x: Repr<B>, r: Repr<B>) -> bool {
    exists|t: int, l: int| #[trigger] fl_split(B as int, x.significand.v(), x.exponent as int, t, l) && repr_is(r, t, 0)
}
/// fract(): r is the fractional part of x
pub open spec fn fl_fract_post<const B: Word>(x: Repr<B>, r: Repr<B>) -> bool {
    exists|t: int, l: int| #[trigger] fl_split(B as int, x.significand.v(), x.exponent as int, t, l) && repr_is(r, l, x.exponent as int)
}
/// split_at_point(): (r0, r1) are the integral and the fractional part of x (of ONE split: r0 + r1 == x exactly)
pub open spec fn fl_split_post<const B: Word>(x: Repr<B>, r0: Repr<B>, r1: Repr<B>) -> bool {
    exists|t: int, l: int| #[trigger] fl_split(B as int, x.significand.v(), x.exponent as int, t, l)
        && repr_is(r0, t, 0) && repr_is(r1, l, x.exponent as int)
}
/// floor / ceil / round: r is the integer that mode m names for x
pub open spec fn fl_int_post<const B: Word>(m: Mode, x: Repr<B>, r: Repr<B>) -> bool {
    exists|t: int| #[trigger] fl_round_int(m, B as int, x.significand.v(), x.exponent as int, t) && repr_is(r, t, 0)
}

/// sanity of the vocabulary: the split is unique and its integral part is the rounding towards zero
pub proof fn lemma_ro_split_unique(b: int, s: int, e: int, t1: int, l1: int, t2: int, l2: int)
    requires b >= 2, fl_split(b, s, e, t1, l1), fl_split(b, s, e, t2, l2)
    ensures t1 == t2, l1 == l2, fl_round_int(Mode::Zero, b, s, e, t1)
{
    if e < 0 {
        let d = ipow(b, (-e) as nat);
        lemma_ipow_pos(b, (-e) as nat);
        lemma_divrem_facts(s, d, t1, l1);
        lemma_divrem_facts(s, d, t2, l2);
        lemma_trunc_unique(s, d, t1, l1, t2);
    }
}
/// sanity: the integer named by a mode is unique
pub proof fn lemma_ro_round_unique(m: Mode, b: int, s: int, e: int, t1: int, t2: int)
    requires b >= 2, fl_round_int(m, b, s, e, t1), fl_round_int(m, b, s, e, t2)
    ensures t1 == t2
{
    if e < 0 {
        lemma_ipow_pos(b, (-e) as nat);
        lemma_round_def_unique(m, s, ipow(b, (-e) as nat), t1, t2);
    }
}

/// the `digits_ub` shortcuts: a significand of at most n digits, n + 1 <= m, is below b^m / b
/// (|s * b^(-m)| < 1/b <= 1/2)
pub proof fn lemma_ro_small(b: int, s: int, n: nat, m: nat)
    requires b >= 2, ndigits(b, s) <= n, n + 1 <= m
    ensures b * iabs(s) < ipow(b, m), 2 * iabs(s) < ipow(b, m), iabs(s) < ipow(b, m)
{
    lemma_ndigits_ub(b, s);
    lemma_ipow_mono(b, ndigits(b, s), n);
    lemma_ipow_mono(b, n + 1, m);
    let a = iabs(s);
    let p = ipow(b, n);
    assert(ipow(b, n + 1) == b * ipow(b, ((n + 1) - 1) as nat));
    assert(((n + 1) - 1) as nat == n);
    assert(b * a < b * p) by (nonlinear_arith) requires b >= 2, 0 <= a, a < p;
    assert(2 * a <= b * a) by (nonlinear_arith) requires b >= 2, 0 <= a;
}
/// the integer neighbours of a non-zero value s/d with |s/d| < 1/2
pub proof fn lemma_ro_tiny(s: int, d: int)
    requires d > 0, s != 0, 2 * iabs(s) < d
    ensures
        is_trunc_divrem(s, d, 0, s),
        round_def(Mode::Zero, s, d, 0),
        round_def(Mode::HalfAway, s, d, 0),
        round_def(Mode::Down, s, d, if s > 0 { 0 } else { -1 }),
        round_def(Mode::Up, s, d, if s > 0 { 1 } else { 0 }),
{
    assert(0 * d == 0);
    assert(1 * d == d);
    assert((-1) * d == -d);
}
/// same for |s/d| < 1 (what trunc / floor / ceil need)
pub proof fn lemma_ro_below_one(s: int, d: int)
    requires d > 0, s != 0, iabs(s) < d
    ensures
        is_trunc_divrem(s, d, 0, s),
        round_def(Mode::Zero, s, d, 0),
        round_def(Mode::Down, s, d, if s > 0 { 0 } else { -1 }),
        round_def(Mode::Up, s, d, if s > 0 { 1 } else { 0 }),
{
    assert(0 * d == 0);
    assert(1 * d == d);
    assert((-1) * d == -d);
}
/// a representation of a non-zero value has a non-zero significand (so it is not one of the infinities)
pub proof fn lemma_ro_same_value_nz(b: int, s1: int, e1: int, s2: int, e2: int)
    requires b >= 1, same_value(b, s1, e1, s2, e2)
    ensures (s1 == 0) == (s2 == 0)
{
    if e1 <= e2 {
        let p = ipow(b, (e2 - e1) as nat);
        lemma_ipow_pos(b, (e2 - e1) as nat);
        assert((s2 * p == 0) == (s2 == 0)) by (nonlinear_arith) requires p >= 1;
    } else {
        let p = ipow(b, (e1 - e2) as nat);
        lemma_ipow_pos(b, (e1 - e2) as nat);
        assert((s1 * p == 0) == (s1 == 0)) by (nonlinear_arith) requires p >= 1;
    }
}
/// an integer-valued float (e >= 0) seen at exponent 0
pub proof fn lemma_ro_int_exp(b: int, s: int, e: int)
    requires e >= 0
    ensures same_value(b, s, e, s * ipow(b, e as nat), 0), same_value(b, 0, 0, 0, e)
{
    if e == 0 {
        assert(ipow(b, 0) == 1);
        assert(s * 1 == s);
        assert((s * 1) * 1 == s);
    }
    assert(0 * ipow(b, e as nat) == 0);
}
/// a representation has its own value, and 0 at any exponent is the value of (0, 0)
pub proof fn lemma_ro_same_self(b: int, t: int, e: int)
    ensures same_value(b, t, e, t, e), same_value(b, 0, 0, 0, e)
{
    assert(ipow(b, 0) == 1);
    assert(t * 1 == t);
    if e >= 0 { assert(0 * ipow(b, e as nat) == 0); } else { assert(0 * ipow(b, (-e) as nat) == 0); }
}
/// the mode-rounded integer hi + adj of s = hi*d + lo (contract of Round::round_fract) with a truthful flag
pub proof fn lemma_ro_round_parts(m: Mode, s: int, d: int, hi: int, lo: int, adj: Rounding)
    requires d > 0, is_trunc_divrem(s, d, hi, lo), round_def(m, hi * d + lo, d, hi + adj_int(adj))
    ensures round_def(m, s, d, hi + adj_int(adj)), round_def(Mode::Zero, s, d, hi)
{
    lemma_divrem_facts(s, d, hi, lo);
}
/// the result r of `Repr::new(t, e)` (same value; (0, 0) for t == 0) is finite and has the value t * B^e
pub proof fn lemma_ro_new_is<const B: Word>(r: Repr<B>, t: int, e: int)
    requires B >= 1, same_value(B as int, r.significand.v(), r.exponent as int, t, e),
        t == 0 ==> r.significand.v() == 0 && r.exponent == 0,
    ensures repr_is(r, t, e)
{
    lemma_ro_same_value_nz(B as int, r.significand.v(), r.exponent as int, t, e);
}
