// ---- parse_str_all.rs: helper of engine rule D15b (`X.bytes().all(|b| b == C)` on a &str).  VERIFIED in the including
// unit against the string model lib/parse_str.rs.  Trusted (as for D1 / D15): `str::bytes()` yields the bytes of
// `as_bytes()` in order; `Iterator::all` with a pure closure is the conjunction over all items (true for none).
pub fn __str_all_eq(s: &str, c: u8) -> (r: bool)
    ensures r == (forall|k: int| 0 <= k < s.b().len() ==> (#[trigger] s.b()[k]) == c),
{
    let b = s.as_bytes();
    let mut i: usize = 0;
    while i < b.len()
        invariant i <= b@.len(), b@ == s.b(), b@.len() <= isize::MAX,
            forall|k: int| 0 <= k < i ==> (#[trigger] b@[k]) == c,
        decreases b@.len() - i
    {
        if b[i] != c { return false; }
        i += 1;
    }
    true
}
