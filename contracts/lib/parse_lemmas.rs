// ---- parse_lemmas.rs: arithmetic of the digit loops of integer/src/parse (needs parse_spec.rs, parse_stubs.rs,
// pow_lemmas.rs, shift_bv.rs).  Nothing here is trusted.

/// r >= 2  ==>  r^e >= 2^e
pub proof fn lemma_ipow_ge_pow2(r: int, e: int)
    requires r >= 2,
    ensures ipow(r, e) >= pow2(e),
    decreases e
{
    if e > 0 {
        lemma_ipow_ge_pow2(r, e - 1);
        lemma_sh_pow2_pos(e - 1);
        let (x, y) = (ipow(r, e - 1), pow2(e - 1));
        assert(r * x >= 2 * y) by (nonlinear_arith) requires r >= 2, x >= y, y >= 1;
    }
}

/// fewer digits than bits fit a word: digits_per_word < WORD_BITS
pub proof fn lemma_dpw_bits(radix: Digit)
    requires radix_ok(radix),
    ensures 1 <= dpw(radix) < @BITS@,
{
    radix::ax_radix_info(radix);
    let e = dpw(radix);
    if e >= @BITS@ {
        lemma_ipow_ge_pow2(radix as int, e);
        lemma_sh_pow2_mono(@BITS@, e);
        lemma_sh_pow2_bits();
    }
}

/// r^x <= r^y for x <= y
pub proof fn lemma_ipow_le(b: int, x: int, y: int)
    requires b >= 1, 0 <= x <= y,
    ensures 1 <= ipow(b, x) <= ipow(b, y),
{
    lemma_ipow_add(b, x, y - x);
    lemma_ipow_pos(b, x);
    lemma_ipow_pos(b, y - x);
    let (p, q) = (ipow(b, x), ipow(b, y - x));
    assert(p * q >= p) by (nonlinear_arith) requires p >= 1, q >= 1;
}

/// a digit string of n <= digits_per_word digits is a word: value < radix^n <= range_per_word < B
pub proof fn lemma_npt_word_step(s: Seq<u8>, radix: Digit, n: int)
    requires radix_ok(radix), s.len() == n, n <= dpw(radix), all_digits(s, radix as int),
    ensures 0 <= digits_value(s, radix as int) < rpw(radix), rpw(radix) < B(),
        digits_value(s, radix as int) < ipow(radix as int, n),
{
    radix::ax_radix_info(radix);
    lemma_dv_bound(s, radix as int);
    lemma_ipow_le(radix as int, n, dpw(radix));
}

/// a group bytes[lo..hi) behind a prefix of digits: digits all the way to hi iff the group consists of digits
pub proof fn lemma_chunk_group(s: Seq<u8>, lo: int, hi: int, r: int)
    requires 0 <= lo <= hi <= s.len(), all_digits(s.subrange(0, lo), r),
    ensures all_digits(s.subrange(0, hi), r) == all_digits(s.subrange(lo, hi), r),
        !all_digits(s.subrange(lo, hi), r) ==> !all_digits(s, r),
{
    let p = s.subrange(0, hi);
    assert(p.subrange(0, lo) =~= s.subrange(0, lo));
    assert(p.subrange(lo, hi) =~= s.subrange(lo, hi));
    lemma_all_digits_split(p, lo, r);
    if all_digits(s, r) { lemma_all_digits_sub(s, lo, hi, r); }
}

/// one step of parse_chunk: the buffer (value v0, len0 words) is multiplied by range_per_word, the next group is added
pub proof fn lemma_chunk_step(s: Seq<u8>, lo: int, hi: int, radix: Digit, k: int, v0: int, v1: int, carry: int, next: int, len0: int)
    requires radix_ok(radix), 0 <= lo <= hi <= s.len(), k >= 0,
        k == 0 ==> lo == 0, k >= 1 ==> hi - lo == dpw(radix),
        v0 == digits_value(s.subrange(0, lo), radix as int),
        next == digits_value(s.subrange(lo, hi), radix as int),
        v1 + carry * pw(len0) == v0 * rpw(radix) + next,
    ensures v1 + carry * pw(len0) == digits_value(s.subrange(0, hi), radix as int),
{
    radix::ax_radix_info(radix);
    let p = s.subrange(0, hi);
    assert(p.subrange(0, lo) =~= s.subrange(0, lo));
    assert(p.subrange(lo, hi) =~= s.subrange(lo, hi));
    lemma_dv_split(p, lo, radix as int);
    if k == 0 {
        lemma_dv_empty(s.subrange(0, 0), radix as int);
        assert(0 * rpw(radix) == 0);
        assert(0 * ipow(radix as int, hi - lo) == 0);
    }
}

// ---- usize shifts (parse_large: `(len - 1) >> k`, `chunk_bytes << k`) -------------------------------------------------

/// x >> k == floor(x / 2^k)
pub proof fn lemma_usize_shr(x: usize, k: usize)
    requires k < usize::BITS,
    ensures (x >> k) as int == (x as int) / pow2(k as int),
    decreases k
{
    if k == 0 {
        assert(x >> 0usize == x) by (bit_vector);
        assert(pow2(0) == 1);
        assert((x as int) / 1 == x as int);
        assert((x >> k) == x);
    } else {
        let t = (k - 1) as usize;
        lemma_usize_shr(x, t);
        lemma_sh_pow2_pos(t as int);
        let y = x >> t;
        assert(x >> k == (x >> t) >> 1usize) by (bit_vector) requires 0 < k < usize::BITS, t == k - 1;
        assert((y >> 1usize) == y / 2usize) by (bit_vector);
        let p = pow2(t as int);
        let xi = x as int;
        assert((xi / p) / 2 == xi / (p * 2)) by { vstd::arithmetic::div_mod::lemma_div_denominator(xi, p, 2); }
    }
}

/// usize::MAX + 1 == 2^usize::BITS (both pointer widths)
pub proof fn lemma_usize_max()
    ensures usize::MAX as int + 1 == pow2(usize::BITS as int), usize::BITS == 32 || usize::BITS == 64,
{
    if usize::BITS == 32 { assert(pow2(32) == 0x1_0000_0000) by (compute); }
    else { assert(pow2(64) == 0x1_0000_0000_0000_0000) by (compute); }
}

/// x << k == x * 2^k when nothing is shifted out
pub proof fn lemma_usize_shl(x: usize, k: usize)
    requires k < usize::BITS, (x as int) * pow2(k as int) <= usize::MAX,
    ensures (x << k) as int == (x as int) * pow2(k as int),
    decreases k
{
    if k == 0 {
        assert(x << 0usize == x) by (bit_vector);
        assert(pow2(0) == 1);
        assert((x as int) * 1 == x as int);
        assert((x << k) == x);
    } else {
        let t = (k - 1) as usize;
        lemma_sh_pow2_pos(t as int);
        let (xi, p) = (x as int, pow2(t as int));
        assert(xi * pow2(k as int) == 2 * (xi * p)) by (nonlinear_arith) requires pow2(k as int) == 2 * p;
        lemma_usize_shl(x, t);
        let y = x << t;
        let z = y << 1usize;
        let top = (usize::BITS - 1) as usize;
        assert(x << k == (x << t) << 1usize) by (bit_vector) requires 0 < k < usize::BITS, t == k - 1;
        // 2 * y <= usize::MAX: the top bit of y is clear
        lemma_usize_max();
        lemma_usize_shr(y, top);
        let pt = pow2(top as int);
        assert(usize::BITS as int == top as int + 1);
        assert(pow2(top as int + 1) == 2 * pt);
        assert(pow2(usize::BITS as int) == 2 * pt);
        lemma_sh_pow2_pos(top as int);
        let yi = y as int;
        assert(yi == xi * p);
        assert(2 * yi <= usize::MAX as int);
        assert(0 <= yi < pt);
        assert(yi / pt == 0) by { vstd::arithmetic::div_mod::lemma_basic_div(yi, pt); }
        assert((y >> top) == 0usize);
        assert((y >> top) == 0 ==> (z >> 1usize) == y && z & 1 == 0) by (bit_vector)
            requires z == y << 1usize, top == usize::BITS - 1;
        assert(z & 1 == 0 ==> z % 2 == 0) by (bit_vector);
        lemma_usize_shr(z, 1);
        assert(pow2(0) == 1 && pow2(1) == 2 * pow2(0));
        let zi = z as int;
        assert(zi / 2 == yi);
        assert(zi % 2 == 0);
        assert(zi == 2 * (zi / 2) + zi % 2) by { vstd::arithmetic::div_mod::lemma_fundamental_div_mod(zi, 2); }
        assert(zi == 2 * yi);
        assert((x << k) == z);
        assert(zi == xi * pow2(k as int));
    }
}

/// q < c * 2^k  <==>  q / 2^k < c   (exit test of the power loop of parse_large, q = len - 1)
pub proof fn lemma_div_lt(q: int, c: int, p: int)
    requires q >= 0, c >= 0, p >= 1,
    ensures (q / p < c) == (q < c * p),
{
    vstd::arithmetic::div_mod::lemma_fundamental_div_mod(q, p);
    vstd::arithmetic::div_mod::lemma_mod_bound(q, p);
    let (d, m) = (q / p, q % p);
    assert(q == p * d + m);
    if d < c {
        assert(p * d + p <= c * p) by (nonlinear_arith) requires d + 1 <= c, p >= 1;
    } else {
        assert(p * d >= c * p) by (nonlinear_arith) requires d >= c, p >= 1;
    }
}

// ---- radix powers of parse_large ----------------------------------------------------------------------------------------

/// `radix_powers` contains radix^n for n = chunk digits << i
pub open spec fn rp_ok(rp: Seq<UBig>, radix: int, chunk_bytes: int) -> bool {
    forall|i: int| 0 <= i < rp.len() ==> (#[trigger] rp[i]).0.v() == ipow(radix, chunk_bytes * pow2(i))
}

pub proof fn lemma_rp_prefix(rp: Seq<UBig>, radix: int, chunk_bytes: int)
    requires rp_ok(rp, radix, chunk_bytes), rp.len() > 0,
    ensures rp_ok(rp.subrange(0, rp.len() - 1), radix, chunk_bytes),
        rp[rp.len() - 1].0.v() == ipow(radix, chunk_bytes * pow2(rp.len() - 1)),
{
    let q = rp.subrange(0, rp.len() - 1);
    assert forall|i: int| 0 <= i < q.len() implies (#[trigger] q[i]).0.v() == ipow(radix, chunk_bytes * pow2(i)) by {
        assert(q[i] == rp[i]);
    }
}

/// appending the square of the last power
pub proof fn lemma_rp_push(rp: Seq<UBig>, radix: int, chunk_bytes: int, new: UBig)
    requires rp_ok(rp, radix, chunk_bytes), rp.len() > 0, chunk_bytes >= 0,
        new.0.v() == rp[rp.len() - 1].0.v() * rp[rp.len() - 1].0.v(),
    ensures rp_ok(rp.push(new), radix, chunk_bytes),
{
    let k = rp.len() as int;
    let e = chunk_bytes * pow2(k - 1);
    lemma_sh_pow2_pos(k - 1);
    assert(e >= 0) by (nonlinear_arith) requires chunk_bytes >= 0, pow2(k - 1) >= 1, e == chunk_bytes * pow2(k - 1);
    lemma_ipow_add(radix, e, e);
    assert(chunk_bytes * pow2(k) == e + e) by (nonlinear_arith) requires pow2(k) == 2 * pow2(k - 1), e == chunk_bytes * pow2(k - 1);
    assert forall|i: int| 0 <= i < rp.push(new).len() implies (#[trigger] rp.push(new)[i]).0.v() == ipow(radix, chunk_bytes * pow2(i)) by {
        if i < k { assert(rp.push(new)[i] == rp[i]); }
    }
}

/// the split of the divide-and-conquer step: lo_len = chunk_bytes * 2^(k-1) low digits
pub proof fn lemma_dc_split(s: Seq<u8>, radix: Digit, lo_len: int, vhi: int, vlo: int, pwr: int)
    requires radix_ok(radix), 0 <= lo_len <= s.len(),
        vhi == digits_value(s.subrange(0, s.len() - lo_len), radix as int),
        vlo == digits_value(s.subrange(s.len() - lo_len, s.len() as int), radix as int),
        pwr == ipow(radix as int, lo_len),
    ensures vhi * pwr + vlo == digits_value(s, radix as int),
{
    lemma_dv_split(s, s.len() - lo_len, radix as int);
}

// ---- parse_large: the power loop -------------------------------------------------------------------------------------------

/// the first radix power: range_per_word^CHUNK_LEN == radix^(CHUNK_LEN * digits_per_word); it can be allocated
pub proof fn lemma_large_first_power(radix: Digit)
    requires radix_ok(radix),
    ensures pow_fits(rpw(radix), 256), rpw(radix) >= 0,
        ipow(rpw(radix), 256) == ipow(radix as int, (256 * dpw(radix)) * pow2(0)),
{
    radix::ax_radix_info(radix);
    lemma_pw2();
    assert(pw(2) > rpw(radix)) by (nonlinear_arith) requires pw(2) == B() * B(), 0 <= rpw(radix) < B(), B() >= 1;
    assert(2 * (2 * 256) <= max_capacity());
    lemma_ipow_mul(radix as int, dpw(radix), 256);
    assert(pow2(0) == 1);
    assert((256 * dpw(radix)) * 1 == dpw(radix) * 256);
}

/// isize::MAX + 1 == 2^(usize::BITS - 1)
pub proof fn lemma_isize_max()
    ensures isize::MAX as int + 1 == pow2(usize::BITS as int - 1), usize::BITS == 32 || usize::BITS == 64,
{
    if usize::BITS == 32 { assert(pow2(31) == 0x8000_0000) by (compute); }
    else { assert(pow2(63) == 0x8000_0000_0000_0000) by (compute); }
}

/// the loop test succeeded for k powers: chunk_bytes << k <= q = len - 1, and there is room for one more power
pub proof fn lemma_large_loop(chunk_bytes: usize, q: usize, k: usize)
    requires k < usize::BITS, chunk_bytes >= 2, chunk_bytes <= q >> k, q < isize::MAX,
    ensures chunk_bytes * pow2(k as int) <= q, k + 1 < usize::BITS,
{
    lemma_usize_shr(q, k);
    lemma_sh_pow2_pos(k as int);
    lemma_div_lt(q as int, chunk_bytes as int, pow2(k as int));
    lemma_isize_max();
    let (c, p) = (chunk_bytes as int, pow2(k as int));
    assert(2 * p <= c * p) by (nonlinear_arith) requires c >= 2, p >= 1;
    if k + 1 >= usize::BITS - 1 {
        lemma_sh_pow2_mono(usize::BITS as int - 1, k as int + 1);
    }
}

/// the loop test failed for k powers: len = q + 1 <= chunk_bytes << k, which is a usize
pub proof fn lemma_large_exit(chunk_bytes: usize, q: usize, k: usize)
    requires 1 <= k < usize::BITS, !(chunk_bytes <= q >> k), q < isize::MAX, chunk_bytes * pow2(k as int - 1) <= q,
    ensures q + 1 <= chunk_bytes * pow2(k as int) <= usize::MAX,
{
    lemma_usize_shr(q, k);
    lemma_sh_pow2_pos(k as int);
    lemma_div_lt(q as int, chunk_bytes as int, pow2(k as int));
    lemma_isize_max();
    lemma_usize_max();
    let (c, p) = (chunk_bytes as int, pow2(k as int - 1));
    assert(c * pow2(k as int) == 2 * (c * p)) by (nonlinear_arith) requires pow2(k as int) == 2 * p;
}
