// ---- bits_stubs.rs: additions to lib/repr_stubs.rs (include that file first) for the bit / shift dispatch code
// (bits.rs mod repr, shift_ops.rs mod repr): three more `Buffer` methods and `math::ceil_div`.  Every external_body item
// is a TRUSTED ASSUMPTION that mirrors the quoted real code; the real unsafe implementations are bounded-checked by
// the Kani groups on buffer.rs (C17).  Word = @W@.

// primitive.rs `pub const DWORD_BITS_USIZE: usize = DoubleWord::BIT_SIZE as usize;`
pub const DWORD_BITS_USIZE: usize = 2 * @BITS@;

impl Buffer {
    // buffer.rs:260-278 `pub fn push_zeros_front(&mut self, n) { assert!(n <= self.capacity - self.len);
    //   ptr::copy(ptr, ptr.add(n), self.len); zero-fill the first n; self.len += n }`
    #[verifier::external_body]
    pub fn push_zeros_front(&mut self, n: usize)
        requires n as int <= old(self).capacity() as int - old(self)@.len(),
        ensures final(self)@ == zeros(n as int) + old(self)@, final(self).capacity() == old(self).capacity(),
    { unimplemented!() }

    // buffer.rs:334-346 `pub fn erase_front(&mut self, n) { assert!(self.len >= n); ptr::copy(ptr.add(n), ptr, len - n);
    //   self.len = len - n }`
    #[verifier::external_body]
    pub fn erase_front(&mut self, n: usize)
        requires n <= old(self)@.len(),
        ensures final(self)@ == old(self)@.subrange(n as int, old(self)@.len() as int),
            final(self).capacity() == old(self).capacity(),
    { unimplemented!() }

    // buffer.rs:372-380 `pub fn lowest_dword_mut(&mut self) -> (&mut Word, &mut Word) { assert!(self.len >= 2);
    //   (&mut *ptr, &mut *ptr.add(1)) }`
    #[verifier::external_body]
    pub fn lowest_dword_mut(&mut self) -> (r: (&mut Word, &mut Word))
        requires old(self)@.len() >= 2,
        ensures *r.0 == old(self)@[0], *r.1 == old(self)@[1],
            final(self)@ == old(self)@.update(0, *final(r.0)).update(1, *final(r.1)),
            final(self).capacity() == old(self).capacity(),
    { unimplemented!() }
}

// math.rs:28-34 `pub fn ceil_div<T: PrimitiveUnsigned>(a: T, b: T) -> T { if a == 0 { 0 } else { (a - 1) / b + 1 } }`
// instantiated at usize (generic over a crate-private trait: not extractable); TRUSTED
pub mod math_stub {
    #[allow(unused_imports)]
    use super::*;
    #[verifier::external_body]
    pub fn ceil_div(a: usize, b: usize) -> (r: usize)
        requires b > 0,
        ensures r as int == (if a == 0 { 0 } else { (a as int - 1) / (b as int) + 1 }),
    { unimplemented!() }
}
