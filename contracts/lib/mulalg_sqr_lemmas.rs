// ---- mulalg_sqr_lemmas.rs: squaring by the diagonal trick (sqr/simple.rs).  Needs prelude, mul_lemmas, mulalg_lemmas.

/// value of the suffix a[r..]
pub open spec fn suf(a: Seq<Word>, r: int) -> int { val(a.subrange(r, a.len() as int)) }

/// off-diagonal part of suf(a, r)^2, each pair once:  sum_{r <= i < j} a_i a_j B^(i + j - 2r)
pub open spec fn tri_suf(a: Seq<Word>, r: int) -> int
    decreases a.len() - r
{
    if r < 0 || r >= a.len() { 0 } else { (a[r] as int) * (B() * suf(a, r + 1)) + (B() * B()) * tri_suf(a, r + 1) }
}

/// diagonal part of suf(a, r)^2:  sum_{r <= i} a_i^2 B^(2(i - r))
pub open spec fn diag_suf(a: Seq<Word>, r: int) -> int
    decreases a.len() - r
{
    if r < 0 || r >= a.len() { 0 } else { (a[r] as int) * (a[r] as int) + (B() * B()) * diag_suf(a, r + 1) }
}

pub proof fn lemma_suf_step(a: Seq<Word>, r: int)
    requires 0 <= r < a.len(),
    ensures suf(a, r) == a[r] as int + B() * suf(a, r + 1),
{
    let s = a.subrange(r, a.len() as int);
    lemma_val_split(s, 1);
    lemma_val1(s.subrange(0, 1));
    assert(s.subrange(1, s.len() as int) =~= a.subrange(r + 1, a.len() as int));
    assert(pw(1) == B() * pw(0));
    assert(pw(0) == 1);
}

pub proof fn lemma_suf_full(a: Seq<Word>)
    ensures suf(a, 0) == val(a), suf(a, a.len() as int) == 0,
{
    assert(a.subrange(0, a.len() as int) =~= a);
}

/// (x + B s)^2 = x^2 + 2 x B s + B^2 s^2
pub proof fn lemma_sq_split(x: int, s: int, bb: int)
    ensures (x + bb * s) * (x + bb * s) == x * x + 2 * (x * (bb * s)) + (bb * bb) * (s * s),
{
    let y = bb * s;
    assert((x + y) * (x + y) == x * x + 2 * (x * y) + y * y) by (nonlinear_arith);
    assert((bb * s) * (bb * s) == (bb * bb) * (s * s)) by (nonlinear_arith);
}

/// suf(a, r)^2 = diagonal + 2 * off-diagonal
pub proof fn lemma_sq_suf(a: Seq<Word>, r: int)
    requires 0 <= r <= a.len(),
    ensures suf(a, r) * suf(a, r) == diag_suf(a, r) + 2 * tri_suf(a, r),
    decreases a.len() - r
{
    if r >= a.len() {
        lemma_suf_full(a);
        assert(0 * 0 == 0);
    } else {
        lemma_sq_suf(a, r + 1);
        lemma_suf_step(a, r);
        let x = a[r] as int;
        let s = suf(a, r + 1);
        lemma_sq_split(x, s, B());
        let bb = B() * B();
        let d = diag_suf(a, r + 1);
        let t = tri_suf(a, r + 1);
        assert(bb * (d + 2 * t) == bb * d + 2 * (bb * t)) by (nonlinear_arith);
    }
}

/// the word at position j replaced (b1 -> b2)
pub proof fn lemma_set_word(b1: Seq<Word>, b2: Seq<Word>, j: int)
    requires 0 <= j < b1.len(), b2 =~= b1.update(j, b2[j]),
    ensures val(b2) == val(b1) + (b2[j] as int - b1[j] as int) * pw(j),
{
    let len = b1.len() as int;
    assert(valn(b2, j + 1) == valn(b2, j) + (b2[j] as int) * pw(j));
    assert(valn(b1, j + 1) == valn(b1, j) + (b1[j] as int) * pw(j));
    lemma_valn_ext(b2, b1, j);
    lemma_valn_tail(b1, b2, j + 1, len);
    let d = b2[j] as int - b1[j] as int;
    assert((b1[j] as int + d) * pw(j) == (b1[j] as int) * pw(j) + d * pw(j)) by (nonlinear_arith);
}

/// invariant of the triangular loop after i rows: b holds the rows so far (carry bit c0 at word n + i), the words from
/// n + i on are still zero
pub closed spec fn tri_inv(b: Seq<Word>, a: Seq<Word>, i: int, c0: bool) -> bool {
    val(b) + b2i(c0) * pw(a.len() + i) + pw(2 * i) * tri_suf(a, i) == tri_suf(a, 0)
}

pub proof fn lemma_tri_init(b: Seq<Word>, a: Seq<Word>)
    requires forall|j: int| 0 <= j < b.len() ==> b[j] == 0,
    ensures tri_inv(b, a, 0, false),
{
    lemma_val_zeros(b);
    assert(pw(0) == 1);
    assert(0 * pw(a.len() as int) == 0);
    assert(1 * tri_suf(a, 0) == tri_suf(a, 0));
}

pub proof fn lemma_tri_row_arith(v0: int, v1: int, v2: int, c0: int, c1: int, cw: int, top: int, m: int, s: int,
    p2i: int, pni: int, t1: int, tt: int)
    requires v1 + cw * pni == v0 + (m * s) * (B() * p2i),
        v2 == v1 + top * pni,
        top + c1 * B() == cw + c0,
        v0 + c0 * pni + p2i * (m * (B() * s) + (B() * B()) * t1) == tt,
    ensures v2 + c1 * (B() * pni) + ((B() * B()) * p2i) * t1 == tt,
{
    assert((top + c1 * B()) * pni == top * pni + c1 * (B() * pni)) by (nonlinear_arith);
    assert((cw + c0) * pni == cw * pni + c0 * pni) by (nonlinear_arith);
    let x = m * (B() * s);
    let y = (B() * B()) * t1;
    assert(p2i * (x + y) == p2i * x + p2i * y) by (nonlinear_arith);
    assert(p2i * (m * (B() * s)) == (m * s) * (B() * p2i)) by (nonlinear_arith);
    assert(p2i * ((B() * B()) * t1) == ((B() * B()) * p2i) * t1) by (nonlinear_arith);
}

/// row i: window [2i+1, n+i) += a_i * a[i+1..] (b0 -> b1, carry word cw), then word n+i (zero so far) = cw + c0 with
/// carry c1 (b1 -> b2)
pub proof fn lemma_tri_row(b0: Seq<Word>, b1: Seq<Word>, b2: Seq<Word>, a: Seq<Word>, i: int, c0: bool, c1: bool, cw: int)
    requires 0 <= i < a.len(), b0.len() == 2 * a.len(), b1.len() == b0.len(), b2.len() == b0.len(),
        tri_inv(b0, a, i, c0),
        b0[a.len() + i] == 0,
        b1.subrange(0, 2 * i + 1) =~= b0.subrange(0, 2 * i + 1),
        b1.subrange(a.len() + i, b0.len() as int) =~= b0.subrange(a.len() + i, b0.len() as int),
        val(b1.subrange(2 * i + 1, a.len() + i)) + cw * pw(a.len() - 1 - i)
            == val(b0.subrange(2 * i + 1, a.len() + i)) + (a[i] as int) * val(a.subrange(i + 1, a.len() as int)),
        b2 =~= b1.update(a.len() + i, b2[a.len() + i]),
        b2[a.len() + i] as int + b2i(c1) * B() == cw + b2i(c0),
    ensures tri_inv(b2, a, i + 1, c1),
{
    let n = a.len() as int;
    let m = a[i] as int;
    let s = suf(a, i + 1);
    lemma_window(b0, b1, 2 * i + 1, n + i, cw, m * s);
    lemma_set_word(b1, b2, n + i);
    assert(b1[n + i] == b1.subrange(n + i, 2 * n)[0]);
    assert(b0[n + i] == b0.subrange(n + i, 2 * n)[0]);
    assert(pw(2 * i + 1) == B() * pw(2 * i));
    assert(pw(n + i + 1) == B() * pw(n + i));
    assert(pw(2 * i + 2) == B() * pw(2 * i + 1));
    assert(B() * (B() * pw(2 * i)) == (B() * B()) * pw(2 * i)) by (nonlinear_arith);
    lemma_tri_row_arith(val(b0), val(b1), val(b2), b2i(c0), b2i(c1), cw, b2[n + i] as int, m, s, pw(2 * i), pw(n + i),
        tri_suf(a, i + 1), tri_suf(a, 0));
}

pub proof fn lemma_tri_fin(b: Seq<Word>, a: Seq<Word>, c0: bool)
    requires tri_inv(b, a, a.len() as int, c0),
    ensures val(b) + b2i(c0) * pw(2 * (a.len() as int)) == tri_suf(a, 0),
{
    assert(pw(2 * (a.len() as int)) * 0 == 0);
}

/// invariant of the diagonal loop after i double words: b[..2i] = 2 * bm[..2i] + diagonal squares so far (carry bits c1, c2
/// at word 2i); bm = the buffer after the triangular loop
pub closed spec fn diag_inv(b: Seq<Word>, bm: Seq<Word>, a: Seq<Word>, i: int, c1: bool, c2: bool) -> bool {
    valn(b, 2 * i) + (b2i(c1) + b2i(c2)) * pw(2 * i) + pw(2 * i) * diag_suf(a, i) == 2 * valn(bm, 2 * i) + diag_suf(a, 0)
}

pub proof fn lemma_diag_init(b: Seq<Word>, a: Seq<Word>)
    ensures diag_inv(b, b, a, 0, false, false),
{
    assert(pw(0) == 1);
    assert(0 * pw(0) == 0);
    assert(1 * diag_suf(a, 0) == diag_suf(a, 0));
}

pub proof fn lemma_diag_step_arith(x0: int, x1: int, y0: int, y1: int, cc: int, oc: int, nd: int, od: int, m: int, p: int,
    d1: int, dd: int)
    requires x1 == x0 + nd * p, y1 == y0 + od * p,
        nd + oc * (B() * B()) == m * m + 2 * od + cc,
        x0 + cc * p + p * (m * m + (B() * B()) * d1) == 2 * y0 + dd,
    ensures x1 + oc * ((B() * B()) * p) + ((B() * B()) * p) * d1 == 2 * y1 + dd,
{
    assert((nd + oc * (B() * B())) * p == nd * p + oc * ((B() * B()) * p)) by (nonlinear_arith);
    assert((m * m + 2 * od + cc) * p == (m * m) * p + 2 * (od * p) + cc * p) by (nonlinear_arith);
    let x = m * m;
    let y = (B() * B()) * d1;
    assert(p * (x + y) == x * p + p * y) by (nonlinear_arith);
    assert(p * ((B() * B()) * d1) == ((B() * B()) * p) * d1) by (nonlinear_arith);
}

/// double word i: [b0, b1] = m^2 + 2 [b0, b1] + c1 + c2 with carries oc1, oc2 (w0 -> w1; only words 2i, 2i+1 change)
pub proof fn lemma_diag_step(w0: Seq<Word>, w1: Seq<Word>, bm: Seq<Word>, a: Seq<Word>, i: int,
    c1: bool, c2: bool, oc1: bool, oc2: bool)
    requires 0 <= i < a.len(), w0.len() == 2 * a.len(), w1.len() == w0.len(), bm.len() == w0.len(),
        diag_inv(w0, bm, a, i, c1, c2),
        w0[2 * i] == bm[2 * i], w0[2 * i + 1] == bm[2 * i + 1],
        forall|j: int| 0 <= j < 2 * i ==> w1[j] == w0[j],
        (w1[2 * i] as int + (w1[2 * i + 1] as int) * B()) + (b2i(oc1) + b2i(oc2)) * (B() * B())
            == (a[i] as int) * (a[i] as int) + 2 * (w0[2 * i] as int + (w0[2 * i + 1] as int) * B()) + b2i(c1) + b2i(c2),
    ensures diag_inv(w1, bm, a, i + 1, oc1, oc2),
{
    let p = pw(2 * i);
    lemma_valn_ext(w1, w0, 2 * i);
    assert(valn(w1, 2 * i + 2) == valn(w1, 2 * i + 1) + (w1[2 * i + 1] as int) * pw(2 * i + 1));
    assert(valn(w1, 2 * i + 1) == valn(w1, 2 * i) + (w1[2 * i] as int) * pw(2 * i));
    assert(valn(bm, 2 * i + 2) == valn(bm, 2 * i + 1) + (bm[2 * i + 1] as int) * pw(2 * i + 1));
    assert(valn(bm, 2 * i + 1) == valn(bm, 2 * i) + (bm[2 * i] as int) * pw(2 * i));
    assert(pw(2 * i + 1) == B() * p);
    assert(pw(2 * i + 2) == B() * pw(2 * i + 1));
    assert(B() * (B() * p) == (B() * B()) * p) by (nonlinear_arith);
    let nd = w1[2 * i] as int + (w1[2 * i + 1] as int) * B();
    let od = bm[2 * i] as int + (bm[2 * i + 1] as int) * B();
    let h1 = w1[2 * i + 1] as int; let l1 = w1[2 * i] as int;
    assert((l1 + h1 * B()) * p == l1 * p + h1 * (B() * p)) by (nonlinear_arith);
    let h0 = bm[2 * i + 1] as int; let l0 = bm[2 * i] as int;
    assert((l0 + h0 * B()) * p == l0 * p + h0 * (B() * p)) by (nonlinear_arith);
    lemma_diag_step_arith(valn(w0, 2 * i), valn(w1, 2 * i + 2), valn(bm, 2 * i), valn(bm, 2 * i + 2),
        b2i(c1) + b2i(c2), b2i(oc1) + b2i(oc2), nd, od, a[i] as int, p, diag_suf(a, i + 1), diag_suf(a, 0));
}

/// both loops done: all three carry bits are zero and b = a^2
pub proof fn lemma_square_fin(b: Seq<Word>, bm: Seq<Word>, a: Seq<Word>, c0: bool, c1: bool, c2: bool)
    requires b.len() == 2 * a.len(), bm.len() == b.len(),
        val(bm) + b2i(c0) * pw(2 * (a.len() as int)) == tri_suf(a, 0),
        diag_inv(b, bm, a, a.len() as int, c1, c2),
    ensures !c0, !c1, !c2, val(b) == val(a) * val(a),
{
    let n = a.len() as int;
    let p = pw(2 * n);
    lemma_sq_suf(a, 0);
    lemma_suf_full(a);
    assert(p * 0 == 0);
    lemma_val_prod_bound(a, a);
    lemma_val_bound(b);
    let k = b2i(c1) + b2i(c2) + 2 * b2i(c0);
    let k12 = b2i(c1) + b2i(c2);
    let z = b2i(c0);
    assert((k12 + 2 * z) * p == k12 * p + 2 * (z * p)) by (nonlinear_arith);
    assert(val(b) + k * p == val(a) * val(a));
    assert(k == 0) by (nonlinear_arith) requires 0 <= val(b), val(b) + k * p < p, k >= 0, p >= 1;
}
