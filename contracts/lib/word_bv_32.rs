// ---- bit-vector facts for Word = u32 -----------------------------------------------------------
pub proof fn lemma_double_word_bv(low: u32, high: u32)
    ensures ((low as u64) | ((high as u64) << 32u32)) as int == low as int + (high as int) * B(),
{
    assert(((low as u64) | ((high as u64) << 32u32)) == (low as u64) + (high as u64) * 0x1_0000_0000u64)
        by (bit_vector);
}

pub proof fn lemma_split_dword_bv(dw: u64)
    ensures (dw as u32) as int + ((dw >> 32u32) as u32) as int * B() == dw as int,
{
    assert((dw as u32) as u64 + ((dw >> 32u32) as u32) as u64 * 0x1_0000_0000u64 == dw) by (bit_vector);
}
