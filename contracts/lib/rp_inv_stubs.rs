// ---- rp_inv_stubs.rs: dashu_base::Inverse (trait mirrored, as in lib/ratio2_inv_stubs.rs) with `Inverse for Repr` in its
// MUST_PANIC reading, as seen by the one-line forwardings `Inverse for RBig / &RBig / Relaxed / &Relaxed`.
// Include after lib/ratio_lemmas.rs, lib/bigstub.rs, lib/ratio_types.rs, INSTEAD OF lib/ratio2_inv_stubs.rs.
pub mod rp_inv_stubs {
use super::*;
pub trait Inverse {
    type Output;
    spec fn inv_req(self) -> bool;
    spec fn inv_post(self, r: Self::Output) -> bool;
    fn inv(self) -> (r: Self::Output) requires self.inv_req() ensures self.inv_post(r);
}
// the must_panic contract of `impl Inverse for Repr :: inv` (requires numerator == 0, ensures false) is
// PROVED in unit ratio_zero_panic from annot/rational/panic/repr_inv.rs; repeated here for the callers (TRUSTED to be the
// same text)
impl Inverse for Repr {
    type Output = Repr;
    open spec fn inv_req(self) -> bool { self.numerator.v() == 0 }
    open spec fn inv_post(self, r: Repr) -> bool { false }
    #[verifier::external_body]
    fn inv(self) -> (r: Repr) { unimplemented!() }
}
// TRUSTED (rational/src/repr.rs `Clone for Repr`, integer clones): a clone has the same parts
impl Clone for Repr {
    #[verifier::external_body]
    fn clone(&self) -> (r: Repr) ensures r.numerator.v() == self.numerator.v(), r.denominator.v() == self.denominator.v() { unimplemented!() }
}
} // mod rp_inv_stubs
pub use rp_inv_stubs::*;
