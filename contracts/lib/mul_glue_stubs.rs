// ---- mul_glue_stubs.rs: scratch-memory types as seen by the multiplication / powering glue (mul_ops.rs, pow.rs) ------
// integer/src/memory.rs.  The scratch allocator only hands out temporary space: it never influences a value, so its
// types are opaque.  A too small scratch area makes the real allocate_* PANIC (memory.rs panic_out_of_memory); the
// SIZING of the scratch area (memory_requirement_exact, add_layout, array_layout) is NOT verified here.
// TRUSTED: MemoryAllocation::new / memory (memory.rs:35, 55) return; allocate_slice_copy (memory.rs:99) returns a
// slice holding a copy of `source`.
#[verifier::external_body]
pub struct Layout { _p: u8 }
#[verifier::external_body]
pub struct Memory { _p: u8 }
#[verifier::external_body]
pub struct MemoryAllocation { _p: u8 }
impl MemoryAllocation {
    #[verifier::external_body]
    pub fn new(layout: Layout) -> MemoryAllocation { unimplemented!() }
    #[verifier::external_body]
    pub fn memory(&mut self) -> Memory { unimplemented!() }
}
impl Memory {
    #[verifier::external_body]
    pub fn allocate_slice_copy<'a>(&'a mut self, source: &[Word]) -> (r: (&'a mut [Word], Memory))
        ensures r.0@ == source@,
    { unimplemented!() }
}
pub assume_specification [core::cmp::Ordering::is_eq] (o: core::cmp::Ordering) -> (r: bool)
    ensures r == (o == core::cmp::Ordering::Equal);
