// ---- mulalg_dword_lemmas.rs: words *= double word (mul/mod.rs mul_dword_in_place).  Needs lib/prelude.rs.

/// double word i: [lo, hi] * rhs + carry = [new_lo, new_hi] + new_carry * B^2   (s0 -> s1; only words 2i, 2i+1 change)
pub proof fn lemma_muldw_step(s0: Seq<Word>, s1: Seq<Word>, w: Seq<Word>, i: int, rv: int, k0: int, k1: int)
    requires 0 <= i, 2 * i + 2 <= w.len(), s0.len() == w.len(), s1.len() == w.len(),
        valn(s0, 2 * i) + k0 * pw(2 * i) == valn(w, 2 * i) * rv,
        s0[2 * i] == w[2 * i], s0[2 * i + 1] == w[2 * i + 1],
        forall|j: int| 0 <= j < 2 * i ==> s1[j] == s0[j],
        (s1[2 * i] as int + (s1[2 * i + 1] as int) * B()) + k1 * (B() * B())
            == (s0[2 * i] as int + (s0[2 * i + 1] as int) * B()) * rv + k0,
    ensures valn(s1, 2 * i + 2) + k1 * pw(2 * i + 2) == valn(w, 2 * i + 2) * rv,
{
    let p = pw(2 * i);
    lemma_valn_ext(s1, s0, 2 * i);
    assert(valn(s1, 2 * i + 2) == valn(s1, 2 * i + 1) + (s1[2 * i + 1] as int) * pw(2 * i + 1));
    assert(valn(s1, 2 * i + 1) == valn(s1, 2 * i) + (s1[2 * i] as int) * pw(2 * i));
    assert(valn(w, 2 * i + 2) == valn(w, 2 * i + 1) + (w[2 * i + 1] as int) * pw(2 * i + 1));
    assert(valn(w, 2 * i + 1) == valn(w, 2 * i) + (w[2 * i] as int) * pw(2 * i));
    assert(pw(2 * i + 1) == B() * p);
    assert(pw(2 * i + 2) == B() * pw(2 * i + 1));
    assert(B() * (B() * p) == (B() * B()) * p) by (nonlinear_arith);
    let nd = s1[2 * i] as int + (s1[2 * i + 1] as int) * B();
    let od = w[2 * i] as int + (w[2 * i + 1] as int) * B();
    let l1 = s1[2 * i] as int; let h1 = s1[2 * i + 1] as int;
    let l0 = w[2 * i] as int; let h0 = w[2 * i + 1] as int;
    assert((l1 + h1 * B()) * p == l1 * p + h1 * (B() * p)) by (nonlinear_arith);
    assert((l0 + h0 * B()) * p == l0 * p + h0 * (B() * p)) by (nonlinear_arith);
    assert((nd + k1 * (B() * B())) * p == nd * p + k1 * ((B() * B()) * p)) by (nonlinear_arith);
    assert((od * rv + k0) * p == (od * p) * rv + k0 * p) by (nonlinear_arith);
    let x = valn(w, 2 * i);
    assert((x + od * p) * rv == x * rv + (od * p) * rv) by (nonlinear_arith);
}

/// the odd word at position m (the last one), two 1x1 multiplications; or no word left (m == len)
pub proof fn lemma_muldw_tail(s0: Seq<Word>, s1: Seq<Word>, w: Seq<Word>, m: int, rv: int, k0: int, k1: int,
    mlo: int, mhi: int, clo: int, chi: int, nclo: int, nhi: int, nchi: int)
    requires m + 1 == w.len(), 0 <= m, s0.len() == w.len(), s1.len() == w.len(),
        valn(s0, m) + k0 * pw(m) == valn(w, m) * rv, s0[m] == w[m],
        forall|j: int| 0 <= j < m ==> s1[j] == s0[j],
        rv == mlo + mhi * B(), k0 == clo + chi * B(),
        s1[m] as int + nclo * B() == (s0[m] as int) * mlo + clo,
        nhi + nchi * B() == (s0[m] as int) * mhi + nclo + chi,
        k1 == nhi + nchi * B(),
    ensures val(s1) + k1 * pw(w.len() as int) == val(w) * rv,
{
    let p = pw(m);
    let r0 = s0[m] as int;
    let n0 = s1[m] as int;
    lemma_valn_ext(s1, s0, m);
    assert(valn(s1, m + 1) == valn(s1, m) + n0 * p);
    assert(valn(w, m + 1) == valn(w, m) + r0 * p);
    assert(pw(m + 1) == B() * p);
    // r0 * rv + k0 = n0 + k1 * B
    assert(r0 * (mlo + mhi * B()) == r0 * mlo + (r0 * mhi) * B()) by (nonlinear_arith);
    assert((nhi + nchi * B()) * B() == (r0 * mhi + nclo + chi) * B());
    assert((r0 * mhi + nclo + chi) * B() == (r0 * mhi) * B() + nclo * B() + chi * B()) by (nonlinear_arith);
    assert(n0 + k1 * B() == r0 * rv + k0);
    assert((n0 + k1 * B()) * p == n0 * p + k1 * (B() * p)) by (nonlinear_arith);
    assert((r0 * rv + k0) * p == (r0 * p) * rv + k0 * p) by (nonlinear_arith);
    let x = valn(w, m);
    assert((x + r0 * p) * rv == x * rv + (r0 * p) * rv) by (nonlinear_arith);
}
