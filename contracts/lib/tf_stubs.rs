// ---- tf_stubs.rs: what rational/src/third_party/dashu_float.rs `Repr::to_float` needs from dashu-int and dashu-float
// beyond round_int_stubs.rs / round_int_addsub_stubs.rs / round_float_repr.rs / conv_fbig_stubs.rs / ebounds_stubs.rs.
// EVERY external_body contract here is a TRUSTED ASSUMPTION about the lower layer; each was read off the real function.

/// k is the floor logarithm of |v| in base b: b^k <= |v| < b^(k+1)
pub open spec fn tf_ilog_is(b: int, v: int, k: nat) -> bool { ipow(b, k) <= iabs(v) && iabs(v) < ipow(b, k + 1) }
impl IBig {
    /// integer/src/sign.rs `IBig::signum`: ONE / ZERO / NEG_ONE  (not used by the current to_float; present so that the
    /// earlier sticky-digit version `q * base + r.signum()` is judged by the contract instead of being rejected)
    #[verifier::external_body]
    pub fn signum(&self) -> (r: IBig)
        ensures self.v() > 0 ==> r.v() == 1, self.v() == 0 ==> r.v() == 0, self.v() < 0 ==> r.v() == -1
    { unimplemented!() }
    /// integer/src/log.rs `IBig::ilog`: "Calculate the (truncated) logarithm of the magnitude of IBig"; "Panics if the
    /// number is 0, or the base is 0 or 1" (`TypedReprRef::log` returns (log, base^log) with base^log <= |self| < base^(log+1))
    #[verifier::external_body]
    pub fn ilog(&self, base: &UBig) -> (r: usize)
        requires self.v() != 0, base.v() >= 2
        ensures tf_ilog_is(base.v(), self.v(), r as nat)
    { unimplemented!() }
}
impl UBig {
    /// integer/src/log.rs `UBig::ilog`: "Calculate the (truncated) logarithm of the UBig"; same panics
    #[verifier::external_body]
    pub fn ilog(&self, base: &UBig) -> (r: usize)
        requires self.v() != 0, base.v() >= 2
        ensures tf_ilog_is(base.v(), self.v(), r as nat)
    { unimplemented!() }
    /// integer/src/ubig.rs `UBig::as_ibig(&self) -> &IBig`: the same number seen as a signed one
    #[verifier::external_body]
    pub fn as_ibig(&self) -> (r: &IBig) ensures r.v() == self.v() { unimplemented!() }
}

// dashu_base::DivRem (trait mirrored).  integer/src/div_ops.rs `forward_ibig_ubig_binop_to_repr!(impl DivRem, div_rem ->
// (IBig, IBig), .., impl_ibig_divrem)`: IBig by UBig, quotient truncated towards zero, remainder with the sign of the
// dividend; division by zero panics (=> `requires` a non-zero divisor)
pub trait DivRem<Rhs = Self> {
    type OutputDiv;
    type OutputRem;
    spec fn div_rem_req(self, rhs: Rhs) -> bool;
    fn div_rem(self, rhs: Rhs) -> (Self::OutputDiv, Self::OutputRem)
        requires self.div_rem_req(rhs);
}
impl<'l, 'r> DivRem<&'r UBig> for &'l IBig {
    type OutputDiv = IBig;
    type OutputRem = IBig;
    open spec fn div_rem_req(self, rhs: &'r UBig) -> bool { rhs.v() != 0 }
    #[verifier::external_body]
    fn div_rem(self, rhs: &'r UBig) -> (ret: (IBig, IBig))
        ensures is_trunc_divrem(self.v(), rhs.v(), ret.0.v(), ret.1.v())
    { unimplemented!() }
}
impl<'r> DivRem<&'r UBig> for IBig {
    type OutputDiv = IBig;
    type OutputRem = IBig;
    open spec fn div_rem_req(self, rhs: &'r UBig) -> bool { rhs.v() != 0 }
    #[verifier::external_body]
    fn div_rem(self, rhs: &'r UBig) -> (ret: (IBig, IBig))
        ensures is_trunc_divrem(self.v(), rhs.v(), ret.0.v(), ret.1.v())
    { unimplemented!() }
}

// integer/src/mul_ops.rs `forward_ibig_ubig_binop_to_repr!(impl Mul, mul, Output = IBig, ..)`: IBig * UBig, value-exact
impl Mul<UBig> for IBig { type Output = IBig; #[verifier::external_body] fn mul(self, rhs: UBig) -> IBig { unimplemented!() } }
impl MulSpecImpl<UBig> for IBig {
    open spec fn obeys_mul_spec() -> bool { true }
    open spec fn mul_req(self, rhs: UBig) -> bool { true }
    open spec fn mul_spec(self, rhs: UBig) -> IBig { ibig_of(self.v() * rhs.v()) }
}
impl<'a> Mul<UBig> for &'a IBig { type Output = IBig; #[verifier::external_body] fn mul(self, rhs: UBig) -> IBig { unimplemented!() } }
impl<'a> MulSpecImpl<UBig> for &'a IBig {
    open spec fn obeys_mul_spec() -> bool { true }
    open spec fn mul_req(self, rhs: UBig) -> bool { true }
    open spec fn mul_spec(self, rhs: UBig) -> IBig { ibig_of(self.v() * rhs.v()) }
}
impl<'b> Mul<&'b UBig> for IBig { type Output = IBig; #[verifier::external_body] fn mul(self, rhs: &'b UBig) -> IBig { unimplemented!() } }
impl<'b> MulSpecImpl<&'b UBig> for IBig {
    open spec fn obeys_mul_spec() -> bool { true }
    open spec fn mul_req(self, rhs: &'b UBig) -> bool { true }
    open spec fn mul_spec(self, rhs: &'b UBig) -> IBig { ibig_of(self.v() * rhs.v()) }
}
// integer/src/mul_ops.rs `impl Mul<UBig> for &UBig` (helper_macros::forward_ubig_binop_to_repr): UBig * UBig, value-exact
impl<'a> Mul<UBig> for &'a UBig { type Output = UBig; #[verifier::external_body] fn mul(self, rhs: UBig) -> UBig { unimplemented!() } }
impl<'a> MulSpecImpl<UBig> for &'a UBig {
    open spec fn obeys_mul_spec() -> bool { true }
    open spec fn mul_req(self, rhs: UBig) -> bool { true }
    open spec fn mul_spec(self, rhs: UBig) -> UBig { ubig_of(self.v() * rhs.v()) }
}
// integer/src/shift_ops.rs `impl Shl<usize> for &IBig` (and for IBig): multiplication by 2^rhs, sign kept
impl<'a> Shl<usize> for &'a IBig { type Output = IBig; #[verifier::external_body] fn shl(self, rhs: usize) -> IBig { unimplemented!() } }
impl<'a> ShlSpecImpl<usize> for &'a IBig {
    open spec fn obeys_shl_spec() -> bool { true }
    open spec fn shl_req(self, rhs: usize) -> bool { true }
    open spec fn shl_spec(self, rhs: usize) -> IBig { ibig_of(self.v() * ipow(2, rhs as nat)) }
}
impl Shl<usize> for IBig { type Output = IBig; #[verifier::external_body] fn shl(self, rhs: usize) -> IBig { unimplemented!() } }
impl ShlSpecImpl<usize> for IBig {
    open spec fn obeys_shl_spec() -> bool { true }
    open spec fn shl_req(self, rhs: usize) -> bool { true }
    open spec fn shl_spec(self, rhs: usize) -> IBig { ibig_of(self.v() * ipow(2, rhs as nat)) }
}

// ---- float/src/shift.rs `impl Shr<isize> for FBig` AS SEEN BY ITS CALLERS.  The real method is verified in this unit
// as the hoisted function `fbig_shr` (annot rational/to_float/fbig_shr.rs) against exactly this statement
// (`ret == fbig_shr_spec(self, rhs)` under `fbig_shr_req`); the operator form below repeats it for call sites.
pub open spec fn fbig_shr_req<R: Round, const B: Word>(f: FBig<R, B>, rhs: isize) -> bool {
    // finite (documented panic otherwise); the exponent subtraction does not leave isize
    &&& !(f.repr.significand.v() == 0 && f.repr.exponent != 0)
    &&& (f.repr.significand.v() != 0 ==> isize::MIN <= f.repr.exponent - rhs <= isize::MAX)
}
/// exact: same significand, exponent lowered by rhs (zero stays (0, 0)), same context
pub open spec fn fbig_shr_spec<R: Round, const B: Word>(f: FBig<R, B>, rhs: isize) -> FBig<R, B> {
    FBig {
        repr: Repr {
            significand: f.repr.significand,
            exponent: if f.repr.significand.v() == 0 { f.repr.exponent } else { (f.repr.exponent - rhs) as isize },
        },
        context: f.context,
    }
}
impl<R: Round, const B: Word> Shr<isize> for FBig<R, B> { type Output = FBig<R, B>;
    #[verifier::external_body] fn shr(self, rhs: isize) -> FBig<R, B> { unimplemented!() } }
impl<R: Round, const B: Word> ShrSpecImpl<isize> for FBig<R, B> {
    open spec fn obeys_shr_spec() -> bool { true }
    open spec fn shr_req(self, rhs: isize) -> bool { fbig_shr_req(self, rhs) }
    open spec fn shr_spec(self, rhs: isize) -> FBig<R, B> { fbig_shr_spec(self, rhs) }
}
