// ---- conv_base_types.rs: dashu_base::Sign for the units that include neither round_prelude.rs nor bigstub.rs
// dashu_base::Sign (base/src/sign.rs) -- transcription of the two-variant enum
#[derive(Clone, Copy, PartialEq, Eq, Debug, Structural)]
pub enum Sign { Positive, Negative }
pub use Sign::*;
