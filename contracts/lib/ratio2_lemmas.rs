// ---- ratio2_lemmas.rs: remainder vocabulary and lemmas of the rational units ratio_rem / ratio_int_ops (C04).
// Needs lib/ratio_lemmas.rs (divides, is_gcd, rabs, tdiv, wf_ratio ...) and lib/ratio2_stubs.rs (trem, erem, ediv).

// `%` of dashu-ratio (rational/tests/div.rs: -1/2 % 1/3 == 1/6, "consistent with dashu_float::FBig"): the remainder of
// the division with the quotient q rounded to the NEAREST integer, ties away from zero.  n/m is the result,
// a/b and c/d the operands (b, d, m > 0), everything cross-multiplied:
//     n/m == a/b - q * c/d,   2*|n/m| <= |c/d|,   on a tie n/m has the sign opposite to a/b
pub open spec fn is_near_rem(a: int, b: int, c: int, d: int, n: int, m: int, q: int) -> bool {
    let r = a * d - q * (b * c);
    n * (b * d) == r * m && 2 * rabs(r) <= b * rabs(c) && (2 * rabs(r) == b * rabs(c) ==> ((r < 0) == (a > 0)))
}
// Euclidean remainder: n/m == a/b - q * c/d with 0 <= n/m < |c/d|
pub open spec fn is_euclid_rem(a: int, b: int, c: int, d: int, n: int, m: int, q: int) -> bool {
    let r = a * d - q * (b * c);
    n * (b * d) == r * m && 0 <= r < b * rabs(c)
}

pub proof fn lemma_trem(a: int, b: int)
    requires b > 0
    ensures trem(a, b) == a - tdiv(a, b) * b, rabs(trem(a, b)) < b, (a >= 0 ==> trem(a, b) >= 0), (a <= 0 ==> trem(a, b) <= 0)
{
    if a >= 0 {
        vstd::arithmetic::div_mod::lemma_fundamental_div_mod(a, b);
        vstd::arithmetic::div_mod::lemma_mod_bound(a, b);
        let q = a / b;
        assert(b * q == q * b) by (nonlinear_arith);
    } else {
        let m = -a;
        vstd::arithmetic::div_mod::lemma_fundamental_div_mod(m, b);
        vstd::arithmetic::div_mod::lemma_mod_bound(m, b);
        let q = m / b;
        assert(b * q == q * b) by (nonlinear_arith);
        assert((-q) * b == -(q * b)) by (nonlinear_arith);
    }
}

// the selection made by impl_rem_with_*: t the truncating remainder, r1 = |t|, r2 = right - r1,
// `if r1 < r2 { (sign t) r1 } else { -(sign t) r2 }`
pub open spec fn near_pick(t: int, right: int) -> int {
    if rabs(t) < right - rabs(t) { t } else if t >= 0 { -(right - rabs(t)) } else { right - rabs(t) }
}

pub proof fn lemma_near_rem(left: int, right: int, t: int, rem: int) -> (qq: int)
    requires right > 0, t == trem(left, right), rem == near_pick(t, right)
    ensures rem == left - qq * right, 2 * rabs(rem) <= right, (2 * rabs(rem) == right ==> ((rem < 0) == (left > 0)))
{
    lemma_trem(left, right);
    let q0 = tdiv(left, right);
    if rabs(t) < right - rabs(t) {
        q0
    } else if t >= 0 {
        let q1 = q0 + 1;
        assert(q1 * right == q0 * right + right) by (nonlinear_arith) requires q1 == q0 + 1;
        q1
    } else {
        let q1 = q0 - 1;
        assert(q1 * right == q0 * right - right) by (nonlinear_arith) requires q1 == q0 - 1;
        q1
    }
}

// from the integers left = (d/g)*a, right = (b/g)*|c| back to the rationals a/b, c/d (g any common divisor of b and d)
pub proof fn lemma_rem_scale(a: int, b: int, c: int, d: int, g: int, ddg: int, bg: int, left: int, right: int, rem: int,
                             qq: int, n: int, m: int)
    requires g > 0, b > 0, d > 0, d == ddg * g, b == bg * g, left == ddg * a, right == bg * rabs(c),
        rem == left - qq * right, 2 * rabs(rem) <= right, (2 * rabs(rem) == right ==> ((rem < 0) == (left > 0))),
        n * (b * ddg) == rem * m
    ensures is_near_rem(a, b, c, d, n, m, qq * (if c < 0 { -1int } else { 1int }))
{
    let s: int = if c < 0 { -1 } else { 1 };
    let q = qq * s;
    let ac = rabs(c);
    let r = a * d - q * (b * c);
    assert(ddg > 0) by (nonlinear_arith) requires d == ddg * g, d > 0, g > 0;
    assert(q * (b * c) == qq * (b * ac)) by (nonlinear_arith)
        requires q == qq * s, (s == 1 && ac == c) || (s == -1 && ac == -c);
    let x1 = ddg * a;
    let x2 = bg * ac;
    assert(x1 * g == a * d) by (nonlinear_arith) requires x1 == ddg * a, d == ddg * g;
    assert(x2 * g == b * ac) by (nonlinear_arith) requires x2 == bg * ac, b == bg * g;
    assert((qq * x2) * g == qq * (x2 * g)) by (nonlinear_arith);
    assert(rem * g == x1 * g - (qq * x2) * g) by (nonlinear_arith) requires rem == x1 - qq * x2;
    assert(rem * g == r);
    let bd = b * ddg;
    assert(b * d == bd * g) by (nonlinear_arith) requires bd == b * ddg, d == ddg * g;
    assert(n * (bd * g) == (rem * g) * m) by (nonlinear_arith) requires n * bd == rem * m;
    let ar = rabs(rem);
    assert(rabs(r) == ar * g) by (nonlinear_arith) requires r == rem * g, g > 0, ar == rabs(rem);
    assert(2 * (ar * g) <= right * g) by (nonlinear_arith) requires 2 * ar <= right, g > 0;
    assert(right * g == b * ac);
    if 2 * rabs(r) == b * ac {
        assert(2 * ar == right) by (nonlinear_arith) requires 2 * (ar * g) == right * g, g > 0;
        assert((r < 0) == (rem < 0)) by (nonlinear_arith) requires r == rem * g, g > 0;
        assert((left > 0) == (a > 0)) by (nonlinear_arith) requires left == ddg * a, ddg > 0;
    }
}

pub proof fn lemma_erem(x: int, y: int)
    requires y != 0
    ensures x == ediv(x, y) * y + erem(x, y), 0 <= erem(x, y) < rabs(y)
{
    let m = rabs(y);
    vstd::arithmetic::div_mod::lemma_fundamental_div_mod(x, m);
    vstd::arithmetic::div_mod::lemma_mod_bound(x, m);
    let q = x / m;
    assert(m * q == q * m) by (nonlinear_arith);
    if y < 0 {
        assert((-q) * y == q * m) by (nonlinear_arith) requires m == -y;
    }
}

// from left = (d/g)*a, right = (b/g)*c (signed) back to the rationals
pub proof fn lemma_euclid_scale(a: int, b: int, c: int, d: int, g: int, ddg: int, bg: int, left: int, right: int,
                                q: int, r0: int, n: int, m: int)
    requires g > 0, b > 0, d > 0, d == ddg * g, b == bg * g, left == ddg * a, right == bg * c,
        left == q * right + r0, 0 <= r0 < rabs(right), n * (b * ddg) == r0 * m
    ensures is_euclid_rem(a, b, c, d, n, m, q)
{
    let r = a * d - q * (b * c);
    assert(bg > 0) by (nonlinear_arith) requires b == bg * g, b > 0, g > 0;
    let x1 = ddg * a;
    let x2 = bg * c;
    assert(x1 * g == a * d) by (nonlinear_arith) requires x1 == ddg * a, d == ddg * g;
    assert(x2 * g == b * c) by (nonlinear_arith) requires x2 == bg * c, b == bg * g;
    assert((q * x2) * g == q * (x2 * g)) by (nonlinear_arith);
    assert(r0 * g == x1 * g - (q * x2) * g) by (nonlinear_arith) requires r0 == x1 - q * x2;
    assert(r0 * g == r);
    let bd = b * ddg;
    assert(b * d == bd * g) by (nonlinear_arith) requires bd == b * ddg, d == ddg * g;
    assert(n * (bd * g) == (r0 * g) * m) by (nonlinear_arith) requires n * bd == r0 * m;
    let ac = rabs(c);
    assert(rabs(right) == bg * ac) by (nonlinear_arith) requires right == bg * c, bg > 0, ac == rabs(c);
    assert((bg * ac) * g == b * ac) by (nonlinear_arith) requires b == bg * g;
    let ar = rabs(right);
    assert(0 <= r0 * g < ar * g) by (nonlinear_arith) requires 0 <= r0 < ar, g > 0;
}

// ---- mixed rational / integer arms ---------------------------------------------------------------------------
// an integer i is i/1 in lowest terms; 1/i (i >= 1) as well
pub proof fn lemma_wf_int(i: int)
    ensures wf_ratio(i, 1), is_gcd(1, rabs(i), 1), is_gcd(1, 1, rabs(i))
{
    lemma_one_divides(rabs(i));
    lemma_one_divides(1);
}
pub proof fn lemma_wf_unit_frac(i: int)
    requires i >= 1
    ensures wf_ratio(1, i)
{
    lemma_one_divides(i);
    lemma_one_divides(1);
}

// a/b in lowest terms  ==>  (a + b*k)/b in lowest terms
pub proof fn lemma_addint_canonical(a: int, b: int, k: int)
    requires wf_ratio(a, b)
    ensures wf_ratio(a + b * k, b)
{
    let n = a + b * k;
    lemma_one_divides(rabs(n));
    lemma_one_divides(b);
    assert forall|e: int| e > 0 && #[trigger] divides(e, rabs(n)) && divides(e, b) implies divides(e, 1) by {
        if n < 0 { lemma_divides_neg(e, -n); }
        assert(divides(e, n));
        // a == (-k) * b + n
        lemma_divides_lincomb(e, b, n, -k);
        assert((-k) * b + n == a) by (nonlinear_arith) requires n == a + b * k;
        assert(divides(e, a));
        if a < 0 { lemma_divides_neg(e, a); }
        assert(divides(e, rabs(a)) && divides(e, b));
    }
    if n == 0 {
        // b divides a
        assert(a == (-k) * b) by (nonlinear_arith) requires 0 == a + b * k;
        lemma_divides_intro(b, -k, a);
        if a < 0 { lemma_divides_neg(b, a); }
        lemma_divides_intro(b, 1, b);
        assert(divides(b, rabs(a)) && divides(b, b));
        assert(divides(b, 1));
        lemma_divides_one(b);
    }
}
