// ---- trusted stubs for integer/src/div/simple.rs (unit int_div_simple). Word = @W@ ------------------------

/// `<[T]>::split_last_mut`: None for the empty slice, otherwise (last element, everything before it); the
/// final value of the slice is the final prefix followed by the final last element (definition in `core`).
pub assume_specification<T> [<[T]>::split_last_mut] (s: &mut [T]) -> (r: Option<(&mut T, &mut [T])>)
    ensures
        old(s)@.len() == 0 ==> r is None && final(s)@ == old(s)@,
        old(s)@.len() > 0 ==> r is Some
            && *(r.unwrap().0) == old(s)@[old(s)@.len() - 1]
            && (r.unwrap().1)@ == old(s)@.subrange(0, old(s)@.len() - 1)
            && final(s)@ == final(r.unwrap().1)@.push(*final(r.unwrap().0));

/// integer/src/primitive.rs :: highest_dword reads the two top words through `get_unchecked` (unsafe, outside
/// Verus' reach). ASSUMED contract; checked on the real code by the Kani harness
/// vk_int_primitive_slice_accessors (group int_primitive, slices of <= 4 words).
#[verifier::external_body]
pub fn highest_dword(words: &[Word]) -> (ret: DoubleWord)
    requires words@.len() >= 2,
    ensures ret as int == words@[words@.len() - 2] as int + (words@[words@.len() - 1] as int) * B(),
{ unimplemented!() }

/// core: the `Ordering` predicates (`is_ge` is `!= Less`, ...)
pub assume_specification [core::cmp::Ordering::is_ge] (o: core::cmp::Ordering) -> (r: bool)
    ensures r == !(o is Less);
pub assume_specification [core::cmp::Ordering::is_gt] (o: core::cmp::Ordering) -> (r: bool)
    ensures r == (o is Greater);
pub assume_specification [core::cmp::Ordering::is_le] (o: core::cmp::Ordering) -> (r: bool)
    ensures r == !(o is Greater);
pub assume_specification [core::cmp::Ordering::is_lt] (o: core::cmp::Ordering) -> (r: bool)
    ensures r == (o is Less);

pub mod cmp {
use super::*;
/// integer/src/cmp.rs :: cmp_same_len uses Iterator::cmp (no Verus model). ASSUMED contract (the same text as in
/// unit int_modadd); bounded-checked on the real code by the Kani group int_cmp.
#[verifier::external_body]
pub fn cmp_same_len(lhs: &[Word], rhs: &[Word]) -> (ret: core::cmp::Ordering)
    requires lhs@.len() == rhs@.len(),
    ensures (ret is Less) == (val(lhs@) < val(rhs@)), (ret is Equal) == (val(lhs@) == val(rhs@)),
        (ret is Greater) == (val(lhs@) > val(rhs@)),
{ unimplemented!() }
}
