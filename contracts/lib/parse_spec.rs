// ---- parse_spec.rs: positional notation of TEXT (C07, parsing half): "parsing a string in radix r yields exactly the
// integer whose positional digits in radix r are the characters of the string (after sign, optional prefix and '_'
// separators) ...; invalid characters are rejected with an error, never silently accepted".
// Vocabulary on byte strings (Seq<u8>, most significant digit first) + proved lemmas.  Needs lib/prelude.rs and an
// `ipow(b: int, e: int)` (lib/pow_lemmas.rs).  Nothing in this file is trusted.

/// value of an ASCII byte in the 36-character digit alphabet 0-9, a-z / A-Z (either letter case); 99 for any other byte
pub open spec fn dig_of(b: u8) -> int {
    if 48 <= b <= 57 { b as int - 48 }            // '0'..='9'
    else if 97 <= b <= 122 { b as int - 97 + 10 }   // 'a'..='z'
    else if 65 <= b <= 90 { b as int - 65 + 10 }    // 'A'..='Z'
    else { 99 }
}
/// the byte is a digit of radix r
pub open spec fn is_dig(b: u8, r: int) -> bool { dig_of(b) < r }

/// every byte is a digit of radix r
pub open spec fn all_digits(s: Seq<u8>, r: int) -> bool {
    forall|i: int| 0 <= i < s.len() ==> is_dig(#[trigger] s[i], r)
}

/// positional value of the digit characters s (most significant first) in radix r; NOTHING is skipped
pub open spec fn digits_value(s: Seq<u8>, r: int) -> int
    decreases s.len()
{
    if s.len() == 0 { 0 } else { digits_value(s.drop_last(), r) * r + dig_of(s.last()) }
}

/// the '_' separator
pub open spec fn US() -> u8 { 95 }

/// the elements of s different from c, in order
pub open spec fn strip_byte(s: Seq<u8>, c: u8) -> Seq<u8>
    decreases s.len()
{
    if s.len() == 0 { Seq::<u8>::empty() }
    else if s.last() == c { strip_byte(s.drop_last(), c) }
    else { strip_byte(s.drop_last(), c).push(s.last()) }
}
/// the text without its '_' separators
pub open spec fn strip_us(s: Seq<u8>) -> Seq<u8> { strip_byte(s, US()) }

/// every byte is a separator or a digit of radix r: the well-formed digit texts
pub open spec fn text_ok(s: Seq<u8>, r: int) -> bool {
    forall|i: int| 0 <= i < s.len() ==> (#[trigger] s[i]) == US() || is_dig(s[i], r)
}
/// the number a well-formed digit text denotes
pub open spec fn text_value(s: Seq<u8>, r: int) -> int { digits_value(strip_us(s), r) }

/// nothing but separators (in particular: the empty text)
pub open spec fn only_us(s: Seq<u8>) -> bool { forall|i: int| 0 <= i < s.len() ==> (#[trigger] s[i]) == US() }
pub open spec fn no_us(s: Seq<u8>) -> bool { forall|i: int| 0 <= i < s.len() ==> (#[trigger] s[i]) != US() }

// ---- digits_value ----------------------------------------------------------------------------------------------------

pub proof fn lemma_dv_empty(s: Seq<u8>, r: int)
    requires s.len() == 0,
    ensures digits_value(s, r) == 0, all_digits(s, r),
{}

/// one more digit at the end
pub proof fn lemma_dv_push(s: Seq<u8>, c: u8, r: int)
    ensures digits_value(s.push(c), r) == digits_value(s, r) * r + dig_of(c),
{
    assert(s.push(c).drop_last() =~= s);
    assert(s.push(c).last() == c);
}

/// the prefix of length i+1 from the prefix of length i (the left-to-right digit loop)
pub proof fn lemma_dv_prefix_step(s: Seq<u8>, i: int, r: int)
    requires 0 <= i < s.len(),
    ensures digits_value(s.subrange(0, i + 1), r) == digits_value(s.subrange(0, i), r) * r + dig_of(s[i]),
{
    assert(s.subrange(0, i + 1).drop_last() =~= s.subrange(0, i));
    assert(s.subrange(0, i + 1).last() == s[i]);
}

pub proof fn lemma_dv_whole(s: Seq<u8>, r: int)
    ensures digits_value(s.subrange(0, s.len() as int), r) == digits_value(s, r),
{
    assert(s.subrange(0, s.len() as int) =~= s);
}

/// value(a ++ b) == value(a) * r^|b| + value(b)
pub proof fn lemma_dv_concat(a: Seq<u8>, b: Seq<u8>, r: int)
    ensures digits_value(a + b, r) == digits_value(a, r) * ipow(r, b.len() as int) + digits_value(b, r),
    decreases b.len()
{
    if b.len() == 0 {
        assert(a + b =~= a);
        assert(digits_value(a, r) * 1 == digits_value(a, r));
    } else {
        let b1 = b.drop_last();
        assert((a + b).drop_last() =~= a + b1);
        assert((a + b).last() == b.last());
        lemma_dv_concat(a, b1, r);
        let (va, vb1, p) = (digits_value(a, r), digits_value(b1, r), ipow(r, b1.len() as int));
        assert(ipow(r, b.len() as int) == r * p);
        assert((va * p + vb1) * r == va * (r * p) + vb1 * r) by (nonlinear_arith);
    }
}

/// splitting a digit string at m
pub proof fn lemma_dv_split(s: Seq<u8>, m: int, r: int)
    requires 0 <= m <= s.len(),
    ensures digits_value(s, r)
        == digits_value(s.subrange(0, m), r) * ipow(r, s.len() - m) + digits_value(s.subrange(m, s.len() as int), r),
{
    assert(s =~= s.subrange(0, m) + s.subrange(m, s.len() as int));
    lemma_dv_concat(s.subrange(0, m), s.subrange(m, s.len() as int), r);
}

/// one more digit in FRONT (the right-to-left digit loops)
pub proof fn lemma_dv_cons(c: u8, t: Seq<u8>, r: int)
    ensures digits_value(seq![c] + t, r) == dig_of(c) * ipow(r, t.len() as int) + digits_value(t, r),
{
    lemma_dv_concat(seq![c], t, r);
    assert(seq![c].drop_last() =~= Seq::<u8>::empty());
    assert(seq![c].last() == c);
    assert(digits_value(seq![c].drop_last(), r) == 0);
    assert(digits_value(seq![c], r) == 0 * r + dig_of(c));
}

/// digits below the radix: 0 <= value < r^(number of digits)
pub proof fn lemma_dv_bound(s: Seq<u8>, r: int)
    requires r >= 1, all_digits(s, r),
    ensures 0 <= digits_value(s, r) < ipow(r, s.len() as int),
    decreases s.len()
{
    if s.len() > 0 {
        let t = s.drop_last();
        assert forall|i: int| 0 <= i < t.len() implies is_dig(#[trigger] t[i], r) by { assert(t[i] == s[i]); }
        lemma_dv_bound(t, r);
        let (v, p, d) = (digits_value(t, r), ipow(r, t.len() as int), dig_of(s.last()));
        assert(is_dig(s[s.len() - 1], r));
        assert(0 <= d < r);
        assert(ipow(r, s.len() as int) == r * p);
        assert(0 <= v * r + d < r * p) by (nonlinear_arith) requires 0 <= v < p, 0 <= d < r;
    }
}

/// all_digits of a concatenation
pub proof fn lemma_all_digits_concat(a: Seq<u8>, b: Seq<u8>, r: int)
    ensures all_digits(a + b, r) == (all_digits(a, r) && all_digits(b, r)),
{
    if all_digits(a, r) && all_digits(b, r) {
        assert forall|i: int| 0 <= i < (a + b).len() implies is_dig(#[trigger] (a + b)[i], r) by {
            if i < a.len() { assert((a + b)[i] == a[i]); } else { assert((a + b)[i] == b[i - a.len()]); }
        }
    }
    if all_digits(a + b, r) {
        assert forall|i: int| 0 <= i < a.len() implies is_dig(#[trigger] a[i], r) by { assert((a + b)[i] == a[i]); }
        assert forall|i: int| 0 <= i < b.len() implies is_dig(#[trigger] b[i], r) by { assert((a + b)[i + a.len()] == b[i]); }
    }
}

/// all_digits of the two parts of a split
pub proof fn lemma_all_digits_split(s: Seq<u8>, m: int, r: int)
    requires 0 <= m <= s.len(),
    ensures all_digits(s, r) == (all_digits(s.subrange(0, m), r) && all_digits(s.subrange(m, s.len() as int), r)),
{
    assert(s =~= s.subrange(0, m) + s.subrange(m, s.len() as int));
    lemma_all_digits_concat(s.subrange(0, m), s.subrange(m, s.len() as int), r);
}

/// all_digits of a prefix extended by one byte
pub proof fn lemma_all_digits_step(s: Seq<u8>, i: int, r: int)
    requires 0 <= i < s.len(),
    ensures all_digits(s.subrange(0, i + 1), r) == (all_digits(s.subrange(0, i), r) && is_dig(s[i], r)),
{
    let (a, b) = (s.subrange(0, i), s.subrange(0, i + 1));
    if all_digits(a, r) && is_dig(s[i], r) {
        assert forall|k: int| 0 <= k < b.len() implies is_dig(#[trigger] b[k], r) by {
            if k < i { assert(b[k] == a[k]); } else { assert(b[k] == s[i]); }
        }
    }
    if all_digits(b, r) {
        assert forall|k: int| 0 <= k < a.len() implies is_dig(#[trigger] a[k], r) by { assert(a[k] == b[k]); }
        assert(b[i] == s[i]);
    }
}

/// a non-digit somewhere in a part is a non-digit of the whole
pub proof fn lemma_all_digits_sub(s: Seq<u8>, a: int, b: int, r: int)
    requires 0 <= a <= b <= s.len(), all_digits(s, r),
    ensures all_digits(s.subrange(a, b), r),
{
    assert forall|k: int| 0 <= k < b - a implies is_dig(#[trigger] s.subrange(a, b)[k], r) by {
        assert(s.subrange(a, b)[k] == s[a + k]);
    }
}

// ---- strip_us ----------------------------------------------------------------------------------------------------------

pub proof fn lemma_strip_concat(a: Seq<u8>, b: Seq<u8>)
    ensures strip_us(a + b) == strip_us(a) + strip_us(b),
    decreases b.len()
{
    if b.len() == 0 {
        assert(a + b =~= a);
        assert(strip_us(a) + strip_us(b) =~= strip_us(a));
    } else {
        let b1 = b.drop_last();
        assert((a + b).drop_last() =~= a + b1);
        assert((a + b).last() == b.last());
        lemma_strip_concat(a, b1);
        if b.last() != US() {
            assert((strip_us(a) + strip_us(b1)).push(b.last()) =~= strip_us(a) + strip_us(b1).push(b.last()));
        }
    }
}

pub proof fn lemma_strip_one(c: u8)
    ensures strip_us(seq![c]) == (if c == US() { Seq::<u8>::empty() } else { seq![c] }),
{
    assert(seq![c].drop_last() =~= Seq::<u8>::empty());
    assert(strip_us(seq![c].drop_last()) =~= Seq::<u8>::empty());
    if c != US() { assert(Seq::<u8>::empty().push(c) =~= seq![c]); }
}

/// one more byte in FRONT of the text
pub proof fn lemma_strip_cons(c: u8, t: Seq<u8>)
    ensures strip_us(seq![c] + t) == (if c == US() { strip_us(t) } else { seq![c] + strip_us(t) }),
{
    lemma_strip_concat(seq![c], t);
    lemma_strip_one(c);
    if c == US() { assert(Seq::<u8>::empty() + strip_us(t) =~= strip_us(t)); }
}

pub proof fn lemma_strip_len(s: Seq<u8>)
    ensures strip_us(s).len() <= s.len(), no_us(strip_us(s)),
    decreases s.len()
{
    if s.len() > 0 {
        lemma_strip_len(s.drop_last());
        if s.last() != US() {
            let t = strip_us(s.drop_last());
            assert forall|i: int| 0 <= i < t.push(s.last()).len() implies (#[trigger] t.push(s.last())[i]) != US() by {
                if i < t.len() { assert(t.push(s.last())[i] == t[i]); }
            }
        }
    }
}

/// a text without separators is its own digit string
pub proof fn lemma_strip_none(s: Seq<u8>)
    requires no_us(s),
    ensures strip_us(s) == s,
    decreases s.len()
{
    if s.len() > 0 {
        let t = s.drop_last();
        assert forall|i: int| 0 <= i < t.len() implies (#[trigger] t[i]) != US() by { assert(t[i] == s[i]); }
        lemma_strip_none(t);
        assert(s[s.len() - 1] != US());
        assert(t.push(s.last()) =~= s);
    } else {
        assert(s =~= Seq::<u8>::empty());
    }
}

/// nothing but separators: no digit is left
pub proof fn lemma_strip_only(s: Seq<u8>)
    ensures only_us(s) == (strip_us(s).len() == 0),
    decreases s.len()
{
    if s.len() > 0 {
        let t = s.drop_last();
        lemma_strip_only(t);
        if only_us(s) {
            assert forall|i: int| 0 <= i < t.len() implies (#[trigger] t[i]) == US() by { assert(t[i] == s[i]); }
            assert(s[s.len() - 1] == US());
        }
        if strip_us(s).len() == 0 {
            assert(s.last() == US());
            assert forall|i: int| 0 <= i < s.len() implies (#[trigger] s[i]) == US() by {
                if i < t.len() { assert(t[i] == s[i]); }
            }
        }
    }
}

/// well-formed text <==> its digit string consists of digits
pub proof fn lemma_text_ok_strip(s: Seq<u8>, r: int)
    requires r <= 36,
    ensures text_ok(s, r) == all_digits(strip_us(s), r),
    decreases s.len()
{
    if s.len() > 0 {
        let t = s.drop_last();
        lemma_text_ok_strip(t, r);
        let c = s.last();
        if text_ok(s, r) {
            assert forall|i: int| 0 <= i < t.len() implies (#[trigger] t[i]) == US() || is_dig(t[i], r) by { assert(t[i] == s[i]); }
            assert(s[s.len() - 1] == US() || is_dig(s[s.len() - 1], r));
            if c != US() {
                let u = strip_us(t);
                assert forall|i: int| 0 <= i < u.push(c).len() implies is_dig(#[trigger] u.push(c)[i], r) by {
                    if i < u.len() { assert(u.push(c)[i] == u[i]); }
                }
            }
        }
        if all_digits(strip_us(s), r) {
            let u = strip_us(t);
            if c != US() {
                assert forall|i: int| 0 <= i < u.len() implies is_dig(#[trigger] u[i], r) by { assert(u.push(c)[i] == u[i]); }
                assert(u.push(c)[u.len() as int] == c);
                assert(is_dig(c, r));
            }
            assert forall|i: int| 0 <= i < s.len() implies (#[trigger] s[i]) == US() || is_dig(s[i], r) by {
                if i < t.len() { assert(t[i] == s[i]); }
            }
        }
    }
}

/// text_ok of a text extended in front
pub proof fn lemma_text_ok_cons(c: u8, t: Seq<u8>, r: int)
    ensures text_ok(seq![c] + t, r) == ((c == US() || is_dig(c, r)) && text_ok(t, r)),
{
    let s = seq![c] + t;
    if (c == US() || is_dig(c, r)) && text_ok(t, r) {
        assert forall|i: int| 0 <= i < s.len() implies (#[trigger] s[i]) == US() || is_dig(s[i], r) by {
            if i > 0 { assert(s[i] == t[i - 1]); }
        }
    }
    if text_ok(s, r) {
        assert(s[0] == c);
        assert forall|i: int| 0 <= i < t.len() implies (#[trigger] t[i]) == US() || is_dig(t[i], r) by { assert(s[i + 1] == t[i]); }
    }
}

/// a leading '0' changes neither well-formedness nor the value ('0' is a digit of every radix >= 1)
pub proof fn lemma_leading_zero(t: Seq<u8>, r: int)
    requires r >= 1, r <= 36,
    ensures text_ok(seq![48u8] + t, r) == text_ok(t, r), text_value(seq![48u8] + t, r) == text_value(t, r),
        !only_us(seq![48u8] + t),
{
    lemma_text_ok_cons(48u8, t, r);
    lemma_strip_cons(48u8, t);
    lemma_dv_cons(48u8, strip_us(t), r);
    assert(0 * ipow(r, strip_us(t).len() as int) == 0);
    assert((seq![48u8] + t)[0] == 48u8);
}

/// a suffix of a text: the part after the first byte
pub proof fn lemma_text_uncons(s: Seq<u8>)
    requires s.len() > 0,
    ensures s == seq![s[0]] + s.subrange(1, s.len() as int),
{
    assert(s =~= seq![s[0]] + s.subrange(1, s.len() as int));
}
