// ---- farey_lemmas.rs: Farey-sequence vocabulary and lemmas for rational/src/simplify.rs (C18).
// Needs lib/ratio_lemmas.rs (divides, is_gcd, wf_ratio, rabs) and lib/ratio2_unique_lemmas.rs (lemma_canonical_unique).
// Fractions are pairs (numerator, denominator) of mathematical integers with positive denominator; every comparison
// is cross-multiplied.

/// a/b < c/d   (b, d > 0)
pub open spec fn qlt(a: int, b: int, c: int, d: int) -> bool { a * d < c * b }
/// a/b <= c/d  (b, d > 0)
pub open spec fn qle(a: int, b: int, c: int, d: int) -> bool { a * d <= c * b }

/// the adjacency certificate of two consecutive Farey fractions ln/ld < rn/rd
pub open spec fn farey_adj(ln: int, ld: int, rn: int, rd: int) -> bool { rn * ld - ln * rd == 1 }

/// no fraction p/q with 1 <= q <= L lies strictly between ln/ld and rn/rd
pub open spec fn no_frac_between(ln: int, ld: int, rn: int, rd: int, L: int) -> bool {
    forall|p: int, q: int| 1 <= q <= L && #[trigger] qlt(ln, ld, p, q) ==> qle(rn, rd, p, q)
}

/// DEFINITION (property C18): rn/rd is the element of the Farey sequence of order L (all fractions with denominator
/// <= L) that follows x = xn/xd: it has a denominator <= L, is strictly above x, and every fraction p/q with q <= L
/// that is strictly above x is >= rn/rd.
pub open spec fn is_next_up(xn: int, xd: int, L: int, rn: int, rd: int) -> bool {
    &&& 1 <= rd <= L
    &&& qlt(xn, xd, rn, rd)
    &&& forall|p: int, q: int| 1 <= q <= L && #[trigger] qlt(xn, xd, p, q) ==> qle(rn, rd, p, q)
}
/// DEFINITION (property C18): ln/ld is the element of the Farey sequence of order L that precedes x
pub open spec fn is_next_down(xn: int, xd: int, L: int, ln: int, ld: int) -> bool {
    &&& 1 <= ld <= L
    &&& qlt(ln, ld, xn, xd)
    &&& forall|p: int, q: int| 1 <= q <= L && #[trigger] qlt(p, q, xn, xd) ==> qle(p, q, ln, ld)
}

/// mediant step: both halves keep the certificate
pub proof fn lemma_mediant_adj(ln: int, ld: int, rn: int, rd: int)
    requires farey_adj(ln, ld, rn, rd)
    ensures farey_adj(ln, ld, ln + rn, ld + rd), farey_adj(ln + rn, ld + rd, rn, rd)
{
    assert((ln + rn) * ld - ln * (ld + rd) == rn * ld - ln * rd) by (nonlinear_arith);
    assert(rn * (ld + rd) - (ln + rn) * rd == rn * ld - ln * rd) by (nonlinear_arith);
}

/// the certificate makes both fractions canonical (Bezout identity => coprime)
pub proof fn lemma_adj_wf(ln: int, ld: int, rn: int, rd: int)
    requires farey_adj(ln, ld, rn, rd), ld >= 1, rd >= 1
    ensures wf_ratio(ln, ld), wf_ratio(rn, rd)
{
    lemma_one_divides(rabs(ln)); lemma_one_divides(ld);
    lemma_one_divides(rabs(rn)); lemma_one_divides(rd);
    assert forall|e: int| e > 0 && #[trigger] divides(e, rabs(ln)) && divides(e, ld) implies divides(e, 1) by {
        if ln < 0 { lemma_divides_neg(e, -ln); }
        assert(divides(e, ln));
        // 1 == rn*ld + (-rd)*ln
        lemma_divides_elim(e, ln);
        lemma_divides_elim(e, ld);
        let (k1, k2) = (ln / e, ld / e);
        let k = rn * k2 - k1 * rd;
        assert(1 == k * e) by (nonlinear_arith) requires rn * ld - ln * rd == 1, ln == k1 * e, ld == k2 * e, k == rn * k2 - k1 * rd;
        lemma_divides_intro(e, k, 1);
    }
    assert forall|e: int| e > 0 && #[trigger] divides(e, rabs(rn)) && divides(e, rd) implies divides(e, 1) by {
        if rn < 0 { lemma_divides_neg(e, -rn); }
        assert(divides(e, rn));
        lemma_divides_elim(e, rn);
        lemma_divides_elim(e, rd);
        let (k1, k2) = (rn / e, rd / e);
        let k = k1 * ld - ln * k2;
        assert(1 == k * e) by (nonlinear_arith) requires rn * ld - ln * rd == 1, rn == k1 * e, rd == k2 * e, k == k1 * ld - ln * k2;
        lemma_divides_intro(e, k, 1);
    }
    if ln == 0 {
        assert(ld == 1) by (nonlinear_arith) requires rn * ld - ln * rd == 1, ln == 0, ld >= 1;
    }
    if rn == 0 {
        assert(rd == 1) by (nonlinear_arith) requires rn * ld - ln * rd == 1, rn == 0, rd >= 1;
    }
}

/// a fraction strictly between two adjacent ones has a denominator of at least ld + rd
pub proof fn lemma_farey_gap(ln: int, ld: int, rn: int, rd: int, p: int, q: int)
    requires farey_adj(ln, ld, rn, rd), ld >= 1, rd >= 1, q >= 1, qlt(ln, ld, p, q), qlt(p, q, rn, rd)
    ensures q >= ld + rd
{
    let a = p * ld - ln * q;
    let c = rn * q - p * rd;
    assert(a >= 1);
    assert(c >= 1);
    let (x1, x2, y1, y2) = (rn * q, p * rd, p * ld, ln * q);
    let (k1, k2) = (rn * ld, ln * rd);
    assert(ld * c == ld * x1 - ld * x2) by (nonlinear_arith) requires c == x1 - x2;
    assert(rd * a == rd * y1 - rd * y2) by (nonlinear_arith) requires a == y1 - y2;
    assert(ld * x2 == rd * y1) by (nonlinear_arith) requires x2 == p * rd, y1 == p * ld;
    assert(ld * x1 == q * k1) by (nonlinear_arith) requires x1 == rn * q, k1 == rn * ld;
    assert(rd * y2 == q * k2) by (nonlinear_arith) requires y2 == ln * q, k2 == ln * rd;
    assert(q * k1 - q * k2 == q) by (nonlinear_arith) requires k1 - k2 == 1;
    assert(q == ld * c + rd * a);
    assert(ld * c >= ld) by (nonlinear_arith) requires ld >= 1, c >= 1;
    assert(rd * a >= rd) by (nonlinear_arith) requires rd >= 1, a >= 1;
}

/// adjacent fractions whose denominators add up to more than L are neighbours in the Farey sequence of order L
pub proof fn lemma_farey_neighbours(ln: int, ld: int, rn: int, rd: int, L: int)
    requires farey_adj(ln, ld, rn, rd), ld >= 1, rd >= 1, ld + rd > L
    ensures no_frac_between(ln, ld, rn, rd, L)
{
    assert forall|p: int, q: int| 1 <= q <= L && #[trigger] qlt(ln, ld, p, q) implies qle(rn, rd, p, q) by {
        if !qle(rn, rd, p, q) {
            lemma_farey_gap(ln, ld, rn, rd, p, q);
        }
    }
}

/// two canonical fractions with different denominators are different numbers
pub proof fn lemma_le_strict(ln: int, ld: int, xn: int, xd: int)
    requires wf_ratio(ln, ld), wf_ratio(xn, xd), ld != xd, qle(ln, ld, xn, xd)
    ensures qlt(ln, ld, xn, xd)
{
    if ln * xd == xn * ld {
        lemma_canonical_unique(ln, ld, xn, xd);
    }
}

/// a canonical fraction with |n| <= d and d >= 2 is a proper fraction
pub proof fn lemma_proper(n: int, d: int)
    requires wf_ratio(n, d), d >= 2, rabs(n) <= d
    ensures rabs(n) < d
{
    if rabs(n) == d {
        lemma_divides_intro(d, 1, d);
        assert(divides(d, rabs(n)) && divides(d, d));
        assert(divides(d, 1));
        lemma_divides_one(d);
    }
}

/// reduce() of a canonical fraction returns it unchanged
pub proof fn lemma_reduce_canonical(n: int, d: int, n1: int, d1: int)
    requires wf_ratio(n, d), wf_ratio(n1, d1), n1 * d == n * d1
    ensures n1 == n, d1 == d
{
    lemma_canonical_unique(n1, d1, n, d);
}

// ---- order facts on cross-multiplied fractions ----------------------------------------------------------------
pub proof fn lemma_mul_cancel(k: int, u: int, v: int)
    requires k > 0
    ensures (k * u < k * v) == (u < v), (k * u <= k * v) == (u <= v)
{
    assert((k * u < k * v) == (u < v)) by (nonlinear_arith) requires k > 0;
    assert((k * u <= k * v) == (u <= v)) by (nonlinear_arith) requires k > 0;
}

/// a/b == a2/b2  ==>  they compare alike against c/d
pub proof fn lemma_qeq_left(a: int, b: int, a2: int, b2: int, c: int, d: int)
    requires b > 0, b2 > 0, d > 0, a * b2 == a2 * b
    ensures qlt(a, b, c, d) == qlt(a2, b2, c, d), qle(a, b, c, d) == qle(a2, b2, c, d),
            qlt(c, d, a, b) == qlt(c, d, a2, b2), qle(c, d, a, b) == qle(c, d, a2, b2)
{
    let (x, y) = (a * d, c * b);
    let (x2, y2) = (a2 * d, c * b2);
    assert(b2 * x == b * x2) by (nonlinear_arith) requires a * b2 == a2 * b, x == a * d, x2 == a2 * d;
    assert(b2 * y == b * y2) by (nonlinear_arith) requires y == c * b, y2 == c * b2;
    lemma_mul_cancel(b2, x, y);
    lemma_mul_cancel(b, x2, y2);
    lemma_mul_cancel(b2, y, x);
    lemma_mul_cancel(b, y2, x2);
}

/// a/b <= c/d < e/f  ==>  a/b < e/f
pub proof fn lemma_qle_qlt(a: int, b: int, c: int, d: int, e: int, f: int)
    requires b > 0, d > 0, f > 0, qle(a, b, c, d), qlt(c, d, e, f)
    ensures qlt(a, b, e, f)
{
    let (ad, cb, cf, ed, af, eb) = (a * d, c * b, c * f, e * d, a * f, e * b);
    assert(f * ad <= f * cb) by (nonlinear_arith) requires ad <= cb, f > 0;
    assert(b * cf < b * ed) by (nonlinear_arith) requires cf < ed, b > 0;
    assert(f * ad == d * af) by (nonlinear_arith) requires ad == a * d, af == a * f;
    assert(f * cb == b * cf) by (nonlinear_arith) requires cb == c * b, cf == c * f;
    assert(b * ed == d * eb) by (nonlinear_arith) requires ed == e * d, eb == e * b;
    lemma_mul_cancel(d, af, eb);
}
/// a/b < c/d <= e/f  ==>  a/b < e/f
pub proof fn lemma_qlt_qle(a: int, b: int, c: int, d: int, e: int, f: int)
    requires b > 0, d > 0, f > 0, qlt(a, b, c, d), qle(c, d, e, f)
    ensures qlt(a, b, e, f)
{
    let (ad, cb, cf, ed, af, eb) = (a * d, c * b, c * f, e * d, a * f, e * b);
    assert(f * ad < f * cb) by (nonlinear_arith) requires ad < cb, f > 0;
    assert(b * cf <= b * ed) by (nonlinear_arith) requires cf <= ed, b > 0;
    assert(f * ad == d * af) by (nonlinear_arith) requires ad == a * d, af == a * f;
    assert(f * cb == b * cf) by (nonlinear_arith) requires cb == c * b, cf == c * f;
    assert(b * ed == d * eb) by (nonlinear_arith) requires ed == e * d, eb == e * b;
    lemma_mul_cancel(d, af, eb);
}
/// negation mirrors the order
pub proof fn lemma_q_neg(a: int, b: int, c: int, d: int)
    ensures qlt(a, b, c, d) == qlt(-c, d, -a, b), qle(a, b, c, d) == qle(-c, d, -a, b)
{
    assert((-c) * b == -(c * b) && (-a) * d == -(a * d)) by (nonlinear_arith);
}

// ---- next_up / next_down: shifting the neighbours of the fractional part by the integer part ------------------------
/// self = t + f (f = fn/sd), lo <= f < up, nothing with denominator <= L strictly between lo and up,
/// ret = t + up  ==>  ret is the successor of self in the Farey sequence of order L
pub proof fn lemma_shift_up(sn: int, sd: int, t: int, fnum: int, L: int, lon: int, lod: int, un: int, ud: int, rn: int, rd: int)
    requires sd >= 1, sn == t * sd + fnum, 1 <= ud <= L, lod >= 1,
        qle(lon, lod, fnum, sd), qlt(fnum, sd, un, ud), no_frac_between(lon, lod, un, ud, L),
        rn == un + t * ud, rd == ud
    ensures is_next_up(sn, sd, L, rn, rd)
{
    let tsd = t * sd;
    assert(sn * ud == tsd * ud + fnum * ud) by (nonlinear_arith) requires sn == tsd + fnum;
    assert(rn * sd == un * sd + tsd * ud) by (nonlinear_arith) requires rn == un + t * ud, tsd == t * sd;
    assert forall|p: int, q: int| 1 <= q <= L && #[trigger] qlt(sn, sd, p, q) implies qle(rn, rd, p, q) by {
        let pp = p - t * q;
        assert(sn * q == tsd * q + fnum * q) by (nonlinear_arith) requires sn == tsd + fnum;
        assert(pp * sd == p * sd - tsd * q) by (nonlinear_arith) requires pp == p - t * q, tsd == t * sd;
        assert(qlt(fnum, sd, pp, q));
        lemma_qle_qlt(lon, lod, fnum, sd, pp, q);
        assert(qlt(lon, lod, pp, q));
        assert(qle(un, ud, pp, q));
        assert(pp * ud == p * ud - (t * ud) * q) by (nonlinear_arith) requires pp == p - t * q;
        assert(rn * q == un * q + (t * ud) * q) by (nonlinear_arith) requires rn == un + t * ud;
    }
}
/// mirror image: lo < f <= up, ret = t + lo  ==>  ret is the predecessor of self
pub proof fn lemma_shift_down(sn: int, sd: int, t: int, fnum: int, L: int, lon: int, lod: int, un: int, ud: int, rn: int, rd: int)
    requires sd >= 1, sn == t * sd + fnum, 1 <= lod <= L, ud >= 1,
        qlt(lon, lod, fnum, sd), qle(fnum, sd, un, ud), no_frac_between(lon, lod, un, ud, L),
        rn == lon + t * lod, rd == lod
    ensures is_next_down(sn, sd, L, rn, rd)
{
    let tsd = t * sd;
    assert(sn * lod == tsd * lod + fnum * lod) by (nonlinear_arith) requires sn == tsd + fnum;
    assert(rn * sd == lon * sd + tsd * lod) by (nonlinear_arith) requires rn == lon + t * lod, tsd == t * sd;
    assert forall|p: int, q: int| 1 <= q <= L && #[trigger] qlt(p, q, sn, sd) implies qle(p, q, rn, rd) by {
        let pp = p - t * q;
        assert(sn * q == tsd * q + fnum * q) by (nonlinear_arith) requires sn == tsd + fnum;
        assert(pp * sd == p * sd - tsd * q) by (nonlinear_arith) requires pp == p - t * q, tsd == t * sd;
        assert(qlt(pp, q, fnum, sd));
        lemma_qlt_qle(pp, q, fnum, sd, un, ud);
        assert(qlt(pp, q, un, ud));
        if qlt(lon, lod, pp, q) {
            assert(qle(un, ud, pp, q));
            assert(false);
        }
        assert(pp * lod == p * lod - (t * lod) * q) by (nonlinear_arith) requires pp == p - t * q;
        assert(rn * q == lon * q + (t * lod) * q) by (nonlinear_arith) requires rn == lon + t * lod;
    }
}

/// integer + canonical fraction: the result of `IBig + RBig` (value relation + canonical) has exactly these parts
pub proof fn lemma_int_plus_parts(t: int, un: int, ud: int, rn: int, rd: int)
    requires wf_ratio(un, ud), wf_ratio(rn, rd), rn * ud == (un + t * ud) * rd
    ensures rn == un + t * ud, rd == ud
{
    lemma_addint_canonical(un, ud, t);
    assert(ud * t == t * ud) by (nonlinear_arith);
    lemma_canonical_unique(rn, rd, un + t * ud, ud);
}

/// a canonical non-integer has a non-zero fractional part
pub proof fn lemma_fract_nonzero(sn: int, sd: int, t: int, fnum: int)
    requires wf_ratio(sn, sd), sd >= 2, sn == t * sd + fnum
    ensures fnum != 0
{
    if fnum == 0 {
        lemma_divides_intro(sd, t, sn);
        if sn < 0 { lemma_divides_neg(sd, sn); }
        lemma_divides_intro(sd, 1, sd);
        assert(divides(sd, rabs(sn)) && divides(sd, sd));
        assert(divides(sd, 1));
        lemma_divides_one(sd);
    }
}

// ---- the nudge by 1/K, K > limit^2 (the real code uses K = limit^2 + 1) --------------------------------------------------
/// target = f + 1/K with f = fnum/fd a proper fraction, fd <= L, K > L^2: the target tn/td (any representation with
/// td >= 1) satisfies the preconditions of farey_neighbors (denominator > L, non-zero, |target| <= 1) and f < target
pub proof fn lemma_nudge_pre(fnum: int, fd: int, L: int, K: int, tn: int, td: int)
    requires L >= 1, K > L * L, 1 <= fd <= L, rabs(fnum) < fd, td >= 1,
        tn * (fd * K) == (fnum * K + 1 * fd) * td
    ensures td > L, tn != 0, rabs(tn) <= td, qlt(fnum, fd, tn, td)
{
    let l2 = L * L;
    assert(l2 >= L) by (nonlinear_arith) requires l2 == L * L, L >= 1;
    let dd = fd * K;
    let nn = fnum * K + fd;
    assert(dd >= K) by (nonlinear_arith) requires dd == fd * K, fd >= 1, K >= 1;
    // k = tn*fd - fnum*td is a positive integer with k * K == fd * td
    let k = tn * fd - fnum * td;
    let fdtd = fd * td;
    assert(k * K == fdtd) by (nonlinear_arith)
        requires tn * dd == nn * td, dd == fd * K, nn == fnum * K + fd, k == tn * fd - fnum * td, fdtd == fd * td;
    assert(fdtd >= 1) by (nonlinear_arith) requires fdtd == fd * td, fd >= 1, td >= 1;
    assert(k >= 1) by (nonlinear_arith) requires k * K == fdtd, fdtd >= 1, K >= 1;
    // f < target
    assert(qlt(fnum, fd, tn, td));
    // denominator: td <= L would give k*K == fd*td <= L^2 < K
    if td <= L {
        assert(fdtd <= l2) by (nonlinear_arith) requires fdtd == fd * td, 1 <= fd <= L, 1 <= td <= L, l2 == L * L;
        assert(k * K >= K) by (nonlinear_arith) requires k >= 1, K >= 1;
        assert(false);
    }
    // |N| <= D, N != 0
    assert(nn <= dd && nn > -dd && nn != 0) by (nonlinear_arith)
        requires nn == fnum * K + fd, dd == fd * K, -fd < fnum < fd, 1 <= fd <= L, K > l2, l2 >= L;
    assert(tn != 0) by (nonlinear_arith) requires tn * dd == nn * td, nn != 0, td >= 1;
    assert(rabs(tn) <= td) by (nonlinear_arith) requires tn * dd == nn * td, -dd < nn <= dd, td >= 1, dd >= 1;
}

/// neighbours (lo, hi) of the nudged target enclose f itself: lo <= f < hi
pub proof fn lemma_nudge_up(fnum: int, fd: int, L: int, K: int, tn: int, td: int, lon: int, lod: int, hn: int, hd: int)
    requires L >= 1, K > L * L, 1 <= fd <= L, td >= 1, 1 <= lod <= L, hd >= 1,
        tn * (fd * K) == (fnum * K + 1 * fd) * td,
        qlt(lon, lod, tn, td), qlt(tn, td, hn, hd)
    ensures qle(lon, lod, fnum, fd), qlt(fnum, fd, hn, hd)
{
    let l2 = L * L;
    assert(l2 >= 1) by (nonlinear_arith) requires l2 == L * L, L >= 1;
    let dd = fd * K;
    let nn = fnum * K + fd;
    assert(dd >= 1) by (nonlinear_arith) requires dd == fd * K, fd >= 1, K >= 1;
    // target == nn/dd as a value
    lemma_qeq_left(tn, td, nn, dd, lon, lod);
    lemma_qeq_left(tn, td, nn, dd, hn, hd);
    assert(qlt(lon, lod, nn, dd));
    assert(qlt(nn, dd, hn, hd));
    // f < nn/dd
    let ff = fd * fd;
    assert(ff >= 1) by (nonlinear_arith) requires ff == fd * fd, fd >= 1;
    assert(fnum * dd < nn * fd) by (nonlinear_arith) requires dd == fd * K, nn == fnum * K + fd, ff == fd * fd, ff >= 1;
    assert(qlt(fnum, fd, nn, dd));
    lemma_qlt_qle(fnum, fd, nn, dd, hn, hd);
    // lo <= f: otherwise m = lon*fd - fnum*lod >= 1 and m * K < fd * lod <= L^2 < K
    if !qle(lon, lod, fnum, fd) {
        let m = lon * fd - fnum * lod;
        assert(m >= 1);
        let fl = fd * lod;
        assert(m * K < fl) by (nonlinear_arith)
            requires lon * dd < nn * lod, dd == fd * K, nn == fnum * K + fd, m == lon * fd - fnum * lod, fl == fd * lod;
        assert(fl <= l2) by (nonlinear_arith) requires fl == fd * lod, 1 <= fd <= L, 1 <= lod <= L, l2 == L * L;
        assert(m * K >= K) by (nonlinear_arith) requires m >= 1, K >= 1;
        assert(false);
    }
}

// ---- the contract of farey_neighbors as one predicate, and certificates usable after `farey_neighbors(..).1` --------
/// (ln/ld, rn/rd) are the neighbours of x = xn/xd in the Farey sequence of order L: denominators <= L, adjacency
/// certificate rn*ld - ln*rd == 1, ld + rd > L, ln/ld < x < rn/rd; consequences: both canonical, and no fraction with a
/// denominator <= L lies strictly between them
pub open spec fn farey_nb(xn: int, xd: int, L: int, ln: int, ld: int, rn: int, rd: int) -> bool {
    &&& 1 <= ld <= L
    &&& 1 <= rd <= L
    &&& farey_adj(ln, ld, rn, rd)
    &&& ld + rd > L
    &&& qlt(ln, ld, xn, xd)
    &&& qlt(xn, xd, rn, rd)
    &&& wf_ratio(ln, ld)
    &&& wf_ratio(rn, rd)
    &&& no_frac_between(ln, ld, rn, rd, L)
}
/// un/ud is canonical with denominator <= L, above f = fnum/sd, and some lo <= f has nothing (denominator <= L) between
/// it and un/ud
pub open spec fn up_cert(fnum: int, sd: int, L: int, un: int, ud: int) -> bool {
    1 <= ud <= L && wf_ratio(un, ud) && qlt(fnum, sd, un, ud)
    && exists|lon: int, lod: int| lod >= 1 && qle(lon, lod, fnum, sd) && #[trigger] no_frac_between(lon, lod, un, ud, L)
}
pub open spec fn down_cert(fnum: int, sd: int, L: int, ln: int, ld: int) -> bool {
    1 <= ld <= L && wf_ratio(ln, ld) && qlt(ln, ld, fnum, sd)
    && exists|hn: int, hd: int| hd >= 1 && qle(fnum, sd, hn, hd) && #[trigger] no_frac_between(ln, ld, hn, hd, L)
}

/// fnum/fd and fnum/sd are the same number when fd == sd or the fraction is 0/1
pub proof fn lemma_fract_den(fnum: int, fd: int, sd: int, c: int, d: int)
    requires (fnum == 0 && fd == 1) || fd == sd, sd >= 1, d >= 1
    ensures qlt(fnum, fd, c, d) == qlt(fnum, sd, c, d), qle(fnum, fd, c, d) == qle(fnum, sd, c, d),
            qlt(c, d, fnum, fd) == qlt(c, d, fnum, sd), qle(c, d, fnum, fd) == qle(c, d, fnum, sd)
{
    assert(fnum * sd == fnum * fd) by (nonlinear_arith) requires (fnum == 0 && fd == 1) || fd == sd;
    lemma_qeq_left(fnum, fd, fnum, sd, c, d);
}

/// branch "denominator > limit": neighbours of the fractional part itself
pub proof fn lemma_direct_all(fnum: int, sd: int, L: int)
    requires sd >= 1
    ensures
        forall|lon: int, lod: int, hn: int, hd: int| #[trigger] farey_nb(fnum, sd, L, lon, lod, hn, hd) ==> up_cert(fnum, sd, L, hn, hd),
        forall|lon: int, lod: int, hn: int, hd: int| #[trigger] farey_nb(fnum, sd, L, lon, lod, hn, hd) ==> down_cert(fnum, sd, L, lon, lod),
{
    assert forall|lon: int, lod: int, hn: int, hd: int| #[trigger] farey_nb(fnum, sd, L, lon, lod, hn, hd) implies up_cert(fnum, sd, L, hn, hd) by {
        assert(lod >= 1 && qle(lon, lod, fnum, sd) && no_frac_between(lon, lod, hn, hd, L));
    }
    assert forall|lon: int, lod: int, hn: int, hd: int| #[trigger] farey_nb(fnum, sd, L, lon, lod, hn, hd) implies down_cert(fnum, sd, L, lon, lod) by {
        assert(hd >= 1 && qle(fnum, sd, hn, hd) && no_frac_between(lon, lod, hn, hd, L));
    }
}

/// branch "denominator <= limit" of next_up: neighbours of target = f + 1/K
pub proof fn lemma_nudge_up_all(fnum: int, fd: int, sd: int, L: int, K: int, tn: int, td: int)
    requires L >= 1, K > L * L, 1 <= fd <= L, td >= 1, sd >= 1, (fnum == 0 && fd == 1) || fd == sd,
        tn * (fd * K) == (fnum * K + 1 * fd) * td
    ensures
        forall|lon: int, lod: int, hn: int, hd: int| #[trigger] farey_nb(tn, td, L, lon, lod, hn, hd) ==> up_cert(fnum, sd, L, hn, hd),
{
    assert forall|lon: int, lod: int, hn: int, hd: int| #[trigger] farey_nb(tn, td, L, lon, lod, hn, hd) implies up_cert(fnum, sd, L, hn, hd) by {
        lemma_nudge_up(fnum, fd, L, K, tn, td, lon, lod, hn, hd);
        lemma_fract_den(fnum, fd, sd, hn, hd);
        lemma_fract_den(fnum, fd, sd, lon, lod);
        assert(lod >= 1 && qle(lon, lod, fnum, sd) && no_frac_between(lon, lod, hn, hd, L));
    }
}

/// the same for next_down, target = f - 1/K (mirror image through negation)
pub proof fn lemma_nudge_down_all(fnum: int, fd: int, sd: int, L: int, K: int, tn: int, td: int)
    requires L >= 1, K > L * L, 1 <= fd <= L, td >= 1, sd >= 1, (fnum == 0 && fd == 1) || fd == sd,
        tn * (fd * K) == (fnum * K - 1 * fd) * td
    ensures
        forall|lon: int, lod: int, hn: int, hd: int| #[trigger] farey_nb(tn, td, L, lon, lod, hn, hd) ==> down_cert(fnum, sd, L, lon, lod),
{
    let dd = fd * K;
    assert((-tn) * dd == ((-fnum) * K + 1 * fd) * td) by (nonlinear_arith) requires tn * dd == (fnum * K - 1 * fd) * td;
    assert forall|lon: int, lod: int, hn: int, hd: int| #[trigger] farey_nb(tn, td, L, lon, lod, hn, hd) implies down_cert(fnum, sd, L, lon, lod) by {
        lemma_q_neg(lon, lod, tn, td);
        lemma_q_neg(tn, td, hn, hd);
        lemma_nudge_up(-fnum, fd, L, K, -tn, td, -hn, hd, -lon, lod);
        lemma_q_neg(fnum, fd, hn, hd);
        lemma_q_neg(lon, lod, fnum, fd);
        lemma_fract_den(fnum, fd, sd, hn, hd);
        lemma_fract_den(fnum, fd, sd, lon, lod);
        assert(hd >= 1 && qle(fnum, sd, hn, hd) && no_frac_between(lon, lod, hn, hd, L));
    }
}
pub proof fn lemma_nudge_pre_down(fnum: int, fd: int, L: int, K: int, tn: int, td: int)
    requires L >= 1, K > L * L, 1 <= fd <= L, rabs(fnum) < fd, td >= 1,
        tn * (fd * K) == (fnum * K - 1 * fd) * td
    ensures td > L, tn != 0, rabs(tn) <= td
{
    let dd = fd * K;
    assert((-tn) * dd == ((-fnum) * K + 1 * fd) * td) by (nonlinear_arith) requires tn * dd == (fnum * K - 1 * fd) * td;
    lemma_nudge_pre(-fnum, fd, L, K, -tn, td);
}

/// final step of next_up: ret = trunc + up
pub proof fn lemma_shift_up_cert(sn: int, sd: int, t: int, fnum: int, L: int, un: int, ud: int, rn: int, rd: int)
    requires sd >= 1, sn == t * sd + fnum, up_cert(fnum, sd, L, un, ud), wf_ratio(rn, rd), rn * ud == (un + t * ud) * rd
    ensures is_next_up(sn, sd, L, rn, rd)
{
    lemma_int_plus_parts(t, un, ud, rn, rd);
    let (lon, lod) = choose|lon: int, lod: int| lod >= 1 && qle(lon, lod, fnum, sd) && #[trigger] no_frac_between(lon, lod, un, ud, L);
    lemma_shift_up(sn, sd, t, fnum, L, lon, lod, un, ud, rn, rd);
}
pub proof fn lemma_shift_down_cert(sn: int, sd: int, t: int, fnum: int, L: int, ln: int, ld: int, rn: int, rd: int)
    requires sd >= 1, sn == t * sd + fnum, down_cert(fnum, sd, L, ln, ld), wf_ratio(rn, rd), rn * ld == (ln + t * ld) * rd
    ensures is_next_down(sn, sd, L, rn, rd)
{
    lemma_int_plus_parts(t, ln, ld, rn, rd);
    let (hn, hd) = choose|hn: int, hd: int| hd >= 1 && qle(fnum, sd, hn, hd) && #[trigger] no_frac_between(ln, ld, hn, hd, L);
    lemma_shift_down(sn, sd, t, fnum, L, ln, ld, hn, hd, rn, rd);
}

// ---- nearest -------------------------------------------------------------------------------------------------------
/// |a - x| <= |b - x| for x = xn/xd, a = an/ad, b = bn/bd (positive denominators), cross-multiplied
pub open spec fn closer_le(xn: int, xd: int, an: int, ad: int, bn: int, bd: int) -> bool {
    rabs(an * xd - xn * ad) * bd <= rabs(bn * xd - xn * bd) * ad
}
/// DEFINITION (property C18, inexact case of nearest): vn/vd is the closer one of the two Farey neighbours (order L) of
/// x = xn/xd, and `positive` is the true sign of the error v - x  (positive <=> v is the upper neighbour)
pub open spec fn farey_pair(xn: int, xd: int, L: int, dn: int, dd: int, un: int, ud: int) -> bool {
    is_next_down(xn, xd, L, dn, dd) && is_next_up(xn, xd, L, un, ud)
}
pub open spec fn is_nearest_pick(xn: int, xd: int, L: int, vn: int, vd: int, positive: bool) -> bool {
    exists|dn: int, dd: int, un: int, ud: int|
        #[trigger] farey_pair(xn, xd, L, dn, dd, un, ud)
        && if positive { vn == un && vd == ud && closer_le(xn, xd, un, ud, dn, dd) }
           else { vn == dn && vd == dd && closer_le(xn, xd, dn, dd, un, ud) }
}

/// the midpoint test of `nearest`: mid = (left + right) / 2 as computed (mn/md2 with md2 = 2*md, mn/md == left + right)
pub proof fn lemma_mid_test(fnum: int, fd: int, ln: int, ld: int, rn: int, rd: int, mn: int, md: int)
    requires fd >= 1, ld >= 1, rd >= 1, md >= 1, mn * (ld * rd) == (ln * rd + rn * ld) * md,
        qlt(ln, ld, fnum, fd), qlt(fnum, fd, rn, rd)
    ensures
        // r > mid  <=>  r - left > right - r
        (fnum * (2 * md) > mn * fd) == ((fnum * ld - ln * fd) * rd > (rn * fd - fnum * rd) * ld),
        fnum * ld - ln * fd > 0, rn * fd - fnum * rd > 0,
{
    let a = fnum * ld - ln * fd;
    let b = rn * fd - fnum * rd;
    let ldrd = ld * rd;
    assert(ldrd >= 1) by (nonlinear_arith) requires ldrd == ld * rd, ld >= 1, rd >= 1;
    let s = ln * rd + rn * ld;
    // a*rd - b*ld == 2*fnum*ld*rd - s*fd
    let (x1, x2, p1) = (ln * rd, rn * ld, fnum * ldrd);
    assert(a * rd == p1 - x1 * fd) by (nonlinear_arith)
        requires a == fnum * ld - ln * fd, x1 == ln * rd, p1 == fnum * ldrd, ldrd == ld * rd;
    assert(b * ld == x2 * fd - p1) by (nonlinear_arith)
        requires b == rn * fd - fnum * rd, x2 == rn * ld, p1 == fnum * ldrd, ldrd == ld * rd;
    assert(s * fd == x1 * fd + x2 * fd) by (nonlinear_arith) requires s == x1 + x2;
    assert(a * rd - b * ld == 2 * (fnum * ldrd) - s * fd);
    // (fnum*2*md - mn*fd) * ldrd == md * (2*fnum*ldrd - s*fd)
    let lhs = fnum * (2 * md) - mn * fd;
    let w = 2 * (fnum * ldrd) - s * fd;
    let (y1, y2) = (mn * ldrd, s * md);
    assert(lhs * ldrd == 2 * (md * p1) - y1 * fd) by (nonlinear_arith)
        requires lhs == fnum * (2 * md) - mn * fd, p1 == fnum * ldrd, y1 == mn * ldrd;
    assert(md * w == 2 * (md * p1) - y2 * fd) by (nonlinear_arith)
        requires w == 2 * p1 - s * fd, y2 == s * md;
    assert(lhs * ldrd == md * w);
    assert((lhs > 0) == (w > 0)) by (nonlinear_arith) requires lhs * ldrd == md * w, ldrd >= 1, md >= 1;
}

/// distances are invariant under the shift by the integer part
pub proof fn lemma_shift_dist(sn: int, sd: int, t: int, fnum: int, an: int, ad: int)
    requires sn == t * sd + fnum
    ensures (an + t * ad) * sd - sn * ad == an * sd - fnum * ad
{
    assert((an + t * ad) * sd - sn * ad == an * sd - fnum * ad) by (nonlinear_arith) requires sn == t * sd + fnum;
}

/// nearest, inexact case: self = t + f with f = fnum/sd non-zero, (lo, hi) the Farey neighbours of f, the result is
/// t + hi if f - lo > hi - f and t + lo otherwise
pub proof fn lemma_nearest(sn: int, sd: int, t: int, fnum: int, L: int, ln: int, ld: int, rn: int, rd: int,
                           vn: int, vd: int, positive: bool)
    requires sd >= 1, sn == t * sd + fnum, farey_nb(fnum, sd, L, ln, ld, rn, rd),
        positive == ((fnum * ld - ln * sd) * rd > (rn * sd - fnum * rd) * ld),
        fnum * ld - ln * sd > 0, rn * sd - fnum * rd > 0,
        if positive { vn == rn + t * rd && vd == rd } else { vn == ln + t * ld && vd == ld }
    ensures is_nearest_pick(sn, sd, L, vn, vd, positive)
{
    let (dn, dd, un, ud) = (ln + t * ld, ld, rn + t * rd, rd);
    lemma_shift_up(sn, sd, t, fnum, L, ln, ld, rn, rd, un, ud);
    lemma_shift_down(sn, sd, t, fnum, L, ln, ld, rn, rd, dn, dd);
    lemma_shift_dist(sn, sd, t, fnum, rn, rd);
    lemma_shift_dist(sn, sd, t, fnum, ln, ld);
    let a = fnum * ld - ln * sd;
    let b = rn * sd - fnum * rd;
    assert(rabs(un * sd - sn * ud) == b);
    assert(rabs(dn * sd - sn * dd) == a);
    assert(farey_pair(sn, sd, L, dn, dd, un, ud));
    if positive {
        assert(closer_le(sn, sd, un, ud, dn, dd)) by (nonlinear_arith)
            requires rabs(un * sd - sn * ud) == b, rabs(dn * sd - sn * dd) == a, a * rd > b * ld, ud == rd, dd == ld;
    } else {
        assert(closer_le(sn, sd, dn, dd, un, ud)) by (nonlinear_arith)
            requires rabs(un * sd - sn * ud) == b, rabs(dn * sd - sn * dd) == a, a * rd <= b * ld, ud == rd, dd == ld;
    }
}
