// ---- cl_float_types.rs: the data definitions of dashu-float (transcriptions of float/src/repr.rs `Repr`, `Context`,
// float/src/fbig.rs `FBig`; the same transcriptions as lib/round_float_repr.rs / lib/conv_fbig_stubs.rs, WITHOUT their
// assumed `Clone` impls: in unit clone_float the `Clone` impls of Repr and FBig are the verified real code) and the
// statement of C05 / C15 for a copy.  Needs lib/round_prelude.rs (Word), lib/round_int_stubs.rs (IBig), trait Round.
pub struct Repr<const BASE: Word> {
    pub significand: IBig,
    pub exponent: isize,
}
// float/src/repr.rs: `#[derive(Clone, Copy)] pub struct Context<RoundingMode: Round>` (derive kept: no code to verify)
#[derive(Clone, Copy)]
pub struct Context<RoundingMode: Round> {
    pub precision: usize,
    pub _marker: core::marker::PhantomData<RoundingMode>,
}
pub struct FBig<RoundingMode: Round, const BASE: Word> {
    pub repr: Repr<BASE>,
    pub context: Context<RoundingMode>,
}
pub open spec fn umax(a: usize, b: usize) -> usize { if a > b { a } else { b } }

/// `d` is a copy of `s` (float representation): the same significand AND the same exponent.  Everything `==`, `cmp`,
/// `abs_cmp`, `NumHash` and the arithmetic read of a Repr is these two fields (infinities: significand 0, exponent +-1).
pub open spec fn cl_frepr_copy<const B: Word>(s: Repr<B>, d: Repr<B>) -> bool {
    d.significand.v() == s.significand.v() && d.exponent == s.exponent
}
/// `d` is a copy of `s` (FBig): copy of the representation AND the same precision.  ONE predicate for `s.clone()` (d = the
/// returned value) and `d.clone_from(&s)` (d = what is left in the destination, whatever it held before): C15.
pub open spec fn cl_fbig_copy<R: Round, const B: Word>(s: FBig<R, B>, d: FBig<R, B>) -> bool {
    cl_frepr_copy(s.repr, d.repr) && d.context.precision == s.context.precision
}
