// ---- im_log_dw_stubs.rs: core functions on DoubleWord = @D@ used by the power-of-two shortcuts of TypedReprRef::log ------------
// TRUSTED (definitions of core): is_power_of_two <=> the value is 2^k for some k >= 0; trailing_zeros of a non-zero value = THE
// multiplicity of 2 (below 2*BITS).  (Only usable with Word = u64: vstd already specifies u64::trailing_zeros, a second
// specification is rejected -- the unit is registered without the w32 re-run.)
pub assume_specification [@D@::is_power_of_two] (w: @D@) -> (r: bool)
    ensures r == im_is_pow2_dw(w as int);
pub assume_specification [@D@::trailing_zeros] (w: @D@) -> (r: u32)
    ensures r <= 2 * @BITS@, w != 0 ==> r < 2 * @BITS@ && im_tz_is(w as int, r as int);
