// ---- sf_q.rs: lets lib/farey_lemmas.rs be INCLUDEd without lib/ratio2_lemmas.rs (which needs the dashu-ratio integer
// stubs): the one lemma of that file that farey_lemmas.rs calls, re-proved here (same statement, same proof).
// Needs ratio_lemmas.rs.
// a/b in lowest terms  ==>  (a + b*k)/b in lowest terms
pub proof fn lemma_addint_canonical(a: int, b: int, k: int)
    requires wf_ratio(a, b)
    ensures wf_ratio(a + b * k, b)
{
    let n = a + b * k;
    lemma_one_divides(rabs(n));
    lemma_one_divides(b);
    assert forall|e: int| e > 0 && #[trigger] divides(e, rabs(n)) && divides(e, b) implies divides(e, 1) by {
        if n < 0 { lemma_divides_neg(e, -n); }
        assert(divides(e, n));
        // a == (-k) * b + n
        lemma_divides_lincomb(e, b, n, -k);
        assert((-k) * b + n == a) by (nonlinear_arith) requires n == a + b * k;
        assert(divides(e, a));
        if a < 0 { lemma_divides_neg(e, a); }
        assert(divides(e, rabs(a)) && divides(e, b));
    }
    if n == 0 {
        // b divides a
        assert(a == (-k) * b) by (nonlinear_arith) requires 0 == a + b * k;
        lemma_divides_intro(b, -k, a);
        if a < 0 { lemma_divides_neg(b, a); }
        lemma_divides_intro(b, 1, b);
        assert(divides(b, rabs(a)) && divides(b, b));
        assert(divides(b, 1));
        lemma_divides_one(b);
    }
}
