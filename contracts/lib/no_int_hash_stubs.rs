// ---- no_int_hash_stubs.rs: what integer/src/third_party/num_order.rs `NumHash for UBig / IBig` needs beyond lib/gcdo_numhash_stubs.rs
// (m127, trem, `&IBig % i128`, fed; include after it).  Every external_body / assume_specification is TRUSTED.
pub mod no_int_hash_stubs {
use super::*;
use vstd::std_specs::ops::*;
use vstd::std_specs::convert::*;
use core::ops::Rem;
use core::convert::TryFrom;

// core: `impl Hash for i128` writes the number itself to the hasher (`state.write_i128(*self)`); `fed(before, after)` is the
// i128 written (the same ghost function the NumHash stub of lib/gcdo_numhash_stubs.rs speaks about)
pub assume_specification<H: core::hash::Hasher> [<i128 as core::hash::Hash>::hash::<H>] (x: &i128, state: &mut H)
    ensures fed(*old(state), *final(state)) == *x as int;

// integer/src/div_ops.rs `impl Rem<u128> for &UBig` (C02: the remainder of the floor division, as a u128)
impl<'a> RemSpecImpl<u128> for &'a UBig {
    open spec fn obeys_rem_spec() -> bool { true }
    open spec fn rem_req(self, rhs: u128) -> bool { rhs > 0 }
    open spec fn rem_spec(self, rhs: u128) -> u128 { (self.v() % (rhs as int)) as u128 }
}
impl<'a> Rem<u128> for &'a UBig { type Output = u128;
    #[verifier::external_body]
    fn rem(self, rhs: u128) -> u128 { unimplemented!() }
}
// integer/src/convert.rs `impl TryFrom<&UBig> for i128` (C06): Ok(v) iff the value fits (not called by the code under contract
// as it stands; stated so that a shortcut through it is judged by the postcondition)
// base/src/error.rs `ConversionError` (mirrored)
pub enum ConversionError { OutOfBounds, LossOfPrecision }
impl<'a> TryFrom<&'a UBig> for i128 {
    type Error = ConversionError;
    #[verifier::external_body]
    fn try_from(x: &'a UBig) -> Result<i128, ConversionError> { unimplemented!() }
}
impl<'a> TryFromSpecImpl<&'a UBig> for i128 {
    open spec fn obeys_try_from_spec() -> bool { true }
    open spec fn try_from_spec(x: &'a UBig) -> Result<i128, ConversionError> {
        if x.v() <= i128::MAX { Ok(x.v() as i128) } else { Err(ConversionError::OutOfBounds) }
    }
}

// ---- the property's sentence (C14): numerically equal numbers of different types produce the same NumHash -- the common
// definition is num-order's (src/hash.rs): for an integer n  num_hash(n) = sgn(n) * (|n| mod (2^127 - 1)); the primitive
// integers feed exactly this number (i128::hash_val of lib/gcdo_numhash_stubs.rs: itself for |n| < M, 0 for +-M, -1 for -2^127)
pub open spec fn int_hash(v: int) -> int { trem(v, m127()) }
/// the NumHash value of every i128 is int_hash of its value (consistency of the definition with the primitive impl)
pub proof fn lemma_i128_hash(x: i128)
    ensures x.hash_val() == int_hash(x as int),
{
    let m = m127();
    let v = x as int;
    if -m < v < m {
        vstd::arithmetic::div_mod::lemma_small_mod(rabs(v) as nat, m as nat);
    } else if v == m || v == -m {
        vstd::arithmetic::div_mod::lemma_mod_self_0(m);
    } else {
        assert(v == -m - 1);
        assert((m + 1) % m == 1) by {
            vstd::arithmetic::div_mod::lemma_mod_multiples_vanish(1, 1, m);
            vstd::arithmetic::div_mod::lemma_small_mod(1, m as nat);
        }
    }
}
} // mod no_int_hash_stubs
pub use no_int_hash_stubs::*;
