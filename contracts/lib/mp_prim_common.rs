// ---- mp_prim_common.rs: the exponent of modular/pow.rs `single::pow` / `double::pow`, TRUSTED. Word = @W@. ------------
// repr.rs:60-67 `TypedReprRef { RefSmall(DoubleWord), RefLarge(&[Word]) }` mirrored; `UBig::repr()` (ubig.rs) returns the
// value as a double word when it fits, otherwise its >= 3 normalized little-endian words (Repr invariant, repr.rs:20-40).
pub enum TypedReprRef<'a> {
    RefSmall(DoubleWord),
    RefLarge(&'a [Word]),
}
pub use TypedReprRef::*;

pub struct UBig { _p: u8 }
impl UBig {
    /// the mathematical value of the exponent
    pub uninterp spec fn v(&self) -> int;
    #[verifier::external_body]
    pub fn repr(&self) -> (r: TypedReprRef<'_>)
        ensures match r {
            RefSmall(d) => d as int == self.v(),
            RefLarge(w) => val(w@) == self.v() && 3 <= w@.len() <= usize::MAX && w@[w@.len() - 1] != 0,
        },
    { unimplemented!() }
}
