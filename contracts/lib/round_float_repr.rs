// ---- round_float_repr.rs: data types of float/src/repr.rs and the helpers `Context::repr_round*` calls.

// dashu_base::Approximation (base/src/approx.rs) -- transcription of the two-variant enum
pub enum Approximation<T, E> {
    Exact(T),
    Inexact(T, E),
}
use Approximation::*;
// float/src/round.rs
pub type Rounded<T> = Approximation<T, Rounding>;

// float/src/repr.rs `pub struct Repr<const BASE: Word>` -- transcription (value = significand * BASE^exponent)
pub struct Repr<const BASE: Word> {
    pub significand: IBig,
    pub exponent: isize,
}
// float/src/repr.rs `pub struct Context<RoundingMode: Round>` -- transcription
pub struct Context<RoundingMode: Round> {
    pub precision: usize,
    pub _marker: core::marker::PhantomData<RoundingMode>,
}

/// s1 * b^e1 == s2 * b^e2 (exponents may be negative: compared after scaling to the smaller exponent)
pub open spec fn same_value(b: int, s1: int, e1: int, s2: int, e2: int) -> bool {
    if e1 <= e2 { s1 == s2 * ipow(b, (e2 - e1) as nat) } else { s2 == s1 * ipow(b, (e1 - e2) as nat) }
}
/// number of base-b digits of |v| (0 for v == 0): the k with b^(k-1) <= |v| < b^k
pub uninterp spec fn ndigits(b: int, v: int) -> nat;
pub broadcast axiom fn ax_ndigits(b: int, v: int)
    requires b >= 2
    ensures v == 0 ==> #[trigger] ndigits(b, v) == 0,
        v != 0 ==> ndigits(b, v) >= 1 && ipow(b, (ndigits(b, v) - 1) as nat) <= iabs(v) && iabs(v) < ipow(b, ndigits(b, v));

// ---- RESOURCE LIMITS of the helpers below.  C16 lists "exponent overflow" as a documented panic: where the real code
// would overflow `isize` / `usize` arithmetic (debug build: panic; release build: a wrapped, WRONG value) the stubs
// claim nothing.  Every function under contract that reaches one of these helpers carries the corresponding
// precondition, marked "resource limit: exponent overflow is a documented panic (C16), not modelled".
/// room for the exponent of `significand * B^e` with a `d`-digit significand: the exponent of the LEADING digit,
/// e + d - 1, fits `isize`.  `Repr::normalize` strips the trailing zero digits of the significand (at most d - 1 of
/// them when it is not zero; none when it is zero, d == 0) and ADDS their count to the exponent
/// (repr.rs `exponent += shift as isize`): the sum is at most e + d - 1.
pub open spec fn exp_room(e: int, d: int) -> bool { e + d - 1 <= isize::MAX }
/// a digit position / digit shift `pos` whose BIT position fits `usize` in every power-of-two base: utils.rs computes
/// `pos * B.trailing_zeros() as usize` (factor <= 63) in `split_digits(_ref)`, `shr_digits`, `shl_digits(_in_place)`;
/// the arms for base 2, base 10 and the other bases use `pos` itself (shift amount or exponent of `pow`).
pub open spec fn pos_room(pos: int) -> bool { pos * 64 <= usize::MAX }

// ---- TRUSTED stubs (float/src/utils.rs, float/src/repr.rs); each contract was read off the real function
// utils::digit_len: PROVED in unit float_digit_utils; contract from its annotated copy (one source of truth)
//@@ SIG float/utils3/digit_len.rs
// `Repr::digits_ub` (the fast f32 over-estimate of the digit count; float/src/repr.rs): NOT used by the unchanged
// functions under contract; present so that a changed function calling it is judged by its contract. Assumed: an upper
// bound of the digit count; 0 for a zero significand (explicit early return in the real code); and the generous cap
// 2*digits + 2 (real code: `log as usize + 1` with log = f32 upper bound of log_B|significand|, relative error of a few
// 2^-22) which float/src/add.rs needs only to exclude usize overflow.  All three are ASSUMED (f32 estimate, not proved).
impl<const BASE: Word> Repr<BASE> {
    #[verifier::external_body]
    pub fn digits_ub(&self) -> (r: usize)
        ensures r >= ndigits(BASE as int, self.significand.v()),
            r <= 2 * ndigits(BASE as int, self.significand.v()) + 2,
            self.significand.v() == 0 ==> r == 0,
    { unimplemented!() }
    // `Repr::digits_lb` (f32 under-estimate: floor of a lower bound of log_B|significand|): NOT used by the unchanged
    // functions under contract; present so that a changed function calling it is judged. ASSUMED: at most the digit
    // count (NOT digits - 1: the f32 product can round up to the next integer, e.g. 999999999 in base 10); 0 for zero.
    #[verifier::external_body]
    pub fn digits_lb(&self) -> (r: usize)
        requires BASE >= 2, !(self.significand.v() == 0 && self.exponent != 0)      // assert_finite
        ensures r <= ndigits(BASE as int, self.significand.v()),
            self.significand.v() == 0 ==> r == 0,
    { unimplemented!() }
}

// utils::split_digits / split_digits_ref: PROVED in unit float_split (all three base arms); contracts from the annotated copies
//@@ SIG float/utils2/split_digits.rs
//@@ SIG float/utils2/split_digits_ref.rs
impl<const B: Word> Repr<B> {
    /// Repr::new = struct literal + normalize(): same value, zero becomes (0, 0), result normalized.
    /// `exp_room`: normalize() adds the number of stripped trailing zero digits to the exponent in isize
    /// (repr.rs:242/:247/:251); `Repr::<2>::new(2.into(), isize::MAX)` panics (debug) or returns (1, isize::MIN) (release).
    #[verifier::external_body]
    pub fn new(significand: IBig, exponent: isize) -> (r: Self)
        requires
            // resource limit: exponent overflow is a documented panic (C16), not modelled
            exp_room(exponent as int, ndigits(B as int, significand.v()) as int),
        ensures same_value(B as int, r.significand.v(), r.exponent as int, significand.v(), exponent as int),
            significand.v() == 0 ==> r.significand.v() == 0 && r.exponent == 0,
            // normalize(): "so that the significand is not divisible by the base" (all three branches: B == 2,
            // B a power of two, UBig::remove for the rest)
            B >= 2 ==> (r.significand.v() == 0 || r.significand.v() % (B as int) != 0),
    { unimplemented!() }
}
impl<const B: Word> Clone for Repr<B> {
    #[verifier::external_body]
    fn clone(&self) -> (r: Self)
        ensures r.significand.v() == self.significand.v(), r.exponent == self.exponent
    { unimplemented!() }
}
// `impl Add<Rounding> for IBig` (float/src/round.rs): NoOp -> self, AddOne -> self + 1, SubOne -> self - 1
impl Add<Rounding> for IBig {
    type Output = IBig;
    #[verifier::external_body]
    fn add(self, rhs: Rounding) -> IBig { unimplemented!() }
}
impl AddSpecImpl<Rounding> for IBig {
    open spec fn obeys_add_spec() -> bool { true }
    open spec fn add_req(self, rhs: Rounding) -> bool { true }
    open spec fn add_spec(self, rhs: Rounding) -> IBig { ibig_of(self.v() + adj_int(rhs)) }
}

/// b^x <= b^y for x <= y (local copy: farith_lemmas.rs, which has the general digit lemmas, is not included by every unit)
pub proof fn lemma_ipow_le(b: int, x: nat, y: nat)
    requires b >= 1, x <= y
    ensures ipow(b, x) <= ipow(b, y)
    decreases y
{
    if x < y {
        lemma_ipow_le(b, x, (y - 1) as nat);
        lemma_ipow_pos(b, (y - 1) as nat);
        let t = ipow(b, (y - 1) as nat);
        assert(b * t >= t) by (nonlinear_arith) requires b >= 1, t >= 1;
    }
}
/// |v| <= b^p  ==>  v has at most p + 1 digits (a rounded significand: at most p digits, or exactly +-b^p)
pub proof fn lemma_ndigits_le_pow(b: int, v: int, p: nat)
    requires b >= 2, iabs(v) <= ipow(b, p)
    ensures ndigits(b, v) <= p + 1
{
    broadcast use ax_ndigits;
    let n = ndigits(b, v);
    if n > p + 1 {
        // b^(p+1) <= b^(n-1) <= |v| <= b^p < b^(p+1)
        lemma_ipow_le(b, (p + 1) as nat, (n - 1) as nat);
        lemma_ipow_pos(b, p);
        let t = ipow(b, p);
        assert(ipow(b, (p + 1) as nat) == b * t);
        assert(b * t > t) by (nonlinear_arith) requires b >= 2, t >= 1;
    }
}
/// the `Repr::new` of `Context::repr_round(_ref)`: the rounded significand mm (|mm| <= b^p) at exponent e + (nd - p) has
/// room whenever the operand had room for one more digit (the carry case mm == b^p normalizes to 1 * b^(e + nd))
pub proof fn lemma_round_exp_room(b: int, mm: int, p: nat, e: int, nd: nat)
    requires b >= 2, iabs(mm) <= ipow(b, p), nd >= p, e + nd <= isize::MAX
    ensures exp_room(e + (nd - p), ndigits(b, mm) as int)
{
    lemma_ndigits_le_pow(b, mm, p);
}
/// ndigits is determined by its defining enclosure (local copy of farith_lemmas.rs lemma_ndigits_unique)
pub proof fn lemma_nd_unique(b: int, v: int, k: nat)
    requires b >= 2, k >= 1, ipow(b, (k - 1) as nat) <= iabs(v), iabs(v) < ipow(b, k)
    ensures ndigits(b, v) == k
{
    broadcast use ax_ndigits;
    lemma_ipow_pos(b, (k - 1) as nat);
    let n = ndigits(b, v);
    assert(v != 0);
    if n < k {
        lemma_ipow_le(b, n, (k - 1) as nat);
    } else if n > k {
        lemma_ipow_le(b, k, (n - 1) as nat);
    }
}
/// appending k zero digits (local copy of farith_lemmas.rs lemma_ndigits_shift)
pub proof fn lemma_nd_shift(b: int, s: int, k: nat)
    requires b >= 2, s != 0
    ensures ndigits(b, s * ipow(b, k)) == ndigits(b, s) + k
{
    broadcast use ax_ndigits;
    let n = ndigits(b, s);
    let u = ipow(b, k);
    lemma_ipow_pos(b, k);
    let lo = ipow(b, (n - 1) as nat);
    let hi = ipow(b, n);
    let a = iabs(s);
    let v = s * u;
    assert(iabs(v) == a * u) by (nonlinear_arith) requires v == s * u, a == (if s < 0 { -s } else { s }), u >= 1;
    let au = a * u;
    assert(lo * u <= au) by (nonlinear_arith) requires lo <= a, u >= 1, au == a * u;
    assert(au < hi * u) by (nonlinear_arith) requires a < hi, u >= 1, au == a * u;
    lemma_ipow_add(b, (n - 1) as nat, k);
    lemma_ipow_add(b, n, k);
    assert(((n - 1) as nat + k) as nat == ((n + k) - 1) as nat);
    lemma_nd_unique(b, v, n + k);
}
/// `exp_room` is a property of the VALUE: every representation s * b^e of the same non-zero number has the same
/// leading-digit exponent e + ndigits(s) - 1 (for zero, any isize exponent has room)
pub proof fn lemma_exp_room_value(b: int, s1: int, e1: int, s2: int, e2: int)
    requires b >= 2, same_value(b, s1, e1, s2, e2), exp_room(e2, ndigits(b, s2) as int), e1 <= isize::MAX
    ensures exp_room(e1, ndigits(b, s1) as int)
{
    broadcast use ax_ndigits;
    if e1 <= e2 {
        let k = (e2 - e1) as nat;
        if s2 != 0 { lemma_nd_shift(b, s2, k); } else { assert(0 * ipow(b, k) == 0); }
    } else {
        let k = (e1 - e2) as nat;
        if s1 != 0 { lemma_nd_shift(b, s1, k); }
    }
}
/// the two halves of a significand split k digits from the right (`split_digits`, `shr_digits`) handed to `Repr::new`:
/// the high part (adjusted by -1/0/+1 for a rounding) at exponent 0 and the low part at exponent -k both have room
pub proof fn lemma_split_exp_room(b: int, s: int, k: nat, hi: int, lo: int, a: int)
    requires b >= 2, is_trunc_divrem(s, ipow(b, k), hi, lo), -1 <= a <= 1, ndigits(b, s) < isize::MAX
    ensures exp_room(0, ndigits(b, hi + a) as int), exp_room(-(k as int), ndigits(b, lo) as int)
{
    broadcast use ax_ndigits;
    let u = ipow(b, k);
    lemma_ipow_pos(b, k);
    let n = ndigits(b, s);
    lemma_ipow_pos(b, n);
    // |hi| <= |hi| * u <= |s| < b^n
    lemma_divrem_facts(s, u, hi, lo);
    let hu = hi * u;
    let ah = iabs(hi);
    let ahu = ah * u;
    assert(ahu == iabs(hu)) by (nonlinear_arith) requires ahu == ah * u, hu == hi * u, ah == (if hi < 0 { -hi } else { hi }), u > 0;
    assert(ah <= ahu) by (nonlinear_arith) requires ahu == ah * u, u >= 1, ah >= 0;
    assert(iabs(hu) <= iabs(s));
    lemma_ndigits_le_pow(b, hi + a, n);
    lemma_ndigits_le_pow(b, lo, k);
}
/// `Repr::<2>::new` on a machine mantissa (|m| <= 2^64) and an i16 exponent (conversions from f32 / f64) always has
/// room for the exponent: at most 65 binary digits above an exponent <= 32767.  Stated as a `forall` because the call sits
/// in a match arm (`Ok((man, exp)) => Ok(Repr::new(man.into(), exp as _))`) where no proof step can be placed.
pub proof fn lemma_exp_room_prim()
    ensures forall|m: int, e: int| iabs(m) <= 0x1_0000_0000_0000_0000 && e <= i16::MAX ==> #[trigger] exp_room(e, ndigits(2, m) as int)
{
    assert(ipow(2, 64) == 0x1_0000_0000_0000_0000) by (compute);
    assert forall|m: int, e: int| iabs(m) <= 0x1_0000_0000_0000_0000 && e <= i16::MAX implies #[trigger] exp_room(e, ndigits(2, m) as int) by {
        lemma_ndigits_le_pow(2, m, 64);
    }
}
/// the result of a rounding differs from the exact value when the dropped digits are not all zero
pub proof fn lemma_inexact(sig: int, u: int, hi: int, lo: int, adj: Rounding)
    requires u > 0, is_trunc_divrem(sig, u, hi, lo), lo != 0
    ensures (hi + adj_int(adj)) * u != sig
{
    let a = adj_int(adj);
    assert((hi + a) * u == hi * u + a * u) by (nonlinear_arith);
    assert(a * u == (if a == 0 { 0 } else if a == 1 { u } else { -u })) by (nonlinear_arith)
        requires a == 0 || a == 1 || a == -1;
}
/// a significand that is not divisible by the base leaves a non-zero low part at every split position >= 1
pub proof fn lemma_normalized_lo(sig: int, b: int, k: nat, hi: int, lo: int)
    requires b >= 2, k >= 1, sig % b != 0, sig == hi * ipow(b, k) + lo
    ensures lo != 0
{
    if lo == 0 {
        let p = ipow(b, (k - 1) as nat);
        assert(ipow(b, k) == b * p);
        let t = hi * p;
        assert(hi * (b * p) == t * b) by (nonlinear_arith) requires t == hi * p;
        vstd::arithmetic::div_mod::lemma_mod_multiples_basic(t, b);
    }
}

pub proof fn lemma_ipow_add(b: int, x: nat, y: nat)
    ensures ipow(b, x + y) == ipow(b, x) * ipow(b, y)
    decreases x
{
    if x == 0 {
        assert(ipow(b, 0) == 1);
        assert(1 * ipow(b, y) == ipow(b, y));
    } else {
        lemma_ipow_add(b, (x - 1) as nat, y);
        let p = ipow(b, (x - 1) as nat);
        let q = ipow(b, y);
        assert(ipow(b, x + y) == b * ipow(b, ((x + y) - 1) as nat));
        assert((x - 1) as nat + y == ((x + y) - 1) as nat);
        assert(b * (p * q) == (b * p) * q) by (nonlinear_arith);
    }
}
/// the kept part of a `nd`-digit significand split `nd - p` digits from the right has at most p digits,
/// so after the adjustment by -1/0/+1 the result has at most p digits or is exactly +-b^p
pub proof fn lemma_hi_bound(b: int, sig: int, nd: nat, p: nat, hi: int, lo: int, adj: Rounding)
    requires b >= 2, nd > p, iabs(sig) < ipow(b, nd), is_trunc_divrem(sig, ipow(b, (nd - p) as nat), hi, lo)
    ensures iabs(hi + adj_int(adj)) <= ipow(b, p)
{
    let s = (nd - p) as nat;
    let u = ipow(b, s);
    let bp = ipow(b, p);
    lemma_ipow_pos(b, s);
    lemma_ipow_pos(b, p);
    lemma_ipow_add(b, p, s);
    assert(p + s == nd);
    assert(ipow(b, nd) == bp * u);
    lemma_divrem_facts(sig, u, hi, lo);
    let hu = hi * u;
    let ah = iabs(hi);
    let ahu = ah * u;
    assert(ahu == iabs(hu)) by (nonlinear_arith) requires ahu == ah * u, hu == hi * u, ah == (if hi < 0 { -hi } else { hi }), u > 0;
    assert(iabs(hu) <= iabs(sig));
    assert(ah < bp) by (nonlinear_arith) requires ahu == ah * u, ahu < bp * u, u > 0;
}

/// mm (in units of one ulp u = b^shift of the result, i.e. result value = mm * b^(exp+shift)) is a correct single
/// rounding of the exact significand `sig` (exact value sig * b^exp), reported with adjustment flag `adj`
pub open spec fn round_witness(m: Mode, b: int, sig: int, shift: nat, mm: int, adj: Rounding) -> bool {
    let u = ipow(b, shift);
    // mm*ulp is the neighbour of the exact value named by the mode: error < 1 ulp on the side the mode prescribes,
    // <= 1/2 ulp (ties by the mode's rule) for HalfEven / HalfAway
    &&& round_def(m, sig, u, mm)
    // the flag is truthful: adj = mm - trunc(exact / ulp)
    &&& round_def(Mode::Zero, sig, u, mm - adj_int(adj))
    // ... and for a normalized input (last digit non-zero) `Inexact` really means the value changed
    &&& (sig % b != 0 ==> mm * u != sig)
}
/// C03 for one rounding of an exact value sig * b^exp to `precision` digits (0 = unlimited)
pub open spec fn round_once<const B: Word>(m: Mode, b: int, precision: usize, sig: int, exp: int, ret: Rounded<Repr<B>>) -> bool {
    let nd = ndigits(b, sig);
    match ret {
        Approximation::Exact(r) =>
            (precision == 0 || nd <= precision) && r.significand.v() == sig && r.exponent == exp,
        Approximation::Inexact(r, adj) => precision != 0 && nd > precision && {
            let shift = (nd - precision) as nat;
            exists|mm: int| #[trigger] round_witness(m, b, sig, shift, mm, adj)
                && same_value(b, r.significand.v(), r.exponent as int, mm, exp + shift)
                && iabs(mm) <= ipow(b, precision as nat)            // at most precision digits, or exactly b^precision
        },
    }
}
