// ---- round_float_repr.rs: data types of float/src/repr.rs and the helpers `Context::repr_round*` calls.

// dashu_base::Approximation (base/src/approx.rs) -- transcription of the two-variant enum
pub enum Approximation<T, E> {
    Exact(T),
    Inexact(T, E),
}
use Approximation::*;
// float/src/round.rs
pub type Rounded<T> = Approximation<T, Rounding>;

// float/src/repr.rs `pub struct Repr<const BASE: Word>` -- transcription (value = significand * BASE^exponent)
pub struct Repr<const BASE: Word> {
    pub significand: IBig,
    pub exponent: isize,
}
// float/src/repr.rs `pub struct Context<RoundingMode: Round>` -- transcription
pub struct Context<RoundingMode: Round> {
    pub precision: usize,
    pub _marker: core::marker::PhantomData<RoundingMode>,
}

/// s1 * b^e1 == s2 * b^e2 (exponents may be negative: compared after scaling to the smaller exponent)
pub open spec fn same_value(b: int, s1: int, e1: int, s2: int, e2: int) -> bool {
    if e1 <= e2 { s1 == s2 * ipow(b, (e2 - e1) as nat) } else { s2 == s1 * ipow(b, (e1 - e2) as nat) }
}
/// number of base-b digits of |v| (0 for v == 0): the k with b^(k-1) <= |v| < b^k
pub uninterp spec fn ndigits(b: int, v: int) -> nat;
pub broadcast axiom fn ax_ndigits(b: int, v: int)
    requires b >= 2
    ensures v == 0 ==> #[trigger] ndigits(b, v) == 0,
        v != 0 ==> ndigits(b, v) >= 1 && ipow(b, (ndigits(b, v) - 1) as nat) <= iabs(v) && iabs(v) < ipow(b, ndigits(b, v));

// ---- TRUSTED stubs (float/src/utils.rs, float/src/repr.rs); each contract was read off the real function
/// utils::digit_len: "Returns the integer k such that B^(k-1) <= value < B^k. If value is 0, then k = 0"
#[verifier::external_body]
pub fn digit_len<const B: Word>(value: &IBig) -> (r: usize)
    requires B >= 2
    ensures r == ndigits(B as int, value.v())
{ unimplemented!() }
// `Repr::digits_ub` (the fast f32 over-estimate of the digit count; float/src/repr.rs): NOT used by the unchanged
// functions under contract; present so that a changed function calling it is judged by its contract. Assumed: an upper
// bound of the digit count; 0 for a zero significand (explicit early return in the real code); and the generous cap
// 2*digits + 2 (real code: `log as usize + 1` with log = f32 upper bound of log_B|significand|, relative error of a few
// 2^-22) which float/src/add.rs needs only to exclude usize overflow.  All three are ASSUMED (f32 estimate, not proved).
impl<const BASE: Word> Repr<BASE> {
    #[verifier::external_body]
    pub fn digits_ub(&self) -> (r: usize)
        ensures r >= ndigits(BASE as int, self.significand.v()),
            r <= 2 * ndigits(BASE as int, self.significand.v()) + 2,
            self.significand.v() == 0 ==> r == 0,
    { unimplemented!() }
}

/// utils::split_digits: v == hi*B^pos + lo, |lo| < B^pos, "the sign is applied to both parts"
#[verifier::external_body]
pub fn split_digits<const B: Word>(value: IBig, pos: usize) -> (r: (IBig, IBig))
    requires B >= 2
    ensures is_trunc_divrem(value.v(), ipow(B as int, pos as nat), r.0.v(), r.1.v())
{ unimplemented!() }
#[verifier::external_body]
pub fn split_digits_ref<const B: Word>(value: &IBig, pos: usize) -> (r: (IBig, IBig))
    requires B >= 2
    ensures is_trunc_divrem(value.v(), ipow(B as int, pos as nat), r.0.v(), r.1.v())
{ unimplemented!() }
impl<const B: Word> Repr<B> {
    /// Repr::new = struct literal + normalize(): same value, zero becomes (0, 0), result normalized; exponent overflow not modelled
    #[verifier::external_body]
    pub fn new(significand: IBig, exponent: isize) -> (r: Self)
        ensures same_value(B as int, r.significand.v(), r.exponent as int, significand.v(), exponent as int),
            significand.v() == 0 ==> r.significand.v() == 0 && r.exponent == 0,
            // normalize(): "so that the significand is not divisible by the base" (all three branches: B == 2,
            // B a power of two, UBig::remove for the rest)
            B >= 2 ==> (r.significand.v() == 0 || r.significand.v() % (B as int) != 0),
    { unimplemented!() }
}
impl<const B: Word> Clone for Repr<B> {
    #[verifier::external_body]
    fn clone(&self) -> (r: Self)
        ensures r.significand.v() == self.significand.v(), r.exponent == self.exponent
    { unimplemented!() }
}
// `impl Add<Rounding> for IBig` (float/src/round.rs): NoOp -> self, AddOne -> self + 1, SubOne -> self - 1
impl Add<Rounding> for IBig {
    type Output = IBig;
    #[verifier::external_body]
    fn add(self, rhs: Rounding) -> IBig { unimplemented!() }
}
impl AddSpecImpl<Rounding> for IBig {
    open spec fn obeys_add_spec() -> bool { true }
    open spec fn add_req(self, rhs: Rounding) -> bool { true }
    open spec fn add_spec(self, rhs: Rounding) -> IBig { ibig_of(self.v() + adj_int(rhs)) }
}

/// the result of a rounding differs from the exact value when the dropped digits are not all zero
pub proof fn lemma_inexact(sig: int, u: int, hi: int, lo: int, adj: Rounding)
    requires u > 0, is_trunc_divrem(sig, u, hi, lo), lo != 0
    ensures (hi + adj_int(adj)) * u != sig
{
    let a = adj_int(adj);
    assert((hi + a) * u == hi * u + a * u) by (nonlinear_arith);
    assert(a * u == (if a == 0 { 0 } else if a == 1 { u } else { -u })) by (nonlinear_arith)
        requires a == 0 || a == 1 || a == -1;
}
/// a significand that is not divisible by the base leaves a non-zero low part at every split position >= 1
pub proof fn lemma_normalized_lo(sig: int, b: int, k: nat, hi: int, lo: int)
    requires b >= 2, k >= 1, sig % b != 0, sig == hi * ipow(b, k) + lo
    ensures lo != 0
{
    if lo == 0 {
        let p = ipow(b, (k - 1) as nat);
        assert(ipow(b, k) == b * p);
        let t = hi * p;
        assert(hi * (b * p) == t * b) by (nonlinear_arith) requires t == hi * p;
        vstd::arithmetic::div_mod::lemma_mod_multiples_basic(t, b);
    }
}

pub proof fn lemma_ipow_add(b: int, x: nat, y: nat)
    ensures ipow(b, x + y) == ipow(b, x) * ipow(b, y)
    decreases x
{
    if x == 0 {
        assert(ipow(b, 0) == 1);
        assert(1 * ipow(b, y) == ipow(b, y));
    } else {
        lemma_ipow_add(b, (x - 1) as nat, y);
        let p = ipow(b, (x - 1) as nat);
        let q = ipow(b, y);
        assert(ipow(b, x + y) == b * ipow(b, ((x + y) - 1) as nat));
        assert((x - 1) as nat + y == ((x + y) - 1) as nat);
        assert(b * (p * q) == (b * p) * q) by (nonlinear_arith);
    }
}
/// the kept part of a `nd`-digit significand split `nd - p` digits from the right has at most p digits,
/// so after the adjustment by -1/0/+1 the result has at most p digits or is exactly +-b^p
pub proof fn lemma_hi_bound(b: int, sig: int, nd: nat, p: nat, hi: int, lo: int, adj: Rounding)
    requires b >= 2, nd > p, iabs(sig) < ipow(b, nd), is_trunc_divrem(sig, ipow(b, (nd - p) as nat), hi, lo)
    ensures iabs(hi + adj_int(adj)) <= ipow(b, p)
{
    let s = (nd - p) as nat;
    let u = ipow(b, s);
    let bp = ipow(b, p);
    lemma_ipow_pos(b, s);
    lemma_ipow_pos(b, p);
    lemma_ipow_add(b, p, s);
    assert(p + s == nd);
    assert(ipow(b, nd) == bp * u);
    lemma_divrem_facts(sig, u, hi, lo);
    let hu = hi * u;
    let ah = iabs(hi);
    let ahu = ah * u;
    assert(ahu == iabs(hu)) by (nonlinear_arith) requires ahu == ah * u, hu == hi * u, ah == (if hi < 0 { -hi } else { hi }), u > 0;
    assert(iabs(hu) <= iabs(sig));
    assert(ah < bp) by (nonlinear_arith) requires ahu == ah * u, ahu < bp * u, u > 0;
}

/// mm (in units of one ulp u = b^shift of the result, i.e. result value = mm * b^(exp+shift)) is a correct single
/// rounding of the exact significand `sig` (exact value sig * b^exp), reported with adjustment flag `adj`
pub open spec fn round_witness(m: Mode, b: int, sig: int, shift: nat, mm: int, adj: Rounding) -> bool {
    let u = ipow(b, shift);
    // mm*ulp is the neighbour of the exact value named by the mode: error < 1 ulp on the side the mode prescribes,
    // <= 1/2 ulp (ties by the mode's rule) for HalfEven / HalfAway
    &&& round_def(m, sig, u, mm)
    // the flag is truthful: adj = mm - trunc(exact / ulp)
    &&& round_def(Mode::Zero, sig, u, mm - adj_int(adj))
    // ... and for a normalized input (last digit non-zero) `Inexact` really means the value changed
    &&& (sig % b != 0 ==> mm * u != sig)
}
/// C03 for one rounding of an exact value sig * b^exp to `precision` digits (0 = unlimited)
pub open spec fn round_once<const B: Word>(m: Mode, b: int, precision: usize, sig: int, exp: int, ret: Rounded<Repr<B>>) -> bool {
    let nd = ndigits(b, sig);
    match ret {
        Approximation::Exact(r) =>
            (precision == 0 || nd <= precision) && r.significand.v() == sig && r.exponent == exp,
        Approximation::Inexact(r, adj) => precision != 0 && nd > precision && {
            let shift = (nd - precision) as nat;
            exists|mm: int| #[trigger] round_witness(m, b, sig, shift, mm, adj)
                && same_value(b, r.significand.v(), r.exponent as int, mm, exp + shift)
                && iabs(mm) <= ipow(b, precision as nat)            // at most precision digits, or exactly b^precision
        },
    }
}
