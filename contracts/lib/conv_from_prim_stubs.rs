// ---- conv_from_prim_stubs.rs: what float/src/convert.rs `impl_from_float_for_fbig` calls on primitive floats /
// integers.  EVERY external_body / assume_specification contract is a TRUSTED ASSUMPTION (source named at the stub).
// Needs round_prelude.rs, round_int_stubs.rs, round_float_repr.rs, conv_float.rs, conv_float_stubs.rs, conv_fbig_stubs.rs.

// core::num::FpCategory -- transcription of the enum (the real code matches on `FpCategory::Infinite`)
#[derive(Clone, Copy, PartialEq, Eq, Debug)]
pub enum FpCategory { Nan, Infinite, Zero, Subnormal, Normal }

/// the (mantissa, exponent) pair that the IEEE fields stand for: value = dec_m * 2^dec_e, not reduced
pub open spec fn dec_m(f: Fmt, r: Fields) -> int {
    let mm = if r.eb == 0 { r.frac } else { r.frac + pow2(f.p) };
    if r.sbit { -mm } else { mm }
}
pub open spec fn dec_e(f: Fmt, r: Fields) -> int { (if r.eb == 0 { 1 } else { r.eb }) - f.bias - f.p }
pub open spec fn is_nan_f(f: Fmt, r: Fields) -> bool { r.eb == f.emaxb && r.frac != 0 }
pub open spec fn is_inf_f(f: Fmt, r: Fields) -> bool { r.eb == f.emaxb && r.frac == 0 }
/// contract of `FloatEncoding::decode`: TRUSTED here, PROVED by the Kani group base_bit (vk_base_bit_decode_f32 / _f64,
/// kind 'complete', all bit patterns): NaN / infinity are reported as such, every other float comes back as the
/// unreduced pair (m, e) with m * 2^e equal to the float's value (e is the quantum exponent, |m| the significand, the
/// sign of m the sign bit)
pub open spec fn decode_ok(f: Fmt, r: Fields, m: int, e: int, res_ok: bool, res_nan: bool, res_inf: bool) -> bool {
    if r.eb == f.emaxb { !res_ok && res_nan == (r.frac != 0) && res_inf == (r.frac == 0) }
    else { res_ok && e == dec_e(f, r) && m == dec_m(f, r) }
}
// dashu_base::FloatEncoding (base/src/bit.rs) -- only `decode`
pub trait FloatEncoding: Sized {
    type Mantissa;
    type Exponent;
    spec fn dec_post(self, r: Result<(Self::Mantissa, Self::Exponent), FpCategory>) -> bool;
    fn decode(self) -> (r: Result<(Self::Mantissa, Self::Exponent), FpCategory>)
        ensures self.dec_post(r);
}
impl FloatEncoding for f32 {
    type Mantissa = i32;
    type Exponent = i16;
    open spec fn dec_post(self, r: Result<(i32, i16), FpCategory>) -> bool {
        match r {
            Ok((m, e)) => decode_ok(fmt32(), fields32(self), m as int, e as int, true, false, false),
            Err(c) => decode_ok(fmt32(), fields32(self), 0, 0, false, c == FpCategory::Nan, c == FpCategory::Infinite),
        }
    }
    #[verifier::external_body]
    fn decode(self) -> (r: Result<(i32, i16), FpCategory>) { unimplemented!() }
}
impl FloatEncoding for f64 {
    type Mantissa = i64;
    type Exponent = i16;
    open spec fn dec_post(self, r: Result<(i64, i16), FpCategory>) -> bool {
        match r {
            Ok((m, e)) => decode_ok(fmt64(), fields64(self), m as int, e as int, true, false, false),
            Err(c) => decode_ok(fmt64(), fields64(self), 0, 0, false, c == FpCategory::Nan, c == FpCategory::Infinite),
        }
    }
    #[verifier::external_body]
    fn decode(self) -> (r: Result<(i64, i16), FpCategory>) { unimplemented!() }
}
// dashu_base::Signed for f32 / f64 (base/src/sign.rs `impl_signed_for_float`): panics on NaN, both zeros are Positive,
// otherwise the sign bit
pub trait Signed {
    spec fn sign_req(&self) -> bool;
    spec fn sign_spec(&self) -> Sign;
    fn sign(&self) -> (r: Sign) requires self.sign_req() ensures r == self.sign_spec();
}
pub open spec fn fsign(f: Fmt, r: Fields) -> Sign {
    if r.eb == 0 && r.frac == 0 { Sign::Positive } else if r.sbit { Sign::Negative } else { Sign::Positive }
}
impl Signed for f32 {
    open spec fn sign_req(&self) -> bool { !is_nan_f(fmt32(), fields32(*self)) }
    open spec fn sign_spec(&self) -> Sign { fsign(fmt32(), fields32(*self)) }
    #[verifier::external_body]
    fn sign(&self) -> (r: Sign) { unimplemented!() }
}
impl Signed for f64 {
    open spec fn sign_req(&self) -> bool { !is_nan_f(fmt64(), fields64(*self)) }
    open spec fn sign_spec(&self) -> Sign { fsign(fmt64(), fields64(*self)) }
    #[verifier::external_body]
    fn sign(&self) -> (r: Sign) { unimplemented!() }
}
// core: i32::unsigned_abs / i64::unsigned_abs (no vstd spec in this build)
pub assume_specification [i32::unsigned_abs] (x: i32) -> (r: u32) ensures r as int == absi(x as int);
pub assume_specification [i64::unsigned_abs] (x: i64) -> (r: u64) ensures r as int == absi(x as int);
// dashu_base::BitTest for u32 / u64 (base/src/bit.rs `impl_bit_ops_for_uint`): BITS - leading_zeros
pub trait BitTest {
    spec fn bit_len_spec(&self) -> nat;
    fn bit_len(&self) -> (r: usize) ensures r == self.bit_len_spec();
}
impl BitTest for u32 {
    open spec fn bit_len_spec(&self) -> nat { blen(*self as int) }
    #[verifier::external_body]
    fn bit_len(&self) -> (r: usize) { unimplemented!() }
}
impl BitTest for u64 {
    open spec fn bit_len_spec(&self) -> nat { blen(*self as int) }
    #[verifier::external_body]
    fn bit_len(&self) -> (r: usize) { unimplemented!() }
}
// integer/src/convert.rs `impl From<i32> for IBig`, `impl From<i64> for IBig`: value-exact
impl From<i32> for IBig {
    #[verifier::external_body]
    fn from(x: i32) -> IBig { unimplemented!() }
}
impl FromSpecImpl<i32> for IBig {
    open spec fn obeys_from_spec() -> bool { true }
    open spec fn from_spec(x: i32) -> IBig { ibig_of(x as int) }
}
impl From<i64> for IBig {
    #[verifier::external_body]
    fn from(x: i64) -> IBig { unimplemented!() }
}
impl FromSpecImpl<i64> for IBig {
    open spec fn obeys_from_spec() -> bool { true }
    open spec fn from_spec(x: i64) -> IBig { ibig_of(x as int) }
}
// float/src/fbig.rs `pub const INFINITY: Self = Self::new(Repr::infinity(), Context::new(0));` and
// `pub const NEG_INFINITY: Self = Self::new(Repr::neg_infinity(), Context::new(0));`.  Associated constants of a generic
// impl cannot carry a contract in this Verus build ("cannot read static with mode exec") and are not functions the
// engine could extract: they are TRANSCRIBED as two functions whose bodies are the initialisers, verified against
// the real `FBig::new`, `Repr::infinity`, `Repr::neg_infinity`, `Context::new` of this unit; rule D2 maps
// `Self::INFINITY` / `Self::NEG_INFINITY` onto calls of them (instantiated for base 2, the only base of these impls).
pub fn fbig_infinity<R: Round>() -> (r: FBig<R, 2>)
    ensures r.repr.significand.v() == 0, r.repr.exponent == 1, r.context.precision == 0
{
    FBig::new(Repr::infinity(), Context::new(0))
}
pub fn fbig_neg_infinity<R: Round>() -> (r: FBig<R, 2>)
    ensures r.repr.significand.v() == 0, r.repr.exponent == -1, r.context.precision == 0
{
    FBig::new(Repr::neg_infinity(), Context::new(0))
}
pub type FB2<R> = FBig<R, 2>;

/// C08 "conversion from f32/f64 is always exact": the Repr holds exactly the float's value m * 2^e (zero as (0, 0));
/// +-infinity become the infinity reprs (0, +-1); NaN is rejected with OutOfBounds
pub open spec fn from_float_ok(f: Fmt, r: Fields, res: Result<Repr<2>, ConversionError>) -> bool {
    if is_nan_f(f, r) { res == Err::<Repr<2>, ConversionError>(ConversionError::OutOfBounds) }
    else if is_inf_f(f, r) { res is Ok && res->Ok_0.significand.v() == 0 && res->Ok_0.exponent == (if r.sbit { -1isize } else { 1isize }) }
    else {
        &&& res is Ok
        &&& same_value(2, res->Ok_0.significand.v(), res->Ok_0.exponent as int, dec_m(f, r), dec_e(f, r))
        &&& (dec_m(f, r) == 0 ==> res->Ok_0.significand.v() == 0 && res->Ok_0.exponent == 0)
    }
}
pub open spec fn fbig_from_float_ok<R: Round>(f: Fmt, r: Fields, res: Result<FBig<R, 2>, ConversionError>) -> bool {
    if is_nan_f(f, r) { res is Err && res->Err_0 == ConversionError::OutOfBounds }
    else {
        &&& res is Ok
        &&& from_float_ok(f, r, Ok::<Repr<2>, ConversionError>(res->Ok_0.repr))
        // infinities carry unlimited precision; finite floats the bit length of their significand
        &&& res->Ok_0.context.precision == (if is_inf_f(f, r) { 0 } else { blen(absi(dec_m(f, r))) })
    }
}
