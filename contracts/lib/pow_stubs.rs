// ---- pow_stubs.rs: helpers of pow.rs outside the verified text (TRUSTED) -----------------------------------------------
// <[T]>::fill (core): every element is overwritten with the value
pub assume_specification<T: Clone> [<[T]>::fill] (s: &mut [T], v: T)
    ensures final(s)@.len() == old(s)@.len(), forall|i: int| 0 <= i < old(s)@.len() ==> final(s)@[i] == v;

pub mod math_stub {
use super::*;
/// integer/src/math.rs:14 `bit_len<T: PrimitiveUnsigned>(x) = T::BIT_SIZE - x.leading_zeros()`, instantiated at usize
/// (the only instantiation used by pow.rs): for x != 0 the index of the highest set bit is r - 1.  TRUSTED
/// (definition of leading_zeros; the generic trait PrimitiveUnsigned is not mirrored).
#[verifier::external_body]
pub fn bit_len(x: usize) -> (r: u32)
    ensures r <= usize::BITS, x == 0 ==> r == 0, x != 0 ==> r >= 1 && (x >> ((r - 1) as u32)) == 1,
{ unimplemented!() }
}

/// integer/src/memory.rs:186-193 scratch sizing helpers: opaque (see lib/mul_glue_stubs.rs; may panic with
/// panic_allocate_too_much, never influence a value)
pub mod memory {
use super::*;
#[verifier::external_body]
pub fn array_layout<T>(n: usize) -> Layout { unimplemented!() }
#[verifier::external_body]
pub fn add_layout(a: Layout, b: Layout) -> Layout { unimplemented!() }
}
