// ---- pow_stubs.rs: helpers of pow.rs outside the verified text (TRUSTED) -----------------------------------------------
// <[T]>::fill (core): every element is overwritten with the value
pub assume_specification<T: Clone> [<[T]>::fill] (s: &mut [T], v: T)
    ensures final(s)@.len() == old(s)@.len(), forall|i: int| 0 <= i < old(s)@.len() ==> final(s)@[i] == v;

pub mod math_stub {
use super::*;
/// integer/src/math.rs:14 `bit_len<T: PrimitiveUnsigned>(x) = T::BIT_SIZE - x.leading_zeros()`, instantiated at usize
/// (the only instantiation used by pow.rs): for x != 0 the index of the highest set bit is r - 1.  TRUSTED
/// (definition of leading_zeros; the generic trait PrimitiveUnsigned is not mirrored).
#[verifier::external_body]
pub fn bit_len(x: usize) -> (r: u32)
    ensures r <= usize::BITS, x == 0 ==> r == 0, x != 0 ==> r >= 1 && (x >> ((r - 1) as u32)) == 1,
{ unimplemented!() }
}

/// integer/src/memory.rs:186-193 scratch sizing helpers: opaque (see lib/mul_glue_stubs.rs; may panic with
/// panic_allocate_too_much, never influence a value)
pub mod memory {
use super::*;
#[verifier::external_body]
pub fn array_layout<T>(n: usize) -> Layout { unimplemented!() }
#[verifier::external_body]
pub fn add_layout(a: Layout, b: Layout) -> Layout { unimplemented!() }
}

// ---- used by pow_word_base only ---------------------------------------------------------------------------------
/// `is_power_of_two`: exactly one bit set  (core; same statement as lib/div_word_stubs.rs)
pub assume_specification [@W@::is_power_of_two] (w: @W@) -> (r: bool)
    ensures r <==> (w != 0 && (w & ((w - 1) as @W@)) == 0);
/// `Word::pow` (core): the mathematical power when it fits; overflow panics (debug) / wraps (release): precondition
pub assume_specification [@W@::pow] (b: @W@, e: u32) -> (r: @W@)
    requires ipow(b as int, e as int) <= @W@::MAX as int,
    ensures r as int == ipow(b as int, e as int);

/// dashu_base::DivRem (trait mirrored), instantiated at usize (base/src/math/div.rs macro impl): Euclidean division of
/// machine integers; a zero divisor panics.  TRUSTED.
pub trait DivRem<Rhs = Self> {
    type OutputDiv;
    type OutputRem;
    spec fn div_rem_req(self, rhs: Rhs) -> bool;
    spec fn div_rem_post(self, rhs: Rhs, q: Self::OutputDiv, r: Self::OutputRem) -> bool;
    fn div_rem(self, rhs: Rhs) -> (qr: (Self::OutputDiv, Self::OutputRem))
        requires self.div_rem_req(rhs) ensures self.div_rem_post(rhs, qr.0, qr.1);
}
impl DivRem<usize> for usize {
    type OutputDiv = usize;
    type OutputRem = usize;
    open spec fn div_rem_req(self, rhs: usize) -> bool { rhs != 0 }
    open spec fn div_rem_post(self, rhs: usize, q: usize, r: usize) -> bool { q * rhs + r == self && r < rhs }
    #[verifier::external_body]
    fn div_rem(self, rhs: usize) -> (qr: (usize, usize)) { unimplemented!() }
}

/// integer/src/bits.rs:428 `TypedRepr::set_bit(self, n)`: only the instance used by pow.rs (setting bit n of ZERO gives
/// 2^n).  The result has n / WORD_BITS + 1 words (resource precondition).  TRUSTED.
impl TypedRepr {
    #[verifier::external_body]
    pub fn set_bit(self, n: usize) -> (r: Repr)
        requires self.wf(), (n as int) / @BITS@ < max_capacity(),
        ensures self.v() == 0 ==> r.v() == pow2(n as int),
    { unimplemented!() }
}
