// ---- sf_prim_lemmas.rs: specification and lemmas of `RBig::simplest_from_f32 / simplest_from_f64` (macro
// impl_simplest_from_float, rational/src/simplify.rs, C18).  Needs conv_float.rs (Fmt, Fields), conv_from_prim_stubs.rs (dec_m,
// dec_e), ebounds_lemmas.rs, sf_spec.rs, sf_lemmas.rs.
//
// DEFINITION, from IEEE-754 round-to-nearest-even (not from the code): a finite non-zero float f with fields (sign, eb, frac)
// is m * 2^e with m = +-(frac [+ 2^p for eb > 0]) and e = max(eb, 1) - bias - p (dec_m / dec_e, the pair `decode` returns).
// Its neighbour away from zero is (|m| + 1) * 2^e (for the largest finite float: the overflow threshold); its neighbour
// towards zero is (|m| - 1) * 2^e, EXCEPT at the bottom of a normal binade above the first one (frac == 0, eb > 1) where the
// floats below are spaced 2^(e-1): the refinement g = 2 of the MODEL in ebounds_lemmas.rs (g = 1 otherwise; in particular
// for the smallest normal number, eb == 1, whose lower neighbours are the subnormals of the same spacing).  A real y rounds
// to f iff `rounds_on_grid(HalfEven, m, g, ..)`: nearest on the grid of y's own binade, a tie going to the even significand.
pub open spec fn prim_g(r: Fields) -> int { if r.eb > 1 && r.frac == 0 { 2 } else { 1 } }
pub open spec fn prim_round_set(f: Fmt, r: Fields, yn: int, yd: int) -> bool {
    in_round_grid(Mode::HalfEven, 2, dec_m(f, r), prim_g(r), dec_e(f, r) - (prim_g(r) - 1), yn, yd)
}
/// CONTRACT of simplest_from_f32 / _f64 for a finite non-zero float: canonical, rounds to f, and no fraction that rounds to f
/// is simpler
pub open spec fn prim_post(f: Fmt, r: Fields, rn: int, rd: int) -> bool {
    &&& wf_ratio(rn, rd)
    &&& prim_round_set(f, r, rn, rd)
    &&& forall|qn: int, qd: int| qd >= 1 && #[trigger] prim_round_set(f, r, qn, qd) ==> !simpler(qd, qn, rd, rn)
}

pub open spec fn imax0(e: int) -> int { if e >= 0 { e } else { 0 } }
/// what `Repr::try_from(f)` holds for a finite f: the UNREDUCED fraction m * 2^max(e,0) / 2^max(-e,0)
pub open spec fn prim_est(m: int, e: int, n: int, d: int) -> bool {
    n == m * ipow(2, imax0(e) as nat) && d == ipow(2, imax0(-e) as nat)
}

/// (4N +- w) / (4D) with N/D = m 2^e as above and w = c * 2^max(e,0): twice that number is (4m +- c) * 2^(e-1)
pub proof fn lemma_prim_endpoint(m: int, e: int, c: int, plus: bool, N: int, D: int, w: int)
    requires prim_est(m, e, N, D), w == c * ipow(2, imax0(e) as nat)
    ensures fv(2, 4 * m + (if plus { c } else { -c }), e - 1, 2 * (4 * N + (if plus { w } else { -w })), 4 * D), D >= 1
{
    lemma_ipow_012(2);
    let S = 4 * m + (if plus { c } else { -c });
    let n = 2 * (4 * N + (if plus { w } else { -w }));
    lemma_ipow_pos(2, imax0(-e) as nat);
    if e >= 1 {
        let Ph = ipow(2, (e - 1) as nat);
        let P = ipow(2, e as nat);
        assert(P == 2 * Ph);
        assert(D == 1);
        assert(n == (S * Ph) * (4 * D)) by (nonlinear_arith)
            requires n == 2 * (4 * N + (if plus { w } else { -w })), N == m * P, w == c * P, P == 2 * Ph, D == 1, S == 4 * m + (if plus { c } else { -c });
    } else if e == 0 {
        let P0 = ipow(2, imax0(e) as nat);
        assert(P0 == 1 && D == 1);
        assert(N == m && w == c) by (nonlinear_arith) requires N == m * P0, w == c * P0, P0 == 1;
        assert((-(e - 1)) as nat == 1nat);
        assert(n == 2 * S);
        assert(n * 2 == S * (4 * D)) by (nonlinear_arith) requires n == 2 * S, D == 1;
    } else {
        let Q = ipow(2, (1 - e) as nat);
        assert((-e) as nat == imax0(-e) as nat);
        assert(Q == 2 * ipow(2, ((1 - e) - 1) as nat));
        assert(((1 - e) - 1) as nat == (-e) as nat);
        assert(Q == 2 * D);
        let P0 = ipow(2, imax0(e) as nat);
        assert(P0 == 1);
        assert(N == m && w == c) by (nonlinear_arith) requires N == m * P0, w == c * P0, P0 == 1;
        assert((-(e - 1)) as nat == (1 - e) as nat);
        assert(n * Q == S * (4 * D)) by (nonlinear_arith) requires n == 2 * S, Q == 2 * D;
    }
}
/// a fraction equal to n/d (cross-multiplied) has the same float value
pub proof fn lemma_fv_red(b: int, s: int, e: int, n: int, d: int, n1: int, d1: int)
    requires d >= 1, d1 >= 1, fv(b, s, e, n, d), n1 * d == n * d1
    ensures fv(b, s, e, n1, d1)
{
    if e >= 0 {
        let vv = s * ipow(b, e as nat);
        assert(n1 == vv * d1) by (nonlinear_arith) requires n == vv * d, n1 * d == n * d1, d >= 1;
    } else {
        let p = ipow(b, (-e) as nat);
        assert(n1 * p == s * d1) by (nonlinear_arith) requires n * p == s * d, n1 * d == n * d1, d >= 1;
    }
}
/// is_simplest_in does not depend on the order of the end points
pub proof fn lemma_simplest_swap(ln: int, ld: int, un: int, ud: int, rn: int, rd: int)
    requires is_simplest_in(ln, ld, un, ud, rn, rd)
    ensures is_simplest_in(un, ud, ln, ld, rn, rd)
{
    assert(strictly_between(un, ud, ln, ld, rn, rd));
    assert forall|p: int, s: int| s >= 1 && #[trigger] strictly_between(un, ud, ln, ld, p, s) implies s >= rd && rabs(p) >= rabs(rn) by {
        assert(strictly_between(ln, ld, un, ud, p, s));
    }
}
/// the selection of the macro: the UPPER end point (`left` = est + up) is tried first, then the lower one
pub open spec fn sf_pick_uf(ln: int, ld: int, un: int, ud: int, il: bool, ir: bool, s0n: int, s0d: int) -> (int, int) {
    let s1 = if ir && simpler(ud, un, s0d, s0n) { (un, ud) } else { (s0n, s0d) };
    if il && simpler(ld, ln, s1.1, s1.0) { (ln, ld) } else { s1 }
}
pub proof fn lemma_pick_uf(ln: int, ld: int, un: int, ud: int, il: bool, ir: bool, s0n: int, s0d: int)
    requires wf_ratio(ln, ld), wf_ratio(un, ud), wf_ratio(s0n, s0d), qlt(ln, ld, un, ud), is_simplest_in(ln, ld, un, ud, s0n, s0d)
    ensures ({
        let r = sf_pick_uf(ln, ld, un, ud, il, ir, s0n, s0d);
        &&& wf_ratio(r.0, r.1)
        &&& in_flag(ln, ld, un, ud, il, ir, r.0, r.1)
        &&& forall|p: int, s: int| s >= 1 && #[trigger] in_flag(ln, ld, un, ud, il, ir, p, s) ==> !simpler(s, p, r.1, r.0)
    })
{
    let r = sf_pick_uf(ln, ld, un, ud, il, ir, s0n, s0d);
    lemma_between_oriented(ln, ld, un, ud, s0n, s0d);
    assert forall|p: int, s: int| s >= 1 && #[trigger] in_flag(ln, ld, un, ud, il, ir, p, s) implies !simpler(s, p, r.1, r.0) by {
        if il && p * ld == ln * s {
            lemma_equal_not_simpler(p, s, ln, ld);
        } else if ir && p * ud == un * s {
            lemma_equal_not_simpler(p, s, un, ud);
        } else {
            lemma_inside_not_simpler(ln, ld, un, ud, s0n, s0d, p, s);
        }
    }
}

/// the end of the macro: from the reduced end points left = (4N + up)/(4D), right = (4N - down)/(4D) and the interior
/// candidate to the contract
pub proof fn lemma_prim_final(f: Fmt, r: Fields, N: int, D: int, q: int, is_pow2: bool, even: bool, up: int, down: int,
                              ln: int, ld: int, rn: int, rd: int, s0n: int, s0d: int)
    requires
        f.p >= 1, r.eb != f.emaxb, 0 <= r.eb, 0 <= r.frac < pow2(f.p), !(r.eb == 0 && r.frac == 0),
        prim_est(dec_m(f, r), dec_e(f, r), N, D),
        q == ipow(2, imax0(dec_e(f, r)) as nat),
        is_pow2 == (r.eb > 1 && r.frac == 0),
        even == (r.frac % 2 == 0),
        up == (if is_pow2 && r.sbit { q } else { 2 * q }),
        down == (if is_pow2 && !r.sbit { q } else { 2 * q }),
        wf_ratio(ln, ld), wf_ratio(rn, rd), wf_ratio(s0n, s0d),
        ln * (4 * D) == (4 * N + up) * ld,
        rn * (4 * D) == (4 * N - down) * rd,
        !(ln == rn && ld == rd) ==> is_simplest_in(ln, ld, rn, rd, s0n, s0d),
    ensures
        prim_post(f, r, sf_pick_uf(rn, rd, ln, ld, even, even, s0n, s0d).0, sf_pick_uf(rn, rd, ln, ld, even, even, s0n, s0d).1)
{
    let (m, e, g) = (dec_m(f, r), dec_e(f, r), prim_g(r));
    let eu = e - (g - 1);
    let P = pow2(f.p) as int;
    vstd::arithmetic::power2::lemma_pow2_pos(f.p);
    vstd::arithmetic::power2::lemma_pow2_unfold(f.p);
    assert(P == 2 * pow2((f.p - 1) as nat));
    assert(P % 2 == 0);
    let mm = if r.eb == 0 { r.frac } else { r.frac + P };
    assert(mm >= 1);
    assert(m == (if r.sbit { -mm } else { mm }));
    assert((m % 2 == 0) == even);
    let mg = m * g;
    assert(mg == (if g == 2 { 2 * m } else { m })) by (nonlinear_arith) requires mg == m * g, g == 1 || g == 2;
    let t = eb_table(Mode::HalfEven, m, g);
    lemma_eb_table(Mode::HalfEven, m, g);
    assert(g == 2 ==> r.frac == 0 && even);
    assert(t.2 == even && t.3 == even);
    let (KL, KR) = (2 * mg - t.0, 2 * mg + t.1);
    // c = width / quarter-ulp of the two sides
    let cu = if is_pow2 && r.sbit { 1int } else { 2int };
    let cd = if is_pow2 && !r.sbit { 1int } else { 2int };
    assert(up == cu * q && down == cd * q) by (nonlinear_arith)
        requires up == (if is_pow2 && r.sbit { q } else { 2 * q }), down == (if is_pow2 && !r.sbit { q } else { 2 * q }),
            cu == (if is_pow2 && r.sbit { 1int } else { 2int }), cd == (if is_pow2 && !r.sbit { 1int } else { 2int });
    lemma_prim_endpoint(m, e, cu, true, N, D, up);
    lemma_prim_endpoint(m, e, cd, false, N, D, down);
    let (SU, SD) = (4 * m + cu, 4 * m - cd);
    assert((2 * ln) * (4 * D) == (2 * (4 * N + up)) * ld) by (nonlinear_arith) requires ln * (4 * D) == (4 * N + up) * ld;
    assert((2 * rn) * (4 * D) == (2 * (4 * N - down)) * rd) by (nonlinear_arith) requires rn * (4 * D) == (4 * N - down) * rd;
    lemma_fv_red(2, SU, e - 1, 2 * (4 * N + up), 4 * D, 2 * ln, ld);
    lemma_fv_red(2, SD, e - 1, 2 * (4 * N - down), 4 * D, 2 * rn, rd);
    // (4m +- c) * 2^(e-1) in fine steps 2^eu
    lemma_ipow_012(2);
    assert(same_value(2, SU, e - 1, KR, eu) && same_value(2, SD, e - 1, KL, eu)) by {
        if g == 2 {
            assert(eu == e - 1);
            assert(KR * 1 == KR && KL * 1 == KL);
        } else {
            assert(eu == e && cu == 2 && cd == 2);
            assert(((e) - (e - 1)) as nat == 1nat);
        }
    }
    lemma_fv_same(2, SU, e - 1, KR, eu, 2 * ln, ld);
    lemma_fv_same(2, SD, e - 1, KL, eu, 2 * rn, rd);
    assert(KL < KR);
    lemma_left_lt_right(2, KL, KR, eu, rn, rd, ln, ld);
    assert(!(ln == rn && ld == rd));
    lemma_simplest_swap(ln, ld, rn, rd, s0n, s0d);
    lemma_pick_uf(rn, rd, ln, ld, even, even, s0n, s0d);
    let res = sf_pick_uf(rn, rd, ln, ld, even, even, s0n, s0d);
    lemma_member_grid(Mode::HalfEven, 2, m, g, eu, t.0, t.1, t.2, t.3, rn, rd, ln, ld, res.0, res.1);
    assert forall|qn: int, qd: int| qd >= 1 && #[trigger] prim_round_set(f, r, qn, qd) implies !simpler(qd, qn, res.1, res.0) by {
        lemma_member_grid(Mode::HalfEven, 2, m, g, eu, t.0, t.1, t.2, t.3, rn, rd, ln, ld, qn, qd);
        assert(in_flag(rn, rd, ln, ld, even, even, qn, qd));
    }
}

// ---- bit patterns: the masks of the macro against the IEEE fields (fields32 / fields64 are written with / and %)
pub proof fn lemma_prim_bits32(b: u32)
    ensures
        (1u32 << 23u32) - 1 == 0x7f_ffffu32, (1u32 << 24u32) - 1 == 0xff_ffffu32,
        (b & 0x7f_ffffu32 == 0) == ((b as int) % 0x80_0000 == 0),
        (b & 1u32 == 0) == (((b as int) % 0x80_0000) % 2 == 0),
{
    assert((1u32 << 23u32) - 1 == 0x7f_ffffu32 && (1u32 << 24u32) - 1 == 0xff_ffffu32) by (bit_vector);
    assert(b & 0x7f_ffffu32 == b % 0x80_0000u32) by (bit_vector);
    assert((b & 1u32 == 0) == ((b % 0x80_0000u32) % 2 == 0)) by (bit_vector);
}
pub proof fn lemma_prim_bits64(b: u64)
    ensures
        (1u64 << 52u64) - 1 == 0xf_ffff_ffff_ffffu64, (1u64 << 53u64) - 1 == 0x1f_ffff_ffff_ffffu64,
        (b & 0xf_ffff_ffff_ffffu64 == 0) == ((b as int) % 0x10_0000_0000_0000 == 0),
        (b & 1u64 == 0) == (((b as int) % 0x10_0000_0000_0000) % 2 == 0),
{
    assert((1u64 << 52u64) - 1 == 0xf_ffff_ffff_ffffu64 && (1u64 << 53u64) - 1 == 0x1f_ffff_ffff_ffffu64) by (bit_vector);
    assert(b & 0xf_ffff_ffff_ffffu64 == b % 0x10_0000_0000_0000u64) by (bit_vector);
    assert((b & 1u64 == 0) == ((b % 0x10_0000_0000_0000u64) % 2 == 0)) by (bit_vector);
}
