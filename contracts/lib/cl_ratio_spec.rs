// ---- cl_ratio_spec.rs: the statement of C05 / C15 for a copy of a rational.  Needs lib/bigstub.rs, lib/ratio_types.rs.
/// `d` is a copy of `s`: the same numerator AND the same denominator (not merely the same quotient: `==` / `Hash` of RBig
/// and the structural parts of Relaxed read the two fields).  ONE predicate for `s.clone()` (d = the returned value) and
/// `d.clone_from(&s)` (d = what is left in the destination, whatever it held before): C15.
pub open spec fn cl_ratio_copy(s: Repr, d: Repr) -> bool {
    d.numerator.v() == s.numerator.v() && d.denominator.v() == s.denominator.v()
}
