// TRUSTED: `==` on IBig is equality of the values (integer/src/repr.rs PartialEq for Repr; C05 Kani groups int_repr /
// int_cmp).  NOT used by the unchanged functions under contract; present so that a changed function using it is judged.
// (Kept out of lib/bigstub.rs: several units bring their own PartialEq for the stub IBig.)
impl vstd::std_specs::cmp::PartialEqSpecImpl for IBig {
    open spec fn obeys_eq_spec() -> bool { true }
    open spec fn eq_spec(&self, other: &IBig) -> bool { self.v() == other.v() }
}
impl PartialEq for IBig { #[verifier::external_body] fn eq(&self, other: &Self) -> bool { unimplemented!() } }
// TRUSTED: Clone for IBig keeps the value (integer/src/ibig.rs; Kani group int_repr, clone harnesses)
impl Clone for IBig {
    #[verifier::external_body]
    fn clone(&self) -> (r: IBig) ensures r.v() == self.v() { unimplemented!() }
}
