// ---- mulalg_root_stubs.rs: trusted stubs + bit lemmas for integer/src/root.rs (unit int_root_sqrt).  Word = @W@ ----
// Needs lib/prelude.rs.
//
// TRUSTED:
//  * (NO LONGER TRUSTED) dashu_base::SquareRootRem for DoubleWord (base/src/ring/root.rs: impl_rootrem_using_normalized!(@D@, @W@)):
//    "(s, r) with s*s + r == n and r <= 2s" (floor square root and remainder of a machine integer) is PROVED in unit base_root
//    (u128: Karatsuba step on the u64 routine; u64: table + Newton steps under ONE explicit assumption on the estimate, see
//    lib/basering_root_est.rs) and imported here with //@@ SIG; the impl below only forwards to it.
//  * dashu_base::DivRem for DoubleWord (base/src/math/div.rs macro impl): (a / b, a % b) of machine integers, b != 0.

pub trait SquareRootRem: Sized {
    type Output;
    spec fn sqrt_rem_post(&self, r: (Self::Output, Self)) -> bool;
    fn sqrt_rem(&self) -> (r: (Self::Output, Self))
        ensures self.sqrt_rem_post(r);
}
// base/src/ring/root.rs `impl_rootrem_using_normalized!(@D@, @W@)` :: `SquareRootRem::sqrt_rem`: contract generated from the annotated
// copy PROVED (unbounded) in unit base_root (hoisted free function sqrt_rem_@D@)
//@@ SIG base/ring_root/sqrt_rem.rs variant=@D@ msubst=t:@D@,half:@W@
impl SquareRootRem for DoubleWord {
    type Output = Word;
    open spec fn sqrt_rem_post(&self, r: (Word, DoubleWord)) -> bool {
        (r.0 as int) * (r.0 as int) + r.1 as int == *self as int && r.1 as int <= 2 * (r.0 as int)
    }
    // NOT trusted any more: forwards to the contract PROVED on the real macro body in unit base_root (//@@ SIG above)
    fn sqrt_rem(&self) -> (r: (Word, DoubleWord)) { sqrt_rem_@D@(self) }
}

pub trait DivRem<Rhs = Self> {
    type OutputDiv;
    type OutputRem;
    spec fn div_rem_req(self, rhs: Rhs) -> bool;
    spec fn div_rem_post(self, rhs: Rhs, q: Self::OutputDiv, r: Self::OutputRem) -> bool;
    fn div_rem(self, rhs: Rhs) -> (qr: (Self::OutputDiv, Self::OutputRem))
        requires self.div_rem_req(rhs) ensures self.div_rem_post(rhs, qr.0, qr.1);
}
impl DivRem<DoubleWord> for DoubleWord {
    type OutputDiv = DoubleWord;
    type OutputRem = DoubleWord;
    open spec fn div_rem_req(self, rhs: DoubleWord) -> bool { rhs != 0 }
    open spec fn div_rem_post(self, rhs: DoubleWord, q: DoubleWord, r: DoubleWord) -> bool {
        (q as int) * (rhs as int) + r as int == self as int && r < rhs
    }
    #[verifier::external_body]
    fn div_rem(self, rhs: DoubleWord) -> (qr: (DoubleWord, DoubleWord)) { unimplemented!() }
}

// ---- bit facts (fixed width) ---------------------------------------------------------------------------------------

/// (x << (BITS-1)) | (y >> 1)  =  (x mod 2) * B/2 + y div 2        (the halving of a two-word number, one word at a time)
pub proof fn lemma_root_half_word(x: Word, y: Word)
    ensures ((x << (@BITS@ - 1)) | (y >> 1)) as int == ((x as int) % 2) * @HALFB@ + (y as int) / 2,
{
    let r = (x << (@BITS@ - 1)) | (y >> 1);
    assert(r == (x & 1) * @HALFB@ + (y >> 1)) by (bit_vector) requires r == (x << (@BITS@ - 1)) | (y >> 1);
    assert((x & 1) == x % 2) by (bit_vector);
    assert((y >> 1) == y / 2) by (bit_vector);
    assert(((x & 1) * @HALFB@) as int == ((x & 1) as int) * @HALFB@) by (nonlinear_arith) requires (x & 1) <= 1;
}

/// q >> BITS > 0  <==>  q >= B
pub proof fn lemma_root_dword_hi(q: DoubleWord)
    ensures ((q >> @BITS@) > 0) == (q as int >= B()),
{
    assert(((q >> @BITS@) > 0) == (q >= @B@)) by (bit_vector);
}

/// u << 1 | bit  =  2u + bit
pub proof fn lemma_root_shl1_or(u: DoubleWord, w: Word)
    requires (u as int) < B() * @HALFB@,
    ensures (u << 1 | ((w & 1) as DoubleWord)) as int == 2 * (u as int) + (w as int) % 2,
{
    let bit = (w & 1) as DoubleWord;
    assert(bit == (w % 2) as DoubleWord) by (bit_vector) requires bit == (w & 1) as DoubleWord;
    assert((u << 1 | bit) == 2 * u + bit) by (bit_vector) requires u < @B@ * @HALFB@, bit <= 1;
}

/// constants: B/2 = HALFB, (B/4)·B = (B/2)²
pub proof fn lemma_root_consts()
    ensures B() / 2 == @HALFB@, 2 * (B() / 2) == B(), (B() / 4) * B() == (B() / 2) * (B() / 2), B() >= 16,
{
    assert(B() / 2 == @HALFB@) by (compute);
    assert((B() / 4) * B() == (B() / 2) * (B() / 2)) by (compute);
}

/// core `<[T]>::fill`: every element becomes `value` (definition in `core`, TRUSTED)
pub assume_specification<T: Clone> [<[T]>::fill] (s: &mut [T], value: T)
    ensures final(s)@.len() == old(s)@.len(), forall|i: int| 0 <= i < old(s)@.len() ==> final(s)@[i] == value;

/// (bit as Word) << (BITS − 1)  =  bit · B/2, a multiple of 2^(BITS−1)
pub proof fn lemma_root_top_bit_word(x: bool)
    ensures (((x as Word) << (@BITS@ - 1)) as int) == b2i(x) * @HALFB@,
{
    let w = x as Word;
    assert((w << (@BITS@ - 1)) == w * @HALFB@) by (bit_vector) requires w <= 1;
}

/// w & 1 != 0  <==>  w odd
pub proof fn lemma_root_low_bit(w: Word)
    ensures ((w & 1) != 0) == ((w as int) % 2 == 1),
{
    assert(((w & 1) != 0) == (w % 2 == 1)) by (bit_vector);
}

/// 2^(BITS−1) = B/2
pub proof fn lemma_root_pow2_half()
    ensures pow2(@BITS@ - 1) == @HALFB@, pow2((WORD_BITS - 1) as int) == @HALFB@,
{
    assert(pow2(@BITS@ - 1) == @HALFB@) by (compute);
}
